/-
  C10 inherits the soundness of the ROW and ROW-NAMESPACE-DATA containers (C05 `row_sound_eds`, C06 `row_nsdata_sound`)
  through the multihasher.  This file holds the glue:

  * `hashBlock_ok`        : what an `Ok(hash)` of the macro body `hash_shwap_block!` means, step by step (any kind);
  * `rowVerify_bridge`    : group D3's `Decoders.rowVerify` accepts ⇒ group D's `Row.verify` (the function C05 is about) accepts;
  * `rndVerify_bridge`    : `Decoders.rndVerify` accepts ⇒ `NsData.rowVerify` (the function C06 is about) accepts
                            (through `Proofs/DecodersBridge.lean`: the two transcriptions of lumina's wrapper are equal);
  * `rowFromRaw_sizes`    : a decoded row holds 512-byte shares;
  * `rndFromRaw_proofOK`  : a decoded row-namespace-data container has a proof meeting C06's `ProofOK`;
  * `rndId_ns_length`     : the namespace of a row-namespace-data identifier parsed from a CID has 29 bytes.
  Owner: group D2 (strengthening S2).
-/
import Lumina.Proofs.ShwapSound
import Lumina.Proofs.DecodersBridge
import Lumina.Props.C05
import Lumina.Props.C06
import Lumina.Props.C14

namespace Lumina.Proofs.ShwapSoundRows
open Lumina.Util Lumina.Model.Nmt Lumina.Model.Eds Lumina.Model.ShwapId Lumina.Model.Decoders Lumina.Model.ShwapHasher
open Lumina.Proofs.Nmt Lumina.Proofs.Eds Lumina.Proofs.ShwapSound Lumina.Gen.C15

/-- `Ok(hash)` of the macro body: every step succeeded, in the macro's order, and the hash is the identifier's multihash -/
theorem hashBlock_ok {Id C : Type} {K : Kind Id C} {db : Bytes → Option (Bytes × Bytes)} {store : Nat → Option Dah}
    {input h : Bytes} (hok : hashBlock K db store input = .ok h) :
    ∃ cidB cont cid id c dah, db input = some (cidB, cont) ∧ Cid.read cidB = some cid ∧ K.ofCid cid = .ok id ∧
      K.decode id cont = .ok c ∧ store (K.height id) = some dah ∧ K.verify c id dah = .ok () ∧
      h = mhBytes (K.toCid id) := by
  unfold hashBlock at hok
  cases hdb : db input with
  | none => simp [hdb] at hok
  | some blk =>
    obtain ⟨cidB, cont⟩ := blk
    simp only [hdb] at hok
    cases hcid : Cid.read cidB with
    | none => simp [hcid] at hok
    | some cid =>
      simp only [hcid] at hok
      cases hid : K.ofCid cid with
      | error er => simp [hid] at hok
      | ok id =>
        simp only [hid] at hok
        cases hdec : K.decode id cont with
        | err => simp [hdec] at hok
        | panic st => simp [hdec] at hok
        | ok c =>
          simp only [hdec] at hok
          cases hst : store (K.height id) with
          | none => simp [hst] at hok
          | some dah =>
            simp only [hst] at hok
            cases hv : K.verify c id dah with
            | err => simp [hv] at hok
            | panic st => simp [hv] at hok
            | ok u =>
              simp only [hv, Except.ok.injEq] at hok
              exact ⟨cidB, cont, cid, id, c, dah, rfl, hcid, hid, hdec, hst, hv, hok.symm⟩

/-! ## `collectOut` -/

theorem collectOut_ok {α β} {f : α → Out β} : ∀ {l : List α} {ys : List β}, collectOut f l = .ok ys →
    ∀ y ∈ ys, ∃ x ∈ l, f x = .ok y
  | [], ys, h, y, hy => by
    simp only [collectOut, Out.ok.injEq] at h
    subst h
    simp at hy
  | x :: xs, ys, h, y, hy => by
    simp only [collectOut] at h
    cases hx : f x with
    | err => simp [hx] at h
    | panic s => simp [hx] at h
    | ok y0 =>
      simp only [hx] at h
      cases hr : collectOut f xs with
      | err => simp [hr] at h
      | panic s => simp [hr] at h
      | ok ys0 =>
        simp only [hr, Out.ok.injEq] at h
        subst h
        rcases List.mem_cons.mp hy with rfl | hy
        · exact ⟨x, by simp, hx⟩
        · obtain ⟨x', hx', hf⟩ := collectOut_ok hr y hy
          exact ⟨x', by simp [hx'], hf⟩

theorem shareFromRaw_size {d : Bytes} {s : Share} (h : Lumina.Model.Sample.shareFromRaw d = .ok s) :
    s.data.length = SHARE_SIZE := by
  unfold Lumina.Model.Sample.shareFromRaw at h
  split at h
  · cases h
  · rename_i hl
    split at h
    · cases h
    · injection h with h; subst h; simpa using hl

theorem shareParity_size {d : Bytes} {s : Share} (h : Lumina.Model.Sample.shareParity d = .ok s) :
    s.data.length = SHARE_SIZE := by
  unfold Lumina.Model.Sample.shareParity at h
  split at h
  · cases h
  · rename_i hl; injection h with h; subst h; simpa using hl

/-! ## rows -/

/-- a decoded row holds 512-byte shares -/
theorem rowFromRaw_sizes {c : Codec} {i : Nat} {raw : RawRow} {r : Lumina.Model.Decoders.Row}
    (h : rowFromRaw c i raw = .ok r) : ∀ sh ∈ r, sh.data.length = SHARE_SIZE := by
  unfold rowFromRaw rowFromRawWith at h
  simp only at h
  split at h
  · cases h
  · generalize (if raw.side = 1 then leoReconstruct c (List.replicate raw.halves.length [] ++ raw.halves) raw.halves.length
        else leoEncode c (raw.halves ++ List.replicate raw.halves.length (List.replicate SHARE_SIZE 0)) raw.halves.length) = o at h
    cases o with
    | err => simp [Out.bind] at h
    | panic s => simp [Out.bind] at h
    | ok shards =>
      simp only [Out.bind, rowShares] at h
      intro sh hsh
      obtain ⟨p, _, hp⟩ := collectOut_ok h sh hsh
      split at hp
      · rename_i s hs
        injection hp with hp
        subst hp
        split at hs
        · exact shareFromRaw_size hs
        · exact shareParity_size hs
      · cases hp

/-- group D3's transcription of `Row::verify` accepts only what group D's (the one C05 is about) accepts -/
theorem rowVerify_bridge {H : HashFn} {r : Lumina.Model.Decoders.Row} {i : Nat} {dah : Dah}
    (h : rowVerify H r i dah = .ok ()) : Lumina.Model.Row.verify H ⟨r⟩ i dah = .ok () := by
  unfold rowVerify at h
  unfold Lumina.Model.Row.verify
  cases hp : pushLeaves H (r.map Share.leaf) with
  | none => simp [hp] at h
  | some hs =>
    simp only [hp] at h ⊢
    cases hr : dah.rowRoot? i with
    | none => simp [hr] at h
    | some root =>
      simp only [hr] at h ⊢
      cases hc : computeRoot H true hs with
      | error er => cases er <;> simp [hc, ofNmt, Out.bind] at h
      | ok t =>
        simp only [hc, ofNmt, Out.bind] at h ⊢
        split at h
        · cases h
        · rename_i hne; simp [hne]

/-! ## row namespace data -/

theorem proofFromRaw_ok {rp : RawProof} {q : NsProof} (h : proofFromRaw rp = .ok q) :
    Lumina.Proofs.NsData.ProofOK q := by
  unfold proofFromRaw at h
  cases ho : NsProof.ofRaw rp.start rp.end_ rp.nodes rp.leafHash rp.ign with
  | none => simp [ho] at h
  | some q' =>
    simp only [ho, Out.ok.injEq] at h
    subst h
    refine ⟨ofRaw_WF ho, ?_, ?_, ?_⟩
    · intro l hl
      unfold NsProof.ofRaw at ho
      cases hp : parseNodes rp.nodes with
      | none => simp [hp] at ho
      | some sibs =>
        simp only [hp] at ho
        split at ho
        · injection ho with ho; subst ho; cases hl
        · cases hlf : NsHash.ofBytes? rp.leafHash with
          | none => simp [hlf] at ho
          | some lf =>
            simp only [hlf, Option.some.injEq] at ho
            subst ho
            simp only [Option.some.injEq] at hl
            subst hl
            exact ofBytes?_WF hlf
    all_goals
      unfold NsProof.ofRaw at ho
      cases hp : parseNodes rp.nodes with
      | none => simp [hp] at ho
      | some sibs =>
        simp only [hp] at ho
        split at ho
        · injection ho with ho; subst ho; simp only [U32_MAX]; omega
        · cases hlf : NsHash.ofBytes? rp.leafHash with
          | none => simp [hlf] at ho
          | some lf =>
            simp only [hlf, Option.some.injEq] at ho
            subst ho
            simp only [U32_MAX]; omega

/-- a decoded row-namespace-data container: the proof meets `ProofOK` (sizes the Rust types guarantee) -/
theorem rndFromRaw_proofOK {ns : Bytes} {raw : RawRnd} {d : Rnd} (h : rndFromRaw ns raw = .ok d) :
    Lumina.Proofs.NsData.ProofOK d.proof := by
  unfold rndFromRaw at h
  cases hp : raw.proof with
  | none => simp [hp] at h
  | some rp =>
    simp only [hp] at h
    generalize collectOut _ raw.shares = o at h
    cases o with
    | err => simp [Out.bind] at h
    | panic s => simp [Out.bind] at h
    | ok shares =>
      simp only [Out.bind] at h
      split at h
      · cases h
      · cases hq : proofFromRaw rp with
        | err => simp [hq] at h
        | panic s => simp [hq] at h
        | ok q =>
          simp only [hq, Out.ok.injEq] at h
          subst h
          exact proofFromRaw_ok hq

/-- group D3's transcription of `RowNamespaceData::verify` accepts only what group D's (the one C06 is about) accepts -/
theorem rndVerify_bridge {H : HashFn} {d : Rnd} {ns : Bytes} {row : Nat} {dah : Dah}
    (h : rndVerify H d ns row dah = .ok ()) :
    Lumina.Model.NsData.rowVerify H ⟨d.proof, d.shares⟩ ns row dah = .ok () := by
  unfold rndVerify rndVerifyWith at h
  unfold Lumina.Model.NsData.rowVerify
  simp only
  split at h
  · cases h
  · rename_i hw
    rw [if_neg hw]
    cases hr : dah.rowRoot? row with
    | none => simp [hr] at h
    | some root =>
      simp only [hr] at h ⊢
      rw [Lumina.Proofs.Decoders.luminaVerifyCompleteNamespace_eq]
      cases hv : safeVerifyCompleteNamespace H d.proof root (d.shares.map Share.data) ns with
      | ok u => rfl
      | error er => rw [hv] at h; cases er <;> simp [ofNmt] at h

theorem namespace_fromRaw_ok {bs n : Bytes} (h : Lumina.Model.Namespace.fromRaw bs = .ok n) :
    n = bs ∧ bs.length = NS_SIZE := by
  have hs := Lumina.Props.C14.fromRaw_spec bs
  rw [h] at hs
  simp only [Lumina.Props.C14.obsOf, Lumina.Spec.C14.specFromRaw, Bool.and_eq_true, beq_iff_eq] at hs
  refine ⟨hs.2, ?_⟩
  unfold Lumina.Model.Namespace.fromRaw at h
  split at h
  · cases h
  · rename_i hl
    simpa [Lumina.Gen.C14.NS_SIZE, NS_SIZE] using hl

/-- the namespace of a row-namespace-data identifier parsed from a CID has 29 bytes -/
theorem rndId_ns_length {cid : Cid} {id : RowNamespaceDataId} (h : RowNamespaceDataId.ofCid cid = .ok id) :
    id.ns.length = NS_SIZE := by
  unfold RowNamespaceDataId.ofCid Lumina.Model.ShwapId.ofCid at h
  split at h
  · cases h
  · split at h
    · cases h
    · split at h
      · cases h
      · cases hd : RowNamespaceDataId.decode cid.digest with
        | error er => simp [hd] at h
        | ok id' =>
          simp only [hd, Except.ok.injEq] at h
          subst h
          unfold RowNamespaceDataId.decode at hd
          split at hd
          · cases hd
          · cases hr : RowId.decode (cid.digest.take ROW_ID_SIZE) with
            | error er => simp [hr] at hd
            | ok r =>
              simp only [hr] at hd
              cases hn : Lumina.Model.Namespace.fromRaw (cid.digest.drop ROW_ID_SIZE) with
              | error er => simp [hn] at hd
              | ok n =>
                simp only [hn, Except.ok.injEq] at hd
                subst hd
                obtain ⟨e1, e2⟩ := namespace_fromRaw_ok hn
                simp only
                rw [e1]; exact e2

/-! ## the byte strings hashed when an accepted block is verified (audit repair X1: relative collision-freeness) -/

/-- the inputs the multihasher's `Row::verify` hashes for this block: the leaf and inner-node preimages of the row tree
    it rebuilds from the decoded shares (`[]` when the block does not decode to a row, in which case nothing is hashed) -/
def rowBlockInputs (H : HashFn) (P : Params) (input : Bytes) : List Bytes :=
  match P.decodeBlock input with
  | none => []
  | some (cidB, cont) =>
    match Cid.read cidB with
    | none => []
    | some cid =>
      match RowId.ofCid cid with
      | .error _ => []
      | .ok id =>
        match P.decodeRow cont with
        | none => []
        | some raw =>
          match rowFromRaw P.codec id.index raw with
          | .ok r => Lumina.Proofs.Row.rowInputs H r
          | _ => []

theorem rowBlockInputs_eq {H : HashFn} {P : Params} {input cidB cont : Bytes} {cid : Cid} {id : RowId} {raw : RawRow}
    {r : Lumina.Model.Decoders.Row} (h1 : P.decodeBlock input = some (cidB, cont)) (h2 : Cid.read cidB = some cid)
    (h3 : RowId.ofCid cid = .ok id) (h4 : P.decodeRow cont = some raw) (h5 : rowFromRaw P.codec id.index raw = .ok r) :
    rowBlockInputs H P input = Lumina.Proofs.Row.rowInputs H r := by
  simp only [rowBlockInputs, h1, h2, h3, h4, h5]

/-- the inputs the multihasher's `RowNamespaceData::verify` hashes for this block: the claimed leaves' preimages (under
    the namespace of the block's own CID) and the `hash_nodes` calls of the range-proof check (`[]` when the block does not
    decode to a row-namespace-data container) -/
def rndBlockInputs (H : HashFn) (P : Params) (input : Bytes) : List Bytes :=
  match P.decodeBlock input with
  | none => []
  | some (cidB, cont) =>
    match Cid.read cidB with
    | none => []
    | some cid =>
      match RowNamespaceDataId.ofCid cid with
      | .error _ => []
      | .ok id =>
        match P.decodeRnd cont with
        | none => []
        | some raw =>
          match rndFromRaw id.ns raw with
          | .ok d => Lumina.Proofs.NmtRange.vcnInputs H d.proof (d.shares.map Share.data) id.ns
          | _ => []

theorem rndBlockInputs_eq {H : HashFn} {P : Params} {input cidB cont : Bytes} {cid : Cid} {id : RowNamespaceDataId}
    {raw : RawRnd} {d : Rnd} (h1 : P.decodeBlock input = some (cidB, cont)) (h2 : Cid.read cidB = some cid)
    (h3 : RowNamespaceDataId.ofCid cid = .ok id) (h4 : P.decodeRnd cont = some raw) (h5 : rndFromRaw id.ns raw = .ok d) :
    rndBlockInputs H P input = Lumina.Proofs.NmtRange.vcnInputs H d.proof (d.shares.map Share.data) id.ns := by
  simp only [rndBlockInputs, h1, h2, h3, h4, h5]

end Lumina.Proofs.ShwapSoundRows

/-
  C46 helper lemmas: `fromRaw (toRaw x) = x` for the lumina-owned conversion layers.
-/
import Lumina.Model.RoundTrip
import Lumina.Proofs.Namespace
import Lumina.Proofs.Ranges

namespace Lumina.Proofs.RoundTrip
open Lumina.Util Lumina.Model.Nmt Lumina.Model.Eds Lumina.Model.Decoders Lumina.Model.RoundTrip
open Lumina.Model

/-! ## namespaced hashes -/

theorem ofBytes_toBytes {h : NsHash} (w : h.WF) : NsHash.ofBytes? h.toBytes = some h := by
  obtain ⟨h1, h2, h3⟩ := w
  unfold NsHash.ofBytes? NsHash.toBytes
  have hl : (h.minNs ++ h.maxNs ++ h.hash).length = NAMESPACED_HASH_SIZE := by
    simp [h1, h2, h3, NAMESPACED_HASH_SIZE, NS_SIZE, HASH_LEN]
  simp only [hl, ↓reduceIte]
  have e1 : (h.minNs ++ h.maxNs ++ h.hash).take NS_SIZE = h.minNs := by
    rw [List.append_assoc, List.take_append_of_le_length (by omega), List.take_of_length_le (by omega)]
  have e2 : ((h.minNs ++ h.maxNs ++ h.hash).drop NS_SIZE).take NS_SIZE = h.maxNs := by
    rw [List.append_assoc, List.drop_append_of_le_length (by omega), List.drop_of_length_le (by omega), List.nil_append,
      List.take_append_of_le_length (by omega), List.take_of_length_le (by omega)]
  have e3 : (h.minNs ++ h.maxNs ++ h.hash).drop (2 * NS_SIZE) = h.hash := by
    have : (h.minNs ++ h.maxNs).length = 2 * NS_SIZE := by simp [h1, h2]; omega
    rw [← this, List.drop_left]
  rw [e1, e2, e3]

theorem toBytes_length {h : NsHash} (w : h.WF) : h.toBytes.length = 90 := by
  obtain ⟨h1, h2, h3⟩ := w
  simp [NsHash.toBytes, h1, h2, h3, NS_SIZE, HASH_LEN]

theorem parseNodes_toBytes : ∀ {sibs : List NsHash}, (∀ p ∈ sibs, p.WF) → parseNodes (sibs.map NsHash.toBytes) = some sibs := by
  intro sibs
  induction sibs with
  | nil => intro _; rfl
  | cons x xs ih =>
    intro h
    simp only [List.map_cons, parseNodes]
    rw [ofBytes_toBytes (h x List.mem_cons_self), ih (fun p hp => h p (List.mem_cons_of_mem _ hp))]

theorem optMapM_map {α β} (f : α → β) (g : β → Option α) : ∀ (l : List α), (∀ x ∈ l, g (f x) = some x) →
    optMapM g (l.map f) = some l := by
  intro l
  induction l with
  | nil => intro _; rfl
  | cons x xs ih =>
    intro h
    simp only [List.map_cons, optMapM]
    rw [h x List.mem_cons_self, ih (fun y hy => h y (List.mem_cons_of_mem _ hy))]

/-! ## DAH -/

theorem dah_roundtrip (d : Dah) (hr : ∀ h ∈ d.rowRoots, h.WF) (hc : ∀ h ∈ d.colRoots, h.WF) :
    dahFromRaw (dahToRaw d) = some d := by
  unfold dahFromRaw dahToRaw
  simp only [parseNodes_toBytes hr, parseNodes_toBytes hc]

/-! ## shares -/

/-- a share as `Share::from_raw` makes it -/
def ValidShare (s : Share) : Prop :=
  s.isParity = false ∧ s.data.length = SHARE_SIZE ∧ ∃ ns, Namespace.fromRaw (s.data.take NS_SIZE) = .ok ns

theorem share_roundtrip (s : Share) (h : ValidShare s) : shareFromRaw (shareToRaw s) = some s := by
  obtain ⟨h1, h2, ns, h3⟩ := h
  unfold shareFromRaw shareToRaw Lumina.Model.Sample.shareFromRaw
  have : ¬ s.data.length ≠ SHARE_SIZE := by simp [h2]
  simp only [this, ↓reduceIte, h3]
  cases s
  simp_all

/-! ## namespace proofs -/

/-- a proof value as the Rust types allow it: `u32` range, 90-byte nodes, a leaf exactly for absence proofs
    (`AbsenceProof { leaf: None }` is the value excluded here) -/
def WFProof (p : NsProof) : Prop :=
  p.start < 2 ^ 32 ∧ p.end_ < 2 ^ 32 ∧ (∀ s ∈ p.siblings, s.WF) ∧
  (if p.isAbsence = true then ∃ l, p.leaf = some l ∧ l.WF else p.leaf = none)

theorem ofRaw_toRaw (p : NsProof) (h : WFProof p) :
    NsProof.ofRaw p.start p.end_ (p.siblings.map NsHash.toBytes) (proofLeafBytes p) p.ignoreMaxNs = some p := by
  obtain ⟨h1, h2, h3, h4⟩ := h
  unfold NsProof.ofRaw proofLeafBytes proofLeaf
  rw [parseNodes_toBytes h3]
  simp only
  have m1 : p.start % 4294967296 = p.start := Nat.mod_eq_of_lt h1
  have m2 : p.end_ % 4294967296 = p.end_ := Nat.mod_eq_of_lt h2
  by_cases ha : p.isAbsence = true
  · simp only [ha, ↓reduceIte] at h4 ⊢
    obtain ⟨l, hl, hw⟩ := h4
    rw [hl]
    simp only
    have hne : l.toBytes.isEmpty = false := by
      cases hb : l.toBytes with
      | nil => have := toBytes_length hw; rw [hb] at this; simp at this
      | cons _ _ => rfl
    simp only [hne, Bool.false_eq_true, ↓reduceIte, ofBytes_toBytes hw, m1, m2]
    cases p
    simp_all
  · simp only [ha, Bool.false_eq_true, ↓reduceIte] at h4 ⊢
    simp only [List.isEmpty_nil, ↓reduceIte, m1, m2]
    cases p
    simp_all

theorem proof_roundtrip (p : NsProof) (h : WFProof p) : proofFromRaw (proofToRaw p) = .ok p := by
  simp only [proofFromRaw, proofToRaw]
  rw [ofRaw_toRaw p h]

theorem toU32_toI32 (n : Nat) (h : n < 2 ^ 32) : toU32 (toI32 (n : Int)) = n := by
  unfold toU32 toI32
  simp only
  split <;> omega

theorem nmtproof_roundtrip (p : NsProof) (h : WFProof p) (hi : p.ignoreMaxNs = true) :
    nmtProofFromRaw (nmtProofToRaw p) = some p := by
  unfold nmtProofFromRaw nmtProofToRaw proofToRaw
  simp only [toU32_toI32 _ h.1, toU32_toI32 _ h.2.1]
  have := ofRaw_toRaw p h
  rw [hi] at this
  exact this

/-! ## merkle proofs, row proofs -/

def ValidMerkle (p : MerkleProof) : Prop :=
  p.index < 2 ^ 63 ∧ 1 ≤ p.total ∧ p.total < 2 ^ 63 ∧ p.leafHash.length = 32 ∧ ∀ a ∈ p.aunts, a.length = 32

theorem merkle_roundtrip (p : MerkleProof) (h : ValidMerkle p) : merkleFromRaw (merkleToRaw p) = some p := by
  obtain ⟨h1, h2, h3, h4, h5⟩ := h
  unfold merkleFromRaw merkleToRaw usizeToI64
  have i1 : p.index < 9223372036854775808 := by simpa using h1
  have i2 : p.total < 9223372036854775808 := by simpa using h3
  simp only [i1, i2, ↓reduceIte]
  have n1 : ¬ ((p.index : Int) < 0) := by omega
  have n2 : ¬ ((p.total : Int) ≤ 0) := by omega
  have n3 : ¬ p.leafHash.length ≠ 32 := by simp [h4]
  have n4 : p.aunts.any (fun a => a.length != 32) = false := by
    rw [List.any_eq_false]
    intro a ha
    simp [h5 a ha]
  simp only [n1, n2, n3, n4, ↓reduceIte, Bool.false_eq_true, Int.toNat_natCast]

def ValidRowProof (p : RowProof) : Prop :=
  (∀ h ∈ p.rowRoots, h.WF) ∧ (∀ m ∈ p.proofs, ValidMerkle m) ∧ p.startRow ≤ 65535 ∧ p.endRow ≤ 65535

theorem rowproof_roundtrip (p : RowProof) (h : ValidRowProof p) : rowProofFromRaw (rowProofToRaw p) = some p := by
  obtain ⟨h1, h2, h3, h4⟩ := h
  unfold rowProofFromRaw rowProofToRaw
  simp only [parseNodes_toBytes h1, optMapM_map merkleToRaw merkleFromRaw p.proofs (fun m hm => merkle_roundtrip m (h2 m hm))]
  have n1 : ¬ p.startRow > 65535 := by omega
  have n2 : ¬ p.endRow > 65535 := by omega
  simp only [n1, n2, ↓reduceIte]

/-! ## share proofs -/

/-- `Namespace::new(ns.version(), ns.id())` gives the namespace back -/
theorem namespace_new_parts (ns : Bytes) (h : Namespace.fromRaw ns = .ok ns) :
    Namespace.new (UInt8.ofNat (Namespace.version ns).toNat) (Namespace.idBytes ns) = .ok ns := by
  unfold Namespace.fromRaw at h
  split at h
  · cases h
  · cases ns with
    | nil => simp at h
    | cons v id =>
      simp only at h
      simpa [Namespace.version, Namespace.idBytes] using h

def ValidShareProof (p : ShareProof) : Prop :=
  (∀ d ∈ p.data, d.length = SHARE_SIZE) ∧ Namespace.fromRaw p.namespaceId = .ok p.namespaceId ∧
  (∀ q ∈ p.shareProofs, WFProof q ∧ q.ignoreMaxNs = true) ∧ ValidRowProof p.rowProof

theorem shareproof_roundtrip (p : ShareProof) (h : ValidShareProof p) :
    shareProofFromRaw (shareProofToRaw p) = some p := by
  obtain ⟨h1, h2, h3, h4⟩ := h
  unfold shareProofFromRaw shareProofToRaw
  have n1 : p.data.any (fun d => d.length != SHARE_SIZE) = false := by
    rw [List.any_eq_false]
    intro d hd
    simp [h1 d hd]
  have n2 : ¬ (Namespace.version p.namespaceId).toNat > 255 := by
    have := UInt8.toNat_lt (Namespace.version p.namespaceId); omega
  simp only [n1, Bool.false_eq_true, ↓reduceIte, n2, namespace_new_parts _ h2,
    optMapM_map nmtProofToRaw nmtProofFromRaw p.shareProofs (fun q hq => nmtproof_roundtrip q (h3 q hq).1 (h3 q hq).2),
    rowproof_roundtrip _ h4]

/-! ## bad encoding fraud proofs -/

def ValidSwp (s : ShareWithProof) : Prop :=
  Namespace.fromRaw s.ns = .ok s.ns ∧ s.share.length = SHARE_SIZE ∧ WFProof s.proof ∧ s.proof.isAbsence = false

def ValidBefp (p : BefpFull) : Prop :=
  (∀ h, p.headerHash = some h → h.length = 32) ∧ p.befp.height ≤ I64_MAX ∧ p.befp.index ≤ U16_MAX ∧
  (∀ s, some s ∈ p.befp.shares → ValidSwp s)

theorem axis_roundtrip (a : Axis) : axisOfI32 (axisToI32 a) = some a := by
  cases a <;> rfl

theorem namespace_length {ns : Bytes} (h : Namespace.fromRaw ns = .ok ns) : ns.length = NS_SIZE := by
  unfold Namespace.fromRaw at h
  split at h
  · cases h
  · rename_i hl
    simp only [ne_eq, Decidable.not_not] at hl
    exact hl

theorem swp_roundtrip (s : ShareWithProof) (h : ValidSwp s) :
    shareWithProofFromRaw ⟨s.ns ++ s.share, some (proofToRaw s.proof), axisToI32 s.proofAxis⟩ (proofToRaw s.proof) = .ok s := by
  obtain ⟨h1, h2, h3, h4⟩ := h
  have hl := namespace_length h1
  unfold shareWithProofFromRaw
  have n1 : ¬ (s.ns ++ s.share).length ≠ NMT_LEAF_SIZE := by
    simp [hl, h2, NMT_LEAF_SIZE, NS_SIZE, SHARE_SIZE]
  have e1 : (s.ns ++ s.share).take NS_SIZE = s.ns := by rw [← hl, List.take_left]
  have e2 : (s.ns ++ s.share).drop NS_SIZE = s.share := by rw [← hl, List.drop_left]
  simp only [n1, ↓reduceIte, e1, e2, h1, proof_roundtrip _ h3, Out.bind, h4, Bool.false_eq_true, axis_roundtrip]

theorem collectOut_map {α β} (f : β → Out α) (m : α → β) : ∀ (l : List α), (∀ x ∈ l, f (m x) = .ok x) →
    collectOut f (l.map m) = .ok l := by
  intro l
  induction l with
  | nil => intro _; rfl
  | cons x xs ih =>
    intro h
    simp only [List.map_cons, collectOut]
    rw [h x List.mem_cons_self, ih (fun y hy => h y (List.mem_cons_of_mem _ hy))]

theorem befp_shares_roundtrip (shares : List (Option ShareWithProof)) (h : ∀ s, some s ∈ shares → ValidSwp s) :
    collectOut befpShareFromRaw (shares.map befpShareToRaw) = .ok shares := by
  apply collectOut_map
  intro o ho
  cases o with
  | none => rfl
  | some s =>
    simp only [befpShareToRaw, befpShareFromRaw]
    rw [swp_roundtrip s (h s ho)]
    rfl

theorem befp_core_roundtrip (p : BefpFull) (h : ValidBefp p) : befpFromRaw (befpToRaw p) = .ok p.befp := by
  obtain ⟨h1, h2, h3, h4⟩ := h
  have n1 : ¬ p.befp.index > U16_MAX := by omega
  have n2 : ¬ p.befp.height > I64_MAX := by omega
  have n3 : ¬ ((p.headerHash.getD []).length ≠ 0 ∧ (p.headerHash.getD []).length ≠ 32) := by
    cases hh : p.headerHash with
    | none => simp
    | some hsh => simp [h1 hsh hh]
  simp only [befpFromRaw, befpToRaw, axis_roundtrip, n1, ↓reduceIte]
  rw [befp_shares_roundtrip _ h4]
  simp only [Out.bind, n2, n3, ↓reduceIte]

theorem befp_roundtrip (p : BefpFull) (h : ValidBefp p) : befpFromRawFull (befpToRaw p) = some p := by
  unfold befpFromRawFull
  rw [befp_core_roundtrip p h]
  simp only
  obtain ⟨h1, _, _, _⟩ := h
  cases p with
  | mk hash befp =>
    cases hash with
    | none => simp [befpToRaw]
    | some hsh =>
      have := h1 hsh rfl
      simp [befpToRaw, this]

/-! ## hexstring -/

theorem hexUpperVal_digit (n : Nat) (h : n < 16) : hexUpperVal (hexUpperDigit n) = some n := by
  have : n = 0 ∨ n = 1 ∨ n = 2 ∨ n = 3 ∨ n = 4 ∨ n = 5 ∨ n = 6 ∨ n = 7 ∨ n = 8 ∨ n = 9 ∨ n = 10 ∨ n = 11 ∨
      n = 12 ∨ n = 13 ∨ n = 14 ∨ n = 15 := by omega
  rcases this with e | e | e | e | e | e | e | e | e | e | e | e | e | e | e | e <;> subst e <;> decide

theorem hex_roundtrip : ∀ bs : Bytes, hexUpperDecode (hexUpperEncode bs) = some bs := by
  intro bs
  induction bs with
  | nil => rfl
  | cons b rest ih =>
    simp only [hexUpperEncode, hexUpperDecode]
    have hb := UInt8.toNat_lt b
    rw [hexUpperVal_digit _ (by omega), hexUpperVal_digit _ (by omega), ih]
    simp only [Option.some.injEq, List.cons.injEq, and_true]
    have : b.toNat / 16 * 16 + b.toNat % 16 = b.toNat := by omega
    rw [this]
    exact UInt8.ofNat_toNat

/-! ## fraud proofs in JSON -/

/-- what is assumed of prost, for the one message at hand: decoding what it encoded gives the message back -/
def PbRoundTripOn (pb : PbCodec) (r : RawBefp) : Prop := pb.dec (pb.enc r) = some r

theorem fraud_raw_roundtrip (pb : PbCodec) (p : BefpFull) (hpb : PbRoundTripOn pb (befpToRaw p)) (h : ValidBefp p) :
    fraudFromRaw pb (fraudToRaw pb p) = some p := by
  unfold PbRoundTripOn at hpb
  simp only [fraudFromRaw, fraudToRaw, ↓reduceIte, hpb]
  exact befp_roundtrip p h

theorem fraud_json_roundtrip (pb : PbCodec) (p : BefpFull) (hpb : PbRoundTripOn pb (befpToRaw p)) (h : ValidBefp p) :
    fraudFromJson pb (fraudToJson pb p) = some p := by
  simp only [fraudFromJson, fraudToJson, Lumina.Proofs.Namespace.b64_roundtrip]
  exact fraud_raw_roundtrip pb p hpb h

theorem fraud_unknown_type_rejected (pb : PbCodec) (r : RawFraudProof) (h : r.proofType ≠ BEFP_TYPE) :
    fraudFromRaw pb r = none := by
  simp [fraudFromRaw, h]

end Lumina.Proofs.RoundTrip

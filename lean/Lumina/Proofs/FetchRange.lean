/-
  `calculate_range_to_fetch` (C24): the three cases of the function on an `Inv` synced value, and
  the clauses of `Spec/C24.lean` for each.  Core Lean only.
-/
import Lumina.Proofs.RangesSpec
import Lumina.Model.FetchRange
import Lumina.Spec.C24

namespace Lumina.Proofs.FetchRange
open Lumina.Model.Ranges hiding Inv
open Lumina.Model.FetchRange
open Lumina.Proofs.Ranges
open Lumina.Spec.C24

local notation "RInv" => Lumina.Model.Ranges.Inv

attribute [local simp] ok_bind err_bind map_ok map_err pure_eq throw_eq

/-- all clauses hold ⇒ nothing fails -/
theorem failing_nil {head limit : Nat} {synced : Ranges} {b : Range} (hne : ¬ b.2 < b.1)
    (h0 : Lumina.Spec.C17.validR b = true) (h1 : clauseMissing synced b = true)
    (h2 : clauseSize limit b = true) (h3 : clauseHead head b = true)
    (h4 : clauseAnchor head synced b = true) (h5 : clauseMax head synced limit b = true)
    (h6 : clauseInsertable synced b = true) : failing head synced limit b = [] := by
  simp [failing, hne, h0, h1, h2, h3, h4, h5, h6]

/-- all clauses but (c) hold ⇒ at most `head` fails -/
theorem failing_head {head limit : Nat} {synced : Ranges} {b : Range} (hne : ¬ b.2 < b.1)
    (h0 : Lumina.Spec.C17.validR b = true) (h1 : clauseMissing synced b = true)
    (h2 : clauseSize limit b = true)
    (h4 : clauseAnchor head synced b = true) (h5 : clauseMax head synced limit b = true)
    (h6 : clauseInsertable synced b = true) :
    failing head synced limit b = if clauseHead head b then [] else ["head"] := by
  simp [failing, hne, h0, h1, h2, h4, h5, h6]

theorem failing_nobatch {head limit : Nat} {synced : Ranges} {b : Range} (he : b.2 < b.1)
    (h : clauseNoBatch head synced limit = true) : failing head synced limit b = [] := by
  simp [failing, he, h]

theorem tailn_zero (r : Range) : Range.tailn r 0 = (1, 0) := by
  unfold Range.tailn
  by_cases c : Range.isEmpty r = true
  · simp [c]
  · simp [c, checkedSub]

theorem top_concat (ys : Ranges) (hr : Range) : top (ys ++ [hr]) = some hr.2 := by
  simp [top]

/-- the ranges below the highest one end below it -/
theorem below_last {ys : Ranges} {hr : Range} (hi : RInv (ys ++ [hr])) :
    ∀ x ∈ ys ++ [hr], x.2 ≤ hr.2 := fun x hx => (inv_le_last hi x hx).2

/-- admitted (C18 rule) when the batch lies entirely above every synced height -/
theorem admitted_above {synced : Ranges} {b : Range} (hv : Lumina.Spec.C17.validR b = true)
    (h : ∀ x ∈ synced, x.2 < b.1) : clauseInsertable synced b = true := by
  simp only [clauseInsertable, Lumina.Spec.C18.admitted, hv, Bool.true_and, Bool.and_eq_true,
    Bool.not_eq_true']
  constructor
  · simp only [Lumina.Spec.C18.sharesHeight, List.any_eq_false, Bool.and_eq_true, decide_eq_true_eq,
      not_and]
    intro x hx _
    have := h x hx; omega
  · simp only [Lumina.Spec.C18.placementOk, Bool.or_eq_true]
    left; right
    simp only [Lumina.Spec.C18.aboveHighest, List.all_eq_true, decide_eq_true_eq]
    exact h

/-- admitted (C18 rule) when the batch is disjoint from the synced set and the height just above
    it is synced -/
theorem admitted_below {synced : Ranges} {b : Range} (hv : Lumina.Spec.C17.validR b = true)
    (hd : ∀ x ∈ synced, x.2 < b.1 ∨ b.2 < x.1) (hn : mem synced (b.2 + 1)) :
    clauseInsertable synced b = true := by
  simp only [clauseInsertable, Lumina.Spec.C18.admitted, hv, Bool.true_and, Bool.and_eq_true,
    Bool.not_eq_true']
  constructor
  · simp only [Lumina.Spec.C18.sharesHeight, List.any_eq_false, Bool.and_eq_true, decide_eq_true_eq,
      not_and]
    intro x hx h1
    have := hd x hx; omega
  · simp only [Lumina.Spec.C18.placementOk, Lumina.Spec.C18.touchesStored, Lumina.Spec.C18.aboveStored,
      Bool.or_eq_true]
    right; right
    exact (member_iff _ _).2 hn

theorem validR_of {b : Range} (h1 : 1 ≤ b.1) (h2 : b.1 ≤ b.2) : Lumina.Spec.C17.validR b = true := by
  simp [Lumina.Spec.C17.validR, h1, h2]

/-- **the function, case by case.**  `failing` lists at most the clause `head`, and lists nothing
    when the synced set does not reach above the network head. -/
theorem calc_spec {synced : Ranges} (hi : RInv synced) (head limit : Nat) (hh : head ≤ U64_MAX) :
    ∃ b, calculateRangeToFetch head synced limit = .ok b ∧
      (failing head synced limit b = [] ∨
        (failing head synced limit b = ["head"] ∧ ∃ x, mem synced x ∧ head < x ∧ head < b.2)) := by
  rcases List.eq_nil_or_concat synced with rfl | ⟨ys, hr, rfl⟩
  · -- nothing synced
    refine ⟨Range.tailn (1, head) limit, by simp [calculateRangeToFetch], Or.inl ?_⟩
    by_cases hl : limit = 0
    · subst hl
      rw [tailn_zero]
      exact failing_nobatch (by decide) (by simp [clauseNoBatch])
    · by_cases hz : head = 0
      · subst hz
        have : Range.tailn (1, 0) limit = (1, 0) := by simp [Range.tailn, Range.isEmpty]
        rw [this]
        exact failing_nobatch (by decide) (by simp [clauseNoBatch, behind, top])
      · have hv : ValidR (1, head) := ⟨Nat.le_refl _, by show 1 ≤ head; omega, hh⟩
        rw [rangeTailn_eq hv (by omega)]
        by_cases c : head + 1 - 1 ≤ limit
        · simp only [show ((1, head) : Range).2 + 1 - ((1, head) : Range).1 ≤ limit from c, ↓reduceIte]
          apply failing_nil (by show ¬ head < 1; omega) (validR_of (Nat.le_refl _) (by show 1 ≤ head; omega))
          · simp [clauseMissing]
          · simp only [clauseSize, decide_eq_true_eq]; exact c
          · simp [clauseHead]
          · simp [clauseAnchor, behind, top]
          · simp [clauseMax, behind, top]
          · exact admitted_above (validR_of (Nat.le_refl _) (by show 1 ≤ head; omega)) (by simp)
        · simp only [show ¬ ((1, head) : Range).2 + 1 - ((1, head) : Range).1 ≤ limit from c, ↓reduceIte]
          have hb : ((1, 1 + limit - 1) : Range) = (1, limit) := by
            apply Prod.ext <;> simp
          rw [hb]
          apply failing_nil (by show ¬ limit < 1; omega) (validR_of (Nat.le_refl _) (by show 1 ≤ limit; omega))
          · simp [clauseMissing]
          · simp only [clauseSize, decide_eq_true_eq]; show limit + 1 - 1 ≤ limit; omega
          · simp only [clauseHead, decide_eq_true_eq]; show limit ≤ head; omega
          · simp [clauseAnchor, behind, top]
          · simp only [clauseMax, Bool.or_eq_true, decide_eq_true_eq]; left; show limit + 1 - 1 = limit; omega
          · exact admitted_above (validR_of (Nat.le_refl _) (by show 1 ≤ limit; omega)) (by simp)
  · rw [List.concat_eq_append] at hi ⊢
    have hvr := inv_validR hi (r := hr) (by simp)
    have hvv := hvr
    unfold ValidR at hvv
    have hrev : (ys ++ [hr]).reverse = hr :: ys.reverse := by simp
    have hbelow := below_last hi
    have hlast : (ys ++ [hr]).getLast? = some hr := List.getLast?_concat
    by_cases hbh : hr.2 < head
    · -- behind the head: continue above the highest synced height
      have hadd : addU64 hr.2 1 = .ok (hr.2 + 1) := by
        have : hr.2 + 1 ≤ U64_MAX := by omega
        simp [addU64, this]
      refine ⟨Range.tailn (hr.2 + 1, head) limit, by simp [calculateRangeToFetch, hrev, hbh, hadd], Or.inl ?_⟩
      have hbehind : behind head (ys ++ [hr]) = true := by simp [behind, top_concat, hbh]
      by_cases hl : limit = 0
      · subst hl
        rw [tailn_zero]
        exact failing_nobatch (by decide) (by simp [clauseNoBatch])
      · have hv : ValidR (hr.2 + 1, head) := ⟨by show 1 ≤ hr.2 + 1; omega, by show hr.2 + 1 ≤ head; omega, hh⟩
        rw [rangeTailn_eq hv (by omega)]
        have key : ∀ e, hr.2 + 1 ≤ e → e ≤ head → (e + 1 - (hr.2 + 1) ≤ limit) →
            (e + 1 - (hr.2 + 1) = limit ∨ e = head) →
            failing head (ys ++ [hr]) limit (hr.2 + 1, e) = [] := by
          intro e h1 h2 h3 h4
          have hvb := validR_of (b := (hr.2 + 1, e)) (by show 1 ≤ hr.2 + 1; omega) h1
          have habove : ∀ x ∈ ys ++ [hr], x.2 < ((hr.2 + 1, e) : Range).1 := fun x hx => by
            have := hbelow x hx; show x.2 < hr.2 + 1; omega
          apply failing_nil (by show ¬ e < hr.2 + 1; omega) hvb
          · simp only [clauseMissing, List.all_eq_true, Bool.or_eq_true, decide_eq_true_eq]
            exact fun x hx => Or.inl (habove x hx)
          · simp only [clauseSize, decide_eq_true_eq]; exact h3
          · simp only [clauseHead, decide_eq_true_eq]; exact h2
          · simp [clauseAnchor, hbehind, top_concat]
          · simp only [clauseMax, hbehind, ↓reduceIte, Bool.or_eq_true, decide_eq_true_eq, beq_iff_eq]
            exact h4
          · exact admitted_above hvb habove
        by_cases c : head + 1 - (hr.2 + 1) ≤ limit
        · simp only [show ((hr.2 + 1, head) : Range).2 + 1 - ((hr.2 + 1, head) : Range).1 ≤ limit from c, ↓reduceIte]
          exact key head (by omega) (Nat.le_refl _) c (Or.inr rfl)
        · simp only [show ¬ ((hr.2 + 1, head) : Range).2 + 1 - ((hr.2 + 1, head) : Range).1 ≤ limit from c, ↓reduceIte]
          show failing head (ys ++ [hr]) limit (hr.2 + 1, hr.2 + 1 + limit - 1) = []
          exact key _ (by omega) (by omega) (by omega) (Or.inl (by omega))
    · -- the highest synced range reaches the head: fill the gap below it, from the top
      have hbehind : behind head (ys ++ [hr]) = false := by simp [behind, top_concat, hbh]
      -- the end of the penultimate range (0 if none), and what is known about it
      obtain ⟨pen, hcalc, hpen1, hpen2⟩ : ∃ pen,
          calculateRangeToFetch head (ys ++ [hr]) limit =
            (addU64 pen 1 >>= fun s => Except.ok (Range.headn (s, hr.1 - 1) limit)) ∧
          (∀ x ∈ ys, x.2 ≤ pen) ∧ (pen = 0 ∧ ys = [] ∨ (mem (ys ++ [hr]) pen ∧ pen + 1 < hr.1)) := by
        rcases List.eq_nil_or_concat ys with rfl | ⟨zs, p, rfl⟩
        · exact ⟨0, by simp [calculateRangeToFetch, hbh, satSub], by simp, Or.inl ⟨rfl, rfl⟩⟩
        · rw [List.concat_eq_append] at hi ⊢
          have hiy := (inv_append.1 hi).1
          have hvp := inv_validR hiy (r := p) (by simp)
          refine ⟨p.2, by simp [calculateRangeToFetch, hbh, satSub], fun x hx => (inv_le_last hiy x hx).2,
            Or.inr ⟨?_, ?_⟩⟩
          · exact ⟨p, by simp, hvp.2.1, Nat.le_refl _⟩
          · exact (inv_append.1 hi).2.2 p (by simp) hr (by simp)
      have hpenlt : pen + 1 ≤ hr.1 := by
        rcases hpen2 with ⟨h, _⟩ | ⟨_, h⟩ <;> omega
      have hadd : addU64 pen 1 = .ok (pen + 1) := by
        have : pen + 1 ≤ U64_MAX := by omega
        simp [addU64, this]
      refine ⟨Range.headn (pen + 1, hr.1 - 1) limit, ?_, ?_⟩
      · rw [hcalc, hadd]; rfl
      · by_cases hgap : hr.1 - 1 < pen + 1
        · -- no gap: the highest range starts at 1
          have hone : hr.1 = 1 := by omega
          have : Range.headn (pen + 1, hr.1 - 1) limit = (1, 0) := by
            simp [Range.headn, Range.isEmpty, hgap]
          rw [this]
          left
          exact failing_nobatch (by decide) (by simp [clauseNoBatch, hbehind, hlast, hone])
        · by_cases hl : limit = 0
          · subst hl
            have h3 : hr.1 - 1 + 1 ≤ U64_MAX := by omega
            have : Range.headn (pen + 1, hr.1 - 1) 0 = (max (pen + 1) (hr.1 - 1 + 1), hr.1 - 1) := by
              have h1 : Range.isEmpty (pen + 1, hr.1 - 1) = false := by
                simp only [Range.isEmpty, Bool.not_eq_false', decide_eq_true_eq]; omega
              simp [Range.headn, h1, checkedAdd, satSub, h3]
            rw [this]
            left
            exact failing_nobatch (by show hr.1 - 1 < max (pen + 1) (hr.1 - 1 + 1); omega) (by simp [clauseNoBatch])
          · have hv : ValidR (pen + 1, hr.1 - 1) :=
              ⟨by show 1 ≤ pen + 1; omega, by show pen + 1 ≤ hr.1 - 1; omega, by show hr.1 - 1 ≤ U64_MAX; omega⟩
            rw [rangeHeadn_eq hv (by omega)]
            have key : ∀ s, pen + 1 ≤ s → s ≤ hr.1 - 1 → (hr.1 - 1 + 1 - s ≤ limit) →
                (hr.1 - 1 + 1 - s = limit ∨ s = pen + 1) →
                (failing head (ys ++ [hr]) limit (s, hr.1 - 1) = [] ∨
                  (failing head (ys ++ [hr]) limit (s, hr.1 - 1) = ["head"] ∧
                    ∃ x, mem (ys ++ [hr]) x ∧ head < x ∧ head < ((s, hr.1 - 1) : Range).2)) := by
              intro s h1 h2 h3 h4
              have hvb := validR_of (b := (s, hr.1 - 1)) (by show 1 ≤ s; omega) h2
              have hdis : ∀ x ∈ ys ++ [hr], x.2 < ((s, hr.1 - 1) : Range).1 ∨ ((s, hr.1 - 1) : Range).2 < x.1 := by
                intro x hx
                rcases List.mem_append.1 hx with hx | hx
                · left; have := hpen1 x hx; show x.2 < s; omega
                · have hx' : x = hr := by simpa using hx
                  rw [hx']
                  right; show hr.1 - 1 < hr.1; omega
              have hf := failing_head (head := head) (limit := limit) (synced := ys ++ [hr])
                (b := (s, hr.1 - 1)) (by show ¬ hr.1 - 1 < s; omega) hvb
                (by
                  simp only [clauseMissing, List.all_eq_true, Bool.or_eq_true, decide_eq_true_eq]
                  exact hdis)
                (by simp only [clauseSize, decide_eq_true_eq]; exact h3)
                (by
                  simp only [clauseAnchor, hbehind, Bool.false_eq_true, ↓reduceIte, hlast, beq_iff_eq]
                  show hr.1 - 1 + 1 = hr.1; omega)
                (by
                  simp only [clauseMax, hbehind, Bool.false_eq_true, ↓reduceIte, Bool.or_eq_true,
                    decide_eq_true_eq, beq_iff_eq]
                  rcases h4 with h4 | h4
                  · exact Or.inl h4
                  · right
                    rcases hpen2 with ⟨hp0, _⟩ | ⟨hpm, _⟩
                    · left; show s = 1; omega
                    · right
                      rw [member_iff]
                      have : ((s, hr.1 - 1) : Range).1 - 1 = pen := by show s - 1 = pen; omega
                      rw [this]; exact hpm)
                (admitted_below hvb hdis (by
                  have : ((s, hr.1 - 1) : Range).2 + 1 = hr.1 := by show hr.1 - 1 + 1 = hr.1; omega
                  rw [this]
                  exact ⟨hr, by simp, Nat.le_refl _, hvv.2.1⟩))
              rw [hf]
              by_cases hc : clauseHead head (s, hr.1 - 1) = true
              · left; simp [hc]
              · right
                refine ⟨by simp [hc], hr.2, ⟨hr, by simp, hvv.2.1, Nat.le_refl _⟩, ?_, ?_⟩
                · simp only [clauseHead, decide_eq_true_eq] at hc
                  have : head < hr.1 - 1 := by
                    have : ¬ ((s, hr.1 - 1) : Range).2 ≤ head := hc
                    show head < hr.1 - 1
                    exact Nat.lt_of_not_le this
                  omega
                · simp only [clauseHead, decide_eq_true_eq] at hc
                  exact Nat.lt_of_not_le hc
            by_cases c : hr.1 - 1 + 1 - (pen + 1) ≤ limit
            · simp only [show ((pen + 1, hr.1 - 1) : Range).2 + 1 - ((pen + 1, hr.1 - 1) : Range).1 ≤ limit from c, ↓reduceIte]
              exact key (pen + 1) (Nat.le_refl _) (by omega) c (Or.inr rfl)
            · simp only [show ¬ ((pen + 1, hr.1 - 1) : Range).2 + 1 - ((pen + 1, hr.1 - 1) : Range).1 ≤ limit from c, ↓reduceIte]
              show _ ∨ _
              exact key (hr.1 - 1 + 1 - limit) (by omega) (by omega) (by omega) (Or.inl (by omega))

end Lumina.Proofs.FetchRange

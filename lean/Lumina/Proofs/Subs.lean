/-
  Helper lemmas for C37 (model `Lumina/Model/Subs.lean`).
-/
import Lumina.Model.Subs
import Lumina.Spec.C37

namespace Lumina.Proofs.Subs
open Lumina.Model.Subs

/-! ### runs of consecutive heights -/

/-- a non-empty run `a, a+1, …, a+n` (what a verified header range is, as heights) -/
def IsRun (r : List Nat) : Prop := ∃ a n, r = List.range' a (n + 1)

def lo (r : List Nat) : Nat := r.head?.getD 0
def hi (r : List Nat) : Nat := r.getLast?.getD 0

theorem isRun_singleton (h : Nat) : IsRun [h] := ⟨h, 0, rfl⟩

theorem IsRun.head? {r : List Nat} (h : IsRun r) : r.head? = some (lo r) := by
  obtain ⟨a, n, rfl⟩ := h
  simp [lo, List.head?_range']

theorem IsRun.getLast? {r : List Nat} (h : IsRun r) : r.getLast? = some (hi r) := by
  obtain ⟨a, n, rfl⟩ := h
  simp [hi, List.getLast?_range']

theorem IsRun.mem_iff {r : List Nat} (h : IsRun r) (x : Nat) : x ∈ r ↔ lo r ≤ x ∧ x ≤ hi r := by
  obtain ⟨a, n, rfl⟩ := h
  simp only [lo, hi, List.head?_range', List.getLast?_range', List.mem_range'_1]
  simp
  omega

theorem IsRun.lo_le_hi {r : List Nat} (h : IsRun r) : lo r ≤ hi r := by
  obtain ⟨a, n, rfl⟩ := h
  simp only [lo, hi, List.head?_range', List.getLast?_range']
  simp

theorem IsRun.eq {r : List Nat} (h : IsRun r) : r = List.range' (lo r) (hi r + 1 - lo r) := by
  obtain ⟨a, n, rfl⟩ := h
  simp only [lo, hi, List.head?_range', List.getLast?_range']
  simp
  congr 1
  omega

theorem IsRun.lo_mem {r : List Nat} (h : IsRun r) : lo r ∈ r := (h.mem_iff _).2 ⟨Nat.le_refl _, h.lo_le_hi⟩
theorem IsRun.hi_mem {r : List Nat} (h : IsRun r) : hi r ∈ r := (h.mem_iff _).2 ⟨h.lo_le_hi, Nat.le_refl _⟩

theorem lo_singleton (h : Nat) : lo [h] = h := rfl
theorem hi_singleton (h : Nat) : hi [h] = h := rfl

/-! ### stored set -/

theorem mem_addStored (stored range : List Nat) (x : Nat) :
    x ∈ addStored stored range ↔ x ∈ stored ∨ x ∈ range := by
  simp only [addStored, List.mem_append, List.mem_filter, List.contains_eq_mem, Bool.not_eq_eq_eq_not,
    Bool.not_true, decide_eq_false_iff_not]
  constructor
  · rintro (h | ⟨h, _⟩)
    · exact Or.inl h
    · exact Or.inr h
  · rintro (h | h)
    · exact Or.inl h
    · by_cases hs : x ∈ stored
      · exact Or.inl hs
      · exact Or.inr ⟨h, hs⟩

/-! ### `swap_remove` and the scan -/

theorem perm_swapRemove {α} [DecidableEq α] (p : List α) (j : Nat) (r : α) (h : p[j]? = some r) :
    p.Perm (r :: swapRemove p j) := by
  have hj : j < p.length := by
    rcases Nat.lt_or_ge j p.length with h' | h'
    · exact h'
    · rw [List.getElem?_eq_none h'] at h; cases h
  have hne : p ≠ [] := by intro e; subst e; simp at hj
  obtain ⟨z, hz⟩ : ∃ z, p.getLast? = some z := ⟨p.getLast hne, List.getLast?_eq_some_getLast hne⟩
  unfold swapRemove
  rw [hz]
  -- p = init ++ [z]
  have hp : p = p.dropLast ++ [z] := by
    have := List.dropLast_concat_getLast hne
    rw [List.getLast?_eq_some_getLast hne] at hz
    cases hz
    exact this.symm
  rw [List.perm_iff_count]
  intro a
  generalize hd : p.dropLast = init at hp
  subst hp
  have hlen : j < init.length + 1 := by simpa using hj
  rcases Nat.lt_or_ge j init.length with hj' | hj'
  · -- r is inside `init`
    have hr : init[j]? = some r := by
      rw [List.getElem?_append_left hj'] at h; exact h
    have hset : (init ++ [z]).set j z = init.set j z ++ [z] := by
      rw [List.set_append_left _ _ hj']
    simp only [hset, List.dropLast_concat]
    have hget : init[j] = r := by
      have := List.getElem?_eq_getElem hj'
      rw [this] at hr; exact Option.some.inj hr
    have hcs := List.count_set (a := z) (b := a) (l := init) (h := hj')
    simp only [hget] at hcs
    simp only [List.count_append, List.count_cons, List.count_nil, hcs]
    have hpos : r = a → 0 < List.count a init := by
      intro e
      subst e
      exact List.count_pos_iff.2 (List.mem_of_getElem? hr)
    by_cases e1 : r = a <;> by_cases e2 : z = a <;> simp [e1, e2] <;> (try have := hpos e1) <;> omega
  · -- r is the last element
    have hjeq : j = init.length := by omega
    subst hjeq
    have hr : r = z := by
      simp at h; exact h.symm
    subst hr
    have hset : (init ++ [r]).set init.length r = init ++ [r] := by
      rw [List.set_append_right _ _ (Nat.le_refl _)]; simp
    simp only [hset, List.dropLast_concat]
    simp only [List.count_append, List.count_cons, List.count_nil]
    omega

theorem scan_found {target : Nat} :
    ∀ (p : List (List Nat)) (k i : Nat) (r : List Nat), scan target p k = .found i r →
      k ≤ i ∧ p[i - k]? = some r ∧ r.head? = some target := by
  intro p
  induction p with
  | nil => intro k i r h; simp [scan] at h
  | cons x xs ih =>
    intro k i r h
    unfold scan at h
    cases hx : x.head? with
    | none => simp [hx] at h
    | some f =>
      simp only [hx] at h
      by_cases hf : f = target
      · simp only [hf, beq_self_eq_true, ↓reduceIte, Scan.found.injEq] at h
        obtain ⟨rfl, rfl⟩ := h
        exact ⟨Nat.le_refl _, by simp, by rw [hx, hf]⟩
      · have : (f == target) = false := by simp [hf]
        simp only [this, Bool.false_eq_true, ↓reduceIte] at h
        obtain ⟨h1, h2, h3⟩ := ih (k + 1) i r h
        refine ⟨by omega, ?_, h3⟩
        have : i - k = (i - (k + 1)) + 1 := by omega
        rw [this, List.getElem?_cons_succ]
        exact h2

theorem scan_notFound {target : Nat} :
    ∀ (p : List (List Nat)) (k : Nat), scan target p k = .notFound → ∀ r ∈ p, r.head? ≠ some target := by
  intro p
  induction p with
  | nil => intro k _ r hr; cases hr
  | cons x xs ih =>
    intro k h r hr
    unfold scan at h
    cases hx : x.head? with
    | none => simp [hx] at h
    | some f =>
      simp only [hx] at h
      by_cases hf : f = target
      · simp [hf] at h
      · have hb : (f == target) = false := by simp [hf]
        simp only [hb, Bool.false_eq_true, ↓reduceIte] at h
        rcases List.mem_cons.1 hr with rfl | hr'
        · rw [hx]; intro e; exact hf (Option.some.inj e)
        · exact ih (k + 1) h r hr'

theorem scan_no_panic {target : Nat} :
    ∀ (p : List (List Nat)) (k : Nat), (∀ r ∈ p, r ≠ []) → scan target p k ≠ .panic := by
  intro p
  induction p with
  | nil => intro k _; simp [scan]
  | cons x xs ih =>
    intro k hne
    unfold scan
    cases hx : x.head? with
    | none =>
      have : x = [] := by cases x <;> simp_all
      exact absurd this (hne x (List.mem_cons_self))
    | some f =>
      simp only
      split
      · simp
      · exact ih (k + 1) (fun r hr => hne r (List.mem_cons_of_mem _ hr))

theorem mem_of_mem_swapRemove {p : List (List Nat)} {i : Nat} {r : List Nat} (h : p[i]? = some r)
    {x : List Nat} (hx : x ∈ swapRemove p i) : x ∈ p :=
  (perm_swapRemove p i r h).mem_iff.2 (List.mem_cons_of_mem _ hx)

theorem length_swapRemove {p : List (List Nat)} {i : Nat} {r : List Nat} (h : p[i]? = some r) :
    p.length = (swapRemove p i).length + 1 := by
  simpa using (perm_swapRemove p i r h).length_eq

/-! ### the drain loop, three views -/

/-- (no hypotheses) everything the loop sends comes out of a pending range; nothing is added to `pending` -/
theorem drain_sub : ∀ (fuel L : Nat) (p : List (List Nat)) (L' : Nat) (p' : List (List Nat)) (sent : List Nat),
    drain fuel L p = some (L', p', sent) →
      (∀ x ∈ sent, ∃ r ∈ p, x ∈ r) ∧ (∀ r ∈ p', r ∈ p) := by
  intro fuel
  induction fuel with
  | zero =>
    intro L p L' p' sent h
    simp only [drain, Option.some.injEq, Prod.mk.injEq] at h
    obtain ⟨_, rfl, rfl⟩ := h
    exact ⟨(by intro x hx; cases hx), fun r hr => hr⟩
  | succ fuel ih =>
    intro L p L' p' sent h
    unfold drain at h
    cases hs : scan (L + 1) p 0 with
    | panic => simp [hs] at h
    | notFound =>
      simp only [hs, Option.some.injEq, Prod.mk.injEq] at h
      obtain ⟨_, rfl, rfl⟩ := h
      exact ⟨(by intro x hx; cases hx), fun r hr => hr⟩
    | found i r =>
      simp only [hs] at h
      obtain ⟨_, hget, _⟩ := scan_found p 0 i r hs
      simp only [Nat.sub_zero] at hget
      cases hd : drain fuel (r.getLast?.getD L) (swapRemove p i) with
      | none => simp [hd] at h
      | some res =>
        obtain ⟨l1, p1, s1⟩ := res
        simp only [hd, Option.some.injEq, Prod.mk.injEq] at h
        obtain ⟨rfl, rfl, rfl⟩ := h
        obtain ⟨ih1, ih2⟩ := ih _ _ _ _ _ hd
        refine ⟨?_, fun r' hr' => mem_of_mem_swapRemove hget (ih2 r' hr')⟩
        intro x hx
        rcases List.mem_append.1 hx with hx | hx
        · exact ⟨r, List.mem_of_getElem? hget, hx⟩
        · obtain ⟨r', hr', hxr'⟩ := ih1 x hx
          exact ⟨r', mem_of_mem_swapRemove hget hr', hxr'⟩

theorem IsRun.ne_nil {r : List Nat} (h : IsRun r) : r ≠ [] := by
  obtain ⟨a, n, rfl⟩ := h
  simp [List.range'_succ]

/-- (pending ranges are runs) the loop never panics and sends exactly `L+1, …, L'` -/
theorem drain_stream : ∀ (fuel L : Nat) (p : List (List Nat)), (∀ r ∈ p, IsRun r) →
    ∃ L' p' sent, drain fuel L p = some (L', p', sent) ∧ L ≤ L' ∧ sent = List.range' (L + 1) (L' - L) := by
  intro fuel
  induction fuel with
  | zero => intro L p _; exact ⟨L, p, [], rfl, Nat.le_refl _, by simp⟩
  | succ fuel ih =>
    intro L p hruns
    unfold drain
    cases hs : scan (L + 1) p 0 with
    | panic => exact absurd hs (scan_no_panic p 0 (fun r hr => (hruns r hr).ne_nil))
    | notFound => exact ⟨L, p, [], rfl, Nat.le_refl _, by simp⟩
    | found i r =>
      obtain ⟨_, hget, hhead⟩ := scan_found p 0 i r hs
      simp only [Nat.sub_zero] at hget
      have hr : IsRun r := hruns r (List.mem_of_getElem? hget)
      have hlo : lo r = L + 1 := by
        have := hr.head?; rw [hhead] at this; exact (Option.some.inj this).symm
      have hlast : r.getLast?.getD L = hi r := by rw [hr.getLast?]; rfl
      obtain ⟨L', p', s, hd, hle, hsent⟩ :=
        ih (hi r) (swapRemove p i) (fun r' hr' => hruns r' (mem_of_mem_swapRemove hget hr'))
      have hlh := hr.lo_le_hi
      refine ⟨L', p', r ++ s, ?_, by omega, ?_⟩
      · simp only [hlast, hd]
      · rw [hsent]
        have hreq := hr.eq
        rw [hlo] at hreq hlh
        generalize hi r = H at *
        rw [hreq]
        have e1 : H + 1 = (L + 1) + (H + 1 - (L + 1)) := by omega
        conv => lhs; arg 2; rw [e1]
        rw [List.range'_append_1]
        congr 1
        omega

/-! ### the pending-set invariant used for completeness -/

def Rel (r1 r2 : List Nat) : Prop := (lo r1 ∈ r2 → hi r1 ≤ hi r2) ∧ (lo r2 ∈ r1 → hi r2 ≤ hi r1)

theorem Rel.symm {a b : List Nat} (h : Rel a b) : Rel b a := ⟨h.2, h.1⟩

structure PInv (L : Nat) (stored : List Nat) (p : List (List Nat)) : Prop where
  runs : ∀ r ∈ p, IsRun r
  sub : ∀ r ∈ p, ∀ x ∈ r, x ∈ stored
  nostr : ∀ r ∈ p, hi r ≤ L ∨ L < lo r
  cover : ∀ x ∈ stored, L < x → ∃ r ∈ p, x ∈ r
  lam : p.Pairwise Rel

/-- (full invariant, enough fuel) after the loop no pending range starts at `last_sent + 1` -/
theorem drain_pinv : ∀ (fuel L : Nat) (stored : List Nat) (p : List (List Nat)),
    PInv L stored p → p.length ≤ fuel →
    ∃ L' p' sent, drain fuel L p = some (L', p', sent) ∧ PInv L' stored p' ∧
      (∀ r ∈ p', lo r ≠ L' + 1) ∧ (L' = L ∨ L' ∈ stored) := by
  intro fuel
  induction fuel with
  | zero =>
    intro L stored p hp hlen
    have : p = [] := List.eq_nil_of_length_eq_zero (by omega)
    subst this
    exact ⟨L, [], [], rfl, hp, (by intro r hr; cases hr), Or.inl rfl⟩
  | succ fuel ih =>
    intro L stored p hp hlen
    unfold drain
    cases hs : scan (L + 1) p 0 with
    | panic => exact absurd hs (scan_no_panic p 0 (fun r hr => (hp.runs r hr).ne_nil))
    | notFound =>
      refine ⟨L, p, [], rfl, hp, ?_, Or.inl rfl⟩
      intro r hr e
      have := scan_notFound p 0 hs r hr
      rw [(hp.runs r hr).head?, e] at this
      exact this rfl
    | found i r =>
      obtain ⟨_, hget, hhead⟩ := scan_found p 0 i r hs
      simp only [Nat.sub_zero] at hget
      have hrp : r ∈ p := List.mem_of_getElem? hget
      have hr : IsRun r := hp.runs r hrp
      have hlo : lo r = L + 1 := by
        have := hr.head?; rw [hhead] at this; exact (Option.some.inj this).symm
      have hlast : r.getLast?.getD L = hi r := by rw [hr.getLast?]; rfl
      have hlh := hr.lo_le_hi
      have hperm := perm_swapRemove p i r hget
      have hlam : (∀ r' ∈ swapRemove p i, Rel r r') ∧ (swapRemove p i).Pairwise Rel := by
        have := (List.Perm.pairwise_iff (fun {x y} (h : Rel x y) => h.symm) hperm).1 hp.lam
        simpa [List.pairwise_cons] using this
      have hp1 : PInv (hi r) stored (swapRemove p i) := by
        refine ⟨fun r' hr' => hp.runs r' (mem_of_mem_swapRemove hget hr'),
          fun r' hr' => hp.sub r' (mem_of_mem_swapRemove hget hr'), ?_, ?_, hlam.2⟩
        · intro r' hr'
          rcases hp.nostr r' (mem_of_mem_swapRemove hget hr') with h | h
          · left; omega
          · by_cases hc : lo r' ≤ hi r
            · left
              exact (hlam.1 r' hr').2 ((hr.mem_iff _).2 ⟨by omega, hc⟩)
            · right; omega
        · intro x hx hxl
          obtain ⟨r', hr', hxr'⟩ := hp.cover x hx (by omega)
          rcases List.mem_cons.1 (hperm.mem_iff.1 hr') with e | h
          · subst e
            have := ((hr.mem_iff x).1 hxr').2
            omega
          · exact ⟨r', h, hxr'⟩
      obtain ⟨L', p', s, hd, hpi, hno, hmem⟩ :=
        ih (hi r) stored (swapRemove p i) hp1 (by have := length_swapRemove hget; omega)
      refine ⟨L', p', r ++ s, by simp only [hlast, hd], hpi, hno, ?_⟩
      right
      rcases hmem with e | h
      · rw [e]; exact hp.sub r hrp _ hr.hi_mem
      · exact h

/-! ### T2: only stored heights are ever sent (no hypotheses) -/

def JInv (s : State) : Prop := ∀ r ∈ s.pending, ∀ x ∈ r, x ∈ s.stored

theorem finish_J (s : State) (stored : List Nat) (L1 : Nat) (p1 : List (List Nat)) (sent1 : List Nat)
    (hJ : JInv s) (hp1 : ∀ r ∈ p1, ∀ x ∈ r, x ∈ stored) (hs1 : ∀ x ∈ sent1, x ∈ stored) :
    JInv (finish s stored L1 p1 sent1).1 ∧
      ∀ x ∈ (finish s stored L1 p1 sent1).2.sent, x ∈ (finish s stored L1 p1 sent1).1.stored := by
  unfold finish
  cases hd : drain p1.length L1 p1 with
  | none => exact ⟨hJ, (by intro x hx; cases hx)⟩
  | some res =>
    obtain ⟨L', p', sent'⟩ := res
    obtain ⟨h1, h2⟩ := drain_sub _ _ _ _ _ _ hd
    refine ⟨fun r hr x hx => hp1 r (h2 r hr) x hx, ?_⟩
    intro x hx
    rcases List.mem_append.1 hx with hx | hx
    · exact hs1 x hx
    · obtain ⟨r, hr, hxr⟩ := h1 x hx
      exact hp1 r hr x hxr

theorem jinv_step (s : State) (e : Event) (hJ : JInv s) :
    JInv (step s e).1 ∧ ∀ x ∈ (step s e).2.sent, x ∈ (step s e).1.stored := by
  cases e with
  | storeInsert r =>
    refine ⟨fun r' hr' x hx => (mem_addStored _ _ _).2 (Or.inl (hJ r' hr' x hx)), ?_⟩
    intro x hx; cases hx
  | initBroadcast h =>
    simp only [step, initBroadcast]
    split
    · refine ⟨fun r' hr' x hx => (mem_addStored _ _ _).2 (Or.inl (hJ r' hr' x hx)), ?_⟩
      intro x hx
      exact (mem_addStored _ _ _).2 (Or.inr hx)
    · split
      · refine ⟨fun r' hr' x hx => (mem_addStored _ _ _).2 (Or.inl (hJ r' hr' x hx)), ?_⟩
        intro x hx
        exact (mem_addStored _ _ _).2 (Or.inr hx)
      · refine ⟨?_, by intro x hx; cases hx⟩
        intro r' hr' x hx
        rcases List.mem_append.1 hr' with h' | h'
        · exact (mem_addStored _ _ _).2 (Or.inl (hJ r' h' x hx))
        · simp only [List.mem_singleton] at h'
          subst h'
          exact (mem_addStored _ _ _).2 (Or.inr hx)
  | announceInsert r ok =>
    simp only [step, announceInsert]
    split
    · exact ⟨hJ, by intro x hx; cases hx⟩
    · split
      · split
        · exact ⟨hJ, by intro x hx; cases hx⟩
        · split
          · refine ⟨?_, by intro x hx; cases hx⟩
            split
            · exact fun r' hr' x hx => (mem_addStored _ _ _).2 (Or.inl (hJ r' hr' x hx))
            · exact hJ
          · split
            · exact ⟨hJ, by intro x hx; cases hx⟩
            · split
              · apply finish_J _ _ _ _ _ hJ
                · exact fun r' hr' x hx => (mem_addStored _ _ _).2 (Or.inl (hJ r' hr' x hx))
                · exact fun x hx => (mem_addStored _ _ _).2 (Or.inr hx)
              · apply finish_J _ _ _ _ _ hJ
                · intro r' hr' x hx
                  rcases List.mem_append.1 hr' with h' | h'
                  · exact (mem_addStored _ _ _).2 (Or.inl (hJ r' h' x hx))
                  · simp only [List.mem_singleton] at h'
                    subst h'
                    exact (mem_addStored _ _ _).2 (Or.inr hx)
                · intro x hx; cases hx
      · exact ⟨hJ, by intro x hx; cases hx⟩

theorem jinv_run (evs : List Event) : JInv (run init evs) := by
  suffices ∀ s, JInv s → JInv (run s evs) from this init (by intro r hr; cases hr)
  induction evs with
  | nil => intro s h; exact h
  | cons e evs ih => intro s h; exact ih _ (jinv_step s e h).1

/-! ### T1: the stream is `head, head+1, …` (hypothesis: the store only accepts contiguous ranges) -/

structure Str (sentLog : List Nat) (pending : List (List Nat)) (L h0 : Nat) : Prop where
  le : h0 ≤ L
  log : sentLog = List.range' h0 (L + 1 - h0)
  runs : ∀ r ∈ pending, IsRun r

def Inv1 (s : State) : Prop :=
  (s.lastSent = none ∧ s.firstHead = none ∧ s.pending = [] ∧ s.sentLog = []) ∨
  (∃ L h0, s.lastSent = some L ∧ s.firstHead = some h0 ∧ Str s.sentLog s.pending L h0)

/-- what the inner store guarantees: a range it accepted is a run of consecutive heights -/
def StoreSound : Event → Prop
  | .announceInsert r true => r = [] ∨ IsRun r
  | _ => True

theorem range'_glue (h0 L L' : Nat) (h1 : h0 ≤ L) (h2 : L ≤ L') :
    List.range' h0 (L + 1 - h0) ++ List.range' (L + 1) (L' - L) = List.range' h0 (L' + 1 - h0) := by
  have e1 : L + 1 = h0 + (L + 1 - h0) := by omega
  conv => lhs; arg 2; rw [e1]
  rw [List.range'_append_1]
  congr 1
  omega

theorem finish_stream (s : State) (stored : List Nat) (L1 : Nat) (p1 : List (List Nat)) (sent1 : List Nat)
    (h0 : Nat) (hfh : s.firstHead = some h0) (hruns : ∀ r ∈ p1, IsRun r) (hle : h0 ≤ L1)
    (hlog : s.sentLog ++ sent1 = List.range' h0 (L1 + 1 - h0)) :
    Inv1 (finish s stored L1 p1 sent1).1 ∧ (finish s stored L1 p1 sent1).2.panic = false := by
  obtain ⟨L', p', sent', hd, hle', hsent⟩ := drain_stream p1.length L1 p1 hruns
  obtain ⟨_, hsub⟩ := drain_sub _ _ _ _ _ _ hd
  unfold finish
  rw [hd]
  refine ⟨Or.inr ⟨L', h0, rfl, hfh, ⟨by omega, ?_, fun r hr => hruns r (hsub r hr)⟩⟩, rfl⟩
  show s.sentLog ++ (sent1 ++ sent') = _
  rw [← List.append_assoc, hlog, hsent]
  exact range'_glue h0 L1 L' hle hle'

theorem inv1_step (s : State) (e : Event) (h : Inv1 s) (hs : StoreSound e) : Inv1 (step s e).1 := by
  cases e with
  | storeInsert r =>
    rcases h with ⟨a, b, c, d⟩ | ⟨L, h0, a, b, c⟩
    · exact Or.inl ⟨a, b, c, d⟩
    · exact Or.inr ⟨L, h0, a, b, c⟩
  | initBroadcast hd =>
    simp only [step, initBroadcast]
    rcases h with ⟨a, b, c, d⟩ | ⟨L, h0, a, b, c⟩
    · rw [a]
      refine Or.inr ⟨hd, hd, rfl, rfl, ⟨Nat.le_refl _, ?_, ?_⟩⟩
      · simp [d]
      · simp [c]
    · rw [a]
      simp only
      split
      · rename_i hadj
        have hadj' : L + 1 = hd := by simpa using hadj
        refine Or.inr ⟨hd, h0, rfl, b, ⟨by have := c.le; omega, ?_, c.runs⟩⟩
        show s.sentLog ++ [hd] = _
        rw [c.log, ← hadj']
        have := range'_glue h0 L (L + 1) c.le (by omega)
        simpa using this
      · refine Or.inr ⟨L, h0, rfl, b, ⟨c.le, c.log, ?_⟩⟩
        intro r hr
        rcases List.mem_append.1 hr with h' | h'
        · exact c.runs r h'
        · simp only [List.mem_singleton] at h'
          subst h'
          exact isRun_singleton hd
  | announceInsert r ok =>
    simp only [step, announceInsert]
    rcases h with ⟨a, b, c, d⟩ | ⟨L, h0, a, b, c⟩
    · rw [a]; exact Or.inl ⟨a, b, c, d⟩
    · have hself : Inv1 s := Or.inr ⟨L, h0, a, b, c⟩
      rw [a]
      simp only
      split
      · rename_i lo' hi' hhead hlast
        split
        · exact hself
        · split
          · split
            · exact Or.inr ⟨L, h0, rfl, b, c⟩
            · exact hself
          · split
            · exact hself
            · rename_i hassert hnothist hok
              have hok' : ok = true := by simpa using hok
              subst hok'
              have hr : IsRun r := by
                rcases hs with e | e
                · subst e; simp at hhead
                · exact e
              have hlo : lo' = lo r := by
                have := hr.head?; rw [hhead] at this; exact Option.some.inj this
              have hhi : hi' = hi r := by
                have := hr.getLast?; rw [hlast] at this; exact Option.some.inj this
              split
              · rename_i hadj
                have hadj' : L + 1 = lo' := by simpa using hadj
                refine (finish_stream s _ hi' s.pending r h0 b c.runs ?_ ?_).1
                · have := hr.lo_le_hi; have := c.le; omega
                · rw [c.log, hr.eq, ← hlo, ← hhi, ← hadj']
                  have hlh := hr.lo_le_hi
                  rw [← hlo, ← hhi, ← hadj'] at hlh
                  have := range'_glue h0 L hi' c.le (by omega)
                  rw [show hi' + 1 - (L + 1) = hi' - L by omega]
                  exact this
              · refine (finish_stream s _ L (s.pending ++ [r]) [] h0 b ?_ c.le ?_).1
                · intro r' hr'
                  rcases List.mem_append.1 hr' with h' | h'
                  · exact c.runs r' h'
                  · simp only [List.mem_singleton] at h'
                    subst h'
                    exact hr
                · simp [c.log]
      · exact hself

theorem inv1_init : Inv1 init := Or.inl ⟨rfl, rfl, rfl, rfl⟩

theorem inv1_run (evs : List Event) (hs : ∀ e ∈ evs, StoreSound e) : Inv1 (run init evs) := by
  suffices ∀ s, Inv1 s → Inv1 (run s evs) from this init inv1_init
  induction evs with
  | nil => intro s h; exact h
  | cons e evs ih =>
    intro s h
    exact ih (fun e' he' => hs e' (List.mem_cons_of_mem _ he')) _
      (inv1_step s e h (hs e List.mem_cons_self))

/-! ### T3/T4: completeness and absence of panics (hypothesis: admissible environment) -/

/-- what the syncer and the store guarantee about each call, in the state it is made in:
    * pre-existing store content is only loaded before the first head is known;
    * a (re-)connection head is the store head, i.e. at least every stored height;
    * `announce_insert` is only called after the first head, with an empty range or a verified
      contiguous range of heights the store does not hold yet (the syncer only fetches missing heights). -/
def Adm (s : State) : Event → Prop
  | .storeInsert _ => s.lastSent = none
  | .initBroadcast h => ∀ x ∈ s.stored, x ≤ h
  | .announceInsert r _ => s.lastSent ≠ none ∧ (r = [] ∨ (IsRun r ∧ ∀ x ∈ r, x ∉ s.stored))

def Inv3 (s : State) : Prop :=
  (s.lastSent = none ∧ s.pending = []) ∨
  (∃ L, s.lastSent = some L ∧ L ∈ s.stored ∧ PInv L s.stored s.pending ∧ ∀ r ∈ s.pending, lo r ≠ L + 1)

theorem finish_pinv (s : State) (stored : List Nat) (L1 : Nat) (p1 : List (List Nat)) (sent1 : List Nat)
    (hp : PInv L1 stored p1) (hl : L1 ∈ stored) :
    Inv3 (finish s stored L1 p1 sent1).1 ∧ (finish s stored L1 p1 sent1).2.panic = false := by
  obtain ⟨L', p', sent', hd, hpi, hno, hmem⟩ := drain_pinv p1.length L1 stored p1 hp (Nat.le_refl _)
  unfold finish
  rw [hd]
  refine ⟨Or.inr ⟨L', rfl, ?_, hpi, hno⟩, rfl⟩
  rcases hmem with e | h
  · rw [e]; exact hl
  · exact h

theorem pinv_hist {L : Nat} {stored : List Nat} {p : List (List Nat)} (hp : PInv L stored p)
    (r : List Nat) (hr : ∀ x ∈ r, x < L) : PInv L (addStored stored r) p :=
  ⟨hp.runs, fun r' hr' x hx => (mem_addStored _ _ _).2 (Or.inl (hp.sub r' hr' x hx)), hp.nostr,
   fun x hx hl => by
     rcases (mem_addStored _ _ _).1 hx with h | h
     · exact hp.cover x h hl
     · have := hr x h; omega,
   hp.lam⟩

theorem pinv_adj {L : Nat} {stored : List Nat} {p : List (List Nat)} (hp : PInv L stored p)
    (r : List Nat) (hr : IsRun r) (hlo : lo r = L + 1) (hdis : ∀ x ∈ r, x ∉ stored) :
    PInv (hi r) (addStored stored r) p := by
  have hlh := hr.lo_le_hi
  refine ⟨hp.runs, fun r' hr' x hx => (mem_addStored _ _ _).2 (Or.inl (hp.sub r' hr' x hx)), ?_, ?_, hp.lam⟩
  · intro r' hr'
    rcases hp.nostr r' hr' with h | h
    · left; omega
    · by_cases hc : lo r' ≤ hi r
      · exfalso
        have h1 : lo r' ∈ r := (hr.mem_iff _).2 ⟨by omega, hc⟩
        exact hdis _ h1 (hp.sub r' hr' _ (hp.runs r' hr').lo_mem)
      · right; omega
  · intro x hx hl
    rcases (mem_addStored _ _ _).1 hx with h | h
    · exact hp.cover x h (by omega)
    · have := ((hr.mem_iff x).1 h).2; omega

theorem pinv_push {L : Nat} {stored : List Nat} {p : List (List Nat)} (hp : PInv L stored p)
    (r : List Nat) (hr : IsRun r) (hlo : L < lo r) (hdis : ∀ x ∈ r, x ∉ stored) :
    PInv L (addStored stored r) (p ++ [r]) := by
  refine ⟨?_, ?_, ?_, ?_, ?_⟩
  · intro r' hr'
    rcases List.mem_append.1 hr' with h | h
    · exact hp.runs r' h
    · simp only [List.mem_singleton] at h; subst h; exact hr
  · intro r' hr' x hx
    rcases List.mem_append.1 hr' with h | h
    · exact (mem_addStored _ _ _).2 (Or.inl (hp.sub r' h x hx))
    · simp only [List.mem_singleton] at h; subst h; exact (mem_addStored _ _ _).2 (Or.inr hx)
  · intro r' hr'
    rcases List.mem_append.1 hr' with h | h
    · exact hp.nostr r' h
    · simp only [List.mem_singleton] at h; subst h; right; exact hlo
  · intro x hx hl
    rcases (mem_addStored _ _ _).1 hx with h | h
    · obtain ⟨r', hr', hxr'⟩ := hp.cover x h hl
      exact ⟨r', List.mem_append_left _ hr', hxr'⟩
    · exact ⟨r, List.mem_append_right _ (List.mem_singleton.2 rfl), h⟩
  · rw [List.pairwise_append]
    refine ⟨hp.lam, List.pairwise_singleton _ _, ?_⟩
    intro a ha b hb
    simp only [List.mem_singleton] at hb
    subst hb
    constructor
    · intro h1
      exact absurd (hp.sub a ha _ (hp.runs a ha).lo_mem) (hdis _ h1)
    · intro h1
      exact absurd (hp.sub a ha _ h1) (hdis _ hr.lo_mem)

theorem pinv_reinit_push {L : Nat} {stored : List Nat} {p : List (List Nat)} (hp : PInv L stored p)
    (h : Nat) (hmax : ∀ x ∈ stored, x ≤ h) : PInv L (addStored stored [h]) (p ++ [[h]]) := by
  refine ⟨?_, ?_, ?_, ?_, ?_⟩
  · intro r' hr'
    rcases List.mem_append.1 hr' with h' | h'
    · exact hp.runs r' h'
    · simp only [List.mem_singleton] at h'; subst h'; exact isRun_singleton h
  · intro r' hr' x hx
    rcases List.mem_append.1 hr' with h' | h'
    · exact (mem_addStored _ _ _).2 (Or.inl (hp.sub r' h' x hx))
    · simp only [List.mem_singleton] at h'; subst h'; exact (mem_addStored _ _ _).2 (Or.inr hx)
  · intro r' hr'
    rcases List.mem_append.1 hr' with h' | h'
    · exact hp.nostr r' h'
    · simp only [List.mem_singleton] at h'; subst h'
      rw [lo_singleton, hi_singleton]; omega
  · intro x hx hl
    rcases (mem_addStored _ _ _).1 hx with h' | h'
    · obtain ⟨r', hr', hxr'⟩ := hp.cover x h' hl
      exact ⟨r', List.mem_append_left _ hr', hxr'⟩
    · exact ⟨[h], List.mem_append_right _ (List.mem_singleton.2 rfl), h'⟩
  · rw [List.pairwise_append]
    refine ⟨hp.lam, List.pairwise_singleton _ _, ?_⟩
    intro a ha b hb
    simp only [List.mem_singleton] at hb
    subst hb
    have hra := hp.runs a ha
    constructor
    · intro _
      rw [hi_singleton]
      exact hmax _ (hp.sub a ha _ hra.hi_mem)
    · intro h1
      rw [lo_singleton] at h1
      rw [hi_singleton]
      exact ((hra.mem_iff h).1 h1).2

theorem pinv_reinit_adj {L : Nat} {stored : List Nat} {p : List (List Nat)} (hp : PInv L stored p)
    (h : Nat) (hmax : ∀ x ∈ stored, x ≤ h) (hadj : L + 1 = h) :
    PInv h (addStored stored [h]) p ∧ ∀ r ∈ p, lo r ≠ h + 1 := by
  have hle : ∀ r ∈ p, hi r ≤ h := fun r hr => hmax _ (hp.sub r hr _ (hp.runs r hr).hi_mem)
  refine ⟨⟨hp.runs, fun r' hr' x hx => (mem_addStored _ _ _).2 (Or.inl (hp.sub r' hr' x hx)), ?_, ?_, hp.lam⟩, ?_⟩
  · intro r hr; left; exact hle r hr
  · intro x hx hl
    rcases (mem_addStored _ _ _).1 hx with h' | h'
    · have := hmax x h'; omega
    · simp only [List.mem_singleton] at h'; omega
  · intro r hr e
    have := hle r hr
    have := (hp.runs r hr).lo_le_hi
    omega

theorem pinv_first (stored : List Nat) (h : Nat) (hmax : ∀ x ∈ stored, x ≤ h) :
    PInv h (addStored stored [h]) [] := by
  refine ⟨(by intro r hr; cases hr), (by intro r hr; cases hr), (by intro r hr; cases hr), ?_, List.Pairwise.nil⟩
  intro x hx hl
  rcases (mem_addStored _ _ _).1 hx with h' | h'
  · have := hmax x h'; omega
  · simp only [List.mem_singleton] at h'; omega

theorem inv3_step (s : State) (e : Event) (h : Inv3 s) (ha : Adm s e) :
    Inv3 (step s e).1 ∧ (step s e).2.panic = false := by
  cases e with
  | storeInsert r =>
    simp only [Adm] at ha
    rcases h with ⟨a, b⟩ | ⟨L, a, _⟩
    · exact ⟨Or.inl ⟨a, b⟩, rfl⟩
    · rw [a] at ha; cases ha
  | initBroadcast hd =>
    simp only [Adm] at ha
    simp only [step, initBroadcast]
    rcases h with ⟨a, b⟩ | ⟨L, a, hl, hp, hno⟩
    · rw [a]
      refine ⟨Or.inr ⟨hd, rfl, (mem_addStored _ _ _).2 (Or.inr (List.mem_singleton.2 rfl)), ?_, ?_⟩, rfl⟩
      · show PInv hd (addStored s.stored [hd]) s.pending
        rw [b]; exact pinv_first _ _ ha
      · show ∀ r ∈ s.pending, _
        rw [b]; intro r hr; cases hr
    · rw [a]
      simp only
      split
      · rename_i hadj
        have hadj' : L + 1 = hd := by simpa using hadj
        obtain ⟨h1, h2⟩ := pinv_reinit_adj hp hd ha hadj'
        exact ⟨Or.inr ⟨hd, rfl, (mem_addStored _ _ _).2 (Or.inr (List.mem_singleton.2 rfl)), h1, h2⟩, rfl⟩
      · rename_i hadj
        have hadj' : ¬ L + 1 = hd := by simpa using hadj
        refine ⟨Or.inr ⟨L, rfl, (mem_addStored _ _ _).2 (Or.inl hl), pinv_reinit_push hp hd ha, ?_⟩, rfl⟩
        intro r hr
        rcases List.mem_append.1 hr with h' | h'
        · exact hno r h'
        · simp only [List.mem_singleton] at h'; subst h'
          rw [lo_singleton]; exact fun e => hadj' e.symm
  | announceInsert r ok =>
    obtain ⟨hinit, hadm⟩ := ha
    simp only [step, announceInsert]
    rcases h with ⟨a, _⟩ | ⟨L, a, hl, hp, hno⟩
    · exact absurd a hinit
    · have hself : Inv3 s := Or.inr ⟨L, a, hl, hp, hno⟩
      rw [a]
      simp only
      split
      · rename_i lo' hi' hhead hlast
        obtain ⟨hr, hdis⟩ : IsRun r ∧ ∀ x ∈ r, x ∉ s.stored := by
          rcases hadm with e | e
          · subst e; simp at hhead
          · exact e
        have hlo : lo' = lo r := by
          have := hr.head?; rw [hhead] at this; exact Option.some.inj this
        have hhi : hi' = hi r := by
          have := hr.getLast?; rw [hlast] at this; exact Option.some.inj this
        have hlh : lo' ≤ hi' := by rw [hlo, hhi]; exact hr.lo_le_hi
        have hLr : L ∉ r := fun hm => hdis L hm hl
        have hassert : hi' < L ∨ lo' > L := by
          rw [hlo, hhi]
          by_cases h1 : hi r < L
          · exact Or.inl h1
          · by_cases h2 : lo r > L
            · exact Or.inr h2
            · exact absurd ((hr.mem_iff L).2 ⟨by omega, by omega⟩) hLr
        split
        · rename_i hfail
          exfalso
          rcases hassert with h1 | h1 <;> simp [h1] at hfail
        · split
          · rename_i hhist
            refine ⟨?_, rfl⟩
            split
            · refine Or.inr ⟨L, rfl, (mem_addStored _ _ _).2 (Or.inl hl), pinv_hist hp r ?_, hno⟩
              intro x hx
              have := ((hr.mem_iff x).1 hx).2
              have : hi' < L := by
                rcases hassert with h1 | h1
                · exact h1
                · omega
              omega
            · exact hself
          · split
            · exact ⟨hself, rfl⟩
            · rename_i hnothist hok
              split
              · rename_i hadj
                have hadj' : L + 1 = lo' := by simpa using hadj
                rw [hhi]
                exact finish_pinv s _ (hi r) s.pending r (pinv_adj hp r hr (by omega) hdis)
                  ((mem_addStored _ _ _).2 (Or.inr hr.hi_mem))
              · rename_i hadj
                have hadj' : ¬ L + 1 = lo' := by simpa using hadj
                exact finish_pinv s _ L (s.pending ++ [r]) [] (pinv_push hp r hr (by omega) hdis)
                  ((mem_addStored _ _ _).2 (Or.inl hl))
      · exact ⟨hself, rfl⟩

/-- a history is admissible when every event is admissible in the state it occurs in -/
def AdmRun : State → List Event → Prop
  | _, [] => True
  | s, e :: evs => Adm s e ∧ AdmRun (step s e).1 evs

theorem inv3_init : Inv3 init := Or.inl ⟨rfl, rfl⟩

theorem inv3_run : ∀ (evs : List Event) (s : State), Inv3 s → AdmRun s evs → Inv3 (run s evs) := by
  intro evs
  induction evs with
  | nil => intro s h _; exact h
  | cons e evs ih =>
    intro s h ha
    exact ih _ (inv3_step s e h ha.1).1 ha.2

theorem adm_storeSound {s : State} {e : Event} (h : Adm s e) : StoreSound e := by
  cases e with
  | storeInsert r => trivial
  | initBroadcast h => trivial
  | announceInsert r ok =>
    cases ok with
    | false => trivial
    | true =>
      rcases h.2 with e | e
      · exact Or.inl e
      · exact Or.inr e.1

theorem inv1_run_adm : ∀ (evs : List Event) (s : State), Inv1 s → AdmRun s evs → Inv1 (run s evs) := by
  intro evs
  induction evs with
  | nil => intro s h _; exact h
  | cons e evs ih =>
    intro s h ha
    exact ih _ (inv1_step s e h (adm_storeSound ha.1)) ha.2

/-- the heart of completeness: with both invariants, a stored prefix above the first head has been sent -/
theorem complete_of_inv {s : State} (h1 : Inv1 s) (h3 : Inv3 s) (L h0 : Nat)
    (hL : s.lastSent = some L) (hh : s.firstHead = some h0) (H : Nat)
    (hall : ∀ h, h0 < h → h ≤ H → h ∈ s.stored) : H ≤ L := by
  rcases h3 with ⟨a, _⟩ | ⟨L', a, _, hp, hno⟩
  · rw [a] at hL; cases hL
  · rw [a] at hL
    cases hL
    rcases h1 with ⟨a', _⟩ | ⟨L'', h0', a', b', c'⟩
    · rw [a'] at a; cases a
    · rw [a'] at a; cases a
      rw [b'] at hh; cases hh
      by_cases hc : H ≤ L
      · exact hc
      · exfalso
        have hle := c'.le
        have hmem : L + 1 ∈ s.stored := hall (L + 1) (by omega) (by omega)
        obtain ⟨r, hr, hxr⟩ := hp.cover (L + 1) hmem (by omega)
        have hrun := hp.runs r hr
        have hb := (hrun.mem_iff (L + 1)).1 hxr
        rcases hp.nostr r hr with h | h
        · omega
        · exact hno r hr (by omega)

open Lumina.Spec.C37 in
theorem reach_spec (stored : List Nat) : ∀ (fuel head : Nat) (h : Nat),
    head < h → h ≤ reach stored head fuel → h ∈ stored := by
  intro fuel
  induction fuel with
  | zero => intro head h h1 h2; simp only [reach] at h2; omega
  | succ fuel ih =>
    intro head h h1 h2
    simp only [reach] at h2
    split at h2
    · rename_i hc
      by_cases e : h = head + 1
      · subst e; simpa using hc
      · exact ih (head + 1) h (by omega) h2
    · omega

/-! ### the ghost log is the concatenation of the outputs -/

theorem finish_sentLog (s : State) (stored : List Nat) (L1 : Nat) (p1 : List (List Nat)) (sent1 : List Nat) :
    (finish s stored L1 p1 sent1).1.sentLog = s.sentLog ++ (finish s stored L1 p1 sent1).2.sent := by
  unfold finish
  cases drain p1.length L1 p1 with
  | none => simp
  | some res => obtain ⟨a, b, c⟩ := res; rfl

theorem step_sentLog (s : State) (e : Event) : (step s e).1.sentLog = s.sentLog ++ (step s e).2.sent := by
  cases e with
  | storeInsert r => simp [step]
  | initBroadcast h =>
    simp only [step, initBroadcast]
    split
    · rfl
    · split
      · rfl
      · simp
  | announceInsert r ok =>
    simp only [step, announceInsert]
    split
    · simp
    · split
      · split
        · simp
        · split
          · split <;> simp
          · split
            · simp
            · split <;> exact finish_sentLog _ _ _ _ _
      · simp

/-- the outputs of a history, in order -/
def outputs : State → List Event → List Out
  | _, [] => []
  | s, e :: evs => (step s e).2 :: outputs (step s e).1 evs

theorem run_cons (s : State) (e : Event) (evs : List Event) : run s (e :: evs) = run (step s e).1 evs := rfl

theorem sentLog_outputs : ∀ (evs : List Event) (s : State),
    (run s evs).sentLog = s.sentLog ++ (outputs s evs).flatMap (·.sent) := by
  intro evs
  induction evs with
  | nil => intro s; simp [run, outputs]
  | cons e evs ih =>
    intro s
    rw [run_cons, ih, step_sentLog]
    simp [outputs, List.append_assoc]

theorem run_append (s : State) (evs : List Event) (e : Event) :
    run s (evs ++ [e]) = (step (run s evs) e).1 := by
  simp [run, List.foldl_append]

theorem admRun_append : ∀ (evs : List Event) (s : State) (e : Event),
    AdmRun s (evs ++ [e]) → AdmRun s evs ∧ Adm (run s evs) e := by
  intro evs
  induction evs with
  | nil => intro s e h; exact ⟨trivial, h.1⟩
  | cons x evs ih =>
    intro s e h
    obtain ⟨h1, h2⟩ := ih _ e h.2
    exact ⟨⟨h.1, h1⟩, h2⟩

end Lumina.Proofs.Subs

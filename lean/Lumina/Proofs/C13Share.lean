/-
  Lemmas for the share-proof part of C13: what an accepted `ShareProof::verify` implies.
-/
import Lumina.Proofs.C13
import Lumina.Model.ShareProof
import Lumina.Proofs.DecodersMain

namespace Lumina.Proofs.C13
open Lumina.Util Lumina.Model.Merkle Lumina.Proofs.Merkle
open Lumina.Spec.C13
open Lumina.Model.ShareProof (ShareProof sharesNeeded rangeLoop verifyWith)
open Lumina.Model.Nmt (NsProof NsHash)

variable {D : Type}

def nobsOf (p : NsProof) : NProofObs := { start := p.start, end_ := p.end_, isAbsence := p.isAbsence }

def shareObsOf (sp : ShareProof D) : ShareProofObs D :=
  { data := sp.data, ns := sp.namespaceId, sproofs := sp.shareProofs.map nobsOf, row := rowObsOf sp.rowProof }

def shareResOf : Lumina.Model.ShareProof.Outcome → Res
  | .ok => .ok
  | .err _ => .err
  | .panic => .panic

/-- the first loop succeeds only on presence proofs with non-empty ranges, and returns the sum -/
theorem sharesNeeded_ok : ∀ (ps : List NsProof) (acc n : Nat), sharesNeeded acc ps = .ok n →
    (ps.map nobsOf).all (fun p => !p.isAbsence && decide (p.start < p.end_)) = true ∧
    n = acc + ((ps.map nobsOf).map (fun p => p.end_ - p.start)).sum := by
  intro ps
  induction ps with
  | nil => intro acc n h; simp [sharesNeeded] at h; simp [h]
  | cons p ps ih =>
    intro acc n h
    simp only [sharesNeeded] at h
    by_cases h1 : p.isAbsence = true
    · simp [h1] at h
    · by_cases h2 : p.end_ ≤ p.start
      · simp [h1, h2] at h
      · by_cases h3 : Lumina.Model.ShareProof.u64Max < acc + (p.end_ - p.start)
        · simp [h1, h2, h3] at h
        · simp only [h1, h2, h3, Bool.false_eq_true, ↓reduceIte] at h
          obtain ⟨a, b⟩ := ih _ _ h
          simp only [List.map_cons, List.all_cons, Bool.and_eq_true, List.sum_cons]
          refine ⟨⟨?_, a⟩, by rw [b]; show _ = acc + ((p.end_ - p.start) + _); omega⟩
          simp only [nobsOf, Bool.not_eq_true', decide_eq_true_eq]
          exact ⟨by simpa using h1, decide_eq_true (by omega)⟩

/-- the first loop never "fails with success", and (since /repo 292f2b8) never aborts -/
theorem sharesNeeded_error_ne_ok : ∀ (ps : List NsProof) (acc : Nat), sharesNeeded acc ps ≠ .error .ok := by
  intro ps
  induction ps with
  | nil => intro acc; simp [sharesNeeded]
  | cons p ps ih =>
    intro acc
    simp only [sharesNeeded]
    split
    · simp
    · split
      · simp
      · split
        · simp
        · exact ih _

theorem sharesNeeded_error_ne_panic : ∀ (ps : List NsProof) (acc : Nat), sharesNeeded acc ps ≠ .error .panic := by
  intro ps
  induction ps with
  | nil => intro acc; simp [sharesNeeded]
  | cons p ps ih =>
    intro acc
    simp only [sharesNeeded]
    split
    · simp
    · split
      · simp
      · split
        · simp
        · exact ih _

/-- the second loop never aborts when the shares are exactly as many as the ranges need, every row root is a
    90-byte namespaced hash (Rust type `NamespacedHash`) and the range bounds are `u32`s (Rust type) -/
theorem rangeLoop_ne_panic (h : Lumina.Model.Nmt.HashFn) (ns : Bytes) :
    ∀ (nps : List NsProof) (rs : List Bytes) (data : List Bytes),
      ((nps.map nobsOf).map (fun p => p.end_ - p.start)).sum ≤ data.length →
      (∀ r ∈ rs, r.length = 90) → (∀ p ∈ nps, Lumina.Proofs.Decoders.U32 p) →
      rangeLoop h ns data nps rs ≠ .panic := by
  intro nps
  induction nps with
  | nil => intro rs data _ _ _; simp [rangeLoop]
  | cons np nps ih =>
    intro rs data hsum hr hu
    cases rs with
    | nil => simp [rangeLoop]
    | cons r rs =>
      simp only [List.map_cons, List.sum_cons, nobsOf] at hsum
      simp only [rangeLoop]
      have hlen : ¬ data.length < np.end_ - np.start := by omega
      simp only [hlen, ↓reduceIte]
      have hr90 : r.length = 90 := hr r (by simp)
      have hof : ∃ root, NsHash.ofBytes? r = some root := by
        unfold NsHash.ofBytes?
        simp [hr90, Lumina.Model.Nmt.NAMESPACED_HASH_SIZE, Lumina.Model.Nmt.NS_SIZE, Lumina.Model.Nmt.HASH_LEN]
      obtain ⟨root, hroot⟩ := hof
      simp only [hroot]
      have hnp := Lumina.Proofs.Decoders.safeVerifyRange_ne_panic h np (hu np (by simp)) root
        (data.take (np.end_ - np.start)) ns
      cases hv : Lumina.Model.Decoders.safeVerifyRange h np root (data.take (np.end_ - np.start)) ns with
      | error e =>
        cases e <;> first | (exact absurd hv hnp) | simp
      | ok u =>
        simp only
        apply ih rs (data.drop (np.end_ - np.start))
        · simp only [List.length_drop, nobsOf] at hsum ⊢; omega
        · exact fun r' hr' => hr r' (by simp [hr'])
        · exact fun p hp => hu p (by simp [hp])

/-- composite binding hypothesis for share groups (see `Props/C13.lean`): `all` are the NMT roots of
    the axes of the square `sq`, and a range proof accepted against such a root for a range inside
    the axis proves exactly the shares of that range, under their committed namespace. -/
def NmtBinds (h : Lumina.Model.Nmt.HashFn) (w : Nat) (sq all : List Bytes) : Prop :=
  ∀ (idx : Nat) (r : Bytes) (root : NsHash) (p : NsProof) (raws : List Bytes) (ns : Bytes),
    all[idx]? = some r → NsHash.ofBytes? r = some root →
    Lumina.Model.Nmt.verifyRange h p root raws ns = .ok () → p.end_ ≤ w →
    raws = ((axisShares w sq idx).drop p.start).take (p.end_ - p.start) ∧
      nsAllAt w idx ns p.start raws = true

theorem slicesBound_of_ok [DecidableEq D] (H : HashFns D) (h : Lumina.Model.Nmt.HashFn) (w : Nat)
    (sq all : List Bytes) (hn : NmtBinds h w sq all) (ns : Bytes) :
    ∀ (nps : List NsProof) (rs : List Bytes) (mps : List (Proof D)) (data : List Bytes),
      rangeLoop h ns data nps rs = .ok →
      bindsAll H all rs (mps.map obsOf) = true → (∀ p ∈ mps, p.total = all.length) →
      nps.length = rs.length → rs.length = mps.length →
      slicesBound w sq ns data (nps.map nobsOf) (mps.map obsOf) = true := by
  intro nps
  induction nps with
  | nil => intro rs mps data _ _ _ _ _; simp [slicesBound]
  | cons np nps ih =>
    intro rs mps data hl hb ht h1 h2
    cases rs with
    | nil => simp at h1
    | cons r rs =>
      cases mps with
      | nil => simp at h2
      | cons mp mps =>
        simp only [rangeLoop] at hl
        by_cases hlen : data.length < np.end_ - np.start
        · simp [hlen] at hl
        · simp only [hlen, ↓reduceIte] at hl
          cases hr : NsHash.ofBytes? r with
          | none => simp [hr] at hl
          | some root =>
            simp only [hr] at hl
            cases hv : Lumina.Model.Decoders.safeVerifyRange h np root (data.take (np.end_ - np.start)) ns with
            | error e =>
              rw [hv] at hl
              cases e <;> simp at hl
            | ok u =>
              rw [hv] at hl
              simp only at hl
              simp only [List.map_cons, bindsAll, Bool.and_eq_true] at hb
              obtain ⟨hb1, hb2⟩ := hb
              have htot : mp.total = all.length := ht mp (by simp)
              have hidx : all[mp.index]? = some r := by
                simp only [obsOf, htot, beq_self_eq_true, Bool.not_true, Bool.false_or, Bool.and_eq_true,
                  beq_iff_eq] at hb1
                exact hb1.1.2
              simp only [List.map_cons, slicesBound, Bool.and_eq_true, Bool.or_eq_true, Bool.not_eq_true',
                decide_eq_false_iff_not, beq_iff_eq, nobsOf, obsOf]
              refine ⟨?_, ?_⟩
              · by_cases hw : np.end_ ≤ w
                · right
                  have hv' : Lumina.Model.Nmt.verifyRange h np root (data.take (np.end_ - np.start)) ns = .ok () := by
                    unfold Lumina.Model.Decoders.safeVerifyRange at hv
                    split at hv
                    · cases hv
                    · cases u; exact hv
                  exact hn mp.index r root np _ ns hidx hr hv' hw
                · left; exact hw
              · exact ih rs mps _ hl hb2 (fun p hp => ht p (by simp [hp])) (by simpa using h1) (by simpa using h2)

end Lumina.Proofs.C13

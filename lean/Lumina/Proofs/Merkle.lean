/-
  Helper lemmas about the simple merkle tree model (`Lumina.Model.Merkle`): unfolding lemmas for
  the well-founded definitions, `hash_leaves_collecting_aunts` = (root, audit path), soundness
  (position binding) and uniqueness of accepted proofs under collision-freeness.
-/
import Lumina.Model.Merkle

namespace Lumina.Proofs.Merkle
open Lumina.Util Lumina.Model.Merkle

variable {D : Type}

/-! ### unfolding -/

theorem root_nil (H : HashFns D) : root H [] = H.empty := by
  rw [root]

theorem root_singleton (H : HashFns D) (x : Bytes) : root H [x] = H.leaf x := by
  rw [root]

theorem root_split (H : HashFns D) (l : List Bytes) (h : 2 ≤ l.length) :
    root H l = H.inner (root H (l.take (splitPoint l.length))) (root H (l.drop (splitPoint l.length))) := by
  match l, h with
  | a :: b :: rest, _ => rw [root]

theorem hlca_nil (H : HashFns D) (f p : Nat) (a : List D) :
    hashLeavesCollectingAunts H f p [] a = (H.empty, a) := by
  rw [hashLeavesCollectingAunts]

theorem hlca_singleton (H : HashFns D) (f p : Nat) (x : Bytes) (a : List D) :
    hashLeavesCollectingAunts H f p [x] a = (H.leaf x, a) := by
  rw [hashLeavesCollectingAunts]

theorem hlca_split (H : HashFns D) (f p : Nat) (l : List Bytes) (a : List D) (h : 2 ≤ l.length) :
    hashLeavesCollectingAunts H f p l a =
      (let total := l.length
       let k := splitPoint total
       let lft := hashLeavesCollectingAunts H f p (l.take k) a
       let r := hashLeavesCollectingAunts H (f + k) p (l.drop k) lft.2
       let aunts' :=
         if f ≤ p ∧ p < f + total then
           if p < f + k then r.2 ++ [r.1] else r.2 ++ [lft.1]
         else r.2
       (H.inner lft.1 r.1, aunts')) := by
  match l, h with
  | a :: b :: rest, _ => rw [hashLeavesCollectingAunts]

/-! ### the audit path as a function (sibling digests, leaf level first) -/

/-- audit path of leaf `m` in the tree over `l`, by the model's split rule -/
def auntsOf (H : HashFns D) (m : Nat) (l : List Bytes) : List D :=
  match l with
  | [] => []
  | [_] => []
  | a :: b :: rest =>
    let k := splitPoint (a :: b :: rest).length
    if m < k then auntsOf H m ((a :: b :: rest).take k) ++ [root H ((a :: b :: rest).drop k)]
    else auntsOf H (m - k) ((a :: b :: rest).drop k) ++ [root H ((a :: b :: rest).take k)]
termination_by l.length
decreasing_by
  · have h1 := splitPoint_lt (a :: b :: rest).length (by simp)
    have _h2 := splitPoint_pos (a :: b :: rest).length (by simp)
    simp only [List.length_take]
    omega
  · have _h2 := splitPoint_pos (a :: b :: rest).length (by simp)
    simp only [List.length_drop]
    simp only [List.length_cons] at *
    omega

theorem auntsOf_short (H : HashFns D) (m : Nat) (l : List Bytes) (h : l.length ≤ 1) : auntsOf H m l = [] := by
  match l, h with
  | [], _ => rw [auntsOf]
  | [_], _ => rw [auntsOf]

theorem auntsOf_split (H : HashFns D) (m : Nat) (l : List Bytes) (h : 2 ≤ l.length) :
    auntsOf H m l =
      if m < splitPoint l.length then
        auntsOf H m (l.take (splitPoint l.length)) ++ [root H (l.drop (splitPoint l.length))]
      else auntsOf H (m - splitPoint l.length) (l.drop (splitPoint l.length)) ++
        [root H (l.take (splitPoint l.length))] := by
  match l, h with
  | a :: b :: rest, _ => rw [auntsOf]

/-- `hash_leaves_collecting_aunts` returns the root and appends exactly the audit path of the
    leaf to prove when that leaf lies in the current subtree (nothing otherwise). -/
theorem hlca_eq (H : HashFns D) : ∀ (n : Nat) (l : List Bytes), l.length ≤ n → ∀ (f p : Nat) (a : List D),
    hashLeavesCollectingAunts H f p l a =
      (root H l, if f ≤ p ∧ p < f + l.length then a ++ auntsOf H (p - f) l else a) := by
  intro n
  induction n with
  | zero =>
    intro l hl f p a
    have : l = [] := List.eq_nil_of_length_eq_zero (by omega)
    subst this
    have : ¬ (f ≤ p ∧ p < f + 0) := by omega
    simp only [hlca_nil, root_nil, List.length_nil]
    rw [if_neg this]
  | succ n ih =>
    intro l hl f p a
    by_cases h2 : 2 ≤ l.length
    · have hk1 := splitPoint_lt l.length h2
      have hk0 := splitPoint_pos l.length h2
      have hlt : (l.take (splitPoint l.length)).length ≤ n := by simp only [List.length_take]; omega
      have hld : (l.drop (splitPoint l.length)).length ≤ n := by simp only [List.length_drop]; omega
      have htl : (l.take (splitPoint l.length)).length = splitPoint l.length := by
        simp only [List.length_take]; omega
      have hdl : (l.drop (splitPoint l.length)).length = l.length - splitPoint l.length := by
        simp only [List.length_drop]
      rw [hlca_split H f p l a h2]
      simp only
      rw [ih _ hlt f p a]
      simp only
      rw [ih _ hld]
      simp only
      rw [← root_split H l h2, htl, hdl, auntsOf_split H (p - f) l h2]
      by_cases hin : f ≤ p ∧ p < f + l.length
      · by_cases hleft : p < f + splitPoint l.length
        · have c1 : f ≤ p ∧ p < f + splitPoint l.length := ⟨hin.1, hleft⟩
          have c2 : ¬ (f + splitPoint l.length ≤ p ∧ p < f + splitPoint l.length + (l.length - splitPoint l.length)) := by omega
          have c3 : p - f < splitPoint l.length := by omega
          simp only [if_pos hin, if_pos hleft, if_pos c1, if_neg c2, if_pos c3, List.append_assoc]
        · have c1 : ¬ (f ≤ p ∧ p < f + splitPoint l.length) := by omega
          have c2 : f + splitPoint l.length ≤ p ∧ p < f + splitPoint l.length + (l.length - splitPoint l.length) := by omega
          have c3 : ¬ p - f < splitPoint l.length := by omega
          have c4 : p - (f + splitPoint l.length) = p - f - splitPoint l.length := by omega
          simp only [if_pos hin, if_neg hleft, if_neg c1, if_pos c2, if_neg c3, c4, List.append_assoc]
      · have c1 : ¬ (f ≤ p ∧ p < f + splitPoint l.length) := by omega
        have c2 : ¬ (f + splitPoint l.length ≤ p ∧ p < f + splitPoint l.length + (l.length - splitPoint l.length)) := by omega
        simp only [if_neg hin, if_neg c1, if_neg c2]
    · match l, h2 with
      | [], _ =>
        have : ¬ (f ≤ p ∧ p < f + 0) := by omega
        simp only [hlca_nil, root_nil, List.length_nil]
        rw [if_neg this]
      | [x], _ =>
        simp only [hlca_singleton, root_singleton, List.length_singleton]
        rw [auntsOf_short H _ [x] (by simp)]
        simp
      | _ :: _ :: _, h2 => simp at h2
/-! ### completeness: the honest path recomputes the root -/

theorem subtreeRootRev_auntsOf (H : HashFns D) : ∀ (n : Nat) (l : List Bytes), l.length ≤ n → ∀ m, m < l.length →
    subtreeRootRev H m l.length (H.leaf (l.getD m [])) (auntsOf H m l).reverse = .ok (root H l) := by
  intro n
  induction n with
  | zero => intro l hl m hm; omega
  | succ n ih =>
    intro l hl m hm
    by_cases h2 : 2 ≤ l.length
    · have hk1 := splitPoint_lt l.length h2
      have hk0 := splitPoint_pos l.length h2
      have htl : (l.take (splitPoint l.length)).length = splitPoint l.length := by
        simp only [List.length_take]; omega
      have hdl : (l.drop (splitPoint l.length)).length = l.length - splitPoint l.length := by
        simp only [List.length_drop]
      have hne1 : l.length ≠ 1 := by omega
      rw [auntsOf_split H m l h2, root_split H l h2]
      by_cases hleft : m < splitPoint l.length
      · rw [if_pos hleft, List.reverse_append, List.reverse_singleton, List.singleton_append, subtreeRootRev]
        rw [if_neg hne1]
        simp only
        rw [if_pos hleft]
        have := ih (l.take (splitPoint l.length)) (by omega) m (by omega)
        rw [htl] at this
        have hg : (l.take (splitPoint l.length)).getD m [] = l.getD m [] := by
          simp only [List.getD_eq_getElem?_getD, List.getElem?_take, if_pos hleft]
        rw [hg] at this
        rw [this]
      · rw [if_neg hleft, List.reverse_append, List.reverse_singleton, List.singleton_append, subtreeRootRev]
        rw [if_neg hne1]
        simp only
        rw [if_neg hleft]
        have := ih (l.drop (splitPoint l.length)) (by omega) (m - splitPoint l.length) (by omega)
        rw [hdl] at this
        have hg : (l.drop (splitPoint l.length)).getD (m - splitPoint l.length) [] = l.getD m [] := by
          simp only [List.getD_eq_getElem?_getD, List.getElem?_drop]
          congr 2
          omega
        rw [hg] at this
        rw [this]
    · match l, h2, hm with
      | [x], _, hm =>
        have : m = 0 := by simpa using hm
        subst this
        rw [auntsOf_short H _ [x] (by simp)]
        simp [subtreeRootRev, root_singleton]
      | _ :: _ :: _, h2, _ => simp at h2

/-! ### soundness: an accepted path determines the leaf digest and the aunts -/

/-- Under collision-free `inner`: if the recursion reproduces the root of the tree over `l` with
    `total = |l|` and `index < total`, then the leaf digest is the digest of `l[index]` and the
    aunts are exactly the audit path. -/
theorem subtreeRootRev_sound (H : HashFns D) (hinj : InnerInj H) :
    ∀ (rev : List D) (l : List Bytes) (m : Nat) (d : D), m < l.length →
      subtreeRootRev H m l.length d rev = .ok (root H l) →
      d = H.leaf (l.getD m []) ∧ rev = (auntsOf H m l).reverse := by
  intro rev
  induction rev with
  | nil =>
    intro l m d hm h
    simp only [subtreeRootRev] at h
    by_cases h1 : l.length = 1
    · rw [if_pos h1] at h
      match l, h1 with
      | [x], _ =>
        have : m = 0 := by simpa using hm
        subst this
        rw [root_singleton] at h
        rw [auntsOf_short H _ [x] (by simp)]
        simp only [List.getD_eq_getElem?_getD, List.getElem?_cons_zero, Option.getD_some, List.reverse_nil, and_true]
        injection h
    · rw [if_neg h1] at h
      cases h
  | cons sib rest ih =>
    intro l m d hm h
    rw [subtreeRootRev] at h
    by_cases h1 : l.length = 1
    · rw [if_pos h1] at h; cases h
    · rw [if_neg h1] at h
      have h2 : 2 ≤ l.length := by omega
      have hk1 := splitPoint_lt l.length h2
      have hk0 := splitPoint_pos l.length h2
      have htl : (l.take (splitPoint l.length)).length = splitPoint l.length := by
        simp only [List.length_take]; omega
      have hdl : (l.drop (splitPoint l.length)).length = l.length - splitPoint l.length := by
        simp only [List.length_drop]
      simp only at h
      rw [root_split H l h2] at h
      rw [auntsOf_split H m l h2]
      by_cases hleft : m < splitPoint l.length
      · rw [if_pos hleft] at h
        rw [if_pos hleft]
        generalize hsub : subtreeRootRev H m (splitPoint l.length) d rest = sub at h
        cases sub with
        | error e => cases h
        | ok x =>
          simp only [Except.ok.injEq] at h
          obtain ⟨hx, hs⟩ := hinj _ _ _ _ h
          subst hx
          have hsub' : subtreeRootRev H m (l.take (splitPoint l.length)).length d rest =
              .ok (root H (l.take (splitPoint l.length))) := by rw [htl]; exact hsub
          obtain ⟨hd, hr⟩ := ih (l.take (splitPoint l.length)) m d (by omega) hsub'
          have hg : (l.take (splitPoint l.length)).getD m [] = l.getD m [] := by
            simp only [List.getD_eq_getElem?_getD, List.getElem?_take, if_pos hleft]
          rw [hg] at hd
          refine ⟨hd, ?_⟩
          rw [List.reverse_append, List.reverse_singleton, List.singleton_append, hr, hs]
      · rw [if_neg hleft] at h
        rw [if_neg hleft]
        generalize hsub : subtreeRootRev H (m - splitPoint l.length) (l.length - splitPoint l.length) d rest = sub at h
        cases sub with
        | error e => cases h
        | ok x =>
          simp only [Except.ok.injEq] at h
          obtain ⟨hs, hx⟩ := hinj _ _ _ _ h
          subst hx
          have hsub' : subtreeRootRev H (m - splitPoint l.length) (l.drop (splitPoint l.length)).length d rest =
              .ok (root H (l.drop (splitPoint l.length))) := by rw [hdl]; exact hsub
          obtain ⟨hd, hr⟩ := ih (l.drop (splitPoint l.length)) (m - splitPoint l.length) d (by omega) hsub'
          have hg : (l.drop (splitPoint l.length)).getD (m - splitPoint l.length) [] = l.getD m [] := by
            simp only [List.getD_eq_getElem?_getD, List.getElem?_drop]
            congr 2
            omega
          rw [hg] at hd
          refine ⟨hd, ?_⟩
          rw [List.reverse_append, List.reverse_singleton, List.singleton_append, hr, hs]

/-- the free term algebra is collision free (the hypotheses of the soundness theorems are satisfiable) -/
theorem termFns_innerInj : InnerInj termFns := by
  intro a b c d h
  simp only [termFns] at h
  injection h with h1 h2
  exact ⟨h1, h2⟩

theorem termFns_leafInj : LeafInj termFns := by
  intro x y h
  simp only [termFns] at h
  injection h

theorem termFns_leafNeInner : LeafNeInner termFns := by
  intro x a b h
  simp only [termFns] at h
  cases h

/-- absence of an explicit collision is the same as injectivity of both hash operations -/
theorem not_collision_iff (H : HashFns D) : ¬ Collision H ↔ (LeafInj H ∧ InnerInj H) := by
  constructor
  · intro hn
    constructor
    · intro x y h
      by_cases hxy : x = y
      · exact hxy
      · exact absurd (Or.inl ⟨x, y, hxy, h⟩) hn
    · intro a b c d h
      by_cases hac : a = c
      · by_cases hbd : b = d
        · exact ⟨hac, hbd⟩
        · exact absurd (Or.inr ⟨a, b, c, d, Or.inr hbd, h⟩) hn
      · exact absurd (Or.inr ⟨a, b, c, d, Or.inl hac, h⟩) hn
  · rintro ⟨hl, hi⟩ (⟨x, y, hne, h⟩ | ⟨a, b, c, d, hne, h⟩)
    · exact hne (hl x y h)
    · obtain ⟨h1, h2⟩ := hi a b c d h
      cases hne with
      | inl h => exact h h1
      | inr h => exact h h2

end Lumina.Proofs.Merkle

/-
  Lemmas for the convergence half of C38 under a FAIRNESS hypothesis
  (`Lumina/Model/SyncerLoop.lean`, on top of `Lumina/Proofs/SyncerLoop.lean`):

    * infinite runs (`trace`), monotonicity of the store and of the subjective head under EVERY
      event;
    * the auxiliary invariants `Aux` (nothing pruned, slow-sync not armed, everything at or below
      a bound `M` on the network head) and `Busy` (a connected worker without an ongoing batch has
      nothing to schedule), preserved by every admissible event;
    * the potential `phi M s = missing s.store 1 M + stale s` (`stale` = 1 when the ongoing request
      already overlaps the store, which is what a header-sub insertion can do to a forward batch):
      it never increases, whatever the event, and strictly decreases at every honest answer;
    * `fair_converges`: under the fairness hypothesis, from every point of the run there is a
      later point at which every height of the sampling window up to the head is stored.

  Core Lean only.
-/
import Lumina.Proofs.SyncerLoop

namespace Lumina.Proofs.SyncerFair
open Lumina.Model.Store (Hdr)
open Lumina.Spec.C19
open Lumina.Model.SyncerLoop
open Lumina.Proofs.Store
open Lumina.Proofs.SyncerLoop
open Lumina.Model.SyncerGate (fetchDecision fetchDecisionWith Decision)

/-! ### infinite runs -/

/-- the state after the first `k` events of an infinite event sequence -/
def trace (e : Env) (s0 : State) (evs : Nat → Ev) : Nat → State
  | 0 => s0
  | k + 1 => (step e (trace e s0 evs k) (evs k)).1

theorem run_append (e : Env) : ∀ (l1 l2 : List Ev) (s : State), run e s (l1 ++ l2) = run e (run e s l1) l2
  | [], _, _ => rfl
  | ev :: l1, l2, s => by simp only [List.cons_append, run]; exact run_append e l1 l2 _

/-- `trace` is `run` on the first `k` events -/
theorem trace_eq_run (e : Env) (s0 : State) (evs : Nat → Ev) :
    ∀ k, trace e s0 evs k = run e s0 ((List.range k).map evs)
  | 0 => rfl
  | k + 1 => by
    rw [List.range_succ, List.map_append, run_append, ← trace_eq_run e s0 evs k]
    rfl

/-! ### the store only grows, the head only moves up -/

theorem tryInit_cases {e : Env} {a a' : AbsStore} {h : Hdr} (ht : tryInit e a h = some a') :
    a' = a ∨ a' = (a.insert e.verify [h]).1 := by
  unfold tryInit at ht
  split at ht
  · split at ht
    · rename_i a2 o hins
      injection ht with ht
      right; rw [← ht, hins]
    · cases ht
  · injection ht with ht
    exact Or.inl ht.symm

/-- whatever the event, the store afterwards is the store before or the result of ONE `insert` -/
theorem step_store_cases (e : Env) (s : State) (ev : Ev) :
    (step e s ev).1.store = s.store ∨ ∃ b, (step e s ev).1.store = (s.store.insert e.verify b).1 := by
  cases ev with
  | peers n =>
    simp only [step]
    split
    · split <;> exact Or.inl rfl
    · exact Or.inl rfl
  | netHead h =>
    simp only [step]
    split
    · exact Or.inl rfl
    · split
      · exact Or.inl rfl
      · rename_i a' ht
        have hc : a' = s.store ∨ a' = (s.store.insert e.verify [h]).1 := tryInit_cases ht
        split
        · rw [setHead_store]
          rcases hc with hc | hc
          · exact Or.inl hc
          · exact Or.inr ⟨[h], hc⟩
        · rw [fetch_store]
          show (setHead _ _).store = _ ∨ ∃ b, (setHead _ _).store = _
          rw [setHead_store]
          rcases hc with hc | hc
          · exact Or.inl hc
          · exact Or.inr ⟨[h], hc⟩
  | headerSub h =>
    simp only [step]
    split
    · exact Or.inl rfl
    · rw [fetch_store]
      split
      · split
        · right; exact ⟨[h], by simp only [setHead_store]⟩
        · left; exact setHead_store _ _
      · left; exact setHead_store _ _
  | batch res =>
    simp only [step]
    split
    · cases res with
      | none => left; rw [fetch_store]
      | some hs => right; exact ⟨hs, by rw [fetch_store]⟩
    · exact Or.inl rfl

theorem step_stored_mono (e : Env) (s : State) (ev : Ev) (h : Nat) (hs : s.store.stored h = true) :
    (step e s ev).1.store.stored h = true := by
  rcases step_store_cases e s ev with hc | ⟨b, hc⟩
  · rw [hc]; exact hs
  · rw [hc]; exact insert_stored_mono _ _ _ _ hs

theorem step_missing_le (e : Env) (s : State) (ev : Ev) (lo hi : Nat) :
    missing (step e s ev).1.store lo hi ≤ missing s.store lo hi := by
  rcases step_store_cases e s ev with hc | ⟨b, hc⟩
  · rw [hc]; exact Nat.le_refl _
  · rw [hc]; exact missing_insert_le _ _ _ _ _

theorem setHead_head_some (s : State) (h : Nat) : ∃ H, (setHead s h).head = some H := by
  unfold setHead
  split
  · rename_i old ho
    split
    · exact ⟨old, ho⟩
    · exact ⟨h, rfl⟩
  · exact ⟨h, rfl⟩

theorem setHead_head_ge (s : State) (h H : Nat) (hh : s.head = some H) :
    ∃ H', H ≤ H' ∧ (setHead s h).head = some H' := by
  unfold setHead
  rw [hh]
  simp only
  split
  · exact ⟨H, Nat.le_refl _, hh⟩
  · exact ⟨h, by omega, rfl⟩

theorem fetch_head (e : Env) (s : State) : (fetchNextBatch e s).1.head = s.head := by
  unfold fetchNextBatch; split <;> rfl

theorem fetch_phase (e : Env) (s : State) : (fetchNextBatch e s).1.phase = s.phase := by
  unfold fetchNextBatch; split <;> rfl

/-- `subjective_head_height` never moves down -/
theorem step_head_mono (e : Env) (s : State) (ev : Ev) (H : Nat) (hh : s.head = some H) :
    ∃ H', H ≤ H' ∧ (step e s ev).1.head = some H' := by
  cases ev with
  | peers n =>
    simp only [step]
    split
    · split <;> exact ⟨H, Nat.le_refl _, hh⟩
    · exact ⟨H, Nat.le_refl _, hh⟩
  | netHead h =>
    simp only [step]
    split
    · exact ⟨H, Nat.le_refl _, hh⟩
    · split
      · exact ⟨H, Nat.le_refl _, hh⟩
      · split
        · exact setHead_head_ge _ _ _ hh
        · rw [fetch_head]; exact setHead_head_ge _ _ _ hh
  | headerSub h =>
    simp only [step]
    split
    · exact ⟨H, Nat.le_refl _, hh⟩
    · rw [fetch_head]
      obtain ⟨H', h1, h2⟩ := setHead_head_ge s h.height H hh
      split
      · split
        · exact ⟨H', h1, h2⟩
        · exact ⟨H', h1, h2⟩
      · exact ⟨H', h1, h2⟩
  | batch res =>
    simp only [step]
    split
    · cases res with
      | none => rw [fetch_head]; exact ⟨H, Nat.le_refl _, hh⟩
      | some hs => rw [fetch_head]; exact ⟨H, Nat.le_refl _, hh⟩
    · exact ⟨H, Nat.le_refl _, hh⟩

/-! ### auxiliary invariants -/

/-- the heads the environment announces stay at or below `M` -/
def EvBelow (M : Nat) : Ev → Prop
  | .netHead h => h.height ≤ M
  | .headerSub h => h.height ≤ M
  | _ => True

/-- side conditions of the convergence argument, preserved by every admissible event:
    batch size ≥ 1, slow-sync not armed, nothing pruned, every stored height / the subjective
    head / the ongoing request at or below `M`; a connected worker has a peer and a head -/
structure Aux (M : Nat) (s : State) : Prop where
  batch : 1 ≤ s.batchSize
  slow : s.slowSync = none
  unpruned : s.store.pruned = []
  below : ∀ x ∈ s.store.hdrs, x.height ≤ M
  headLe : ∀ h, s.head = some h → h ≤ M
  ongoingLe : ∀ r, s.ongoing = some r → r.2 ≤ M
  connPeers : s.phase = .connected → s.peers ≠ 0
  connHead : s.phase = .connected → ∃ h, s.head = some h

theorem insert_unpruned (v : Hdr → Hdr → Bool) (a : AbsStore) (b : List Hdr) (h : a.pruned = []) :
    (a.insert v b).1.pruned = [] := by
  cases hp : (a.insert v b).1.pruned with
  | nil => rfl
  | cons p rest =>
    have := insert_pruned_sub v a b p (by rw [hp]; simp)
    rw [h] at this; cases this

/-- an accepted batch whose last height is at or below `M` keeps every stored height at or below `M` -/
theorem insert_below (v : Hdr → Hdr → Bool) (a : AbsStore) (b : List Hdr) (M : Nat)
    (ha : ∀ x ∈ a.hdrs, x.height ≤ M) (hl : ∀ last, b.getLast? = some last → last.height ≤ M) :
    ∀ x ∈ (a.insert v b).1.hdrs, x.height ≤ M := by
  cases hc : AbsStore.insertCheck v a b with
  | error err => simp only [AbsStore.insert, hc]; exact ha
  | ok o =>
    cases o with
    | none => simp only [AbsStore.insert, hc]; exact ha
    | some p =>
      obtain ⟨lo, hi'⟩ := p
      rw [insert_eq_added v a b lo hi' hc]
      obtain ⟨first, last, ok, e1, e2⟩ := insertCheck_some v a b lo hi' hc
      obtain ⟨_, b2, _⟩ := batch_heights v b first last ok.chain ok.hd ok.lst
      intro x hx
      simp only [added, List.mem_append] at hx
      rcases hx with hx | hx
      · exact ha x hx
      · have := (b2 x hx).2
        have := hl last ok.lst
        omega

theorem p2pAccepts_last {v : Hdr → Hdr → Bool} {r : Lumina.Model.Ranges.Range} {hs : List Hdr}
    (h : p2pAccepts v r hs = true) : ∀ last, hs.getLast? = some last → last.height = r.2 := by
  intro last hl
  unfold p2pAccepts at h
  split at h
  · rename_i f l hf hl'
    rw [hl] at hl'
    injection hl' with hl'
    subst hl'
    simp only [Bool.and_eq_true, beq_iff_eq] at h
    exact h.2
  · cases h

open Lumina.Proofs.SyncerGate Lumina.Proofs.Ranges Lumina.Model.Ranges in
/-- with nothing pruned, a scheduled batch ends at or below any bound on the head and the stored heights -/
theorem request_le {e : Env} {s : State} {r : Lumina.Model.Ranges.Range} {M : Nat}
    (hi : AbsInv s.store) (hpr : s.store.pruned = []) (hb : ∀ x ∈ s.store.hdrs, x.height ≤ M)
    (hh : ∀ h, s.head = some h → h ≤ M)
    (hdec : fetchDecision e.slowMin (gateIn e s) = .ok (.request r)) : r.2 ≤ M := by
  obtain ⟨ist, mst⟩ := storedRanges_spec hi
  obtain ⟨ipr, mpr⟩ := prunedRanges_spec hi
  obtain ⟨head, synced, _, hhead, hadd, hcalc, hnemp, _, _⟩ := request_cases hdec
  simp only [gateIn] at hadd hcalc hhead
  obtain ⟨c', hc', hci, hcm⟩ := add_spec ipr ist
  rw [hadd] at hc'
  injection hc' with hc'
  subst hc'
  obtain ⟨_, _, hshape⟩ := calc_cases hci hcalc hnemp
  have := hh head hhead
  rcases hshape with ⟨_, hr2, _⟩ | ⟨hbd, _, _⟩
  · omega
  · rcases (hcm _).1 hbd with hp | hst
    · rw [mpr, hpr] at hp; cases hp
    · obtain ⟨x, hx, ex⟩ := (stored_iff _ _).1 ((mst _).1 hst)
      have := hb x hx
      omega

theorem aux_fetch {e : Env} {s : State} {M : Nat} (hi : AbsInv s.store) (ha : Aux M s) :
    Aux M (fetchNextBatch e s).1 := by
  unfold fetchNextBatch
  split
  · rename_i r hdec
    exact ⟨ha.batch, ha.slow, ha.unpruned, ha.below, ha.headLe,
      fun r' hr' => by
        injection hr' with hr'; subst hr'
        exact request_le hi ha.unpruned ha.below ha.headLe hdec,
      ha.connPeers, ha.connHead⟩
  · exact ha

theorem aux_setHead {s : State} {M : Nat} (ha : Aux M s) (h : Nat) (hh : h ≤ M) : Aux M (setHead s h) := by
  unfold setHead
  split
  · split
    · exact ha
    · exact ⟨ha.batch, ha.slow, ha.unpruned, ha.below,
        fun h' hh' => by injection hh' with hh'; omega, ha.ongoingLe, ha.connPeers, fun _ => ⟨h, rfl⟩⟩
  · exact ⟨ha.batch, ha.slow, ha.unpruned, ha.below,
      fun h' hh' => by injection hh' with hh'; omega, ha.ongoingLe, ha.connPeers, fun _ => ⟨h, rfl⟩⟩

theorem aux_store {s : State} {M : Nat} (ha : Aux M s) (a' : AbsStore) (h1 : a'.pruned = [])
    (h2 : ∀ x ∈ a'.hdrs, x.height ≤ M) : Aux M { s with store := a' } :=
  ⟨ha.batch, ha.slow, h1, h2, ha.headLe, ha.ongoingLe, ha.connPeers, ha.connHead⟩

theorem aux_insert_single {s : State} {M : Nat} (ha : Aux M s) (v : Hdr → Hdr → Bool) (h : Hdr)
    (hh : h.height ≤ M) : Aux M { s with store := (s.store.insert v [h]).1 } :=
  aux_store ha _ (insert_unpruned v _ _ ha.unpruned)
    (insert_below v _ _ M ha.below (fun last hl => by simp at hl; subst hl; exact hh))

/-- **`Aux` is preserved by every admissible event.** -/
theorem step_aux {v : Hdr → Hdr → Bool} {c : Nat → Hdr} {e : Env}
    (hP : ∀ h, e.chain.oldP h = false) {M : Nat} {s : State} (hi : Inv c s) (ha : Aux M s)
    {ev : Ev} (hok : EvOk v c s ev) (hbl : EvBelow M ev) : Aux M (step e s ev).1 := by
  cases ev with
  | peers n =>
    simp only [step]
    split
    · split
      · exact ⟨ha.batch, ha.slow, ha.unpruned, ha.below, ha.headLe, (fun _ h => by cases h),
          (fun h => by cases h), (fun h => by cases h)⟩
      · rename_i hn
        exact ⟨ha.batch, ha.slow, ha.unpruned, ha.below, ha.headLe, ha.ongoingLe,
          (fun _ => by simpa using hn), ha.connHead⟩
    · rename_i hph
      exact ⟨ha.batch, ha.slow, ha.unpruned, ha.below, ha.headLe, ha.ongoingLe,
        (fun h => by rw [hph] at h; cases h), ha.connHead⟩
  | netHead h =>
    obtain ⟨hh, hw⟩ := hok
    simp only [step]
    split
    · exact ha
    · split
      · exact ha
      · rename_i a' ht
        have hc : a' = s.store ∨ a' = (s.store.insert e.verify [h]).1 := tryInit_cases ht
        have ha1 : Aux M { s with store := a' } := by
          rcases hc with hc | hc
          · rw [hc]; exact ha
          · rw [hc]; exact aux_insert_single ha _ h hbl
        have hi1 : AbsInv a' := by
          rcases hc with hc | hc
          · rw [hc]; exact hi.abs
          · rw [hc]; exact insert_inv _ _ _ hi.abs (by intro x hx; simp at hx; subst hx; exact hw)
        have ha2 := aux_setHead ha1 h.height hbl
        split
        · exact ha2
        · rename_i hp
          apply aux_fetch (by show AbsInv (setHead _ _).store; rw [setHead_store]; exact hi1)
          exact ⟨ha2.batch, ha2.slow, ha2.unpruned, ha2.below, ha2.headLe, ha2.ongoingLe,
            (fun _ => by simpa using hp), fun _ => setHead_head_some _ _⟩
  | headerSub h =>
    obtain ⟨hh, hw⟩ := hok
    simp only [step]
    split
    · exact ha
    · have ha1 := aux_setHead ha h.height hbl
      have hi1 : AbsInv (setHead s h.height).store := by rw [setHead_store]; exact hi.abs
      split
      · split
        · apply aux_fetch
          · exact insert_inv _ _ _ hi1 (by intro x hx; simp at hx; subst hx; exact hw)
          · exact aux_insert_single ha1 _ h hbl
        · exact aux_fetch hi1 ha1
      · exact aux_fetch hi1 ha1
  | batch res =>
    simp only [step]
    split
    · rename_i r hph hon
      have ha0 : Aux M { s with ongoing := none } :=
        ⟨ha.batch, ha.slow, ha.unpruned, ha.below, ha.headLe, (fun _ h => by cases h),
          ha.connPeers, ha.connHead⟩
      cases res with
      | none => exact aux_fetch hi.abs ha0
      | some hs =>
        obtain ⟨hacc, hwf⟩ := hok
        have hacc := hacc r hon
        apply aux_fetch
        · exact insert_inv _ _ _ hi.abs hwf
        · refine ⟨ha.batch, ?_, insert_unpruned _ _ _ ha.unpruned, ?_, ha.headLe,
            (fun _ h => by cases h), ha.connPeers, ha.connHead⟩
          · show Lumina.Model.SyncerGate.slowSyncScan e.chain.oldP s.slowSync _ = none
            rw [ha.slow]; exact slowSyncScan_none _ hP _
          · apply insert_below _ _ _ M ha.below
            intro last hl
            rw [p2pAccepts_last hacc last hl]
            exact ha.ongoingLe r hon
    · exact ha

/-! ### a connected worker without an ongoing batch has nothing to schedule -/

def Busy (e : Env) (s : State) : Prop :=
  s.phase = .connected → s.ongoing = none → (fetchNextBatch e s).2 = none

theorem fetch_busy (e : Env) (s : State) (h : (fetchNextBatch e s).1.ongoing = none) :
    (fetchNextBatch e (fetchNextBatch e s).1).2 = none := by
  cases hd : fetchDecision e.slowMin (gateIn e s) with
  | error err => simp [fetchNextBatch, hd]
  | ok d =>
    cases d with
    | idle w => simp [fetchNextBatch, hd]
    | request r => simp [fetchNextBatch, hd] at h

/-- the decision reads the number of connected peers only through `== 0` -/
theorem fetch_peers (e : Env) (s : State) (n : Nat) (hn : n ≠ 0) (hs : s.peers ≠ 0) :
    (fetchNextBatch e { s with peers := n }).2 = (fetchNextBatch e s).2 := by
  have hd : fetchDecision e.slowMin (gateIn e { s with peers := n }) = fetchDecision e.slowMin (gateIn e s) := by
    have h1 : (n == 0) = false := by simpa using hn
    have h2 : (s.peers == 0) = false := by simpa using hs
    simp only [fetchDecision, fetchDecisionWith, gateIn, h1, h2, Lumina.Model.SyncerGate.slowSyncStop,
      Lumina.Model.SyncerGate.windowGate]
    rfl
  unfold fetchNextBatch
  rw [hd]
  split <;> rfl

/-- **`Busy` is preserved by every event.** -/
theorem step_busy {e : Env} {M : Nat} {s : State} (ha : Aux M s) (hb : Busy e s) (ev : Ev) :
    Busy e (step e s ev).1 := by
  cases ev with
  | peers n =>
    simp only [step]
    split
    · rename_i hph
      split
      · intro h; cases h
      · rename_i hn
        intro _ hon
        rw [fetch_peers e s n (by simpa using hn) (ha.connPeers hph)]
        exact hb hph hon
    · rename_i hph
      intro h; rw [hph] at h; cases h
  | netHead h =>
    simp only [step]
    split
    · exact hb
    · rename_i hph
      split
      · exact hb
      · split
        · intro h; rw [setHead_phase] at h; rw [hph] at h; cases h
        · intro _ hon; exact fetch_busy e _ hon
  | headerSub h =>
    simp only [step]
    split
    · exact hb
    · intro _ hon; exact fetch_busy e _ hon
  | batch res =>
    simp only [step]
    split
    · cases res with
      | none => intro _ hon; exact fetch_busy e _ hon
      | some hs => intro _ hon; exact fetch_busy e _ hon
    · exact hb

/-! ### the potential -/

/-- some height of the range is stored -/
def overlaps (a : AbsStore) (r : Lumina.Model.Ranges.Range) : Bool :=
  (List.range' r.1 (r.2 + 1 - r.1)).any a.stored

/-- 1 when the ongoing request already overlaps the store (its honest answer will be rejected by
    `insert` with `HeaderRangeOverlap`; this is what a header-sub insertion does to an ongoing
    forward batch), 0 otherwise -/
def stale (a : AbsStore) : Option Lumina.Model.Ranges.Range → Nat
  | some r => if overlaps a r then 1 else 0
  | none => 0

def phi (M : Nat) (a : AbsStore) (og : Option Lumina.Model.Ranges.Range) : Nat := missing a 1 M + stale a og

/-- the potential of a state: missing heights of `[1, M]` + staleness of the ongoing request -/
def Phi (M : Nat) (s : State) : Nat := phi M s.store s.ongoing

theorem overlaps_false {a : AbsStore} {r : Lumina.Model.Ranges.Range} (h : overlaps a r = false) :
    ∀ x ∈ a.hdrs, ¬ (r.1 ≤ x.height ∧ x.height ≤ r.2) := by
  intro x hx hb
  have := List.any_eq_false.1 h x.height (by simp only [List.mem_range'_1]; omega)
  exact this ((stored_iff _ _).2 ⟨x, hx, rfl⟩)

theorem overlaps_false_of {a : AbsStore} {r : Lumina.Model.Ranges.Range}
    (h : ∀ x ∈ a.hdrs, ¬ (r.1 ≤ x.height ∧ x.height ≤ r.2)) : overlaps a r = false := by
  unfold overlaps
  rw [List.any_eq_false]
  intro k hk hs
  simp only [List.mem_range'_1] at hk
  obtain ⟨x, hx, ex⟩ := (stored_iff _ _).1 hs
  exact h x hx (by omega)

theorem overlaps_true {a : AbsStore} {r : Lumina.Model.Ranges.Range} (h : overlaps a r = true) :
    ∃ k, r.1 ≤ k ∧ k ≤ r.2 ∧ a.stored k = true := by
  obtain ⟨k, hk, hs⟩ := List.any_eq_true.1 h
  simp only [List.mem_range'_1] at hk
  exact ⟨k, by omega, by omega, hs⟩

theorem missing_lt_of_new (a a' : AbsStore) (lo hi k : Nat)
    (hmono : ∀ h, a.stored h = true → a'.stored h = true) (h1 : a.stored k = false)
    (h2 : a'.stored k = true) (hlo : lo ≤ k) (hhi : k ≤ hi) : missing a' lo hi < missing a lo hi := by
  unfold missing
  apply countP_lt_of (x := k)
  · intro x _ hn
    cases hs : a.stored x with
    | false => rfl
    | true => rw [hmono x hs] at hn; cases hn
  · simp only [List.mem_range'_1]; omega
  · simp [h1]
  · simp [h2]

theorem phi_none_le (M : Nat) (a : AbsStore) (og : Option Lumina.Model.Ranges.Range) :
    phi M a none ≤ phi M a og := by
  simp only [phi, stale]; omega

/-- **No insertion increases the potential**: if it makes the ongoing request stale it has stored
    a missing height of that request. -/
theorem phi_insert_le (v : Hdr → Hdr → Bool) (a : AbsStore) (b : List Hdr) (M : Nat)
    (og : Option Lumina.Model.Ranges.Range) (hog : ∀ r, og = some r → 1 ≤ r.1 ∧ r.2 ≤ M) :
    phi M (a.insert v b).1 og ≤ phi M a og := by
  have hle := missing_insert_le v a b 1 M
  cases og with
  | none => simpa [phi, stale] using hle
  | some r =>
    obtain ⟨h1, h2⟩ := hog r rfl
    simp only [phi, stale]
    cases ho : overlaps a r with
    | true =>
      have : (if overlaps (a.insert v b).1 r = true then 1 else 0) ≤ 1 := by split <;> omega
      simp only [↓reduceIte]; omega
    | false =>
      cases ho' : overlaps (a.insert v b).1 r with
      | false => simpa using hle
      | true =>
        obtain ⟨k, k1, k2, k3⟩ := overlaps_true ho'
        have hk : a.stored k = false := by
          cases hs : a.stored k with
          | false => rfl
          | true =>
            exfalso
            obtain ⟨x, hx, ex⟩ := (stored_iff _ _).1 hs
            exact overlaps_false ho x hx (by omega)
        have := missing_lt_of_new a (a.insert v b).1 1 M k
          (fun h hs => insert_stored_mono v a b h hs) hk k3 (by omega) (by omega)
        simp only [↓reduceIte, Bool.false_eq_true]; omega

open Lumina.Proofs.SyncerGate in
/-- `fetch_next_batch` leaves the potential unchanged: a fresh request is disjoint from the store -/
theorem Phi_fetch (e : Env) (s : State) (M : Nat) (hi : AbsInv s.store) :
    Phi M (fetchNextBatch e s).1 = Phi M s := by
  unfold fetchNextBatch
  split
  · rename_i r hdec
    obtain ⟨_, _, hong, _⟩ := request_cases hdec
    have hnone : s.ongoing = none := by
      cases h : s.ongoing with
      | none => rfl
      | some r' => simp [gateIn, h] at hong
    have hov : overlaps s.store r = false := overlaps_false_of (request_disjoint hi hdec)
    simp [Phi, phi, stale, hnone, hov]
  · rfl

theorem Phi_setHead (M : Nat) (s : State) (h : Nat) : Phi M (setHead s h) = Phi M s := by
  unfold Phi; rw [setHead_store, setHead_ongoing]

/-- **The potential never increases, whatever the event** (a peer-count change, a network head, a
    header-sub announcement, an error or ANY accepted — adversarial or honest — answer). -/
theorem step_phi_le {v : Hdr → Hdr → Bool} {c : Nat → Hdr} {e : Env} {M : Nat} {s : State}
    (hi : Inv c s) (ha : Aux M s) {ev : Ev} (hok : EvOk v c s ev) :
    Phi M (step e s ev).1 ≤ Phi M s := by
  have hog : ∀ r, s.ongoing = some r → 1 ≤ r.1 ∧ r.2 ≤ M :=
    fun r hr => ⟨(hi.ongoingNb r hr).1, ha.ongoingLe r hr⟩
  cases ev with
  | peers n =>
    simp only [step]
    split
    · split
      · exact phi_none_le M s.store s.ongoing
      · exact Nat.le_refl _
    · exact Nat.le_refl _
  | netHead h =>
    obtain ⟨hh, hw⟩ := hok
    simp only [step]
    split
    · exact Nat.le_refl _
    · split
      · exact Nat.le_refl _
      · rename_i a' ht
        have hc : a' = s.store ∨ a' = (s.store.insert e.verify [h]).1 := tryInit_cases ht
        have hi1 : AbsInv a' := by
          rcases hc with hc | hc
          · rw [hc]; exact hi.abs
          · rw [hc]; exact insert_inv _ _ _ hi.abs (by intro x hx; simp at hx; subst hx; exact hw)
        have hle : phi M a' s.ongoing ≤ phi M s.store s.ongoing := by
          rcases hc with hc | hc
          · rw [hc]; exact Nat.le_refl _
          · rw [hc]; exact phi_insert_le _ _ _ _ _ hog
        split
        · rw [Phi_setHead]; exact hle
        · rw [Phi_fetch _ _ _ (by show AbsInv (setHead _ _).store; rw [setHead_store]; exact hi1)]
          show Phi M (setHead { s with store := a' } h.height) ≤ Phi M s
          rw [Phi_setHead]; exact hle
  | headerSub h =>
    obtain ⟨hh, hw⟩ := hok
    simp only [step]
    split
    · exact Nat.le_refl _
    · have hi1 : AbsInv (setHead s h.height).store := by rw [setHead_store]; exact hi.abs
      split
      · split
        · rw [Phi_fetch _ _ _ (insert_inv _ _ _ hi1 (by intro x hx; simp at hx; subst hx; exact hw))]
          show phi M ((setHead s h.height).store.insert e.verify [h]).1 (setHead s h.height).ongoing ≤ _
          rw [setHead_store, setHead_ongoing]
          exact phi_insert_le _ _ _ _ _ hog
        · rw [Phi_fetch _ _ _ hi1, Phi_setHead]; exact Nat.le_refl _
      · rw [Phi_fetch _ _ _ hi1, Phi_setHead]; exact Nat.le_refl _
  | batch res =>
    simp only [step]
    split
    · cases res with
      | none =>
        dsimp only
        refine Nat.le_trans (Nat.le_of_eq (Phi_fetch _ _ _ ?_)) ?_
        · exact hi.abs
        · exact phi_none_le M s.store s.ongoing
      | some hs =>
        obtain ⟨_, hwf⟩ := hok
        dsimp only
        refine Nat.le_trans (Nat.le_of_eq (Phi_fetch _ _ _ ?_)) ?_
        · exact insert_inv _ _ _ hi.abs hwf
        show phi M (s.store.insert e.verify hs).1 none ≤ phi M s.store s.ongoing
        exact Nat.le_trans (phi_insert_le _ _ _ _ none (fun r hr => by cases hr)) (phi_none_le M s.store s.ongoing)
    · exact Nat.le_refl _

/-- **Every honest answer strictly decreases the potential**: if the ongoing request is still
    disjoint from the store the honest headers are accepted and store at least one missing
    height of `[1, M]`; if it is stale the answer is rejected, but the next request is fresh. -/
theorem honest_answer_phi_lt {v : Hdr → Hdr → Bool} {c : Nat → Hdr} (hc : HonestChain v c) {e : Env}
    (hev : e.verify = v) {M : Nat} (hM : M ≤ Lumina.Model.Store.U64_MAX) {s : State} (hi : Inv c s)
    (ha : Aux M s) (hph : s.phase = .connected) {r : Lumina.Model.Ranges.Range} (hon : s.ongoing = some r) :
    Phi M (step e s (.batch (some (span c r.1 (r.2 + 1 - r.1))))).1 < Phi M s := by
  obtain ⟨h1, h2, hnb⟩ := hi.ongoingNb r hon
  have hrM := ha.ongoingLe r hon
  have hwf : ∀ x ∈ span c r.1 (r.2 + 1 - r.1), x.height ≤ Lumina.Model.Store.U64_MAX := by
    intro x hx
    simp only [span, List.mem_map, List.mem_range'_1] at hx
    obtain ⟨y, hy, rfl⟩ := hx
    rw [hc.height]; omega
  simp only [step, hph, hon]
  rw [Phi_fetch _ _ _ (insert_inv _ _ _ hi.abs hwf)]
  show phi M (s.store.insert e.verify (span c r.1 (r.2 + 1 - r.1))).1 none < phi M s.store s.ongoing
  rw [hon, hev]
  simp only [phi, stale]
  cases ho : overlaps s.store r with
  | true =>
    have := missing_insert_le v s.store (span c r.1 (r.2 + 1 - r.1)) 1 M
    simp only [↓reduceIte]; omega
  | false =>
    have hacc := honest_span_accepted hc s.store hi.onchain r.1 r.2 h1 h2 (overlaps_false ho) hnb
    have := missing_insert_lt v s.store _ 1 M r.1 r.2 hacc h1 (by omega)
    simp only [Bool.false_eq_true, ↓reduceIte]; omega

/-! ### progress, fairness, convergence -/

/-- every height of the sampling window up to the subjective head is stored -/
def Synced (e : Env) (s : State) : Prop := ∃ H, s.head = some H ∧ WindowFull e s.store H

/-- the worker is in `connected_event_loop` and the event it is handed is the honest answer to
    its outstanding request (if it has one) -/
def HonestAnswerAt (c : Nat → Hdr) (s : State) (ev : Ev) : Prop :=
  s.phase = .connected ∧ ∀ r, s.ongoing = some r → ev = .batch (some (span c r.1 (r.2 + 1 - r.1)))

/-- a connected worker without an ongoing batch whose window is not full schedules a request -/
theorem not_full_requests {c : Nat → Hdr} {e : Env} {M : Nat} {s : State}
    (hmono : ∀ h1 h2, h1 ≤ h2 → e.chain.oldS h2 = true → e.chain.oldS h1 = true)
    (hM : M < Lumina.Model.Ranges.U64_MAX) (hi : Inv c s) (ha : Aux M s) (hph : s.phase = .connected)
    (hon : s.ongoing = none) {H : Nat} (hH : s.head = some H) (hnf : ¬ WindowFull e s.store H) :
    ∃ r, (fetchNextBatch e s).2 = some r := by
  have hex : ∃ m, 1 ≤ m ∧ m ≤ H ∧ e.chain.oldS m = false ∧ s.store.stored m = false := by
    apply Classical.byContradiction
    intro hne
    apply hnf
    intro m h1 h2 h3
    cases hs : s.store.stored m with
    | true => rfl
    | false => exact absurd ⟨m, h1, h2, h3, hs⟩ hne
  obtain ⟨m, hm1, hm2, hm4, hm3⟩ := hex
  obtain ⟨ist, mst⟩ := storedRanges_spec hi.abs
  have hpr' : s.store.prunedRanges = [] := by
    simp [AbsStore.prunedRanges, ha.unpruned, rangesOf, sup, runsDesc, AbsStore.isPruned]
  have hHM := ha.headLe H hH
  obtain ⟨r, hr⟩ := Lumina.Proofs.SyncerGate.gate_progress (pc := true) (slowMin := e.slowMin)
    (i := gateIn e s) (old := e.chain.oldS) (H := H) (m := m)
    ist hpr' (by simp [gateIn, hon]) (ha.connPeers hph) hH (by omega) ha.batch ha.slow
    (fun _ => rfl) hmono hm1 hm2 (fun hcm => by rw [(mst m).1 hcm] at hm3; cases hm3) hm4
  refine ⟨r, ?_⟩
  unfold fetchNextBatch
  have : fetchDecision e.slowMin (gateIn e s) = .ok (.request r) := hr
  rw [this]

/-- a peer-count change touches neither the store nor the head -/
theorem synced_peers (e : Env) (s : State) (n : Nat) (h : Synced e s) : Synced e (step e s (.peers n)).1 := by
  obtain ⟨H, h1, h2⟩ := h
  simp only [step]
  split
  · split <;> exact ⟨H, h1, h2⟩
  · exact ⟨H, h1, h2⟩

/-- everything the convergence argument maintains along a run -/
structure Good (c : Nat → Hdr) (e : Env) (M : Nat) (s : State) : Prop where
  inv : Inv c s
  aux : Aux M s
  busy : Busy e s

theorem good_init (c : Nat → Hdr) (e : Env) (M bs : Nat) (hbs : 1 ≤ bs) : Good c e M { batchSize := bs } where
  inv := inv_init c bs
  aux := ⟨hbs, rfl, rfl, (fun _ hx => by cases hx), (fun _ h => by cases h), (fun _ h => by cases h),
    (fun h => by cases h), (fun h => by cases h)⟩
  busy := fun h => by cases h

theorem step_good {v : Hdr → Hdr → Bool} {c : Nat → Hdr} (hd : LinkDown v c) (hu : LinkUp v c) {e : Env}
    (hev : e.verify = v) (hP : ∀ h, e.chain.oldP h = false) {M : Nat} {s : State} (hg : Good c e M s)
    {ev : Ev} (hok : EvOk v c s ev) (hbl : EvBelow M ev) : Good c e M (step e s ev).1 :=
  ⟨step_inv hd hu hev hg.inv hok, step_aux hP hg.inv hg.aux hok hbl, step_busy hg.aux hg.busy ev⟩

section run
variable {v : Hdr → Hdr → Bool} {c : Nat → Hdr} {e : Env} {M : Nat} {s0 : State} {evs : Nat → Ev}

theorem trace_good (hd : LinkDown v c) (hu : LinkUp v c) (hev : e.verify = v)
    (hP : ∀ h, e.chain.oldP h = false) (hg0 : Good c e M s0)
    (hok : ∀ k, EvOk v c (trace e s0 evs k) (evs k)) (hbl : ∀ k, EvBelow M (evs k)) :
    ∀ k, Good c e M (trace e s0 evs k)
  | 0 => hg0
  | k + 1 => step_good hd hu hev hP (trace_good hd hu hev hP hg0 hok hbl k) (hok k) (hbl k)

theorem trace_stored_mono (h : Nat) : ∀ (d i : Nat), (trace e s0 evs i).store.stored h = true →
    (trace e s0 evs (i + d)).store.stored h = true
  | 0, _, hs => hs
  | d + 1, i, hs => step_stored_mono e _ _ h (trace_stored_mono h d i hs)

theorem trace_head_mono : ∀ (d i H : Nat), (trace e s0 evs i).head = some H →
    ∃ H', H ≤ H' ∧ (trace e s0 evs (i + d)).head = some H'
  | 0, _, H, hh => ⟨H, Nat.le_refl _, hh⟩
  | d + 1, i, H, hh => by
    obtain ⟨H1, h1, h2⟩ := trace_head_mono d i H hh
    obtain ⟨H2, h3, h4⟩ := step_head_mono e (trace e s0 evs (i + d)) (evs (i + d)) H1 h2
    exact ⟨H2, by omega, h4⟩

theorem trace_phi_le (hg : ∀ k, Good c e M (trace e s0 evs k))
    (hok : ∀ k, EvOk v c (trace e s0 evs k) (evs k)) :
    ∀ (d i : Nat), Phi M (trace e s0 evs (i + d)) ≤ Phi M (trace e s0 evs i)
  | 0, _ => Nat.le_refl _
  | d + 1, i =>
    Nat.le_trans (step_phi_le (hg (i + d)).inv (hg (i + d)).aux (hok (i + d))) (trace_phi_le hg hok d i)

/-- **Convergence under fairness.**  Along ANY infinite run of admissible events whose announced
    heads stay at or below `M`, if — as long as the window up to the head is not fully stored —
    there is always a later moment at which the connected worker is handed the honest answer to
    its outstanding request, then from every point of the run there is a later point at which
    every height of the sampling window up to the head is stored. -/
theorem fair_converges (hc : HonestChain v c) (hd : LinkDown v c) (hu : LinkUp v c) (hev : e.verify = v)
    (hP : ∀ h, e.chain.oldP h = false)
    (hmono : ∀ h1 h2, h1 ≤ h2 → e.chain.oldS h2 = true → e.chain.oldS h1 = true)
    (hM : M < Lumina.Model.Ranges.U64_MAX) (hg0 : Good c e M s0)
    (hok : ∀ k, EvOk v c (trace e s0 evs k) (evs k)) (hbl : ∀ k, EvBelow M (evs k))
    (hfair : ∀ i, ¬ Synced e (trace e s0 evs i) →
      ∃ j, i ≤ j ∧ HonestAnswerAt c (trace e s0 evs j) (evs j)) :
    ∀ i, ∃ k, i ≤ k ∧ Synced e (trace e s0 evs k) := by
  have hg := trace_good hd hu hev hP hg0 hok hbl
  have hM' : M ≤ Lumina.Model.Store.U64_MAX := by
    have : Lumina.Model.Store.U64_MAX = Lumina.Model.Ranges.U64_MAX := rfl
    omega
  have key : ∀ n i, Phi M (trace e s0 evs i) < n → ∃ k, i ≤ k ∧ Synced e (trace e s0 evs k) := by
    intro n
    induction n with
    | zero => intro i h; omega
    | succ n ih =>
      intro i hn
      by_cases hs : Synced e (trace e s0 evs i)
      · exact ⟨i, Nat.le_refl _, hs⟩
      obtain ⟨j, hij, hph, hans⟩ := hfair i hs
      by_cases hsj : Synced e (trace e s0 evs j)
      · exact ⟨j, hij, hsj⟩
      have hle : Phi M (trace e s0 evs j) ≤ Phi M (trace e s0 evs i) := by
        obtain ⟨d, rfl⟩ : ∃ d, j = i + d := ⟨j - i, by omega⟩
        exact trace_phi_le hg hok d i
      obtain ⟨H, hH⟩ := (hg j).aux.connHead hph
      have hnf : ¬ WindowFull e (trace e s0 evs j).store H := fun hw => hsj ⟨H, hH, hw⟩
      cases hon : (trace e s0 evs j).ongoing with
      | none =>
        exfalso
        obtain ⟨r, hr⟩ := not_full_requests hmono hM (hg j).inv (hg j).aux hph hon hH hnf
        rw [(hg j).busy hph hon] at hr
        cases hr
      | some r =>
        have hevj := hans r hon
        have hlt : Phi M (trace e s0 evs (j + 1)) < Phi M (trace e s0 evs j) := by
          have : trace e s0 evs (j + 1) = (step e (trace e s0 evs j) (evs j)).1 := rfl
          rw [this, hevj]
          exact honest_answer_phi_lt hc hev hM' (hg j).inv (hg j).aux hph hon
        obtain ⟨k, hk1, hk2⟩ := ih (j + 1) (by omega)
        exact ⟨k, by omega, hk2⟩
  intro i
  exact key _ i (Nat.lt_succ_self _)

/-- the same, for the head the worker knew at an arbitrary point of the run: every height of the
    sampling window up to THAT head is eventually stored and stays stored -/
theorem fair_converges_to_head (hc : HonestChain v c) (hd : LinkDown v c) (hu : LinkUp v c)
    (hev : e.verify = v) (hP : ∀ h, e.chain.oldP h = false)
    (hmono : ∀ h1 h2, h1 ≤ h2 → e.chain.oldS h2 = true → e.chain.oldS h1 = true)
    (hM : M < Lumina.Model.Ranges.U64_MAX) (hg0 : Good c e M s0)
    (hok : ∀ k, EvOk v c (trace e s0 evs k) (evs k)) (hbl : ∀ k, EvBelow M (evs k))
    (hfair : ∀ i, ¬ Synced e (trace e s0 evs i) →
      ∃ j, i ≤ j ∧ HonestAnswerAt c (trace e s0 evs j) (evs j))
    (i H : Nat) (hH : (trace e s0 evs i).head = some H) :
    ∃ k, i ≤ k ∧ ∀ k', k ≤ k' → WindowFull e (trace e s0 evs k').store H := by
  obtain ⟨k, hik, H', hH', hfull⟩ := fair_converges hc hd hu hev hP hmono hM hg0 hok hbl hfair i
  refine ⟨k, hik, fun k' hk' m h1 h2 h3 => ?_⟩
  obtain ⟨d, rfl⟩ : ∃ d, k = i + d := ⟨k - i, by omega⟩
  obtain ⟨H'', hle, hH''⟩ := trace_head_mono (e := e) (s0 := s0) (evs := evs) d i H hH
  rw [hH'] at hH''
  injection hH'' with hH''
  subst hH''
  obtain ⟨d', rfl⟩ : ∃ d', k' = i + d + d' := ⟨k' - (i + d), by omega⟩
  exact trace_stored_mono m d' (i + d) (hfull m h1 (by omega) h3)

end run

end Lumina.Proofs.SyncerFair

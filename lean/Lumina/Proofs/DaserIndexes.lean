/-
  `random_indexes` (C33): the transcribed loop `Lumina.Model.Daser.randLoop` / `randomIndexes`.
  For EVERY width and EVERY sequence of raw draws: if the loop exits, the result is duplicate-free,
  inside the square and has exactly `min (w², max)` elements; the whole square is returned when
  `w² ≤ max`; the loop can exit for every width (there are enough distinct cells).
  Plus the sampling-metadata bookkeeping of the store (`metaUpdate` / `metaGet`).
-/
import Lumina.Model.DaserView

namespace Lumina.Proofs.DaserIndexes
open Lumina.Model.Daser
open Lumina.Spec

/-! ### the full grid -/

theorem mem_fullGrid (w : Nat) (p : Share) : p ∈ fullGrid w ↔ p.1 < w ∧ p.2 < w := by
  simp only [fullGrid, List.mem_flatMap, List.mem_range, List.mem_map]
  constructor
  · rintro ⟨r, hr, c, hc, rfl⟩; exact ⟨hr, hc⟩
  · rintro ⟨h1, h2⟩; exact ⟨p.1, h1, p.2, h2, rfl⟩

/-- the first `n` rows -/
def rows (w n : Nat) : List Share := (List.range n).flatMap (fun r => (List.range w).map (fun c => (r, c)))

theorem rows_succ (w n : Nat) : rows w (n + 1) = rows w n ++ (List.range w).map (fun c => (n, c)) := by
  simp [rows, List.range_succ, List.flatMap_append]

theorem mem_rows (w n : Nat) (p : Share) : p ∈ rows w n ↔ p.1 < n ∧ p.2 < w := by
  simp only [rows, List.mem_flatMap, List.mem_range, List.mem_map]
  constructor
  · rintro ⟨r, hr, c, hc, rfl⟩; exact ⟨hr, hc⟩
  · rintro ⟨h1, h2⟩; exact ⟨p.1, h1, p.2, h2, rfl⟩

theorem length_rows (w : Nat) : ∀ n, (rows w n).length = n * w
  | 0 => by simp [rows]
  | n + 1 => by
    rw [rows_succ, List.length_append, length_rows w n, List.length_map, List.length_range, Nat.succ_mul]

theorem nodup_rows (w : Nat) : ∀ n, (rows w n).Nodup
  | 0 => by simp [rows]
  | n + 1 => by
    rw [rows_succ, List.nodup_append]
    refine ⟨nodup_rows w n, ?_, ?_⟩
    · rw [List.Nodup, List.pairwise_map]
      exact List.Pairwise.imp (fun hab h => hab (by simpa using h)) (List.nodup_range (n := w))
    · intro a ha b hb hab
      subst hab
      have h1 := ((mem_rows w n a).1 ha).1
      simp only [List.mem_map, List.mem_range] at hb
      obtain ⟨c, _, rfl⟩ := hb
      simp at h1

theorem length_fullGrid (w : Nat) : (fullGrid w).length = w * w := length_rows w w

theorem nodup_fullGrid (w : Nat) : (fullGrid w).Nodup := nodup_rows w w

/-! ### the loop -/

theorem length_setInsert_le (acc : List Share) (p : Share) : (setInsert acc p).length ≤ acc.length + 1 := by
  unfold setInsert; split <;> simp

theorem nodup_setInsert {acc : List Share} (h : acc.Nodup) (p : Share) : (setInsert acc p).Nodup := by
  unfold setInsert
  split
  · exact h
  · rename_i hc
    rw [List.nodup_append]
    refine ⟨h, by simp, ?_⟩
    intro a ha b hb hab
    simp only [List.mem_singleton] at hb
    subst hb; subst hab
    exact hc (by simpa using ha)

theorem mem_setInsert {acc : List Share} {p q : Share} : q ∈ setInsert acc p ↔ q ∈ acc ∨ q = p := by
  unfold setInsert
  split
  · rename_i hc
    constructor
    · exact Or.inl
    · rintro (h | rfl)
      · exact h
      · simpa using hc
  · simp

/-- the loop invariant: duplicate-free, in-square, at most `max` elements; at the exit exactly `max` -/
theorem randLoop_spec (w max : Nat) (hw : 0 < w) : ∀ (draws : List (Nat × Nat)) (acc out : List Share),
    acc.Nodup → (∀ p ∈ acc, p.1 < w ∧ p.2 < w) → acc.length ≤ max → randLoop w max draws acc = some out →
    out.Nodup ∧ (∀ p ∈ out, p.1 < w ∧ p.2 < w) ∧ out.length = max
  | [], acc, out, hn, hsq, hle, h => by
    simp only [randLoop] at h
    split at h
    · cases h
    · cases h; exact ⟨hn, hsq, by omega⟩
  | d :: ds, acc, out, hn, hsq, hle, h => by
    simp only [randLoop] at h
    split at h
    · rename_i hlt
      refine randLoop_spec w max hw ds _ out (nodup_setInsert hn _) ?_ ?_ h
      · intro p hp
        rcases mem_setInsert.1 hp with hp | rfl
        · exact hsq p hp
        · exact ⟨Nat.mod_lt _ hw, Nat.mod_lt _ hw⟩
      · have := length_setInsert_le acc (d.1 % w, d.2 % w); omega
    · cases h; exact ⟨hn, hsq, by omega⟩

/-- **`random_indexes`, every width, every draws**: if it returns, the indexes are distinct, inside the
    square and number `min (w², max)` -/
theorem randomIndexes_spec (w max : Nat) (draws : List (Nat × Nat)) (out : List Share)
    (h : randomIndexes w max draws = some out) :
    out.Nodup ∧ (∀ p ∈ out, p.1 < w ∧ p.2 < w) ∧ out.length = min (w * w) max := by
  unfold randomIndexes at h
  split at h
  · rename_i hle
    cases h
    exact ⟨nodup_fullGrid w, fun p hp => (mem_fullGrid w p).1 hp, by rw [length_fullGrid]; omega⟩
  · rename_i hlt
    have hw : 0 < w := by
      cases w with
      | zero => simp at hlt
      | succ k => omega
    have := randLoop_spec w max hw draws [] out List.nodup_nil (by simp) (by simp) h
    exact ⟨this.1, this.2.1, by rw [this.2.2]; omega⟩

/-- the whole square is sampled, without randomness, when it has at most `max` cells -/
theorem randomIndexes_small (w max : Nat) (draws : List (Nat × Nat)) (h : w * w ≤ max) :
    randomIndexes w max draws = some (fullGrid w) := by
  simp [randomIndexes, h]

/-- the loop runs to its exit when it draws a duplicate-free in-square list of `max` cells: it returns them -/
theorem randLoop_of_distinct (w max : Nat) : ∀ (draws acc : List Share),
    (acc ++ draws).Nodup → (∀ p ∈ draws, p.1 < w ∧ p.2 < w) → (acc ++ draws).length = max →
    randLoop w max draws acc = some (acc ++ draws)
  | [], acc, _, _, hlen => by
    simp only [randLoop, List.append_nil] at hlen ⊢
    rw [if_neg (by omega)]
  | d :: ds, acc, hn, hsq, hlen => by
    have hd := hsq d (by simp)
    have hmod : (d.1 % w, d.2 % w) = d := by
      rw [Nat.mod_eq_of_lt hd.1, Nat.mod_eq_of_lt hd.2]
    have hnotin : ¬ d ∈ acc := by
      intro hin
      rw [List.nodup_append] at hn
      exact hn.2.2 d hin d (by simp) rfl
    have hins : setInsert acc d = acc ++ [d] := by
      unfold setInsert; rw [if_neg (by simpa using hnotin)]
    simp only [randLoop, hmod, hins]
    have hl : acc.length < max := by simp at hlen; omega
    rw [if_pos hl]
    have := randLoop_of_distinct w max ds (acc ++ [d]) (by simpa using hn)
      (fun p hp => hsq p (by simp [hp])) (by simpa using hlen)
    simpa using this

/-- **the exit argument, every width**: when the square has more than `max` cells there are draws on which
    the loop exits (any `max` distinct cells), so the `while` condition can always become false -/
theorem randomIndexes_can_exit (w max : Nat) (h : max < w * w) :
    ∃ draws, (randomIndexes w max draws).isSome = true := by
  refine ⟨(fullGrid w).take max, ?_⟩
  have hlen : ((fullGrid w).take max).length = max := by
    rw [List.length_take, length_fullGrid]; omega
  have := randLoop_of_distinct w max ((fullGrid w).take max) []
    (by simpa using (nodup_fullGrid w).sublist (List.take_sublist _ _))
    (fun p hp => (mem_fullGrid w p).1 (List.mem_of_mem_take hp)) (by simpa using hlen)
  simp [randomIndexes, Nat.not_le.2 h, this]

/-- in the spec's vocabulary -/
theorem sharesOK_of_randomIndexes (w : Nat) (draws : List (Nat × Nat)) (out : List Share)
    (h : randomIndexes w 16 draws = some out) : C33.sharesOK w out = true := by
  obtain ⟨h1, h2, h3⟩ := randomIndexes_spec w 16 draws out h
  simp only [C33.sharesOK, Bool.and_eq_true, decide_eq_true_eq, List.all_eq_true, beq_iff_eq]
  exact ⟨⟨h1, h2⟩, h3⟩

/-! ### sampling metadata in the store -/

theorem addAll_eq (old new : List Share) : C33.addAll old new = new.foldl setInsert old := rfl

theorem foldl_setInsert_of_nodup : ∀ (l acc : List Share), (acc ++ l).Nodup → l.foldl setInsert acc = acc ++ l
  | [], acc, _ => by simp
  | p :: l, acc, hn => by
    have hnotin : ¬ p ∈ acc := by
      intro hin
      rw [List.nodup_append] at hn
      exact hn.2.2 p hin p (by simp) rfl
    have hins : setInsert acc p = acc ++ [p] := by
      unfold setInsert; rw [if_neg (by simpa using hnotin)]
    simp only [List.foldl_cons, hins]
    rw [foldl_setInsert_of_nodup l (acc ++ [p]) (by simpa using hn)]
    simp

theorem mem_foldl_setInsert (l : List Share) : ∀ (acc : List Share) (q : Share),
    q ∈ l.foldl setInsert acc ↔ q ∈ acc ∨ q ∈ l := by
  induction l with
  | nil => intro acc q; simp
  | cons p l ih =>
    intro acc q
    simp only [List.foldl_cons, ih, mem_setInsert, List.mem_cons]
    constructor
    · rintro ((h | h) | h)
      · exact Or.inl h
      · exact Or.inr (Or.inl h)
      · exact Or.inr (Or.inr h)
    · rintro (h | h | h)
      · exact Or.inl (Or.inl h)
      · exact Or.inl (Or.inr h)
      · exact Or.inr h

theorem metaGet_metaUpdate (h : Nat) (cids : List Share) (hn : cids.Nodup) : ∀ (m : List (Nat × List Share)),
    metaGet (metaUpdate m h cids) = C33.setRecorded (metaGet m) h (C33.addAll (metaGet m h) cids)
  | [] => by
    funext x
    simp only [metaUpdate, metaGet, C33.setRecorded, List.find?_cons, List.find?_nil, addAll_eq]
    by_cases hx : x = h
    · subst hx
      simp [foldl_setInsert_of_nodup cids [] (by simpa using hn)]
    · have h1 : (h == x) = false := by simpa using (fun hh => hx hh.symm)
      have h2 : (x == h) = false := by simpa using hx
      simp [h1, h2]
  | (k, old) :: rest => by
    funext x
    have ih := congrFun (metaGet_metaUpdate h cids hn rest) x
    simp only [metaUpdate]
    by_cases hk : k = h
    · subst hk
      simp only [beq_self_eq_true, if_true, metaGet, List.find?_cons, C33.setRecorded, addAll_eq]
      by_cases hx : x = k
      · subst hx; simp
      · have h1 : (k == x) = false := by simpa using (fun hh => hx hh.symm)
        have h2 : (x == k) = false := by simpa using hx
        simp [h1, h2]
    · have hk' : (k == h) = false := by simpa using hk
      simp only [hk', Bool.false_eq_true, if_false]
      simp only [metaGet, List.find?_cons, C33.setRecorded] at ih ⊢
      by_cases hkx : k = x
      · subst hkx
        have : (k == h) = false := hk'
        simp [this]
      · have h1 : (k == x) = false := by simpa using hkx
        simp only [h1] at ih ⊢
        by_cases hx : x = h
        · subst hx
          simp only [beq_self_eq_true, if_true] at ih ⊢
          simp only [hk']
          exact ih
        · have h2 : (x == h) = false := by simpa using hx
          simp only [h2, Bool.false_eq_true, if_false] at ih ⊢
          exact ih

theorem metaGet_filter (h : Nat) : ∀ (m : List (Nat × List Share)),
    metaGet (m.filter (fun e => e.1 != h)) = C33.setRecorded (metaGet m) h []
  | [] => by funext x; simp [metaGet, C33.setRecorded]
  | (k, old) :: rest => by
    funext x
    have ih := congrFun (metaGet_filter h rest) x
    simp only [metaGet, C33.setRecorded] at ih ⊢
    by_cases hk : k = h
    · subst hk
      simp only [List.filter_cons, bne_self_eq_false, Bool.false_eq_true, if_false, List.find?_cons]
      by_cases hx : x = k
      · subst hx; simpa using ih
      · have h1 : (k == x) = false := by simpa using (fun hh => hx hh.symm)
        have h2 : (x == k) = false := by simpa using hx
        simp only [h1, h2, Bool.false_eq_true, if_false] at ih ⊢
        exact ih
    · have hk' : (k != h) = true := by simpa using hk
      simp only [List.filter_cons, hk', if_true, List.find?_cons]
      by_cases hkx : k = x
      · subst hkx
        have : (k == h) = false := by simpa using hk
        simp [this]
      · have h1 : (k == x) = false := by simpa using hkx
        simp only [h1]
        exact ih

end Lumina.Proofs.DaserIndexes

/-
  C44 — helper lemmas: `swap0` is a permutation, the inductive invariant of the fail-over
  transition system.
-/
import Lumina.Model.FailoverObs

namespace Lumina.Proofs.Failover
open Lumina.Model.Failover

/-- states reachable from `init cfg` under ANY interleaving of ANY number of callers -/
inductive Reachable (cfg : List Ep) : State → Prop
  | init : Reachable cfg (init cfg)
  | step {s s' : State} {l : Label} {e : Emit} :
      Reachable cfg s → step s l = some (s', e) → Reachable cfg s'

theorem getElem?_lt {α} {l : List α} {i : Nat} {a : α} (h : l[i]? = some a) : i < l.length :=
  (List.getElem?_eq_some_iff.mp h).1

theorem swap0_perm (l : List Ep) (i : Nat) : (swap0 l i).Perm l := by
  unfold swap0
  split
  · rename_i a b h0 hi
    obtain ⟨h0l, h0e⟩ := List.getElem?_eq_some_iff.mp h0
    obtain ⟨hil, hie⟩ := List.getElem?_eq_some_iff.mp hi
    rw [List.perm_iff_count]
    intro x
    have hil' : i < (l.set 0 b).length := by simpa using hil
    rw [List.count_set hil', List.count_set h0l, List.getElem_set]
    have hb : (if 0 = i then b else l[i]) = b := by
      split
      · rfl
      · exact hie
    rw [hb, h0e]
    have ha : a == x → 0 < l.count x := by
      intro hax
      have : a = x := by simpa using hax
      subst this
      exact List.count_pos_iff.mpr (h0e ▸ List.getElem_mem h0l)
    by_cases hax : (a == x) = true <;> by_cases hbx : (b == x) = true <;> simp [hax, hbx]
    · have := ha hax; omega
    · have := ha hax; omega
  · exact List.Perm.refl _

theorem swap0_head {l : List Ep} {i : Nat} {b : Ep} (hi : l[i]? = some b) (hpos : 0 < i) :
    (swap0 l i).head? = some b := by
  have hil := getElem?_lt hi
  have h0l : 0 < l.length := by omega
  unfold swap0
  have h0 : l[0]? = some l[0] := List.getElem?_eq_getElem h0l
  rw [h0, hi]
  simp only
  rw [List.head?_eq_getElem?, List.getElem?_set]
  have : ¬ i = 0 := by omega
  simp only [this, ↓reduceIte]
  rw [List.getElem?_set]
  simp [h0l]

/-- outcomes after which the loop moves on to the next endpoint -/
def netOutcome (o : Outcome) : Bool :=
  match o.errCode with
  | some c => isNetworkCode c
  | none => false

/-- what holds of every caller in flight -/
structure Good (cfg : List Ep) (k : Caller) : Prop where
  perm : k.snapshot.Perm cfg
  idxLt : k.idx < k.snapshot.length
  triedEps : k.tried.map (·.1) = k.snapshot.take k.idx
  triedNet : ∀ p ∈ k.tried, netOutcome p.2 = true

structure Inv (cfg : List Ep) (s : State) : Prop where
  regPerm : s.register.Perm cfg
  callers : ∀ p ∈ s.callers, Good cfg p.2

theorem lookup_mem {cs : List (CallId × Caller)} {c : CallId} {k : Caller}
    (h : lookup cs c = some k) : ∃ c', (c', k) ∈ cs := by
  unfold lookup at h
  cases hf : cs.find? (fun p => p.1 == c) with
  | none => simp [hf] at h
  | some p =>
    simp [hf] at h
    exact ⟨p.1, by rw [← h]; exact List.mem_of_find?_eq_some hf⟩

theorem good_of_lookup {cfg : List Ep} {s : State} {c : CallId} {k : Caller}
    (hi : Inv cfg s) (h : lookup s.callers c = some k) : Good cfg k := by
  obtain ⟨c', hm⟩ := lookup_mem h
  exact hi.callers _ hm

theorem inv_remove {cfg : List Ep} {cs : List (CallId × Caller)} (c : CallId)
    (h : ∀ p ∈ cs, Good cfg p.2) : ∀ p ∈ remove cs c, Good cfg p.2 := by
  intro p hp
  exact h p (List.mem_filter.mp hp).1

theorem inv_update {cfg : List Ep} {cs : List (CallId × Caller)} (c : CallId) {k : Caller}
    (h : ∀ p ∈ cs, Good cfg p.2) (hk : Good cfg k) : ∀ p ∈ update cs c k, Good cfg p.2 := by
  intro p hp
  simp only [update, List.mem_cons] at hp
  rcases hp with rfl | hp
  · exact hk
  · exact inv_remove c h p hp

theorem inv_init (cfg : List Ep) : Inv cfg (init cfg) :=
  ⟨List.Perm.refl _, by simp [init]⟩

theorem good_advance {cfg : List Ep} {k : Caller} {e e' : Ep} {o : Outcome} (hg : Good cfg k)
    (he : k.snapshot[k.idx]? = some e) (hn : k.snapshot[k.idx + 1]? = some e')
    (hnet : netOutcome o = true) :
    Good cfg { k with idx := k.idx + 1, tried := k.tried ++ [(e, o)] } := by
  refine ⟨hg.perm, getElem?_lt hn, ?_, ?_⟩
  · simp only [List.map_append, List.map_cons, List.map_nil, hg.triedEps]
    rw [List.take_add_one, he]
    rfl
  · intro p hp
    simp only [List.mem_append, List.mem_singleton] at hp
    rcases hp with hp | rfl
    · exact hg.triedNet p hp
    · exact hnet

theorem inv_step {cfg : List Ep} {s s' : State} {l : Label} {em : Emit} (hi : Inv cfg s)
    (hs : step s l = some (s', em)) : Inv cfg s' := by
  cases l with
  | load c =>
    simp only [step] at hs
    split at hs
    · cases hs
    · split at hs
      · cases hs; exact hi
      · rename_i e rest hreg
        cases hs
        refine ⟨hi.regPerm, inv_update c hi.callers ?_⟩
        exact ⟨hi.regPerm, by simp [hreg], by simp, by simp⟩
  | drop c =>
    simp only [step] at hs
    split at hs
    · cases hs
    · cases hs
      exact ⟨hi.regPerm, inv_remove c hi.callers⟩
  | respond c o =>
    simp only [step] at hs
    split at hs
    · cases hs
    · rename_i k hk
      have hg := good_of_lookup hi hk
      split at hs
      · cases hs
      · rename_i e he
        cases o with
        | ok =>
          simp only at hs
          cases hs
          refine ⟨?_, inv_remove c hi.callers⟩
          split
          · exact (swap0_perm _ _).trans hg.perm
          · exact hi.regPerm
        | badPayload =>
          simp only at hs
          cases hs
          refine ⟨?_, inv_remove c hi.callers⟩
          split
          · exact (swap0_perm _ _).trans hg.perm
          · exact hi.regPerm
        | status code =>
          simp only at hs
          split at hs
          · rename_i hnet
            split at hs
            · rename_i e' hn
              cases hs
              exact ⟨hi.regPerm, inv_update c hi.callers
                (good_advance hg he hn (by simp [netOutcome, Outcome.errCode, hnet]))⟩
            · cases hs
              exact ⟨hi.regPerm, inv_remove c hi.callers⟩
          · cases hs
            exact ⟨hi.regPerm, inv_remove c hi.callers⟩
        | transport =>
          simp only at hs
          split at hs
          · rename_i e' hn
            cases hs
            exact ⟨hi.regPerm, inv_update c hi.callers
              (good_advance hg he hn (by simp [netOutcome, Outcome.errCode, isNetworkCode]))⟩
          · cases hs
            exact ⟨hi.regPerm, inv_remove c hi.callers⟩

theorem inv_reachable {cfg : List Ep} {s : State} (h : Reachable cfg s) : Inv cfg s := by
  induction h with
  | init => exact inv_init cfg
  | step _ hs ih => exact inv_step ih hs

theorem reachable_run {cfg : List Ep} {s s' : State} {ls : List Label} {es : List Emit}
    (h : Reachable cfg s) (hr : run s ls = some (s', es)) : Reachable cfg s' := by
  induction ls generalizing s es with
  | nil => simp [run, runWith] at hr; rw [← hr.1]; exact h
  | cons l ls ih =>
    simp only [run, runWith] at hr
    split at hr
    · cases hr
    · rename_i s1 e1 hs1
      split at hr
      · cases hr
      · rename_i s2 es2 hr2
        cases hr
        exact ih (Reachable.step h hs1) hr2

/-! ### a finishing step, seen through the spec's eyes -/

open Lumina.Spec.C44 (Ans Res CallObs specCall distinct network codeOf)

theorem distinct_iff (l : List Nat) : distinct l = true ↔ l.Nodup := by
  induction l with
  | nil => simp [distinct]
  | cons x xs ih =>
    simp only [distinct, Bool.and_eq_true, Bool.not_eq_true', List.nodup_cons, ih]
    constructor
    · rintro ⟨h1, h2⟩
      refine ⟨?_, h2⟩
      intro hm
      have : xs.contains x = true := by simpa using hm
      rw [h1] at this
      cases this
    · rintro ⟨h1, h2⟩
      refine ⟨?_, h2⟩
      cases hc : xs.contains x with
      | false => rfl
      | true => exact absurd (by simpa using hc) h1

theorem network_toAns (o : Outcome) : network (toAns o) = netOutcome o := by
  cases o <;> simp [network, toAns, netOutcome, Outcome.errCode, isNetworkCode]

theorem codeOf_toAns (o : Outcome) : codeOf (toAns o) = o.errCode := by
  cases o <;> rfl

theorem finalTried_eq {k : Caller} {e : Ep} (he : k.snapshot[k.idx]? = some e) (o : Outcome) :
    finalTried k o = k.tried ++ [(e, o)] := by
  simp [finalTried, he]

/-- the endpoints of a finished call's observation are the first `idx+1` of its snapshot -/
theorem finalTried_eps {cfg : List Ep} {k : Caller} {e : Ep} (hg : Good cfg k)
    (he : k.snapshot[k.idx]? = some e) (o : Outcome) :
    (finalTried k o).map (·.1) = k.snapshot.take (k.idx + 1) := by
  rw [finalTried_eq he, List.map_append, hg.triedEps, List.take_add_one, he]
  rfl

/-- the three result-independent conjuncts of `specCall` -/
theorem spec_common {cfg : List Ep} (hnd : cfg.Nodup) {k : Caller} {e : Ep} (hg : Good cfg k)
    (he : k.snapshot[k.idx]? = some e) (o : Outcome) (r : Res) :
    let ob := obsOf k o r
    distinct (ob.tried.map (·.1)) = true ∧ (ob.tried.map (·.1)).all cfg.contains = true ∧
    ob.tried.dropLast.all (fun p => network p.2) = true ∧
    ob.tried.getLast? = some (e, toAns o) := by
  have heps : (obsOf k o r).tried.map (·.1) = k.snapshot.take (k.idx + 1) := by
    simp only [obsOf, List.map_map]
    exact finalTried_eps hg he o
  have hsn : k.snapshot.Nodup := hg.perm.nodup_iff.mpr hnd
  refine ⟨?_, ?_, ?_, ?_⟩
  · rw [heps, distinct_iff]
    exact hsn.sublist (List.take_sublist _ _)
  · rw [heps, List.all_eq_true]
    intro x hx
    have : x ∈ cfg := hg.perm.subset (List.mem_of_mem_take hx)
    simpa using this
  · simp only [obsOf, finalTried_eq he, List.map_append, List.map_cons, List.map_nil,
      List.dropLast_concat, List.all_eq_true, List.mem_map]
    rintro p ⟨q, hq, rfl⟩
    simp only [network_toAns]
    exact hg.triedNet q hq
  · simp [obsOf, finalTried_eq he]

theorem take_all_of_next_none {k : Caller} (h : k.snapshot[k.idx + 1]? = none) :
    k.snapshot.take (k.idx + 1) = k.snapshot := by
  apply List.take_of_length_le
  exact List.getElem?_eq_none_iff.mp h

/-- MODEL ⊨ SPEC for one call: whenever a `respond` step finishes call `c` (in a reachable state,
    under any interleaving with other callers), the call as an observer saw it satisfies
    `specCall` against the configured endpoints -/
theorem finish_spec {cfg : List Ep} (hnd : cfg.Nodup) {s s' : State} {c : CallId} {o : Outcome}
    {k : Caller} {r : Result} {res : Res} (hr : Reachable cfg s) (hk : lookup s.callers c = some k)
    (hs : step s (.respond c o) = some (s', .finished r)) (hres : toRes r = some res) :
    specCall cfg (obsOf k o res) = true := by
  have hg := good_of_lookup (inv_reachable hr) hk
  simp only [step, hk] at hs
  split at hs
  · cases hs
  · rename_i e he
    obtain ⟨h1, h2, h3, h4⟩ := spec_common hnd hg he o res
    have heps : (obsOf k o res).tried.map (·.1) = k.snapshot.take (k.idx + 1) := by
      simp only [obsOf, List.map_map]
      exact finalTried_eps hg he o
    have hres' : (obsOf k o res).result = res := rfl
    have allIn : k.snapshot[k.idx + 1]? = none →
        cfg.all ((obsOf k o res).tried.map (·.1)).contains = true := by
      intro hn
      rw [heps, take_all_of_next_none hn, List.all_eq_true]
      intro x hx
      have : x ∈ k.snapshot := hg.perm.symm.subset hx
      simpa using this
    unfold specCall
    simp only [h1, h2, h3, h4, hres', Bool.and_self, Bool.true_and]
    cases o with
    | ok =>
      simp only at hs
      cases hs
      cases hres
      simp [toAns]
    | badPayload =>
      simp only at hs
      cases hs
      cases hres
      simp [toAns]
    | status code =>
      simp only at hs
      split at hs
      · rename_i hnet
        split at hs
        · cases hs
        · rename_i hn
          cases hs
          cases hres
          simp [toAns, codeOf, allIn hn]
      · rename_i hnet
        cases hs
        cases hres
        have : network (toAns (Outcome.status code)) = false := by
          rw [network_toAns]; simpa [netOutcome, Outcome.errCode] using hnet
        simp [toAns, codeOf] at this ⊢
        simp [this]
    | transport =>
      simp only at hs
      split at hs
      · cases hs
      · rename_i hn
        cases hs
        cases hres
        simp [toAns, codeOf, allIn hn]

/-! ### one call run without interruption -/

/-- a single caller in flight whose snapshot is still the register -/
def Solo (c : CallId) (s : State) : Prop :=
  ∃ k, s.callers = [(c, k)] ∧ k.snapshot = s.register

theorem lookup_solo {c : CallId} {k : Caller} : lookup [(c, k)] c = some k := by
  simp [lookup]

theorem remove_solo {c : CallId} {k : Caller} : remove [(c, k)] c = [] := by
  simp [remove]

theorem go_ok {c : CallId} {e : Ep} (outs : List Outcome) :
    ∀ (s s1 : State) (acc tr : List Ep), Solo c s →
      callSeq.go c s outs acc = some (s1, .ok e, tr) →
      s1.callers = [] ∧ s1.register.head? = some e := by
  induction outs with
  | nil => intro s s1 acc tr _ h; simp [callSeq.go] at h
  | cons o os ih =>
    intro s s1 acc tr hsolo h
    obtain ⟨k, hc, hsnap⟩ := hsolo
    simp only [callSeq.go, step, hc, lookup_solo] at h
    split at h
    · rename_i s2 e2 hstep
      -- the call moved on: still solo, register untouched
      apply ih s2 s1 _ tr _ h
      split at hstep
      · cases hstep
      · rename_i e0 he0
        cases o with
        | ok => simp at hstep
        | badPayload => simp at hstep
        | status code =>
          simp only at hstep
          split at hstep
          · split at hstep
            · cases hstep
              exact ⟨{ k with idx := k.idx + 1, tried := k.tried ++ [(e0, .status code)] },
                by simp [update, remove_solo], hsnap⟩
            · cases hstep
          · cases hstep
        | transport =>
          simp only at hstep
          split at hstep
          · cases hstep
            exact ⟨{ k with idx := k.idx + 1, tried := k.tried ++ [(e0, .transport)] },
              by simp [update, remove_solo], hsnap⟩
          · cases hstep
    · rename_i s2 r hstep
      cases h
      split at hstep
      · cases hstep
      · rename_i e0 he0
        cases o with
        | ok =>
          simp only at hstep
          cases hstep
          refine ⟨remove_solo, ?_⟩
          simp only
          split
          · rename_i hpos
            exact swap0_head he0 hpos
          · rename_i hpos
            have hz : k.idx = 0 := by omega
            rw [← hsnap, List.head?_eq_getElem?, ← hz]
            exact he0
        | badPayload => simp at hstep
        | status code =>
          simp only at hstep
          split at hstep
          · split at hstep <;> cases hstep
          · cases hstep
        | transport =>
          simp only at hstep
          split at hstep <;> cases hstep
    · cases h

/-! ### what holds of "first tried next" under ANY interleaving -/

open Lumina.Spec.C44 (specFirstAny) in
/-- the head of the register is the endpoint of the most recent fail-over success, else the
    first configured endpoint -/
def HeadInv (cfg : List Ep) (s : State) (lf : Option Ep) : Prop :=
  s.register.head? = (match lf with | some e => some e | none => cfg.head?)

theorem headInv_step {cfg : List Ep} {s s' : State} {l : Label} {em : Emit} {lf : Option Ep}
    (hi : HeadInv cfg s lf) (hs : step s l = some (s', em)) : HeadInv cfg s' (lfStep s l lf) := by
  cases l with
  | load c =>
    simp only [step] at hs
    split at hs
    · cases hs
    · split at hs <;> cases hs <;> exact hi
  | drop c =>
    simp only [step] at hs
    split at hs <;> cases hs
    exact hi
  | respond c o =>
    simp only [step] at hs
    split at hs
    · cases hs
    · rename_i k hk
      split at hs
      · cases hs
      · rename_i e he
        cases o with
        | ok =>
          simp only at hs
          cases hs
          simp only [lfStep, true_or, ↓reduceIte, hk, he]
          unfold HeadInv
          split
          · rename_i hpos
            exact swap0_head he hpos
          · rename_i hpos
            exact hi
        | badPayload =>
          simp only at hs
          cases hs
          simp only [lfStep, or_true, ↓reduceIte, hk, he]
          unfold HeadInv
          split
          · rename_i hpos
            exact swap0_head he hpos
          · rename_i hpos
            exact hi
        | status code =>
          simp only at hs
          have hlf : lfStep s (.respond c (.status code)) lf = lf := by simp [lfStep]
          rw [hlf]
          split at hs
          · split at hs <;> cases hs <;> exact hi
          · cases hs; exact hi
        | transport =>
          simp only at hs
          have hlf : lfStep s (.respond c .transport) lf = lf := by simp [lfStep]
          rw [hlf]
          split at hs <;> cases hs <;> exact hi

theorem headInv_run {cfg : List Ep} {s s' : State} {lf lf' : Option Ep} {ls : List Label}
    (hi : HeadInv cfg s lf) (hr : runLF s lf ls = some (s', lf')) : HeadInv cfg s' lf' := by
  induction ls generalizing s lf with
  | nil => simp [runLF] at hr; rw [← hr.1, ← hr.2]; exact hi
  | cons l ls ih =>
    simp only [runLF] at hr
    split at hr
    · rename_i s1 e1 hs1
      exact ih (headInv_step hi hs1) hr
    · cases hr

end Lumina.Proofs.Failover

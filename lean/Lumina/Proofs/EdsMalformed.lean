/-
  C08: inputs in one of the malformed classes of `Lumina/Spec/C08.lean` are rejected by `new` / `from_ods`.
  Owner: group D2.
-/
import Lumina.Proofs.EdsCodeword

namespace Lumina.Proofs.EdsMalformed
open Lumina.Util Lumina.Model.Nmt Lumina.Model.Eds Lumina.Model.EdsCode
open Lumina.Proofs.EdsCode Lumina.Proofs.EdsExtend Lumina.Proofs.EdsCodeword
open Lumina.Spec.C08

theorem le_mul_self (w : Nat) : w ≤ w * w := by
  cases w with
  | zero => simp
  | succ n => exact Nat.le_mul_of_pos_left _ (Nat.succ_pos n)

theorem notSquare_false {n w : Nat} (h : w * w = n) : notSquare n = false := by
  unfold notSquare
  rw [Bool.eq_false_iff]
  intro hall
  rw [List.all_eq_true] at hall
  have := hall w (List.mem_range.mpr (by have := le_mul_self w; omega))
  simp [h] at this

theorem widthNotPow2_false {n w j : Nat} (h : w * w = n) (hj : w = 2 ^ j) : widthNotPow2 n = false := by
  unfold widthNotPow2
  rw [Bool.eq_false_iff]
  intro hany
  rw [List.any_eq_true] at hany
  obtain ⟨w', _, hw'⟩ := hany
  simp only [Bool.and_eq_true, beq_iff_eq, Bool.not_eq_true', List.any_eq_false, List.mem_range] at hw'
  obtain ⟨h1, h2⟩ := hw'
  have : w' = w := Nat.mul_self_inj.mp (by rw [h1, h])
  subst this
  have hjw : j < w' + 1 := by
    have := @Nat.lt_two_pow_self j
    omega
  exact h2 j hjw (by simp [hj])

theorem nsAt_cell (w : Nat) (sq : List Bytes) (r c : Nat) : nsAt w sq r c = (cell w sq r c).ns := by
  simp only [nsAt, cell, Share.ns, isOdsSquare, parityNs, maxNsId, NS_SIZE]
  by_cases h1 : r < w / 2 <;> by_cases h2 : c < w / 2 <;> simp [h1, h2]

theorem pairwise_adjacent {l : List Bytes} (h : l.Pairwise (fun a b => leB a b = true)) {j : Nat} (hj : j + 1 < l.length) :
    ltB (l.getD (j + 1) []) (l.getD j []) = false := by
  rw [List.pairwise_iff_getElem] at h
  have := h j (j + 1) (by omega) hj (by omega)
  unfold leB at this
  simp only [List.getD_eq_getElem?_getD, List.getElem?_eq_getElem hj, List.getElem?_eq_getElem (show j < l.length by omega),
    Option.getD_some]
  simpa using this

theorem unsortedEds_false {ver : Nat} {shares : List Bytes} {e : Eds} (h : NewOK ver shares e) :
    unsortedEds e.width shares = false := by
  unfold unsortedEds
  rw [Bool.eq_false_iff]
  intro hany
  rw [List.any_eq_true] at hany
  obtain ⟨i, hi, hany⟩ := hany
  rw [List.any_eq_true] at hany
  obtain ⟨j, hj, hor⟩ := hany
  have hi' := List.mem_range.mp hi
  have hj' := List.mem_range.mp hj
  have hrow := pairwise_adjacent (h.sorted i hi' .row) (j := j) (by simp [lineCells]; omega)
  have hcol := pairwise_adjacent (h.sorted i hi' .col) (j := j) (by simp [lineCells]; omega)
  have e1 : ∀ (ax : Axis) (x : Nat), x < e.width →
      ((lineCells e.width shares ax i).map Share.ns).getD x [] = (cell e.width shares (axisCoord ax i x).1 (axisCoord ax i x).2).ns := by
    intro ax x hx
    simp [lineCells, List.getD_eq_getElem?_getD, List.getElem?_map, List.getElem?_range hx]
  rw [e1 .row (j + 1) (by omega), e1 .row j (by omega)] at hrow
  rw [e1 .col (j + 1) (by omega), e1 .col j (by omega)] at hcol
  simp only [axisCoord] at hrow hcol
  simp only [nsAt_cell, Bool.or_eq_true] at hor
  rcases hor with h1 | h1
  · rw [hrow] at h1; cases h1
  · rw [hcol] at h1; cases h1

theorem mem_shares_cell {ver : Nat} {shares : List Bytes} {e : Eds} (h : NewOK ver shares e) :
    ∀ s ∈ shares, s.length = SHARE_SIZE := by
  intro s hs
  rw [← Lumina.Proofs.ShrexEds.NewOK.data h] at hs
  obtain ⟨sh, hsh, rfl⟩ := List.mem_map.mp hs
  rw [h.grid] at hsh
  obtain ⟨l, hl, hsh⟩ := List.mem_flatten.mp hsh
  obtain ⟨i, hi, rfl⟩ := List.mem_map.mp hl
  exact (h.cells i (List.mem_range.mp hi) .row sh hsh).size

/-- **`new` rejects every malformed square** -/
theorem new_rejects {ver : Nat} {shares : List Bytes} {e : Eds} (h : edsNew ver shares = .ok e) :
    malformedEds ver shares = false := by
  have ok := edsNew_ok h
  obtain ⟨j, hj1, _, hj⟩ := ok.pow
  have hw2 : 2 ≤ e.width := by
    rw [hj]
    calc 2 = 2 ^ 1 := rfl
      _ ≤ 2 ^ j := Nat.pow_le_pow_right (by omega) hj1
  unfold malformedEds
  simp only [Bool.or_eq_false_iff, decide_eq_false_iff_not, Nat.not_lt]
  refine ⟨⟨⟨⟨⟨notSquare_false ok.sq, widthNotPow2_false ok.sq hj⟩, ?_⟩, ?_⟩, ?_⟩, ?_⟩
  · rw [← ok.sq]; exact Nat.mul_le_mul hw2 hw2
  · rw [← ok.sq]
    have := ok.maxw
    simp only [maxExtendedSquareWidth, squareSizeUpperBound] at this
    simp only [maxOdsWidth, Nat.not_lt]
    exact Nat.mul_le_mul (by omega) (by omega)
  · unfold wrongShareSize
    rw [List.any_eq_false]
    intro s hs
    have := mem_shares_cell ok s hs
    simp [this, SHARE_SIZE]
  · rw [List.any_eq_false]
    intro w _
    simp only [Bool.and_eq_true, beq_iff_eq, not_and, Bool.not_eq_true]
    intro hw
    have : w = e.width := Nat.mul_self_inj.mp (by rw [hw, ok.sq])
    subst this
    exact unsortedEds_false ok

/-- **`from_ods` rejects every malformed original square** -/
theorem from_ods_rejects {enc : List Bytes → List Bytes} {ver : Nat} {ods : List Bytes} {e : Eds}
    (hs : EncShape enc (isqrt ods.length)) (h : fromOds enc ver ods = .ok e) : malformedOds ver ods = false := by
  have x := extOK hs h
  generalize hk : isqrt ods.length = k at x hs
  have ok := x.newOK
  obtain ⟨j, hj1, _, hj⟩ := ok.pow
  rw [x.width] at hj
  have hkpow : k = 2 ^ (j - 1) := by
    obtain ⟨j', rfl⟩ : ∃ j', j = j' + 1 := ⟨j - 1, by omega⟩
    rw [Nat.pow_succ] at hj
    simp; omega
  unfold malformedOds
  simp only [Bool.or_eq_false_iff, decide_eq_false_iff_not, Nat.not_lt]
  refine ⟨⟨⟨⟨⟨notSquare_false x.sq.symm, widthNotPow2_false x.sq.symm hkpow⟩, ?_⟩, ?_⟩, ?_⟩, ?_⟩
  · rw [x.sq]; exact Nat.mul_le_mul x.kpos x.kpos
  · rw [x.sq]
    have := ok.maxw
    rw [x.width] at this
    simp only [maxExtendedSquareWidth, squareSizeUpperBound] at this
    simp only [maxOdsWidth, Nat.not_lt]
    exact Nat.mul_le_mul (by omega) (by omega)
  · unfold wrongShareSize
    rw [List.any_eq_false]
    intro s hs'
    have := x.ods_size s hs'
    simp [this, SHARE_SIZE]
  · rw [List.any_eq_false]
    intro k' _
    simp only [Bool.and_eq_true, beq_iff_eq, not_and, Bool.not_eq_true]
    intro hk'
    have : k' = k := Nat.mul_self_inj.mp (by rw [hk', x.sq])
    subst this
    -- sortedness of the original square = sortedness of the first quadrant of the accepted square
    have hE := unsortedEds_false ok
    rw [x.width] at hE
    unfold unsortedOds
    rw [Bool.eq_false_iff]
    intro hany
    rw [List.any_eq_true] at hany
    obtain ⟨i, hi, hany⟩ := hany
    rw [List.any_eq_true] at hany
    obtain ⟨jj, hjj, hor⟩ := hany
    have hi' := List.mem_range.mp hi
    have hjj' := List.mem_range.mp hjj
    unfold unsortedEds at hE
    rw [List.any_eq_false] at hE
    have hE1 := hE i (List.mem_range.mpr (by omega))
    rw [Bool.not_eq_true, List.any_eq_false] at hE1
    have hE2 := hE1 jj (List.mem_range.mpr (by omega))
    have q0 : ∀ r c, r < k' → c < k' → nsAt (2 * k') (extGrid enc k' ods) r c = (ods.getD (r * k' + c) []).take 29 := by
      intro r c hr hc
      have h2 : 2 * k' / 2 = k' := by omega
      simp only [nsAt, h2, hr, hc, and_self, ↓reduceIte]
      rw [extGrid_getD enc k' ods (by omega) (by omega)]
      simp [extCell, hr, hc]
    rw [q0 i (jj + 1) hi' (by omega), q0 i jj hi' (by omega), q0 (jj + 1) i (by omega) hi', q0 jj i (by omega) hi'] at hE2
    have e1 : i * k' + jj + 1 = i * k' + (jj + 1) := by omega
    rw [e1] at hor
    rw [hor] at hE2
    exact hE2 rfl

end Lumina.Proofs.EdsMalformed

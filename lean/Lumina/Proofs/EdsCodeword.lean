/-
  C08: bridges between the construction model and the spec checkers of `Lumina/Spec/C08.lean`
  (codewords along every axis of an accepted extension, malformed inputs).
  Owner: group D2.
-/
import Lumina.Proofs.EdsLinear
import Lumina.Proofs.ShrexEds
import Lumina.Spec.C08

namespace Lumina.Proofs.EdsCodeword
open Lumina.Util Lumina.Model.Nmt Lumina.Model.Eds Lumina.Model.EdsCode
open Lumina.Proofs.EdsCode Lumina.Proofs.EdsExtend Lumina.Proofs.EdsLinear Lumina.Proofs.ShrexEds
open Lumina.Spec.C08

theorem isCodeword_iff (enc : List Bytes → List Bytes) (k : Nat) (axis : List Bytes) :
    isCodeword enc k axis = true ↔ IsCodeword enc k axis := by
  simp [isCodeword, IsCodeword]

/-- everything an accepted `from_ods` gives, under the codec shape hypothesis -/
structure ExtOK (enc : List Bytes → List Bytes) (ver : Nat) (ods : List Bytes) (e : Eds) (k : Nat) : Prop where
  k_eq : k = isqrt ods.length
  sq : ods.length = k * k
  newOK : NewOK ver (extGrid enc k ods) e
  width : e.width = 2 * k
  data : e.shares.map Share.data = extGrid enc k ods
  kpos : 1 ≤ k

theorem extOK {enc : List Bytes → List Bytes} {ver : Nat} {ods : List Bytes} {e : Eds}
    (hs : EncShape enc (isqrt ods.length)) (h : fromOds enc ver ods = .ok e) : ExtOK enc ver ods e (isqrt ods.length) := by
  obtain ⟨hsq, _, hn⟩ := fromOds_ok h
  have hg := extendRaw_grid hs hsq.symm
  rw [hg] at hn
  have hw : e.width = 2 * isqrt ods.length := width_eq hn (by rw [extGrid_length])
  refine ⟨rfl, hsq.symm, hn, hw, Lumina.Proofs.ShrexEds.NewOK.data hn, ?_⟩
  obtain ⟨j, hj1, _, hj⟩ := hn.pow
  have : 2 ≤ e.width := by
    rw [hj]
    calc 2 = 2 ^ 1 := rfl
      _ ≤ 2 ^ j := Nat.pow_le_pow_right (by omega) hj1
  omega

/-- every share of the original square is a cell of the accepted square, hence 512 bytes long -/
theorem ExtOK.ods_size {enc : List Bytes → List Bytes} {ver : Nat} {ods : List Bytes} {e : Eds} {k : Nat}
    (x : ExtOK enc ver ods e k) : ∀ s ∈ ods, s.length = SHARE_SIZE := by
  intro s hs
  obtain ⟨j, hj, rfl⟩ := List.getElem_of_mem hs
  have hk := x.kpos
  have hjk : j < k * k := by rw [← x.sq]; exact hj
  have hr : j / k < k := Nat.div_lt_of_lt_mul (by simpa using hjk)
  have hc : j % k < k := Nat.mod_lt j (by omega)
  have hdm : j / k * k + j % k = j := by rw [Nat.mul_comm]; exact Nat.div_add_mod j k
  have hmem : cell e.width (extGrid enc k ods) (j / k) (j % k) ∈ lineCells e.width (extGrid enc k ods) .row (j / k) :=
    List.mem_map.mpr ⟨j % k, List.mem_range.mpr (by rw [x.width]; omega), rfl⟩
  have := (x.newOK.cells (j / k) (by rw [x.width]; omega) .row _ hmem).size
  simp only [cell] at this
  rw [x.width, extGrid_getD enc k ods (by omega) (by omega)] at this
  simp only [extCell, hr, hc, ↓reduceIte, hdm] at this
  rw [List.getD_eq_getElem?_getD, List.getElem?_eq_getElem hj] at this
  simpa using this

theorem rowOf_extGrid (enc : List Bytes → List Bytes) (k : Nat) (ods : List Bytes) {i : Nat} (hi : i < 2 * k) :
    rowOf (2 * k) (extGrid enc k ods) i = extRow enc k ods i := by
  unfold rowOf extRow
  apply List.map_congr_left
  intro c hc
  exact extGrid_getD enc k ods hi (List.mem_range.mp hc)

theorem colOf_extGrid (enc : List Bytes → List Bytes) (k : Nat) (ods : List Bytes) {i : Nat} (hi : i < 2 * k) :
    colOf (2 * k) (extGrid enc k ods) i = extCol enc k ods i := by
  unfold colOf extCol
  apply List.map_congr_left
  intro r hr
  exact extGrid_getD enc k ods (List.mem_range.mp hr) hi

/-- all `4k` axes of the extension are codewords -/
theorem axes_codewords {enc : List Bytes → List Bytes} {k len : Nat} (hs : EncShape enc k) (L : EncLinear enc k len)
    {ods : List Bytes} (hl : ods.length = k * k) (hlen : ∀ s ∈ ods, s.length = len) {i : Nat} (hi : i < 2 * k) :
    IsCodeword enc k (extRow enc k ods i) ∧ IsCodeword enc k (extCol enc k ods i) := by
  refine ⟨extRow_codeword hs hl hi, ?_⟩
  by_cases hik : i < k
  · rw [extCol_left_eq hs hik]
    exact codeword_of_append (odsCol_length k ods i) (hs _ (odsCol_length k ods i))
  · rw [extCol_right_eq L hs hl hlen (by omega) hi]
    exact codeword_of_append (q1Col_length enc k ods _) (hs _ (q1Col_length enc k ods _))

theorem quadrant0_eq : Lumina.Spec.C08.quadrant0 = Lumina.Spec.C09.quadrant0 := rfl

end Lumina.Proofs.EdsCodeword

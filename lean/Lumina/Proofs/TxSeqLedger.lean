/-
  C43: the observer's ledger of `Lumina/Spec/C43.lean` accepts every run of the client model — the bookkeeping
  equality between the ledger's maps (`believed`, `lastSigned`, `accepted`, `prev`) and the model state, as an invariant
  over arbitrary histories.

  * `oLine st`, `oAnswered op`: what the observer sees of a model step — the same abstraction the driver's `render` /
    `parseLine` / `oAns` realise through strings (events in order; per started submission its pending request / `wait` /
    result, sorted by submission number);
  * `X b st`: structural facts about one step (from base state `b`), proved function by function: keys of the
    submission table are unique; a submission in a confirmation phase has an accepted transaction; before the account is
    known nothing is signed and nobody is past the account query; the table of signed transactions only grows and every
    signature of the step indexes it; `acc`/`accSeq` change only by acceptance;
  * `Rel l st`: the bookkeeping relation; `ledger_step`: one step; `specRun_ok`: every history.
-/
import Lumina.Proofs.TxSeq

namespace Lumina.Proofs.TxSeqLedger
open Lumina.Model.TxSeq Lumina.Proofs.TxSeq
open Lumina.Spec.C43

/-! ## what the observer sees of a model state -/

def oPend (s : Sub) : Option OPend :=
  match s.phase with
  | .idle => none
  | .reqL => some .L
  | .reqG => some .G
  | .reqP => some .P
  | .reqE k => some (.E k)
  | .reqB k => some (.B k)
  | .reqT => some (.T (s.acc.getD 0))
  | .reqRB _ => some (.B (s.acc.getD 0))
  | .waitChain => some .wait
  | .waitAcct => some .wait
  | .waitLock => some .wait
  | .waitRollback _ => some .wait
  | .done _ => some .fin

def insertSortedO (p : Nat × OPend) : List (Nat × OPend) → List (Nat × OPend)
  | [] => [p]
  | q :: rest => if p.1 ≤ q.1 then p :: q :: rest else q :: insertSortedO p rest

def rawStates (subs : List (Nat × Sub)) : List (Nat × OPend) :=
  subs.filterMap (fun p => (oPend p.2).map (fun t => (p.1, t)))

/-- the `st=` part of a line: every started submission with what it has pending, sorted by submission -/
def oStates (st : St) : List (Nat × OPend) := (rawStates st.subs).foldr insertSortedO []

/-- the line the model prints after a step, as the observer parses it -/
def oLine (st : St) : OLine := { events := st.events.map oev, states := oStates st }

/-- the answers that matter to the ledger (the driver's `oAns`) -/
def oAns : Ans → OAns
  | .okSeq n => .acctSeq n
  | .ok => .accepted
  | .cache => .accepted
  | .mis n => .mismatch n
  | .evicted => .evicted
  | .unknown => .evicted
  | _ => .other

def oAnswered : Op → Option (Nat × OAns)
  | .ans i a => some (i, oAns a)
  | .start _ _ _ => none

/-- the ledger accepts every line of the model's run on `ops` from state `st` -/
def specRun (l : Ledger) (st : St) : List Op → Bool
  | [] => true
  | op :: ops =>
    match ledgerStep l (oAnswered op) (oLine (step st op)) with
    | .ok l' => specRun l' (step st op) ops
    | .error _ => false

/-! ## lists with unique keys -/

theorem perm_insertSortedO (p : Nat × OPend) (l : List (Nat × OPend)) : (insertSortedO p l).Perm (p :: l) := by
  induction l with
  | nil => exact List.Perm.refl _
  | cons q rest ih =>
    simp only [insertSortedO]
    split
    · exact List.Perm.refl _
    · exact (List.Perm.cons q ih).trans (List.Perm.swap p q rest)

theorem perm_sortO (l : List (Nat × OPend)) : (l.foldr insertSortedO []).Perm l := by
  induction l with
  | nil => exact List.Perm.refl _
  | cons p rest ih =>
    simp only [List.foldr]
    exact (perm_insertSortedO p _).trans (List.Perm.cons p ih)

theorem lookup_of_mem {α} : ∀ {l : List (Nat × α)} {i : Nat} {v : α}, (l.map Prod.fst).Nodup → (i, v) ∈ l →
    l.lookup i = some v
  | [], _, _, _, h => by simp at h
  | (j, w) :: rest, i, v, hn, h => by
    simp only [List.map_cons, List.nodup_cons] at hn
    rcases List.mem_cons.mp h with h1 | h2
    · injection h1 with e1 e2; subst e1; subst e2; simp [List.lookup]
    · have hne : i ≠ j := by
        intro e; subst e
        exact hn.1 (List.mem_map.mpr ⟨(i, v), h2, rfl⟩)
      have : (i == j) = false := by simp [hne]
      simp only [List.lookup, this]
      exact lookup_of_mem hn.2 h2

theorem lookup_none_of_not_key {α} : ∀ {l : List (Nat × α)} {i : Nat}, i ∉ l.map Prod.fst → l.lookup i = none
  | [], _, _ => rfl
  | (j, w) :: rest, i, h => by
    simp only [List.map_cons, List.mem_cons, not_or] at h
    have : (i == j) = false := by simp [h.1]
    simp only [List.lookup, this]
    exact lookup_none_of_not_key h.2

theorem lookup_mem {α} : ∀ {l : List (Nat × α)} {i : Nat} {v : α}, l.lookup i = some v → (i, v) ∈ l
  | [], _, _, h => by simp [List.lookup] at h
  | (j, w) :: rest, i, v, h => by
    by_cases e : i = j
    · subst e; simp [List.lookup] at h; subst h; simp
    · have : (i == j) = false := by simp [e]
      simp only [List.lookup, this] at h
      exact List.mem_cons_of_mem _ (lookup_mem h)

/-- lookups do not see the order when keys are unique -/
theorem lookup_perm {α} {l l' : List (Nat × α)} (hp : l'.Perm l) (hn : (l.map Prod.fst).Nodup) (i : Nat) :
    l'.lookup i = l.lookup i := by
  have hn' : (l'.map Prod.fst).Nodup := (hp.map Prod.fst).nodup_iff.mpr hn
  cases h : l.lookup i with
  | some v => exact lookup_of_mem hn' (hp.mem_iff.mpr (lookup_mem h))
  | none =>
    cases h' : l'.lookup i with
    | none => rfl
    | some v =>
      have := lookup_of_mem hn (hp.mem_iff.mp (lookup_mem h'))
      rw [h] at this; cases this

theorem keys_rawStates_sub (subs : List (Nat × Sub)) : ∀ i ∈ (rawStates subs).map Prod.fst, i ∈ subs.map Prod.fst := by
  intro i hi
  obtain ⟨⟨j, t⟩, hm, rfl⟩ := List.mem_map.mp hi
  obtain ⟨⟨j', s⟩, hs, hq⟩ := List.mem_filterMap.mp hm
  cases ho : oPend s with
  | none => simp [ho] at hq
  | some t' =>
    simp only [ho, Option.map_some, Option.some.injEq, Prod.mk.injEq] at hq
    exact List.mem_map.mpr ⟨(j', s), hs, hq.1⟩

theorem nodup_rawStates : ∀ (subs : List (Nat × Sub)), (subs.map Prod.fst).Nodup → ((rawStates subs).map Prod.fst).Nodup
  | [], _ => by simp [rawStates]
  | (j, s) :: rest, hn => by
    simp only [List.map_cons, List.nodup_cons] at hn
    have ih := nodup_rawStates rest hn.2
    cases ho : oPend s with
    | none => simpa [rawStates, ho] using ih
    | some t =>
      have : rawStates ((j, s) :: rest) = (j, t) :: rawStates rest := by
        simp [rawStates, ho]
      rw [this]
      simp only [List.map_cons, List.nodup_cons]
      exact ⟨fun hm => hn.1 (keys_rawStates_sub rest j hm), ih⟩

theorem lookup_rawStates : ∀ (subs : List (Nat × Sub)) (i : Nat), (subs.map Prod.fst).Nodup →
    (rawStates subs).lookup i = (subs.lookup i).bind oPend
  | [], _, _ => rfl
  | (j, s) :: rest, i, hn => by
    simp only [List.map_cons, List.nodup_cons] at hn
    have ih := lookup_rawStates rest i hn.2
    by_cases e : i = j
    · subst e
      have hnone : (rawStates rest).lookup i = none :=
        lookup_none_of_not_key (fun hm => hn.1 (keys_rawStates_sub rest i hm))
      cases ho : oPend s with
      | none => simp [rawStates, ho, List.lookup] at hnone ⊢; exact hnone
      | some t => simp [rawStates, ho, List.lookup]
    · have hb : (i == j) = false := by simp [e]
      cases ho : oPend s with
      | none => simpa [rawStates, ho, List.lookup, hb] using ih
      | some t => simpa [rawStates, ho, List.lookup, hb] using ih

/-- **the observer's view of submission `i` is its phase** -/
theorem lookup_oStates (st : St) (hn : (st.subs.map Prod.fst).Nodup) (i : Nat) :
    (oStates st).lookup i = oPend (getSub st i) := by
  unfold oStates
  rw [lookup_perm (perm_sortO _) (nodup_rawStates _ hn), lookup_rawStates _ _ hn]
  unfold getSub
  cases st.subs.lookup i <;> rfl

theorem mem_oStates (st : St) (hn : (st.subs.map Prod.fst).Nodup) (i : Nat) (p : OPend) (h : (i, p) ∈ oStates st) :
    oPend (getSub st i) = some p := by
  rw [← lookup_oStates st hn i]
  refine lookup_of_mem ?_ h
  exact ((perm_sortO _).map Prod.fst).nodup_iff.mpr (nodup_rawStates _ hn)

theorem pends_ok (l : Ledger) : ∀ (xs : List (Nat × OPend)), (∀ x ∈ xs, pendOK l x.1 x.2 = .ok ()) → pends l xs = .ok ()
  | [], _ => rfl
  | (i, p) :: rest, h => by
    simp only [pends, h (i, p) (by simp)]
    exact pends_ok l rest (fun x hx => h x (List.mem_cons_of_mem _ hx))

/-! ## structural facts about one step -/

def earlyPhase : Phase → Bool
  | .idle | .waitChain | .reqL | .waitAcct | .reqG | .done _ => true
  | _ => false

/-- the confirmation phases: the submission has an accepted transaction -/
def postPhase : Phase → Bool
  | .reqT | .reqRB _ | .waitRollback _ => true
  | _ => false

/-- a `finished` that is not a rejection -/
def plainFin : Event → Bool
  | .finished _ (.rejected _) => false
  | .finished _ _ => true
  | .sign _ _ _ => false

theorem nodup_setSubL : ∀ (l : List (Nat × Sub)) (i : Nat) (s : Sub), (l.map Prod.fst).Nodup →
    ((setSubL l i s).map Prod.fst).Nodup ∧ ∀ j, j ∈ (setSubL l i s).map Prod.fst → j = i ∨ j ∈ l.map Prod.fst
  | [], i, s, _ => by simp [setSubL]
  | (j, t) :: rest, i, s, hn => by
    simp only [List.map_cons, List.nodup_cons] at hn
    by_cases e : j = i
    · subst e
      simp only [setSubL, ↓reduceIte, List.map_cons, List.nodup_cons]
      exact ⟨hn, fun k hk => Or.inr hk⟩
    · obtain ⟨ih1, ih2⟩ := nodup_setSubL rest i s hn.2
      simp only [setSubL, e, ↓reduceIte, List.map_cons, List.nodup_cons, List.mem_cons]
      refine ⟨⟨fun hm => ?_, ih1⟩, fun k hk => ?_⟩
      · rcases ih2 j hm with h | h
        · exact e h
        · exact hn.1 h
      · rcases hk with h | h
        · exact Or.inr (Or.inl h)
        · rcases ih2 k h with h | h
          · exact Or.inl h
          · exact Or.inr (Or.inr h)

structure X (b st : St) : Prop where
  keys : (st.subs.map Prod.fst).Nodup
  post : ∀ j, postPhase (getSub st j).phase = true → (getSub st j).acc ≠ none
  early : st.acct.ready = false → ∀ j, earlyPhase (getSub st j).phase = true ∧ (getSub st j).acc = none
  nosign : st.acct.ready = false → ∀ e ∈ st.events, plainFin e = true
  rdy : st.acct.ready = b.acct.ready
  txs : ∃ ext, st.txs = b.txs ++ ext
  sgn : ∀ i k tx, Event.sign i k tx ∈ st.events → st.txs[k]? = some tx
  accfr : ∀ j, (getSub st j).acc = (getSub b j).acc ∧
    ((getSub b j).acc ≠ none → (getSub st j).accSeq = (getSub b j).accSeq)
  rej : ∀ j c, Event.finished j (.rejected c) ∈ st.events → (getSub st j).acc ≠ none

/-- changes that touch neither the submissions, nor the events, nor the signed transactions, nor `acct.ready` -/
theorem X.congr {b st st' : St} (h : X b st) (hs : st'.subs = st.subs) (he : st'.events = st.events)
    (ht : st'.txs = st.txs) (hr : st'.acct.ready = st.acct.ready) : X b st' := by
  have hg : ∀ j, getSub st' j = getSub st j := fun j => by simp [getSub, hs]
  refine ⟨by rw [hs]; exact h.keys, ?_, ?_, ?_, by rw [hr]; exact h.rdy, by rw [ht]; exact h.txs, ?_, ?_, ?_⟩
  · intro j; rw [hg]; exact h.post j
  · intro hn j; rw [hg]; exact h.early (by rw [← hr]; exact hn) j
  · intro hn e; rw [he]; exact h.nosign (by rw [← hr]; exact hn) e
  · intro i k tx; rw [he, ht]; exact h.sgn i k tx
  · intro j; rw [hg]; exact h.accfr j
  · intro j c; rw [he, hg]; exact h.rej j c

theorem X.setSub {b st : St} (h : X b st) (i : Nat) (s : Sub) (hacc : s.acc = (getSub st i).acc)
    (hseq : (getSub st i).acc ≠ none → s.accSeq = (getSub st i).accSeq)
    (hpost : postPhase s.phase = true → s.acc ≠ none)
    (hearly : st.acct.ready = false → earlyPhase s.phase = true) : X b (setSub st i s) := by
  refine ⟨(nodup_setSubL _ i s h.keys).1, ?_, ?_, h.nosign, h.rdy, h.txs, h.sgn, ?_, ?_⟩
  · intro j
    rw [getSub_setSub]
    split
    · exact hpost
    · exact h.post j
  · intro hn j
    rw [getSub_setSub]
    split
    · rename_i e; subst e
      exact ⟨hearly hn, by rw [hacc]; exact (h.early hn j).2⟩
    · exact h.early hn j
  · intro j
    rw [getSub_setSub]
    split
    · rename_i e; subst e
      refine ⟨by rw [hacc]; exact (h.accfr j).1, fun hb => ?_⟩
      have hne : (getSub st j).acc ≠ none := by rw [(h.accfr j).1]; exact hb
      rw [hseq hne]; exact (h.accfr j).2 hb
    · exact h.accfr j
  · intro j c hm
    have := h.rej j c hm
    rw [getSub_setSub]
    split
    · rename_i e; subst e; rw [hacc]; exact this
    · exact this

theorem X.setPhase {b st : St} (h : X b st) (i : Nat) (p : Phase)
    (hpost : postPhase p = true → (getSub st i).acc ≠ none)
    (hearly : st.acct.ready = false → earlyPhase p = true) : X b (setPhase st i p) :=
  h.setSub i _ rfl (fun _ => rfl) hpost hearly

theorem X.emitFin {b st : St} (h : X b st) (i : Nat) (r : Res)
    (hr : ∀ c, r = .rejected c → (getSub st i).acc ≠ none ∧ st.acct.ready = true) :
    X b (emit st (.finished i r)) := by
  have hg : ∀ j, getSub (emit st (.finished i r)) j = getSub st j := fun j => rfl
  refine ⟨h.keys, h.post, h.early, ?_, h.rdy, h.txs, ?_, h.accfr, ?_⟩
  · intro hn e he
    simp only [emit, List.mem_append, List.mem_singleton] at he
    rcases he with he | he
    · exact h.nosign hn e he
    · subst he
      cases r with
      | rejected c =>
        have := (hr c rfl).2
        have hn' : st.acct.ready = false := hn
        rw [hn'] at this; cases this
      | _ => rfl
  · intro i' k tx hm
    simp only [emit, List.mem_append, List.mem_singleton, reduceCtorEq, or_false] at hm
    exact h.sgn i' k tx hm
  · intro j c hm
    simp only [emit, List.mem_append, List.mem_singleton] at hm
    rcases hm with hm | hm
    · exact h.rej j c hm
    · injection hm with e1 e2
      subst e1
      exact (hr c e2.symm).1

theorem X.finish {b st : St} (h : X b st) (i : Nat) (r : Res)
    (hr : ∀ c, r = .rejected c → (getSub st i).acc ≠ none ∧ st.acct.ready = true) : X b (finish st i r) := by
  unfold Lumina.Model.TxSeq.finish
  have h1 := h.setPhase i (.done r) (by simp [postPhase]) (fun _ => rfl)
  refine h1.emitFin i r ?_
  intro c hc
  obtain ⟨k1, k2⟩ := hr c hc
  refine ⟨?_, k2⟩
  simp only [Lumina.Model.TxSeq.setPhase, getSub_setSub_same]
  exact k1

theorem X.signTx {b st : St} (h : X b st) (hr : st.acct.ready = true) (i gas fee : Nat) :
    X b (signTx st i gas fee).1 := by
  have hrf : ∀ {P : Prop}, st.acct.ready = false → P := fun hn => by rw [hr] at hn; cases hn
  unfold Lumina.Model.TxSeq.signTx txId
  simp only []
  cases hidx : st.txs.idxOf? ⟨i, st.seq, gas, fee⟩ with
  | some k =>
    simp only []
    have hk : st.txs[k]? = some ⟨i, st.seq, gas, fee⟩ := by
      obtain ⟨hlt, heq, _⟩ := List.idxOf?_eq_some_iff.mp hidx
      rw [List.getElem?_eq_getElem hlt, heq]
    refine ⟨h.keys, h.post, h.early, fun hn => hrf hn, h.rdy, h.txs, ?_, h.accfr, ?_⟩
    · intro i' k' tx hm
      simp only [emit, List.mem_append, List.mem_singleton] at hm
      rcases hm with hm | hm
      · exact h.sgn i' k' tx hm
      · injection hm with e1 e2 e3
        subst e2; subst e3
        exact hk
    · intro j c hm
      simp only [emit, List.mem_append, List.mem_singleton, reduceCtorEq, or_false] at hm
      exact h.rej j c hm
  | none =>
    simp only []
    obtain ⟨ext, hext⟩ := h.txs
    refine ⟨h.keys, h.post, h.early, fun hn => hrf hn, h.rdy, ⟨ext ++ [⟨i, st.seq, gas, fee⟩], by simp [emit, hext]⟩, ?_,
      h.accfr, ?_⟩
    · intro i' k' tx hm
      simp only [emit, List.mem_append, List.mem_singleton] at hm
      rcases hm with hm | hm
      · have := h.sgn i' k' tx hm
        have hlt : k' < st.txs.length := by
          rcases Nat.lt_or_ge k' st.txs.length with h1 | h1
          · exact h1
          · rw [List.getElem?_eq_none h1] at this; cases this
        show (st.txs ++ [_])[k']? = some tx
        rw [List.getElem?_append_left hlt]
        exact this
      · injection hm with e1 e2 e3
        subst e2; subst e3
        show (st.txs ++ [_])[st.txs.length]? = some _
        simp
    · intro j c hm
      simp only [emit, List.mem_append, List.mem_singleton, reduceCtorEq, or_false] at hm
      exact h.rej j c hm

theorem signTx_ready (st : St) (i gas fee : Nat) : (signTx st i gas fee).1.acct.ready = st.acct.ready := by
  unfold Lumina.Model.TxSeq.signTx txId
  simp only []
  split <;> rfl

theorem signTx_sub (st : St) (i gas fee : Nat) (j : Nat) : getSub (signTx st i gas fee).1 j = getSub st j := by
  unfold Lumina.Model.TxSeq.signTx txId
  simp only []
  split <;> rfl

theorem X.sab {b st : St} (h : X b st) (hr : st.acct.ready = true) (i gas q : Nat) :
    X b (signAndBroadcast st i gas q) := by
  unfold signAndBroadcast
  refine (h.signTx hr i gas _).setPhase i _ (by simp [postPhase]) ?_
  intro hn; rw [signTx_ready, hr] at hn; cases hn

theorem X.csLoop {b st : St} (h : X b st) (hr : st.acct.ready = true) (i : Nat) : X b (csLoop st i) := by
  unfold Lumina.Model.TxSeq.csLoop
  simp only []
  split
  · exact h.sab hr i _ _
  · exact h.setPhase i _ (by simp [postPhase]) (fun hn => by rw [hr] at hn; cases hn)
  · refine (h.signTx hr i 0 1).setPhase i _ (by simp [postPhase]) ?_
    intro hn; rw [signTx_ready, hr] at hn; cases hn

theorem csLoop_ready (st : St) (i : Nat) : (csLoop st i).acct.ready = st.acct.ready := by
  unfold Lumina.Model.TxSeq.csLoop signAndBroadcast
  simp only []
  split <;> simp [Lumina.Model.TxSeq.setPhase, Lumina.Model.TxSeq.setSub, signTx_ready]

theorem finish_ready (st : St) (i : Nat) (r : Res) : (finish st i r).acct.ready = st.acct.ready := rfl

theorem X.releaseLock {b} (fuel : Nat) {st : St} (h : X b st) (hr : st.acct.ready = true) :
    X b (releaseLock fuel st) ∧ (releaseLock fuel st).acct.ready = true := by
  induction fuel generalizing st with
  | zero => exact ⟨h.congr rfl rfl rfl rfl, hr⟩
  | succ fuel ih =>
    unfold Lumina.Model.TxSeq.releaseLock
    split
    · exact ⟨h.congr rfl rfl rfl rfl, hr⟩
    · rename_i j q hq
      simp only []
      have h0 : X b { st with lockHeld := some j, lockQ := q } := h.congr rfl rfl rfl rfl
      split
      · rename_i c hc
        have hacc : (getSub { st with lockHeld := some j, lockQ := q } j).acc ≠ none :=
          h0.post j (by rw [hc]; rfl)
        have h1 : X b { st with lockHeld := some j, lockQ := q, seq := (getSub { st with lockHeld := some j, lockQ := q } j).accSeq } := h0.congr rfl rfl rfl rfl
        exact ih (h1.finish j (.rejected c) (fun c' _ => ⟨hacc, hr⟩)) hr
      · exact ⟨h0.csLoop hr j, by rw [csLoop_ready]; exact hr⟩

theorem X.release {b st : St} (h : X b st) (hr : st.acct.ready = true) : X b (release st) :=
  (h.releaseLock _ hr).1

theorem X.failCS {b st : St} (h : X b st) (hr : st.acct.ready = true) (i : Nat) (r : Res)
    (hrj : ∀ c, r ≠ .rejected c) : X b (failCS st i r) :=
  (h.finish i r (fun c hc => absurd hc (hrj c))).release hr

theorem X.enterLock {b st : St} (h : X b st) (hr : st.acct.ready = true) (i : Nat) :
    X b (enterLock st i) ∧ (enterLock st i).acct.ready = true := by
  unfold Lumina.Model.TxSeq.enterLock
  split
  · exact ⟨(h.congr (st' := { st with lockHeld := some i }) rfl rfl rfl rfl).csLoop hr i, by rw [csLoop_ready]; exact hr⟩
  · exact ⟨(h.congr (st' := { st with lockQ := st.lockQ ++ [i] }) rfl rfl rfl rfl).setPhase i _ (by simp [postPhase])
      (fun hn => by rw [show ({ st with lockQ := st.lockQ ++ [i] } : St).acct.ready = st.acct.ready from rfl, hr] at hn; cases hn), hr⟩

theorem enterLock_ready (st : St) (i : Nat) : (enterLock st i).acct.ready = st.acct.ready := by
  unfold Lumina.Model.TxSeq.enterLock
  split
  · rw [csLoop_ready]
  · rfl

theorem X.enterAcct {b st : St} (h : X b st) (i : Nat) : X b (enterAcct st i) ∧ (enterAcct st i).acct.ready = st.acct.ready := by
  unfold Lumina.Model.TxSeq.enterAcct
  split
  · rename_i hr
    exact ⟨(h.enterLock hr i).1, enterLock_ready st i⟩
  · split
    · exact ⟨(h.congr (st' := { st with acct := { st.acct with waiters := st.acct.waiters ++ [i] } }) rfl rfl rfl rfl).setPhase
        i _ (by simp [postPhase]) (fun _ => rfl), rfl⟩
    · exact ⟨(h.congr (st' := { st with acct := { st.acct with busy := true } }) rfl rfl rfl rfl).setPhase
        i _ (by simp [postPhase]) (fun _ => rfl), rfl⟩

theorem X.enterChain {b st : St} (h : X b st) (i : Nat) : X b (enterChain st i) := by
  unfold Lumina.Model.TxSeq.enterChain
  split
  · exact (h.enterAcct i).1
  · split
    · exact (h.congr (st' := { st with chain := { st.chain with waiters := st.chain.waiters ++ [i] } }) rfl rfl rfl rfl).setPhase
        i _ (by simp [postPhase]) (fun _ => rfl)
    · exact (h.congr (st' := { st with chain := { st.chain with busy := true } }) rfl rfl rfl rfl).setPhase
        i _ (by simp [postPhase]) (fun _ => rfl)

theorem X.foldAcct {b} (ws : List Nat) {st : St} (h : X b st) : X b (ws.foldl Lumina.Model.TxSeq.enterAcct st) := by
  induction ws generalizing st with
  | nil => exact h
  | cons w ws ih => exact ih (h.enterAcct w).1

theorem X.foldLock {b} (ws : List Nat) {st : St} (h : X b st) (hr : st.acct.ready = true) :
    X b (ws.foldl Lumina.Model.TxSeq.enterLock st) := by
  induction ws generalizing st with
  | nil => exact h
  | cons w ws ih => exact ih (h.enterLock hr w).1 (h.enterLock hr w).2

/-! ## one step: the facts the bookkeeping needs -/

/-- what holds of every reachable state between steps -/
structure Y (st : St) : Prop where
  keys : (st.subs.map Prod.fst).Nodup
  post : ∀ j, postPhase (getSub st j).phase = true → (getSub st j).acc ≠ none
  early : st.acct.ready = false → ∀ j, earlyPhase (getSub st j).phase = true ∧ (getSub st j).acc = none

theorem X.init {st : St} (hy : Y st) (he : st.events = []) : X st st :=
  ⟨hy.keys, hy.post, hy.early, fun _ e hm => (by rw [he] at hm; cases hm), rfl, ⟨[], by simp⟩,
   fun i k tx hm => (by rw [he] at hm; cases hm), fun _ => ⟨rfl, fun _ => rfl⟩,
   fun j c hm => (by rw [he] at hm; cases hm)⟩

theorem X.toY {b st : St} (h : X b st) : Y st := ⟨h.keys, h.post, h.early⟩

theorem Y.ready {st : St} (hy : Y st) {i : Nat} (h : earlyPhase (getSub st i).phase = false) : st.acct.ready = true := by
  cases hr : st.acct.ready with
  | true => rfl
  | false => rw [(hy.early hr i).1] at h; cases h

/-- the transaction whose broadcast this input accepts for submission `j` (success or mempool-cache hit inside the
    critical section), if any -/
def accNow (st : St) (op : Op) (j : Nat) : Option Nat :=
  match op with
  | .ans i a =>
    if i = j then
      match (getSub st i).phase, a with
      | .reqB k, .ok => some k
      | .reqB k, .cache => some k
      | _, _ => none
    else none
  | _ => none

/-- this input is the answer of the account query with the account's sequence -/
def gok (st : St) (op : Op) : Bool :=
  match op with
  | .ans i (.okSeq _) => decide ((getSub st i).phase = .reqG)
  | _ => false

structure StepFacts (st : St) (op : Op) (st' : St) : Prop where
  y : Y st'
  nosign : st'.acct.ready = false → ∀ e ∈ st'.events, plainFin e = true
  rdy : st'.acct.ready = (st.acct.ready || gok st op)
  txs : ∃ ext, st'.txs = st.txs ++ ext
  sgn : ∀ i k tx, Event.sign i k tx ∈ st'.events → st'.txs[k]? = some tx
  acc : ∀ j, (getSub st' j).acc = match accNow st op j with
    | some k => some k
    | none => (getSub st j).acc
  accSeq : ∀ j, match accNow st op j with
    | some k => (getSub st' j).accSeq = (st.txs.getD k ⟨0, 0, 0, 0⟩).seq
    | none => (getSub st j).acc ≠ none → (getSub st' j).accSeq = (getSub st j).accSeq
  rej : ∀ j c, Event.finished j (.rejected c) ∈ st'.events → (getSub st' j).acc ≠ none

/-- nothing is accepted and the account does not become known in this step -/
theorem StepFacts.plain {st : St} {op : Op} {st' : St} (hx : X st st') (hacc : ∀ j, accNow st op j = none)
    (hg : gok st op = false) : StepFacts st op st' := by
  refine ⟨hx.toY, hx.nosign, by rw [hx.rdy, hg]; simp, hx.txs, hx.sgn, ?_, ?_, hx.rej⟩
  · intro j; rw [hacc j]; exact (hx.accfr j).1
  · intro j; rw [hacc j]; exact (hx.accfr j).2

theorem x_ansL {st : St} (hx : X st st) (i : Nat) (a : Ans) : X st (ansL st i a) := by
  unfold ansL
  split
  · exact X.foldAcct _ ((hx.congr (st' := { st with chain := { ready := true, busy := false, waiters := [] } })
      rfl rfl rfl rfl).enterAcct i).1
  · simp only []
    have hf := hx.finish i .tonic (fun c hc => by cases hc)
    split
    · exact hf.congr rfl rfl rfl rfl
    · rename_i w ws hw
      exact (hf.congr (st' := { Lumina.Model.TxSeq.finish st i .tonic with chain := { (Lumina.Model.TxSeq.finish st i .tonic).chain with waiters := ws } }) rfl rfl rfl rfl).setPhase w .reqL
        (by simp [postPhase]) (fun _ => rfl)

theorem x_ansG_fail {st : St} (hx : X st st) (i : Nat) :
    X st (let st := Lumina.Model.TxSeq.finish st i .tonic
      match st.acct.waiters with
      | [] => { st with acct := { st.acct with busy := false } }
      | w :: ws => Lumina.Model.TxSeq.setPhase { st with acct := { st.acct with waiters := ws } } w .reqG) := by
  simp only []
  have hf := hx.finish i .tonic (fun c hc => by cases hc)
  split
  · exact hf.congr rfl rfl rfl rfl
  · rename_i w ws hw
    exact (hf.congr (st' := { Lumina.Model.TxSeq.finish st i .tonic with acct := { (Lumina.Model.TxSeq.finish st i .tonic).acct with waiters := ws } }) rfl rfl rfl rfl).setPhase w .reqG
      (by simp [postPhase]) (fun _ => rfl)

/-- the base state of an accepted broadcast: the sequence advanced, the submission in the confirmation phase with its
    accepted transaction recorded; the mutex is then released -/
def acceptBase (st : St) (i k : Nat) : St :=
  let st1 : St := { st with seq := st.seq + 1 }
  Lumina.Model.TxSeq.setSub st1 i { getSub st1 i with phase := .reqT, acc := some k, accSeq := (st1.txs.getD k ⟨0, 0, 0, 0⟩).seq }

theorem accept_eq (st : St) (i k : Nat) : accept st i k = release (acceptBase st i k) := rfl

theorem facts_accept {st : St} (hy : Y st) (he : st.events = []) (i k : Nat) (a : Ans)
    (hp : (getSub st i).phase = .reqB k) (ha : a = .ok ∨ a = .cache) :
    StepFacts st (.ans i a) (accept st i k) := by
  have hr : st.acct.ready = true := hy.ready (i := i) (by rw [hp]; rfl)
  have hb : X (acceptBase st i k) (acceptBase st i k) := by
    apply X.init
    · refine ⟨(nodup_setSubL _ i _ hy.keys).1, ?_, ?_⟩
      · intro j
        unfold acceptBase
        rw [getSub_setSub]
        split
        · intro _; simp
        · exact hy.post j
      · intro hn
        have : (acceptBase st i k).acct.ready = st.acct.ready := rfl
        rw [this, hr] at hn; cases hn
    · exact he
  have hx := hb.release (show (acceptBase st i k).acct.ready = true from hr)
  rw [accept_eq]
  have hnow : ∀ j, accNow st (.ans i a) j = if i = j then some k else none := by
    intro j
    rcases ha with rfl | rfl <;> simp [accNow, hp]
  have hsub : ∀ j, getSub (acceptBase st i k) j = if j = i then
      { getSub st i with phase := .reqT, acc := some k, accSeq := (st.txs.getD k ⟨0, 0, 0, 0⟩).seq } else getSub st j := by
    intro j
    unfold acceptBase
    rw [getSub_setSub]
    rfl
  refine ⟨hx.toY, hx.nosign, ?_, hx.txs, hx.sgn, ?_, ?_, hx.rej⟩
  · rw [hx.rdy]
    have : gok st (.ans i a) = false := by rcases ha with rfl | rfl <;> rfl
    rw [this]; simp; rfl
  · intro j
    rw [(hx.accfr j).1, hsub j, hnow j]
    by_cases e : i = j
    · subst e; simp
    · have e' : ¬ j = i := fun h => e h.symm
      simp [e, e']
  · intro j
    rw [hnow j]
    by_cases e : i = j
    · subst e
      simp only [↓reduceIte]
      rw [(hx.accfr i).2 (by rw [hsub i]; simp), hsub i]
      simp
    · have e' : ¬ j = i := fun h => e h.symm
      simp only [e, ↓reduceIte]
      intro hne
      rw [(hx.accfr j).2 (by rw [hsub j]; simpa [e'] using hne), hsub j]
      simp [e']

theorem gok_false {st : St} {i : Nat} {a : Ans} (h : (getSub st i).phase ≠ .reqG) : gok st (.ans i a) = false := by
  cases a <;> simp [gok, h]

theorem accNow_none_of_phase {st : St} {i : Nat} {a : Ans} (h : ∀ k, (getSub st i).phase ≠ .reqB k) (j : Nat) :
    accNow st (.ans i a) j = none := by
  simp only [accNow]
  split
  · cases hp : (getSub st i).phase <;> cases a <;> simp_all
  · rfl

theorem accNow_none_of_ans {st : St} {i : Nat} {a : Ans} (h1 : a ≠ .ok) (h2 : a ≠ .cache) (j : Nat) :
    accNow st (.ans i a) j = none := by
  simp only [accNow]
  split
  · cases hp : (getSub st i).phase <;> cases a <;> simp_all
  · rfl

theorem facts_answer (st : St) (i : Nat) (a : Ans) (hy : Y st) (he : st.events = []) :
    StepFacts st (.ans i a) (answer st i a) := by
  have h0 := X.init hy he
  have hnone : ∀ {p : Phase}, (getSub st i).phase = p → (∀ k, p ≠ .reqB k) → ∀ j, accNow st (.ans i a) j = none := by
    intro p hp hk j
    exact accNow_none_of_phase (fun k => by rw [hp]; exact hk k) j
  have hgok : ∀ {p : Phase}, (getSub st i).phase = p → p ≠ .reqG → gok st (.ans i a) = false := by
    intro p hp hne
    exact gok_false (by rw [hp]; exact hne)
  unfold answer
  cases hp : (getSub st i).phase with
  | reqL => exact StepFacts.plain (x_ansL h0 i a) (hnone hp (by simp)) (hgok hp (by simp))
  | reqG =>
    simp only []
    unfold ansG
    cases a with
    | okSeq n =>
      simp only []
      have hb : X { st with seq := n, acct := { ready := true, busy := false, waiters := [] } }
          { st with seq := n, acct := { ready := true, busy := false, waiters := [] } } :=
        X.init ⟨hy.keys, hy.post, fun hn => by cases hn⟩ he
      have h1 := hb.enterLock rfl i
      have hx := X.foldLock st.acct.waiters h1.1 h1.2
      refine ⟨hx.toY, hx.nosign, ?_, hx.txs, hx.sgn, ?_, ?_, hx.rej⟩
      · rw [hx.rdy]; simp [gok, hp]
      · intro j; rw [hnone hp (by simp) j]; exact (hx.accfr j).1
      · intro j; rw [hnone hp (by simp) j]; exact (hx.accfr j).2
    | _ => exact StepFacts.plain (x_ansG_fail h0 i) (hnone hp (by simp)) (by simp [gok])
  | reqP =>
    have hr : st.acct.ready = true := hy.ready (i := i) (by rw [hp]; rfl)
    simp only []
    unfold ansP
    cases a <;> first
      | exact StepFacts.plain (h0.sab hr i _ _) (hnone hp (by simp)) (hgok hp (by simp))
      | exact StepFacts.plain (h0.failCS hr i _ (by simp)) (hnone hp (by simp)) (hgok hp (by simp))
  | reqE k =>
    have hr : st.acct.ready = true := hy.ready (i := i) (by rw [hp]; rfl)
    simp only []
    unfold ansE
    cases a with
    | okEst q u => exact StepFacts.plain (h0.sab hr i _ _) (hnone hp (by simp)) (hgok hp (by simp))
    | mis n =>
      exact StepFacts.plain ((h0.congr (st' := { st with seq := n }) rfl rfl rfl rfl).csLoop hr i)
        (hnone hp (by simp)) (hgok hp (by simp))
    | _ => exact StepFacts.plain (h0.failCS hr i _ (by simp)) (hnone hp (by simp)) (hgok hp (by simp))
  | reqB k =>
    have hr : st.acct.ready = true := hy.ready (i := i) (by rw [hp]; rfl)
    have hn' : ∀ (a' : Ans), a' ≠ .ok → a' ≠ .cache → ∀ j, accNow st (.ans i a') j = none :=
      fun a' h1 h2 j => accNow_none_of_ans h1 h2 j
    simp only []
    unfold ansB
    cases a with
    | ok => exact facts_accept hy he i k .ok hp (Or.inl rfl)
    | cache => exact facts_accept hy he i k .cache hp (Or.inr rfl)
    | mis n =>
      exact StepFacts.plain ((h0.congr (st' := { st with seq := n }) rfl rfl rfl rfl).csLoop hr i)
        (hn' _ (by simp) (by simp)) (hgok hp (by simp))
    | _ => exact StepFacts.plain (h0.failCS hr i _ (by simp)) (hn' _ (by simp) (by simp)) (hgok hp (by simp))
  | reqT =>
    have hr : st.acct.ready = true := hy.ready (i := i) (by rw [hp]; rfl)
    have hacc : (getSub st i).acc ≠ none := hy.post i (by rw [hp]; rfl)
    simp only []
    unfold ansT
    cases a with
    | pending => exact StepFacts.plain h0 (hnone hp (by simp)) (hgok hp (by simp))
    | committed c h =>
      exact StepFacts.plain (h0.finish i _ (by intro c' hc; split at hc <;> cases hc)) (hnone hp (by simp))
        (hgok hp (by simp))
    | rejected c =>
      simp only []
      split
      · exact StepFacts.plain (h0.finish i _ (fun _ _ => ⟨hacc, hr⟩)) (hnone hp (by simp)) (hgok hp (by simp))
      · split
        · exact StepFacts.plain ((h0.congr (st' := { st with seq := (getSub st i).accSeq }) rfl rfl rfl rfl).finish i _
            (fun _ _ => ⟨hacc, hr⟩)) (hnone hp (by simp)) (hgok hp (by simp))
        · exact StepFacts.plain ((h0.congr (st' := { st with lockQ := st.lockQ ++ [i] }) rfl rfl rfl rfl).setPhase i _
            (fun _ => hacc) (fun hn => by rw [show ({ st with lockQ := st.lockQ ++ [i] } : St).acct.ready = st.acct.ready from rfl, hr] at hn; cases hn))
            (hnone hp (by simp)) (hgok hp (by simp))
    | evicted =>
      exact StepFacts.plain (h0.setPhase i _ (fun _ => hacc) (fun hn => by rw [hr] at hn; cases hn))
        (hnone hp (by simp)) (hgok hp (by simp))
    | unknown =>
      exact StepFacts.plain (h0.setPhase i _ (fun _ => hacc) (fun hn => by rw [hr] at hn; cases hn))
        (hnone hp (by simp)) (hgok hp (by simp))
    | _ => exact StepFacts.plain (h0.finish i _ (by intro c' hc; cases hc)) (hnone hp (by simp)) (hgok hp (by simp))
  | reqRB nf =>
    have hr : st.acct.ready = true := hy.ready (i := i) (by rw [hp]; rfl)
    have hacc : (getSub st i).acc ≠ none := hy.post i (by rw [hp]; rfl)
    simp only []
    unfold ansRB
    cases a <;> first
      | exact StepFacts.plain (h0.setPhase i _ (fun _ => hacc) (fun hn => by rw [hr] at hn; cases hn))
          (hnone hp (by simp)) (hgok hp (by simp))
      | exact StepFacts.plain (h0.finish i _ (by intro c' hc; split at hc <;> cases hc)) (hnone hp (by simp))
          (hgok hp (by simp))
  | _ => exact StepFacts.plain h0 (hnone hp (by simp)) (hgok hp (by simp))

theorem facts_step (st : St) (op : Op) (hy : Y st) (hwf : WF st) : StepFacts st op (step st op) := by
  have hy0 : Y { st with events := [] } := ⟨hy.keys, hy.post, hy.early⟩
  cases op with
  | ans i a =>
    have h := facts_answer { st with events := [] } i a hy0 rfl
    exact ⟨h.y, h.nosign, h.rdy, h.txs, h.sgn, h.acc, h.accSeq, h.rej⟩
  | start i gl gp =>
    simp only [step]
    split
    · rename_i hidle
      have hidle' : (getSub st i).phase = .idle := hidle
      have hacci : (getSub st i).acc = none := hwf.an i (by rw [hidle']; rfl)
      have hsub : ∀ j, getSub (Lumina.Model.TxSeq.setSub { st with events := [] } i { gl := gl, gp := gp }) j =
          if j = i then { gl := gl, gp := gp } else getSub st j := by
        intro j; rw [getSub_setSub]; rfl
      have hb : X (Lumina.Model.TxSeq.setSub { st with events := [] } i { gl := gl, gp := gp })
          (Lumina.Model.TxSeq.setSub { st with events := [] } i { gl := gl, gp := gp }) := by
        apply X.init
        · refine ⟨(nodup_setSubL _ i _ hy.keys).1, ?_, ?_⟩
          · intro j
            rw [hsub]
            split
            · intro h; cases h
            · exact hy.post j
          · intro hn j
            rw [hsub]
            split
            · exact ⟨rfl, rfl⟩
            · exact hy.early hn j
        · rfl
      have hx := hb.enterChain i
      refine ⟨hx.toY, hx.nosign, ?_, hx.txs, hx.sgn, ?_, ?_, hx.rej⟩
      · rw [hx.rdy]; simp [gok]; rfl
      · intro j
        simp only [accNow]
        rw [(hx.accfr j).1, hsub]
        split
        · rename_i e; subst e; exact hacci.symm
        · rfl
      · intro j
        simp only [accNow]
        intro hne
        have hji : j ≠ i := by intro e; subst e; exact hne hacci
        rw [(hx.accfr j).2 (by rw [hsub]; simpa [hji] using hne), hsub]
        simp [hji]
    · have h : StepFacts { st with events := [] } (.start i gl gp) { st with events := [] } :=
        StepFacts.plain (X.init hy0 rfl) (fun _ => rfl) rfl
      exact ⟨h.y, h.nosign, h.rdy, h.txs, h.sgn, h.acc, h.accSeq, h.rej⟩

/-- **no signature for a submission whose broadcast has been accepted** — at the end of every step, every submission
    that signed during the step has no accepted transaction -/
theorem sign_acc_none (st : St) (op : Op) (hy : Y st) (hwf : WF st) (j k : Nat) (tx : Tx)
    (hm : Event.sign j k tx ∈ (step st op).events) : (getSub (step st op) j).acc = none := by
  have sf := facts_step st op hy hwf
  have hbefore : (getSub st j).acc = none := (w_step hwf op).sg j k tx hm
  cases hnow : accNow st op j with
  | none =>
    have := sf.acc j
    rw [hnow] at this
    rw [this]; exact hbefore
  | some k0 =>
    exfalso
    -- the accepting answer: `j`'s record moves to the confirmation phase and the mutex is released
    cases op with
    | start i gl gp => simp [accNow] at hnow
    | ans i a =>
      simp only [accNow] at hnow
      split at hnow
      · rename_i e
        subst e
        cases hp : (getSub st i).phase with
        | reqB kk =>
          have ha : a = .ok ∨ a = .cache := by
            rw [hp] at hnow
            cases a <;> simp at hnow <;> simp
          have hstep : step st (.ans i a) = accept { st with events := [] } i kk := by
            have hp0 : (getSub { st with events := [] } i).phase = .reqB kk := hp
            rcases ha with rfl | rfl <;> simp only [step, answer, hp0, ansB]
          rw [hstep] at hm
          -- well-formedness of the base state, with "has no accepted transaction" as the signer predicate
          have hp0 : (getSub { st with events := [] } i).phase = .reqB kk := hp
          have h0 : W (fun _ => True) { st with events := [] } [] [] :=
            ⟨hwf.lq, hwf.cq, hwf.aq, hwf.an, fun _ _ _ hm => by simp at hm, fun _ _ => trivial⟩
          obtain ⟨f1, f2, f3⟩ := h0.freeOf i (by rw [hp0]; rfl) (by rw [hp0]; simp) (by rw [hp0]; simp)
          have hbW : W (fun _ => True) (acceptBase { st with events := [] } i kk) [] [] := by
            apply h0.retarget i _ _ [] [] rfl
            · intro _ _; rfl
            · simpa [acceptBase, Lumina.Model.TxSeq.setSub, waitingLock] using f1
            · intro _ _; rfl
            · simpa [acceptBase, Lumina.Model.TxSeq.setSub] using f2
            · intro _ _; rfl
            · simpa [acceptBase, Lumina.Model.TxSeq.setSub] using f3
            · intro hpre; simp [preAccept] at hpre
            · intro _; trivial
            · intro j k' tx hm; exact Or.inl hm
          have hbW' : W (fun j => (getSub (acceptBase { st with events := [] } i kk) j).acc = none)
              (acceptBase { st with events := [] } i kk) [] [] :=
            ⟨hbW.lq, hbW.cq, hbW.aq, hbW.an, fun _ _ _ hm => by simp [acceptBase, Lumina.Model.TxSeq.setSub] at hm,
              fun _ h => h⟩
          have := (hbW'.rel).sg i k tx (by rw [← accept_eq]; exact hm)
          simp [acceptBase] at this
        | _ => rw [hp] at hnow; cases a <;> simp at hnow
      · cases hnow

/-! ## the ledger along one step -/

/-- the last signature made for submission `j` among the events: transaction id and content -/
def lastSignE (j : Nat) : List Event → Option (Nat × Tx)
  | [] => none
  | .sign i k tx :: r =>
    match lastSignE j r with
    | some x => some x
    | none => if i = j then some (k, tx) else none
  | .finished _ _ :: r => lastSignE j r

theorem lastSign_eq (j : Nat) (es : List Event) : lastSign j es = (lastSignE j es).map Prod.fst := by
  induction es with
  | nil => rfl
  | cons e es ih =>
    cases e with
    | sign i k tx =>
      simp only [lastSign, lastSignE, ih]
      cases lastSignE j es with
      | some x => rfl
      | none => by_cases h : i = j <;> simp [h]
    | finished i r => simpa [lastSign, lastSignE] using ih

theorem lastSignE_mem (j : Nat) : ∀ (es : List Event) (k : Nat) (tx : Tx), lastSignE j es = some (k, tx) →
    Event.sign j k tx ∈ es
  | [], _, _, h => by simp [lastSignE] at h
  | .sign i k' tx' :: r, k, tx, h => by
    simp only [lastSignE] at h
    cases hr : lastSignE j r with
    | some x =>
      rw [hr] at h
      simp only [Option.some.injEq] at h
      subst h
      exact List.mem_cons_of_mem _ (lastSignE_mem j r k tx hr)
    | none =>
      rw [hr] at h
      by_cases e : i = j
      · subst e
        simp only [↓reduceIte, Option.some.injEq, Prod.mk.injEq] at h
        obtain ⟨rfl, rfl⟩ := h
        simp
      · simp [e] at h
  | .finished _ _ :: r, k, tx, h => by
    simp only [lastSignE] at h
    exact List.mem_cons_of_mem _ (lastSignE_mem j r k tx h)

/-- what processing a step's events does to the ledger's tables -/
theorem events_frame : ∀ (es : List Event) (l l' : Ledger), events l (es.map oev) = .ok l' →
    l'.prev = l.prev ∧ l'.accepted = l.accepted ∧
    ∀ j, l'.lastSigned.lookup j = match lastSignE j es with
      | some (k, tx) => some ⟨j, tx.seq, tx.gas, tx.fee, k⟩
      | none => l.lastSigned.lookup j
  | [], l, l', h => by
    simp only [List.map_nil, events, Except.ok.injEq] at h
    subst h
    exact ⟨rfl, rfl, fun j => rfl⟩
  | .sign i k tx :: r, l, l', h => by
    simp only [List.map_cons, oev, events, event] at h
    split at h
    · cases h
    · rename_i l1 hev
      split at hev
      · cases hev
      · split at hev
        · cases hev
        · simp only [Except.ok.injEq] at hev
          subst hev
          obtain ⟨h1, h2, h3⟩ := events_frame r _ l' h
          refine ⟨h1, h2, fun j => ?_⟩
          rw [h3 j]
          simp only [lastSignE]
          cases lastSignE j r with
          | some x => rfl
          | none =>
            simp only [lookup_put]
            by_cases e : i = j
            · subst e; simp
            · have e' : ¬ j = i := fun h => e h.symm
              simp [e, e']
  | .finished i res :: r, l, l', h => by
    simp only [List.map_cons, oev, events] at h
    split at h
    · cases h
    · rename_i l1 hev
      have hl1 : l1.prev = l.prev ∧ l1.accepted = l.accepted ∧ l1.lastSigned = l.lastSigned := by
        cases res with
        | rejected c =>
          simp only [event] at hev
          split at hev
          · simp only [Except.ok.injEq] at hev
            subst hev
            split <;> exact ⟨rfl, rfl, rfl⟩
          · simp only [Except.ok.injEq] at hev; subst hev; exact ⟨rfl, rfl, rfl⟩
        | _ => simp only [event, Except.ok.injEq] at hev; subst hev; exact ⟨rfl, rfl, rfl⟩
      obtain ⟨h1, h2, h3⟩ := events_frame r l1 l' h
      refine ⟨h1.trans hl1.1, h2.trans hl1.2.1, fun j => ?_⟩
      rw [h3 j, hl1.2.2]
      rfl

/-- events that are neither signatures nor rejections leave the ledger alone -/
theorem events_plain : ∀ (es : List Event) (l : Ledger), (∀ e ∈ es, plainFin e = true) → events l (es.map oev) = .ok l
  | [], _, _ => rfl
  | e :: r, l, h => by
    have he := h e (by simp)
    have ih := events_plain r l (fun e' h' => h e' (List.mem_cons_of_mem _ h'))
    cases e with
    | sign i k tx => cases he
    | finished i res =>
      cases res with
      | rejected c => cases he
      | _ => simpa [oev, events, event] using ih

/-- the ledger after the answer rule -/
def afterAnswer (l : Ledger) : Option (Nat × OAns) → Ledger
  | some (i, a) => direct l i a
  | none => l

/-- the check "an evicted transaction is re-broadcast: the very next request is that broadcast" -/
def evictedOK (l l2 : Ledger) (states : List (Nat × OPend)) : Option (Nat × OAns) → Bool
  | some (i, .evicted) =>
    (match l.prev.lookup i, l2.accepted.lookup i with
     | some (.T _), some tx => states.lookup i == some (.B tx.id)
     | _, _ => true)
  | _ => true

theorem ledgerStep_eq (l : Ledger) (answered : Option (Nat × OAns)) (line : OLine) :
    ledgerStep l answered line =
      match events (afterAnswer l answered) line.events with
      | .error s => .error s
      | .ok l2 =>
        match pends l2 line.states with
        | .error s => .error s
        | .ok () =>
          if evictedOK l l2 line.states answered then .ok { l2 with prev := line.states }
          else .error "C43/evicted-not-rebroadcast" := by
  unfold ledgerStep afterAnswer evictedOK
  rfl

theorem ledgerStep_ok {l l2 : Ledger} {answered : Option (Nat × OAns)} {line : OLine}
    (h2 : events (afterAnswer l answered) line.events = .ok l2) (h3 : pends l2 line.states = .ok ())
    (h4 : evictedOK l l2 line.states answered = true) :
    ledgerStep l answered line = .ok { l2 with prev := line.states } := by
  rw [ledgerStep_eq]
  simp only [h2, h3, h4, ↓reduceIte]


/-! ## the bookkeeping relation -/

/-- the ledger's maps against the model state -/
structure Rel (l : Ledger) (st : St) : Prop where
  /-- the believed sequence is the client's, and is unknown exactly as long as the account is -/
  bel : l.believed = if st.acct.ready then some st.seq else none
  prev : l.prev = oStates st
  /-- `accepted` = the submissions with an accepted transaction, with its id and signed sequence -/
  acc : ∀ j, match (getSub st j).acc with
    | some k => ∃ tx, l.accepted.lookup j = some tx ∧ tx.id = k ∧ tx.seq = (getSub st j).accSeq
    | none => l.accepted.lookup j = none
  /-- `lastSigned` of a submission whose broadcast / simulation is pending is that transaction -/
  ls : ∀ j k, isTxReq (getSub st j).phase k →
    ∃ otx tx, l.lastSigned.lookup j = some otx ∧ otx.id = k ∧ st.txs[k]? = some tx ∧ otx.seq = tx.seq

theorem rel_init : Rel {} {} :=
  ⟨rfl, rfl, fun j => by simp [getSub, List.lookup], fun j k h => by
    rcases h with h | h <;> simp [getSub, List.lookup] at h⟩

/-- the ledger after the answer rule (`direct`), against the state after the step -/
structure StepA (l1 l : Ledger) (st : St) (op : Op) (st' : St) : Prop where
  bel : l1.believed = if st'.acct.ready then some (believedAfter st op) else none
  ls : l1.lastSigned = l.lastSigned
  prev : l1.prev = l.prev
  acc : ∀ j, match (getSub st' j).acc with
    | some k => ∃ tx, l1.accepted.lookup j = some tx ∧ tx.id = k ∧ tx.seq = (getSub st' j).accSeq
    | none => l1.accepted.lookup j = none

theorem acc_same {l1 l : Ledger} {st : St} {op : Op} {st' : St} (hr : Rel l st) (sf : StepFacts st op st')
    (hacc : ∀ j, accNow st op j = none) (hl : l1.accepted = l.accepted) :
    ∀ j, match (getSub st' j).acc with
      | some k => ∃ tx, l1.accepted.lookup j = some tx ∧ tx.id = k ∧ tx.seq = (getSub st' j).accSeq
      | none => l1.accepted.lookup j = none := by
  intro j
  have h1 := sf.acc j
  have h2 := sf.accSeq j
  rw [hacc j] at h1 h2
  simp only at h1 h2
  have h3 := hr.acc j
  rw [h1, hl]
  cases hc : (getSub st j).acc with
  | none => rw [hc] at h3; exact h3
  | some k =>
    rw [hc] at h3
    obtain ⟨tx, e1, e2, e3⟩ := h3
    exact ⟨tx, e1, e2, by rw [h2 (by rw [hc]; simp)]; exact e3⟩

theorem stepA_same {l : Ledger} {st : St} {op : Op} {st' : St} (hr : Rel l st) (sf : StepFacts st op st')
    (hb : believedAfter st op = st.seq) (hg : gok st op = false) (hacc : ∀ j, accNow st op j = none) :
    StepA l l st op st' := by
  refine ⟨?_, rfl, rfl, acc_same hr sf hacc rfl⟩
  rw [sf.rdy, hg, hb, hr.bel]; simp

theorem stepA_of_eq {l1 l : Ledger} {st : St} {op : Op} {st' : St} (h : l1 = l) (hr : Rel l st) (sf : StepFacts st op st')
    (hb : believedAfter st op = st.seq) (hg : gok st op = false) (hacc : ∀ j, accNow st op j = none) :
    StepA l1 l st op st' := by subst h; exact stepA_same hr sf hb hg hacc

/-- **the ledger classifies every answer the way the client does** -/
theorem stepA {l : Ledger} {st : St} (hr : Rel l st) (hy : Y st) (hwf : WF st) (op : Op) {st' : St}
    (sf : StepFacts st op st') :
    StepA (afterAnswer l (oAnswered op)) l st op st' := by
  cases op with
  | start i gl gp => exact stepA_same hr sf rfl rfl (fun _ => rfl)
  | ans i a =>
    simp only [oAnswered, afterAnswer]
    have hprev : l.prev.lookup i = oPend (getSub st i) := by rw [hr.prev]; exact lookup_oStates st hy.keys i
    cases hp : (getSub st i).phase with
    | reqG =>
      have hpv : l.prev.lookup i = some .G := by rw [hprev]; simp [oPend, hp]
      cases a with
      | okSeq n =>
        have hd : direct l i (oAns (.okSeq n)) = { l with believed := some n } := by simp [direct, hpv, oAns]
        rw [hd]
        refine ⟨?_, rfl, rfl, acc_same hr sf (accNow_none_of_phase (by rw [hp]; simp)) rfl⟩
        rw [sf.rdy]
        simp [gok, hp, believedAfter]
      | _ =>
        exact stepA_of_eq (by simp [direct, hpv, oAns]) hr sf (by simp [believedAfter, hp]) (by simp [gok])
          (accNow_none_of_phase (by rw [hp]; simp))
    | reqB k =>
      have hpv : l.prev.lookup i = some (.B k) := by rw [hprev]; simp [oPend, hp]
      have hrdy : st.acct.ready = true := hy.ready (i := i) (by rw [hp]; rfl)
      have hacci : (getSub st i).acc = none := hwf.an i (by rw [hp]; rfl)
      have hlk : l.accepted.lookup i = none := by have := hr.acc i; rw [hacci] at this; exact this
      have hbel : l.believed = some st.seq := by rw [hr.bel, hrdy]; rfl
      have hg : gok st (.ans i a) = false := gok_false (by rw [hp]; simp)
      obtain ⟨otx, tx, hls, hid, htx, hseq⟩ := hr.ls i k (Or.inl hp)
      have accept_case : ∀ a', (a' = Ans.ok ∨ a' = Ans.cache) → ∀ st'', StepFacts st (.ans i a') st'' →
          StepA { l with accepted := put l.accepted i otx, believed := l.believed.map (· + 1) } l st (.ans i a') st'' := by
        intro a' ha' st'' sf'
        have hnow : ∀ j, accNow st (.ans i a') j = if i = j then some k else none := by
          intro j
          rcases ha' with rfl | rfl <;> simp [accNow, hp]
        refine ⟨?_, rfl, rfl, ?_⟩
        · rw [sf'.rdy, gok_false (by rw [hp]; simp), hrdy, hbel]
          rcases ha' with rfl | rfl <;> simp [believedAfter, hp]
        · intro j
          have h1 := sf'.acc j
          have h2 := sf'.accSeq j
          rw [hnow j] at h1 h2
          by_cases e : i = j
          · subst e
            simp only [↓reduceIte] at h1 h2
            rw [h1]
            refine ⟨otx, by simp [lookup_put], hid, ?_⟩
            rw [h2, hseq]
            simp [List.getD, htx]
          · have e' : ¬ j = i := fun h => e h.symm
            simp only [e, ↓reduceIte] at h1 h2
            have h3 := hr.acc j
            rw [h1]
            simp only [lookup_put, e', ↓reduceIte]
            cases hc : (getSub st j).acc with
            | none => rw [hc] at h3; exact h3
            | some k' =>
              rw [hc] at h3
              obtain ⟨tx', e1, e2, e3⟩ := h3
              exact ⟨tx', e1, e2, by rw [h2 (by rw [hc]; simp)]; exact e3⟩
      cases a with
      | ok =>
        have hd : direct l i (oAns .ok) = { l with accepted := put l.accepted i otx, believed := l.believed.map (· + 1) } := by
          simp [direct, hpv, oAns, hlk, hls]
        rw [hd]; exact accept_case .ok (Or.inl rfl) st' sf
      | cache =>
        have hd : direct l i (oAns .cache) = { l with accepted := put l.accepted i otx, believed := l.believed.map (· + 1) } := by
          simp [direct, hpv, oAns, hlk, hls]
        rw [hd]; exact accept_case .cache (Or.inr rfl) st' sf
      | mis n =>
        have hd : direct l i (oAns (.mis n)) = { l with believed := some n } := by simp [direct, hpv, oAns, hlk]
        rw [hd]
        refine ⟨?_, rfl, rfl, acc_same hr sf (accNow_none_of_ans (by simp) (by simp)) rfl⟩
        rw [sf.rdy, hg, hrdy]
        simp [believedAfter, hp]
      | _ =>
        exact stepA_of_eq (by simp [direct, hpv, oAns]) hr sf (by simp [believedAfter, hp]) hg
          (accNow_none_of_ans (by simp) (by simp))
    | reqE k =>
      have hpv : l.prev.lookup i = some (.E k) := by rw [hprev]; simp [oPend, hp]
      have hrdy : st.acct.ready = true := hy.ready (i := i) (by rw [hp]; rfl)
      have hacci : (getSub st i).acc = none := hwf.an i (by rw [hp]; rfl)
      have hlk : l.accepted.lookup i = none := by have := hr.acc i; rw [hacci] at this; exact this
      have hg : gok st (.ans i a) = false := gok_false (by rw [hp]; simp)
      cases a with
      | mis n =>
        have hd : direct l i (oAns (.mis n)) = { l with believed := some n } := by simp [direct, hpv, oAns, hlk]
        rw [hd]
        refine ⟨?_, rfl, rfl, acc_same hr sf (accNow_none_of_phase (by rw [hp]; simp)) rfl⟩
        rw [sf.rdy, hg, hrdy]
        simp [believedAfter, hp]
      | _ =>
        exact stepA_of_eq (by simp [direct, hpv, oAns]) hr sf (by simp [believedAfter, hp]) hg
          (accNow_none_of_phase (by rw [hp]; simp))
    | reqRB nf =>
      have hpv : l.prev.lookup i = some (.B ((getSub st i).acc.getD 0)) := by rw [hprev]; simp [oPend, hp]
      have hacci : (getSub st i).acc ≠ none := hy.post i (by rw [hp]; rfl)
      have hlk : (l.accepted.lookup i).isSome = true := by
        have := hr.acc i
        cases hc : (getSub st i).acc with
        | none => exact absurd hc hacci
        | some k => rw [hc] at this; obtain ⟨tx, e, _⟩ := this; rw [e]; rfl
      exact stepA_of_eq (by cases a <;> simp [direct, hpv, oAns, hlk]) hr sf (by simp [believedAfter, hp])
        (gok_false (by rw [hp]; simp)) (accNow_none_of_phase (by rw [hp]; simp))
    | _ =>
      exact stepA_of_eq (by cases a <;> simp [direct, hprev, oPend, hp, oAns]) hr sf (by simp [believedAfter, hp])
        (gok_false (by rw [hp]; simp)) (accNow_none_of_phase (by rw [hp]; simp))

/-! ## one step of the ledger, every history -/

theorem evicted_rb (st : St) (i : Nat) (a : Ans) (h : (getSub st i).phase = .reqT) (ha : a = .evicted ∨ a = .unknown) :
    (∃ nf, (getSub (step st (.ans i a)) i).phase = .reqRB nf) ∧
    (getSub (step st (.ans i a)) i).acc = (getSub st i).acc := by
  have hp : (getSub { st with events := [] } i).phase = .reqT := h
  rcases ha with rfl | rfl
  · simp only [step, answer, hp, ansT]
    exact ⟨⟨false, by simp [Lumina.Model.TxSeq.setPhase]⟩, by simp [Lumina.Model.TxSeq.setPhase]; rfl⟩
  · simp only [step, answer, hp, ansT]
    exact ⟨⟨true, by simp [Lumina.Model.TxSeq.setPhase]⟩, by simp [Lumina.Model.TxSeq.setPhase]; rfl⟩

/-- **one step**: the ledger accepts the line the model prints, and the bookkeeping relation holds again -/
theorem ledger_step {l : Ledger} {st : St} (hr : Rel l st) (hy : Y st) (hwf : WF st) (hnw : NoWrong st) (op : Op) :
    ∃ l', ledgerStep l (oAnswered op) (oLine (step st op)) = .ok l' ∧ Rel l' (step st op) := by
  have sf := facts_step st op hy hwf
  have ha := stepA hr hy hwf op sf
  obtain ⟨g, hg1, hg2, _⟩ := inv_step st op hnw
  have hw := w_step hwf op
  have hpb := pb_step st op
  generalize hl1 : afterAnswer l (oAnswered op) = l1 at ha
  -- the accepted table of `l1` against the state after the step
  have hsome : ∀ j, (getSub (step st op) j).acc ≠ none → (l1.accepted.lookup j).isSome = true := by
    intro j hne
    have := ha.acc j
    cases hc : (getSub (step st op) j).acc with
    | none => exact absurd hc hne
    | some k => rw [hc] at this; obtain ⟨tx, e, _⟩ := this; rw [e]; rfl
  have hnone : ∀ j, (getSub (step st op) j).acc = none → l1.accepted.lookup j = none := by
    intro j hc
    have := ha.acc j
    rw [hc] at this; exact this
  -- the events of the step
  have hev : ∃ l2, events l1 ((step st op).events.map oev) = .ok l2 ∧
      l2.believed = (if (step st op).acct.ready then some (step st op).seq else none) := by
    cases hrd : (step st op).acct.ready with
    | true =>
      have hb : l1.believed = some (believedAfter st op) := by rw [ha.bel, hrd]; rfl
      obtain ⟨l2, e1, e2, _⟩ := spec_events_replay g _ l1 _ hb
        (by
          intro j tx hlk
          have := ha.acc j
          cases hc : (getSub (step st op) j).acc with
          | none => rw [hc] at this; rw [this] at hlk; cases hlk
          | some k =>
            rw [hc] at this
            obtain ⟨tx', e, _, e3⟩ := this
            rw [e] at hlk; injection hlk with hlk; subst hlk
            rw [e3]; exact hg1 j)
        (fun j c hm _ => hsome j (sf.rej j c hm))
        (fun j k tx hm => hnone j (sign_acc_none st op hy hwf j k tx hm))
        _ hg2
      exact ⟨l2, e1, by simp [e2]⟩
    | false =>
      exact ⟨l1, events_plain _ l1 (sf.nosign hrd), by rw [ha.bel]; simp [hrd]⟩
  obtain ⟨l2, he, hbel2⟩ := hev
  obtain ⟨f1, f2, f3⟩ := events_frame _ l1 l2 he
  -- the relation after the step
  have hrel : Rel { l2 with prev := oStates (step st op) } (step st op) := by
    refine ⟨hbel2, rfl, ?_, ?_⟩
    · intro j
      have := ha.acc j
      show match (getSub (step st op) j).acc with
        | some k => ∃ tx, l2.accepted.lookup j = some tx ∧ tx.id = k ∧ tx.seq = (getSub (step st op) j).accSeq
        | none => l2.accepted.lookup j = none
      rw [f2]; exact this
    · intro j k hreq
      show ∃ otx tx, l2.lastSigned.lookup j = some otx ∧ otx.id = k ∧ (step st op).txs[k]? = some tx ∧ otx.seq = tx.seq
      rcases hpb j k hreq with h1 | ⟨h1, h2⟩
      · rw [lastSign_eq] at h1
        cases hls : lastSignE j (step st op).events with
        | none => rw [hls] at h1; cases h1
        | some x =>
          obtain ⟨k', tx⟩ := x
          rw [hls] at h1
          simp only [Option.map_some, Option.some.injEq] at h1
          subst h1
          have hm := lastSignE_mem j _ _ _ hls
          have h3 := f3 j
          rw [hls] at h3
          exact ⟨_, tx, h3, rfl, sf.sgn j _ tx hm, rfl⟩
      · rw [lastSign_eq] at h1
        cases hls : lastSignE j (step st op).events with
        | some x => rw [hls] at h1; cases h1
        | none =>
          have h3 := f3 j
          rw [hls] at h3
          simp only at h3
          obtain ⟨otx, tx, e1, e2, e3, e4⟩ := hr.ls j k (by rw [h2]; exact hreq)
          refine ⟨otx, tx, by rw [h3, ha.ls]; exact e1, e2, ?_, e4⟩
          obtain ⟨ext, hext⟩ := sf.txs
          have hlt : k < st.txs.length := by
            rcases Nat.lt_or_ge k st.txs.length with h | h
            · exact h
            · rw [List.getElem?_eq_none h] at e3; cases e3
          rw [hext, List.getElem?_append_left hlt]; exact e3
  -- what is pending is what was signed / accepted
  have hp : pends l2 (oStates (step st op)) = .ok () := by
    apply pends_ok
    rintro ⟨j, p⟩ hx
    have hmem := mem_oStates _ sf.y.keys j p hx
    have hacc := hrel.acc j
    simp only at hacc ⊢
    cases hph : (getSub (step st op) j).phase with
    | reqB k =>
      simp only [oPend, hph, Option.some.injEq] at hmem
      subst hmem
      have hn : (getSub (step st op) j).acc = none := hw.an j (by rw [hph]; rfl)
      rw [hn] at hacc
      obtain ⟨otx, tx, e1, e2, _, _⟩ := hrel.ls j k (Or.inl hph)
      have e1' : l2.lastSigned.lookup j = some otx := e1
      have hacc' : l2.accepted.lookup j = none := hacc
      simp [pendOK, hacc', e1', e2]
    | reqE k =>
      simp only [oPend, hph, Option.some.injEq] at hmem
      subst hmem
      obtain ⟨otx, tx, e1, e2, _, _⟩ := hrel.ls j k (Or.inr hph)
      have e1' : l2.lastSigned.lookup j = some otx := e1
      simp [pendOK, e1', e2]
    | reqT =>
      simp only [oPend, hph, Option.some.injEq] at hmem
      subst hmem
      have hne := sf.y.post j (by rw [hph]; rfl)
      cases hc : (getSub (step st op) j).acc with
      | none => exact absurd hc hne
      | some k =>
        rw [hc] at hacc
        obtain ⟨tx, e1, e2, _⟩ := hacc
        have e1' : l2.accepted.lookup j = some tx := e1
        simp [pendOK, e1', e2]
    | reqRB nf =>
      simp only [oPend, hph, Option.some.injEq] at hmem
      subst hmem
      have hne := sf.y.post j (by rw [hph]; rfl)
      cases hc : (getSub (step st op) j).acc with
      | none => exact absurd hc hne
      | some k =>
        rw [hc] at hacc
        obtain ⟨tx, e1, e2, _⟩ := hacc
        have e1' : l2.accepted.lookup j = some tx := e1
        simp [pendOK, e1', e2]
    | idle => simp [oPend, hph] at hmem
    | _ =>
      simp only [oPend, hph, Option.some.injEq] at hmem
      subst hmem
      rfl
  -- an evicted transaction is re-broadcast
  have hevict : evictedOK l l2 (oLine (step st op)).states (oAnswered op) = true := by
    cases op with
    | start i gl gp => rfl
    | ans i a =>
      have hprev : l.prev.lookup i = oPend (getSub st i) := by rw [hr.prev]; exact lookup_oStates st hy.keys i
      have key : (a = .evicted ∨ a = .unknown) →
          (match l.prev.lookup i, l2.accepted.lookup i with
           | some (.T _), some tx => (oLine (step st (.ans i a))).states.lookup i == some (.B tx.id)
           | _, _ => true) = true := by
        intro hae
        cases hph : (getSub st i).phase with
        | reqT =>
          obtain ⟨⟨nf, hph'⟩, hacc'⟩ := evicted_rb st i a hph hae
          have hlook : (oLine (step st (.ans i a))).states.lookup i = some (.B ((getSub st i).acc.getD 0)) := by
            show (oStates (step st (.ans i a))).lookup i = _
            rw [lookup_oStates _ sf.y.keys i]
            simp [oPend, hph', hacc']
          have hacc := hrel.acc i
          rw [hacc'] at hacc
          cases hc : (getSub st i).acc with
          | none =>
            rw [hc] at hacc
            have hacc2 : l2.accepted.lookup i = none := hacc
            rw [hacc2]
            split <;> simp_all
          | some k =>
            rw [hc] at hacc
            obtain ⟨tx, e1, e2, _⟩ := hacc
            have e1' : l2.accepted.lookup i = some tx := e1
            rw [hprev, e1', hlook, hc]
            simp [oPend, hph, e2]
        | _ =>
          rw [hprev]
          simp only [oPend, hph]
          try (split <;> simp_all)
      cases a with
      | evicted => exact key (Or.inl rfl)
      | unknown => exact key (Or.inr rfl)
      | _ => rfl
  subst hl1
  exact ⟨_, ledgerStep_ok he hp hevict, hrel⟩

/-- `Y` holds initially and is kept by every step -/
theorem y_init : Y {} :=
  ⟨by simp, fun j h => by simp [getSub, List.lookup, postPhase] at h, fun _ j => by simp [getSub, List.lookup, earlyPhase]⟩

/-- **every history**: from related states the ledger accepts every line of the model's run -/
theorem specRun_ok : ∀ (ops : List Op) (l : Ledger) (st : St), Rel l st → Y st → WF st → NoWrong st →
    specRun l st ops = true
  | [], _, _, _, _, _, _ => rfl
  | op :: ops, l, st, hr, hy, hwf, hnw => by
    obtain ⟨l', h1, h2⟩ := ledger_step hr hy hwf hnw op
    simp only [specRun, h1]
    obtain ⟨g, hi⟩ := inv_step st op hnw
    exact specRun_ok ops l' (step st op) h2 (facts_step st op hy hwf).y (w_step hwf op).weaken hi.2.2

/-- the ledger after replaying the model's run (`none` = some line was rejected) -/
def ledgerRun (l : Ledger) (st : St) : List Op → Option Ledger
  | [] => some l
  | op :: ops =>
    match ledgerStep l (oAnswered op) (oLine (step st op)) with
    | .ok l' => ledgerRun l' (step st op) ops
    | .error _ => none

/-- **the bookkeeping equality is an invariant over arbitrary histories** -/
theorem ledgerRun_rel : ∀ (ops : List Op) (l : Ledger) (st : St), Rel l st → Y st → WF st → NoWrong st →
    ∃ l', ledgerRun l st ops = some l' ∧ Rel l' (run st ops)
  | [], l, _, hr, _, _, _ => ⟨l, rfl, hr⟩
  | op :: ops, l, st, hr, hy, hwf, hnw => by
    obtain ⟨l', h1, h2⟩ := ledger_step hr hy hwf hnw op
    obtain ⟨g, hi⟩ := inv_step st op hnw
    obtain ⟨l'', h3, h4⟩ := ledgerRun_rel ops l' (step st op) h2 (facts_step st op hy hwf).y (w_step hwf op).weaken hi.2.2
    exact ⟨l'', by simp only [ledgerRun, h1]; exact h3, by simpa [run] using h4⟩

theorem noWrong_init : NoWrong {} := fun j c hp => by simp [getSub, List.lookup] at hp

end Lumina.Proofs.TxSeqLedger

/-
  Helper lemmas for C39 (model `Lumina/Model/PeerTracker.lean`).
-/
import Lumina.Model.PeerTrackerView

namespace Lumina.Proofs.PeerTracker
open Lumina.Model.PeerTracker

/-! ### the recount as four counts -/

def stats (ps : List Peer) : Info :=
  { connected := ps.countP (fun p => p.isConnected),
    trusted := ps.countP (fun p => p.isConnected && p.trusted),
    full := ps.countP (fun p => p.isConnected && p.isFull),
    archival := ps.countP (fun p => p.isConnected && p.archival) }

theorem foldl_recountStep (ps : List Peer) (acc : Info) :
    ps.foldl recountStep acc =
      ⟨acc.connected + (stats ps).connected, acc.trusted + (stats ps).trusted,
       acc.full + (stats ps).full, acc.archival + (stats ps).archival⟩ := by
  induction ps generalizing acc with
  | nil => simp [stats]
  | cons p ps ih =>
    rw [List.foldl_cons, ih]
    simp only [stats, List.countP_cons, recountStep]
    cases hc : p.isConnected <;> cases ht : p.trusted <;> cases hf : p.isFull <;>
      cases ha : p.archival <;> simp <;> omega

theorem recount_eq_stats (ps : List Peer) : recount ps = stats ps := by
  unfold recount
  rw [foldl_recountStep]
  simp only [Nat.zero_add]

/-- the four predicates the statistics count -/
def StatPreds : List (Peer → Bool) :=
  [fun p => p.isConnected, fun p => p.isConnected && p.trusted,
   fun p => p.isConnected && p.isFull, fun p => p.isConnected && p.archival]

theorem stats_congr {ps qs : List Peer}
    (h : ∀ q ∈ StatPreds, qs.countP q = ps.countP q) : stats qs = stats ps := by
  simp only [StatPreds, List.mem_cons, List.not_mem_nil, or_false, forall_eq_or_imp, forall_eq] at h
  simp only [stats, h.1, h.2.1, h.2.2.1, h.2.2.2]

/-! ### peers list: lookup, modify, upsert -/

def ids (ps : List Peer) : List Nat := ps.map (·.id)

theorem hasPeer_iff (ps : List Peer) (id : Nat) : hasPeer ps id = true ↔ id ∈ ids ps := by
  simp [hasPeer, ids]

theorem hasPeer_false_iff (ps : List Peer) (id : Nat) : hasPeer ps id = false ↔ id ∉ ids ps := by
  rw [← hasPeer_iff]; simp

theorem findPeer_none_iff (ps : List Peer) (id : Nat) : findPeer ps id = none ↔ hasPeer ps id = false := by
  simp [findPeer, hasPeer]

theorem findPeer_some {ps : List Peer} {id : Nat} {p : Peer} (h : findPeer ps id = some p) :
    p ∈ ps ∧ p.id = id := by
  unfold findPeer at h
  exact ⟨List.mem_of_find?_eq_some h, by simpa using List.find?_some h⟩

theorem hasPeer_of_find {ps : List Peer} {id : Nat} {p : Peer} (h : findPeer ps id = some p) :
    hasPeer ps id = true := by
  cases hh : hasPeer ps id with
  | true => rfl
  | false => rw [← findPeer_none_iff, h] at hh; cases hh

theorem modify_ids (ps : List Peer) (id : Nat) (f : Peer → Peer) (hf : ∀ p, (f p).id = p.id) :
    ids (modifyPeer ps id f) = ids ps := by
  simp only [ids, modifyPeer, List.map_map]
  apply List.map_congr_left
  intro p _
  simp only [Function.comp]
  split <;> simp [hf]

theorem modify_of_not_mem (ps : List Peer) (id : Nat) (f : Peer → Peer) (h : id ∉ ids ps) :
    modifyPeer ps id f = ps := by
  simp only [modifyPeer]
  conv => rhs; rw [← List.map_id ps]
  apply List.map_congr_left
  intro p hp
  have : p.id ≠ id := by
    intro e; apply h; simp only [ids, List.mem_map]; exact ⟨p, hp, e⟩
  simp [this]

/-- with unique ids, modifying the peer found under `id` changes any count exactly by that peer -/
theorem countP_modify (q : Peer → Bool) (f : Peer → Peer) :
    ∀ (ps : List Peer) (id : Nat) (p : Peer), (ids ps).Nodup → findPeer ps id = some p →
      (modifyPeer ps id f).countP q + (if q p then 1 else 0) = ps.countP q + (if q (f p) then 1 else 0) := by
  intro ps
  induction ps with
  | nil => intro id p _ h; simp [findPeer] at h
  | cons x xs ih =>
    intro id p hn h
    have hn' : x.id ∉ ids xs ∧ (ids xs).Nodup := by simpa [ids] using hn
    by_cases hx : x.id = id
    · have hp : p = x := by
        simp [findPeer, List.find?_cons, hx] at h; exact h.symm
      subst hp
      have hrest : modifyPeer xs id f = xs := modify_of_not_mem xs id f (hx ▸ hn'.1)
      have : modifyPeer (p :: xs) id f = f p :: xs := by
        show (if (p.id == id) = true then f p else p) :: modifyPeer xs id f = f p :: xs
        rw [hrest]; simp [hx]
      rw [this]
      simp only [List.countP_cons]
      omega
    · have h' : findPeer xs id = some p := by
        simpa [findPeer, List.find?_cons, hx] using h
      have := ih id p hn'.2 h'
      have hm : modifyPeer (x :: xs) id f = x :: modifyPeer xs id f := by
        simp [modifyPeer, hx]
      rw [hm]
      simp only [List.countP_cons]
      omega

theorem countP_modify_same (q : Peer → Bool) (f : Peer → Peer) (ps : List Peer) (id : Nat) (p : Peer)
    (hn : (ids ps).Nodup) (h : findPeer ps id = some p) (hq : q (f p) = q p) :
    (modifyPeer ps id f).countP q = ps.countP q := by
  have := countP_modify q f ps id p hn h
  rw [hq] at this
  omega

/-- a modification that never changes `q` leaves the count alone (no uniqueness needed) -/
theorem countP_modify_all (q : Peer → Bool) (f : Peer → Peer) (ps : List Peer) (id : Nat)
    (hq : ∀ p, q (f p) = q p) : (modifyPeer ps id f).countP q = ps.countP q := by
  simp only [modifyPeer, List.countP_map]
  apply List.countP_congr
  intro p _
  simp only [Function.comp]
  split <;> simp [hq]

theorem countP_upsert_all (q : Peer → Bool) (f : Peer → Peer) (ps : List Peer) (id : Nat)
    (hq : ∀ p, q (f p) = q p) (hnew : q (Peer.new id) = false) :
    (upsertPeer ps id f).countP q = ps.countP q := by
  unfold upsertPeer
  split
  · exact countP_modify_all q f ps id hq
  · simp [List.countP_append, hq, hnew]

theorem upsert_nodup (ps : List Peer) (id : Nat) (f : Peer → Peer) (hf : ∀ p, (f p).id = p.id)
    (hn : (ids ps).Nodup) : (ids (upsertPeer ps id f)).Nodup := by
  unfold upsertPeer
  split
  · rw [modify_ids _ _ _ hf]; exact hn
  · rename_i h
    have h' : id ∉ ids ps := (hasPeer_false_iff ps id).1 (by simpa using h)
    simp only [ids, List.map_append, List.map_cons, List.map_nil, hf, Peer.new]
    rw [List.nodup_append]
    refine ⟨hn, by simp, ?_⟩
    intro a ha b hb
    simp only [List.mem_singleton] at hb
    subst hb
    intro e; subst e; exact h' ha

/-! ### protect counter -/

def getC (c : List (Nat × Nat)) (tag : Nat) : Nat := (counterGet c tag).getD 0

def cnt (ps : List Peer) (tag : Nat) : Nat := ps.countP (fun p => p.prot.contains tag)

theorem counterGet_map (c : List (Nat × Nat)) (g : Nat × Nat → Nat × Nat) (hg : ∀ e, (g e).1 = e.1)
    (tag : Nat) :
    counterGet (c.map g) tag = (c.find? (fun e => e.1 == tag)).map (fun e => (g e).2) := by
  induction c with
  | nil => simp [counterGet]
  | cons e c ih =>
    simp only [counterGet] at ih ⊢
    simp only [List.map_cons, List.find?_cons, hg]
    split <;> simp_all

theorem getC_incr (c : List (Nat × Nat)) (tag tag' : Nat) :
    getC (counterIncr c tag) tag' = getC c tag' + (if tag' = tag then 1 else 0) := by
  unfold counterIncr
  split
  · rename_i hany
    unfold getC
    rw [counterGet_map _ _ (by intro e; split <;> simp)]
    unfold counterGet
    cases hf : c.find? (fun e => e.1 == tag') with
    | none =>
      have : tag' ≠ tag := by
        intro e; subst e
        simp only [List.find?_eq_none] at hf
        simp only [List.any_eq_true] at hany
        obtain ⟨x, hx, hxt⟩ := hany
        exact hf x hx hxt
      simp [this]
    | some e =>
      have he : e.1 = tag' := by simpa using List.find?_some hf
      by_cases ht : tag' = tag
      · subst ht; simp [he]
      · have : ¬ e.1 = tag := by rw [he]; exact ht
        simp [ht, this]
  · rename_i hany
    have hnone : tag' = tag → c.find? (fun e => e.1 == tag') = none := by
      intro e; subst e
      simp only [List.find?_eq_none]
      intro x hx hxt
      apply hany
      simp only [List.any_eq_true]
      exact ⟨x, hx, hxt⟩
    unfold getC counterGet
    rw [List.find?_append]
    by_cases ht : tag' = tag
    · rw [hnone ht]; subst ht; simp
    · cases hf : c.find? (fun e => e.1 == tag') with
      | none =>
        have : ¬ tag = tag' := fun e => ht e.symm
        simp [ht, List.find?_cons, this]
      | some e => simp [ht]

theorem counterDecr_some (c : List (Nat × Nat)) (tag : Nat) (h : 0 < getC c tag) :
    ∃ c', counterDecr c tag = some c' ∧
      ∀ tag', getC c' tag' = getC c tag' - (if tag' = tag then 1 else 0) := by
  unfold counterDecr
  unfold getC at h
  cases hg : counterGet c tag with
  | none => simp [hg] at h
  | some n =>
    cases n with
    | zero => simp [hg] at h
    | succ n =>
      refine ⟨_, rfl, ?_⟩
      intro tag'
      unfold getC
      rw [counterGet_map _ _ (by intro e; split <;> simp)]
      unfold counterGet
      cases hf : c.find? (fun e => e.1 == tag') with
      | none => simp
      | some e =>
        have he : e.1 = tag' := by simpa using List.find?_some hf
        by_cases ht : tag' = tag
        · subst ht; simp [he]
        · have : ¬ e.1 = tag := by rw [he]; exact ht
          simp [ht, this]

/-! ### the invariant -/

structure Inv (s : State) : Prop where
  info : s.info = stats s.peers
  nodup : (ids s.peers).Nodup
  counts : ∀ tag, getC s.protectCounter tag = cnt s.peers tag

theorem Inv.mk' {peers : List Peer} {c : List (Nat × Nat)} {info : Info} (h1 : info = stats peers)
    (h2 : (ids peers).Nodup) (h3 : ∀ tag, getC c tag = cnt peers tag) : Inv ⟨peers, c, info⟩ := ⟨h1, h2, h3⟩

theorem inv_init : Inv init := ⟨by simp [init, stats], by simp [init, ids], by
  intro tag; simp [init, getC, counterGet, cnt]⟩

theorem new_not_connected (id : Nat) : (Peer.new id).isConnected = false := by
  simp [Peer.new, Peer.isConnected]

theorem statPreds_new (id : Nat) : ∀ q ∈ StatPreds, q (Peer.new id) = false := by
  simp [StatPreds, new_not_connected]

theorem entryPeer_connected {ps : List Peer} {id : Nat} (h : (entryPeer ps id).isConnected = true) :
    findPeer ps id = some (entryPeer ps id) := by
  unfold entryPeer at h ⊢
  cases hf : findPeer ps id with
  | none => simp [hf, new_not_connected] at h
  | some p => simp

theorem connInsert_nonempty (l : List (Nat × Option Nat)) (c : Nat) : (connInsert l c).isEmpty = false := by
  unfold connInsert
  split
  · rename_i h
    cases l with
    | nil => simp at h
    | cons => simp
  · simp

theorem inv_addPeerId (s : State) (id : Nat) (h : Inv s) : Inv (addPeerId s id).1 := by
  unfold addPeerId
  split
  · exact h
  · rename_i hh
    have h' : id ∉ ids s.peers := (hasPeer_false_iff _ id).1 (by simpa using hh)
    refine Inv.mk' ?_ ?_ ?_
    · simp only [h.info]
      symm
      apply stats_congr
      intro q hq
      simp [List.countP_append, statPreds_new id q hq]
    · simp only [ids, List.map_append, List.map_cons, List.map_nil, Peer.new]
      rw [List.nodup_append]
      refine ⟨h.nodup, by simp, ?_⟩
      intro a ha b hb
      simp only [List.mem_singleton] at hb
      subst hb
      intro e; subst e; exact h' ha
    · intro tag
      simp only [cnt, List.countP_append]
      rw [h.counts tag]
      simp [cnt, Peer.new]

theorem inv_setTrusted (s : State) (id : Nat) (v : Bool) (h : Inv s) : Inv (setTrusted s id v).1 := by
  unfold setTrusted
  simp only
  refine Inv.mk' (by simp [recount_eq_stats]) (by apply upsert_nodup _ _ _ _ h.nodup; intro p; rfl) ?_
  intro tag
  simp only [cnt]
  refine (h.counts tag).trans (Eq.symm ?_)
  apply countP_upsert_all
  · intro p; rfl
  · simp [Peer.new]

theorem inv_markArchival (s : State) (id : Nat) (h : Inv s) : Inv (markArchival s id).1 := by
  unfold markArchival
  simp only
  refine Inv.mk' (by simp [recount_eq_stats]) (by apply upsert_nodup _ _ _ _ h.nodup; intro p; rfl) ?_
  intro tag
  simp only [cnt]
  refine (h.counts tag).trans (Eq.symm ?_)
  apply countP_upsert_all
  · intro p; rfl
  · simp [Peer.new]

theorem contains_setInsert (l : List Nat) (tag tag' : Nat) :
    (setInsert l tag).contains tag' = (l.contains tag' || tag' == tag) := by
  unfold setInsert
  split
  · rename_i hc
    by_cases e : tag' = tag
    · subst e; simp at hc; simp [hc]
    · simp [e]
  · by_cases e : tag' = tag <;> simp [List.mem_append, e]

theorem contains_setRemove (l : List Nat) (tag tag' : Nat) :
    (setRemove l tag).contains tag' = (l.contains tag' && tag' != tag) := by
  unfold setRemove
  by_cases hm : tag' ∈ l <;> by_cases e : tag' = tag <;> simp [List.contains_eq_mem, List.mem_filter, hm, e]

theorem inv_protect (s : State) (id tag : Nat) (h : Inv s) : Inv (protect s id tag).1 := by
  unfold protect
  simp only
  refine Inv.mk' ?_ (by apply upsert_nodup _ _ _ _ h.nodup; intro p; rfl) ?_
  · simp only [h.info]
    symm
    apply stats_congr
    intro q hq
    apply countP_upsert_all
    · intro p
      simp only [StatPreds, List.mem_cons, List.not_mem_nil, or_false] at hq
      rcases hq with rfl | rfl | rfl | rfl <;> rfl
    · exact statPreds_new id q hq
  · intro tag'
    cases hf : findPeer s.peers id with
    | none =>
      have hh : hasPeer s.peers id = false := (findPeer_none_iff _ _).1 hf
      simp only [entryPeer, hf, Option.getD_none, upsertPeer, hh, Bool.false_eq_true, ↓reduceIte]
      simp only [Peer.new, List.contains_nil, Bool.not_false, ↓reduceIte, getC_incr, cnt,
        List.countP_append, h.counts tag']
      simp only [cnt, setInsert, List.contains_nil, Bool.false_eq_true, ↓reduceIte, List.nil_append,
        List.countP_cons, List.countP_nil, List.contains_cons, Bool.or_false, beq_iff_eq, Nat.zero_add]
    | some p =>
      have hh : hasPeer s.peers id = true := hasPeer_of_find hf
      simp only [entryPeer, hf, Option.getD_some, upsertPeer, hh, ↓reduceIte]
      have hm := countP_modify (fun p => p.prot.contains tag')
        (fun p => { p with prot := setInsert p.prot tag }) s.peers id p h.nodup hf
      simp only [contains_setInsert] at hm
      cases hc : p.prot.contains tag
      · have hc' : tag ∉ p.prot := by simpa using hc
        simp only [Bool.not_false, ↓reduceIte, getC_incr, h.counts tag', cnt]
        by_cases e : tag' = tag
        · subst e; simp [hc'] at hm ⊢; omega
        · simp [e] at hm ⊢; omega
      · have hc' : tag ∈ p.prot := by simpa using hc
        simp only [Bool.not_true, Bool.false_eq_true, ↓reduceIte, h.counts tag', cnt]
        by_cases e : tag' = tag
        · subst e; simp [hc'] at hm ⊢; omega
        · simp [e] at hm ⊢; omega

theorem cnt_pos_of_mem {ps : List Peer} {p : Peer} {tag : Nat} (hp : p ∈ ps) (hc : p.prot.contains tag = true) :
    0 < cnt ps tag := by
  unfold cnt
  rw [List.countP_pos_iff]
  exact ⟨p, hp, hc⟩

theorem unprotect_ok (s : State) (id tag : Nat) (h : Inv s) :
    Inv (unprotect s id tag).1 ∧ (unprotect s id tag).2.panic = false := by
  unfold unprotect
  cases hf : findPeer s.peers id with
  | none => exact ⟨h, rfl⟩
  | some p =>
    simp only
    have hst : ∀ (c : List (Nat × Nat)),
        ({ s with peers := modifyPeer s.peers id (fun p => { p with prot := setRemove p.prot tag }),
                  protectCounter := c } : State).info =
          stats (modifyPeer s.peers id (fun p => { p with prot := setRemove p.prot tag })) := by
      intro c
      simp only [h.info]
      symm
      apply stats_congr
      intro q hq
      apply countP_modify_all
      intro p
      simp only [StatPreds, List.mem_cons, List.not_mem_nil, or_false] at hq
      rcases hq with rfl | rfl | rfl | rfl <;> rfl
    have hnd : (ids (modifyPeer s.peers id (fun p => { p with prot := setRemove p.prot tag }))).Nodup := by
      rw [modify_ids]; exact h.nodup; intro p; rfl
    have hm := fun tag' => countP_modify (fun p => p.prot.contains tag')
        (fun p => { p with prot := setRemove p.prot tag }) s.peers id p h.nodup hf
    simp only [contains_setRemove] at hm
    cases hc : p.prot.contains tag
    · have hc' : tag ∉ p.prot := by simpa using hc
      simp only [Bool.false_eq_true, ↓reduceIte]
      refine ⟨⟨hst _, hnd, ?_⟩, by first | rfl | trivial⟩
      intro tag'
      rw [h.counts tag']
      have := hm tag'
      simp only [cnt]
      by_cases e : tag' = tag
      · subst e; simp [hc'] at this ⊢; omega
      · simp [e] at this ⊢; omega
    · have hc' : tag ∈ p.prot := by simpa using hc
      simp only [↓reduceIte]
      have hpos : 0 < getC s.protectCounter tag := by
        rw [h.counts tag]; exact cnt_pos_of_mem (findPeer_some hf).1 hc
      obtain ⟨c', hdec, hget⟩ := counterDecr_some _ _ hpos
      rw [hdec]
      simp only
      refine ⟨⟨hst _, hnd, ?_⟩, by first | rfl | trivial⟩
      intro tag'
      simp only [hget tag', h.counts tag']
      have := hm tag'
      simp only [cnt]
      by_cases e : tag' = tag
      · subst e; simp [hc'] at this ⊢; omega
      · simp [e] at this ⊢; omega

theorem inv_addConnection (s : State) (id conn : Nat) (h : Inv s) : Inv (addConnection s id conn).1 := by
  unfold addConnection
  simp only
  split
  · rename_i hprev
    have hf := entryPeer_connected hprev
    have hh := hasPeer_of_find hf
    refine Inv.mk' ?_ (by apply upsert_nodup _ _ _ _ h.nodup; intro p; rfl) ?_
    · simp only [h.info, upsertPeer, hh, ↓reduceIte]
      symm
      apply stats_congr
      intro q hq
      apply countP_modify_same q _ _ _ _ h.nodup hf
      have hne : (connInsert (entryPeer s.peers id).conns conn).isEmpty = false := connInsert_nonempty _ _
      simp only [Peer.isConnected, Bool.not_eq_true'] at hprev
      simp only [StatPreds, List.mem_cons, List.not_mem_nil, or_false] at hq
      rcases hq with rfl | rfl | rfl | rfl <;> simp [Peer.isConnected, Peer.isFull, hne, hprev]
    · intro tag
      simp only [cnt]
      refine (h.counts tag).trans (Eq.symm ?_)
      apply countP_upsert_all
      · intro p; rfl
      · simp [Peer.new]
  · refine Inv.mk' (by simp [recount_eq_stats]) (by apply upsert_nodup _ _ _ _ h.nodup; intro p; rfl) ?_
    intro tag
    simp only [cnt]
    refine (h.counts tag).trans (Eq.symm ?_)
    apply countP_upsert_all
    · intro p; rfl
    · simp [Peer.new]

theorem inv_removeConnection (s : State) (id conn : Nat) (h : Inv s) : Inv (removeConnection s id conn).1 := by
  unfold removeConnection
  cases hf : findPeer s.peers id with
  | none => exact h
  | some p =>
    simp only
    split
    · refine Inv.mk' (by simp [recount_eq_stats]) (by rw [modify_ids]; exact h.nodup; intro p; rfl) ?_
      intro tag
      simp only [cnt]
      refine (h.counts tag).trans (Eq.symm ?_)
      apply countP_modify_all
      intro p; rfl
    · rename_i hne
      refine Inv.mk' ?_ (by rw [modify_ids]; exact h.nodup; intro p; rfl) ?_
      · simp only [h.info]
        symm
        apply stats_congr
        intro q hq
        apply countP_modify_same q _ _ _ _ h.nodup hf
        have hne' : (p.conns.filter (fun e => e.1 != conn)).isEmpty = false := by simpa using hne
        have hp : p.conns.isEmpty = false := by
          cases hpc : p.conns with
          | nil => simp [hpc] at hne'
          | cons => simp
        simp only [StatPreds, List.mem_cons, List.not_mem_nil, or_false] at hq
        rcases hq with rfl | rfl | rfl | rfl <;> simp [Peer.isConnected, Peer.isFull, hne', hp]
      · intro tag
        simp only [cnt]
        refine (h.counts tag).trans (Eq.symm ?_)
        apply countP_modify_all
        intro p; rfl

theorem inv_onAgentVersion (s : State) (id : Nat) (a : String) (h : Inv s) : Inv (onAgentVersion s id a).1 := by
  unfold onAgentVersion
  cases hf : findPeer s.peers id with
  | none => exact h
  | some p =>
    simp only
    split
    · refine Inv.mk' (by simp [recount_eq_stats]) (by rw [modify_ids]; exact h.nodup; intro p; rfl) ?_
      intro tag
      simp only [cnt]
      refine (h.counts tag).trans (Eq.symm ?_)
      apply countP_modify_all
      intro p; rfl
    · exact h

theorem inv_onPing (s : State) (id conn : Nat) (r : Option Nat) (h : Inv s) : Inv (onPing s id conn r).1 := by
  unfold onPing
  refine Inv.mk' ?_ (by rw [modify_ids]; exact h.nodup; intro p; rfl) ?_
  · simp only [h.info]
    symm
    apply stats_congr
    intro q hq
    apply countP_modify_all
    intro p
    simp only [StatPreds, List.mem_cons, List.not_mem_nil, or_false] at hq
    rcases hq with rfl | rfl | rfl | rfl <;> simp [Peer.isConnected, Peer.isFull]
  · intro tag
    simp only [cnt]
    refine (h.counts tag).trans (Eq.symm ?_)
    apply countP_modify_all
    intro p; rfl

theorem gcKeeps_of_connected {p : Peer} (h : p.isConnected = true) : gcKeeps p = true := by
  simp [gcKeeps, h]

theorem gcKeeps_of_protected {p : Peer} (h : p.isProtected = true) : gcKeeps p = true := by
  simp [gcKeeps, h]

theorem countP_filter_of_imp (q keep : Peer → Bool) (ps : List Peer) (himp : ∀ p, q p = true → keep p = true) :
    (ps.filter keep).countP q = ps.countP q := by
  rw [List.countP_filter]
  apply List.countP_congr
  intro p _
  cases hq : q p <;> simp [hq]
  exact himp p hq

theorem inv_gc (s : State) (h : Inv s) : Inv (gc s).1 := by
  unfold gc
  refine Inv.mk' ?_ ?_ ?_
  · simp only [h.info]
    symm
    apply stats_congr
    intro q hq
    apply countP_filter_of_imp
    intro p hp
    apply gcKeeps_of_connected
    simp only [StatPreds, List.mem_cons, List.not_mem_nil, or_false] at hq
    rcases hq with rfl | rfl | rfl | rfl <;> simp_all
  · have : (ids (s.peers.filter gcKeeps)).Sublist (ids s.peers) :=
      List.Sublist.map _ List.filter_sublist
    exact this.nodup h.nodup
  · intro tag
    simp only [cnt]
    rw [countP_filter_of_imp]
    · exact h.counts tag
    · intro p hp
      apply gcKeeps_of_protected
      cases hpp : p.prot with
      | nil => simp [hpp] at hp
      | cons => simp [Peer.isProtected, hpp]

theorem inv_advance (s : State) (secs : Nat) (h : Inv s) : Inv (advance s secs).1 := by
  unfold advance
  refine Inv.mk' ?_ ?_ ?_
  · simp only [h.info]
    symm
    apply stats_congr
    intro q hq
    rw [List.countP_map]
    apply List.countP_congr
    intro p _
    simp only [StatPreds, List.mem_cons, List.not_mem_nil, or_false] at hq
    rcases hq with rfl | rfl | rfl | rfl <;> rfl
  · simp only [ids, List.map_map]; exact h.nodup
  · intro tag
    simp only [cnt, List.countP_map]
    exact h.counts tag

theorem inv_step (s : State) (e : Event) (h : Inv s) : Inv (step s e).1 := by
  cases e with
  | addPeerId id => exact inv_addPeerId s id h
  | setTrusted id v => exact inv_setTrusted s id v h
  | protect id tag => exact inv_protect s id tag h
  | unprotect id tag => exact (unprotect_ok s id tag h).1
  | addConnection id c => exact inv_addConnection s id c h
  | removeConnection id c => exact inv_removeConnection s id c h
  | agentVersion id a => exact inv_onAgentVersion s id a h
  | ping id c r => exact inv_onPing s id c r h
  | markArchival id => exact inv_markArchival s id h
  | gc => exact inv_gc s h
  | advance secs => exact inv_advance s secs h

theorem inv_run (s : State) (evs : List Event) (h : Inv s) : Inv (run s evs) := by
  induction evs generalizing s with
  | nil => exact h
  | cons e evs ih => exact ih _ (inv_step s e h)

theorem step_no_panic (s : State) (e : Event) (h : Inv s) : (step s e).2.panic = false := by
  cases e with
  | unprotect id tag => exact (unprotect_ok s id tag h).2
  | addPeerId id => simp only [step, addPeerId]; split <;> rfl
  | setTrusted id v => rfl
  | protect id tag => rfl
  | addConnection id c => simp only [step, addConnection]; split <;> rfl
  | removeConnection id c =>
    simp only [step, removeConnection]
    split
    · rfl
    · split <;> rfl
  | agentVersion id a =>
    simp only [step, onAgentVersion]
    split
    · rfl
    · split <;> rfl
  | ping id c r => rfl
  | markArchival id => rfl
  | gc => rfl
  | advance secs => rfl

/-! ### view lemmas (model state ↦ observed tracker) -/

open Lumina.Spec.C39 in
theorem view_connected (p : Peer) : (viewPeer p).connected = p.isConnected := by
  cases hc : p.conns <;> simp [viewPeer, ObsPeer.connected, Peer.isConnected, hc]

open Lumina.Spec.C39 in
theorem length_filter_view (q : ObsPeer → Bool) (q' : Peer → Bool)
    (h : ∀ p, q (viewPeer p) = q' p) (ps : List Peer) :
    ((ps.map viewPeer).filter q).length = ps.countP q' := by
  rw [List.countP_eq_length_filter, List.filter_map, List.length_map]
  congr 1
  apply List.filter_congr
  intro p _
  exact h p

open Lumina.Spec.C39 in
theorem filter_same_key_length {α} (f : α → Nat) :
    ∀ (l : List α), (l.map f).Nodup → ∀ x ∈ l, (l.filter (fun y => f y == f x)).length = 1 := by
  intro l
  induction l with
  | nil => intro _ x hx; cases hx
  | cons a l ih =>
    intro hn x hx
    have hn' : f a ∉ l.map f ∧ (l.map f).Nodup := by simpa using hn
    rcases List.mem_cons.1 hx with rfl | hx'
    · have : l.filter (fun y => f y == f x) = [] := by
        rw [List.filter_eq_nil_iff]
        intro y hy hyx
        apply hn'.1
        simp only [beq_iff_eq] at hyx
        rw [← hyx]
        exact List.mem_map_of_mem hy
      simp [List.filter_cons, this]
    · have hne : f a ≠ f x := by
        intro e; apply hn'.1; rw [e]; exact List.mem_map_of_mem hx'
      simp [List.filter_cons, hne, ih hn'.2 x hx']

open Lumina.Spec.C39 in
theorem upsert_ids_sub (ps : List Peer) (id : Nat) (f : Peer → Peer) (hf : ∀ p, (f p).id = p.id) :
    ∀ x ∈ ids ps, x ∈ ids (upsertPeer ps id f) := by
  intro x hx
  unfold upsertPeer
  split
  · rw [modify_ids _ _ _ hf]; exact hx
  · simp only [ids, List.map_append, List.mem_append]; exact Or.inl hx

end Lumina.Proofs.PeerTracker

/-
  Proofs about the redb commit-protocol model (`Model/RedbCommit.lean`): frame property of
  verified reads, Merkle uniqueness under checksum injectivity, the invariant of partially
  applied commits, recovery of every crash image, and the `Crash.Backend` built from the
  protocol (`redbBackend`) with its `AtomicDurableCommit` proof.
-/
import Lumina.Model.RedbCommit
import Lumina.Proofs.Crash

namespace Lumina.Proofs.RedbCommit
open Lumina.Model.RedbCommit Lumina.Model.Crash

variable {α C : Type} [DecidableEq C]

/-! ### reading trees -/

omit [DecidableEq C] in
theorem readKids_congr {β : Type} (rt rt' : Ptr C → Option (List β)) (ks : List (Ptr C))
    (h : ∀ k ∈ ks, rt' k = rt k) : readKids rt' ks = readKids rt ks := by
  induction ks with
  | nil => rfl
  | cons k ks ih =>
    simp only [readKids]
    rw [h k (List.mem_cons_self ..), ih (fun k' hk' => h k' (List.mem_cons_of_mem _ hk'))]

omit [DecidableEq C] in
theorem mem_liveKids (lt : Ptr C → List Nat) (ks : List (Ptr C)) (k : Ptr C) (i : Nat)
    (hk : k ∈ ks) (hi : i ∈ lt k) : i ∈ liveKids lt ks := by
  induction ks with
  | nil => cases hk
  | cons k' ks ih =>
    simp only [liveKids, List.mem_append]
    rcases List.mem_cons.mp hk with rfl | hk'
    · exact Or.inl hi
    · exact Or.inr (ih hk')

/-- **frame**: a verified read depends only on the pages reachable from its root -/
theorem readTree_frame (H : Sums α C) (pages pages' : Nat → Page α C) (f : Nat) (p : Ptr C)
    (h : ∀ i ∈ liveTree pages f p, pages' i = pages i) :
    readTree H pages' f p = readTree H pages f p := by
  induction f generalizing p with
  | zero => rfl
  | succ f ih =>
    have hp : pages' p.page = pages p.page := h _ (by simp [liveTree])
    simp only [readTree, hp]
    rw [readKids_congr (readTree H pages f) (readTree H pages' f) (pages p.page).kids]
    intro k hk
    apply ih
    intro i hi
    apply h
    simp only [liveTree, List.mem_cons]
    exact Or.inr (mem_liveKids _ _ k i hk hi)

theorem readRoots_frame (H : Sums α C) (pages pages' : Nat → Page α C) (f : Nat) (rs : List (Ptr C))
    (h : ∀ i ∈ liveRoots pages f rs, pages' i = pages i) :
    readRoots H pages' f rs = readRoots H pages f rs := by
  unfold readRoots
  apply readKids_congr
  intro k hk
  apply readTree_frame
  intro i hi
  exact h i (mem_liveKids _ _ k i hk hi)

omit [DecidableEq C] in
theorem readKids_unique {β : Type} (rt rt' : Ptr C → Option (List β)) (ks : List (Ptr C))
    (h : ∀ k ∈ ks, ∀ a b, rt k = some a → rt' k = some b → a = b)
    (a b : List β) (ha : readKids rt ks = some a) (hb : readKids rt' ks = some b) : a = b := by
  induction ks generalizing a b with
  | nil => simp [readKids] at ha hb; rw [ha, hb]
  | cons k ks ih =>
    simp only [readKids] at ha hb
    cases h1 : rt k with
    | none => simp [h1] at ha
    | some a1 =>
      cases h2 : readKids rt ks with
      | none => simp [h1, h2] at ha
      | some a2 =>
        cases h3 : rt' k with
        | none => simp [h3] at hb
        | some b1 =>
          cases h4 : readKids rt' ks with
          | none => simp [h3, h4] at hb
          | some b2 =>
            simp [h1, h2] at ha
            simp [h3, h4] at hb
            rw [← ha, ← hb, h k (List.mem_cons_self ..) a1 b1 h1 h3,
              ih (fun k' hk' => h k' (List.mem_cons_of_mem _ hk')) a2 b2 h2 h4]

/-- **Merkle uniqueness**: with a collision-free page checksum, two media on which the same
    checksummed reference verifies hold the same tree below it -/
theorem readTree_unique (H : Sums α C) (hinj : Function.Injective H.page)
    (pages pages' : Nat → Page α C) (f f' : Nat) (p : Ptr C) (a b : List α)
    (ha : readTree H pages f p = some a) (hb : readTree H pages' f' p = some b) : a = b := by
  induction f generalizing f' p a b with
  | zero => simp [readTree] at ha
  | succ f ih =>
    cases f' with
    | zero => simp [readTree] at hb
    | succ f' =>
      simp only [readTree] at ha hb
      split at ha
      · rename_i hs
        split at hb
        · rename_i hs'
          have hpg : pages p.page = pages' p.page := hinj (hs.trans hs'.symm)
          cases h1 : readKids (readTree H pages f) (pages p.page).kids with
          | none => simp [h1] at ha
          | some l =>
            cases h2 : readKids (readTree H pages' f') (pages' p.page).kids with
            | none => simp [h2] at hb
            | some l' =>
              simp [h1] at ha
              simp [h2] at hb
              rw [← hpg] at h2
              have : l = l' := readKids_unique _ _ _ (fun k _ x y hx hy => ih f' k x y hx hy) l l' h1 h2
              rw [← ha, ← hb, this, hpg]
        · cases hb
      · cases ha

theorem readRoots_unique (H : Sums α C) (hinj : Function.Injective H.page)
    (pages pages' : Nat → Page α C) (f : Nat) (rs : List (Ptr C)) (a b : List α)
    (ha : readRoots H pages f rs = some a) (hb : readRoots H pages' f rs = some b) : a = b :=
  readKids_unique _ _ rs (fun k _ x y hx hy => readTree_unique H hinj pages pages' f f k x y hx hy) a b ha hb

/-! ### partially applied commits -/

omit [DecidableEq C] in
theorem applyAll_append (d : Disk α C) (a b : List (Write α C)) :
    applyAll d (a ++ b) = applyAll (applyAll d a) b := by
  simp [applyAll, List.foldl_append]

/-- the writes a commit of plan `pl` (kind `tp`) from medium `d` may issue, plus early
    evictions: a page write to a free page, the unchanged primary slot, the new secondary
    slot, the old god byte, the new god byte -/
def IsCommitWrite (H : Sums α C) (fuel : Nat) (d : Disk α C) (pl : Plan α C) (tp : Bool)
    (w : Write α C) : Prop :=
  FreePageWrite fuel d w ∨
  w = .slot d.primary (d.slots d.primary) ∨
  w = .slot (!d.primary) (mkSlot H pl.txid pl.roots) ∨
  w = .god d.primary d.twoPhase ∨
  w = .god (!d.primary) tp

/-- what every medium reachable from `d` by ANY selection of such writes looks like -/
structure Mixed (H : Sums α C) (fuel : Nat) (d : Disk α C) (pl : Plan α C) (tp : Bool)
    (x : Disk α C) : Prop where
  pslot : x.slots d.primary = d.slots d.primary
  sslot : x.slots (!d.primary) = d.slots (!d.primary) ∨
          x.slots (!d.primary) = mkSlot H pl.txid pl.roots
  god : (x.primary = d.primary ∧ x.twoPhase = d.twoPhase) ∨
        (x.primary = (!d.primary) ∧ x.twoPhase = tp)
  frame : ∀ i ∈ liveRoots d.pages fuel (d.slots d.primary).roots, x.pages i = d.pages i

omit [DecidableEq C] in
theorem mixed_refl (H : Sums α C) (fuel : Nat) (d : Disk α C) (pl : Plan α C) (tp : Bool) :
    Mixed H fuel d pl tp d :=
  ⟨rfl, Or.inl rfl, Or.inl ⟨rfl, rfl⟩, fun _ _ => rfl⟩

omit [DecidableEq C] in
theorem mixed_apply (H : Sums α C) (fuel : Nat) (d : Disk α C) (pl : Plan α C) (tp : Bool)
    (x : Disk α C) (w : Write α C) (hx : Mixed H fuel d pl tp x)
    (hw : IsCommitWrite H fuel d pl tp w) : Mixed H fuel d pl tp (Write.apply x w) := by
  obtain ⟨h1, h2, h3, h4⟩ := hx
  rcases hw with ⟨n, pg, rfl, hn⟩ | rfl | rfl | rfl | rfl
  · refine ⟨h1, h2, h3, ?_⟩
    intro i hi
    have : i ≠ n := fun e => hn (e ▸ hi)
    simp [Write.apply, this, h4 i hi]
  · refine ⟨by simp [Write.apply], ?_, h3, h4⟩
    cases hp : d.primary <;> simp [Write.apply, hp] at h2 ⊢ <;> exact h2
  · refine ⟨?_, Or.inr (by simp [Write.apply]), h3, h4⟩
    cases hp : d.primary <;> simp [Write.apply, hp] at h1 ⊢ <;> exact h1
  · exact ⟨h1, h2, Or.inl ⟨rfl, rfl⟩, h4⟩
  · exact ⟨h1, h2, Or.inr ⟨rfl, rfl⟩, h4⟩

omit [DecidableEq C] in
theorem mixed_applyAll (H : Sums α C) (fuel : Nat) (d : Disk α C) (pl : Plan α C) (tp : Bool)
    (ws : List (Write α C)) (x : Disk α C) (hx : Mixed H fuel d pl tp x)
    (hw : ∀ w ∈ ws, IsCommitWrite H fuel d pl tp w) : Mixed H fuel d pl tp (applyAll x ws) := by
  induction ws generalizing x with
  | nil => exact hx
  | cons w ws ih =>
    exact ih (Write.apply x w) (mixed_apply H fuel d pl tp x w hx (hw w (List.mem_cons_self ..)))
      (fun w' hw' => hw w' (List.mem_cons_of_mem _ hw'))

/-! ### recovery of a partially applied commit -/

theorem mkSlot_valid (H : Sums α C) (t : Nat) (r : List (Ptr C)) :
    (mkSlot H t r).corrupted H = false := by
  simp [Slot.corrupted, mkSlot]

/-- **all or nothing**: on every medium reachable by any selection of the commit's writes,
    recovery succeeds and shows the committed content of `d` or the new state `w`.  For a
    two-phase commit the new god byte is only written after the new slot and all pages were
    synced (`hsync`). -/
theorem recover_mixed {σ : Type} (H : Sums α C) (hinj : Function.Injective H.page) (fuel : Nat)
    (dec : List α → σ) (d : Disk α C) (w : σ) (pl : Plan α C) (tp : Bool)
    (hc : Clean H fuel d) (hp : PlanOK H fuel dec d w pl) (x : Disk α C)
    (hx : Mixed H fuel d pl tp x)
    (hsync : tp = true → x.primary = (!d.primary) →
      x.slots (!d.primary) = mkSlot H pl.txid pl.roots ∧
      (readRoots H x.pages fuel pl.roots).isSome = true) :
    recover H fuel x = verify H fuel d d.primary ∨ ∃ c, recover H fuel x = some c ∧ dec c = w := by
  obtain ⟨c0, hc0⟩ := hc.verified
  have vP : readRoots H x.pages fuel (d.slots d.primary).roots = some c0 := by
    rw [readRoots_frame H d.pages x.pages fuel _ hx.frame]; exact hc0
  have vN : ∀ c', readRoots H x.pages fuel pl.roots = some c' → dec c' = w := by
    intro c' h'
    obtain ⟨c, h1, h2⟩ := hp.stored
    rw [readRoots_unique H hinj _ _ fuel pl.roots c' c h' h1]; exact h2
  have hPv := hc.pvalid
  have hNv := mkSlot_valid H pl.txid pl.roots
  have hlt := hp.txid_gt
  have hord := hc.order
  have hP := hx.pslot
  have hNt : (mkSlot H pl.txid pl.roots).txid = pl.txid := rfl
  have hNr : (mkSlot H pl.txid pl.roots).roots = pl.roots := rfl
  rw [hc0]
  rcases hx.god with ⟨g1, g2⟩ | ⟨g1, g2⟩
  · rcases hx.sslot with s | s
    · -- header unchanged
      left
      simp only [recover, recoverSlot, pickPrimary, verify, g1, g2, hP, s, hPv]
      cases htp : d.twoPhase
      · by_cases hn : (decide ((d.slots d.primary).txid < (d.slots (!d.primary)).txid) &&
            !(d.slots (!d.primary)).corrupted H) = true
        · have hr : (d.slots (!d.primary)).roots = (d.slots d.primary).roots := by
            simp only [Bool.and_eq_true, decide_eq_true_eq, Bool.not_eq_true'] at hn
            rcases hord with h | h | h
            · rw [hn.2] at h; cases h
            · omega
            · exact h
          simp [hn, s, hr, vP]
        · simp [hn, hP, vP]
      · simp [hP, vP]
    · -- new slot, old god byte
      simp only [recover, recoverSlot, pickPrimary, verify, g1, g2, hP, s, hPv, hNv]
      cases htp : d.twoPhase
      · cases hv : readRoots H x.pages fuel pl.roots with
        | none => left; simp [hNt, hlt, s, hNr, hv, hP, vP]
        | some c' => right; exact ⟨c', by simp [hNt, hlt, s, hNr, hv], vN c' hv⟩
      · left; simp [hP, vP]
  · cases htp : tp
    · subst htp
      rcases hx.sslot with s | s
      · -- new god byte only
        left
        simp only [recover, recoverSlot, pickPrimary, verify, g1, g2, Bool.not_not, hP, s, hPv]
        cases hSc : (d.slots (!d.primary)).corrupted H
        · by_cases hn : (d.slots (!d.primary)).txid < (d.slots d.primary).txid
          · simp [hn, hP, vP]
          · have hr : (d.slots (!d.primary)).roots = (d.slots d.primary).roots := by
              rcases hord with h | h | h
              · rw [hSc] at h; cases h
              · exact absurd h hn
              · exact h
            simp [hn, s, hr, vP]
        · simp [hP, vP]
      · -- new god byte and new slot
        simp only [recover, recoverSlot, pickPrimary, verify, g1, g2, Bool.not_not, hP, s, hPv, hNv]
        have hn : ¬ pl.txid < (d.slots d.primary).txid := by omega
        cases hv : readRoots H x.pages fuel pl.roots with
        | none => left; simp [hNt, hn, s, hNr, hv, hP, vP]
        | some c' => right; exact ⟨c', by simp [hNt, hn, s, hNr, hv], vN c' hv⟩
    · subst htp
      obtain ⟨s, hsome⟩ := hsync rfl g1
      right
      cases hv : readRoots H x.pages fuel pl.roots with
      | none => simp [hv] at hsome
      | some c' =>
        refine ⟨c', ?_, vN c' hv⟩
        simp [recover, recoverSlot, pickPrimary, verify, g1, g2, s, hNv, hNr, hv]

/-! ### the writes of a commit -/

omit [DecidableEq C] in
theorem pageWrites_ok {σ : Type} [DecidableEq C] (H : Sums α C) (fuel : Nat) (dec : List α → σ)
    (d : Disk α C) (w : σ) (pl : Plan α C) (tp : Bool) (hp : PlanOK H fuel dec d w pl) :
    ∀ wr ∈ pl.pageWrites, IsCommitWrite H fuel d pl tp wr := by
  intro wr hwr
  simp only [Plan.pageWrites, List.mem_map] at hwr
  obtain ⟨a, ha, rfl⟩ := hwr
  exact Or.inl ⟨a.1, a.2, rfl, hp.free a ha⟩

omit [DecidableEq C] in
theorem header1_ok (H : Sums α C) (fuel : Nat) (d : Disk α C) (pl : Plan α C) (tp : Bool) :
    ∀ wr ∈ headerWrites (stage1 H d pl), IsCommitWrite H fuel d pl tp wr := by
  intro wr hwr
  simp only [headerWrites, stage1, List.mem_cons, List.not_mem_nil, or_false] at hwr
  unfold IsCommitWrite
  rcases hwr with rfl | rfl | rfl
  · cases hp : d.primary <;> simp
  · cases hp : d.primary <;> simp
  · simp

omit [DecidableEq C] in
theorem header2_ok (H : Sums α C) (fuel : Nat) (d : Disk α C) (pl : Plan α C) (tp : Bool) :
    ∀ wr ∈ headerWrites (stage2 tp (stage1 H d pl)), IsCommitWrite H fuel d pl tp wr := by
  intro wr hwr
  simp only [headerWrites, stage1, stage2, List.mem_cons, List.not_mem_nil, or_false] at hwr
  unfold IsCommitWrite
  rcases hwr with rfl | rfl | rfl
  · cases hp : d.primary <;> simp
  · cases hp : d.primary <;> simp
  · simp

omit [DecidableEq C] in
/-- a crash image is the start medium with SOME of the epochs' writes applied -/
theorem crashImg_writes (d : Disk α C) (eps : List (List (Write α C))) (x : Disk α C)
    (h : CrashImg d eps x) :
    ∃ ws, (∀ w ∈ ws, ∃ ep ∈ eps, w ∈ ep) ∧ x = applyAll d ws := by
  induction eps generalizing d with
  | nil => exact ⟨[], by simp, h⟩
  | cons ep rest ih =>
    rcases h with ⟨k, sub, hsub, rfl⟩ | h
    · refine ⟨sub, ?_, rfl⟩
      intro w hw
      exact ⟨ep, List.mem_cons_self .., List.mem_of_mem_take (hsub.subset hw)⟩
    · obtain ⟨ws, h1, rfl⟩ := ih _ h
      refine ⟨ep ++ ws, ?_, (applyAll_append d ep ws).symm⟩
      intro w hw
      rcases List.mem_append.mp hw with hw | hw
      · exact ⟨ep, List.mem_cons_self .., hw⟩
      · obtain ⟨ep', he, hw'⟩ := h1 w hw
        exact ⟨ep', List.mem_cons_of_mem _ he, hw'⟩

/-! ### explicit form of the media a commit goes through -/

omit [DecidableEq C] in
theorem applyAll_pages_header (d : Disk α C) (ps : List (Nat × Page α C)) :
    (applyAll d (ps.map fun w => Write.page w.1 w.2)).primary = d.primary ∧
    (applyAll d (ps.map fun w => Write.page w.1 w.2)).twoPhase = d.twoPhase ∧
    (applyAll d (ps.map fun w => Write.page w.1 w.2)).slots = d.slots := by
  induction ps generalizing d with
  | nil => exact ⟨rfl, rfl, rfl⟩
  | cons a ps ih =>
    simp only [List.map_cons, applyAll, List.foldl_cons]
    exact ih (Write.apply d (.page a.1 a.2))

omit [DecidableEq C] in
theorem applyAll_headerWrites (y h : Disk α C) :
    applyAll y (headerWrites h) =
      { primary := h.primary, twoPhase := h.twoPhase, slots := h.slots, pages := y.pages } := by
  simp only [applyAll, headerWrites, List.foldl_cons, List.foldl_nil, Write.apply]
  congr 1
  funext j
  cases j <;> simp

omit [DecidableEq C] in
/-- header writes only touch the header -/
theorem applyAll_header_sub (y h : Disk α C) (hs : h.slots = y.slots) (sub : List (Write α C))
    (hsub : ∀ w ∈ sub, w ∈ headerWrites h) :
    (applyAll y sub).slots = y.slots ∧ (applyAll y sub).pages = y.pages := by
  induction sub generalizing y with
  | nil => exact ⟨rfl, rfl⟩
  | cons w sub ih =>
    have hw := hsub w (List.mem_cons_self ..)
    have hrest := fun w' hw' => hsub w' (List.mem_cons_of_mem _ hw')
    simp only [applyAll, List.foldl_cons]
    have key : (Write.apply y w).slots = y.slots ∧ (Write.apply y w).pages = y.pages := by
      simp only [headerWrites, List.mem_cons, List.not_mem_nil, or_false] at hw
      rcases hw with rfl | rfl | rfl
      · refine ⟨?_, rfl⟩
        funext j; cases j <;> simp [Write.apply, hs]
      · refine ⟨?_, rfl⟩
        funext j; cases j <;> simp [Write.apply, hs]
      · exact ⟨rfl, rfl⟩
    have := ih (Write.apply y w) (hs.trans key.1.symm) hrest
    exact ⟨this.1.trans key.1, this.2.trans key.2⟩

omit [DecidableEq C] in
/-- the medium after `commit()` returned: new god byte, new secondary slot, all pages -/
theorem commitDisk_eq (H : Sums α C) (d : Disk α C) (pl : Plan α C) (tp : Bool) :
    commitDisk H d pl tp =
      { primary := !d.primary, twoPhase := tp, slots := (stage1 H d pl).slots,
        pages := (applyAll d pl.pageWrites).pages } := by
  cases tp <;>
    simp [commitDisk, commitEpochs, applyEpochs, applyAll_append, applyAll_headerWrites, stage2, stage1]

/-! ### the theorems about one commit -/

/-- dirty pages reaching the medium early (write-buffer eviction during the closure, or a
    transaction that never commits) are invisible: they only go to free pages -/
theorem recover_free_writes (H : Sums α C) (hinj : Function.Injective H.page) (fuel : Nat)
    (d : Disk α C) (hc : Clean H fuel d) (ws : List (Write α C))
    (hws : ∀ w ∈ ws, FreePageWrite fuel d w) :
    recover H fuel (applyAll d ws) = verify H fuel d d.primary := by
  obtain ⟨c0, hc0⟩ := hc.verified
  let pl : Plan α C := { pages := [], roots := (d.slots d.primary).roots, txid := (d.slots d.primary).txid + 1 }
  have hp : PlanOK H fuel id d c0 pl :=
    ⟨Nat.lt_succ_self _, (by intro wr h; cases h), ⟨c0, hc0, rfl⟩⟩
  have hm : Mixed H fuel d pl false (applyAll d ws) :=
    mixed_applyAll H fuel d pl false ws d (mixed_refl ..) (fun w hw => Or.inl (hws w hw))
  rcases recover_mixed H hinj fuel id d c0 pl false hc hp _ hm (by intro h; cases h) with h | ⟨c, h1, h2⟩
  · exact h
  · rw [h1, hc0]; exact congrArg some h2

theorem recover_clean (H : Sums α C) (hinj : Function.Injective H.page) (fuel : Nat)
    (d : Disk α C) (hc : Clean H fuel d) : recover H fuel d = verify H fuel d d.primary :=
  recover_free_writes H hinj fuel d hc [] (by intro w h; cases h)

omit [DecidableEq C] in
theorem free_writes_inv (fuel : Nat) (d x : Disk α C) (ws : List (Write α C))
    (hws : ∀ w ∈ ws, FreePageWrite fuel d w)
    (hx : x.primary = d.primary ∧ x.twoPhase = d.twoPhase ∧ x.slots = d.slots ∧
      ∀ i ∈ liveRoots d.pages fuel (d.slots d.primary).roots, x.pages i = d.pages i) :
    (applyAll x ws).primary = d.primary ∧ (applyAll x ws).twoPhase = d.twoPhase ∧
    (applyAll x ws).slots = d.slots ∧
    ∀ i ∈ liveRoots d.pages fuel (d.slots d.primary).roots, (applyAll x ws).pages i = d.pages i := by
  induction ws generalizing x with
  | nil => exact hx
  | cons w ws ih =>
    obtain ⟨n, pg, rfl, hn⟩ := hws w (List.mem_cons_self ..)
    simp only [applyAll, List.foldl_cons]
    apply ih _ (fun w' hw' => hws w' (List.mem_cons_of_mem _ hw'))
    refine ⟨hx.1, hx.2.1, hx.2.2.1, ?_⟩
    intro i hi
    have : i ≠ n := fun e => hn (e ▸ hi)
    simp [Write.apply, this, hx.2.2.2 i hi]

/-- … and leave the database in a state in which the next transaction can run -/
theorem clean_free_writes (H : Sums α C) (fuel : Nat) (d : Disk α C) (hc : Clean H fuel d)
    (ws : List (Write α C)) (hws : ∀ w ∈ ws, FreePageWrite fuel d w) :
    Clean H fuel (applyAll d ws) ∧
    verify H fuel (applyAll d ws) (applyAll d ws).primary = verify H fuel d d.primary := by
  obtain ⟨h1, _, h3, h4⟩ := free_writes_inv fuel d d ws hws ⟨rfl, rfl, rfl, fun _ _ => rfl⟩
  have hv : verify H fuel (applyAll d ws) (applyAll d ws).primary = verify H fuel d d.primary := by
    simp only [verify, h1, h3]
    exact readRoots_frame H d.pages _ fuel _ h4
  obtain ⟨c0, hc0⟩ := hc.verified
  refine ⟨⟨?_, ⟨c0, hv.trans hc0⟩, ?_⟩, hv⟩
  · rw [h1, h3]; exact hc.pvalid
  · rw [h1, h3]; exact hc.order

/-- the medium after `commit()` returned is clean and holds exactly the new state -/
theorem commit_returned {σ : Type} (H : Sums α C) (fuel : Nat) (dec : List α → σ) (d : Disk α C)
    (w : σ) (pl : Plan α C) (tp : Bool) (hp : PlanOK H fuel dec d w pl) :
    Clean H fuel (commitDisk H d pl tp) ∧
    ∃ c, verify H fuel (commitDisk H d pl tp) (commitDisk H d pl tp).primary = some c ∧ dec c = w := by
  obtain ⟨c, hc1, hc2⟩ := hp.stored
  have hv : verify H fuel (commitDisk H d pl tp) (commitDisk H d pl tp).primary = some c := by
    rw [commitDisk_eq]
    simp only [verify, stage1, ↓reduceIte]
    exact hc1
  refine ⟨⟨?_, ⟨c, hv⟩, ?_⟩, c, hv, hc2⟩
  · rw [commitDisk_eq]; simp only [stage1, ↓reduceIte]; exact mkSlot_valid ..
  · right; left
    rw [commitDisk_eq]; simp only [stage1, Bool.not_not, ↓reduceIte]
    cases hpq : d.primary <;> simp [mkSlot] <;> (have := hp.txid_gt; simp [hpq] at this; exact this)

/-- **Crash atomicity of ONE-PHASE commit** (the commit lumina uses): whatever the crash point
    and whatever subset of the unsynced writes survives, recovery succeeds and shows either
    the content committed before or the new state — never a mixture. -/
theorem commit1_crash_atomic {σ : Type} (H : Sums α C) (hinj : Function.Injective H.page)
    (fuel : Nat) (dec : List α → σ) (d : Disk α C) (w : σ) (pl : Plan α C)
    (hc : Clean H fuel d) (hp : PlanOK H fuel dec d w pl) (x : Disk α C)
    (hx : CrashImg d (commitEpochs H d pl false) x) :
    recover H fuel x = verify H fuel d d.primary ∨ ∃ c, recover H fuel x = some c ∧ dec c = w := by
  obtain ⟨ws, hws, rfl⟩ := crashImg_writes d _ x hx
  apply recover_mixed H hinj fuel dec d w pl false hc hp _ _ (by intro h; cases h)
  apply mixed_applyAll H fuel d pl false ws d (mixed_refl ..)
  intro wr hwr
  obtain ⟨ep, hep, hmem⟩ := hws wr hwr
  simp only [commitEpochs, Bool.false_eq_true, ↓reduceIte, List.mem_cons, List.not_mem_nil,
    or_false] at hep
  subst hep
  rcases List.mem_append.mp hmem with hmem | hmem
  · rcases List.mem_append.mp hmem with hmem | hmem
    · exact pageWrites_ok H fuel dec d w pl false hp wr hmem
    · exact header1_ok H fuel d pl false wr hmem
  · exact header2_ok H fuel d pl false wr hmem

/-- **Crash atomicity of TWO-PHASE commit** (used by redb's own repair-on-open commit): same
    statement; here the god byte is flipped only after the new slot and all pages were synced. -/
theorem commit2_crash_atomic {σ : Type} (H : Sums α C) (hinj : Function.Injective H.page)
    (fuel : Nat) (dec : List α → σ) (d : Disk α C) (w : σ) (pl : Plan α C)
    (hc : Clean H fuel d) (hp : PlanOK H fuel dec d w pl) (x : Disk α C)
    (hx : CrashImg d (commitEpochs H d pl true) x) :
    recover H fuel x = verify H fuel d d.primary ∨ ∃ c, recover H fuel x = some c ∧ dec c = w := by
  simp only [commitEpochs, ↓reduceIte, CrashImg] at hx
  have hep1 : ∀ tp, ∀ wr ∈ pl.pageWrites ++ headerWrites (stage1 H d pl), IsCommitWrite H fuel d pl tp wr := by
    intro tp wr hmem
    rcases List.mem_append.mp hmem with hmem | hmem
    · exact pageWrites_ok H fuel dec d w pl tp hp wr hmem
    · exact header1_ok H fuel d pl tp wr hmem
  -- images of the second epoch: the first epoch is durable, a selection `sub` of header(h2) on top
  have second : ∀ sub : List (Write α C),
      (∀ wr ∈ sub, wr ∈ headerWrites (stage2 true (stage1 H d pl))) →
      recover H fuel (applyAll (applyAll d (pl.pageWrites ++ headerWrites (stage1 H d pl))) sub)
        = verify H fuel d d.primary ∨
      ∃ c, recover H fuel (applyAll (applyAll d (pl.pageWrites ++ headerWrites (stage1 H d pl))) sub)
        = some c ∧ dec c = w := by
    intro sub hsub
    have hy : applyAll d (pl.pageWrites ++ headerWrites (stage1 H d pl)) =
        { primary := d.primary, twoPhase := d.twoPhase, slots := (stage1 H d pl).slots,
          pages := (applyAll d pl.pageWrites).pages } := by
      rw [applyAll_append, applyAll_headerWrites]; rfl
    obtain ⟨hs, hpg⟩ := applyAll_header_sub
      (applyAll d (pl.pageWrites ++ headerWrites (stage1 H d pl)))
      (stage2 true (stage1 H d pl)) (by rw [hy]; rfl) sub hsub
    apply recover_mixed H hinj fuel dec d w pl true hc hp
    · rw [← applyAll_append]
      apply mixed_applyAll H fuel d pl true _ d (mixed_refl ..)
      intro wr hmem
      rcases List.mem_append.mp hmem with hmem | hmem
      · exact hep1 true wr hmem
      · exact header2_ok H fuel d pl true wr (hsub wr hmem)
    · intro _ _
      rw [hs, hpg, hy]
      obtain ⟨c, hc1, _⟩ := hp.stored
      simp only [stage1, ↓reduceIte, true_and]
      rw [hc1]; rfl
  rcases hx with ⟨k, sub, hsub, rfl⟩ | ⟨k, sub, hsub, rfl⟩ | rfl
  · apply recover_mixed H hinj fuel dec d w pl false hc hp _ _ (by intro h; cases h)
    apply mixed_applyAll H fuel d pl false sub d (mixed_refl ..)
    intro wr hwr
    exact hep1 false wr (List.mem_of_mem_take (hsub.subset hwr))
  · exact second sub (fun wr hwr => List.mem_of_mem_take (hsub.subset hwr))
  · exact second _ (fun wr hwr => hwr)

/-! ### repair-on-open -/

/-- if recovery succeeds, the repaired medium is clean and shows what recovery showed -/
theorem repair_clean (H : Sums α C) (fuel : Nat) (d : Disk α C) (c : List α)
    (h : recover H fuel d = some c) :
    Clean H fuel (repair H fuel d) ∧
    verify H fuel (repair H fuel d) (repair H fuel d).primary = some c := by
  unfold recover at h
  unfold repair
  cases hq : recoverSlot H fuel d with
  | none => simp [hq] at h
  | some q =>
    simp only [hq] at h ⊢
    have hv : verify H fuel
        (commitDisk H { d with primary := q }
          { pages := [], roots := (d.slots q).roots, txid := (d.slots q).txid + 1 } true)
        (commitDisk H { d with primary := q }
          { pages := [], roots := (d.slots q).roots, txid := (d.slots q).txid + 1 } true).primary
        = some c := by
      rw [commitDisk_eq]
      simp only [verify, stage1, ↓reduceIte, mkSlot, Plan.pageWrites, List.map_nil, applyAll,
        List.foldl_nil]
      exact h
    refine ⟨⟨?_, ⟨c, hv⟩, ?_⟩, hv⟩
    · rw [commitDisk_eq]; simp only [stage1, ↓reduceIte]; exact mkSlot_valid ..
    · right; left
      rw [commitDisk_eq]; simp only [stage1, Bool.not_not, ↓reduceIte]
      cases q <;> simp [mkSlot]

/-! ### the protocol as a `Crash.Backend` -/

/-- a medium together with the information whether the process has crashed since the database
    was last opened (then the next thing that happens to it is redb's repair-on-open) -/
def Good (H : Sums α C) (fuel : Nat) (x : Disk α C × Bool) : Prop :=
  if x.2 then ∃ c, recover H fuel x.1 = some c else Clean H fuel x.1

/-- media on which the database is open and idle, or from which it can be reopened -/
abbrev RD (H : Sums α C) (fuel : Nat) := { x : Disk α C × Bool // Good H fuel x }

/-- the medium once the database is open (after repair-on-open if there was a crash) -/
def opened (H : Sums α C) (fuel : Nat) (x : Disk α C × Bool) : Disk α C :=
  if x.2 then repair H fuel x.1 else x.1

/-- the tree content a database on `x` shows: what recovery finds / what the primary holds -/
def viewRaw (H : Sums α C) (fuel : Nat) (x : Disk α C × Bool) : Option (List α) :=
  if x.2 then recover H fuel x.1 else verify H fuel x.1 x.1.primary

theorem opened_clean (H : Sums α C) (fuel : Nat) (x : Disk α C × Bool) (hx : Good H fuel x) :
    Clean H fuel (opened H fuel x) ∧
    verify H fuel (opened H fuel x) (opened H fuel x).primary = viewRaw H fuel x ∧
    ∃ c, viewRaw H fuel x = some c := by
  obtain ⟨d, b⟩ := x
  cases b with
  | false =>
    have hc : Clean H fuel d := by simpa [Good] using hx
    exact ⟨hc, rfl, hc.verified⟩
  | true =>
    obtain ⟨c, hc⟩ : ∃ c, recover H fuel d = some c := by simpa [Good] using hx
    obtain ⟨h1, h2⟩ := repair_clean H fuel d c hc
    refine ⟨h1, ?_, c, hc⟩
    simp only [opened, viewRaw, ↓reduceIte]
    rw [h2, hc]

/-- **redb's commit protocol as the durable backend of `Model/Crash.lean`.**
    `plan` stands for the B-tree + allocator layer (hypothesis `hplan`: it only writes free
    pages and stores the requested state), `dec` decodes tree content into the logical state. -/
def redbBackend {σ : Type} (H : Sums α C) (fuel : Nat) (dec : List α → σ)
    (plan : Disk α C → σ → Plan α C)
    (hplan : ∀ d, Clean H fuel d → ∀ w, PlanOK H fuel dec d w (plan d w)) :
    Backend (RD H fuel) σ where
  view x := dec ((viewRaw H fuel x.1).getD [])
  commit x w :=
    ⟨(commitDisk H (opened H fuel x.1) (plan (opened H fuel x.1) w) false, false),
      (commit_returned H fuel dec _ w _ false (hplan _ (opened_clean H fuel x.1 x.2).1 w)).1⟩
  abort x := ⟨(opened H fuel x.1, false), (opened_clean H fuel x.1 x.2).1⟩
  crashInTx x y :=
    y.1.2 = true ∧ ∃ ws, (∀ w ∈ ws, FreePageWrite fuel (opened H fuel x.1) w) ∧
      y.1.1 = applyAll (opened H fuel x.1) ws
  crashInCommit x w y :=
    y.1.2 = true ∧
      CrashImg (opened H fuel x.1)
        (commitEpochs H (opened H fuel x.1) (plan (opened H fuel x.1) w) false) y.1.1
  crashInAbort x y :=
    y.1.2 = true ∧ ∃ ws, (∀ w ∈ ws, FreePageWrite fuel (opened H fuel x.1) w) ∧
      y.1.1 = applyAll (opened H fuel x.1) ws

/-- **`AtomicDurableCommit` holds for the protocol model.** -/
theorem redbBackend_atomic {σ : Type} (H : Sums α C) (hinj : Function.Injective H.page)
    (fuel : Nat) (dec : List α → σ) (plan : Disk α C → σ → Plan α C)
    (hplan : ∀ d, Clean H fuel d → ∀ w, PlanOK H fuel dec d w (plan d w)) :
    AtomicDurableCommit (redbBackend H fuel dec plan hplan) where
  commit_visible := by
    intro x w
    obtain ⟨_, c, hv, hd⟩ := commit_returned H fuel dec _ w _ false
      (hplan _ (opened_clean H fuel x.1 x.2).1 w)
    simp only [redbBackend, viewRaw, Bool.false_eq_true, ↓reduceIte]
    rw [hv]; exact hd
  abort_invisible := by
    intro x
    simp only [redbBackend]
    congr 2
    exact (opened_clean H fuel x.1 x.2).2.1
  crash_tx_invisible := by
    intro x y ⟨hy, ws, hws, he⟩
    obtain ⟨hc, hv, _⟩ := opened_clean H fuel x.1 x.2
    simp only [redbBackend]
    congr 2
    rw [← hv, ← recover_free_writes H hinj fuel _ hc ws hws, ← he]
    simp [viewRaw, hy]
  crash_commit_atomic := by
    intro x w y ⟨hy, himg⟩
    obtain ⟨hc, hv, _⟩ := opened_clean H fuel x.1 x.2
    have hrec : viewRaw H fuel y.1 = recover H fuel y.1.1 := by simp [viewRaw, hy]
    rcases commit1_crash_atomic H hinj fuel dec _ w _ hc (hplan _ hc w) _ himg with h | ⟨c, h1, h2⟩
    · left
      simp only [redbBackend]
      rw [hrec, h, hv]
    · right
      simp only [redbBackend]
      rw [hrec, h1]; exact h2
  crash_abort_invisible := by
    intro x y ⟨hy, ws, hws, he⟩
    obtain ⟨hc, hv, _⟩ := opened_clean H fuel x.1 x.2
    simp only [redbBackend]
    congr 2
    rw [← hv, ← recover_free_writes H hinj fuel _ hc ws hws, ← he]
    simp [viewRaw, hy]

/-! ### the hypotheses are satisfiable: a collision-free checksum and a one-page planner -/

namespace Example

/-- a perfect (collision-free) Merkle checksum: the description of the whole subtree -/
inductive T where
  | node (payload : List Nat) (kids : List (Nat × T))

def sums : Sums (List Nat) T where
  page pg := .node pg.payload (pg.kids.map fun k => (k.page, k.sum))
  slot t rs := .node [t] (rs.map fun k => (k.page, k.sum))

theorem sums_injective : Function.Injective sums.page := by
  intro a b h
  obtain ⟨pa, ka⟩ := a
  obtain ⟨pb, kb⟩ := b
  simp only [sums, T.node.injEq] at h
  obtain ⟨h1, h2⟩ := h
  have : ka = kb := by
    clear h1
    induction ka generalizing kb with
    | nil => cases kb <;> simp_all
    | cons x xs ih =>
      cases kb with
      | nil => simp at h2
      | cons y ys =>
        simp only [List.map_cons, List.cons.injEq, Prod.mk.injEq] at h2
        obtain ⟨⟨hp, hs⟩, hr⟩ := h2
        obtain ⟨xp, xs'⟩ := x
        obtain ⟨yp, ys'⟩ := y
        simp only at hp hs
        rw [ih ys hr, hp, hs]
  rw [h1, this]

noncomputable instance : DecidableEq T := fun _ _ => Classical.propDecidable _

/-- a page number above every live page -/
def fresh (l : List Nat) : Nat := l.foldr max 0 + 1

theorem fresh_not_mem (l : List Nat) : fresh l ∉ l := by
  have key : ∀ i ∈ l, i ≤ l.foldr max 0 := by
    induction l with
    | nil => intro i h; cases h
    | cons x xs ih =>
      intro i hi
      simp only [List.foldr_cons]
      rcases List.mem_cons.mp hi with rfl | h
      · exact Nat.le_max_left ..
      · exact Nat.le_trans (ih i h) (Nat.le_max_right ..)
  intro h
  have := key _ h
  simp only [fresh] at this
  omega

/-- the simplest copy-on-write transaction: the whole new state goes into ONE fresh page,
    which becomes the only root -/
def plan (fuel : Nat) (d : Disk (List Nat) T) (w : List Nat) : Plan (List Nat) T :=
  let n := fresh (liveRoots d.pages fuel (d.slots d.primary).roots)
  { pages := [(n, ⟨w, []⟩)], roots := [⟨n, sums.page ⟨w, []⟩⟩], txid := (d.slots d.primary).txid + 1 }

theorem plan_ok (f : Nat) (d : Disk (List Nat) T) (w : List Nat) :
    PlanOK sums (f + 1) List.flatten d w (plan (f + 1) d w) := by
  refine ⟨Nat.lt_succ_self _, ?_, [w], ?_, by simp⟩
  · intro wr hwr
    simp only [plan, List.mem_cons, List.not_mem_nil, or_false] at hwr
    subst hwr
    exact fresh_not_mem _
  · simp [plan, Plan.pageWrites, applyAll, Write.apply, readRoots, readKids, readTree]

/-- a freshly created database: two equal empty slots, two-phase flag set (`DatabaseHeader::new`) -/
def emptyDisk : Disk (List Nat) T where
  primary := false
  twoPhase := true
  slots := fun _ => mkSlot sums 0 []
  pages := fun _ => ⟨[], []⟩

theorem emptyDisk_clean (fuel : Nat) : Clean sums fuel emptyDisk :=
  ⟨mkSlot_valid .., ⟨[], rfl⟩, Or.inr (Or.inr rfl)⟩

/-- a database holding `[1,2,3]` in page 1 (the medium after committing it to `emptyDisk`) -/
def disk1 : Disk (List Nat) T where
  primary := true
  twoPhase := false
  slots := fun j => if j = true then mkSlot sums 1 [⟨1, sums.page ⟨[1, 2, 3], []⟩⟩]
                    else mkSlot sums 0 []
  pages := fun m => if m = 1 then ⟨[1, 2, 3], []⟩ else ⟨[], []⟩

/-- an UPDATE IN PLACE: the new state `[9]` is written over the live page 1 -/
def inPlace : Plan (List Nat) T :=
  { pages := [(1, ⟨[9], []⟩)], roots := [⟨1, sums.page ⟨[9], []⟩⟩], txid := 2 }

end Example

end Lumina.Proofs.RedbCommit

/-
  C46 (strengthening round): round trips and acceptance conditions of the Blob and
  ExtendedHeader conversion layers of `Model/RoundTripExt.lean`.
-/
import Lumina.Model.RoundTripExt
import Lumina.Model.Commitment
import Lumina.Proofs.RoundTrip
import Lumina.Props.C14

namespace Lumina.Proofs.RoundTrip
open Lumina.Util Lumina.Model.Nmt Lumina.Model.Eds Lumina.Model.RoundTrip
open Lumina.Model

/-! ## Blob ↔ RawBlob -/

/-- what makes a `Blob` a value the protobuf form can carry for app version `av`:
    valid namespace, `u8` share version, 20-byte signer, NO index (the proto has no such field)
    and the commitment is the one `Commitment::from_blob` computes (`Blob::validate(av)` is `Ok`) -/
def ValidBlobPb {C E : Type} (commit : Bytes → Bytes → Nat → Option Bytes → Nat → Except E C) (av : Nat)
    (b : BlobV C) : Prop :=
  Namespace.fromRaw b.ns = .ok b.ns ∧ b.shareVersion ≤ 255 ∧
  (∀ s, b.signer = some s → s.length = ACC_ADDRESS_LEN) ∧ b.index = none ∧
  commit b.ns b.data b.shareVersion b.signer av = .ok b.commitment

theorem signerOfRaw_getD (s : Option Bytes) (h : ∀ x, s = some x → x.length = ACC_ADDRESS_LEN) :
    signerOfRaw (s.getD []) = s := by
  cases s with
  | none => simp [signerOfRaw, ACC_ADDRESS_LEN]
  | some x => simp [signerOfRaw, h x rfl]

/-- everything but the index comes back, whatever the index was -/
theorem blob_pb_roundtrip_upto_index {C E : Type}
    (commit : Bytes → Bytes → Nat → Option Bytes → Nat → Except E C) (av : Nat) (b : BlobV C)
    (h1 : Namespace.fromRaw b.ns = .ok b.ns) (h2 : b.shareVersion ≤ 255)
    (h3 : ∀ s, b.signer = some s → s.length = ACC_ADDRESS_LEN)
    (h5 : commit b.ns b.data b.shareVersion b.signer av = .ok b.commitment) :
    blobFromRaw commit (blobToRaw b) av = .ok { b with index := none } := by
  unfold blobFromRaw blobToRaw
  have n2 : ¬ b.shareVersion > 255 := by omega
  simp only [namespace_new_parts _ h1, n2, ↓reduceIte, signerOfRaw_getD _ h3, h5]

theorem blob_pb_roundtrip {C E : Type}
    (commit : Bytes → Bytes → Nat → Option Bytes → Nat → Except E C) (av : Nat) (b : BlobV C)
    (h : ValidBlobPb commit av b) : blobFromRaw commit (blobToRaw b) av = .ok b := by
  obtain ⟨h1, h2, h3, h4, h5⟩ := h
  rw [blob_pb_roundtrip_upto_index commit av b h1 h2 h3 h5]
  cases b
  simp only at h4
  subst h4
  rfl

/-- exactly which raw blobs `Blob::from_raw` accepts, and what it makes of them -/
theorem blobFromRaw_ok_iff {C E : Type}
    (commit : Bytes → Bytes → Nat → Option Bytes → Nat → Except E C) (r : RawBlob) (av : Nat) (b : BlobV C) :
    blobFromRaw commit r av = .ok b ↔
      ∃ ns c, Namespace.new (UInt8.ofNat r.namespaceVersion) r.namespaceId = .ok ns ∧
        r.shareVersion ≤ 255 ∧ commit ns r.data r.shareVersion (signerOfRaw r.signer) av = .ok c ∧
        b = { ns := ns, data := r.data, shareVersion := r.shareVersion, commitment := c, index := none,
              signer := signerOfRaw r.signer } := by
  unfold blobFromRaw
  cases hn : Namespace.new (UInt8.ofNat r.namespaceVersion) r.namespaceId with
  | error e => simp
  | ok ns =>
    by_cases hs : r.shareVersion > 255
    · simp only [hs, ↓reduceIte]
      constructor
      · intro h; cases h
      · rintro ⟨_, _, _, h, _⟩; omega
    · simp only [hs, ↓reduceIte]
      cases hc : commit ns r.data r.shareVersion (signerOfRaw r.signer) av with
      | error e =>
        constructor
        · intro h; cases h
        · rintro ⟨ns', c, e1, _, e3, _⟩
          injection e1 with e1; subst e1
          rw [hc] at e3; cases e3
      | ok c =>
        constructor
        · intro h
          injection h with h
          exact ⟨ns, c, rfl, by omega, hc, h.symm⟩
        · rintro ⟨ns', c', e1, _, e3, e4⟩
          injection e1 with e1; subst e1
          rw [hc] at e3; injection e3 with e3; subst e3
          rw [e4]

/-- with C12's commitment model: `Blob::validate(av) = Ok` is the commitment condition -/
theorem validate_ok_iff {D : Type} [DecidableEq D] (H : Merkle.HashFns D) (h : Nmt.HashFn) (b : Blob.Blob) (stored : D)
    (av : Nat) :
    Commitment.validate H h b stored av = .ok ↔
      Commitment.fromBlob H h b.ns b.data b.shareVersion b.signer av = .ok stored := by
  unfold Commitment.validate
  cases hf : Commitment.fromBlob H h b.ns b.data b.shareVersion b.signer av with
  | error e => simp
  | ok c =>
    by_cases hc : stored = c
    · subst hc; simp
    · simp only [ne_eq, hc, not_false_eq_true, ↓reduceIte]
      constructor
      · intro hh; cases hh
      · intro hh; injection hh with hh; exact absurd hh.symm hc

/-! ## Blob ↔ JSON -/

/-- what makes a `Blob` a value the JSON form can carry: valid namespace, 32-byte commitment
    (any: the JSON form does not recompute it), share version 0 without signer or 1 with a
    20-byte signer, index (if any) below 2^63 -/
def ValidBlobJson (b : BlobV Bytes) : Prop :=
  Namespace.fromRaw b.ns = .ok b.ns ∧ b.commitment.length = HASH_LEN ∧
  ((b.shareVersion = 0 ∧ b.signer = none) ∨
   (b.shareVersion = 1 ∧ ∃ s, b.signer = some s ∧ s.length = ACC_ADDRESS_LEN)) ∧
  (∀ i, b.index = some i → i ≤ I64_MAX_NAT)

theorem namespace_serde (ns : Bytes) (h : Namespace.fromRaw ns = .ok ns) :
    Namespace.deserialize (Namespace.serialize ns) = some ns := by
  have := Lumina.Props.C14.serde_spec ns (by rw [h]; rfl)
  cases hd : Namespace.deserialize (Namespace.serialize ns) with
  | none => rw [hd] at this; simp [Lumina.Props.C14.obsOfOpt, Lumina.Spec.C14.specSerde] at this
  | some x =>
    rw [hd] at this
    simp only [Lumina.Props.C14.obsOfOpt, Lumina.Spec.C14.specSerde, beq_iff_eq] at this
    rw [this]

theorem index_wire_roundtrip (i : Option Nat) (h : ∀ x, i = some x → x ≤ I64_MAX_NAT) :
    ∃ w, indexToWire i = some w ∧ indexFromWire w = i := by
  cases i with
  | none => exact ⟨-1, rfl, by decide⟩
  | some x =>
    refine ⟨(x : Int), by simp [indexToWire, h x rfl], ?_⟩
    have : (x : Int) ≥ 0 := by omega
    simp [indexFromWire, this]

theorem signer_wire_roundtrip (s : Option Bytes) (h : ∀ x, s = some x → x.length = ACC_ADDRESS_LEN) :
    signerFromWire (signerToWire s) = some s := by
  cases s with
  | none => rfl
  | some x =>
    have hl := h x rfl
    have hne : x.isEmpty = false := by
      cases x with
      | nil => simp [ACC_ADDRESS_LEN] at hl
      | cons a r => rfl
    simp [signerFromWire, signerToWire, Lumina.Proofs.Namespace.b64_roundtrip, hne, hl]

theorem blob_json_roundtrip (b : BlobV Bytes) (h : ValidBlobJson b) :
    ∃ j, blobToJson b = some j ∧ blobFromJson j = .ok b := by
  obtain ⟨h1, h2, h3, h4⟩ := h
  obtain ⟨w, hw1, hw2⟩ := index_wire_roundtrip b.index h4
  have hsl : ∀ x, b.signer = some x → x.length = ACC_ADDRESS_LEN := by
    intro x hx
    rcases h3 with ⟨_, hn⟩ | ⟨_, s, hs, hl⟩
    · rw [hn] at hx; cases hx
    · rw [hs] at hx; injection hx with hx; subst hx; exact hl
  have hv : validateBlobNoApp b.shareVersion b.signer.isSome = .ok () := by
    rcases h3 with ⟨e1, e2⟩ | ⟨e1, s, e2, _⟩ <;> simp [validateBlobNoApp, e1, e2]
  have hsv : ¬ b.shareVersion > 255 := by
    rcases h3 with ⟨e1, _⟩ | ⟨e1, _⟩ <;> omega
  refine ⟨{ ns := Namespace.serialize b.ns, data := Namespace.b64Encode b.data, shareVersion := b.shareVersion,
            commitment := Namespace.b64Encode b.commitment, index := some w, signer := signerToWire b.signer },
    by simp only [blobToJson, hw1], ?_⟩
  unfold blobFromJson
  simp only [namespace_serde _ h1, Lumina.Proofs.Namespace.b64_roundtrip, commitmentFromWire, h2, ↓reduceIte,
    signer_wire_roundtrip _ hsl, hsv, hw2, hv]

/-- exactly which JSON objects `Deserialize for Blob` accepts -/
theorem blobFromJson_ok_iff (j : JsonBlob) (b : BlobV Bytes) :
    blobFromJson j = .ok b ↔
      ∃ ns data c signer, Namespace.deserialize j.ns = some ns ∧ Namespace.b64Decode j.data = some data ∧
        commitmentFromWire j.commitment = some c ∧ signerFromWire j.signer = some signer ∧
        j.shareVersion ≤ 255 ∧ validateBlobNoApp j.shareVersion signer.isSome = .ok () ∧
        b = { ns := ns, data := data, shareVersion := j.shareVersion, commitment := c,
              index := (match j.index with | none => none | some v => indexFromWire v), signer := signer } := by
  unfold blobFromJson
  cases h1 : Namespace.deserialize j.ns with
  | none => simp
  | some ns =>
  cases h2 : Namespace.b64Decode j.data with
  | none => simp
  | some data =>
  cases h3 : commitmentFromWire j.commitment with
  | none => simp
  | some c =>
  cases h4 : signerFromWire j.signer with
  | none => simp
  | some signer =>
    simp only
    by_cases hs : j.shareVersion > 255
    · simp only [hs, ↓reduceIte]
      constructor
      · intro h; cases h
      · rintro ⟨_, _, _, _, _, _, _, _, h, _⟩; omega
    · simp only [hs, ↓reduceIte]
      cases hv : validateBlobNoApp j.shareVersion signer.isSome with
      | error e =>
        simp only
        constructor
        · intro h; cases h
        · rintro ⟨_, _, _, s', _, _, _, e4, _, e6, _⟩
          injection e4 with e4; subst e4
          rw [hv] at e6; cases e6
      | ok u =>
        simp only
        constructor
        · intro h
          injection h with h
          exact ⟨ns, data, c, signer, rfl, rfl, rfl, rfl, by omega, hv, h.symm⟩
        · rintro ⟨ns', d', c', s', e1, e2, e3, e4, _, _, e7⟩
          injection e1 with e1; injection e2 with e2; injection e3 with e3; injection e4 with e4
          subst e1 e2 e3 e4
          rw [e7]; rfl

/-! ## ExtendedHeader ↔ RawExtendedHeader -/

theorem eh_roundtrip {H C V RH RC RV : Type} (T : TmConv H C V RH RC RV) (validate : Eh H C V → Bool)
    (eh : Eh H C V)
    (hh : T.hFrom (T.hTo eh.header) = some eh.header)
    (hc : T.cFrom (T.cTo eh.commit) = some eh.commit)
    (hv : T.vFrom (T.vTo eh.validatorSet) = some eh.validatorSet)
    (hr : ∀ x ∈ eh.dah.rowRoots, x.WF) (hcr : ∀ x ∈ eh.dah.colRoots, x.WF)
    (hval : validate eh = true) :
    ehFromRaw T validate (ehToRaw T eh) = .ok eh := by
  unfold ehFromRaw ehToRaw
  simp only [hh, hc, hv, dah_roundtrip eh.dah hr hcr]
  cases eh
  simp only at hval ⊢
  rw [if_pos hval]

/-- exactly which raw headers `TryFrom<RawExtendedHeader>` accepts: all four messages present,
    each converts, and the assembled header passes `validate()` -/
theorem ehFromRaw_ok_iff {H C V RH RC RV : Type} (T : TmConv H C V RH RC RV) (validate : Eh H C V → Bool)
    (r : RawEh RH RC RV) (eh : Eh H C V) :
    ehFromRaw T validate r = .ok eh ↔
      ∃ rh rc rv rd, r.header = some rh ∧ r.commit = some rc ∧ r.validatorSet = some rv ∧ r.dah = some rd ∧
        T.hFrom rh = some eh.header ∧ T.cFrom rc = some eh.commit ∧ T.vFrom rv = some eh.validatorSet ∧
        dahFromRaw rd = some eh.dah ∧ validate eh = true := by
  unfold ehFromRaw
  cases h1 : r.header with
  | none => simp
  | some rh =>
  dsimp only
  cases h2 : T.hFrom rh with
  | none => simp [h2]
  | some h =>
  dsimp only
  cases h3 : r.commit with
  | none => simp
  | some rc =>
  dsimp only
  cases h4 : T.cFrom rc with
  | none => simp [h4]
  | some c =>
  dsimp only
  cases h5 : r.validatorSet with
  | none => simp
  | some rv =>
  dsimp only
  cases h6 : T.vFrom rv with
  | none => simp [h6]
  | some v =>
  dsimp only
  cases h7 : r.dah with
  | none => simp
  | some rd =>
  dsimp only
  cases h8 : dahFromRaw rd with
  | none => simp [h8]
  | some d =>
    simp only
    by_cases hv : validate ⟨h, c, v, d⟩ = true
    · rw [if_pos hv]
      constructor
      · intro e
        injection e with e
        subst e
        exact ⟨rh, rc, rv, rd, rfl, rfl, rfl, rfl, h2, h4, h6, h8, hv⟩
      · rintro ⟨rh', rc', rv', rd', e1, e2, e3, e4, f1, f2, f3, f4, _⟩
        injection e1 with e1; injection e2 with e2; injection e3 with e3; injection e4 with e4
        subst e1 e2 e3 e4
        rw [h2] at f1; rw [h4] at f2; rw [h6] at f3; rw [h8] at f4
        injection f1 with f1; injection f2 with f2; injection f3 with f3; injection f4 with f4
        cases eh
        simp only at f1 f2 f3 f4
        subst f1 f2 f3 f4
        rfl
    · rw [if_neg hv]
      constructor
      · intro e; cases e
      · rintro ⟨rh', rc', rv', rd', e1, e2, e3, e4, f1, f2, f3, f4, f5⟩
        injection e1 with e1; injection e2 with e2; injection e3 with e3; injection e4 with e4
        subst e1 e2 e3 e4
        rw [h2] at f1; rw [h4] at f2; rw [h6] at f3; rw [h8] at f4
        injection f1 with f1; injection f2 with f2; injection f3 with f3; injection f4 with f4
        cases eh
        simp only at f1 f2 f3 f4
        subst f1 f2 f3 f4
        exact absurd f5 hv

/-- the JSON layer `custom_serde` is a pair of mutually inverse field copies -/
theorem serde_eh_layer {RH B S RV : Type} (r : RawEh RH (RawCommit B S) RV) (s : SerdeEh RH B S RV) :
    rawEhOfSerde (serdeEhOfRaw r) = r ∧ serdeEhOfRaw (rawEhOfSerde s) = s := by
  constructor
  · obtain ⟨h, c, v, d⟩ := r
    cases c with
    | none => rfl
    | some c => rfl
  · obtain ⟨h, c, v, d⟩ := s
    cases c with
    | none => rfl
    | some c => rfl

end Lumina.Proofs.RoundTrip

/-
  `BlockRanges::tailn`, `BlockRanges::headn` and `BlockRanges::partitions`: closed forms of the
  loops and their characterisation through the abstract value `heights`.
  Core Lean only.
-/
import Lumina.Proofs.RangesOps

namespace Lumina.Proofs.Ranges
open Lumina.Model.Ranges hiding Inv

local notation "RInv" => Lumina.Model.Ranges.Inv

attribute [local simp] ok_bind err_bind map_ok map_err pure_eq throw_eq

/-! ### inserting above / below everything -/

theorem insertRelaxed_append_end {t : Ranges} {r : Range} (hi : RInv t) (hv : ValidR r)
    (hg : ∀ x ∈ t, x.2 + 1 < r.1) : insertRelaxed t r = .ok (t ++ [r]) := by
  obtain ⟨rs', h1, h2, h3⟩ := insertRelaxed_spec hi hv
  have hi' : RInv (t ++ [r]) := inv_append.2 ⟨hi, inv_singleton.2 hv, fun x hx y hy => by
    simp only [List.mem_singleton] at hy; subst hy; exact hg x hx⟩
  rw [h1]
  congr 1
  apply canonical h2 hi'
  intro h
  rw [h3, mem_append, mem_singleton]

theorem insertRelaxed_prepend {t : Ranges} {r : Range} (hi : RInv t) (hv : ValidR r)
    (hg : ∀ x ∈ t, r.2 + 1 < x.1) : insertRelaxed t r = .ok (r :: t) := by
  obtain ⟨rs', h1, h2, h3⟩ := insertRelaxed_spec hi hv
  have hi' : RInv (r :: t) := inv_cons.2 ⟨hg, hv, hi⟩
  rw [h1]
  congr 1
  apply canonical h2 hi'
  intro h
  rw [h3, mem_cons]
  exact Or.comm

theorem range'_split (s n c : Nat) (h : n ≤ c) :
    List.range' s c = List.range' s n ++ List.range' (s + n) (c - n) := by
  have e := @List.range'_append s n (c - n) 1
  rw [Nat.one_mul] at e
  rw [e]; congr 1; omega

theorem heights_cons (x : Range) (rs : Ranges) :
    heights (x :: rs) = List.range' x.1 (x.2 + 1 - x.1) ++ heights rs := by
  simp [heights]

theorem heights_append (a b : Ranges) : heights (a ++ b) = heights a ++ heights b := by
  simp [heights]

theorem heights_singleton (x : Range) : heights [x] = List.range' x.1 (x.2 + 1 - x.1) := by
  simp [heights]

/-! ### `tailn`: the `n` least members -/

/-- the value holding the `n` least heights of `rs` -/
def takeHeights : Ranges → Nat → Ranges
  | [], _ => []
  | x :: rest, n =>
    if n = 0 then []
    else if x.2 + 1 - x.1 ≤ n then x :: takeHeights rest (n - (x.2 + 1 - x.1))
    else [(x.1, x.1 + n - 1)]

theorem takeHeights_zero (rs : Ranges) : takeHeights rs 0 = [] := by
  cases rs <;> simp [takeHeights]

/-- every range of `takeHeights rs n` is an initial part of a range of `rs` -/
theorem takeHeights_sub : ∀ {rs : Ranges} {n : Nat}, (∀ r ∈ rs, ValidR r) →
    ∀ y ∈ takeHeights rs n, ∃ z ∈ rs, y.1 = z.1 ∧ y.1 ≤ y.2 ∧ y.2 ≤ z.2
  | [], _, _, y, hy => by simp [takeHeights] at hy
  | x :: rest, n, hv, y, hy => by
    have hvx := hv x (by simp)
    unfold ValidR at hvx
    simp only [takeHeights] at hy
    by_cases c0 : n = 0
    · simp [c0] at hy
    · by_cases c1 : x.2 + 1 - x.1 ≤ n
      · simp only [c0, ↓reduceIte, c1, List.mem_cons] at hy
        rcases hy with rfl | hy
        · exact ⟨y, by simp, rfl, hvx.2.1, Nat.le_refl _⟩
        · obtain ⟨z, hz, k⟩ := takeHeights_sub (fun r hr => hv r (List.mem_cons_of_mem _ hr)) y hy
          exact ⟨z, List.mem_cons_of_mem _ hz, k⟩
      · simp only [c0, ↓reduceIte, c1, List.mem_singleton] at hy
        subst hy
        exact ⟨x, by simp, rfl, by show x.1 ≤ x.1 + n - 1; omega, by show x.1 + n - 1 ≤ x.2; omega⟩

theorem takeHeights_inv : ∀ {rs : Ranges} (n : Nat), RInv rs → RInv (takeHeights rs n)
  | [], _, _ => by simpa [takeHeights] using inv_nil
  | x :: rest, n, hi => by
    obtain ⟨h1, hvx, hrest⟩ := inv_cons.1 hi
    have hvv := hvx
    unfold ValidR at hvv
    simp only [takeHeights]
    by_cases c0 : n = 0
    · simpa [c0] using inv_nil
    · by_cases c1 : x.2 + 1 - x.1 ≤ n
      · simp only [c0, ↓reduceIte, c1]
        refine inv_cons.2 ⟨?_, hvx, takeHeights_inv _ hrest⟩
        intro y hy
        obtain ⟨z, hz, k1, _, _⟩ := takeHeights_sub (fun r hr => inv_validR hrest hr) y hy
        have := h1 z hz
        omega
      · simp only [c0, ↓reduceIte, c1]
        exact inv_singleton.2 ⟨hvv.1, by show x.1 ≤ x.1 + n - 1; omega, by show x.1 + n - 1 ≤ U64_MAX; omega⟩

/-- `takeHeights rs n` holds an initial segment of the ascending list of heights, of length
    `min n (card rs)`: the `n` least members -/
theorem takeHeights_heights : ∀ {rs : Ranges} (n : Nat), (∀ r ∈ rs, ValidR r) →
    (∃ post, heights rs = heights (takeHeights rs n) ++ post) ∧
      card (takeHeights rs n) = min n (card rs)
  | [], n, _ => by simp [takeHeights, heights]
  | x :: rest, n, hv => by
    have hvx := hv x (by simp)
    unfold ValidR at hvx
    simp only [takeHeights]
    by_cases c0 : n = 0
    · simp [c0, heights]
    · by_cases c1 : x.2 + 1 - x.1 ≤ n
      · simp only [c0, ↓reduceIte, c1]
        obtain ⟨⟨post, hp⟩, hc⟩ := takeHeights_heights (n - (x.2 + 1 - x.1))
          (fun r hr => hv r (List.mem_cons_of_mem _ hr))
        refine ⟨⟨post, ?_⟩, ?_⟩
        · rw [heights_cons, heights_cons, hp, List.append_assoc]
        · rw [card_cons, card_cons, hc]; omega
      · simp only [c0, ↓reduceIte, c1]
        refine ⟨⟨List.range' (x.1 + n) (x.2 + 1 - x.1 - n) ++ heights rest, ?_⟩, ?_⟩
        · rw [heights_cons, heights_singleton, ← List.append_assoc]
          congr 1
          have e : x.1 + n - 1 + 1 - x.1 = n := by omega
          show _ = List.range' x.1 (x.1 + n - 1 + 1 - x.1) ++ _
          rw [e]
          exact range'_split _ _ _ (by omega)
        · simp only [card_cons, card_nil]; omega

theorem rangeTailn_eq {x : Range} (hv : ValidR x) {k : Nat} (hk : 1 ≤ k) :
    Range.tailn x k = if x.2 + 1 - x.1 ≤ k then x else (x.1, x.1 + k - 1) := by
  unfold ValidR at hv
  have h1 : Range.isEmpty x = false := by simp [Range.isEmpty, hv.2.1]
  have h2 : checkedSub k 1 = some (k - 1) := by simp [checkedSub, hk]
  simp only [Range.tailn, h1, Bool.false_eq_true, ↓reduceIte, h2, satAdd]
  by_cases c1 : x.2 + 1 - x.1 ≤ k
  · simp only [c1, ↓reduceIte]
    by_cases c2 : x.1 + (k - 1) ≤ U64_MAX
    · simp only [c2, ↓reduceIte]; apply Prod.ext <;> simp <;> omega
    · simp only [c2, ↓reduceIte]; apply Prod.ext <;> simp <;> omega
  · have c2 : x.1 + (k - 1) ≤ U64_MAX := by omega
    simp only [c1, ↓reduceIte, c2]
    apply Prod.ext <;> simp <;> omega

/-- the loop of `tailn` -/
theorem truncGo_tailn {limit : Nat} : ∀ {rest pre : Ranges}, RInv (pre ++ rest) → card pre ≤ limit →
    truncGo Range.tailn limit rest pre (card pre) = .ok (pre ++ takeHeights rest (limit - card pre))
  | [], pre, _, _ => by simp [truncGo, takeHeights]
  | x :: rest, pre, hi, hle => by
    obtain ⟨hpre, hxr, hc⟩ := inv_append.1 hi
    obtain ⟨hx1, hvx, hrest⟩ := inv_cons.1 hxr
    have hvv := hvx
    unfold ValidR at hvv
    by_cases ceq : card pre = limit
    · simp [truncGo, ceq, takeHeights]
    · have hk : 1 ≤ limit - card pre := by omega
      have hsub : subU64 limit (card pre) = .ok (limit - card pre) := by simp [subU64, hle]
      -- the piece taken from `x`
      let r : Range := if x.2 + 1 - x.1 ≤ limit - card pre then x else (x.1, x.1 + (limit - card pre) - 1)
      have hr : Range.tailn x (limit - card pre) = r := rangeTailn_eq hvx hk
      have hrv : ValidR r := by
        by_cases c1 : x.2 + 1 - x.1 ≤ limit - card pre
        · simp only [r, c1, ↓reduceIte]; exact hvx
        · simp only [r, c1, ↓reduceIte]
          exact ⟨hvv.1, by show x.1 ≤ x.1 + (limit - card pre) - 1; omega,
            by show x.1 + (limit - card pre) - 1 ≤ U64_MAX; omega⟩
      have hr1 : r.1 = x.1 := by
        by_cases c1 : x.2 + 1 - x.1 ≤ limit - card pre <;> simp [r, c1]
      have hr2 : r.2 ≤ x.2 := by
        by_cases c1 : x.2 + 1 - x.1 ≤ limit - card pre
        · simp [r, c1]
        · simp only [r, c1, ↓reduceIte]; omega
      have hins : insertRelaxed pre r = .ok (pre ++ [r]) :=
        insertRelaxed_append_end hpre hrv (fun y hy => by rw [hr1]; exact hc y hy x (by simp))
      have hi2 : RInv ((pre ++ [r]) ++ rest) := by
        refine inv_append.2 ⟨inv_append.2 ⟨hpre, inv_singleton.2 hrv, ?_⟩, hrest, ?_⟩
        · intro a ha b hb
          simp only [List.mem_singleton] at hb; subst hb
          rw [hr1]; exact hc a ha x (by simp)
        · intro a ha b hb
          rcases List.mem_append.1 ha with ha | ha
          · exact hc a ha b (List.mem_cons_of_mem _ hb)
          · simp only [List.mem_singleton] at ha; subst ha
            have := hx1 b hb; omega
      have hi3 : RInv (pre ++ [r]) := (inv_append.1 hi2).1
      have hcard : card (pre ++ [r]) = card pre + (r.2 + 1 - r.1) := by
        rw [card_append]; simp
      have hle2 : card (pre ++ [r]) ≤ limit := by
        rw [hcard]
        by_cases c1 : x.2 + 1 - x.1 ≤ limit - card pre
        · simp only [r, c1, ↓reduceIte]; omega
        · simp only [r, c1, ↓reduceIte]; omega
      have hadd : addU64 (card pre) (r.2 + 1 - r.1) = .ok (card (pre ++ [r])) := by
        have := card_le hi3
        rw [hcard] at this ⊢
        simp [addU64, this]
      have ih := truncGo_tailn (rest := rest) (pre := pre ++ [r]) hi2 hle2
      have hne : (card pre == limit) = false := by simpa using ceq
      rw [truncGo]
      simp only [hne, Bool.false_eq_true, ↓reduceIte, hsub, ok_bind, hr, rangeLen_ok hrv, hadd, hins,
        expectOk_ok, len_spec hi3, debugAssert, beq_self_eq_true, hle2, decide_true]
      rw [ih, List.append_assoc]
      congr 1
      -- the closed form
      simp only [takeHeights]
      have hn0 : ¬ (limit - card pre = 0) := by omega
      by_cases c1 : x.2 + 1 - x.1 ≤ limit - card pre
      · have hrx : r = x := by simp [r, c1]
        have e : limit - card (pre ++ [x]) = limit - card pre - (x.2 + 1 - x.1) := by
          rw [card_append]; simp only [card_cons, card_nil]; omega
        simp only [hn0, ↓reduceIte, c1, hrx, List.singleton_append, e]
      · have hrx : r = (x.1, x.1 + (limit - card pre) - 1) := by simp [r, c1]
        have hz : limit - card (pre ++ [(x.1, x.1 + (limit - card pre) - 1)]) = 0 := by
          rw [card_append]; simp only [card_cons, card_nil]; omega
        simp only [hn0, ↓reduceIte, c1, hrx]
        rw [hz, takeHeights_zero]
        simp

/-- `tailn` (after the repair of `BlockRange::tailn`): never panics on an `Inv` value, and
    returns the closed form `takeHeights` -/
theorem tailn_eq {rs : Ranges} (hi : RInv rs) (limit : Nat) : tailn rs limit = .ok (takeHeights rs limit) := by
  have := truncGo_tailn (limit := limit) (rest := rs) (pre := []) (by simpa using hi) (by simp)
  simpa [tailn] using this

/-- `tailn`: `Inv` result holding the `min limit (card rs)` least members -/
theorem tailn_spec {rs : Ranges} (hi : RInv rs) (limit : Nat) :
    ∃ out, tailn rs limit = .ok out ∧ RInv out ∧
      (∃ post, heights rs = heights out ++ post) ∧ card out = min limit (card rs) :=
  ⟨_, tailn_eq hi limit, takeHeights_inv limit hi,
    (takeHeights_heights limit (fun r hr => inv_validR hi hr)).1,
    (takeHeights_heights limit (fun r hr => inv_validR hi hr)).2⟩

/-! ### `headn`: the `n` greatest members -/

/-- the value holding the `n` greatest heights; the argument lists the ranges in DESCENDING order
    (as `headn` iterates them) -/
def lastHeights : List Range → Nat → Ranges
  | [], _ => []
  | x :: rest, n =>
    if n = 0 then []
    else if x.2 + 1 - x.1 ≤ n then lastHeights rest (n - (x.2 + 1 - x.1)) ++ [x]
    else [(x.2 + 1 - n, x.2)]

theorem lastHeights_zero (l : List Range) : lastHeights l 0 = [] := by
  cases l <;> simp [lastHeights]

theorem card_reverse (l : Ranges) : card l.reverse = card l := by
  induction l with
  | nil => rfl
  | cons x l ih => rw [List.reverse_cons, card_append, ih]; simp; omega

/-- every range of `lastHeights l n` is a final part of a range of `l` -/
theorem lastHeights_sub : ∀ {l : List Range} {n : Nat}, (∀ r ∈ l, ValidR r) →
    ∀ y ∈ lastHeights l n, ∃ z ∈ l, y.2 = z.2 ∧ y.1 ≤ y.2 ∧ z.1 ≤ y.1
  | [], _, _, y, hy => by simp [lastHeights] at hy
  | x :: rest, n, hv, y, hy => by
    have hvx := hv x (by simp)
    unfold ValidR at hvx
    simp only [lastHeights] at hy
    by_cases c0 : n = 0
    · simp [c0] at hy
    · by_cases c1 : x.2 + 1 - x.1 ≤ n
      · simp only [c0, ↓reduceIte, c1, List.mem_append, List.mem_singleton] at hy
        rcases hy with hy | rfl
        · obtain ⟨z, hz, k⟩ := lastHeights_sub (fun r hr => hv r (List.mem_cons_of_mem _ hr)) y hy
          exact ⟨z, List.mem_cons_of_mem _ hz, k⟩
        · exact ⟨y, by simp, rfl, hvx.2.1, Nat.le_refl _⟩
      · simp only [c0, ↓reduceIte, c1, List.mem_singleton] at hy
        subst hy
        exact ⟨x, by simp, rfl, by show x.2 + 1 - n ≤ x.2; omega, by show x.1 ≤ x.2 + 1 - n; omega⟩

theorem lastHeights_inv : ∀ {l : List Range} (n : Nat), RInv l.reverse → RInv (lastHeights l n)
  | [], _, _ => by simpa [lastHeights] using inv_nil
  | x :: rest, n, hi => by
    rw [List.reverse_cons] at hi
    obtain ⟨hrest, hx, hc⟩ := inv_append.1 hi
    have hvx : ValidR x := inv_singleton.1 hx
    have hvv := hvx
    unfold ValidR at hvv
    simp only [lastHeights]
    by_cases c0 : n = 0
    · simpa [c0] using inv_nil
    · by_cases c1 : x.2 + 1 - x.1 ≤ n
      · simp only [c0, ↓reduceIte, c1]
        refine inv_append.2 ⟨lastHeights_inv _ hrest, hx, ?_⟩
        intro y hy z hz
        simp only [List.mem_singleton] at hz; subst hz
        obtain ⟨w, hw, k1, _, _⟩ := lastHeights_sub
          (fun r hr => inv_validR hrest (List.mem_reverse.2 hr)) y hy
        have := hc w (List.mem_reverse.2 hw) z (by simp)
        omega
      · simp only [c0, ↓reduceIte, c1]
        exact inv_singleton.2 ⟨by show 1 ≤ x.2 + 1 - n; omega, by show x.2 + 1 - n ≤ x.2; omega, hvv.2.2⟩

/-- `lastHeights l n` holds a final segment of the ascending list of heights, of length
    `min n (card l)`: the `n` greatest members -/
theorem lastHeights_heights : ∀ {l : List Range} (n : Nat), (∀ r ∈ l, ValidR r) →
    (∃ pre, heights l.reverse = pre ++ heights (lastHeights l n)) ∧
      card (lastHeights l n) = min n (card l)
  | [], n, _ => by simp [lastHeights, heights]
  | x :: rest, n, hv => by
    have hvx := hv x (by simp)
    unfold ValidR at hvx
    simp only [lastHeights, List.reverse_cons, heights_append, heights_singleton]
    by_cases c0 : n = 0
    · simp [c0, heights]
    · by_cases c1 : x.2 + 1 - x.1 ≤ n
      · simp only [c0, ↓reduceIte, c1]
        obtain ⟨⟨pre, hp⟩, hc⟩ := lastHeights_heights (n - (x.2 + 1 - x.1))
          (fun r hr => hv r (List.mem_cons_of_mem _ hr))
        refine ⟨⟨pre, ?_⟩, ?_⟩
        · rw [hp, heights_append, heights_singleton, List.append_assoc]
        · rw [card_append, card_cons, hc]; simp only [card_cons, card_nil]; omega
      · simp only [c0, ↓reduceIte, c1]
        refine ⟨⟨heights rest.reverse ++ List.range' x.1 (x.2 + 1 - x.1 - n), ?_⟩, ?_⟩
        · rw [heights_singleton, List.append_assoc]
          congr 1
          have e : x.2 + 1 - (x.2 + 1 - n) = n := by omega
          show _ = _ ++ List.range' (x.2 + 1 - n) (x.2 + 1 - (x.2 + 1 - n))
          rw [e]
          have := range'_split x.1 (x.2 + 1 - x.1 - n) (x.2 + 1 - x.1) (by omega)
          rw [this]
          congr 2 <;> omega
        · simp only [card_cons, card_nil]; omega

theorem rangeHeadn_eq {x : Range} (hv : ValidR x) {k : Nat} (hk : 1 ≤ k) :
    Range.headn x k = if x.2 + 1 - x.1 ≤ k then x else (x.2 + 1 - k, x.2) := by
  unfold ValidR at hv
  have h1 : Range.isEmpty x = false := by simp [Range.isEmpty, hv.2.1]
  have h3 : x.2 - k + 1 ≤ U64_MAX := by omega
  have h2 : checkedAdd (satSub x.2 k) 1 = some (x.2 - k + 1) := by simp [checkedAdd, satSub, h3]
  simp only [Range.headn, h1, Bool.false_eq_true, ↓reduceIte, h2]
  by_cases c1 : x.2 + 1 - x.1 ≤ k
  · simp only [c1, ↓reduceIte]; apply Prod.ext <;> simp <;> omega
  · simp only [c1, ↓reduceIte]; apply Prod.ext <;> simp <;> omega

/-- the loop of `headn` (ranges visited in descending order, pieces prepended) -/
theorem truncGo_headn {limit : Nat} : ∀ {rest post : Ranges}, RInv (rest.reverse ++ post) →
    card post ≤ limit →
    truncGo Range.headn limit rest post (card post) = .ok (lastHeights rest (limit - card post) ++ post)
  | [], post, _, _ => by simp [truncGo, lastHeights]
  | x :: rest, post, hi, hle => by
    rw [List.reverse_cons, List.append_assoc] at hi
    obtain ⟨hrest, hxp, hc⟩ := inv_append.1 hi
    have hxp' : RInv (x :: post) := by simpa using hxp
    obtain ⟨hx1, hvx, hpost⟩ := inv_cons.1 hxp'
    have hvv := hvx
    unfold ValidR at hvv
    by_cases ceq : card post = limit
    · simp [truncGo, ceq, lastHeights]
    · have hk : 1 ≤ limit - card post := by omega
      have hsub : subU64 limit (card post) = .ok (limit - card post) := by simp [subU64, hle]
      let r : Range := if x.2 + 1 - x.1 ≤ limit - card post then x else (x.2 + 1 - (limit - card post), x.2)
      have hr : Range.headn x (limit - card post) = r := rangeHeadn_eq hvx hk
      have hrv : ValidR r := by
        by_cases c1 : x.2 + 1 - x.1 ≤ limit - card post
        · simp only [r, c1, ↓reduceIte]; exact hvx
        · simp only [r, c1, ↓reduceIte]
          exact ⟨by show 1 ≤ x.2 + 1 - (limit - card post); omega,
            by show x.2 + 1 - (limit - card post) ≤ x.2; omega, hvv.2.2⟩
      have hr2 : r.2 = x.2 := by
        by_cases c1 : x.2 + 1 - x.1 ≤ limit - card post <;> simp [r, c1]
      have hr1 : x.1 ≤ r.1 := by
        by_cases c1 : x.2 + 1 - x.1 ≤ limit - card post
        · simp [r, c1]
        · simp only [r, c1, ↓reduceIte]; omega
      have hins : insertRelaxed post r = .ok (r :: post) :=
        insertRelaxed_prepend hpost hrv (fun y hy => by rw [hr2]; exact hx1 y hy)
      have hi3 : RInv (r :: post) := inv_cons.2 ⟨fun y hy => by rw [hr2]; exact hx1 y hy, hrv, hpost⟩
      have hi2 : RInv (rest.reverse ++ (r :: post)) := by
        refine inv_append.2 ⟨hrest, hi3, ?_⟩
        intro a ha b hb
        rcases List.mem_cons.1 hb with rfl | hb
        · have := hc a ha x (by simp); omega
        · exact hc a ha b (by simp [hb])
      have hcard : card (r :: post) = (r.2 + 1 - r.1) + card post := card_cons r post
      have hle2 : card (r :: post) ≤ limit := by
        rw [hcard]
        by_cases c1 : x.2 + 1 - x.1 ≤ limit - card post
        · simp only [r, c1, ↓reduceIte]; omega
        · simp only [r, c1, ↓reduceIte]; omega
      have hadd : addU64 (card post) (r.2 + 1 - r.1) = .ok (card (r :: post)) := by
        have := card_le hi3
        rw [hcard] at this ⊢
        have h' : card post + (r.2 + 1 - r.1) ≤ U64_MAX := by omega
        simp only [addU64, h', ↓reduceIte]
        congr 1; omega
      have ih := truncGo_headn (rest := rest) (post := r :: post) hi2 hle2
      have hne : (card post == limit) = false := by simpa using ceq
      rw [truncGo]
      simp only [hne, Bool.false_eq_true, ↓reduceIte, hsub, ok_bind, hr, rangeLen_ok hrv, hadd, hins,
        expectOk_ok, len_spec hi3, debugAssert, beq_self_eq_true, hle2, decide_true]
      rw [ih]
      congr 1
      simp only [lastHeights]
      have hn0 : ¬ (limit - card post = 0) := by omega
      by_cases c1 : x.2 + 1 - x.1 ≤ limit - card post
      · have hrx : r = x := by simp [r, c1]
        have e : limit - card (x :: post) = limit - card post - (x.2 + 1 - x.1) := by
          rw [card_cons]; omega
        simp only [hn0, ↓reduceIte, c1, hrx, e, List.append_assoc, List.singleton_append]
      · have hrx : r = (x.2 + 1 - (limit - card post), x.2) := by simp [r, c1]
        have hz : limit - card ((x.2 + 1 - (limit - card post), x.2) :: post) = 0 := by
          rw [card_cons]; simp only; omega
        simp only [hn0, ↓reduceIte, c1, hrx]
        rw [hz, lastHeights_zero]
        simp

theorem headn_eq {rs : Ranges} (hi : RInv rs) (limit : Nat) :
    headn rs limit = .ok (lastHeights rs.reverse limit) := by
  have := truncGo_headn (limit := limit) (rest := rs.reverse) (post := [])
    (by simpa using hi) (by simp)
  simpa [headn] using this

/-- `headn`: never panics on an `Inv` value; `Inv` result holding the `min limit (card rs)`
    greatest members -/
theorem headn_spec {rs : Ranges} (hi : RInv rs) (limit : Nat) :
    ∃ out, headn rs limit = .ok out ∧ RInv out ∧
      (∃ pre, heights rs = pre ++ heights out) ∧ card out = min limit (card rs) := by
  have hv : ∀ r ∈ rs.reverse, ValidR r := fun r hr => inv_validR hi (List.mem_reverse.1 hr)
  have h1 := lastHeights_heights limit hv
  rw [List.reverse_reverse, card_reverse] at h1
  exact ⟨_, headn_eq hi limit, lastHeights_inv limit (by simpa using hi), h1.1, h1.2⟩

/-! ### `partitions` -/

/-- `pop_tail` in terms of the ascending list of heights -/
theorem popTail_heights {r : Range} {rs : Ranges} (hi : RInv (r :: rs)) :
    ∃ rs', popTail (r :: rs) = .ok (some r.1, rs') ∧ RInv rs' ∧
      heights (r :: rs) = r.1 :: heights rs' ∧ card rs' + 1 = card (r :: rs) := by
  obtain ⟨h1, hv, hrs⟩ := inv_cons.1 hi
  have hvv := hv
  unfold ValidR at hvv
  by_cases hone : r.1 = r.2
  · refine ⟨rs, ?_, hrs, ?_, ?_⟩
    · have : r.2 + 1 - r.1 = 1 := by omega
      simp [popTail, rangeLen_ok hv, this]
    · have : r.2 + 1 - r.1 = 1 := by omega
      rw [heights_cons, this]; rfl
    · rw [card_cons]; omega
  · refine ⟨(r.1 + 1, r.2) :: rs, ?_, ?_, ?_, ?_⟩
    · have h2 : ¬ (r.2 + 1 - r.1 = 1) := by omega
      have h3 : r.1 + 1 ≤ U64_MAX := by omega
      simp [popTail, rangeLen_ok hv, h2, addU64, h3]
    · exact inv_cons.2 ⟨h1, ⟨by show 1 ≤ r.1 + 1; omega, by show r.1 + 1 ≤ r.2; omega, hvv.2.2⟩, hrs⟩
    · rw [heights_cons, heights_cons]
      have e : r.2 + 1 - r.1 = (r.2 + 1 - (r.1 + 1)) + 1 := by omega
      show List.range' r.1 (r.2 + 1 - r.1) ++ _ = r.1 :: (List.range' (r.1 + 1) (r.2 + 1 - (r.1 + 1)) ++ _)
      rw [e, List.range'_succ]
      simp
    · simp only [card_cons]; omega

/-- `pop_head` in terms of the ascending list of heights -/
theorem popHead_heights {r : Range} {ys : Ranges} (hi : RInv (ys ++ [r])) :
    ∃ rs', popHead (ys ++ [r]) = .ok (some r.2, rs') ∧ RInv rs' ∧
      heights (ys ++ [r]) = heights rs' ++ [r.2] ∧ card rs' + 1 = card (ys ++ [r]) := by
  obtain ⟨hys, hr, hc⟩ := inv_append.1 hi
  have hv : ValidR r := inv_singleton.1 hr
  have hvv := hv
  unfold ValidR at hvv
  have hlast : (ys ++ [r]).getLast? = some r := List.getLast?_concat
  have hdl : (ys ++ [r]).dropLast = ys := List.dropLast_concat
  by_cases hone : r.1 = r.2
  · refine ⟨ys, ?_, hys, ?_, ?_⟩
    · have : r.2 + 1 - r.1 = 1 := by omega
      simp [popHead, hlast, hdl, rangeLen_ok hv, this]
    · have : r.2 + 1 - r.1 = 1 := by omega
      rw [heights_append, heights_singleton, this, hone]; rfl
    · rw [card_append]; simp; omega
  · refine ⟨ys ++ [(r.1, r.2 - 1)], ?_, ?_, ?_, ?_⟩
    · have h2 : ¬ (r.2 + 1 - r.1 = 1) := by omega
      have h3 : 1 ≤ r.2 := by omega
      simp [popHead, hlast, hdl, rangeLen_ok hv, h2, subU64, h3]
    · refine inv_append.2 ⟨hys, inv_singleton.2 ⟨hvv.1, by show r.1 ≤ r.2 - 1; omega, by show r.2 - 1 ≤ U64_MAX; omega⟩, ?_⟩
      intro x hx y hy
      simp only [List.mem_singleton] at hy
      subst hy
      exact hc x hx r (by simp)
    · rw [heights_append, heights_append, heights_singleton, heights_singleton, List.append_assoc]
      congr 1
      have e : r.2 + 1 - r.1 = (r.2 - 1 + 1 - r.1) + 1 := by omega
      show List.range' r.1 (r.2 + 1 - r.1) = List.range' r.1 (r.2 - 1 + 1 - r.1) ++ [r.2]
      rw [e, List.range'_concat]
      congr 2
      omega
    · simp only [card_append, card_cons, card_nil]; omega

/-- second phase of the `partitions` loop: once `left_len ≥ middle` every range goes right -/
theorem partitionsGo_right {middle ll : Nat} {left : Ranges} (hll : middle ≤ ll) :
    ∀ {rest right : Ranges}, RInv (right ++ rest) → ll + card rest ≤ U64_MAX →
      partitionsGo middle rest left right ll = .ok (left, right ++ rest, ll)
  | [], right, _, _ => by simp [partitionsGo]
  | x :: rest, right, hi, hb => by
    obtain ⟨hr, hxr, hc⟩ := inv_append.1 hi
    obtain ⟨hx1, hvx, hrest⟩ := inv_cons.1 hxr
    have hvv := hvx
    unfold ValidR at hvv
    rw [card_cons] at hb
    have h1 : ll + (x.2 + 1 - x.1) ≤ U64_MAX := by omega
    have h2 : ¬ ll + (x.2 + 1 - x.1) ≤ middle := by omega
    have h3 : ¬ ll < middle := by omega
    have hins : insertRelaxed right x = .ok (right ++ [x]) :=
      insertRelaxed_append_end hr hvx (fun y hy => hc y hy x (by simp))
    have hi2 : RInv ((right ++ [x]) ++ rest) := by simpa [List.append_assoc] using hi
    have ih := partitionsGo_right (left := left) hll (rest := rest) (right := right ++ [x]) hi2 (by omega)
    rw [partitionsGo]
    simp only [rangeLen_ok hvx, ok_bind, addU64, h1, ↓reduceIte, h2, h3, hins, expectOk_ok, ih]
    simp [List.append_assoc]

/-- first phase of the `partitions` loop (while `left_len ≤ middle`, `right` still empty) -/
theorem partitionsGo_left {middle : Nat} : ∀ {rest left : Ranges}, RInv (left ++ rest) →
    card left ≤ middle → 2 * middle ≤ card (left ++ rest) →
    ∃ L R, partitionsGo middle rest left [] (card left) = .ok (L, R, card L) ∧ RInv L ∧ RInv R ∧
      heights L ++ heights R = heights (left ++ rest) ∧
      ((card L ≤ middle ∧ R = []) ∨ (card L = middle ∧ R ≠ []) ∨ card L = middle + 1)
  | [], left, hi, hle, _ => by
    refine ⟨left, [], by simp [partitionsGo], by simpa using hi, inv_nil, by simp [heights], Or.inl ⟨hle, rfl⟩⟩
  | x :: rest, left, hi, hle, htot => by
    obtain ⟨hl, hxr, hc⟩ := inv_append.1 hi
    obtain ⟨hx1, hvx, hrest⟩ := inv_cons.1 hxr
    have hvv := hvx
    unfold ValidR at hvv
    have htotal := card_le hi
    have hcardall : card (left ++ x :: rest) = card left + (x.2 + 1 - x.1) + card rest := by
      rw [card_append, card_cons]; omega
    rw [hcardall] at htot htotal
    have h1 : card left + (x.2 + 1 - x.1) ≤ U64_MAX := by omega
    by_cases c1 : card left + (x.2 + 1 - x.1) ≤ middle
    · -- the whole range goes left
      have hins : insertRelaxed left x = .ok (left ++ [x]) :=
        insertRelaxed_append_end hl hvx (fun y hy => hc y hy x (by simp))
      have hi2 : RInv ((left ++ [x]) ++ rest) := by simpa [List.append_assoc] using hi
      have hcard2 : card (left ++ [x]) = card left + (x.2 + 1 - x.1) := by
        rw [card_append]; simp
      have hA : card (left ++ [x]) ≤ middle := by rw [hcard2]; exact c1
      have hB : 2 * middle ≤ card ((left ++ [x]) ++ rest) := by rw [card_append, hcard2]; exact htot
      obtain ⟨L, R, e, k1, k2, k3, k4⟩ := partitionsGo_left (rest := rest) (left := left ++ [x]) hi2 hA hB
      refine ⟨L, R, ?_, k1, k2, by simpa [List.append_assoc] using k3, k4⟩
      rw [partitionsGo]
      simp only [rangeLen_ok hvx, ok_bind, addU64, h1, ↓reduceIte, c1, hins, expectOk_ok]
      rw [← hcard2]; exact e
    · by_cases c2 : card left < middle
      · -- the range straddles the middle
        have hb := card_bound hxr x.1 (fun r hr => (inv_head_le hxr r hr).1) (by omega)
        rw [card_cons] at hb
        have h2 : x.1 + middle ≤ U64_MAX := by omega
        have h3 : card left ≤ x.1 + middle := by omega
        obtain ⟨le, hledef⟩ : ∃ le, le = x.1 + middle - card left := ⟨_, rfl⟩
        have hle1 : x.1 ≤ le := by omega
        have hle2 : le ≤ x.2 := by omega
        have hvl : ValidR (x.1, le) := ⟨hvv.1, hle1, by show le ≤ U64_MAX; omega⟩
        have hlen : le + 1 - x.1 = middle - card left + 1 := by omega
        have h4 : card left + (middle - card left + 1) ≤ U64_MAX := by omega
        have hinsl : insertRelaxed left (x.1, le) = .ok (left ++ [(x.1, le)]) :=
          insertRelaxed_append_end hl hvl (fun y hy => hc y hy x (by simp))
        have hcardl : card (left ++ [(x.1, le)]) = middle + 1 := by
          rw [card_append]; simp only [card_cons, card_nil]; omega
        -- the right part of the split range
        obtain ⟨right, hrdef⟩ : ∃ right : Ranges, right = if le < x.2 then [(le + 1, x.2)] else [] := ⟨_, rfl⟩
        have hiR : RInv (right ++ rest) := by
          by_cases c3 : le < x.2
          · simp only [hrdef, c3, ↓reduceIte, List.singleton_append]
            exact inv_cons.2 ⟨fun y hy => by have := hx1 y hy; show x.2 + 1 < y.1; exact this,
              ⟨by show 1 ≤ le + 1; omega, by show le + 1 ≤ x.2; omega, hvv.2.2⟩, hrest⟩
          · simpa [hrdef, c3] using hrest
        have hiL : RInv (left ++ [(x.1, le)]) :=
          inv_append.2 ⟨hl, inv_singleton.2 hvl, fun a ha b hb' => by
            simp only [List.mem_singleton] at hb'; subst hb'; exact hc a ha x (by simp)⟩
        have hB := partitionsGo_right (middle := middle) (ll := middle + 1) (left := left ++ [(x.1, le)])
          (by omega) (rest := rest) (right := right) hiR (by omega)
        refine ⟨left ++ [(x.1, le)], right ++ rest, ?_, hiL, hiR, ?_, Or.inr (Or.inr hcardl)⟩
        · rw [partitionsGo]
          have hsub : subU64 (x.1 + middle) (card left) = .ok le := by simp [subU64, h3, hledef]
          have hrl : Range.len (x.1, le) = .ok (middle - card left + 1) := by
            rw [rangeLen_ok hvl]; congr 1
          simp only [rangeLen_ok hvx, ok_bind, addU64, h1, ↓reduceIte, c1, c2, h2, hsub, hrl, h4,
            hinsl, expectOk_ok]
          rw [show card left + (middle - card left + 1) = middle + 1 by omega, hcardl]
          by_cases c3 : le < x.2
          · have h5 : le + 1 ≤ U64_MAX := by omega
            have hv2 : ValidR (le + 1, x.2) := ⟨by show 1 ≤ le + 1; omega, by show le + 1 ≤ x.2; omega, hvv.2.2⟩
            have hins2 := insertRelaxed_append_end (t := []) inv_nil hv2 (by simp)
            simp only [List.nil_append] at hins2
            have hr : right = [(le + 1, x.2)] := by simp [hrdef, c3]
            simp only [c3, ↓reduceIte, h5, ok_bind, hins2, expectOk_ok]
            rw [hr] at hB ⊢; exact hB
          · have hr : right = [] := by simp [hrdef, c3]
            simp only [c3, ↓reduceIte, ok_bind, pure_eq]
            rw [hr] at hB ⊢; simpa using hB
        · rw [heights_append, heights_append, heights_append, heights_singleton, heights_cons,
            List.append_assoc]
          congr 1
          rw [← List.append_assoc]
          congr 1
          show List.range' x.1 (le + 1 - x.1) ++ heights right = List.range' x.1 (x.2 + 1 - x.1)
          by_cases c3 : le < x.2
          · simp only [hrdef, c3, ↓reduceIte, heights_singleton]
            rw [range'_split x.1 (le + 1 - x.1) (x.2 + 1 - x.1) (by omega)]
            congr 2 <;> omega
          · have : le = x.2 := by omega
            simp [hrdef, c3, heights, this]
      · -- exactly `middle` heights are on the left: everything else goes right
        have hcl : card left = middle := by omega
        have hB := partitionsGo_right (middle := middle) (ll := card left) (left := left)
          (by omega) (rest := x :: rest) (right := []) (by simpa using hxr) (by rw [card_cons]; omega)
        refine ⟨left, x :: rest, by simpa using hB, hl, hxr, by rw [heights_append], Or.inr (Or.inl ⟨hcl, by simp⟩)⟩

/-- **`partitions`**: `None` exactly for the empty value; otherwise `(left, middle, right)` with
    `heights left ++ middle :: heights right = heights rs` (so `left < middle < right` and together
    they are the set) and sizes differing by at most one.  No arithmetic overflow (in particular
    not in `start + middle - left_len`), no failed `expect`. -/
theorem partitions_spec {rs : Ranges} (hi : RInv rs) :
    (rs = [] ∧ partitions rs = .ok none) ∨
    (rs ≠ [] ∧ ∃ l m r, partitions rs = .ok (some (l, m, r)) ∧ RInv l ∧ RInv r ∧
      heights l ++ m :: heights r = heights rs ∧ card l ≤ card r + 1 ∧ card r ≤ card l + 1) := by
  by_cases hnil : rs = []
  · subst hnil
    exact Or.inl ⟨rfl, by simp [partitions, len, lenGo]⟩
  · right
    refine ⟨hnil, ?_⟩
    have hpos : card rs ≠ 0 := fun h => hnil ((card_eq_zero_iff hi).1 h)
    obtain ⟨L, R, e, hL, hR, hh, hcase⟩ := partitionsGo_left (middle := card rs / 2) (rest := rs)
      (left := []) (by simpa using hi) (by simp) (by simp only [List.nil_append]; omega)
    simp only [List.nil_append, card_nil] at e hh
    have hlen : card L + card R = card rs := by
      have := congrArg List.length hh
      simpa [card_eq_length_heights] using this
    have hne : (card rs == 0) = false := by simpa using hpos
    have hstart : partitions rs = (do
        let rl ← len R
        if card L < rl then do
          let (m, right') ← popTail R
          match m with
          | some m => pure (some (L, m, right'))
          | none => pure none
        else do
          let (m, left') ← popHead L
          match m with
          | some m => pure (some (left', m, R))
          | none => pure none) := by
      simp only [partitions, len_spec hi, ok_bind, hne, Bool.false_eq_true, ↓reduceIte, e]
      rfl
    rw [hstart, len_spec hR]
    simp only [ok_bind]
    by_cases clt : card L < card R
    · -- the middle is the tail of `right`
      simp only [clt, ↓reduceIte]
      cases R with
      | nil => simp at clt
      | cons r R' =>
        obtain ⟨rs', p1, p2, p3, p4⟩ := popTail_heights hR
        refine ⟨L, r.1, rs', by simp [p1], hL, p2, by rw [← hh, p3], ?_, ?_⟩
        · omega
        · rcases hcase with ⟨_, h⟩ | ⟨h, _⟩ | h
          · cases h
          · omega
          · omega
    · simp only [clt, ↓reduceIte]
      have hLne : L ≠ [] := by
        intro h
        subst h
        simp only [card_nil] at hlen clt hcase
        rcases hcase with ⟨_, h⟩ | ⟨h, _⟩ | h
        · subst h; simp at hlen; omega
        · omega
        · omega
      rcases List.eq_nil_or_concat L with h | ⟨ys, z, h⟩
      · exact absurd h hLne
      · rw [List.concat_eq_append] at h
        subst h
        obtain ⟨rs', p1, p2, p3, p4⟩ := popHead_heights hL
        refine ⟨rs', z.2, R, by simp [p1], p2, hR, ?_, ?_, ?_⟩
        · rw [← hh, p3, List.append_assoc]; rfl
        · omega
        · rcases hcase with ⟨h1, h2⟩ | ⟨h1, _⟩ | h1
          · subst h2; simp at hlen; omega
          · omega
          · omega

end Lumina.Proofs.Ranges

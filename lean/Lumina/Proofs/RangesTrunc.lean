/-
  `BlockRanges::tailn`, `BlockRanges::headn` and `BlockRanges::partitions`: closed forms of the
  loops and their characterisation through the abstract value `heights`.
  Core Lean only.
-/
import Lumina.Proofs.RangesOps

namespace Lumina.Proofs.Ranges
open Lumina.Model.Ranges hiding Inv

local notation "RInv" => Lumina.Model.Ranges.Inv

attribute [local simp] ok_bind err_bind map_ok map_err pure_eq throw_eq

/-! ### inserting above / below everything -/

theorem insertRelaxed_append_end {t : Ranges} {r : Range} (hi : RInv t) (hv : ValidR r)
    (hg : ∀ x ∈ t, x.2 + 1 < r.1) : insertRelaxed t r = .ok (t ++ [r]) := by
  obtain ⟨rs', h1, h2, h3⟩ := insertRelaxed_spec hi hv
  have hi' : RInv (t ++ [r]) := inv_append.2 ⟨hi, inv_singleton.2 hv, fun x hx y hy => by
    simp only [List.mem_singleton] at hy; subst hy; exact hg x hx⟩
  rw [h1]
  congr 1
  apply canonical h2 hi'
  intro h
  rw [h3, mem_append, mem_singleton]

theorem insertRelaxed_prepend {t : Ranges} {r : Range} (hi : RInv t) (hv : ValidR r)
    (hg : ∀ x ∈ t, r.2 + 1 < x.1) : insertRelaxed t r = .ok (r :: t) := by
  obtain ⟨rs', h1, h2, h3⟩ := insertRelaxed_spec hi hv
  have hi' : RInv (r :: t) := inv_cons.2 ⟨hg, hv, hi⟩
  rw [h1]
  congr 1
  apply canonical h2 hi'
  intro h
  rw [h3, mem_cons]
  exact Or.comm

theorem range'_split (s n c : Nat) (h : n ≤ c) :
    List.range' s c = List.range' s n ++ List.range' (s + n) (c - n) := by
  have e := @List.range'_append s n (c - n) 1
  rw [Nat.one_mul] at e
  rw [e]; congr 1; omega

theorem heights_cons (x : Range) (rs : Ranges) :
    heights (x :: rs) = List.range' x.1 (x.2 + 1 - x.1) ++ heights rs := by
  simp [heights]

theorem heights_append (a b : Ranges) : heights (a ++ b) = heights a ++ heights b := by
  simp [heights]

theorem heights_singleton (x : Range) : heights [x] = List.range' x.1 (x.2 + 1 - x.1) := by
  simp [heights]

/-! ### `tailn`: the `n` least members -/

/-- the value holding the `n` least heights of `rs` -/
def takeHeights : Ranges → Nat → Ranges
  | [], _ => []
  | x :: rest, n =>
    if n = 0 then []
    else if x.2 + 1 - x.1 ≤ n then x :: takeHeights rest (n - (x.2 + 1 - x.1))
    else [(x.1, x.1 + n - 1)]

theorem takeHeights_zero (rs : Ranges) : takeHeights rs 0 = [] := by
  cases rs <;> simp [takeHeights]

/-- every range of `takeHeights rs n` is an initial part of a range of `rs` -/
theorem takeHeights_sub : ∀ {rs : Ranges} {n : Nat}, (∀ r ∈ rs, ValidR r) →
    ∀ y ∈ takeHeights rs n, ∃ z ∈ rs, y.1 = z.1 ∧ y.1 ≤ y.2 ∧ y.2 ≤ z.2
  | [], _, _, y, hy => by simp [takeHeights] at hy
  | x :: rest, n, hv, y, hy => by
    have hvx := hv x (by simp)
    unfold ValidR at hvx
    simp only [takeHeights] at hy
    by_cases c0 : n = 0
    · simp [c0] at hy
    · by_cases c1 : x.2 + 1 - x.1 ≤ n
      · simp only [c0, ↓reduceIte, c1, List.mem_cons] at hy
        rcases hy with rfl | hy
        · exact ⟨y, by simp, rfl, hvx.2.1, Nat.le_refl _⟩
        · obtain ⟨z, hz, k⟩ := takeHeights_sub (fun r hr => hv r (List.mem_cons_of_mem _ hr)) y hy
          exact ⟨z, List.mem_cons_of_mem _ hz, k⟩
      · simp only [c0, ↓reduceIte, c1, List.mem_singleton] at hy
        subst hy
        exact ⟨x, by simp, rfl, by show x.1 ≤ x.1 + n - 1; omega, by show x.1 + n - 1 ≤ x.2; omega⟩

theorem takeHeights_inv : ∀ {rs : Ranges} (n : Nat), RInv rs → RInv (takeHeights rs n)
  | [], _, _ => by simpa [takeHeights] using inv_nil
  | x :: rest, n, hi => by
    obtain ⟨h1, hvx, hrest⟩ := inv_cons.1 hi
    have hvv := hvx
    unfold ValidR at hvv
    simp only [takeHeights]
    by_cases c0 : n = 0
    · simpa [c0] using inv_nil
    · by_cases c1 : x.2 + 1 - x.1 ≤ n
      · simp only [c0, ↓reduceIte, c1]
        refine inv_cons.2 ⟨?_, hvx, takeHeights_inv _ hrest⟩
        intro y hy
        obtain ⟨z, hz, k1, _, _⟩ := takeHeights_sub (fun r hr => inv_validR hrest hr) y hy
        have := h1 z hz
        omega
      · simp only [c0, ↓reduceIte, c1]
        exact inv_singleton.2 ⟨hvv.1, by show x.1 ≤ x.1 + n - 1; omega, by show x.1 + n - 1 ≤ U64_MAX; omega⟩

/-- `takeHeights rs n` holds an initial segment of the ascending list of heights, of length
    `min n (card rs)`: the `n` least members -/
theorem takeHeights_heights : ∀ {rs : Ranges} (n : Nat), (∀ r ∈ rs, ValidR r) →
    (∃ post, heights rs = heights (takeHeights rs n) ++ post) ∧
      card (takeHeights rs n) = min n (card rs)
  | [], n, _ => by simp [takeHeights, heights]
  | x :: rest, n, hv => by
    have hvx := hv x (by simp)
    unfold ValidR at hvx
    simp only [takeHeights]
    by_cases c0 : n = 0
    · simp [c0, heights]
    · by_cases c1 : x.2 + 1 - x.1 ≤ n
      · simp only [c0, ↓reduceIte, c1]
        obtain ⟨⟨post, hp⟩, hc⟩ := takeHeights_heights (n - (x.2 + 1 - x.1))
          (fun r hr => hv r (List.mem_cons_of_mem _ hr))
        refine ⟨⟨post, ?_⟩, ?_⟩
        · rw [heights_cons, heights_cons, hp, List.append_assoc]
        · rw [card_cons, card_cons, hc]; omega
      · simp only [c0, ↓reduceIte, c1]
        refine ⟨⟨List.range' (x.1 + n) (x.2 + 1 - x.1 - n) ++ heights rest, ?_⟩, ?_⟩
        · rw [heights_cons, heights_singleton, ← List.append_assoc]
          congr 1
          have e : x.1 + n - 1 + 1 - x.1 = n := by omega
          show _ = List.range' x.1 (x.1 + n - 1 + 1 - x.1) ++ _
          rw [e]
          exact range'_split _ _ _ (by omega)
        · simp only [card_cons, card_nil]; omega

theorem rangeTailn_eq {x : Range} (hv : ValidR x) {k : Nat} (hk : 1 ≤ k) :
    Range.tailn x k = if x.2 + 1 - x.1 ≤ k then x else (x.1, x.1 + k - 1) := by
  unfold ValidR at hv
  have h1 : Range.isEmpty x = false := by simp [Range.isEmpty, hv.2.1]
  have h2 : checkedSub k 1 = some (k - 1) := by simp [checkedSub, hk]
  simp only [Range.tailn, h1, Bool.false_eq_true, ↓reduceIte, h2, satAdd]
  by_cases c1 : x.2 + 1 - x.1 ≤ k
  · simp only [c1, ↓reduceIte]
    by_cases c2 : x.1 + (k - 1) ≤ U64_MAX
    · simp only [c2, ↓reduceIte]; apply Prod.ext <;> simp <;> omega
    · simp only [c2, ↓reduceIte]; apply Prod.ext <;> simp <;> omega
  · have c2 : x.1 + (k - 1) ≤ U64_MAX := by omega
    simp only [c1, ↓reduceIte, c2]
    apply Prod.ext <;> simp <;> omega

/-- the loop of `tailn` -/
theorem truncGo_tailn {limit : Nat} : ∀ {rest pre : Ranges}, RInv (pre ++ rest) → card pre ≤ limit →
    truncGo Range.tailn limit rest pre (card pre) = .ok (pre ++ takeHeights rest (limit - card pre))
  | [], pre, _, _ => by simp [truncGo, takeHeights]
  | x :: rest, pre, hi, hle => by
    obtain ⟨hpre, hxr, hc⟩ := inv_append.1 hi
    obtain ⟨hx1, hvx, hrest⟩ := inv_cons.1 hxr
    have hvv := hvx
    unfold ValidR at hvv
    by_cases ceq : card pre = limit
    · simp [truncGo, ceq, takeHeights]
    · have hk : 1 ≤ limit - card pre := by omega
      have hsub : subU64 limit (card pre) = .ok (limit - card pre) := by simp [subU64, hle]
      -- the piece taken from `x`
      let r : Range := if x.2 + 1 - x.1 ≤ limit - card pre then x else (x.1, x.1 + (limit - card pre) - 1)
      have hr : Range.tailn x (limit - card pre) = r := rangeTailn_eq hvx hk
      have hrv : ValidR r := by
        by_cases c1 : x.2 + 1 - x.1 ≤ limit - card pre
        · simp only [r, c1, ↓reduceIte]; exact hvx
        · simp only [r, c1, ↓reduceIte]
          exact ⟨hvv.1, by show x.1 ≤ x.1 + (limit - card pre) - 1; omega,
            by show x.1 + (limit - card pre) - 1 ≤ U64_MAX; omega⟩
      have hr1 : r.1 = x.1 := by
        by_cases c1 : x.2 + 1 - x.1 ≤ limit - card pre <;> simp [r, c1]
      have hr2 : r.2 ≤ x.2 := by
        by_cases c1 : x.2 + 1 - x.1 ≤ limit - card pre
        · simp [r, c1]
        · simp only [r, c1, ↓reduceIte]; omega
      have hins : insertRelaxed pre r = .ok (pre ++ [r]) :=
        insertRelaxed_append_end hpre hrv (fun y hy => by rw [hr1]; exact hc y hy x (by simp))
      have hi2 : RInv ((pre ++ [r]) ++ rest) := by
        refine inv_append.2 ⟨inv_append.2 ⟨hpre, inv_singleton.2 hrv, ?_⟩, hrest, ?_⟩
        · intro a ha b hb
          simp only [List.mem_singleton] at hb; subst hb
          rw [hr1]; exact hc a ha x (by simp)
        · intro a ha b hb
          rcases List.mem_append.1 ha with ha | ha
          · exact hc a ha b (List.mem_cons_of_mem _ hb)
          · simp only [List.mem_singleton] at ha; subst ha
            have := hx1 b hb; omega
      have hi3 : RInv (pre ++ [r]) := (inv_append.1 hi2).1
      have hcard : card (pre ++ [r]) = card pre + (r.2 + 1 - r.1) := by
        rw [card_append]; simp
      have hle2 : card (pre ++ [r]) ≤ limit := by
        rw [hcard]
        by_cases c1 : x.2 + 1 - x.1 ≤ limit - card pre
        · simp only [r, c1, ↓reduceIte]; omega
        · simp only [r, c1, ↓reduceIte]; omega
      have hadd : addU64 (card pre) (r.2 + 1 - r.1) = .ok (card (pre ++ [r])) := by
        have := card_le hi3
        rw [hcard] at this ⊢
        simp [addU64, this]
      have ih := truncGo_tailn (rest := rest) (pre := pre ++ [r]) hi2 hle2
      have hne : (card pre == limit) = false := by simpa using ceq
      rw [truncGo]
      simp only [hne, Bool.false_eq_true, ↓reduceIte, hsub, ok_bind, hr, rangeLen_ok hrv, hadd, hins,
        expectOk_ok, len_spec hi3, debugAssert, beq_self_eq_true, hle2, decide_true]
      rw [ih, List.append_assoc]
      congr 1
      -- the closed form
      simp only [takeHeights]
      have hn0 : ¬ (limit - card pre = 0) := by omega
      by_cases c1 : x.2 + 1 - x.1 ≤ limit - card pre
      · have hrx : r = x := by simp [r, c1]
        have e : limit - card (pre ++ [x]) = limit - card pre - (x.2 + 1 - x.1) := by
          rw [card_append]; simp only [card_cons, card_nil]; omega
        simp only [hn0, ↓reduceIte, c1, hrx, List.singleton_append, e]
      · have hrx : r = (x.1, x.1 + (limit - card pre) - 1) := by simp [r, c1]
        have hz : limit - card (pre ++ [(x.1, x.1 + (limit - card pre) - 1)]) = 0 := by
          rw [card_append]; simp only [card_cons, card_nil]; omega
        simp only [hn0, ↓reduceIte, c1, hrx]
        rw [hz, takeHeights_zero]
        simp

/-- `tailn` (after the repair of `BlockRange::tailn`): never panics on an `Inv` value, and
    returns the closed form `takeHeights` -/
theorem tailn_eq {rs : Ranges} (hi : RInv rs) (limit : Nat) : tailn rs limit = .ok (takeHeights rs limit) := by
  have := truncGo_tailn (limit := limit) (rest := rs) (pre := []) (by simpa using hi) (by simp)
  simpa [tailn] using this

/-- `tailn`: `Inv` result holding the `min limit (card rs)` least members -/
theorem tailn_spec {rs : Ranges} (hi : RInv rs) (limit : Nat) :
    ∃ out, tailn rs limit = .ok out ∧ RInv out ∧
      (∃ post, heights rs = heights out ++ post) ∧ card out = min limit (card rs) :=
  ⟨_, tailn_eq hi limit, takeHeights_inv limit hi,
    (takeHeights_heights limit (fun r hr => inv_validR hi hr)).1,
    (takeHeights_heights limit (fun r hr => inv_validR hi hr)).2⟩

/-! ### `headn`: the `n` greatest members -/

/-- the value holding the `n` greatest heights; the argument lists the ranges in DESCENDING order
    (as `headn` iterates them) -/
def lastHeights : List Range → Nat → Ranges
  | [], _ => []
  | x :: rest, n =>
    if n = 0 then []
    else if x.2 + 1 - x.1 ≤ n then lastHeights rest (n - (x.2 + 1 - x.1)) ++ [x]
    else [(x.2 + 1 - n, x.2)]

theorem lastHeights_zero (l : List Range) : lastHeights l 0 = [] := by
  cases l <;> simp [lastHeights]

theorem card_reverse (l : Ranges) : card l.reverse = card l := by
  induction l with
  | nil => rfl
  | cons x l ih => rw [List.reverse_cons, card_append, ih]; simp; omega

/-- every range of `lastHeights l n` is a final part of a range of `l` -/
theorem lastHeights_sub : ∀ {l : List Range} {n : Nat}, (∀ r ∈ l, ValidR r) →
    ∀ y ∈ lastHeights l n, ∃ z ∈ l, y.2 = z.2 ∧ y.1 ≤ y.2 ∧ z.1 ≤ y.1
  | [], _, _, y, hy => by simp [lastHeights] at hy
  | x :: rest, n, hv, y, hy => by
    have hvx := hv x (by simp)
    unfold ValidR at hvx
    simp only [lastHeights] at hy
    by_cases c0 : n = 0
    · simp [c0] at hy
    · by_cases c1 : x.2 + 1 - x.1 ≤ n
      · simp only [c0, ↓reduceIte, c1, List.mem_append, List.mem_singleton] at hy
        rcases hy with hy | rfl
        · obtain ⟨z, hz, k⟩ := lastHeights_sub (fun r hr => hv r (List.mem_cons_of_mem _ hr)) y hy
          exact ⟨z, List.mem_cons_of_mem _ hz, k⟩
        · exact ⟨y, by simp, rfl, hvx.2.1, Nat.le_refl _⟩
      · simp only [c0, ↓reduceIte, c1, List.mem_singleton] at hy
        subst hy
        exact ⟨x, by simp, rfl, by show x.2 + 1 - n ≤ x.2; omega, by show x.1 ≤ x.2 + 1 - n; omega⟩

theorem lastHeights_inv : ∀ {l : List Range} (n : Nat), RInv l.reverse → RInv (lastHeights l n)
  | [], _, _ => by simpa [lastHeights] using inv_nil
  | x :: rest, n, hi => by
    rw [List.reverse_cons] at hi
    obtain ⟨hrest, hx, hc⟩ := inv_append.1 hi
    have hvx : ValidR x := inv_singleton.1 hx
    have hvv := hvx
    unfold ValidR at hvv
    simp only [lastHeights]
    by_cases c0 : n = 0
    · simpa [c0] using inv_nil
    · by_cases c1 : x.2 + 1 - x.1 ≤ n
      · simp only [c0, ↓reduceIte, c1]
        refine inv_append.2 ⟨lastHeights_inv _ hrest, hx, ?_⟩
        intro y hy z hz
        simp only [List.mem_singleton] at hz; subst hz
        obtain ⟨w, hw, k1, _, _⟩ := lastHeights_sub
          (fun r hr => inv_validR hrest (List.mem_reverse.2 hr)) y hy
        have := hc w (List.mem_reverse.2 hw) z (by simp)
        omega
      · simp only [c0, ↓reduceIte, c1]
        exact inv_singleton.2 ⟨by show 1 ≤ x.2 + 1 - n; omega, by show x.2 + 1 - n ≤ x.2; omega, hvv.2.2⟩

/-- `lastHeights l n` holds a final segment of the ascending list of heights, of length
    `min n (card l)`: the `n` greatest members -/
theorem lastHeights_heights : ∀ {l : List Range} (n : Nat), (∀ r ∈ l, ValidR r) →
    (∃ pre, heights l.reverse = pre ++ heights (lastHeights l n)) ∧
      card (lastHeights l n) = min n (card l)
  | [], n, _ => by simp [lastHeights, heights]
  | x :: rest, n, hv => by
    have hvx := hv x (by simp)
    unfold ValidR at hvx
    simp only [lastHeights, List.reverse_cons, heights_append, heights_singleton]
    by_cases c0 : n = 0
    · simp [c0, heights]
    · by_cases c1 : x.2 + 1 - x.1 ≤ n
      · simp only [c0, ↓reduceIte, c1]
        obtain ⟨⟨pre, hp⟩, hc⟩ := lastHeights_heights (n - (x.2 + 1 - x.1))
          (fun r hr => hv r (List.mem_cons_of_mem _ hr))
        refine ⟨⟨pre, ?_⟩, ?_⟩
        · rw [hp, heights_append, heights_singleton, List.append_assoc]
        · rw [card_append, card_cons, hc]; simp only [card_cons, card_nil]; omega
      · simp only [c0, ↓reduceIte, c1]
        refine ⟨⟨heights rest.reverse ++ List.range' x.1 (x.2 + 1 - x.1 - n), ?_⟩, ?_⟩
        · rw [heights_singleton, List.append_assoc]
          congr 1
          have e : x.2 + 1 - (x.2 + 1 - n) = n := by omega
          show _ = _ ++ List.range' (x.2 + 1 - n) (x.2 + 1 - (x.2 + 1 - n))
          rw [e]
          have := range'_split x.1 (x.2 + 1 - x.1 - n) (x.2 + 1 - x.1) (by omega)
          rw [this]
          congr 2 <;> omega
        · simp only [card_cons, card_nil]; omega

theorem rangeHeadn_eq {x : Range} (hv : ValidR x) {k : Nat} (hk : 1 ≤ k) :
    Range.headn x k = if x.2 + 1 - x.1 ≤ k then x else (x.2 + 1 - k, x.2) := by
  unfold ValidR at hv
  have h1 : Range.isEmpty x = false := by simp [Range.isEmpty, hv.2.1]
  have h3 : x.2 - k + 1 ≤ U64_MAX := by omega
  have h2 : checkedAdd (satSub x.2 k) 1 = some (x.2 - k + 1) := by simp [checkedAdd, satSub, h3]
  simp only [Range.headn, h1, Bool.false_eq_true, ↓reduceIte, h2]
  by_cases c1 : x.2 + 1 - x.1 ≤ k
  · simp only [c1, ↓reduceIte]; apply Prod.ext <;> simp <;> omega
  · simp only [c1, ↓reduceIte]; apply Prod.ext <;> simp <;> omega

/-- the loop of `headn` (ranges visited in descending order, pieces prepended) -/
theorem truncGo_headn {limit : Nat} : ∀ {rest post : Ranges}, RInv (rest.reverse ++ post) →
    card post ≤ limit →
    truncGo Range.headn limit rest post (card post) = .ok (lastHeights rest (limit - card post) ++ post)
  | [], post, _, _ => by simp [truncGo, lastHeights]
  | x :: rest, post, hi, hle => by
    rw [List.reverse_cons, List.append_assoc] at hi
    obtain ⟨hrest, hxp, hc⟩ := inv_append.1 hi
    have hxp' : RInv (x :: post) := by simpa using hxp
    obtain ⟨hx1, hvx, hpost⟩ := inv_cons.1 hxp'
    have hvv := hvx
    unfold ValidR at hvv
    by_cases ceq : card post = limit
    · simp [truncGo, ceq, lastHeights]
    · have hk : 1 ≤ limit - card post := by omega
      have hsub : subU64 limit (card post) = .ok (limit - card post) := by simp [subU64, hle]
      let r : Range := if x.2 + 1 - x.1 ≤ limit - card post then x else (x.2 + 1 - (limit - card post), x.2)
      have hr : Range.headn x (limit - card post) = r := rangeHeadn_eq hvx hk
      have hrv : ValidR r := by
        by_cases c1 : x.2 + 1 - x.1 ≤ limit - card post
        · simp only [r, c1, ↓reduceIte]; exact hvx
        · simp only [r, c1, ↓reduceIte]
          exact ⟨by show 1 ≤ x.2 + 1 - (limit - card post); omega,
            by show x.2 + 1 - (limit - card post) ≤ x.2; omega, hvv.2.2⟩
      have hr2 : r.2 = x.2 := by
        by_cases c1 : x.2 + 1 - x.1 ≤ limit - card post <;> simp [r, c1]
      have hr1 : x.1 ≤ r.1 := by
        by_cases c1 : x.2 + 1 - x.1 ≤ limit - card post
        · simp [r, c1]
        · simp only [r, c1, ↓reduceIte]; omega
      have hins : insertRelaxed post r = .ok (r :: post) :=
        insertRelaxed_prepend hpost hrv (fun y hy => by rw [hr2]; exact hx1 y hy)
      have hi3 : RInv (r :: post) := inv_cons.2 ⟨fun y hy => by rw [hr2]; exact hx1 y hy, hrv, hpost⟩
      have hi2 : RInv (rest.reverse ++ (r :: post)) := by
        refine inv_append.2 ⟨hrest, hi3, ?_⟩
        intro a ha b hb
        rcases List.mem_cons.1 hb with rfl | hb
        · have := hc a ha x (by simp); omega
        · exact hc a ha b (by simp [hb])
      have hcard : card (r :: post) = (r.2 + 1 - r.1) + card post := card_cons r post
      have hle2 : card (r :: post) ≤ limit := by
        rw [hcard]
        by_cases c1 : x.2 + 1 - x.1 ≤ limit - card post
        · simp only [r, c1, ↓reduceIte]; omega
        · simp only [r, c1, ↓reduceIte]; omega
      have hadd : addU64 (card post) (r.2 + 1 - r.1) = .ok (card (r :: post)) := by
        have := card_le hi3
        rw [hcard] at this ⊢
        have h' : card post + (r.2 + 1 - r.1) ≤ U64_MAX := by omega
        simp only [addU64, h', ↓reduceIte]
        congr 1; omega
      have ih := truncGo_headn (rest := rest) (post := r :: post) hi2 hle2
      have hne : (card post == limit) = false := by simpa using ceq
      rw [truncGo]
      simp only [hne, Bool.false_eq_true, ↓reduceIte, hsub, ok_bind, hr, rangeLen_ok hrv, hadd, hins,
        expectOk_ok, len_spec hi3, debugAssert, beq_self_eq_true, hle2, decide_true]
      rw [ih]
      congr 1
      simp only [lastHeights]
      have hn0 : ¬ (limit - card post = 0) := by omega
      by_cases c1 : x.2 + 1 - x.1 ≤ limit - card post
      · have hrx : r = x := by simp [r, c1]
        have e : limit - card (x :: post) = limit - card post - (x.2 + 1 - x.1) := by
          rw [card_cons]; omega
        simp only [hn0, ↓reduceIte, c1, hrx, e, List.append_assoc, List.singleton_append]
      · have hrx : r = (x.2 + 1 - (limit - card post), x.2) := by simp [r, c1]
        have hz : limit - card ((x.2 + 1 - (limit - card post), x.2) :: post) = 0 := by
          rw [card_cons]; simp only; omega
        simp only [hn0, ↓reduceIte, c1, hrx]
        rw [hz, lastHeights_zero]
        simp

theorem headn_eq {rs : Ranges} (hi : RInv rs) (limit : Nat) :
    headn rs limit = .ok (lastHeights rs.reverse limit) := by
  have := truncGo_headn (limit := limit) (rest := rs.reverse) (post := [])
    (by simpa using hi) (by simp)
  simpa [headn] using this

/-- `headn`: never panics on an `Inv` value; `Inv` result holding the `min limit (card rs)`
    greatest members -/
theorem headn_spec {rs : Ranges} (hi : RInv rs) (limit : Nat) :
    ∃ out, headn rs limit = .ok out ∧ RInv out ∧
      (∃ pre, heights rs = pre ++ heights out) ∧ card out = min limit (card rs) := by
  have hv : ∀ r ∈ rs.reverse, ValidR r := fun r hr => inv_validR hi (List.mem_reverse.1 hr)
  have h1 := lastHeights_heights limit hv
  rw [List.reverse_reverse, card_reverse] at h1
  exact ⟨_, headn_eq hi limit, lastHeights_inv limit (by simpa using hi), h1.1, h1.2⟩

end Lumina.Proofs.Ranges

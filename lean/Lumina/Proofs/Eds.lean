/-
  Helper lemmas about the EDS / DAH model (`Lumina/Model/Eds.lean`): what the collected axes and roots are.
-/
import Lumina.Proofs.Nmt
import Lumina.Model.Eds

namespace Lumina.Proofs.Eds
open Lumina.Util Lumina.Model.Nmt Lumina.Proofs.Nmt Lumina.Model.Eds

theorem optAll_some {α} : ∀ {l : List (Option α)} {r : List α}, optAll l = some r →
    r.length = l.length ∧ ∀ i, i < l.length → l[i]? = some (r[i]?) := by
  intro l
  induction l with
  | nil => intro r h; simp [optAll] at h; subst h; simp
  | cons a t ih =>
    intro r h
    cases a with
    | none => simp [optAll] at h
    | some x =>
      simp only [optAll] at h
      cases ht : optAll t with
      | none => simp [ht] at h
      | some xs =>
        simp only [ht, Option.some.injEq] at h
        subst h
        obtain ⟨h1, h2⟩ := ih ht
        refine ⟨by simp [h1], ?_⟩
        intro i hi
        cases i with
        | zero => simp
        | succ i' => simpa using h2 i' (by simpa using hi)

theorem exceptAll_ok {ε α} : ∀ {l : List (Except ε α)} {r : List α}, exceptAll l = .ok r →
    r.length = l.length ∧ ∀ i, i < l.length → ∃ x, l[i]? = some (.ok x) ∧ r[i]? = some x := by
  intro l
  induction l with
  | nil => intro r h; simp [exceptAll] at h; subst h; simp
  | cons a t ih =>
    intro r h
    cases a with
    | error e => simp [exceptAll] at h
    | ok x =>
      simp only [exceptAll] at h
      cases ht : exceptAll t with
      | error e => simp [ht] at h
      | ok xs =>
        simp only [ht, Except.ok.injEq] at h
        subst h
        obtain ⟨h1, h2⟩ := ih ht
        refine ⟨by simp [h1], ?_⟩
        intro i hi
        cases i with
        | zero => exact ⟨x, by simp, by simp⟩
        | succ i' => simpa using h2 i' (by simpa using hi)

/-- the shares of an axis that exists: `width` of them, the `i`-th at the axis coordinate -/
theorem axis?_some {e : Eds} {ax : Axis} {index : Nat} {shares : List Share} (h : e.axis? ax index = some shares) :
    shares.length = e.width ∧ ∀ i, i < e.width →
      ∃ sh, e.share? (axisCoord ax index i).1 (axisCoord ax index i).2 = some sh ∧ shares[i]? = some sh := by
  unfold Eds.axis? at h
  obtain ⟨h1, h2⟩ := optAll_some h
  simp only [List.length_map, List.length_range] at h1 h2
  refine ⟨h1, fun i hi => ?_⟩
  have := h2 i hi
  simp only [List.getElem?_map, List.getElem?_range hi, Option.map_some] at this
  cases hs : shares[i]? with
  | none => rw [List.getElem?_eq_none_iff] at hs; omega
  | some sh => exact ⟨sh, by simpa [hs] using this, rfl⟩

theorem pushLeaves_some {H : HashFn} {leaves : List (Bytes × Bytes)} {hs : List NsHash}
    (h : pushLeaves H leaves = some hs) : hs = leaves.map (fun p => hashLeaf H p.1 p.2) := by
  unfold pushLeaves at h
  split at h
  · injection h with h; rw [← h]
  · cases h

/-- an axis root that exists is the root of the leaf hashes of that axis' shares -/
theorem axisRoot_ok {H : HashFn} {e : Eds} {ax : Axis} {index : Nat} {root : NsHash}
    (h : e.axisRoot H ax index = .ok root) :
    ∃ shares, e.axis? ax index = some shares ∧ computeRoot H true (shares.map (Share.leafHash H)) = .ok root ∧
      e.axisLeafHashes H ax index = .ok (shares.map (Share.leafHash H)) := by
  unfold Eds.axisRoot Eds.axisLeafHashes at h
  cases ha : e.axis? ax index with
  | none => simp [ha] at h
  | some shares =>
    simp only [ha] at h
    cases hp : pushLeaves H (shares.map Share.leaf) with
    | none => simp [hp] at h
    | some hs =>
      simp only [hp] at h
      have := pushLeaves_some hp
      have hmap : hs = shares.map (Share.leafHash H) := by
        rw [this]; simp [List.map_map, Share.leaf, Share.leafHash, Function.comp_def]
      subst hmap
      cases hc : computeRoot H true (shares.map (Share.leafHash H)) with
      | error er => simp [hc] at h
      | ok r =>
        simp only [hc, Except.ok.injEq] at h
        subst h
        exact ⟨shares, rfl, hc, by unfold Eds.axisLeafHashes; simp [ha, hp]⟩

/-- the roots of a DAH built from a square -/
theorem dah_ofEds_roots {H : HashFn} {e : Eds} {dah : Dah} (h : Dah.ofEds H e = .ok dah) :
    dah.rowRoots.length = e.width ∧ dah.colRoots.length = e.width ∧
    (∀ i, i < e.width → ∃ r, e.axisRoot H .row i = .ok r ∧ dah.rowRoots[i]? = some r) ∧
    (∀ i, i < e.width → ∃ r, e.axisRoot H .col i = .ok r ∧ dah.colRoots[i]? = some r) := by
  unfold Dah.ofEds at h
  cases hr : exceptAll ((List.range e.width).map (fun i => e.rowRoot H i)) with
  | error er => simp [hr] at h
  | ok rs =>
    cases hc : exceptAll ((List.range e.width).map (fun i => e.colRoot H i)) with
    | error er => simp [hr, hc] at h
    | ok cs =>
      simp only [hr, hc, Except.ok.injEq] at h
      subst h
      obtain ⟨r1, r2⟩ := exceptAll_ok hr
      obtain ⟨c1, c2⟩ := exceptAll_ok hc
      simp only [List.length_map, List.length_range] at r1 r2 c1 c2
      refine ⟨r1, c1, fun i hi => ?_, fun i hi => ?_⟩
      · obtain ⟨x, hx1, hx2⟩ := r2 i hi
        simp only [List.getElem?_map, List.getElem?_range hi, Option.map_some, Option.some.injEq] at hx1
        exact ⟨x, hx1, hx2⟩
      · obtain ⟨x, hx1, hx2⟩ := c2 i hi
        simp only [List.getElem?_map, List.getElem?_range hi, Option.map_some, Option.some.injEq] at hx1
        exact ⟨x, hx1, hx2⟩

/-! ### the byte strings hashed by `Dah.ofEds H e` (for relative collision-freeness, see `Proofs/Nmt.lean`) -/

/-- inputs hashed for one axis tree: the leaf preimages `0x00 ‖ ns ‖ share` and the inner-node preimages -/
def axisInputs (H : HashFn) (e : Eds) (ax : Axis) (i : Nat) : List Bytes :=
  match e.axis? ax i with
  | none => []
  | some shares =>
    shares.map (fun sh => leafInput sh.ns sh.data) ++
      rootInputs H true (shares.length + 1) (shares.map (Share.leafHash H))

/-- all inputs hashed when the DAH of the square is computed (every row and column tree), plus the empty string
    (the preimage of the constant `EMPTY_ROOT` the verifiers compare against) -/
def edsInputs (H : HashFn) (e : Eds) : List Bytes :=
  [] :: (List.range e.width).flatMap (fun i => axisInputs H e .row i ++ axisInputs H e .col i)

theorem nil_mem_edsInputs (H : HashFn) (e : Eds) : ([] : Bytes) ∈ edsInputs H e := by simp [edsInputs]

theorem axisInputs_mem_eds {H : HashFn} {e : Eds} {ax : Axis} {i : Nat} (hi : i < e.width) {y : Bytes}
    (hy : y ∈ axisInputs H e ax i) : y ∈ edsInputs H e := by
  unfold edsInputs
  apply List.mem_cons_of_mem
  rw [List.mem_flatMap]
  refine ⟨i, List.mem_range.mpr hi, ?_⟩
  cases ax
  · exact List.mem_append_left _ hy
  · exact List.mem_append_right _ hy

/-- the leaf hashes of an axis are leaf hashes whose preimages are among the axis inputs -/
theorem axis_allLeafOn {H : HashFn} {e : Eds} {ax : Axis} {i : Nat} {shares : List Share}
    (hax : e.axis? ax i = some shares) (hsz : ∀ sh ∈ shares, NS_SIZE ≤ sh.data.length) :
    AllLeafOn H (fun y => y ∈ axisInputs H e ax i) (shares.map (Share.leafHash H)) := by
  intro x hx
  obtain ⟨sh, hsh, rfl⟩ := List.mem_map.mp hx
  refine ⟨sh.ns, sh.data, ?_, rfl, ?_⟩
  · unfold Share.ns
    split
    · simp [parityNs, maxNsId]
    · have := hsz sh hsh
      simp [List.length_take]; omega
  · unfold axisInputs; rw [hax]
    exact List.mem_append_left _ (List.mem_map.mpr ⟨sh, hsh, rfl⟩)

theorem axis_rootInputs_mem {H : HashFn} {e : Eds} {ax : Axis} {i : Nat} {shares : List Share}
    (hax : e.axis? ax i = some shares) {y : Bytes}
    (hy : y ∈ rootInputs H true ((shares.map (Share.leafHash H)).length + 1) (shares.map (Share.leafHash H))) :
    y ∈ axisInputs H e ax i := by
  unfold axisInputs; rw [hax]
  apply List.mem_append_right
  simpa using hy

end Lumina.Proofs.Eds

/-
  C16 helper lemmas, part 3: nmt-rs `check_range_proof_inner` never panics on a proof whose siblings,
  together with the proven leaves, are in namespace order (`walk_ok`), hence `check_range_proof`,
  `verify_range`, `verify_namespace` behind lumina's `validate_shape` never panic.
-/
import Lumina.Proofs.DecodersTree

namespace Lumina.Proofs.Decoders
open Lumina.Util Lumina.Model.Nmt

theorem takeLast?_append_one {α} (pre : List α) (a : α) : takeLast? (pre ++ [a]) = some (a, pre) := by
  simp [takeLast?]

theorem takeLast?_eq_none {α} {l : List α} (h : takeLast? l = none) : l = [] := by
  unfold takeLast? at h
  cases hl : l.getLast? with
  | none => simpa using hl
  | some x => simp [hl] at h

theorem takeLast?_eq_some {α} {l : List α} {x : α} {r : List α} (h : takeLast? l = some (x, r)) : l = r ++ [x] := by
  unfold takeLast? at h
  cases hl : l.getLast? with
  | none => simp [hl] at h
  | some y =>
    simp [hl] at h
    obtain ⟨e1, e2⟩ := h
    subst e1; subst e2
    have hne : l ≠ [] := by intro e; subst e; simp at hl
    have h1 := List.dropLast_concat_getLast hne
    have h2 : l.getLast hne = y := by
      rw [List.getLast?_eq_some_getLast hne] at hl; simpa using hl
    rw [h2] at h1; exact h1.symm

def WalkPost (L P0 Pr : List NsHash) (s o : Nat) : Except Err (NsHash × List NsHash × List NsHash) → Prop
  | .error e => e ≠ .panic
  | .ok (h, L', P') => ∃ Lv Pl, L = L' ++ Lv ∧ Lv ≠ [] ∧ P0 = P' ++ Pl ∧ (Pl ≠ [] → L' = []) ∧
      (s < o → L'.length = o - s) ∧ (o ≤ s → L' = []) ∧ Summ h (Pl ++ Lv ++ Pr)

/-- a contiguous part of an ordered list is ordered -/
theorem monoA_infix {pre mid post : List NsHash} (h : MonoA (pre ++ mid ++ post)) : MonoA mid :=
  (monoA_append.mp (monoA_append.mp h).1).2.1

/-- the last step of every case: hash the two halves, which are adjacent segments of the ordered list -/
theorem walk_finish {H : HashFn} {ign : Bool} {L P0 Pr : List NsHash} {s o : Nat}
    {left right : NsHash} {L2 P2 Lv Pl segL segR : List NsHash} {pre : List NsHash}
    (hl : Summ left segL) (hr : Summ right segR)
    (hG : MonoA (pre ++ (segL ++ segR) ++ []))
    (hseg : segL ++ segR = Pl ++ Lv ++ Pr)
    (h1 : L = L2 ++ Lv) (h2 : Lv ≠ []) (h3 : P0 = P2 ++ Pl) (h4 : Pl ≠ [] → L2 = [])
    (h5 : s < o → L2.length = o - s) (h6 : o ≤ s → L2 = []) :
    WalkPost L P0 Pr s o
      (match hashNodes H ign left right with
       | Except.error e => Except.error e
       | Except.ok h => Except.ok (h, L2, P2)) := by
  obtain ⟨h, hh, hs⟩ := hashNodes_summ (H := H) (ign := ign) hl hr (monoA_infix hG)
  rw [hh]
  simp only [WalkPost]
  exact ⟨Lv, Pl, h1, h2, h3, h4, h5, h6, hseg ▸ hs⟩

theorem walk_ok (H : HashFn) (ign : Bool) : ∀ (fuel : Nat) (L P0 Pr : List NsHash) (s n o : Nat),
    2 ≤ n → n ≤ fuel → L ≠ [] → o ≤ L.length + s - 1 → L.length + s - 1 < o + n →
    Pr.length = rsib n (L.length + s - 1 - o) →
    MonoA (P0 ++ L ++ Pr) →
    WalkPost L P0 Pr s o (checkRangeProofInner H ign fuel L (P0 ++ Pr) s n o) := by
  intro fuel
  induction fuel with
  | zero => intro L P0 Pr s n o h2 hf; omega
  | succ fuel ih =>
    intro L P0 Pr s n o h2 hf hL he1 he2 hPr hG
    have hb := nsp2_bounds n h2
    have hrs := rsib_unfold n (L.length + s - 1 - o) h2
    generalize hk : nextSmallerPo2 n = k at hb hrs
    obtain ⟨hk1, hk2, hk3⟩ := hb
    have hLpos : 0 < L.length := List.length_pos_iff.mpr hL
    have hne0 : ¬ (L.length + s = 0) := by omega
    unfold checkRangeProofInner
    simp only [hne0, ↓reduceIte, hk]
    by_cases hA : L.length + s - 1 ≥ k + o
    · -- the range reaches into the right subtree
      simp only [hA, ↓reduceIte]
      have hrs' : Pr.length = rsib (n - k) (L.length + s - 1 - (o + k)) := by
        rw [hPr, hrs]
        have : k ≤ L.length + s - 1 - o := by omega
        simp only [this, ↓reduceIte]
        congr 1; omega
      -- facts about the right result, uniformly for the leaf case and the recursive case
      have hright : WalkPost L P0 Pr s (o + k)
          (if n - k = 1 then
            match takeLast? L with
            | none => Except.error Err.missingLeaf
            | some (x, rest) => Except.ok (x, rest, P0 ++ Pr)
          else checkRangeProofInner H ign fuel L (P0 ++ Pr) s (n - k) (o + k)) := by
        by_cases hnk : n - k = 1
        · simp only [hnk, ↓reduceIte]
          cases hT : takeLast? L with
          | none => exact absurd (takeLast?_eq_none hT) hL
          | some p =>
            obtain ⟨x, L1⟩ := p
            have hLx := takeLast?_eq_some hT
            have hPr0 : Pr = [] := by
              apply List.eq_nil_of_length_eq_zero
              rw [hrs', hnk, rsib_le_one _ _ (Nat.le_refl 1)]
            subst hPr0
            have hlen : L.length = L1.length + 1 := by rw [hLx]; simp
            simp only [WalkPost, List.append_nil]
            refine ⟨[x], [], hLx, by simp, by simp, by simp, ?_, ?_, ?_⟩
            · intro _; omega
            · intro h; apply List.eq_nil_of_length_eq_zero; omega
            · simpa using summ_singleton x
        · simp only [hnk, ↓reduceIte]
          exact ih L P0 Pr s (n - k) (o + k) (by omega) (by omega) hL (by omega) (by omega) hrs' hG
      generalize (if n - k = 1 then
            match takeLast? L with
            | none => Except.error Err.missingLeaf
            | some (x, rest) => Except.ok (x, rest, P0 ++ Pr)
          else checkRangeProofInner H ign fuel L (P0 ++ Pr) s (n - k) (o + k)) = rres at hright
      cases rres with
      | error e => simpa [WalkPost] using hright
      | ok v =>
        obtain ⟨right, L1, P1⟩ := v
        simp only [WalkPost] at hright
        obtain ⟨LvR, PlR, r1, r2, r3, r4, r5, r6, r7⟩ := hright
        simp only
        by_cases hs : s < k + o
        · -- part of the range lies in the left subtree
          simp only [hs, ↓reduceIte]
          have hL1len : L1.length = o + k - s := r5 (by omega)
          have hL1 : L1 ≠ [] := by
            intro e; rw [e] at hL1len; simp at hL1len; omega
          have hPlR : PlR = [] := by
            by_cases c : PlR = []
            · exact c
            · exact absurd (r4 c) hL1
          subst hPlR
          simp only [List.append_nil] at r3
          subst r3
          by_cases hk1' : k = 1
          · simp only [hk1', ↓reduceIte]
            cases hT : takeLast? L1 with
            | none => exact absurd (takeLast?_eq_none hT) hL1
            | some p =>
              obtain ⟨y, L2⟩ := p
              have hLy := takeLast?_eq_some hT
              simp only
              have hlen : L1.length = L2.length + 1 := by rw [hLy]; simp
              apply walk_finish (segL := [y]) (segR := [] ++ LvR ++ Pr) (pre := P0 ++ L2)
                (Lv := [y] ++ LvR) (Pl := []) (summ_singleton y) r7
              · rw [r1, hLy] at hG; simpa [List.append_assoc] using hG
              · simp
              · rw [r1, hLy]; simp
              · simp
              · simp
              · simp
              · intro h; omega
              · intro h; apply List.eq_nil_of_length_eq_zero; omega
          · simp only [hk1', ↓reduceIte]
            have hcall := ih L1 P0 [] s k o (by omega) (by omega) hL1 (by omega) (by omega)
              (by
                have : L1.length + s - 1 - o = k - 1 := by omega
                rw [this, rsib_last k hk1]; rfl)
              (by
                rw [r1] at hG
                have : P0 ++ (L1 ++ LvR) ++ Pr = (P0 ++ L1 ++ []) ++ (LvR ++ Pr) := by simp [List.append_assoc]
                rw [this] at hG
                exact (monoA_append.mp hG).1)
            simp only [List.append_nil] at hcall
            generalize checkRangeProofInner H ign fuel L1 P0 s k o = lres at hcall
            cases lres with
            | error e => simpa [WalkPost] using hcall
            | ok v =>
              obtain ⟨left, L2, P2⟩ := v
              simp only [WalkPost] at hcall
              obtain ⟨LvL, PlL, l1, l2, l3, l4, l5, l6, l7⟩ := hcall
              simp only
              apply walk_finish (segL := PlL ++ LvL ++ []) (segR := [] ++ LvR ++ Pr) (pre := P2 ++ L2)
                (Lv := LvL ++ LvR) (Pl := PlL) l7 r7
              · rw [r1, l1, l3] at hG
                by_cases c : PlL = []
                · subst c; simpa [List.append_assoc] using hG
                · have := l4 c; subst this; simpa [List.append_assoc] using hG
              · simp [List.append_assoc]
              · rw [r1, l1]; simp [List.append_assoc]
              · simp [l2]
              · exact l3
              · exact l4
              · exact l5
              · exact l6
        · -- the whole range is in the right subtree: the left subtree root comes from the proof
          simp only [hs, ↓reduceIte]
          have hL1 : L1 = [] := r6 (by omega)
          subst hL1
          simp only [List.nil_append] at r1
          cases hT : takeLast? P1 with
          | none => simp [WalkPost]
          | some p =>
            obtain ⟨z, P2⟩ := p
            have hPz := takeLast?_eq_some hT
            simp only
            apply walk_finish (segL := [z]) (segR := PlR ++ LvR ++ Pr) (pre := P2)
              (Lv := LvR) (Pl := [z] ++ PlR) (summ_singleton z) r7
            · rw [r3, hPz, r1] at hG; simpa [List.append_assoc] using hG
            · simp [List.append_assoc]
            · simpa using r1
            · exact r2
            · rw [r3, hPz]; simp [List.append_assoc]
            · intro _; rfl
            · intro h; omega
            · intro _; rfl
    · -- the range lies entirely in the left subtree: the right subtree root comes from the proof
      simp only [hA, ↓reduceIte]
      have hlt : ¬ k ≤ L.length + s - 1 - o := by omega
      have hrs' : Pr.length = 1 + rsib k (L.length + s - 1 - o) := by
        rw [hPr, hrs]; simp only [hlt, ↓reduceIte]
      -- Pr = Pr' ++ [r]
      have hPrne : Pr ≠ [] := by intro e; rw [e] at hrs'; simp at hrs'; omega
      have hPrd := (List.dropLast_concat_getLast hPrne).symm
      generalize Pr.dropLast = Pr' at hPrd
      generalize Pr.getLast hPrne = r at hPrd
      subst hPrd
      have hT : takeLast? (P0 ++ (Pr' ++ [r])) = some (r, P0 ++ Pr') := by
        rw [← List.append_assoc]; exact takeLast?_append_one _ _
      simp only [hT]
      have hs : s < k + o := by omega
      simp only [hs, ↓reduceIte]
      have hPr'len : Pr'.length = rsib k (L.length + s - 1 - o) := by
        simp at hrs'; omega
      by_cases hk1' : k = 1
      · simp only [hk1', ↓reduceIte]
        cases hT2 : takeLast? L with
        | none => exact absurd (takeLast?_eq_none hT2) hL
        | some p =>
          obtain ⟨y, L2⟩ := p
          have hLy := takeLast?_eq_some hT2
          simp only
          have hPr'0 : Pr' = [] := by
            apply List.eq_nil_of_length_eq_zero
            rw [hPr'len, hk1', rsib_le_one _ _ (Nat.le_refl 1)]
          subst hPr'0
          have hlen : L.length = L2.length + 1 := by rw [hLy]; simp
          simp only [List.append_nil, List.nil_append]
          apply walk_finish (segL := [y]) (segR := [r]) (pre := P0 ++ L2)
            (Lv := [y]) (Pl := []) (summ_singleton y) (summ_singleton r)
          · rw [hLy] at hG; simpa [List.append_assoc] using hG
          · simp
          · exact hLy
          · simp
          · simp
          · simp
          · intro h; omega
          · intro h; apply List.eq_nil_of_length_eq_zero; omega
      · simp only [hk1', ↓reduceIte]
        have hcall := ih L P0 Pr' s k o (by omega) (by omega) hL he1 (by omega) hPr'len
          (by
            have : P0 ++ L ++ (Pr' ++ [r]) = (P0 ++ L ++ Pr') ++ [r] := by simp [List.append_assoc]
            rw [this] at hG
            exact (monoA_append.mp hG).1)
        generalize checkRangeProofInner H ign fuel L (P0 ++ Pr') s k o = lres at hcall
        cases lres with
        | error e => simpa [WalkPost] using hcall
        | ok v =>
          obtain ⟨left, L2, P2⟩ := v
          simp only [WalkPost] at hcall
          obtain ⟨Lv, Pl, l1, l2, l3, l4, l5, l6, l7⟩ := hcall
          simp only
          apply walk_finish (segL := Pl ++ Lv ++ Pr') (segR := [r]) (pre := P2 ++ L2)
            (Lv := Lv) (Pl := Pl) l7 (summ_singleton r)
          · rw [l1, l3] at hG
            by_cases c : Pl = []
            · subst c; simpa [List.append_assoc] using hG
            · have := l4 c; subst this; simpa [List.append_assoc] using hG
          · simp [List.append_assoc]
          · exact l1
          · exact l2
          · exact l3
          · exact l4
          · exact l5
          · exact l6

/-! ## from `validate_shape` to the ordered list the walk needs -/

theorem computeTreeSizeAux_ne_panic : ∀ (fuel rem idx mask : Nat),
    computeTreeSizeAux fuel rem idx mask ≠ .error .panic := by
  intro fuel
  induction fuel with
  | zero => intro rem idx mask; simp [computeTreeSizeAux]
  | succ f ih =>
    intro rem idx mask
    unfold computeTreeSizeAux
    by_cases hr : rem = 0
    · simp [hr]
    · simp only [hr, ↓reduceIte]
      generalize (if mask = 0 then true else idx / mask % 2 == 0) = hit
      by_cases hm : (if hit = true then idx + mask else idx) = U32_MAX
      · simp [hm]
      · simp only [hm, ↓reduceIte]; exact ih _ _ _

theorem popcount_zero : computeNumLeftSiblings 0 = 0 := rfl

/-- `MerkleTree::check_range_proof` does not panic when the left siblings, the leaves and the right
    siblings form one namespace-ordered list -/
theorem checkRangeProof_ne_panic (H : HashFn) (ign : Bool) (root : NsHash) (leaves proof : List NsHash)
    (start : Nat) (he : start + leaves.length ≤ 2 ^ 32)
    (hG : MonoA (proof.take (computeNumLeftSiblings start) ++ leaves ++ proof.drop (computeNumLeftSiblings start))) :
    checkRangeProof H ign root leaves proof start ≠ .error .panic := by
  unfold checkRangeProof
  by_cases h0 : leaves.length = 0
  · simp only [h0, ↓reduceIte]; split <;> simp
  · simp only [h0, ↓reduceIte]
    by_cases h1 : leaves.length = 1 ∧ proof.isEmpty = true
    · simp only [h1, and_self, ↓reduceIte]; split <;> simp
    · simp only [h1, ↓reduceIte]
      by_cases hnl : proof.length < computeNumLeftSiblings start
      · simp [hnl]
      · simp only [hnl, ↓reduceIte]
        cases hT : computeTreeSize (proof.length - computeNumLeftSiblings start) (start + leaves.length - 1) with
        | error e =>
          simp only
          intro hc
          injection hc with hc
          subst hc
          exact computeTreeSizeAux_ne_panic _ _ _ _ hT
        | ok T =>
          simp only
          have hLne : leaves ≠ [] := by intro e; subst e; simp at h0
          have hLpos : 0 < leaves.length := List.length_pos_iff.mpr hLne
          have hgt := computeTreeSize_gt hT
          have hrs := computeTreeSize_rsib (by omega) hT
          have hT2 : 2 ≤ T := by
            by_cases he0 : start + leaves.length - 1 = 0
            · -- a single leaf at index 0 with a non-empty proof
              have hs0 : start = 0 := by omega
              have hl1 : leaves.length = 1 := by omega
              have hpne : proof.length ≠ 0 := by
                intro hp
                apply h1
                refine ⟨hl1, ?_⟩
                simp [List.eq_nil_of_length_eq_zero hp]
              rw [he0, hs0, popcount_zero] at hrs
              by_cases hT1 : T ≤ 1
              · rw [rsib_le_one _ _ hT1] at hrs; omega
              · omega
            · omega
          have hw := walk_ok H ign T leaves (proof.take (computeNumLeftSiblings start))
            (proof.drop (computeNumLeftSiblings start)) start T 0 hT2 (Nat.le_refl _) hLne (by omega)
            (by have : leaves.length + start - 1 = start + leaves.length - 1 := by omega
                rw [this]; omega)
            (by have : leaves.length + start - 1 - 0 = start + leaves.length - 1 := by omega
                rw [this, hrs, List.length_drop])
            hG
          rw [List.take_append_drop] at hw
          generalize checkRangeProofInner H ign T leaves proof start T 0 = res at hw
          cases res with
          | error e => simpa [WalkPost] using hw
          | ok v =>
            obtain ⟨c, _, _⟩ := v
            simp only
            split <;> simp

/-- every node well-formed and consecutive nodes ordered: `MonoA` -/
theorem monoA_of_checks : ∀ (l : List NsHash), l.any (fun s => ltB s.maxNs s.minNs) = false →
    Lumina.Model.Decoders.siblingsOrdered l = true → MonoA l := by
  intro l
  induction l with
  | nil => intro _ _; trivial
  | cons x xs ih =>
    intro h1 h2
    simp only [List.any_cons, Bool.or_eq_false_iff] at h1
    cases xs with
    | nil => exact leB_of_not_ltB h1.1
    | cons y ys =>
      simp only [Lumina.Model.Decoders.siblingsOrdered, Bool.and_eq_true] at h2
      exact ⟨leB_of_not_ltB h1.1, h2.1, ih h1.2 h2.2⟩

/-- leaves that all carry the one-namespace range `[ns, ns]` are ordered -/
theorem monoA_const (ns : Bytes) : ∀ (l : List NsHash), (∀ x ∈ l, x.minNs = ns ∧ x.maxNs = ns) → MonoA l := by
  intro l
  induction l with
  | nil => intro _; trivial
  | cons x xs ih =>
    intro h
    have hx := h x List.mem_cons_self
    cases xs with
    | nil => show leB x.minNs x.maxNs = true; rw [hx.1, hx.2]; exact leB_refl _
    | cons y ys =>
      have hy := h y (by simp)
      refine ⟨by show leB x.minNs x.maxNs = true; rw [hx.1, hx.2]; exact leB_refl _, ?_, ?_⟩
      · rw [hx.2, hy.1]; exact leB_refl _
      · exact ih (fun z hz => h z (List.mem_cons_of_mem _ hz))

open Lumina.Model.Decoders in
/-- what `validate_shape` establishes: left siblings, leaves spanning `[first, last]`, right siblings are
    one ordered list -/
theorem validateShape_chain {p : NsProof} {first last : Bytes} (hv : Lumina.Model.Decoders.validateShape p first last = true)
    {leaves : List NsHash} (hne : leaves ≠ []) (hm : MonoA leaves)
    (hfirst : ∀ x, leaves.head? = some x → x.minNs = first)
    (hlast : ∀ x, leaves.getLast? = some x → x.maxNs = last) :
    computeNumLeftSiblings p.start ≤ p.siblings.length ∧
    MonoA (p.siblings.take (computeNumLeftSiblings p.start) ++ leaves ++
           p.siblings.drop (computeNumLeftSiblings p.start)) := by
  unfold Lumina.Model.Decoders.validateShape at hv
  generalize hnl : computeNumLeftSiblings p.start = nl at hv ⊢
  by_cases c1 : nl > p.siblings.length
  · simp [c1] at hv
  · simp only [c1, ↓reduceIte] at hv
    by_cases c2 : p.siblings.any (fun s => ltB s.maxNs s.minNs) = true
    · simp [c2] at hv
    · simp only [c2, Bool.false_eq_true, ↓reduceIte] at hv
      by_cases c3 : siblingsOrdered p.siblings = true
      · simp only [c3, Bool.not_true, Bool.false_eq_true, ↓reduceIte, Bool.and_eq_true] at hv
        obtain ⟨hl, hr⟩ := hv
        have hms : MonoA p.siblings := monoA_of_checks _ (by simpa using c2) c3
        have hsplit : MonoA (p.siblings.take nl ++ p.siblings.drop nl) := by
          rw [List.take_append_drop]; exact hms
        obtain ⟨hmt, hmd, _⟩ := monoA_append.mp hsplit
        refine ⟨by omega, ?_⟩
        rw [monoA_append, monoA_append]
        refine ⟨⟨hmt, hm, ?_⟩, hmd, ?_⟩
        · intro a b ha hb
          rw [List.getLast?_take] at ha
          by_cases hn0 : nl = 0
          · simp [hn0] at ha
          · simp only [hn0, ↓reduceIte] at ha hl
            have hidx : nl - 1 < p.siblings.length := by omega
            have hget : p.siblings[nl - 1]? = some p.siblings[nl - 1] := List.getElem?_eq_getElem hidx
            rw [hget] at ha hl
            simp only [Option.some_or, Option.some.injEq] at ha
            subst ha
            simp only [ne_eq, not_false_eq_true, ↓reduceIte, hn0] at hl
            rw [hfirst b hb]; exact hl
        · intro a b ha hb
          have hla : (p.siblings.take nl ++ leaves).getLast? = leaves.getLast? := by
            rw [List.getLast?_append]
            cases hgl : leaves.getLast? with
            | none => exact absurd (List.getLast?_eq_none_iff.mp hgl) hne
            | some y => rfl
          rw [hla] at ha
          rw [List.head?_drop] at hb
          rw [hb] at hr
          simp only at hr
          rw [hlast a ha]; exact hr
      · simp [c3] at hv

end Lumina.Proofs.Decoders

/-
  Helper lemmas for C03 (and C01/C02): loop invariants of light / trusting commit verification.
-/
import Lumina.Model.CommitBridge

namespace Lumina.Proofs.Commit
open Lumina.Model.Commit Lumina.Spec.C03

/-- `t > ⌊n·T / d⌋  ⇔  d·t > n·T`: exceeding the floored threshold IS exceeding the fraction -/
theorem needed_strict (t n T d : Nat) (hd : 0 < d) : n * T / d < t ↔ n * T < d * t := by
  rw [Nat.div_lt_iff_lt_mul hd, Nat.mul_comm t d]

theorem votingPowerNeeded_ok {n d T x : Nat} (h : votingPowerNeeded n d T = .ok x) :
    0 < d ∧ x = n * T / d := by
  unfold votingPowerNeeded at h
  split at h; · simp at h
  split at h; · simp at h
  simp only [Except.ok.injEq] at h
  exact ⟨by omega, h.symm⟩

/-! ### light loop -/

/-- power of the index-aligned validators whose entry is a commit vote with a signature that verifies -/
def validPow (ok : Nat → Nat → Bool) : Nat → List Validator → List CSig → Nat
  | _, [], _ => 0
  | _, _ :: _, [] => 0
  | idx, v :: vs, s :: ss =>
    (if s.flag = .commit ∧ s.hasSig = true ∧ ok idx idx = true then v.power else 0)
      + validPow ok (idx + 1) vs ss

theorem lightLoop_sound (ok : Nat → Nat → Bool) (needed idx t : Nat) (vs : List Validator) (ss : List CSig) :
    lightLoop ok needed idx t vs ss = .ok → needed < t + validPow ok idx vs ss := by
  fun_induction lightLoop ok needed idx t vs ss <;> intro h <;> simp_all [validPow] <;> omega

/-- power of the commit-flag entries -/
def commitPow : List Validator → List CSig → Nat
  | [], _ => 0
  | _ :: _, [] => 0
  | v :: vs, s :: ss => (if s.flag = .commit then v.power else 0) + commitPow vs ss

/-- every commit-flag entry (aligned with a validator) has a signature that verifies -/
def allValid (ok : Nat → Nat → Bool) : Nat → List Validator → List CSig → Bool
  | _, [], _ => true
  | _, _ :: _, [] => true
  | idx, _ :: vs, s :: ss =>
    (if s.flag = .commit then s.hasSig && ok idx idx else true) && allValid ok (idx + 1) vs ss

theorem lightLoop_exact (ok : Nat → Nat → Bool) (needed : Nat) (vs : List Validator) :
    ∀ (idx t : Nat) (ss : List CSig), allValid ok idx vs ss = true →
      t + commitPow vs ss < U64_LIMIT → t ≤ needed →
      lightLoop ok needed idx t vs ss =
        if needed < t + commitPow vs ss then .ok else .err (.notEnough (t + commitPow vs ss) needed) := by
  induction vs with
  | nil =>
    intro idx t ss _ _ ht
    have h0 : commitPow [] ss = 0 := by simp [commitPow]
    rw [h0, Nat.add_zero, if_neg (by omega)]
    simp [lightLoop]
  | cons v vs ih =>
    intro idx t ss hv hb ht
    cases ss with
    | nil =>
      have h0 : commitPow (v :: vs) [] = 0 := by simp [commitPow]
      rw [h0, Nat.add_zero, if_neg (by omega)]
      simp [lightLoop]
    | cons s ss =>
      have hcp : commitPow (v :: vs) (s :: ss) = (if s.flag = .commit then v.power else 0) + commitPow vs ss := by
        simp [commitPow]
      have hav : allValid ok idx (v :: vs) (s :: ss) =
          ((if s.flag = .commit then s.hasSig && ok idx idx else true) && allValid ok (idx + 1) vs ss) := by
        simp [allValid]
      rw [hav, Bool.and_eq_true] at hv
      rw [hcp] at hb ⊢
      rw [lightLoop]
      by_cases hc : s.flag = .commit
      · rw [if_pos hc] at hv hb
        rw [if_pos hc, if_pos hc]
        obtain ⟨h1, hrest⟩ := hv
        rw [Bool.and_eq_true] at h1
        obtain ⟨hs, hok⟩ := h1
        rw [if_neg (by simp [hs]), if_neg (by simp [hok]), if_neg (by omega)]
        by_cases hgt : t + v.power > needed
        · rw [if_pos hgt, if_pos (by omega)]
        · rw [if_neg hgt, ih (idx + 1) (t + v.power) ss hrest (by omega) (by omega)]
          simp only [Nat.add_assoc]
      · rw [if_neg hc] at hv hb
        rw [if_neg hc, if_neg hc]
        simp only [Nat.zero_add] at hb ⊢
        exact ih (idx + 1) t ss hv.2 hb ht

theorem commitPow_le_sum (vs : List Validator) (ss : List CSig) : commitPow vs ss ≤ sumPowers vs := by
  induction vs generalizing ss with
  | nil => simp [commitPow]
  | cons v vs ih =>
    cases ss with
    | nil => simp [commitPow]
    | cons s ss =>
      have := ih ss
      simp only [commitPow, sumPowers, List.map_cons, List.sum_cons] at *
      split <;> omega

theorem validPow_le_commitPow (ok : Nat → Nat → Bool) (idx : Nat) (vs : List Validator) (ss : List CSig) :
    validPow ok idx vs ss ≤ commitPow vs ss := by
  induction vs generalizing ss idx with
  | nil => simp [validPow, commitPow]
  | cons v vs ih =>
    cases ss with
    | nil => simp [validPow, commitPow]
    | cons s ss =>
      have := ih (idx + 1) ss
      simp only [validPow, commitPow]
      by_cases hc : s.flag = .commit
      · simp only [hc, true_and, if_true]
        split <;> omega
      · simp only [hc, false_and, if_false]
        omega

/-- the light loop never panics when the remaining commit power fits in u64 -/
theorem lightLoop_no_panic (ok : Nat → Nat → Bool) (needed : Nat) (vs : List Validator) :
    ∀ (idx t : Nat) (ss : List CSig),
      t + commitPow vs ss < U64_LIMIT → lightLoop ok needed idx t vs ss ≠ .panic := by
  induction vs with
  | nil => intro idx t ss _; simp [lightLoop]
  | cons v vs ih =>
    intro idx t ss hb
    cases ss with
    | nil => simp [lightLoop]
    | cons s ss =>
      have hcp : commitPow (v :: vs) (s :: ss) = (if s.flag = .commit then v.power else 0) + commitPow vs ss := by
        simp [commitPow]
      rw [hcp] at hb
      rw [lightLoop]
      by_cases hc : s.flag = .commit
      · rw [if_pos hc] at hb
        rw [if_pos hc]
        split; · simp
        split; · simp
        rw [if_neg (by omega)]
        split; · simp
        exact ih _ _ _ (by omega)
      · rw [if_neg hc] at hb
        rw [if_neg hc]
        exact ih _ _ _ (by omega)

/-! ### sums below `n` -/

theorem sumBelow_succ_shift (n : Nat) (f : Nat → Nat) :
    sumBelow (n + 1) f = f 0 + sumBelow n (fun i => f (i + 1)) := by
  unfold sumBelow
  rw [List.range_succ_eq_map]
  simp [List.map_map, Function.comp_def]

theorem sumBelow_succ_last (n : Nat) (f : Nat → Nat) : sumBelow (n + 1) f = sumBelow n f + f n := by
  unfold sumBelow
  rw [List.range_succ]
  simp

theorem sumBelow_zero (n : Nat) : sumBelow n (fun _ => 0) = 0 := by
  induction n with
  | zero => simp [sumBelow]
  | succ n ih => rw [sumBelow_succ_shift, ih]

theorem sumBelow_congr (n : Nat) (f g : Nat → Nat) (h : ∀ i, i < n → f i = g i) :
    sumBelow n f = sumBelow n g := by
  unfold sumBelow
  congr 1
  apply List.map_congr_left
  intro i hi
  exact h i (List.mem_range.mp hi)

theorem sumBelow_mono (n : Nat) (f g : Nat → Nat) (h : ∀ i, i < n → f i ≤ g i) :
    sumBelow n f ≤ sumBelow n g := by
  induction n with
  | zero => simp [sumBelow]
  | succ n ih =>
    rw [sumBelow_succ_last, sumBelow_succ_last]
    have h1 := ih (fun i hi => h i (by omega))
    have h2 := h n (by omega)
    omega

/-- adding a fresh index to an indicator sum adds exactly its term -/
theorem sumBelow_insert (f : Nat → Nat) (S : List Nat) (vi : Nat) (hvi : vi ∉ S) (n : Nat) :
    sumBelow n (fun i => if i ∈ vi :: S then f i else 0) =
      (if vi < n then f vi else 0) + sumBelow n (fun i => if i ∈ S then f i else 0) := by
  induction n with
  | zero => simp [sumBelow]
  | succ n ih =>
    rw [sumBelow_succ_last, sumBelow_succ_last, ih]
    by_cases hn : n = vi
    · subst hn
      simp [hvi]
      omega
    · have h1 : (n ∈ vi :: S) ↔ n ∈ S := by simp [hn]
      have h2 : (vi < n + 1) ↔ vi < n := by omega
      simp only [h1, h2]
      omega

/-! ### bridges between the recursive tallies and the spec's sums -/

theorem validPow_eq (ok : Nat → Nat → Bool) (vs : List Validator) :
    ∀ (k : Nat) (ss : List CSig),
    validPow ok k vs ss = sumBelow vs.length (fun i =>
      if (((ss.map toEntry).getD i noVote).isCommit && ((ss.map toEntry).getD i noVote).hasSig
          && ok (k + i) (k + i)) = true
      then (vs.map (·.power)).getD i 0 else 0) := by
  induction vs with
  | nil => intro k ss; simp [validPow, sumBelow]
  | cons v vs ih =>
    intro k ss
    cases ss with
    | nil => simp [validPow, noVote, sumBelow_zero]
    | cons s ss =>
      rw [List.length_cons, sumBelow_succ_shift]
      have ih' := ih (k + 1) ss
      simp only [Nat.add_assoc, Nat.add_comm 1] at ih'
      simp only [validPow, ih', List.map_cons, List.getD_cons_zero, List.getD_cons_succ, Nat.add_zero, toEntry]
      congr 1
      by_cases hc : s.flag = .commit <;> simp [hc]

theorem validPowerLight_eq (ok : Nat → Nat → Bool) (vs : ValSet) (h ch : Nat) (sigs : List CSig) :
    validPowerLight (specInput vs h ch sigs) ok = validPow ok 0 vs.vals sigs := by
  rw [validPow_eq]
  simp [validPowerLight, signedLight, specInput, entry, power]

theorem commitPow_eq (vs : List Validator) :
    ∀ (ss : List CSig),
    commitPow vs ss = sumBelow vs.length (fun i =>
      if ((ss.map toEntry).getD i noVote).isCommit = true then (vs.map (·.power)).getD i 0 else 0) := by
  induction vs with
  | nil => intro ss; simp [commitPow, sumBelow]
  | cons v vs ih =>
    intro ss
    cases ss with
    | nil => simp [commitPow, noVote, sumBelow_zero]
    | cons s ss =>
      rw [List.length_cons, sumBelow_succ_shift]
      simp only [commitPow, ih ss, List.map_cons, List.getD_cons_zero, List.getD_cons_succ, toEntry]
      congr 1
      by_cases hc : s.flag = .commit <;> simp [hc]

theorem signingPower_eq (vs : ValSet) (h ch : Nat) (sigs : List CSig) :
    signingPower (specInput vs h ch sigs) = commitPow vs.vals sigs := by
  rw [commitPow_eq]
  simp [signingPower, specInput, entry, power]

theorem total_eq (vs : ValSet) (h ch : Nat) (sigs : List CSig) :
    total (specInput vs h ch sigs) = sumPowers vs.vals := by
  simp [total, specInput, sumPowers]

theorem allValid_of (ok : Nat → Nat → Bool) (vs : List Validator) :
    ∀ (k : Nat) (ss : List CSig),
      (∀ j, j < ss.length →
        (!((ss.map toEntry).getD j noVote).isCommit ||
          (((ss.map toEntry).getD j noVote).hasSig && ok (k + j) (k + j))) = true) →
      allValid ok k vs ss = true := by
  induction vs with
  | nil => intro k ss _; simp [allValid]
  | cons v vs ih =>
    intro k ss h
    cases ss with
    | nil => simp [allValid]
    | cons s ss =>
      have h0 := h 0 (by simp)
      have hrest := ih (k + 1) ss (fun j hj => by
        have := h (j + 1) (by simp; omega)
        simpa [Nat.add_assoc, Nat.add_comm 1] using this)
      simp only [List.map_cons, List.getD_cons_zero, toEntry, Nat.add_zero] at h0
      simp only [allValid, hrest, Bool.and_true]
      by_cases hc : s.flag = .commit <;> simp_all

/-! ### trusting loop -/

theorem findValidatorFrom_some (a : Addr) (vals : List Validator) :
    ∀ (k vi : Nat) (v : Validator), findValidatorFrom a k vals = some (vi, v) →
      k ≤ vi ∧ vals[vi - k]? = some v ∧ v.addr = a := by
  induction vals with
  | nil => intro k vi v h; simp [findValidatorFrom] at h
  | cons x xs ih =>
    intro k vi v h
    rw [findValidatorFrom] at h
    by_cases hx : x.addr = a
    · rw [if_pos hx] at h
      simp only [Option.some.injEq, Prod.mk.injEq] at h
      obtain ⟨h1, h2⟩ := h
      subst h1; subst h2
      simp [hx]
    · rw [if_neg hx] at h
      obtain ⟨h1, h2, h3⟩ := ih (k + 1) vi v h
      refine ⟨by omega, ?_, h3⟩
      have : vi - k = (vi - (k + 1)) + 1 := by omega
      rw [this, List.getElem?_cons_succ]
      exact h2

theorem findValidator_some (vals : List Validator) (a : Addr) (vi : Nat) (v : Validator)
    (h : findValidator vals a = some (vi, v)) : vals[vi]? = some v ∧ v.addr = a := by
  have := findValidatorFrom_some a vals 0 vi v h
  simpa using this.2

/-- power of the validators whose index is in `S` -/
def seenSum (vals : List Validator) (S : List Nat) : Nat :=
  sumBelow vals.length (fun i => if i ∈ S then (vals.map (·.power)).getD i 0 else 0)

theorem seenSum_cons (vals : List Validator) (S : List Nat) (vi : Nat) (v : Validator)
    (hvi : vi ∉ S) (hv : vals[vi]? = some v) :
    seenSum vals (vi :: S) = v.power + seenSum vals S := by
  unfold seenSum
  rw [sumBelow_insert _ S vi hvi]
  rcases List.getElem?_eq_some_iff.mp hv with ⟨hlt, hget⟩
  simp [hlt, hget]

theorem seenSum_le (vals : List Validator) (S : List Nat) (P : Nat → Bool)
    (hP : ∀ i ∈ S, P i = true) :
    seenSum vals S ≤ sumBelow vals.length (fun i => if P i = true then (vals.map (·.power)).getD i 0 else 0) := by
  apply sumBelow_mono
  intro i _
  by_cases hi : i ∈ S
  · simp [hi, hP i hi]
  · simp [hi]

theorem trustLoop_sound (ok : Nat → Nat → Bool) (needed : Nat) (vals : List Validator)
    (sigs : List CSig) (P : Nat → Bool)
    (hP : ∀ (j vi : Nat) (v : Validator) (s : CSig), sigs[j]? = some s → s.flag = .commit →
      s.hasSig = true → findValidator vals s.addr = some (vi, v) → ok vi j = true → P vi = true) :
    ∀ (ss pre : List CSig) (seen : List Nat) (t : Nat), sigs = pre ++ ss →
      (∀ vi ∈ seen, P vi = true) → t ≤ seenSum vals seen →
      trustLoop ok needed vals pre.length seen t ss = .ok →
      needed < sumBelow vals.length (fun i => if P i = true then (vals.map (·.power)).getD i 0 else 0) := by
  intro ss
  induction ss with
  | nil => intro pre seen t _ _ _ h; simp [trustLoop] at h
  | cons s ss ih =>
    intro pre seen t hsig hseen ht h
    have hnext : sigs = (pre ++ [s]) ++ ss := by simp [hsig]
    have hlen : (pre ++ [s]).length = pre.length + 1 := by simp
    have hget : sigs[pre.length]? = some s := by simp [hsig]
    rw [trustLoop] at h
    by_cases hc : s.flag = .commit
    · rw [if_pos hc] at h
      by_cases hs : s.hasSig = false
      · rw [if_pos hs] at h; simp at h
      · rw [if_neg hs] at h
        have hs' : s.hasSig = true := by simpa using hs
        cases hf : findValidator vals s.addr with
        | none =>
          rw [hf] at h
          simp only at h
          rw [← hlen] at h
          exact ih _ _ _ hnext hseen ht h
        | some p =>
          obtain ⟨vi, v⟩ := p
          rw [hf] at h
          simp only at h
          by_cases hcont : seen.contains vi = true
          · rw [if_pos hcont] at h; simp at h
          · rw [if_neg hcont] at h
            have hnot : vi ∉ seen := by simpa using hcont
            by_cases hok : ok vi pre.length = false
            · rw [if_pos hok] at h; simp at h
            · rw [if_neg hok] at h
              have hok' : ok vi pre.length = true := by simpa using hok
              have hPvi : P vi = true := hP _ _ _ _ hget hc hs' hf hok'
              have hfv := findValidator_some vals s.addr vi v hf
              have hsum := seenSum_cons vals seen vi v hnot hfv.1
              have hseen' : ∀ x ∈ vi :: seen, P x = true := by
                intro x hx
                rcases List.mem_cons.mp hx with rfl | hx
                · exact hPvi
                · exact hseen x hx
              by_cases hov : t + v.power ≥ U64_LIMIT
              · rw [if_pos hov] at h; simp at h
              · rw [if_neg hov] at h
                by_cases hgt : t + v.power > needed
                · have := seenSum_le vals (vi :: seen) P hseen'
                  omega
                · rw [if_neg hgt] at h
                  rw [← hlen] at h
                  exact ih _ _ _ hnext hseen' (by omega) h
    · rw [if_neg hc] at h
      rw [← hlen] at h
      exact ih _ _ _ hnext hseen ht h

theorem sumBelow_getD (l : List Nat) : sumBelow l.length (fun i => l.getD i 0) = l.sum := by
  induction l with
  | nil => simp [sumBelow]
  | cons a l ih =>
    rw [List.length_cons, sumBelow_succ_shift]
    simp only [List.getD_cons_zero, List.getD_cons_succ, ih, List.sum_cons]

theorem seenSum_le_sumPowers (vals : List Validator) (S : List Nat) : seenSum vals S ≤ sumPowers vals := by
  have h := seenSum_le vals S (fun _ => true) (fun _ _ => rfl)
  have h2 := sumBelow_getD (vals.map (·.power))
  simp only [List.length_map] at h2
  simp only [if_true] at h
  unfold sumPowers
  omega

theorem trustLoop_no_panic (ok : Nat → Nat → Bool) (needed : Nat) (vals : List Validator)
    (hsum : sumPowers vals < U64_LIMIT) :
    ∀ (ss : List CSig) (idx : Nat) (seen : List Nat) (t : Nat), t ≤ seenSum vals seen →
      trustLoop ok needed vals idx seen t ss ≠ .panic := by
  intro ss
  induction ss with
  | nil => intro idx seen t _; simp [trustLoop]
  | cons s ss ih =>
    intro idx seen t ht
    rw [trustLoop]
    split
    · split; · simp
      split
      · exact ih _ _ _ ht
      · rename_i vi v hf
        split; · simp
        rename_i hcont
        have hnot : vi ∉ seen := by simpa using hcont
        split; · simp
        have hfv := findValidator_some vals s.addr vi v hf
        have hsum' := seenSum_cons vals seen vi v hnot hfv.1
        have hle := seenSum_le_sumPowers vals (vi :: seen)
        rw [if_neg (by omega)]
        split; · simp
        exact ih _ _ _ (by omega)
    · exact ih _ _ _ ht

/-! ### which entries the light loop consumes (used by C01) -/

theorem lightLoop_ok_consumed (ok : Nat → Nat → Bool) (needed : Nat) (vs : List Validator) :
    ∀ (idx t : Nat) (ss : List CSig) (k : Nat) (hk : k < ss.length),
      lightLoop ok needed idx t vs ss = .ok → k < vs.length → ss[k].flag = .commit →
      t + commitPow (vs.take k) (ss.take k) ≤ needed →
      ss[k].hasSig = true ∧ ok (idx + k) (idx + k) = true := by
  induction vs with
  | nil => intro idx t ss k hk _ hkv; simp at hkv
  | cons v vs ih =>
    intro idx t ss k hk hacc hkv hflag hpre
    cases ss with
    | nil => simp at hk
    | cons s ss =>
      rw [lightLoop] at hacc
      cases k with
      | zero =>
        simp only [List.getElem_cons_zero] at hflag
        rw [if_pos hflag] at hacc
        by_cases hs : s.hasSig = false
        · rw [if_pos hs] at hacc; simp at hacc
        · rw [if_neg hs] at hacc
          by_cases ho : ok idx idx = false
          · rw [if_pos ho] at hacc; simp at hacc
          · simp only [List.getElem_cons_zero, Nat.add_zero]
            exact ⟨by simpa using hs, by simpa using ho⟩
      | succ k =>
        simp only [List.getElem_cons_succ] at hflag
        have hk' : k < ss.length := by simpa using hk
        have hkv' : k < vs.length := by simpa using hkv
        have hcp : commitPow ((v :: vs).take (k + 1)) ((s :: ss).take (k + 1)) =
            (if s.flag = .commit then v.power else 0) + commitPow (vs.take k) (ss.take k) := by
          simp [commitPow]
        rw [hcp] at hpre
        simp only [List.getElem_cons_succ]
        have hidx : idx + (k + 1) = idx + 1 + k := by omega
        rw [hidx]
        by_cases hc : s.flag = .commit
        · rw [if_pos hc] at hacc hpre
          by_cases hs : s.hasSig = false
          · rw [if_pos hs] at hacc; simp at hacc
          · rw [if_neg hs] at hacc
            by_cases ho : ok idx idx = false
            · rw [if_pos ho] at hacc; simp at hacc
            · rw [if_neg ho] at hacc
              by_cases hov : t + v.power ≥ U64_LIMIT
              · rw [if_pos hov] at hacc; simp at hacc
              · rw [if_neg hov, if_neg (by omega)] at hacc
                exact ih (idx + 1) (t + v.power) ss k hk' hacc hkv' hflag (by omega)
        · rw [if_neg hc] at hacc hpre
          exact ih (idx + 1) t ss k hk' hacc hkv' hflag (by omega)

/-- an accepted commit has a first block-commit entry (nothing tallied before it) -/
theorem lightLoop_ok_exists (ok : Nat → Nat → Bool) (needed : Nat) (vs : List Validator) :
    ∀ (idx t : Nat) (ss : List CSig), lightLoop ok needed idx t vs ss = .ok →
      ∃ (k : Nat) (hk : k < ss.length), k < vs.length ∧ ss[k].flag = .commit ∧
        commitPow (vs.take k) (ss.take k) = 0 := by
  induction vs with
  | nil => intro idx t ss h; simp [lightLoop] at h
  | cons v vs ih =>
    intro idx t ss hacc
    cases ss with
    | nil => simp [lightLoop] at hacc
    | cons s ss =>
      by_cases hc : s.flag = .commit
      · exact ⟨0, by simp, by simp, by simpa using hc, by simp [commitPow]⟩
      · rw [lightLoop, if_neg hc] at hacc
        obtain ⟨k, hk, hkv, hflag, hpre⟩ := ih (idx + 1) t ss hacc
        refine ⟨k + 1, by simpa using hk, by simpa using hkv, by simpa using hflag, ?_⟩
        simp [commitPow, hc, hpre]

/-- the light loop reads only flag and signature presence of the entries -/
theorem lightLoop_congr (ok : Nat → Nat → Bool) (needed : Nat) (vs : List Validator) :
    ∀ (idx t : Nat) (ss ss' : List CSig),
      ss'.map (fun a => (a.flag, a.hasSig)) = ss.map (fun a => (a.flag, a.hasSig)) →
      lightLoop ok needed idx t vs ss' = lightLoop ok needed idx t vs ss := by
  induction vs with
  | nil => intro idx t ss ss' _; simp [lightLoop]
  | cons v vs ih =>
    intro idx t ss ss' h
    cases ss with
    | nil =>
      have : ss' = [] := by simpa using h
      rw [this]
    | cons a l =>
      cases ss' with
      | nil => simp at h
      | cons b l' =>
        simp only [List.map_cons, List.cons.injEq, Prod.mk.injEq] at h
        obtain ⟨⟨h1, h2⟩, hrest⟩ := h
        rw [lightLoop, lightLoop, h1, h2]
        rw [ih (idx + 1) (t + v.power) l l' hrest, ih (idx + 1) t l l' hrest]

/-- commit power before position `k`, as the spec sums it -/
theorem commitPow_take_eq (vs : List Validator) (ss : List CSig) (k : Nat)
    (hkv : k ≤ vs.length) :
    commitPow (vs.take k) (ss.take k) = sumBelow k (fun i =>
      if ((ss.map toEntry).getD i noVote).isCommit = true then (vs.map (·.power)).getD i 0 else 0) := by
  rw [commitPow_eq]
  have hl : (vs.take k).length = k := by simp [hkv]
  rw [hl]
  apply sumBelow_congr
  intro i hi
  simp [List.getD_eq_getElem?_getD, hi]

/-! ### trusting loop: "exactly when" -/

/-- the trusted validator (index, info) a block-commit entry refers to -/
def ownerOf (vals : List Validator) (s : CSig) : Option (Nat × Validator) :=
  if s.flag = .commit then findValidator vals s.addr else none

/-- indices of the trusted validators the block-commit entries refer to, in commit order -/
def owners (vals : List Validator) : List CSig → List Nat
  | [] => []
  | s :: ss =>
    match ownerOf vals s with
    | some (vi, _) => vi :: owners vals ss
    | none => owners vals ss

/-- their powers, summed entry by entry -/
def ownerPow (vals : List Validator) : List CSig → Nat
  | [] => 0
  | s :: ss =>
    match ownerOf vals s with
    | some (_, v) => v.power + ownerPow vals ss
    | none => ownerPow vals ss

/-- every block-commit entry has a signature, and it verifies under the trusted validator the
    entry refers to (if any) -/
def allValidT (ok : Nat → Nat → Bool) (vals : List Validator) : Nat → List CSig → Bool
  | _, [] => true
  | idx, s :: ss =>
    (if s.flag = .commit then
      s.hasSig && (match findValidator vals s.addr with
        | some (vi, _) => ok vi idx
        | none => true)
     else true) && allValidT ok vals (idx + 1) ss

/-- **the trusting loop over a prefix without double votes and with valid signatures**: it
    accepts as soon as the tally exceeds the threshold, otherwise it arrives at the rest of the
    commit having tallied every trusted signer of the prefix exactly once -/
theorem trustLoop_prefix (ok : Nat → Nat → Bool) (needed : Nat) (vals : List Validator) (rest : List CSig) :
    ∀ (pre : List CSig) (idx : Nat) (seen : List Nat) (t : Nat),
      allValidT ok vals idx pre = true → (owners vals pre).Nodup →
      (∀ vi ∈ owners vals pre, vi ∉ seen) → t + ownerPow vals pre < U64_LIMIT → t ≤ needed →
      trustLoop ok needed vals idx seen t (pre ++ rest) =
        if needed < t + ownerPow vals pre then .ok
        else trustLoop ok needed vals (idx + pre.length) ((owners vals pre).reverse ++ seen)
          (t + ownerPow vals pre) rest := by
  intro pre
  induction pre with
  | nil =>
    intro idx seen t _ _ _ _ ht
    have h0 : ownerPow vals [] = 0 := rfl
    have h1 : owners vals [] = [] := rfl
    rw [h0, h1, if_neg (by omega)]
    simp
  | cons s pre ih =>
    intro idx seen t hv hnd hdis hb ht
    rw [List.cons_append, trustLoop]
    simp only [allValidT, Bool.and_eq_true] at hv
    obtain ⟨hv1, hv2⟩ := hv
    have hidx : idx + (s :: pre).length = idx + 1 + pre.length := by simp only [List.length_cons]; omega
    rw [hidx]
    by_cases hc : s.flag = .commit
    · rw [if_pos hc] at hv1 ⊢
      rw [Bool.and_eq_true] at hv1
      obtain ⟨hs, hok⟩ := hv1
      rw [if_neg (by simp [hs])]
      cases hf : findValidator vals s.addr with
      | none =>
        have ho : ownerOf vals s = none := by simp [ownerOf, hc, hf]
        simp only [owners, ownerPow, ho] at hnd hdis hb ⊢
        exact ih (idx + 1) seen t hv2 hnd hdis hb ht
      | some p =>
        obtain ⟨vi, v⟩ := p
        have ho : ownerOf vals s = some (vi, v) := by simp [ownerOf, hc, hf]
        simp only [owners, ownerPow, ho, List.nodup_cons] at hnd hdis hb ⊢
        rw [hf] at hok
        simp only at hok
        have hnot : seen.contains vi = false := by
          have := hdis vi (List.mem_cons_self ..)
          simpa using this
        rw [if_neg (by rw [hnot]; exact Bool.false_ne_true), if_neg (by simp [hok]), if_neg (by omega)]
        by_cases hgt : t + v.power > needed
        · rw [if_pos hgt, if_pos (by omega)]
        · rw [if_neg hgt]
          have hdis' : ∀ x ∈ owners vals pre, x ∉ vi :: seen := by
            intro x hx hmem
            rcases List.mem_cons.mp hmem with rfl | hmem
            · exact hnd.1 hx
            · exact hdis x (List.mem_cons_of_mem _ hx) hmem
          rw [ih (idx + 1) (vi :: seen) (t + v.power) hv2 hnd.2 hdis' (by omega) (by omega)]
          simp only [Nat.add_assoc, List.reverse_cons, List.append_assoc, List.singleton_append]
    · rw [if_neg hc] at hv1 ⊢
      have ho : ownerOf vals s = none := by simp [ownerOf, hc]
      simp only [owners, ownerPow, ho] at hnd hdis hb ⊢
      exact ih (idx + 1) seen t hv2 hnd hdis hb ht

/-- the tally of entries without double votes is the indicator sum over their owners -/
theorem seenSum_owners (vals : List Validator) :
    ∀ (ss : List CSig) (S : List Nat), (owners vals ss).Nodup → (∀ vi ∈ owners vals ss, vi ∉ S) →
      seenSum vals (owners vals ss ++ S) = ownerPow vals ss + seenSum vals S := by
  intro ss
  induction ss with
  | nil => intro S _ _; simp [owners, ownerPow]
  | cons s ss ih =>
    intro S hnd hdis
    cases ho : ownerOf vals s with
    | none =>
      simp only [owners, ownerPow, ho] at hnd hdis ⊢
      exact ih S hnd hdis
    | some p =>
      obtain ⟨vi, v⟩ := p
      simp only [owners, ownerPow, ho, List.nodup_cons] at hnd hdis ⊢
      have hf : findValidator vals s.addr = some (vi, v) := by
        unfold ownerOf at ho
        split at ho
        · exact ho
        · cases ho
      have hfv := findValidator_some vals s.addr vi v hf
      have hnot : vi ∉ owners vals ss ++ S := by
        intro hm
        rcases List.mem_append.mp hm with hm | hm
        · exact hnd.1 hm
        · exact hdis vi (List.mem_cons_self ..) hm
      rw [List.cons_append, seenSum_cons vals _ vi v hnot hfv.1,
        ih S hnd.2 (fun x hx => hdis x (List.mem_cons_of_mem _ hx))]
      omega

theorem mem_owners (vals : List Validator) (i : Nat) :
    ∀ (ss : List CSig), i ∈ owners vals ss ↔
      ∃ s ∈ ss, s.flag = .commit ∧ ∃ v, findValidator vals s.addr = some (i, v) := by
  intro ss
  induction ss with
  | nil => simp [owners]
  | cons s ss ih =>
    by_cases hc : s.flag = .commit
    · cases hf : findValidator vals s.addr with
      | none =>
        have ho : ownerOf vals s = none := by simp [ownerOf, hc, hf]
        simp only [owners, ho, ih, List.mem_cons, exists_eq_or_imp, hf]
        simp
      | some p =>
        obtain ⟨vi, v⟩ := p
        have ho : ownerOf vals s = some (vi, v) := by simp [ownerOf, hc, hf]
        simp only [owners, ho, ih, List.mem_cons, exists_eq_or_imp, hf, hc, true_and]
        constructor
        · rintro (rfl | h)
          · exact Or.inl ⟨v, rfl⟩
          · exact Or.inr h
        · rintro (⟨w, hw⟩ | h)
          · left
            simp only [Option.some.injEq, Prod.mk.injEq] at hw
            exact hw.1.symm
          · exact Or.inr h
    · have ho : ownerOf vals s = none := by simp [ownerOf, hc]
      simp only [owners, ho, ih, List.mem_cons, exists_eq_or_imp, hc, false_and, false_or]

/-- `find_validator` returns the FIRST validator with that address -/
theorem findValidatorFrom_iff (a : Addr) (vals : List Validator) :
    ∀ (k vi : Nat) (v : Validator), findValidatorFrom a k vals = some (vi, v) ↔
      (k ≤ vi ∧ vals[vi - k]? = some v ∧ v.addr = a ∧
        ∀ m, m < vi - k → ∀ w, vals[m]? = some w → w.addr ≠ a) := by
  induction vals with
  | nil => intro k vi v; simp [findValidatorFrom]
  | cons x xs ih =>
    intro k vi v
    rw [findValidatorFrom]
    by_cases hx : x.addr = a
    · rw [if_pos hx]
      constructor
      · intro h
        simp only [Option.some.injEq, Prod.mk.injEq] at h
        obtain ⟨h1, h2⟩ := h
        subst h1; subst h2
        exact ⟨Nat.le_refl _, by simp, hx, fun m hm => by omega⟩
      · rintro ⟨h1, h2, h3, h4⟩
        have hvk : vi - k = 0 := by
          by_cases h0 : vi - k = 0
          · exact h0
          · exact absurd hx (h4 0 (by omega) x (by simp))
        rw [hvk] at h2
        simp only [List.getElem?_cons_zero, Option.some.injEq] at h2
        have : k = vi := by omega
        rw [this, h2]
    · rw [if_neg hx, ih (k + 1) vi v]
      constructor
      · rintro ⟨h1, h2, h3, h4⟩
        refine ⟨by omega, ?_, h3, ?_⟩
        · have : vi - k = (vi - (k + 1)) + 1 := by omega
          rw [this, List.getElem?_cons_succ]; exact h2
        · intro m hm w hw
          cases m with
          | zero => simp at hw; subst hw; exact hx
          | succ m => rw [List.getElem?_cons_succ] at hw; exact h4 m (by omega) w hw
      · rintro ⟨h1, h2, h3, h4⟩
        have hne : vi ≠ k := by
          intro he
          rw [he, Nat.sub_self] at h2
          simp only [List.getElem?_cons_zero, Option.some.injEq] at h2
          rw [h2] at hx; exact hx h3
        refine ⟨by omega, ?_, h3, ?_⟩
        · have : vi - k = (vi - (k + 1)) + 1 := by omega
          rw [this, List.getElem?_cons_succ] at h2; exact h2
        · intro m hm w hw
          exact h4 (m + 1) (by omega) w (by rw [List.getElem?_cons_succ]; exact hw)

/-- the spec's "the trusted validator this address refers to" is `find_validator` -/
theorem isOwner_iff (vs : ValSet) (h ch : Nat) (sigs : List CSig) (i : Nat) (a : Addr) :
    isOwner (specInput vs h ch sigs) i a = true ↔ ∃ v, findValidator vs.vals a = some (i, v) := by
  unfold findValidator
  simp only [findValidatorFrom_iff, Nat.zero_le, Nat.sub_zero, true_and]
  simp only [isOwner, specInput, Bool.and_eq_true, beq_iff_eq, List.all_eq_true, List.mem_range,
    bne_iff_ne, ne_eq, List.getElem?_map, Option.map_eq_some_iff]
  constructor
  · rintro ⟨⟨v, hv, ha⟩, hmin⟩
    exact ⟨v, hv, ha, fun m hm w hw hwa => hmin m hm ⟨w, hw, hwa⟩⟩
  · rintro ⟨v, hv, ha, hmin⟩
    exact ⟨⟨v, hv, ha⟩, fun m hm ⟨w, hw, hwa⟩ => hmin m hm w hw hwa⟩

theorem signerTrusting_iff (vs : ValSet) (h ch : Nat) (sigs : List CSig) (i : Nat) :
    signerTrusting (specInput vs h ch sigs) i = true ↔ i ∈ owners vs.vals sigs := by
  rw [mem_owners]
  simp only [signerTrusting, List.any_eq_true, List.mem_range, Bool.and_eq_true]
  constructor
  · rintro ⟨j, hj, hc, ho⟩
    have hj' : j < sigs.length := by simpa [specInput] using hj
    have he : entry (specInput vs h ch sigs) j = toEntry sigs[j] := by
      simp [entry, specInput, hj']
    rw [he] at hc ho
    refine ⟨sigs[j], List.getElem_mem _, by simpa [toEntry] using hc, ?_⟩
    exact (isOwner_iff vs h ch sigs i _).mp ho
  · rintro ⟨s, hs, hc, ho⟩
    obtain ⟨j, hj, rfl⟩ := List.getElem_of_mem hs
    have he : entry (specInput vs h ch sigs) j = toEntry sigs[j] := by
      simp [entry, specInput, hj]
    refine ⟨j, by simpa [specInput] using hj, ?_, ?_⟩
    · rw [he]; simp [toEntry, hc]
    · rw [he]; exact (isOwner_iff vs h ch sigs i _).mpr ho

/-- without double votes, the distinct trusted signers' power is the entry-by-entry tally -/
theorem trustedSigningPower_eq (vs : ValSet) (h ch : Nat) (sigs : List CSig)
    (hnd : (owners vs.vals sigs).Nodup) :
    trustedSigningPower (specInput vs h ch sigs) = ownerPow vs.vals sigs := by
  have h1 := seenSum_owners vs.vals sigs [] hnd (fun _ _ => by simp)
  have h0 : seenSum vs.vals [] = 0 := by simp [seenSum, sumBelow_zero]
  rw [List.append_nil, h0, Nat.add_zero] at h1
  rw [← h1]
  unfold trustedSigningPower seenSum
  have hl : (specInput vs h ch sigs).powers.length = vs.vals.length := by simp [specInput]
  rw [hl]
  apply sumBelow_congr
  intro i _
  by_cases hm : i ∈ owners vs.vals sigs
  · rw [if_pos hm, if_pos ((signerTrusting_iff vs h ch sigs i).mpr hm)]
    simp [power, specInput]
  · have : ¬ signerTrusting (specInput vs h ch sigs) i = true :=
      fun hc => hm ((signerTrusting_iff vs h ch sigs i).mp hc)
    simp [hm, this]

/-- the spec's "no trusted validator is duplicated" makes the owners pairwise distinct -/
theorem owners_nodup (vals : List Validator) :
    ∀ (ss : List CSig),
      noDoubleVote (fun a => (vals.map (·.addr)).contains a) (ss.map toEntry) = true →
      (owners vals ss).Nodup := by
  intro ss
  induction ss with
  | nil => intro _; simp [owners]
  | cons s ss ih =>
    intro h
    simp only [List.map_cons, noDoubleVote, Bool.and_eq_true] at h
    obtain ⟨h1, h2⟩ := h
    cases ho : ownerOf vals s with
    | none => simp only [owners, ho]; exact ih h2
    | some p =>
      obtain ⟨vi, v⟩ := p
      simp only [owners, ho, List.nodup_cons]
      refine ⟨?_, ih h2⟩
      have hc : s.flag = .commit := by
        unfold ownerOf at ho
        split at ho
        · assumption
        · cases ho
      have hf : findValidator vals s.addr = some (vi, v) := by simpa [ownerOf, hc] using ho
      have hfv := findValidator_some vals s.addr vi v hf
      intro hm
      obtain ⟨s', hs', hc', v', hf'⟩ := (mem_owners vals vi ss).mp hm
      have hfv' := findValidator_some vals s'.addr vi v' hf'
      have hvv : v' = v := by
        have := hfv'.1; rw [hfv.1] at this; exact (Option.some.inj this).symm
      have haddr : s'.addr = s.addr := by rw [← hfv'.2, ← hfv.2, hvv]
      have htr : (vals.map (·.addr)).contains s.addr = true := by
        simp only [List.contains_iff_mem, List.mem_map]
        exact ⟨v, List.mem_of_getElem? hfv.1, hfv.2⟩
      have hpre : ((toEntry s).isCommit && (vals.map (·.addr)).contains (toEntry s).addr) = true := by
        rw [Bool.and_eq_true]; exact ⟨by simp [toEntry, hc], htr⟩
      rw [hpre] at h1
      simp only [Bool.not_true, Bool.false_or] at h1
      have := List.all_eq_true.mp h1 (toEntry s') (List.mem_map_of_mem hs')
      simp [toEntry, hc', haddr] at this

theorem allValidT_of (ok : Nat → Nat → Bool) (vs : ValSet) (h ch : Nat) (sigs : List CSig) :
    ∀ (k : Nat) (ss : List CSig),
      (∀ j, j < ss.length →
        (!((ss.map toEntry).getD j noVote).isCommit ||
          (((ss.map toEntry).getD j noVote).hasSig &&
            (List.range vs.vals.length).all (fun i =>
              !isOwner (specInput vs h ch sigs) i ((ss.map toEntry).getD j noVote).addr || ok i (k + j)))) = true) →
      allValidT ok vs.vals k ss = true := by
  intro k ss
  induction ss generalizing k with
  | nil => intro _; simp [allValidT]
  | cons s ss ih =>
    intro hall
    have h0 := hall 0 (by simp)
    have hrest := ih (k + 1) (fun j hj => by
      have := hall (j + 1) (by simp; omega)
      simpa [Nat.add_assoc, Nat.add_comm 1] using this)
    simp only [List.map_cons, List.getD_cons_zero, toEntry, Nat.add_zero] at h0
    simp only [allValidT, hrest, Bool.and_true]
    by_cases hc : s.flag = .commit
    · simp only [hc, decide_true, Bool.not_true, Bool.false_or, Bool.and_eq_true, List.all_eq_true,
        List.mem_range] at h0
      rw [if_pos hc, Bool.and_eq_true]
      refine ⟨h0.1, ?_⟩
      cases hf : findValidator vs.vals s.addr with
      | none => rfl
      | some p =>
        obtain ⟨vi, v⟩ := p
        simp only
        have hfv := findValidator_some vs.vals s.addr vi v hf
        have hlt : vi < vs.vals.length := (List.getElem?_eq_some_iff.mp hfv.1).1
        have := h0.2 vi hlt
        rw [(isOwner_iff vs h ch sigs vi s.addr).mpr ⟨v, hf⟩] at this
        simpa using this
    · rw [if_neg hc]

theorem ownerPow_le_sum (vals : List Validator) (ss : List CSig) (hnd : (owners vals ss).Nodup) :
    ownerPow vals ss ≤ sumPowers vals := by
  have h1 := seenSum_owners vals ss [] hnd (fun _ _ => by simp)
  have := seenSum_le_sumPowers vals (owners vals ss ++ [])
  omega

theorem findValidatorFrom_isSome (a : Addr) (vals : List Validator) :
    ∀ k, a ∈ vals.map (·.addr) → ∃ vi v, findValidatorFrom a k vals = some (vi, v) := by
  induction vals with
  | nil => intro k h; simp at h
  | cons x xs ih =>
    intro k h
    rw [findValidatorFrom]
    by_cases hx : x.addr = a
    · exact ⟨k, x, by rw [if_pos hx]⟩
    · rw [if_neg hx]
      apply ih (k + 1)
      simp only [List.map_cons, List.mem_cons] at h
      rcases h with h | h
      · exact absurd h.symm hx
      · exact h

/-- a block-commit entry (with a signature) of a trusted validator that was already tallied is
    answered with the "Double vote" ERROR — before its signature is even looked at -/
theorem trustLoop_double (ok : Nat → Nat → Bool) (needed : Nat) (vals : List Validator) (idx : Nat)
    (seen : List Nat) (t : Nat) (d : CSig) (rest : List CSig) (vi : Nat) (v : Validator)
    (hd : d.flag = .commit) (hsig : d.hasSig = true) (hf : findValidator vals d.addr = some (vi, v))
    (hm : vi ∈ seen) : trustLoop ok needed vals idx seen t (d :: rest) = .err .doubleVote := by
  rw [trustLoop, if_pos hd, if_neg (by simp [hsig]), hf]
  simp only
  rw [if_pos (by simpa using hm)]

end Lumina.Proofs.Commit

/-
  Lemmas about the `HeaderSession` model (used by Props/C26 and Props/C27).

  The central invariant `Inv`: the heights still in `toFetch`, the heights of the outstanding
  tasks and the heights of the received headers together form exactly the requested range,
  each height once (stated by counting: `count x (heights s) = count x (range' start len)`).
-/
import Lumina.Model.Session

namespace Lumina.Proofs.Session
open Lumina.Model.Session

variable {α : Type}

/-! ### heights accounted for by a state -/

def fetchHeights : Option Range → List Nat
  | none => []
  | some r => List.range' r.1 (rangeLen r)

def taskHeights (t : Req) : List Nat := List.range' t.1 t.2

def heights (ht : α → Nat) (s : State α) : List Nat :=
  fetchHeights s.toFetch ++ (s.tasks.flatMap taskHeights ++ s.responses.flatten.map ht)

theorem count_heights (ht : α → Nat) (s : State α) (x : Nat) :
    (heights ht s).count x =
      (fetchHeights s.toFetch).count x + ((s.tasks.flatMap taskHeights).count x
        + (s.responses.flatten.map ht).count x) := by
  simp [heights, List.count_append]

theorem count_range'_split (h k a x : Nat) (hk : k ≤ a) :
    (List.range' h a).count x = (List.range' h k).count x + (List.range' (h + k) (a - k)).count x := by
  have : List.range' h a = List.range' h k ++ List.range' (h + k) (a - k) := by
    rw [List.range'_append_1]; congr 1; omega
  rw [this, List.count_append]

theorem count_tasks_erase (ts : List Req) (t : Req) (ht : t ∈ ts) (x : Nat) :
    (ts.flatMap taskHeights).count x
      = (taskHeights t).count x + ((ts.erase t).flatMap taskHeights).count x := by
  have hp := (List.perm_cons_erase ht).flatMap_right taskHeights
  rw [hp.count_eq x, List.flatMap_cons, List.count_append]

theorem count_tasks_snoc (ts : List Req) (t : Req) (x : Nat) :
    ((ts ++ [t]).flatMap taskHeights).count x
      = (ts.flatMap taskHeights).count x + (taskHeights t).count x := by
  simp [List.flatMap_append, List.count_append]

theorem count_resp_snoc (ht : α → Nat) (rs : List (List α)) (hs : List α) (x : Nat) :
    ((rs ++ [hs]).flatten.map ht).count x = (rs.flatten.map ht).count x + (hs.map ht).count x := by
  simp [List.count_append]

/-! ### `take_next_batch` -/

theorem rangeLen_pos {r : Range} (h : r.1 ≤ r.2) : rangeLen r = r.2 - r.1 + 1 := by
  simp [rangeLen, h]

/-- what `takeNextBatch` does to the accounted heights -/
theorem takeNextBatch_spec (tf : Option Range) (limit : Nat) (hl : 1 ≤ limit)
    (hne : ∀ r, tf = some r → r.1 ≤ r.2) :
    (∀ x, (fetchHeights tf).count x
        = (fetchHeights (takeNextBatch tf limit).1).count x
          + (fetchHeights (takeNextBatch tf limit).2).count x) ∧
    (∀ r', (takeNextBatch tf limit).1 = some r' → r'.1 ≤ r'.2 ∧ tf ≠ none ∧ (takeNextBatch tf limit).2 ≠ none) ∧
    (∀ b, (takeNextBatch tf limit).2 = some b → b.1 ≤ b.2 ∧ rangeLen b ≤ limit) ∧
    ((takeNextBatch tf limit).2 = none → tf = none ∧ (takeNextBatch tf limit).1 = none) := by
  unfold takeNextBatch
  have hl0 : limit ≠ 0 := by omega
  simp only [hl0, ↓reduceIte]
  cases tf with
  | none => simp [fetchHeights]
  | some r =>
    have hr := hne r rfl
    by_cases hle : rangeLen r ≤ limit
    · simp [hle, fetchHeights, hr]
    · simp only [hle, ↓reduceIte]
      have hlen := rangeLen_pos hr
      have hgt : limit < r.2 - r.1 + 1 := by omega
      refine ⟨?_, ?_, ?_, ?_⟩
      · intro x
        simp only [fetchHeights]
        have h1 : rangeLen (r.1, r.2 - limit) = r.2 - r.1 + 1 - limit := by
          have : r.1 ≤ r.2 - limit := by omega
          simp only [rangeLen, this, ↓reduceIte]; omega
        have h2 : rangeLen (r.2 - (limit - 1), r.2) = limit := by
          have : r.2 - (limit - 1) ≤ r.2 := by omega
          simp only [rangeLen, this, ↓reduceIte]; omega
        rw [h1, h2, hlen]
        have := count_range'_split r.1 (r.2 - r.1 + 1 - limit) (r.2 - r.1 + 1) x (by omega)
        rw [this]
        have e1 : r.1 + (r.2 - r.1 + 1 - limit) = r.2 - (limit - 1) := by omega
        have e2 : r.2 - r.1 + 1 - (r.2 - r.1 + 1 - limit) = limit := by omega
        rw [e1, e2]
      · intro r' h
        simp at h
        subst h
        simp
        omega
      · intro b h
        simp at h
        subst h
        simp [rangeLen]
        omega
      · intro h
        simp at h

/-! ### the invariant -/

/-- `M` bounds the batch size (`MAX_AMOUNT_PER_REQ`) -/
structure Inv (ht : α → Nat) (M : Nat) (r : Range) (s : State α) : Prop where
  running : s.status = .running
  count : ∀ x, (heights ht s).count x = (List.range' r.1 (rangeLen r)).count x
  amt : ∀ t ∈ s.tasks, 1 ≤ t.2 ∧ t.2 ≤ M
  spans : ∀ sp ∈ s.responses, sp ≠ [] ∧ ∃ h, sp.map ht = List.range' h sp.length
  bs : 1 ≤ s.batchSize ∧ s.batchSize ≤ M
  fetch : ∀ tf, s.toFetch = some tf → tf.1 ≤ tf.2

/-- while something is left to fetch all `n` task slots are in use -/
def Full (n : Nat) (s : State α) : Prop := ∀ tf, s.toFetch = some tf → s.tasks.length = n

theorem sendNextRequest_cases (s : State α) :
    ((takeNextBatch s.toFetch s.batchSize).2 = none ∧
      sendNextRequest s = { s with toFetch := (takeNextBatch s.toFetch s.batchSize).1 }) ∨
    (∃ b, (takeNextBatch s.toFetch s.batchSize).2 = some b ∧
      sendNextRequest s = sendRequest { s with toFetch := (takeNextBatch s.toFetch s.batchSize).1 } b.1 (rangeLen b)) := by
  unfold sendNextRequest
  rcases h : takeNextBatch s.toFetch s.batchSize with ⟨tf, b⟩
  cases b with
  | none => left; simp
  | some b => right; exact ⟨b, by simp⟩

theorem inv_sendNextRequest (ht : α → Nat) (M : Nat) (r : Range) (s : State α)
    (h : Inv ht M r s) : Inv ht M r (sendNextRequest s) := by
  obtain ⟨hc, hfetch', hb, hnone⟩ := takeNextBatch_spec s.toFetch s.batchSize h.bs.1 h.fetch
  rcases sendNextRequest_cases s with ⟨hn, he⟩ | ⟨b, hbb, he⟩
  · obtain ⟨h1, h2⟩ := hnone hn
    rw [he]
    refine ⟨h.running, ?_, h.amt, h.spans, h.bs, ?_⟩
    · intro x
      have := h.count x
      rw [count_heights] at this ⊢
      dsimp only
      rw [h2]
      rw [h1] at this
      exact this
    · intro tf htf
      dsimp only at htf
      rw [h2] at htf
      cases htf
  · obtain ⟨hb1, hb2⟩ := hb b hbb
    rw [he]
    refine ⟨h.running, ?_, ?_, h.spans, h.bs, ?_⟩
    · intro x
      have h0 := h.count x
      rw [count_heights] at h0 ⊢
      have h1 := hc x
      have hk : fetchHeights (some b) = List.range' b.1 (rangeLen b) := rfl
      rw [hbb, hk] at h1
      simp only [sendRequest]
      rw [count_tasks_snoc]
      simp only [taskHeights]
      omega
    · intro t htm
      simp only [sendRequest, List.mem_append, List.mem_singleton] at htm
      rcases htm with htm | rfl
      · exact h.amt t htm
      · have := rangeLen_pos hb1
        simp only
        have := h.bs.2
        omega
    · intro tf htf
      exact (hfetch' tf htf).1

theorem full_sendNextRequest (n : Nat) (s : State α) (h1 : 1 ≤ s.batchSize)
    (hne : ∀ r, s.toFetch = some r → r.1 ≤ r.2)
    (hf : ∀ tf, s.toFetch = some tf → s.tasks.length + 1 = n) : Full n (sendNextRequest s) := by
  obtain ⟨_, hfetch', _, _⟩ := takeNextBatch_spec s.toFetch s.batchSize h1 hne
  intro tf htf
  rcases sendNextRequest_cases s with ⟨hn, he⟩ | ⟨b, hbb, he⟩
  · rw [he] at htf
    have := (hfetch' tf htf).2.2
    exact absurd hn this
  · rw [he] at htf ⊢
    simp only [sendRequest] at htf ⊢
    have h2 := (hfetch' tf htf).2.1
    cases hs : s.toFetch with
    | none => exact absurd hs h2
    | some r0 => simp [← hf r0 hs]

theorem sendNextRequest_length_le (s : State α) :
    (sendNextRequest s).tasks.length ≤ s.tasks.length + 1 := by
  rcases sendNextRequest_cases s with ⟨_, he⟩ | ⟨b, _, he⟩ <;> rw [he] <;> simp [sendRequest]

theorem sendNextRequest_none (s : State α) (h : s.toFetch = none) :
    (sendNextRequest s).toFetch = none := by
  unfold sendNextRequest takeNextBatch
  rw [h]
  by_cases hl : s.batchSize = 0 <;> simp [hl]

/-! ### `init` -/

theorem repeat_succ' {β : Type} (f : β → β) (n : Nat) (a : β) :
    Nat.repeat f (n + 1) a = f (Nat.repeat f n a) := rfl

/-- after `n` initial `send_next_request`s: either everything was handed out, or exactly `n`
    tasks are outstanding -/
theorem inv_repeat (ht : α → Nat) (M : Nat) (r : Range) (s : State α) (h : Inv ht M r s)
    (h0 : s.tasks = []) (n : Nat) :
    Inv ht M r (Nat.repeat sendNextRequest n s) ∧
    (Nat.repeat sendNextRequest n s).tasks.length ≤ n ∧
    (∀ tf, (Nat.repeat sendNextRequest n s).toFetch = some tf →
      (Nat.repeat sendNextRequest n s).tasks.length = n) := by
  induction n with
  | zero => exact ⟨h, by simp [Nat.repeat, h0], by intro tf _; simp [Nat.repeat, h0]⟩
  | succ n ih =>
    obtain ⟨i1, i2, i3⟩ := ih
    rw [repeat_succ']
    refine ⟨inv_sendNextRequest ht M r _ i1, ?_, ?_⟩
    · have := sendNextRequest_length_le (Nat.repeat sendNextRequest n s); omega
    · have := full_sendNextRequest (n + 1) (Nat.repeat sendNextRequest n s) i1.bs.1 i1.fetch
        (by intro tf htf; rw [i3 tf htf])
      exact this

theorem clamp_bounds (x lo hi : Nat) (h : lo ≤ hi) : lo ≤ clamp x lo hi ∧ clamp x lo hi ≤ hi := by
  unfold clamp
  split
  · omega
  · split <;> omega

/-- the state right after `HeaderSession::new` for a non-empty range below `u64::MAX` -/
theorem inv_new (ht : α → Nat) (c : Cfg) (r : Range) (hc : 1 ≤ c.minAmount ∧ c.minAmount ≤ c.maxAmount)
    (hr : 1 ≤ r.1 ∧ r.1 ≤ r.2 ∧ r.2 ≤ U64_MAX) :
    Inv ht c.maxAmount r (new c r : State α) := by
  have hb := clamp_bounds (divCeil (rangeLen r) c.maxConcurrent) c.minAmount c.maxAmount hc.2
  have hnp : lenPanics r = false := by
    simp [lenPanics]; intro _; omega
  refine ⟨by simp [new, hnp], ?_, by simp [new], by simp [new], ?_, ?_⟩
  · intro x; simp [heights, new, fetchHeights]
  · simp only [new, batchSize]; omega
  · intro tf h; simp [new] at h; subst h; exact hr.2.1

theorem init_eq (c : Cfg) (r : Range) (hr : 1 ≤ r.1 ∧ r.1 ≤ r.2 ∧ r.2 ≤ U64_MAX) :
    (init c r : State α) = Nat.repeat sendNextRequest c.maxConcurrent (new c r) := by
  have hnp : lenPanics r = false := by
    simp [lenPanics]; intro _; omega
  simp [init, new, hnp]

theorem inv_init (ht : α → Nat) (c : Cfg) (r : Range) (hc : 1 ≤ c.minAmount ∧ c.minAmount ≤ c.maxAmount)
    (hr : 1 ≤ r.1 ∧ r.1 ≤ r.2 ∧ r.2 ≤ U64_MAX) :
    Inv ht c.maxAmount r (init c r : State α) ∧ Full c.maxConcurrent (init c r : State α) := by
  rw [init_eq c r hr]
  have := inv_repeat ht c.maxAmount r (new c r) (inv_new ht c r hc hr) (by simp [new]) c.maxConcurrent
  exact ⟨this.1, this.2.2⟩

/-! ### one step -/

/-- the schedule's side of the bargain: the event answers an outstanding request with a prefix
    of the requested headers (`ok`), or with a header-ex error (`err`) -/
def AdmissibleEv (ht : α → Nat) (s : State α) : Ev α → Prop
  | .ok h a hs => (h, a) ∈ s.tasks ∧ hs.length ≤ a ∧ hs.map ht = List.range' h hs.length
  | .err h a => (h, a) ∈ s.tasks
  | .fatal _ _ => False

/-- every outstanding request lies inside the requested range (so below `u64::MAX`) -/
theorem task_in_range (ht : α → Nat) (M : Nat) (r : Range) (s : State α) (h : Inv ht M r s)
    (t : Req) (hm : t ∈ s.tasks) : r.1 ≤ t.1 ∧ t.1 + t.2 ≤ r.1 + rangeLen r := by
  have ha := h.amt t hm
  have key : ∀ y, y ∈ taskHeights t → r.1 ≤ y ∧ y < r.1 + rangeLen r := by
    intro y hy
    have h0 := h.count y
    rw [count_heights, count_tasks_erase _ t hm] at h0
    have : 0 < (taskHeights t).count y := List.count_pos_iff.mpr hy
    have h2 : 0 < (List.range' r.1 (rangeLen r)).count y := by omega
    have := List.count_pos_iff.mp h2
    simpa using this
  have k1 := key t.1 (by simp [taskHeights]; omega)
  have k2 := key (t.1 + t.2 - 1) (by simp [taskHeights]; omega)
  omega

theorem step_eq (s : State α) (ev : Ev α) (hr : s.status = .running) (hm : ev.req ∈ s.tasks) :
    step s ev =
      match ev with
      | .ok h a hs =>
        if hs.length < a then
          if U64_MAX < h + hs.length then
            { (if 0 < hs.length then { s with tasks := s.tasks.erase ev.req, responses := s.responses ++ [hs] }
                else { s with tasks := s.tasks.erase ev.req } : State α) with status := .panicked }
          else sendRequest (if 0 < hs.length then { s with tasks := s.tasks.erase ev.req, responses := s.responses ++ [hs] }
                else { s with tasks := s.tasks.erase ev.req } : State α) (h + hs.length) (a - hs.length)
        else sendNextRequest (if 0 < hs.length then { s with tasks := s.tasks.erase ev.req, responses := s.responses ++ [hs] }
                else { s with tasks := s.tasks.erase ev.req } : State α)
      | .err h a => sendRequest { s with tasks := s.tasks.erase ev.req } h a
      | .fatal _ _ => { s with tasks := s.tasks.erase ev.req, status := .failed } := by
  unfold step
  rw [if_pos ⟨hr, hm⟩]
  cases ev <;> rfl

theorem inv_step (ht : α → Nat) (M n : Nat) (r : Range) (hr : r.1 ≤ r.2 ∧ r.2 ≤ U64_MAX) (s : State α) (ev : Ev α)
    (h : Inv ht M r s) (hf : Full n s) (hadm : AdmissibleEv ht s ev) :
    Inv ht M r (step s ev) ∧ Full n (step s ev) := by
  cases ev with
  | fatal h' a' => exact absurd hadm (by simp [AdmissibleEv])
  | err h' a' =>
    have hm : (h', a') ∈ s.tasks := hadm
    rw [step_eq s (.err h' a') h.running hm]
    simp only [Ev.req, sendRequest]
    refine ⟨⟨h.running, ?_, ?_, h.spans, h.bs, h.fetch⟩, ?_⟩
    · intro x
      have h0 := h.count x
      rw [count_heights] at h0 ⊢
      simp only
      rw [count_tasks_snoc, count_tasks_erase _ _ hm] at *
      omega
    · intro t htm
      simp only [List.mem_append, List.mem_singleton] at htm
      rcases htm with htm | rfl
      · exact h.amt t (List.mem_of_mem_erase htm)
      · exact h.amt _ hm
    · intro tf htf
      have := hf tf htf
      have hl := List.length_erase_of_mem hm
      simp only [List.length_append, List.length_singleton, hl]
      have : 0 < s.tasks.length := List.length_pos_of_mem hm
      omega
  | ok h' a' hs =>
    obtain ⟨hm, hlen, hpre⟩ := hadm
    have hamt := h.amt _ hm
    have hin := task_in_range ht M r s h _ hm
    have hlenr : r.1 + rangeLen r ≤ U64_MAX + 1 := by
      rw [rangeLen_pos hr.1]; omega
    rw [step_eq s (.ok h' a' hs) h.running hm]
    simp only [Ev.req]
    -- the state after removing the task and storing the (non-empty) response
    by_cases hk : hs.length < a'
    · -- partial answer: reschedule the rest
      have hnp : ¬ U64_MAX < h' + hs.length := by simp only at hin; omega
      simp only [hk, ↓reduceIte, hnp]
      by_cases h0 : 0 < hs.length
      · simp only [h0, ↓reduceIte, sendRequest]
        refine ⟨⟨h.running, ?_, ?_, ?_, h.bs, h.fetch⟩, ?_⟩
        · intro x
          have hc0 := h.count x
          rw [count_heights] at hc0 ⊢
          simp only
          rw [count_tasks_snoc, count_resp_snoc, hpre]
          rw [count_tasks_erase _ _ hm] at hc0
          have := count_range'_split h' hs.length a' x hlen
          simp only [taskHeights] at *
          omega
        · intro t htm
          simp only [List.mem_append, List.mem_singleton] at htm
          rcases htm with htm | rfl
          · exact h.amt t (List.mem_of_mem_erase htm)
          · simp only; omega
        · intro sp hsp
          simp only [List.mem_append, List.mem_singleton] at hsp
          rcases hsp with hsp | rfl
          · exact h.spans sp hsp
          · exact ⟨by intro e; simp [e] at h0, h', hpre⟩
        · intro tf htf
          have := hf tf htf
          have hl := List.length_erase_of_mem hm
          simp only [List.length_append, List.length_singleton, hl]
          have : 0 < s.tasks.length := List.length_pos_of_mem hm
          omega
      · have hz : hs.length = 0 := by omega
        simp only [if_neg h0]
        simp only [sendRequest, hz, Nat.add_zero, Nat.sub_zero]
        refine ⟨⟨h.running, ?_, ?_, h.spans, h.bs, h.fetch⟩, ?_⟩
        · intro x
          have hc0 := h.count x
          rw [count_heights] at hc0 ⊢
          simp only
          rw [count_tasks_snoc]
          rw [count_tasks_erase _ _ hm] at hc0
          omega
        · intro t htm
          simp only [List.mem_append, List.mem_singleton] at htm
          rcases htm with htm | rfl
          · exact h.amt t (List.mem_of_mem_erase htm)
          · exact hamt
        · intro tf htf
          have := hf tf htf
          have hl := List.length_erase_of_mem hm
          simp only [List.length_append, List.length_singleton, hl]
          have : 0 < s.tasks.length := List.length_pos_of_mem hm
          omega
    · -- complete answer: next batch
      have hfull : hs.length = a' := by omega
      have h0 : 0 < hs.length := by omega
      simp only [hk, ↓reduceIte, h0]
      have hmid : Inv ht M r
          { s with tasks := s.tasks.erase (h', a'), responses := s.responses ++ [hs] } := by
        refine ⟨h.running, ?_, ?_, ?_, h.bs, h.fetch⟩
        · intro x
          have hc0 := h.count x
          rw [count_heights] at hc0 ⊢
          simp only
          rw [count_resp_snoc, hpre]
          rw [count_tasks_erase _ _ hm] at hc0
          simp only [taskHeights, hfull] at *
          omega
        · intro t htm
          exact h.amt t (List.mem_of_mem_erase htm)
        · intro sp hsp
          simp only [List.mem_append, List.mem_singleton] at hsp
          rcases hsp with hsp | rfl
          · exact h.spans sp hsp
          · exact ⟨by intro e; simp [e] at h0, h', hpre⟩
      refine ⟨inv_sendNextRequest ht M r _ hmid, ?_⟩
      apply full_sendNextRequest n _ hmid.bs.1 hmid.fetch
      intro tf htf
      have := hf tf htf
      have hl := List.length_erase_of_mem hm
      simp only [hl]
      have : 0 < s.tasks.length := List.length_pos_of_mem hm
      omega

/-- admissibility of a whole schedule, checked against the evolving state -/
def Admissible (ht : α → Nat) : State α → List (Ev α) → Prop
  | _, [] => True
  | s, ev :: evs => AdmissibleEv ht s ev ∧ Admissible ht (step s ev) evs

theorem inv_run (ht : α → Nat) (M n : Nat) (r : Range) (hr : r.1 ≤ r.2 ∧ r.2 ≤ U64_MAX) (evs : List (Ev α)) :
    ∀ (s : State α), Inv ht M r s → Full n s → Admissible ht s evs →
      Inv ht M r (run s evs) ∧ Full n (run s evs) := by
  induction evs with
  | nil => intro s h hf _; exact ⟨h, hf⟩
  | cons ev evs ih =>
    intro s h hf hadm
    obtain ⟨h1, h2⟩ := inv_step ht M n r hr s ev h hf hadm.1
    exact ih (step s ev) h1 h2 hadm.2

/-! ### the result -/

/-- all heights of span `a` lie below all heights of span `b` -/
def SpanLt (ht : α → Nat) (a b : List α) : Prop := ∀ x ∈ a, ∀ y ∈ b, ht x < ht y

theorem spanKey_of_contig (ht : α → Nat) (sp : List α) (h : Nat) (hne : sp ≠ [])
    (hc : sp.map ht = List.range' h sp.length) : spanKey ht sp = h := by
  cases sp with
  | nil => exact absurd rfl hne
  | cons x xs =>
    simp only [List.map_cons, List.length_cons, List.range'_succ, List.cons.injEq] at hc
    simp [spanKey, hc.1]

theorem mem_contig (ht : α → Nat) (sp : List α) (h : Nat) (hc : sp.map ht = List.range' h sp.length)
    (x : α) (hx : x ∈ sp) : h ≤ ht x ∧ ht x < h + sp.length := by
  have : ht x ∈ sp.map ht := List.mem_map_of_mem hx
  rw [hc] at this
  simpa using this

theorem insertSpan_perm (ht : α → Nat) (sp : List α) (l : List (List α)) :
    (insertSpan ht sp l).Perm (sp :: l) := by
  induction l with
  | nil => exact List.Perm.refl _
  | cons x xs ih =>
    simp only [insertSpan]
    split
    · exact List.Perm.refl _
    · exact (List.Perm.cons x ih).trans (List.Perm.swap sp x xs)

theorem sortSpans_perm (ht : α → Nat) (l : List (List α)) : (sortSpans ht l).Perm l := by
  induction l with
  | nil => exact List.Perm.refl _
  | cons x xs ih => exact (insertSpan_perm ht x _).trans (List.Perm.cons x ih)

theorem insertSpan_sorted (ht : α → Nat) (sp : List α) (l : List (List α))
    (h : l.Pairwise (fun a b => spanKey ht a ≤ spanKey ht b)) :
    (insertSpan ht sp l).Pairwise (fun a b => spanKey ht a ≤ spanKey ht b) := by
  induction l with
  | nil => simp [insertSpan]
  | cons x xs ih =>
    simp only [insertSpan]
    rw [List.pairwise_cons] at h
    split
    · rename_i hle
      refine List.pairwise_cons.mpr ⟨?_, List.pairwise_cons.mpr h⟩
      intro y hy
      simp only [List.mem_cons] at hy
      rcases hy with rfl | hy
      · exact hle
      · exact Nat.le_trans hle (h.1 y hy)
    · rename_i hgt
      refine List.pairwise_cons.mpr ⟨?_, ih h.2⟩
      intro y hy
      have := (insertSpan_perm ht sp xs).mem_iff.mp hy
      simp only [List.mem_cons] at this
      rcases this with rfl | hy'
      · omega
      · exact h.1 y hy'

theorem sortSpans_sorted (ht : α → Nat) (l : List (List α)) :
    (sortSpans ht l).Pairwise (fun a b => spanKey ht a ≤ spanKey ht b) := by
  induction l with
  | nil => simp [sortSpans]
  | cons x xs ih => exact insertSpan_sorted ht x _ ih

/-- the final sort + flatten yields the range, ascending -/
theorem result_eq (ht : α → Nat) (M : Nat) (r : Range) (s : State α) (h : Inv ht M r s)
    (hdone : s.tasks = []) (hnf : s.toFetch = none) :
    (result ht s).map ht = List.range' r.1 (rangeLen r) := by
  have hperm : (sortSpans ht s.responses).Perm s.responses := sortSpans_perm ht _
  -- counting: the flattened heights are a permutation of the range
  have hcount : ((s.responses.flatten).map ht).Perm (List.range' r.1 (rangeLen r)) := by
    rw [List.perm_iff_count]
    intro x
    have := h.count x
    rw [count_heights, hdone, hnf] at this
    simpa [fetchHeights] using this
  have hperm2 : ((result ht s).map ht).Perm (List.range' r.1 (rangeLen r)) :=
    ((hperm.flatten).map ht).trans hcount
  have hnodup : ((s.responses.flatten).map ht).Nodup := hcount.nodup_iff.mpr (List.nodup_range')
  -- sortedness of the sorted spans
  have hsorted : (sortSpans ht s.responses).Pairwise (fun a b => spanKey ht a ≤ spanKey ht b) :=
    sortSpans_sorted ht _
  have hspans : ∀ sp ∈ sortSpans ht s.responses, sp ≠ [] ∧ ∃ k, sp.map ht = List.range' k sp.length := by
    intro sp hsp; exact h.spans sp (hperm.mem_iff.mp hsp)
  have hnodup' : (((sortSpans ht s.responses).flatten).map ht).Nodup :=
    ((hperm.flatten).map ht).nodup_iff.mpr hnodup
  -- strictly ascending
  have hasc : ((result ht s).map ht).Pairwise (· < ·) := by
    show (((sortSpans ht s.responses).flatten).map ht).Pairwise (· < ·)
    rw [List.pairwise_map, List.pairwise_flatten]
    constructor
    · intro sp hsp
      obtain ⟨_, k, hk⟩ := hspans sp hsp
      have : (sp.map ht).Pairwise (· < ·) := by rw [hk]; exact List.pairwise_lt_range'
      exact List.pairwise_map.mp this
    · -- sorted by key + disjoint + contiguous ⇒ span-wise below
      have hdisj : (sortSpans ht s.responses).Pairwise
          (fun a b => ∀ x ∈ a, ∀ y ∈ b, ht x ≠ ht y) := by
        have := hnodup'
        rw [List.Nodup, List.pairwise_map, List.pairwise_flatten] at this
        exact this.2
      have hboth := hsorted.and hdisj
      refine hboth.imp_of_mem ?_
      intro a b ha hb hab x hx y hy
      obtain ⟨hle, hne⟩ := hab
      obtain ⟨hane, ka, hka⟩ := hspans a ha
      obtain ⟨hbne, kb, hkb⟩ := hspans b hb
      have hkeya := spanKey_of_contig ht a ka hane hka
      have hkeyb := spanKey_of_contig ht b kb hbne hkb
      simp only [hkeya, hkeyb] at hle
      have hxa := mem_contig ht a ka hka x hx
      have hyb := mem_contig ht b kb hkb y hy
      -- the first header of `b` is not in `a`
      cases b with
      | nil => exact absurd rfl hbne
      | cons b0 bs =>
        have hb0 : ht b0 = kb := by
          simp only [List.map_cons, List.length_cons, List.range'_succ, List.cons.injEq] at hkb
          exact hkb.1
        -- if kb were inside a's interval, some element of a would have height kb
        by_cases hin : kb < ka + a.length
        · exfalso
          have : kb ∈ a.map ht := by rw [hka]; simp; omega
          obtain ⟨z, hz, hzk⟩ := List.mem_map.mp this
          exact hne z hz b0 (by simp) (by rw [hzk, hb0])
        · omega
  exact List.Perm.eq_of_pairwise (le := (· < ·)) (by intro a b _ _ h1 h2; omega) hasc
    List.pairwise_lt_range' hperm2

/-- the returned headers are exactly the received ones (as a multiset) -/
theorem result_perm (ht : α → Nat) (s : State α) : (result ht s).Perm s.responses.flatten :=
  (sortSpans_perm ht _).flatten

instance (ht : α → Nat) [DecidableEq α] (s : State α) (ev : Ev α) : Decidable (AdmissibleEv ht s ev) := by
  cases ev <;> simp only [AdmissibleEv] <;> infer_instance

instance instDecidableAdmissible (ht : α → Nat) [DecidableEq α] :
    (s : State α) → (evs : List (Ev α)) → Decidable (Admissible ht s evs)
  | _, [] => isTrue trivial
  | s, ev :: evs =>
    have := instDecidableAdmissible ht (step s ev) evs
    inferInstanceAs (Decidable (AdmissibleEv ht s ev ∧ Admissible ht (step s ev) evs))

/-! ### progress measure -/

/-- number of heights not yet received -/
def remaining (s : State α) : Nat :=
  (fetchHeights s.toFetch).length + (s.tasks.map (·.2)).sum

theorem sum_erase (ts : List Req) (t : Req) (h : t ∈ ts) :
    (ts.map (·.2)).sum = t.2 + ((ts.erase t).map (·.2)).sum := by
  have := ((List.perm_cons_erase h).map (·.2)).sum_nat
  simpa using this

theorem remaining_sendNextRequest (s : State α) (h1 : 1 ≤ s.batchSize)
    (hne : ∀ r, s.toFetch = some r → r.1 ≤ r.2) :
    remaining (sendNextRequest s) = remaining s := by
  obtain ⟨hc, _, hb, hnone⟩ := takeNextBatch_spec s.toFetch s.batchSize h1 hne
  have hlen : (fetchHeights s.toFetch).length
      = (fetchHeights (takeNextBatch s.toFetch s.batchSize).1).length
        + (fetchHeights (takeNextBatch s.toFetch s.batchSize).2).length := by
    unfold takeNextBatch
    have hl0 : s.batchSize ≠ 0 := by omega
    simp only [hl0, ↓reduceIte]
    cases hs : s.toFetch with
    | none => simp [fetchHeights]
    | some r =>
      have hr := hne r hs
      by_cases hle : rangeLen r ≤ s.batchSize
      · simp [hle, fetchHeights]
      · simp only [hle, ↓reduceIte, fetchHeights, List.length_range']
        have hlen := rangeLen_pos hr
        have h1 : rangeLen (r.1, r.2 - s.batchSize) = r.2 - r.1 + 1 - s.batchSize := by
          have : r.1 ≤ r.2 - s.batchSize := by omega
          simp only [rangeLen, this, ↓reduceIte]; omega
        have h2 : rangeLen (r.2 - (s.batchSize - 1), r.2) = s.batchSize := by
          have : r.2 - (s.batchSize - 1) ≤ r.2 := by omega
          simp only [rangeLen, this, ↓reduceIte]; omega
        rw [h1, h2]
        omega
  rcases sendNextRequest_cases s with ⟨hn, he⟩ | ⟨b, hbb, he⟩
  · rw [he]; simp only [remaining]
    rw [hlen, hn]; simp [fetchHeights]
  · rw [he]; simp only [remaining, sendRequest]
    rw [hlen, hbb]
    simp [fetchHeights]
    omega

/-- heights received + heights still owed = length of the range -/
theorem inv_length (ht : α → Nat) (M : Nat) (r : Range) (s : State α) (h : Inv ht M r s) :
    s.responses.flatten.length + remaining s = rangeLen r := by
  have hperm : (heights ht s).Perm (List.range' r.1 (rangeLen r)) := List.perm_iff_count.mpr h.count
  have hlen := hperm.length_eq
  have hsum : ∀ ts : List Req, (ts.flatMap taskHeights).length = (ts.map (·.2)).sum := by
    intro ts
    induction ts with
    | nil => rfl
    | cons t ts ih => simp [List.flatMap_cons, taskHeights, ih]
  simp only [heights, List.length_append, List.length_map, List.length_range', hsum] at hlen
  simp only [remaining]; omega

theorem remaining_zero_tasks (ht : α → Nat) (M : Nat) (r : Range) (s : State α) (h : Inv ht M r s)
    (h0 : remaining s = 0) : s.tasks = [] := by
  simp only [remaining] at h0
  cases hts : s.tasks with
  | nil => rfl
  | cons t ts =>
    exfalso
    have := h.amt t (by rw [hts]; simp)
    rw [hts] at h0
    simp at h0
    omega

theorem sendNextRequest_responses (s : State α) : (sendNextRequest s).responses = s.responses := by
  rcases sendNextRequest_cases s with ⟨_, he⟩ | ⟨b, _, he⟩ <;> rw [he] <;> rfl

/-- an answered request appends exactly its headers to what was received -/
theorem step_ok_flatten (s : State α) (h a : Nat) (hs : List α) (hr : s.status = .running)
    (hm : (h, a) ∈ s.tasks) :
    (step s (.ok h a hs)).responses.flatten = s.responses.flatten ++ hs := by
  rw [step_eq s (.ok h a hs) hr hm]
  by_cases h0 : 0 < hs.length
  · simp only [if_pos h0]
    split
    · split <;> simp [sendRequest]
    · simp [sendNextRequest_responses]
  · have hz : hs = [] := by
      cases hs with
      | nil => rfl
      | cons _ _ => simp at h0
    simp only [if_neg h0]
    split
    · split <;> simp [sendRequest, hz]
    · simp [sendNextRequest_responses, hz]


end Lumina.Proofs.Session

/-
  Helper lemmas for C06 (namespace data): soundness of `RowNamespaceData::verify` and `NamespaceData::verify` against
  the DAH of a square, the bridge between the model and the model-free spec `Lumina/Spec/C06.lean`.
-/
import Lumina.Proofs.Sample
import Lumina.Proofs.NmtRange
import Lumina.Model.NsData
import Lumina.Spec.C06

namespace Lumina.Proofs.NsData
open Lumina.Util Lumina.Model.Nmt Lumina.Model.Eds Lumina.Model.NsData
open Lumina.Proofs.Nmt Lumina.Proofs.NmtRange Lumina.Proofs.Eds Lumina.Proofs.Sample

/-- sizes that the Rust types guarantee for a proof: namespaced hashes are 29+29+32 bytes, indices are `u32` -/
def ProofOK (p : NsProof) : Prop :=
  (∀ x ∈ p.siblings, x.WF) ∧ (∀ l, p.leaf = some l → l.WF) ∧ p.start ≤ U32_MAX ∧ p.end_ ≤ U32_MAX

/-- facts about a row of a square whose DAH exists -/
theorem row_facts {H : HashFn} {e : Eds} {dah : Dah} (hd : Dah.ofEds H e = .ok dah)
    (hsz : ∀ sh ∈ e.shares, NS_SIZE ≤ sh.data.length) {row : Nat} (hrow : row < e.width) :
    ∃ shares root, e.axis? .row row = some shares ∧ dah.rowRoot? row = some root ∧ shares ≠ [] ∧
      computeRoot H true (shares.map (Share.leafHash H)) = .ok root ∧
      AllLeaf H (shares.map (Share.leafHash H)) ∧ SortedNs (shares.map (Share.leafHash H)) ∧
      (∀ sh ∈ shares, sh ∈ e.shares) := by
  obtain ⟨_, _, hrows, _⟩ := dah_ofEds_roots hd
  obtain ⟨root, hroot, hget⟩ := hrows row hrow
  obtain ⟨shares, hax, hcr, halh⟩ := axisRoot_ok hroot
  obtain ⟨hlen, hg⟩ := axis?_some hax
  have hmem : ∀ x ∈ shares, x ∈ e.shares := by
    intro x hx
    obtain ⟨n, hn, rfl⟩ := List.getElem_of_mem hx
    obtain ⟨y, hy1, hy2⟩ := hg n (by omega)
    rw [List.getElem?_eq_getElem hn] at hy2
    injection hy2 with hy2
    rw [hy2]
    exact List.mem_of_getElem? hy1
  have hpush : pushLeaves H (shares.map Share.leaf) = some (shares.map (Share.leafHash H)) := by
    have := halh
    unfold Eds.axisLeafHashes at this
    simp only [hax] at this
    cases hp : pushLeaves H (shares.map Share.leaf) with
    | none => simp [hp] at this
    | some v => simp only [hp, Except.ok.injEq] at this; rw [this]
  obtain ⟨hsorted, _⟩ := pushLeaves_sorted hpush (by
    intro p hp
    obtain ⟨y, hy, rfl⟩ := List.mem_map.mp hp
    exact share_ns_length (hsz y (hmem y hy)))
  have hne : shares ≠ [] := by
    intro h; rw [h] at hlen; simp at hlen; omega
  refine ⟨shares, root, hax, hget, hne, hcr, ?_, hsorted, hmem⟩
  intro x hx
  obtain ⟨y, hy, rfl⟩ := List.mem_map.mp hx
  exact ⟨y.ns, y.data, share_ns_length (hsz y (hmem y hy)), rfl⟩

/-- the data bytes of the shares of namespace `ns` in row `r` of the square (model side) -/
def rowNsData (e : Eds) (ns : Bytes) (r : Nat) : List Bytes :=
  match e.axis? .row r with
  | some shares => (shares.filter (fun sh => sh.ns == ns)).map Share.data
  | none => []

open Lumina.Spec.C06 (ltBytes leBytes nsAt rowShares rowCovers expected)

theorem ltBytes_eq : ∀ (a b : Bytes), ltBytes a b = ltB a b := by
  intro a
  induction a with
  | nil => intro b; cases b <;> rfl
  | cons x t ih =>
    intro b
    cases b with
    | nil => rfl
    | cons y u => simp only [ltBytes, ltB, ih u]

theorem leBytes_eq (a b : Bytes) : leBytes a b = leB a b := by
  unfold leBytes leB; rw [ltBytes_eq]

theorem filterMap_eq_map_of {α β} {f : α → Option β} {g : α → β} : ∀ {l : List α}, (∀ x ∈ l, f x = some (g x)) →
    l.filterMap f = l.map g := by
  intro l
  induction l with
  | nil => intro _; rfl
  | cons a t ih =>
    intro h
    simp only [List.filterMap_cons, h a (by simp), List.map_cons]
    rw [ih (fun x hx => h x (by simp [hx]))]

theorem specParity_eq : Lumina.Spec.C06.parityNs = maxNsId := rfl

/-- quadrant flags + share sizes: what `ExtendedDataSquare::new` establishes (as far as namespaces are concerned) -/
structure SquareShape (e : Eds) : Prop where
  flags : ∀ r c sh, r < e.width → c < e.width → e.share? r c = some sh → sh.isParity = !isOdsSquare r c e.width
  size : ∀ sh ∈ e.shares, NS_SIZE ≤ sh.data.length

/-- the spec's view of a row = the model's row -/
theorem rowShares_eq {e : Eds} (hsq : SquareShape e) {row : Nat} (hrow : row < e.width) {shares : List Share}
    (hax : e.axis? .row row = some shares) :
    rowShares e.width (rawSquare e) row = shares.map (fun sh => (sh.ns, sh.data)) := by
  obtain ⟨hlen, hg⟩ := axis?_some hax
  unfold rowShares
  apply List.ext_getElem?
  intro i
  by_cases hi : i < e.width
  · obtain ⟨sh, hsh, hshi⟩ := hg i hi
    simp only [axisCoord] at hsh
    have hflag := hsq.flags row i sh hrow hi hsh
    have hcongr : (List.range e.width).filterMap (fun c => ((rawSquare e)[row * e.width + c]?).map (fun d => (nsAt e.width row c d, d)))
        = (List.range e.width).map (fun c => match shares[c]? with
            | some s => (s.ns, s.data)
            | none => ([], [])) := by
      apply filterMap_eq_map_of
      intro c hc
      have hc' : c < e.width := List.mem_range.mp hc
      obtain ⟨s, hs1, hs2⟩ := hg c hc'
      simp only [axisCoord] at hs1
      have hf := hsq.flags row c s hrow hc' hs1
      unfold Eds.share? at hs1
      simp only [rawSquare, List.getElem?_map, hs1, Option.map_some, hs2, Option.some.injEq,
        Prod.mk.injEq, and_true]
      unfold nsAt Share.ns
      by_cases hq : row < e.width / 2 ∧ c < e.width / 2
      · have : s.isParity = false := by rw [hf]; simp [isOdsSquare, hq.1, hq.2]
        simp [hq, this, NS_SIZE]
      · have : s.isParity = true := by
          rw [hf]; simp only [isOdsSquare, Bool.not_eq_true', Bool.and_eq_false_iff, decide_eq_false_iff_not]
          by_cases h1 : row < e.width / 2
          · right; intro h2; exact hq ⟨h1, h2⟩
          · left; exact h1
        simp [hq, this, parityNs, Lumina.Spec.C06.parityNs, maxNsId, NS_SIZE]
    rw [hcongr]
    simp [List.getElem?_map, List.getElem?_range hi, hshi]
  · have h1 : ((List.range e.width).filterMap (fun c => ((rawSquare e)[row * e.width + c]?).map (fun d => (nsAt e.width row c d, d))))[i]? = none := by
      rw [List.getElem?_eq_none_iff]
      have := List.length_filterMap_le (fun c => ((rawSquare e)[row * e.width + c]?).map (fun d => (nsAt e.width row c d, d))) (List.range e.width)
      simp at this; omega
    rw [h1]
    symm
    rw [List.getElem?_eq_none_iff]; simp; omega

theorem filterMap_ite {α β} (p : α → Bool) (g : α → β) : ∀ (l : List α),
    l.filterMap (fun r => if p r then some (g r) else none) = (l.filter p).map g := by
  intro l
  induction l with
  | nil => rfl
  | cons a t ih =>
    by_cases h : p a = true
    · simp [List.filterMap_cons, h, ih]
    · have h' : p a = false := by simpa using h
      simp [List.filterMap_cons, h', ih]

/-- on a namespace-sorted row the scan of `get_namespace_data` is the filter -/
theorem scanRow_eq_filter (ns : Bytes) : ∀ (l : List Share), (l.map Share.ns).Pairwise (fun a b => leB a b = true) →
    scanRow ns l = l.filter (fun sh => sh.ns == ns) := by
  intro l
  induction l with
  | nil => intro _; rfl
  | cons s t ih =>
    intro hs
    simp only [List.map_cons, List.pairwise_cons] at hs
    obtain ⟨hst, hst'⟩ := hs
    unfold scanRow
    by_cases h1 : ltB s.ns ns = true
    · have hne : (s.ns == ns) = false := by
        apply Bool.eq_false_iff.mpr
        intro he
        have : s.ns = ns := by simpa using he
        rw [this, ltB_irrefl] at h1; cases h1
      simp only [h1, ↓reduceIte, List.filter_cons, hne, Bool.false_eq_true]
      exact ih hst'
    · simp only [h1, Bool.false_eq_true, ↓reduceIte]
      by_cases h2 : (s.ns == ns) = true
      · simp only [h2, ↓reduceIte, List.filter_cons]
        rw [ih hst']
      · simp only [h2, Bool.false_eq_true, ↓reduceIte, List.filter_cons]
        -- s.ns > ns, and everything after is ≥ s.ns
        symm
        rw [List.filter_eq_nil_iff]
        intro x hx he
        have hxe : x.ns = ns := by simpa using he
        have hle := hst x.ns (List.mem_map.mpr ⟨x, hx, rfl⟩)
        rw [hxe] at hle
        rcases ltB_trichotomy s.ns ns with h | h | h
        · exact h1 h
        · exact h2 (by simp [h])
        · unfold leB at hle; rw [h] at hle; cases hle

/-- what `get_namespace_data` returns (when it returns): for the rows whose root covers `ns`, in order, the shares of `ns` -/
theorem getNamespaceDataAux_data {H : HashFn} {e : Eds} {dah : Dah} {ns : Bytes} :
    ∀ (l : List Nat) (rows : List (Nat × RowNsData)), getNamespaceDataAux H e ns dah l = .ok rows →
      rows.map (fun p => (p.1, p.2.shares.map Share.data)) =
        (l.filter (fun r => (dah.rowContains? H r ns).getD false)).map (fun r => (r, rowNsData e ns r)) := by
  intro l
  induction l with
  | nil => intro rows h; simp [getNamespaceDataAux] at h; subst h; rfl
  | cons r t ih =>
    intro rows h
    unfold getNamespaceDataAux at h
    cases hc : dah.rowContains? H r ns with
    | none => simp [hc] at h
    | some b =>
      cases b with
      | false =>
        simp only [hc] at h
        simp only [List.filter_cons, hc, Option.getD_some, Bool.false_eq_true, ↓reduceIte]
        exact ih rows h
      | true =>
        simp only [hc] at h
        cases hax : e.axis? .row r with
        | none => simp [hax] at h
        | some shares =>
          simp only [hax] at h
          cases hp : pushLeaves H (shares.map Share.leaf) with
          | none => simp [hp] at h
          | some hs =>
            simp only [hp] at h
            cases hg : getNamespaceProof H true (shares.map Share.leaf) ns with
            | error er => simp [hg] at h
            | ok proof =>
              simp only [hg] at h
              cases hrest : getNamespaceDataAux H e ns dah t with
              | error er => simp [hrest] at h
              | ok more =>
                simp only [hrest, Except.ok.injEq] at h
                subst h
                simp only [List.map_cons, List.filter_cons, hc, Option.getD_some, ↓reduceIte, List.cons.injEq, Prod.mk.injEq,
                  true_and]
                refine ⟨?_, ih more hrest⟩
                unfold rowNsData
                rw [hax]
                have hsorted : (shares.map Share.ns).Pairwise (fun a b => leB a b = true) := by
                  unfold pushLeaves at hp
                  split at hp
                  · rename_i hok
                    have := (pushOrderOk_sorted _ _ hok).1
                    simpa [List.map_map, Share.leaf, Function.comp_def] using this
                  · cases hp
                rw [scanRow_eq_filter ns shares hsorted]


/-! ## Relative collision-freeness (audit repair)

The former hypothesis `HashOK` (injective with 32-byte output) was contradictory; the lemmas that took it are removed
(audit item X1).  The lemmas below assume collision-freeness on a set `S` of inputs that contains
the byte strings hashed for the square's trees (`edsInputs`) and by the verifier (`vcnInputs`). -/

/-- the inputs hashed by `NamespaceData::verify` over the given rows -/
def nsDataInputs (H : HashFn) (rows : List RowNsData) (ns : Bytes) : List Bytes :=
  rows.flatMap (fun d => vcnInputs H d.proof (d.shares.map Share.data) ns)

theorem contains_char_on {H : HashFn} {S : Bytes → Prop} (hi : NoCollOn H S) (hE : S []) {L : List NsHash}
    {root : NsHash} {ns : Bytes} (hne : L ≠ []) (al : AllLeafOn H S L) (hs : SortedNs L)
    (hroot : computeRoot H true L = .ok root) (hT : ∀ y ∈ rootInputs H true (L.length + 1) L, S y)
    (hns : ns.length = NS_SIZE) :
    root.contains H ns = true ↔
      (∃ x ∈ L, leB x.minNs ns = true) ∧
      ((∀ x ∈ L, x.minNs = maxNsId) ∨ ∃ x ∈ L, x.minNs ≠ maxNsId ∧ leB ns x.minNs = true) := by
  have R := computeRoot_range hne (AllLeaf.leafNs al.allLeaf) hs hroot
  have hnotempty : root.isEmptyRoot H = false := by
    unfold NsHash.isEmptyRoot
    have := computeRoot_ne_empty_on hi hE hne al hT hroot
    simpa using this
  unfold NsHash.contains
  simp only [hnotempty, Bool.not_false, Bool.and_true, Bool.and_eq_true]
  constructor
  · rintro ⟨h1, h2⟩
    refine ⟨?_, ?_⟩
    · obtain ⟨x, hx, hxe⟩ := R.minMem
      exact ⟨x, hx, by rw [← hxe]; exact h1⟩
    · by_cases hall : ∀ x ∈ L, x.minNs = maxNsId
      · exact Or.inl hall
      · right
        have hex : ∃ x ∈ L, x.minNs ≠ maxNsId := by
          apply Classical.byContradiction
          intro hno
          apply hall
          intro x hx
          apply Classical.byContradiction
          intro hne'
          exact hno ⟨x, hx, hne'⟩
        obtain ⟨y, hy, hyn, hyl⟩ := R.maxMemNon hex
        exact ⟨y, hy, hyn, leB_trans h2 hyl⟩
  · rintro ⟨⟨x, hx, hxl⟩, h2⟩
    refine ⟨leB_trans (R.minLe x hx) hxl, ?_⟩
    rcases h2 with hall | ⟨y, hy, hyn, hyl⟩
    · rw [R.maxAll hall]; exact leB_maxNsId NS_SIZE ns hns
    · exact leB_trans hyl (R.maxGe y hy hyn)

/-- equal leaf-hash lists for one namespace have equal data -/
theorem map_hashLeaf_data_on {H : HashFn} {S : Bytes → Prop} (hi : NoCollOn H S) {ns : Bytes} :
    ∀ {l : List Share} {ds : List Bytes},
    (∀ sh ∈ l, sh.ns = ns) → (∀ sh ∈ l, S (leafInput sh.ns sh.data)) → (∀ d ∈ ds, S (leafInput ns d)) →
    l.map (Share.leafHash H) = ds.map (hashLeaf H ns) → l.map Share.data = ds := by
  intro l
  induction l with
  | nil => intro ds _ _ _ h; cases ds with
    | nil => rfl
    | cons a t => simp at h
  | cons a t ih =>
    intro ds hn hl hds h
    cases ds with
    | nil => simp at h
    | cons d dt =>
      simp only [List.map_cons, List.cons.injEq] at h ⊢
      refine ⟨?_, ih (fun s hs => hn s (by simp [hs])) (fun s hs => hl s (by simp [hs]))
        (fun x hx => hds x (by simp [hx])) h.2⟩
      have h1 := h.1
      unfold Share.leafHash at h1
      have ha := hl a (by simp)
      rw [hn a (by simp)] at h1 ha
      exact (hashLeaf_inj_on hi rfl ha (hds d (by simp)) (congrArg NsHash.hash h1)).2

/-- `row_facts` with the memberships of the hashed inputs -/
theorem row_facts_on {H : HashFn} {e : Eds} {dah : Dah} (hd : Dah.ofEds H e = .ok dah)
    (hsz : ∀ sh ∈ e.shares, NS_SIZE ≤ sh.data.length) {row : Nat} (hrow : row < e.width)
    {S : Bytes → Prop} (hS : ∀ y ∈ edsInputs H e, S y) :
    ∃ shares root, e.axis? .row row = some shares ∧ dah.rowRoot? row = some root ∧ shares ≠ [] ∧
      computeRoot H true (shares.map (Share.leafHash H)) = .ok root ∧
      AllLeafOn H S (shares.map (Share.leafHash H)) ∧ SortedNs (shares.map (Share.leafHash H)) ∧
      (∀ sh ∈ shares, sh ∈ e.shares) ∧
      (∀ y ∈ rootInputs H true ((shares.map (Share.leafHash H)).length + 1) (shares.map (Share.leafHash H)), S y) ∧
      (∀ sh ∈ shares, S (leafInput sh.ns sh.data)) := by
  obtain ⟨shares, root, hax, hroot?, hne, hcr, _, hs, hmem⟩ := row_facts hd hsz hrow
  have hin : ∀ y ∈ axisInputs H e .row row, S y := fun y hy => hS y (axisInputs_mem_eds hrow hy)
  refine ⟨shares, root, hax, hroot?, hne, hcr, ?_, hs, hmem, ?_, ?_⟩
  · exact (axis_allLeafOn hax (fun sh hsh => hsz sh (hmem sh hsh))).mono hin
  · exact fun y hy => hin y (axis_rootInputs_mem hax hy)
  · intro sh hsh
    apply hin
    unfold axisInputs; rw [hax]
    exact List.mem_append_left _ (List.mem_map.mpr ⟨sh, hsh, rfl⟩)

/-- **soundness of `RowNamespaceData::verify`** for a row whose root range covers the namespace; the hash collision-free
    on `S` ⊇ the square's inputs and the inputs of this verification -/
theorem rowVerify_sound_on {H : HashFn} {S : Bytes → Prop} (hk : HashOKOn H S) {e : Eds} {dah : Dah}
    (hd : Dah.ofEds H e = .ok dah) (hsz : ∀ sh ∈ e.shares, NS_SIZE ≤ sh.data.length) {d : RowNsData} {ns : Bytes}
    {row : Nat} (hS : ∀ y ∈ edsInputs H e, S y)
    (hV : ∀ y ∈ vcnInputs H d.proof (d.shares.map Share.data) ns, S y)
    (hns : ns.length = NS_SIZE) (hp : ProofOK d.proof) (hcont : dah.rowContains? H row ns = some true)
    (h : rowVerify H d ns row dah = .ok ()) :
    ∃ shares, e.axis? .row row = some shares ∧
      d.shares.map Share.data = (shares.filter (fun sh => sh.ns == ns)).map Share.data := by
  have hrow : row < e.width := by
    obtain ⟨hrl, _, _, _⟩ := dah_ofEds_roots hd
    unfold Dah.rowContains? Dah.rowRoot? at hcont
    cases hg : dah.rowRoots[row]? with
    | none => simp [hg] at hcont
    | some r => have := (List.getElem?_eq_some_iff.mp hg).1; omega
  obtain ⟨shares, root, hax, hroot?, hne, hcr, al, hs, _, hT, hL⟩ := row_facts_on hd hsz hrow hS
  refine ⟨shares, hax, ?_⟩
  have hc : root.contains H ns = true := by
    unfold Dah.rowContains? at hcont
    rw [hroot?] at hcont
    simpa using hcont
  unfold rowVerify at h
  split at h
  · cases h
  · rename_i hw
    have hwpt : (d.shares.map Share.data).isEmpty = d.proof.isAbsence := by
      cases h1 : d.shares.isEmpty <;> cases h2 : d.proof.isAbsence <;> simp [h1, h2] at hw ⊢ <;>
        (cases hh : d.shares <;> simp [hh] at h1 ⊢)
    simp only [hroot?] at h
    cases hv : luminaVerifyCompleteNamespace H d.proof root (d.shares.map Share.data) ns with
    | error er => simp [hv] at h
    | ok u =>
      have hv' := luminaVCN_ok hv
      obtain ⟨w1, w2, w3, w4⟩ := hp
      have := vcn_sound_on hk (hS [] (nil_mem_edsInputs H e)) (by simpa using hne) al hs hcr hT hV w1 w2 w3 w4 hns
        hwpt hc hv'
      rw [List.filter_map] at this
      have hfil : ∀ sh ∈ shares.filter ((fun x => x.minNs == ns) ∘ Share.leafHash H), sh.ns = ns := by
        intro sh hsh
        have := (List.mem_filter.mp hsh).2
        simpa [Share.leafHash, hashLeaf] using this
      have hd := map_hashLeaf_data_on hk.inj hfil (fun sh hsh => hL sh (List.mem_filter.mp hsh).1)
        (fun x hx => hV _ (List.mem_append_left _ (List.mem_map.mpr ⟨x, hx, rfl⟩))) (by rw [this, List.map_map])
      rw [← hd]
      congr 1

theorem verifyRows_sound_on {H : HashFn} {S : Bytes → Prop} (hk : HashOKOn H S) {e : Eds} {dah : Dah}
    (hd : Dah.ofEds H e = .ok dah) (hsz : ∀ sh ∈ e.shares, NS_SIZE ≤ sh.data.length) {ns : Bytes}
    (hns : ns.length = NS_SIZE) (hS : ∀ y ∈ edsInputs H e, S y) :
    ∀ (rows : List RowNsData) (idxs : List Nat), rows.length = idxs.length →
      (∀ y ∈ nsDataInputs H rows ns, S y) →
      (∀ r ∈ idxs, dah.rowContains? H r ns = some true) → (∀ d ∈ rows, ProofOK d.proof) →
      verifyRows H ns dah rows idxs = .ok () →
      rows.map (fun d => d.shares.map Share.data) = idxs.map (rowNsData e ns) := by
  intro rows
  induction rows with
  | nil => intro idxs hl _ _ _ _; cases idxs with
    | nil => rfl
    | cons a t => simp at hl
  | cons d ds ih =>
    intro idxs hl hV hc hp h
    cases idxs with
    | nil => simp at hl
    | cons r rs =>
      unfold verifyRows at h
      cases hv : rowVerify H d ns r dah with
      | error er => simp [hv] at h
      | ok u =>
        simp only [hv] at h
        have hV1 : ∀ y ∈ vcnInputs H d.proof (d.shares.map Share.data) ns, S y := fun y hy =>
          hV y (by unfold nsDataInputs; rw [List.flatMap_cons]; exact List.mem_append_left _ hy)
        have hV2 : ∀ y ∈ nsDataInputs H ds ns, S y := fun y hy =>
          hV y (by unfold nsDataInputs; rw [List.flatMap_cons]; exact List.mem_append_right _ hy)
        obtain ⟨shares, hax, hdat⟩ := rowVerify_sound_on hk hd hsz hS hV1 hns (hp d (by simp)) (hc r (by simp)) hv
        simp only [List.map_cons, List.cons.injEq]
        refine ⟨?_, ih rs (by simpa using hl) hV2 (fun x hx => hc x (by simp [hx])) (fun x hx => hp x (by simp [hx])) h⟩
        unfold rowNsData; rw [hax]; exact hdat

/-- **model-level soundness of `NamespaceData::verify`** -/
theorem verify_sound_model_on {H : HashFn} {S : Bytes → Prop} (hk : HashOKOn H S) {e : Eds} {dah : Dah}
    (hd : Dah.ofEds H e = .ok dah) (hsz : ∀ sh ∈ e.shares, NS_SIZE ≤ sh.data.length) {ns : Bytes}
    (hns : ns.length = NS_SIZE) {rows : List RowNsData} (hS : ∀ y ∈ edsInputs H e, S y)
    (hV : ∀ y ∈ nsDataInputs H rows ns, S y) (hp : ∀ d ∈ rows, ProofOK d.proof)
    (h : verify H rows ns dah = .ok ()) :
    rows.map (fun d => d.shares.map Share.data) =
      ((List.range e.width).filter (fun r => (dah.rowContains? H r ns).getD false)).map (rowNsData e ns) := by
  obtain ⟨hrl, _, _, _⟩ := dah_ofEds_roots hd
  unfold verify at h
  split at h
  · cases h
  · split at h
    · cases h
    · simp only [hrl] at h
      by_cases hlen : (List.filter (fun r => (dah.rowContains? H r ns).getD false) (List.range e.width)).length = rows.length
      · simp only [hlen, ne_eq, not_true_eq_false, ↓reduceIte] at h
        refine verifyRows_sound_on hk hd hsz hns hS rows _ hlen.symm hV ?_ hp h
        intro r hr
        have := (List.mem_filter.mp hr).2
        cases hc : dah.rowContains? H r ns with
        | none => simp [hc] at this
        | some b => simp [hc] at this; rw [this]
      · simp [hlen] at h

theorem rowCovers_eq_on {H : HashFn} {S : Bytes → Prop} (hk : HashOKOn H S) {e : Eds} (hsq : SquareShape e)
    {dah : Dah} (hd : Dah.ofEds H e = .ok dah) (hS : ∀ y ∈ edsInputs H e, S y) {row : Nat} (hrow : row < e.width)
    {ns : Bytes} (hns : ns.length = NS_SIZE) :
    rowCovers e.width (rawSquare e) row ns = (dah.rowContains? H row ns).getD false := by
  obtain ⟨shares, root, hax, hroot?, hne, hcr, al, hs, _, hT, _⟩ := row_facts_on hd hsq.size hrow hS
  have hcc := contains_char_on hk.inj (hS [] (nil_mem_edsInputs H e)) (by simpa using hne) al hs hcr hT hns
  unfold Dah.rowContains?
  rw [hroot?]
  simp only [Option.map_some, Option.getD_some]
  rw [Bool.eq_iff_iff, hcc]
  unfold rowCovers
  rw [rowShares_eq hsq hrow hax]
  simp only [List.map_map, Bool.and_eq_true, Bool.or_eq_true, List.any_eq_true, List.all_eq_true, List.mem_map,
    Function.comp_apply, leBytes_eq, beq_iff_eq, bne_iff_ne, ne_eq, specParity_eq, Share.leafHash, hashLeaf,
    forall_exists_index, and_imp, forall_apply_eq_imp_iff₂]
  constructor
  · rintro ⟨⟨x, ⟨a, ha, rfl⟩, h1⟩, h2⟩
    refine ⟨⟨_, ⟨a, ha, rfl⟩, h1⟩, ?_⟩
    rcases h2 with h2 | ⟨x, ⟨b, hb, rfl⟩, h3, h4⟩
    · exact Or.inl h2
    · exact Or.inr ⟨_, ⟨b, hb, rfl⟩, h3, h4⟩
  · rintro ⟨⟨x, ⟨a, ha, rfl⟩, h1⟩, h2⟩
    refine ⟨⟨_, ⟨a, ha, rfl⟩, h1⟩, ?_⟩
    rcases h2 with h2 | ⟨x, ⟨b, hb, rfl⟩, h3, h4⟩
    · exact Or.inl h2
    · exact Or.inr ⟨_, ⟨b, hb, rfl⟩, h3, h4⟩

/-- the spec's expected answer, computed from the model's rows -/
theorem expected_eq'_on {H : HashFn} {S : Bytes → Prop} (hk : HashOKOn H S) {e : Eds} (hsq : SquareShape e)
    {dah : Dah} (hd : Dah.ofEds H e = .ok dah) (hS : ∀ y ∈ edsInputs H e, S y) {ns : Bytes}
    (hns : ns.length = NS_SIZE) :
    expected e.width (rawSquare e) ns =
      ((List.range e.width).filter (fun r => (dah.rowContains? H r ns).getD false)).map (fun r => (r, rowNsData e ns r)) := by
  unfold expected
  rw [filterMap_ite (fun r => rowCovers e.width (rawSquare e) r ns)
    (fun r => (r, ((rowShares e.width (rawSquare e) r).filter (fun p => p.1 == ns)).map Prod.snd))]
  have hf : (List.range e.width).filter (fun r => rowCovers e.width (rawSquare e) r ns) =
      (List.range e.width).filter (fun r => (dah.rowContains? H r ns).getD false) := by
    apply List.filter_congr
    intro r hr
    exact rowCovers_eq_on hk hsq hd hS (List.mem_range.mp hr) hns
  rw [hf]
  apply List.map_congr_left
  intro r hr
  have hr' : r < e.width := List.mem_range.mp (List.mem_filter.mp hr).1
  obtain ⟨shares, _, hax, _⟩ := row_facts hd hsq.size hr'
  unfold rowNsData
  rw [hax, rowShares_eq hsq hr' hax, List.filter_map, List.map_map]
  rfl

theorem expected_eq_on {H : HashFn} {S : Bytes → Prop} (hk : HashOKOn H S) {e : Eds} (hsq : SquareShape e)
    {dah : Dah} (hd : Dah.ofEds H e = .ok dah) (hS : ∀ y ∈ edsInputs H e, S y) {ns : Bytes}
    (hns : ns.length = NS_SIZE) :
    (expected e.width (rawSquare e) ns).map Prod.snd =
      ((List.range e.width).filter (fun r => (dah.rowContains? H r ns).getD false)).map (rowNsData e ns) := by
  rw [expected_eq'_on hk hsq hd hS hns, List.map_map]; rfl

end Lumina.Proofs.NsData

/-
  Lemmas for C09: `chunks`, what an accepted `from_ods` / `decode_and_verify` establishes, the bridge between
  the model's DAH (`Dah.ofEds`) and the spec's (`Spec.C09.commits`).

  Owner: group D2.
-/
import Lumina.Proofs.EdsExtend
import Lumina.Model.ShrexEds
import Lumina.Spec.C09

namespace Lumina.Proofs.ShrexEds
open Lumina.Util Lumina.Model.Nmt Lumina.Model.Eds Lumina.Model.EdsCode Lumina.Model.ShrexEds
open Lumina.Proofs.Nmt Lumina.Proofs.Eds Lumina.Proofs.EdsCode Lumina.Proofs.EdsExtend

/-! ## `chunks` -/

theorem chunksAux_flatten {n : Nat} (hn : 0 < n) : ∀ (fuel : Nat) (l : Bytes), l.length ≤ fuel →
    (chunksAux n fuel l).flatten = l
  | 0, l, h => by
    have : l = [] := List.eq_nil_of_length_eq_zero (by omega)
    subst this; rfl
  | fuel + 1, l, h => by
    simp only [chunksAux]
    split
    · rename_i he; simp at he; subst he; rfl
    · simp only [List.flatten_cons]
      rw [chunksAux_flatten hn fuel (l.drop n) (by rw [List.length_drop]; omega), List.take_append_drop]

theorem chunks_flatten {n : Nat} (hn : 0 < n) (l : Bytes) : (chunks n l).flatten = l :=
  chunksAux_flatten hn l.length l (Nat.le_refl _)

theorem chunksAux_len {n : Nat} (hn : 0 < n) : ∀ (fuel : Nat) (l : Bytes), l.length % n = 0 →
    ∀ c ∈ chunksAux n fuel l, c.length = n
  | 0, _, _, c, hc => by simp [chunksAux] at hc
  | fuel + 1, l, hm, c, hc => by
    simp only [chunksAux] at hc
    split at hc
    · simp at hc
    · rename_i hne
      have hpos : 0 < l.length := by
        cases l with
        | nil => simp at hne
        | cons a t => simp
      have hge : n ≤ l.length := by
        have := Nat.div_add_mod l.length n
        rw [hm] at this
        have hq : 0 < l.length / n := by
          cases hq : l.length / n with
          | zero => rw [hq] at this; omega
          | succ q => omega
        calc n = n * 1 := (Nat.mul_one n).symm
          _ ≤ n * (l.length / n) := Nat.mul_le_mul_left n hq
          _ ≤ l.length := by omega
      rcases List.mem_cons.mp hc with rfl | hc
      · rw [List.length_take]; omega
      · apply chunksAux_len hn fuel (l.drop n) _ c hc
        rw [List.length_drop]
        have : (l.length - n) % n = l.length % n := by
          conv => rhs; rw [← Nat.sub_add_cancel hge]
          rw [Nat.add_mod_right]
        rw [this, hm]

theorem chunks_len {n : Nat} (hn : 0 < n) (l : Bytes) (hm : l.length % n = 0) : ∀ c ∈ chunks n l, c.length = n :=
  chunksAux_len hn l.length l hm

theorem chunksAux_of_flatten {n : Nat} (hn : 0 < n) : ∀ (L : List Bytes) (fuel : Nat), (∀ c ∈ L, c.length = n) →
    L.flatten.length ≤ fuel → chunksAux n fuel L.flatten = L
  | [], 0, _, _ => rfl
  | [], fuel + 1, _, _ => by simp [chunksAux]
  | c :: t, 0, h, hf => by
    have := h c (by simp)
    rw [List.flatten_cons, List.length_append] at hf; omega
  | c :: t, fuel + 1, h, hf => by
    have hc := h c (by simp)
    simp only [chunksAux, List.flatten_cons]
    have hne : (c ++ t.flatten).isEmpty = false := by
      cases c with
      | nil => simp at hc; omega
      | cons a b => rfl
    simp only [hne, Bool.false_eq_true, ↓reduceIte]
    have h1 : (c ++ t.flatten).take n = c := by rw [← hc]; simp
    have h2 : (c ++ t.flatten).drop n = t.flatten := by rw [← hc]; simp
    rw [h1, h2, chunksAux_of_flatten hn t fuel (fun x hx => h x (by simp [hx]))
      (by rw [List.flatten_cons, List.length_append] at hf; omega)]

theorem chunks_of_flatten {n : Nat} (hn : 0 < n) (L : List Bytes) (h : ∀ c ∈ L, c.length = n) :
    chunks n L.flatten = L :=
  chunksAux_of_flatten hn L _ h (Nat.le_refl _)

theorem flatten_length_const {n : Nat} : ∀ {L : List Bytes}, (∀ s ∈ L, s.length = n) → L.flatten.length = n * L.length
  | [], _ => rfl
  | a :: t, h => by
    rw [List.flatten_cons, List.length_append, flatten_length_const (fun s hs => h s (by simp [hs])), h a (by simp),
      List.length_cons, Nat.mul_succ]
    omega

/-! ## what an accepted `from_ods` establishes -/

theorem fromOds_ok {enc : List Bytes → List Bytes} {ver : Nat} {ods : List Bytes} {e : Eds}
    (h : fromOds enc ver ods = .ok e) :
    isqrt ods.length * isqrt ods.length = ods.length ∧ fromOdsLeopardErr enc (isqrt ods.length) ods = false ∧
      NewOK ver (extendRaw enc (isqrt ods.length) ods) e := by
  unfold fromOds at h
  simp only at h
  split at h
  · cases h
  · rename_i hsq
    split at h
    · cases h
    · rename_i hle
      exact ⟨by simpa using hsq, by simpa using hle, edsNew_ok h⟩

/-- the data of the shares of an accepted square is the input square -/
theorem NewOK.data {ver : Nat} {shares : List Bytes} {e : Eds} (h : NewOK ver shares e) :
    e.shares.map Share.data = shares := by
  rw [h.grid]
  have : (((List.range e.width).map (lineCells e.width shares .row)).flatten).map Share.data =
      ((List.range e.width).map (fun r => (List.range e.width).map (fun c => shares.getD (r * e.width + c) []))).flatten := by
    rw [List.map_flatten, List.map_map]
    congr 1
    apply List.map_congr_left
    intro r _
    simp [lineCells, cell, axisCoord, List.map_map, Function.comp_def]
  rw [this]
  exact square_eq_grid h.sq.symm

theorem width_eq {ver : Nat} {shares : List Bytes} {e : Eds} (h : NewOK ver shares e) {k : Nat}
    (hl : shares.length = 2 * k * (2 * k)) : e.width = 2 * k :=
  Nat.mul_self_inj.mp (by rw [h.sq, hl])

/-! ## the bridge between `Dah.ofEds` and the spec's `commits` -/

theorem cell_leafHash (H : HashFn) (w : Nat) (shares : List Bytes) (r c : Nat) :
    (cell w shares r c).leafHash H =
      hashLeaf H (Lumina.Spec.C09.leafNs w r c (shares.getD (r * w + c) [])) (shares.getD (r * w + c) []) := by
  simp only [Share.leafHash, cell, Share.ns, Lumina.Spec.C09.leafNs, isOdsSquare, parityNs, maxNsId, NS_SIZE]
  by_cases h1 : r < w / 2 <;> by_cases h2 : c < w / 2 <;> simp [h1, h2]

theorem spec_rowRoot {ver : Nat} {shares : List Bytes} {e : Eds} (h : NewOK ver shares e) (H : HashFn)
    {i : Nat} (hi : i < e.width) {r : NsHash} (hr : e.axisRoot H .row i = .ok r) :
    Lumina.Spec.C09.rowRoot H e.width shares i = some r := by
  obtain ⟨r', hr1, hr2⟩ := h.axisRoot H .row hi
  rw [hr] at hr1
  injection hr1 with hr1
  subst hr1
  unfold Lumina.Spec.C09.rowRoot
  have : (List.range e.width).map (fun c => hashLeaf H (Lumina.Spec.C09.leafNs e.width i c
      (shares.getD (i * e.width + c) [])) (shares.getD (i * e.width + c) [])) =
      (lineCells e.width shares .row i).map (Share.leafHash H) := by
    simp only [lineCells, List.map_map, Function.comp_def, axisCoord, cell_leafHash]
  rw [this, hr2]

theorem spec_colRoot {ver : Nat} {shares : List Bytes} {e : Eds} (h : NewOK ver shares e) (H : HashFn)
    {i : Nat} (hi : i < e.width) {r : NsHash} (hr : e.axisRoot H .col i = .ok r) :
    Lumina.Spec.C09.colRoot H e.width shares i = some r := by
  obtain ⟨r', hr1, hr2⟩ := h.axisRoot H .col hi
  rw [hr] at hr1
  injection hr1 with hr1
  subst hr1
  unfold Lumina.Spec.C09.colRoot
  have : (List.range e.width).map (fun r => hashLeaf H (Lumina.Spec.C09.leafNs e.width r i
      (shares.getD (r * e.width + i) [])) (shares.getD (r * e.width + i) [])) =
      (lineCells e.width shares .col i).map (Share.leafHash H) := by
    simp only [lineCells, List.map_map, Function.comp_def, axisCoord, cell_leafHash]
  rw [this, hr2]

/-- the DAH the model computes for an accepted square is a commitment of that square in the spec's sense -/
theorem commits_of_dah {ver : Nat} {shares : List Bytes} {e : Eds} (h : NewOK ver shares e) (H : HashFn) {dah : Dah}
    (hd : Dah.ofEds H e = .ok dah) :
    Lumina.Spec.C09.commits H e.width shares dah.rowRoots dah.colRoots = true := by
  obtain ⟨hrl, hcl, hrows, hcols⟩ := dah_ofEds_roots hd
  unfold Lumina.Spec.C09.commits
  simp only [Bool.and_eq_true, beq_iff_eq, List.all_eq_true, List.mem_range]
  refine ⟨⟨⟨h.sq.symm, hrl⟩, hcl⟩, ?_⟩
  intro i hi
  obtain ⟨r, hr1, hr2⟩ := hrows i hi
  obtain ⟨c, hc1, hc2⟩ := hcols i hi
  exact ⟨by rw [spec_rowRoot h H hi hr1, hr2], by rw [spec_colRoot h H hi hc1, hc2]⟩

/-- first quadrant of the extension is the original square -/
theorem quadrant0_extGrid (enc : List Bytes → List Bytes) {k : Nat} {ods : List Bytes} (hl : ods.length = k * k) :
    Lumina.Spec.C09.quadrant0 (2 * k) (extGrid enc k ods) = ods := by
  unfold Lumina.Spec.C09.quadrant0
  have hk : 2 * k / 2 = k := by omega
  rw [hk, List.flatMap_def]
  have : (List.range k).map (fun r => (List.range k).map (fun c => (extGrid enc k ods).getD (r * (2 * k) + c) [])) =
      (List.range k).map (fun r => (List.range k).map (fun c => ods.getD (r * k + c) [])) := by
    apply List.map_congr_left
    intro r hr
    apply List.map_congr_left
    intro c hc
    have hr' := List.mem_range.mp hr
    have hc' := List.mem_range.mp hc
    rw [extGrid_getD enc k ods (by omega) (by omega)]
    simp [extCell, hr', hc']
  rw [this]
  exact square_eq_grid hl

/-! ## what an accepted decode establishes -/

/-- the pieces of an accepted `decode_and_verify` -/
structure DecodeOK (H : HashFn) (enc : List Bytes → List Bytes) (raw : Bytes) (dah : Dah) (ver : Nat) (e : Eds) : Prop where
  nonempty : raw ≠ []
  whole : raw.length % SHARE_SIZE = 0
  sq : isqrt (chunks SHARE_SIZE raw).length * isqrt (chunks SHARE_SIZE raw).length = (chunks SHARE_SIZE raw).length
  newOK : NewOK ver (extendRaw enc (isqrt (chunks SHARE_SIZE raw).length) (chunks SHARE_SIZE raw)) e
  dah : Dah.ofEds H e = .ok dah

theorem decode_ok {H : HashFn} {enc : List Bytes → List Bytes} {raw : Bytes} {dah : Dah} {ver : Nat} {e : Eds}
    (h : decodeAndVerify H enc raw dah ver = .ok e) : DecodeOK H enc raw dah ver e := by
  unfold decodeAndVerify at h
  split at h
  · cases h
  · rename_i hne
    split at h
    · cases h
    · rename_i hm
      cases hf : fromOds enc ver (chunks SHARE_SIZE raw) with
      | error er => simp [hf] at h
      | ok eds =>
        simp only [hf] at h
        cases hd : Dah.ofEds H eds with
        | error er => simp [hd] at h
        | ok computed =>
          simp only [hd] at h
          split at h
          · cases h
          · rename_i heq
            injection h with h
            subst h
            obtain ⟨h1, _, h3⟩ := fromOds_ok hf
            have : computed = dah := by simpa using heq
            subst this
            exact ⟨by intro h0; subst h0; simp at hne, by simpa using hm, h1, h3, hd⟩

/-- under the codec shape hypothesis the accepted square has width `2k` and is the grid extension of the payload -/
theorem DecodeOK.shape {H : HashFn} {enc : List Bytes → List Bytes} {raw : Bytes} {dah : Dah} {ver : Nat} {e : Eds}
    (h : DecodeOK H enc raw dah ver e) (hs : ∀ k, EncShape enc k) :
    extendRaw enc (isqrt (chunks SHARE_SIZE raw).length) (chunks SHARE_SIZE raw) =
      extGrid enc (isqrt (chunks SHARE_SIZE raw).length) (chunks SHARE_SIZE raw) ∧
    e.width = 2 * isqrt (chunks SHARE_SIZE raw).length := by
  have hg := extendRaw_grid (hs _) h.sq.symm
  refine ⟨hg, ?_⟩
  apply width_eq h.newOK
  rw [hg, extGrid_length]

/-! ## the DAH binds the square -/

theorem allLeaf_lineCells {ver : Nat} {shares : List Bytes} {e : Eds} (h : NewOK ver shares e) (H : HashFn) (ax : Axis)
    {i : Nat} (hi : i < e.width) : AllLeaf H ((lineCells e.width shares ax i).map (Share.leafHash H)) := by
  intro x hx
  obtain ⟨sh, hsh, rfl⟩ := List.mem_map.mp hx
  exact ⟨sh.ns, sh.data, ns_length (h.cells i hi ax sh hsh).size, rfl⟩

/-- **Two accepted squares with the same row roots are the same square** — no collision among the byte strings hashed
    by `Dah.ofEds` for the two squares -/
theorem dah_binds {H : HashFn} {ver ver' : Nat} {X X' : List Bytes} {e e' : Eds}
    (h : NewOK ver X e) (h' : NewOK ver' X' e') {dah : Dah} (hd : Dah.ofEds H e = .ok dah)
    (hd' : Dah.ofEds H e' = .ok dah) (hk : HashOKOn H (fun y => y ∈ edsInputs H e ++ edsInputs H e')) : X = X' ∧ e = e' := by
  obtain ⟨hrl, _, hrows, _⟩ := dah_ofEds_roots hd
  obtain ⟨hrl', _, hrows', _⟩ := dah_ofEds_roots hd'
  have hw : e'.width = e.width := by omega
  have hcellEq : ∀ i, i < e.width → ∀ c, c < e.width →
      X.getD (i * e.width + c) [] = X'.getD (i * e.width + c) [] := by
    intro i hi c hc
    have hi' : i < e'.width := by omega
    obtain ⟨r, hr1, hr2⟩ := hrows i hi
    obtain ⟨r', hr1', hr2'⟩ := hrows' i hi'
    have hrr : r = r' := by rw [hr2] at hr2'; injection hr2'
    subst hrr
    obtain ⟨q, hq1, hq2⟩ := h.axisRoot H .row hi
    obtain ⟨q', hq1', hq2'⟩ := h'.axisRoot H .row hi'
    rw [hr1] at hq1; injection hq1 with hq1; subst hq1
    rw [hr1'] at hq1'; injection hq1' with hq1'; subst hq1'
    have hax := h.axis .row hi
    have hax' := h'.axis .row hi'
    have hcs : ∀ sh ∈ lineCells e.width X .row i, NS_SIZE ≤ sh.data.length := by
      intro sh hs; rw [(h.cells i hi .row sh hs).size]; decide
    have hcs' : ∀ sh ∈ lineCells e'.width X' .row i, NS_SIZE ≤ sh.data.length := by
      intro sh hs; rw [(h'.cells i hi' .row sh hs).size]; decide
    have al := (axis_allLeafOn (H := H) hax hcs).mono
      (fun y hy => (List.mem_append_left (edsInputs H e') (axisInputs_mem_eds hi hy) : y ∈ edsInputs H e ++ edsInputs H e'))
    have al' := (axis_allLeafOn (H := H) hax' hcs').mono
      (fun y hy => (List.mem_append_right (edsInputs H e) (axisInputs_mem_eds hi' hy) : y ∈ edsInputs H e ++ edsInputs H e'))
    have hl := computeRoot_hash_inj_on hk (List.mem_append_left _ (nil_mem_edsInputs H e)) al al'
      (fun y hy => List.mem_append_left _ (axisInputs_mem_eds hi (axis_rootInputs_mem hax hy)))
      (fun y hy => List.mem_append_right _ (axisInputs_mem_eds hi' (axis_rootInputs_mem hax' hy)))
      hq2 hq2' rfl
    rw [hw] at hl
    simp only [lineCells, List.map_map] at hl
    have := (List.map_inj_left.mp hl) c (List.mem_range.mpr hc)
    simp only [Function.comp_apply, axisCoord, Share.leafHash] at this
    have m1 : cell e.width X i c ∈ lineCells e.width X .row i :=
      List.mem_map.mpr ⟨c, List.mem_range.mpr hc, rfl⟩
    have m2 : cell e.width X' i c ∈ lineCells e'.width X' .row i := by
      rw [hw]; exact List.mem_map.mpr ⟨c, List.mem_range.mpr hc, rfl⟩
    have hn : (cell e.width X i c).ns.length = (cell e.width X' i c).ns.length := by
      rw [ns_length (h.cells i hi .row _ m1).size, ns_length (h'.cells i hi' .row _ m2).size]
    have hS1 : leafInput (cell e.width X i c).ns (cell e.width X i c).data ∈ edsInputs H e ++ edsInputs H e' := by
      apply List.mem_append_left
      apply axisInputs_mem_eds hi (ax := .row)
      unfold axisInputs; rw [hax]
      exact List.mem_append_left _ (List.mem_map.mpr ⟨_, m1, rfl⟩)
    have hS2 : leafInput (cell e.width X' i c).ns (cell e.width X' i c).data ∈ edsInputs H e ++ edsInputs H e' := by
      apply List.mem_append_right
      apply axisInputs_mem_eds hi' (ax := .row)
      unfold axisInputs; rw [hax']
      exact List.mem_append_left _ (List.mem_map.mpr ⟨_, m2, rfl⟩)
    exact (hashLeaf_inj_on hk.inj hn hS1 hS2 (congrArg NsHash.hash this)).2
  have hX : X = X' := by
    rw [← square_eq_grid h.sq.symm, ← square_eq_grid (k := e.width) (ods := X') (by rw [← hw]; exact h'.sq.symm)]
    congr 1
    apply List.map_congr_left
    intro r hr
    apply List.map_congr_left
    intro c hc
    exact hcellEq r (List.mem_range.mp hr) c (List.mem_range.mp hc)
  refine ⟨hX, ?_⟩
  rw [h.eq_ofRaw, h'.eq_ofRaw, hw, hX]

end Lumina.Proofs.ShrexEds

/-
  Lemmas about the pruner model (`Lumina/Model/Pruner.lean`), part 1: the window-edge search
  (C36).  Core Lean only.
-/
import Lumina.Model.Pruner
import Lumina.Proofs.RangesTrunc
import Lumina.Spec.C36

namespace Lumina.Proofs.Pruner
open Lumina.Model.Ranges hiding Inv
open Lumina.Model.Pruner
open Lumina.Proofs.Ranges

local notation "RInv" => Lumina.Model.Ranges.Inv

/-! ### vocabulary -/

/-- times of stored headers increase with height -/
def Mono (stored : Ranges) (T : Nat → Nat) : Prop :=
  ∀ a b, mem stored a → mem stored b → a < b → T a < T b

/-- the header store holds (at least) the heights of `stored`, with times `T` -/
def StoreOK (store : Nat → Option Nat) (stored : Ranges) (T : Nat → Nat) : Prop :=
  ∀ h, mem stored h → store h = some (T h)

/-- admissible previous answer: none, or `p ≥ 1` with nothing stored at or below `p` newer than the cutoff -/
def Adm (stored : Ranges) (T : Nat → Nat) (cutoff : Nat) : Option Nat → Prop
  | none => True
  | some p => 1 ≤ p ∧ ∀ h, mem stored h → h ≤ p → T h ≤ cutoff

/-- `h` is a right answer -/
def RightEdge (stored : Ranges) (T : Nat → Nat) (cutoff h : Nat) : Prop :=
  mem stored h ∧ T h ≤ cutoff ∧ ∀ h', mem stored h' → h < h' → ¬ T h' < cutoff

def NothingOlder (stored : Ranges) (T : Nat → Nat) (cutoff : Nat) : Prop :=
  ∀ h, mem stored h → ¬ T h < cutoff

def AnswerOK (stored : Ranges) (T : Nat → Nat) (cutoff : Nat) : Option Nat → Prop
  | some h => RightEdge stored T cutoff h
  | none => NothingOlder stored T cutoff

/-- the exact answer of the binary search: the greatest stored height strictly older than the cutoff -/
def SlowAnswer (stored : Ranges) (T : Nat → Nat) (cutoff : Nat) : Option Nat → Prop
  | some h => mem stored h ∧ T h < cutoff ∧ ∀ h', mem stored h' → h < h' → ¬ T h' < cutoff
  | none => NothingOlder stored T cutoff

theorem SlowAnswer.answerOK {stored T cutoff} {o : Option Nat} (h : SlowAnswer stored T cutoff o) :
    AnswerOK stored T cutoff o := by
  cases o with
  | none => exact h
  | some x => exact ⟨h.1, Nat.le_of_lt h.2.1, h.2.2⟩

theorem Mono.le {stored T} (hm : Mono stored T) {a b : Nat} (ha : mem stored a) (hb : mem stored b)
    (hab : a ≤ b) : T a ≤ T b := by
  rcases Nat.eq_or_lt_of_le hab with h | h
  · subst h; exact Nat.le_refl _
  · exact Nat.le_of_lt (hm a b ha hb h)

theorem liftR_ok {α} (a : α) : liftR (.ok a : Res α) = .ok a := rfl

theorem getBlockTime_ok {store stored T} (hs : StoreOK store stored T) {h : Nat} (hm : mem stored h) :
    getBlockTime store h = .ok (T h) := by
  simp [getBlockTime, hs h hm]

/-! ### what the search needs from `partitions` -/

/-- `partitions` on a well-formed value: nothing for the empty value, otherwise a split
    `left < middle < right` of the set into well-formed parts. -/
def PartitionsOK : Prop := ∀ {rs : Ranges}, RInv rs →
  (rs = [] ∧ partitions rs = .ok none) ∨
  ∃ l m r, partitions rs = .ok (some (l, m, r)) ∧ RInv l ∧ RInv r ∧
    (∀ h, mem rs h ↔ mem l h ∨ h = m ∨ mem r h) ∧ (∀ h, mem l h → h < m) ∧ (∀ h, mem r h → m < h)

/-- `partitions_spec` (`Proofs/RangesTrunc.lean`, stated on the sorted height lists) in the
    membership form used here -/
theorem partitionsOK : PartitionsOK := by
  intro rs hi
  rcases partitions_spec hi with h | ⟨_, l, m, r, hp, hl, hr, hh, _, _⟩
  · exact Or.inl h
  · refine Or.inr ⟨l, m, r, hp, hl, hr, ?_, ?_, ?_⟩
    · intro h
      rw [← mem_heights rs h, ← hh, ← mem_heights l h, ← mem_heights r h]
      simp
    · intro h hm
      have hs := heights_sorted hi
      rw [← hh, List.pairwise_append] at hs
      exact hs.2.2 h ((mem_heights l h).2 hm) m (by simp)
    · intro h hm
      have hs := heights_sorted hi
      rw [← hh, List.pairwise_append] at hs
      have := List.rel_of_pairwise_cons hs.2.1 ((mem_heights r h).2 hm)
      exact this

/-! ### the measure -/

theorem span_pos {rs : Ranges} (hi : RInv rs) {m : Nat} (hm : mem rs m) : 1 ≤ span rs := by
  unfold span
  cases hh : head rs with
  | none => rw [head_eq_none_iff.1 hh] at hm; exact absurd hm (mem_nil m)
  | some hd =>
    cases ht : tail rs with
    | none => rw [tail_eq_none_iff.1 ht] at hm; exact absurd hm (mem_nil m)
    | some tl =>
      have h1 := (head_spec hi hh).2 m hm
      have h2 := (tail_spec hi ht).2 m hm
      simp only
      omega

/-- a well-formed subset that misses a member `m` and lies entirely on one side of it has a smaller span -/
theorem span_lt {rs l : Ranges} (hi : RInv rs) (hl : RInv l) {m : Nat} (hm : mem rs m)
    (hsub : ∀ h, mem l h → mem rs h) (hside : (∀ h, mem l h → h < m) ∨ (∀ h, mem l h → m < h)) :
    span l < span rs := by
  have hpos := span_pos hi hm
  unfold span at hpos ⊢
  cases hlh : head l with
  | none => simp only; exact hpos
  | some x =>
    cases hlt : tail l with
    | none =>
      rw [tail_eq_none_iff.1 hlt] at hlh
      simp [head] at hlh
    | some y =>
      cases hh : head rs with
      | none => rw [head_eq_none_iff.1 hh] at hm; exact absurd hm (mem_nil m)
      | some hd =>
        cases ht : tail rs with
        | none => rw [tail_eq_none_iff.1 ht] at hm; exact absurd hm (mem_nil m)
        | some tl =>
          have hx := head_spec hl hlh
          have hy := tail_spec hl hlt
          have h1 := (head_spec hi hh).2
          have h2 := (tail_spec hi ht).2
          have hxy := hy.2 x hx.1
          have hxr := h1 x (hsub x hx.1)
          have hyr := h2 y (hsub y hy.1)
          have hm1 := h1 m hm
          have hm2 := h2 m hm
          simp only
          rcases hside with hs | hs
          · have := hs x hx.1; omega
          · have := hs y hy.1; omega

/-! ### the binary search -/

/-- loop invariant of `find_height_after_window_slow` (`S` = the full stored set) -/
structure SlowInv (S : Ranges) (T : Nat → Nat) (cutoff : Nat) (ranges : Ranges)
    (highest : Option BlockInfo) : Prop where
  inv : RInv ranges
  sub : ∀ h, mem ranges h → mem S h
  hi_ok : ∀ b, highest = some b → mem S b.1 ∧ b.2 = T b.1 ∧ T b.1 < cutoff
  above : ∀ b, highest = some b → ∀ h, mem ranges h → b.1 < h
  cand : ∀ h, mem S h → T h < cutoff → mem ranges h ∨ ∃ b, highest = some b ∧ h ≤ b.1

/-- at loop exit (`ranges` empty) the invariant gives the answer -/
theorem slow_exit {S : Ranges} {T : Nat → Nat} {cutoff : Nat} {highest : Option BlockInfo}
    (hinv : SlowInv S T cutoff [] highest) : SlowAnswer S T cutoff (highest.map (fun b => b.1)) := by
  cases hh : highest with
  | none =>
    intro h hS hlt
    rcases hinv.cand h hS hlt with hc | ⟨b, hb, _⟩
    · exact absurd hc (mem_nil h)
    · rw [hh] at hb; cases hb
  | some b =>
    obtain ⟨h1, _, h3⟩ := hinv.hi_ok b hh
    show SlowAnswer S T cutoff (some b.1)
    refine ⟨h1, h3, ?_⟩
    intro h' hS' hlt' hc
    rcases hinv.cand h' hS' hc with hc' | ⟨b', hb', hle⟩
    · exact absurd hc' (mem_nil h')
    · rw [hh] at hb'; cases hb'; omega

theorem findSlowGo_correct (hp : PartitionsOK) {store : Nat → Option Nat} {S : Ranges} {T : Nat → Nat}
    {cutoff : Nat} (hs : StoreOK store S T) (hm : Mono S T) :
    ∀ (n : Nat) (ranges : Ranges) (highest : Option BlockInfo), span ranges ≤ n →
      SlowInv S T cutoff ranges highest →
      ∃ o, findSlowGo store cutoff ranges highest = .ok o ∧ SlowAnswer S T cutoff o := by
  intro n
  induction n with
  | zero =>
    intro ranges highest hn hinv
    rcases hp hinv.inv with ⟨rfl, hpart⟩ | ⟨l, m, r, hpart, _, _, hmem, _, _⟩
    · rw [findSlowGo, hpart]
      exact ⟨highest.map (fun b => b.1), rfl, slow_exit hinv⟩
    · have := span_pos hinv.inv ((hmem m).2 (Or.inr (Or.inl rfl)))
      omega
  | succ n ih =>
    intro ranges highest hn hinv
    rcases hp hinv.inv with ⟨rfl, hpart⟩ | ⟨l, m, r, hpart, hil, hir, hmem, hlm, hrm⟩
    · rw [findSlowGo, hpart]
      exact ⟨highest.map (fun b => b.1), rfl, slow_exit hinv⟩
    · have hmm : mem ranges m := (hmem m).2 (Or.inr (Or.inl rfl))
      have hmS : mem S m := hinv.sub m hmm
      have hsl : span l < span ranges :=
        span_lt hinv.inv hil hmm (fun h hh => (hmem h).2 (Or.inl hh)) (Or.inl hlm)
      have hsr : span r < span ranges :=
        span_lt hinv.inv hir hmm (fun h hh => (hmem h).2 (Or.inr (Or.inr hh))) (Or.inr hrm)
      rw [findSlowGo, hpart]
      simp only [hsl, hsr, and_self, ↓reduceDIte, getBlockTime_ok hs hmS]
      by_cases hlt : T m < cutoff
      · simp only [hlt, ↓reduceIte]
        have hupd : updHighest highest (m, T m) = some (m, T m) := by
          cases hh : highest with
          | none => rfl
          | some b =>
            obtain ⟨h1, h2, _⟩ := hinv.hi_ok b hh
            have := hm b.1 m h1 hmS (hinv.above b hh m hmm)
            simp [updHighest, h2, this]
        rw [hupd]
        apply ih r (some (m, T m)) (by omega)
        refine ⟨hir, fun h hh => hinv.sub h ((hmem h).2 (Or.inr (Or.inr hh))), ?_, ?_, ?_⟩
        · intro b hb; cases hb; exact ⟨hmS, rfl, hlt⟩
        · intro b hb h hh; cases hb; exact hrm h hh
        · intro h hS hltc
          rcases hinv.cand h hS hltc with hc | ⟨b, hb, hle⟩
          · rcases (hmem h).1 hc with h1 | h1 | h1
            · exact Or.inr ⟨(m, T m), rfl, Nat.le_of_lt (hlm h h1)⟩
            · exact Or.inr ⟨(m, T m), rfl, by subst h1; exact Nat.le_refl _⟩
            · exact Or.inl h1
          · have := hinv.above b hb m hmm
            exact Or.inr ⟨(m, T m), rfl, by simp only; omega⟩
      · simp only [hlt, ↓reduceIte]
        apply ih l highest (by omega)
        refine ⟨hil, fun h hh => hinv.sub h ((hmem h).2 (Or.inl hh)), hinv.hi_ok, ?_, ?_⟩
        · intro b hb h hh; exact hinv.above b hb h ((hmem h).2 (Or.inl hh))
        · intro h hS hltc
          rcases hinv.cand h hS hltc with hc | hc
          · rcases (hmem h).1 hc with h1 | h1 | h1
            · exact Or.inl h1
            · subst h1; exact absurd hltc hlt
            · have := hm.le hmS hS (Nat.le_of_lt (hrm h h1))
              omega
          · exact Or.inr hc

/-- `find_height_after_window_slow`: terminates (never `diverge`), never fails, and returns the
    greatest stored height whose time is strictly older than the cutoff -/
theorem findSlow_correct (hp : PartitionsOK) {store : Nat → Option Nat} {stored : Ranges} {T : Nat → Nat}
    (cutoff : Nat) (hi : RInv stored) (hs : StoreOK store stored T) (hm : Mono stored T) :
    ∃ o, findSlow store stored cutoff = .ok o ∧ SlowAnswer stored T cutoff o := by
  apply findSlowGo_correct hp hs hm (span stored) stored none (Nat.le_refl _)
  exact ⟨hi, fun _ h => h, fun b hb => (by cases hb), fun b hb => (by cases hb), fun h hS _ => Or.inl hS⟩

/-- termination and totality of the binary search alone: no assumption on the times -/
theorem findSlowGo_total {store : Nat → Option Nat} {S : Ranges} {T : Nat → Nat} {cutoff : Nat}
    (hs : StoreOK store S T) :
    ∀ (n : Nat) (ranges : Ranges) (highest : Option BlockInfo), span ranges ≤ n → RInv ranges →
      (∀ h, mem ranges h → mem S h) → ∃ o, findSlowGo store cutoff ranges highest = .ok o := by
  intro n
  induction n with
  | zero =>
    intro ranges highest hn hinv hsub
    rcases partitionsOK hinv with ⟨rfl, hpart⟩ | ⟨l, m, r, hpart, _, _, hmem, _, _⟩
    · rw [findSlowGo, hpart]; exact ⟨_, rfl⟩
    · have := span_pos hinv ((hmem m).2 (Or.inr (Or.inl rfl)))
      omega
  | succ n ih =>
    intro ranges highest hn hinv hsub
    rcases partitionsOK hinv with ⟨rfl, hpart⟩ | ⟨l, m, r, hpart, hil, hir, hmem, hlm, hrm⟩
    · rw [findSlowGo, hpart]; exact ⟨_, rfl⟩
    · have hmm : mem ranges m := (hmem m).2 (Or.inr (Or.inl rfl))
      have hsl : span l < span ranges :=
        span_lt hinv hil hmm (fun h hh => (hmem h).2 (Or.inl hh)) (Or.inl hlm)
      have hsr : span r < span ranges :=
        span_lt hinv hir hmm (fun h hh => (hmem h).2 (Or.inr (Or.inr hh))) (Or.inr hrm)
      rw [findSlowGo, hpart]
      simp only [hsl, hsr, and_self, ↓reduceDIte, getBlockTime_ok hs (hsub m hmm)]
      by_cases hlt : T m < cutoff
      · simp only [hlt, ↓reduceIte]
        exact ih r _ (by omega) hir (fun h hh => hsub h ((hmem h).2 (Or.inr (Or.inr hh))))
      · simp only [hlt, ↓reduceIte]
        exact ih l _ (by omega) hil (fun h hh => hsub h ((hmem h).2 (Or.inl hh)))

/-- the `while let Some(..) = ranges.partitions()` loop terminates on every well-formed
    `BlockRanges` whose heights are in the store: never `diverge`, never an error -/
theorem findSlow_total {store : Nat → Option Nat} {stored : Ranges} {T : Nat → Nat} (cutoff : Nat)
    (hi : RInv stored) (hs : StoreOK store stored T) : ∃ o, findSlow store stored cutoff = .ok o :=
  findSlowGo_total hs (span stored) stored none (Nat.le_refl _) hi (fun _ h => h)

/-! ### the fast path -/

theorem prevOrLeft_correct {stored : Ranges} {T : Nat → Nat} {cutoff p : Nat} (hi : RInv stored)
    (hp1 : 1 ≤ p) (hadm : ∀ h, mem stored h → h ≤ p → T h ≤ cutoff)
    (habove : ∀ h', mem stored h' → p < h' → ¬ T h' < cutoff) :
    ∃ x, prevOrLeft stored p = .ok x ∧ AnswerOK stored T cutoff x := by
  unfold prevOrLeft
  by_cases hc : contains stored p = true
  · have hmp := (contains_iff_mem stored p).1 hc
    refine ⟨some p, by simp [hc], hmp, hadm p hmp (Nat.le_refl _), habove⟩
  · have hnp : ¬ mem stored p := fun h => hc ((contains_iff_mem stored p).2 h)
    obtain ⟨o, h1, h2, h3⟩ := leftOf_spec hi hp1
    refine ⟨o, by simp [hc, h1, liftR_ok], ?_⟩
    cases o with
    | none =>
      intro h hmh hlt
      have hle := h2 rfl h hmh
      rcases Nat.eq_or_lt_of_le hle with he | hl
      · subst he; exact hnp hmh
      · exact habove h hmh hl hlt
    | some y =>
      obtain ⟨k1, k2, k3⟩ := h3 y rfl
      refine ⟨k1, hadm y k1 (Nat.le_of_lt k2), ?_⟩
      intro h' hmh' hlt'
      by_cases hq : p < h'
      · exact habove h' hmh' hq
      · have : h' ≠ p := fun he => hnp (he ▸ hmh')
        have := k3 h' hmh' (by omega)
        omega

theorem findFast_correct {store : Nat → Option Nat} {stored : Ranges} {T : Nat → Nat}
    (cutoff : Nat) (prev : Option Nat) (hi : RInv stored) (hs : StoreOK store stored T)
    (hm : Mono stored T) (ha : Adm stored T cutoff prev) :
    ∃ o, findFast store stored cutoff prev = .ok o ∧ ∀ res, o = some res → AnswerOK stored T cutoff res := by
  cases prev with
  | none =>
    unfold findFast
    cases htl : tail stored with
    | none =>
      refine ⟨some none, rfl, ?_⟩
      intro res hres; cases hres
      intro h hmh
      rw [tail_eq_none_iff.1 htl] at hmh
      exact absurd hmh (mem_nil h)
    | some tl =>
      obtain ⟨k1, k2⟩ := tail_spec hi htl
      simp only [getBlockTime_ok hs k1]
      by_cases hc : cutoff < T tl
      · refine ⟨some none, by simp [hc], ?_⟩
        intro res hres; cases hres
        intro h hmh hlt
        have := hm.le k1 hmh (k2 h hmh)
        omega
      · exact ⟨none, by simp [hc], fun res hres => by cases hres⟩
  | some p =>
    obtain ⟨hp1, hadm⟩ := ha
    unfold findFast
    obtain ⟨o1, h1, h2, h3⟩ := rightOf_spec hi hp1
    simp only [h1, liftR_ok]
    cases o1 with
    | none =>
      obtain ⟨x, hx1, hx2⟩ := prevOrLeft_correct (T := T) (cutoff := cutoff) hi hp1 hadm
        (fun h' hmh' hlt' => by have := h2 rfl h' hmh'; omega)
      exact ⟨some x, by simp [hx1], fun res hres => by cases hres; exact hx2⟩
    | some r =>
      obtain ⟨r1, r2, r3⟩ := h3 r rfl
      simp only [getBlockTime_ok hs r1]
      by_cases hc : cutoff < T r
      · obtain ⟨x, hx1, hx2⟩ := prevOrLeft_correct (T := T) (cutoff := cutoff) hi hp1 hadm
          (fun h' hmh' hlt' => by
            have := hm.le r1 hmh' (r3 h' hmh' hlt'); omega)
        exact ⟨some x, by simp [hc, hx1], fun res hres => by cases hres; exact hx2⟩
      · have hr1 : 1 ≤ r := by omega
        obtain ⟨o2, g1, g2, g3⟩ := rightOf_spec hi hr1
        simp only [hc, ↓reduceIte, g1, liftR_ok]
        cases o2 with
        | none =>
          refine ⟨some (some r), rfl, ?_⟩
          intro res hres; cases hres
          refine ⟨r1, by omega, ?_⟩
          intro h' hmh' hlt'
          have := g2 rfl h' hmh'; omega
        | some rr =>
          obtain ⟨q1, q2, q3⟩ := g3 rr rfl
          simp only [getBlockTime_ok hs q1]
          by_cases hc2 : cutoff < T rr
          · refine ⟨some (some r), by simp [hc2], ?_⟩
            intro res hres; cases hres
            refine ⟨r1, by omega, ?_⟩
            intro h' hmh' hlt'
            have := hm.le q1 hmh' (q3 h' hmh' hlt'); omega
          · exact ⟨none, by simp [hc2], fun res hres => by cases hres⟩

/-- `find_height_after_window`: total and right, for every well-formed stored set, increasing
    times, every cutoff and every admissible previous answer -/
theorem find_correct (hp : PartitionsOK) {store : Nat → Option Nat} {stored : Ranges} {T : Nat → Nat}
    (cutoff : Nat) (prev : Option Nat) (hi : RInv stored) (hs : StoreOK store stored T)
    (hm : Mono stored T) (ha : Adm stored T cutoff prev) :
    ∃ o, find store stored cutoff prev = .ok o ∧ AnswerOK stored T cutoff o := by
  obtain ⟨o, h1, h2⟩ := findFast_correct cutoff prev hi hs hm ha
  unfold find
  rw [h1]
  cases o with
  | some res => exact ⟨res, rfl, h2 res rfl⟩
  | none =>
    obtain ⟨o', k1, k2⟩ := findSlow_correct hp cutoff hi hs hm
    exact ⟨o', k1, k2.answerOK⟩

/-! ### the decidable checkers of `Spec/C36.lean` say the same as the `Prop`s above -/

open Lumina.Spec.C36 in
theorem timesIncrease_iff (stored : Ranges) (T : Nat → Nat) :
    timesIncrease (heights stored) T = true ↔ Mono stored T := by
  simp only [timesIncrease, List.all_eq_true, mem_heights, Bool.or_eq_true, Bool.not_eq_true',
    decide_eq_false_iff_not, decide_eq_true_eq, Mono]
  constructor
  · intro h a b ha hb hab
    rcases h a ha b hb with h1 | h1
    · exact absurd hab h1
    · exact h1
  · intro h a ha b hb
    by_cases hab : a < b
    · exact Or.inr (h a b ha hb hab)
    · exact Or.inl hab

open Lumina.Spec.C36 in
theorem admissible_iff (stored : Ranges) (T : Nat → Nat) (cutoff : Nat) (prev : Option Nat) :
    admissible (heights stored) T cutoff prev = true ↔ Adm stored T cutoff prev := by
  cases prev with
  | none => simp [admissible, Adm]
  | some p =>
    simp only [admissible, Bool.and_eq_true, decide_eq_true_eq, List.all_eq_true, mem_heights,
      Bool.or_eq_true, Bool.not_eq_true', decide_eq_false_iff_not, Adm]
    constructor
    · rintro ⟨h1, h2⟩
      refine ⟨h1, fun h hm hle => ?_⟩
      rcases h2 h hm with h3 | h3
      · exact absurd hle h3
      · exact h3
    · rintro ⟨h1, h2⟩
      refine ⟨h1, fun h hm => ?_⟩
      by_cases hle : h ≤ p
      · exact Or.inr (h2 h hm hle)
      · exact Or.inl hle

open Lumina.Spec.C36 in
theorem answerOK_iff (stored : Ranges) (T : Nat → Nat) (cutoff : Nat) (o : Option Nat) :
    answerOK (heights stored) T cutoff o = true ↔ AnswerOK stored T cutoff o := by
  cases o with
  | none =>
    simp only [answerOK, nothingOlder, List.all_eq_true, mem_heights, Bool.not_eq_true',
      decide_eq_false_iff_not, AnswerOK, NothingOlder]
  | some x =>
    simp only [answerOK, rightEdge, Bool.and_eq_true, List.contains_iff_mem, mem_heights,
      decide_eq_true_eq, List.all_eq_true, Bool.or_eq_true, Bool.not_eq_true',
      decide_eq_false_iff_not, AnswerOK, RightEdge]
    constructor
    · rintro ⟨⟨h1, h2⟩, h3⟩
      refine ⟨h1, h2, fun h' hm hlt => ?_⟩
      rcases h3 h' hm with h4 | h4
      · exact absurd hlt h4
      · exact h4
    · rintro ⟨h1, h2, h3⟩
      refine ⟨⟨h1, h2⟩, fun h' hm => ?_⟩
      by_cases hlt : x < h'
      · exact Or.inr (h3 h' hm hlt)
      · exact Or.inl hlt

/-- An answer that was right for an earlier cutoff (possibly for an earlier content of the
    store) is admissible now, provided header times increase with height over the heights
    involved (`p` itself and what is stored now). -/
theorem adm_of_earlier_answer {stored : Ranges} {T : Nat → Nat} {cutoff cutoff' p : Nat}
    (hp1 : 1 ≤ p) (hwas : T p ≤ cutoff') (hc : cutoff' ≤ cutoff)
    (hmono : ∀ h, mem stored h → h ≤ p → T h ≤ T p) :
    Adm stored T cutoff (some p) :=
  ⟨hp1, fun h hm hle => Nat.le_trans (hmono h hm hle) (Nat.le_trans hwas hc)⟩

end Lumina.Proofs.Pruner

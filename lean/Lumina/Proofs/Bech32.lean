/-
  Helper lemmas for C47 (bech32): 8<->5 bit regrouping round trip, GF(2)-linearity of the
  checksum engine, "the appended checksum verifies", equivalence of the crate's packed-residue
  engine with the BIP-173 reference `bech32_polymod`.
-/
import Lumina.Model.Bech32
import Lumina.Spec.C47

namespace Lumina.Proofs.Bech32
open Lumina.Model.Bech32

/-! ## 8 <-> 5 bit regrouping -/

theorem fesToBytes_bytesToFes (bs : List Nat) (h : ∀ b ∈ bs, b < 256) :
    fesToBytes (bytesToFes bs) = bs := by
  fun_induction bytesToFes bs with
  | case1 b0 b1 b2 b3 b4 rest ih =>
    simp only [List.mem_cons, forall_eq_or_imp] at h
    obtain ⟨h0, h1, h2, h3, h4, hr⟩ := h
    rw [fesToBytes, ih hr]
    simp only [List.cons.injEq, and_true]
    omega
  | case2 b0 b1 b2 b3 =>
    simp only [List.mem_cons, forall_eq_or_imp] at h
    obtain ⟨h0, h1, h2, h3, -⟩ := h
    simp only [fesToBytes, List.cons.injEq, and_true]
    omega
  | case3 b0 b1 b2 =>
    simp only [List.mem_cons, forall_eq_or_imp] at h
    obtain ⟨h0, h1, h2, -⟩ := h
    simp only [fesToBytes, List.cons.injEq, and_true]
    omega
  | case4 b0 b1 =>
    simp only [List.mem_cons, forall_eq_or_imp] at h
    obtain ⟨h0, h1, -⟩ := h
    simp only [fesToBytes, List.cons.injEq, and_true]
    omega
  | case5 b0 =>
    simp only [List.mem_cons, forall_eq_or_imp] at h
    obtain ⟨h0, -⟩ := h
    simp only [fesToBytes, List.cons.injEq, and_true]
    omega
  | case6 => simp [fesToBytes]

theorem bytesToFes_lt (bs : List Nat) (h : ∀ b ∈ bs, b < 256) : ∀ f ∈ bytesToFes bs, f < 32 := by
  fun_induction bytesToFes bs with
  | case1 b0 b1 b2 b3 b4 rest ih =>
    simp only [List.mem_cons, forall_eq_or_imp] at h ⊢
    obtain ⟨h0, h1, h2, h3, h4, hr⟩ := h
    refine ⟨by omega, by omega, by omega, by omega, by omega, by omega, by omega, by omega, ih hr⟩
  | case2 b0 b1 b2 b3 =>
    simp only [List.mem_cons, forall_eq_or_imp] at h ⊢
    obtain ⟨h0, h1, h2, h3, -⟩ := h
    refine ⟨by omega, by omega, by omega, by omega, by omega, by omega, by omega, by simp⟩
  | case3 b0 b1 b2 =>
    simp only [List.mem_cons, forall_eq_or_imp] at h ⊢
    obtain ⟨h0, h1, h2, -⟩ := h
    refine ⟨by omega, by omega, by omega, by omega, by omega, by simp⟩
  | case4 b0 b1 =>
    simp only [List.mem_cons, forall_eq_or_imp] at h ⊢
    obtain ⟨h0, h1, -⟩ := h
    refine ⟨by omega, by omega, by omega, by omega, by simp⟩
  | case5 b0 =>
    simp only [List.mem_cons, forall_eq_or_imp] at h ⊢
    obtain ⟨h0, -⟩ := h
    refine ⟨by omega, by omega, by simp⟩
  | case6 => simp

theorem bytesToFes_length (bs : List Nat) : (bytesToFes bs).length = (8 * bs.length + 4) / 5 := by
  fun_induction bytesToFes bs <;> simp_all <;> omega

theorem fesToBytes_length (fs : List Nat) : (fesToBytes fs).length = 5 * fs.length / 8 := by
  fun_induction fesToBytes fs <;> simp_all <;> omega

/-! ## linearity of the checksum engine -/

/-- the multiple `xn · g(x)` of the generator added by `input_fe` -/
def mulG (xn : Nat) : Nat :=
  (if xn &&& 1 ≠ 0 then 0x3b6a57b2 else 0) ^^^ (if xn &&& 2 ≠ 0 then 0x26508e6d else 0) ^^^
  (if xn &&& 4 ≠ 0 then 0x1ea119fa else 0) ^^^ (if xn &&& 8 ≠ 0 then 0x3d4233dd else 0) ^^^
  (if xn &&& 16 ≠ 0 then 0x2a1462b3 else 0)

def shiftPart (r : Nat) : Nat := ((r &&& (0xffffffff ^^^ (0x1f <<< 25))) <<< 5) &&& 0xffffffff

theorem or_eq_xor_of_disjoint (a b : Nat) (h : ∀ i, (a.testBit i && b.testBit i) = false) :
    a ||| b = a ^^^ b := by
  apply Nat.eq_of_testBit_eq
  intro i
  have := h i
  simp only [Nat.testBit_or, Nat.testBit_xor]
  cases ha : a.testBit i <;> cases hb : b.testBit i <;> simp_all

theorem shiftPart_or (r e : Nat) (he : e < 32) : shiftPart r ||| e = shiftPart r ^^^ e := by
  apply or_eq_xor_of_disjoint
  intro i
  unfold shiftPart
  by_cases hi : i < 5
  · simp [Nat.testBit_and, Nat.testBit_shiftLeft]; omega
  · have : e.testBit i = false := by
      apply Nat.testBit_lt_two_pow
      calc e < 2 ^ 5 := he
        _ ≤ 2 ^ i := Nat.pow_le_pow_right (by decide) (by omega)
    simp [this]

theorem ite_xor (c : Prop) [Decidable c] (x g : Nat) :
    (if c then x ^^^ g else x) = x ^^^ (if c then g else 0) := by
  split <;> simp

theorem inputFe_eq (r e : Nat) (he : e < 32) :
    inputFe r e = shiftPart r ^^^ e ^^^ mulG (unpack r 5) := by
  unfold inputFe mulByXThenAdd
  simp only []
  rw [show ((r &&& (0xffffffff ^^^ (0x1f <<< 25))) <<< 5 &&& 0xffffffff) = shiftPart r from rfl,
    shiftPart_or r e he]
  unfold mulG
  generalize unpack r 5 = xn
  generalize shiftPart r ^^^ e = x
  repeat' split
  all_goals simp_all [Nat.xor_assoc]

theorem mulG_xor : ∀ a < 32, ∀ b < 32, mulG (a ^^^ b) = mulG a ^^^ mulG b := by
  decide +kernel

theorem unpack_lt (r n : Nat) : unpack r n < 32 := by
  unfold unpack
  exact Nat.lt_of_le_of_lt Nat.and_le_right (by decide)

theorem unpack_xor (a b n : Nat) : unpack (a ^^^ b) n = unpack a n ^^^ unpack b n := by
  simp [unpack, Nat.shiftRight_xor_distrib, Nat.and_xor_distrib_right]

theorem shiftPart_xor (a b : Nat) : shiftPart (a ^^^ b) = shiftPart a ^^^ shiftPart b := by
  simp [shiftPart, Nat.shiftLeft_xor_distrib, Nat.and_xor_distrib_right]

theorem inputFe_xor (a b e f : Nat) (he : e < 32) (hf : f < 32) :
    inputFe (a ^^^ b) (e ^^^ f) = inputFe a e ^^^ inputFe b f := by
  have hef : e ^^^ f < 32 := Nat.xor_lt_two_pow (n := 5) he hf
  rw [inputFe_eq _ _ hef, inputFe_eq _ _ he, inputFe_eq _ _ hf, shiftPart_xor, unpack_xor,
    mulG_xor _ (unpack_lt _ _) _ (unpack_lt _ _)]
  generalize shiftPart a = A
  generalize shiftPart b = B
  generalize mulG (unpack a 5) = C
  generalize mulG (unpack b 5) = D
  apply Nat.eq_of_testBit_eq
  intro i
  simp only [Nat.testBit_xor]
  cases A.testBit i <;> cases B.testBit i <;> cases C.testBit i <;> cases D.testBit i <;>
    cases e.testBit i <;> cases f.testBit i <;> rfl

theorem mulG_lt : ∀ a < 32, mulG a < 2 ^ 30 := by decide +kernel

theorem shiftPart_lt (r : Nat) : shiftPart r < 2 ^ 30 := by
  unfold shiftPart
  apply Nat.lt_pow_two_of_testBit
  intro i hi
  simp only [Nat.testBit_and, Nat.testBit_shiftLeft]
  by_cases h32 : i < 32
  · -- bits 30, 31 of the result are bits 25, 26 of the masked residue: cleared
    have : i = 30 ∨ i = 31 := by omega
    have h25 : Nat.testBit 3254779903 25 = false := by decide
    have h26 : Nat.testBit 3254779903 26 = false := by decide
    rcases this with rfl | rfl <;> simp [h25, h26]
  · have : Nat.testBit 0xffffffff i = false :=
      Nat.testBit_lt_two_pow (Nat.lt_of_lt_of_le (by decide : 0xffffffff < 2 ^ 32) (Nat.pow_le_pow_right (by decide) (by omega)))
    simp [this]

theorem inputFe_lt (r e : Nat) (he : e < 32) : inputFe r e < 2 ^ 30 := by
  rw [inputFe_eq r e he]
  exact Nat.xor_lt_two_pow (Nat.xor_lt_two_pow (shiftPart_lt r) (Nat.lt_trans he (by decide)))
    (mulG_lt _ (unpack_lt _ _))

/-- with an empty top coefficient `input_fe` only shifts the new element in -/
theorem inputFe_small (r e : Nat) (hr : r < 2 ^ 25) (he : e < 32) : inputFe r e = r * 32 + e := by
  rw [inputFe_eq r e he]
  have hu : unpack r 5 = 0 := by
    unfold unpack
    rw [Nat.shiftRight_eq_div_pow, Nat.div_eq_of_lt (by simpa using hr)]; rfl
  have hs : shiftPart r = r * 32 := by
    unfold shiftPart
    have h1 : r &&& (0xffffffff ^^^ (0x1f <<< 25)) = r := by
      apply Nat.eq_of_testBit_eq
      intro i
      simp only [Nat.testBit_and]
      by_cases hi : i < 25
      · have : ∀ i < 25, Nat.testBit 3254779903 i = true := by decide +kernel
        simp [this i hi]
      · have : r.testBit i = false :=
          Nat.testBit_lt_two_pow (Nat.lt_of_lt_of_le hr (Nat.pow_le_pow_right (by decide) (by omega)))
        simp [this]
    rw [h1, show (0xffffffff : Nat) = 2 ^ 32 - 1 from rfl, Nat.and_two_pow_sub_one_eq_mod, Nat.shiftLeft_eq]
    apply Nat.mod_eq_of_lt
    omega
  rw [hu, hs, show mulG 0 = 0 from rfl, Nat.xor_zero]
  rw [show r * 32 = r <<< 5 by rw [Nat.shiftLeft_eq]]
  rw [Nat.shiftLeft_add_eq_or_of_lt (i := 5) he]
  symm
  apply or_eq_xor_of_disjoint
  intro i
  by_cases hi : i < 5
  · simp [Nat.testBit_shiftLeft]; omega
  · have : e.testBit i = false :=
      Nat.testBit_lt_two_pow (Nat.lt_of_lt_of_le (show e < 2 ^ 5 from he) (Nat.pow_le_pow_right (by decide) (by omega)))
    simp [this]

theorem inputFes_xor (l m : List Nat) (a b : Nat) (hlen : l.length = m.length)
    (hl : ∀ x ∈ l, x < 32) (hm : ∀ x ∈ m, x < 32) :
    inputFes (a ^^^ b) (List.zipWith (· ^^^ ·) l m) = inputFes a l ^^^ inputFes b m := by
  induction l generalizing m a b with
  | nil => cases m <;> simp_all [inputFes]
  | cons x l ih =>
    cases m with
    | nil => simp at hlen
    | cons y m =>
      simp only [List.mem_cons, forall_eq_or_imp] at hl hm
      simp only [List.zipWith_cons_cons, inputFes, List.foldl_cons]
      rw [inputFe_xor _ _ _ _ hl.1 hm.1]
      exact ih m _ _ (by simpa using hlen) hl.2 hm.2

theorem inputFes_append (r : Nat) (l m : List Nat) : inputFes r (l ++ m) = inputFes (inputFes r l) m := by
  simp [inputFes, List.foldl_append]

theorem inputFes_lt (r : Nat) (l : List Nat) (hr : r < 2 ^ 30) (hl : ∀ x ∈ l, x < 32) :
    inputFes r l < 2 ^ 30 := by
  induction l generalizing r with
  | nil => simpa [inputFes] using hr
  | cons x l ih =>
    simp only [List.mem_cons, forall_eq_or_imp] at hl
    simp only [inputFes, List.foldl_cons]
    exact ih _ (inputFe_lt _ _ hl.1) hl.2

theorem unpack6_lt (r : Nat) : ∀ x ∈ unpack6 r, x < 32 := by
  simp [unpack6, unpack_lt]

theorem unpack_eq (r n : Nat) : unpack r n = r / 2 ^ (n * 5) % 32 := by
  unfold unpack
  rw [Nat.shiftRight_eq_div_pow, show (0x1f : Nat) = 2 ^ 5 - 1 from rfl, Nat.and_two_pow_sub_one_eq_mod]

/-- feeding the six coefficients of `x` into the zero residue packs them back into `x` -/
theorem inputFes_zero_unpack6 (x : Nat) (hx : x < 2 ^ 30) : inputFes 0 (unpack6 x) = x := by
  simp only [unpack6, inputFes, List.foldl_cons, List.foldl_nil, unpack_eq]
  have h5 : x / 2 ^ (5 * 5) % 32 < 32 := Nat.mod_lt _ (by decide)
  have h4 : x / 2 ^ (4 * 5) % 32 < 32 := Nat.mod_lt _ (by decide)
  have h3 : x / 2 ^ (3 * 5) % 32 < 32 := Nat.mod_lt _ (by decide)
  have h2 : x / 2 ^ (2 * 5) % 32 < 32 := Nat.mod_lt _ (by decide)
  have h1 : x / 2 ^ (1 * 5) % 32 < 32 := Nat.mod_lt _ (by decide)
  have h0 : x / 2 ^ (0 * 5) % 32 < 32 := Nat.mod_lt _ (by decide)
  rw [inputFe_small 0 _ (by decide) h5]
  rw [inputFe_small _ _ (by omega) h4]
  rw [inputFe_small _ _ (by omega) h3]
  rw [inputFe_small _ _ (by omega) h2]
  rw [inputFe_small _ _ (by omega) h1]
  rw [inputFe_small _ _ (by omega) h0]
  simp only [Nat.reducePow, Nat.reduceMul] at *
  omega

/-- **the appended checksum verifies**: if `c` are the coefficients of the residue obtained by
    feeding the target after the data, then feeding `c` after the data gives the target -/
theorem checksum_verifies (s t : Nat) (ht : t < 2 ^ 30) :
    inputFes s (unpack6 (inputTargetResidue t s)) = t := by
  unfold inputTargetResidue
  generalize hR : inputFes s (unpack6 t) = R
  have hRlt : R < 2 ^ 30 := by
    rw [← hR]
    simp only [unpack6, inputFes, List.foldl_cons, List.foldl_nil]
    exact inputFe_lt _ _ (unpack_lt _ _)
  have hz : unpack6 R = List.zipWith (· ^^^ ·) (unpack6 t) (unpack6 (t ^^^ R)) := by
    simp only [unpack6, List.zipWith_cons_cons, List.zipWith_nil_right, unpack_xor, ← Nat.xor_assoc,
      Nat.xor_self, Nat.zero_xor]
  have hs : s = s ^^^ 0 := by simp
  rw [hz, show inputFes s = inputFes (s ^^^ 0) by simp, inputFes_xor _ _ _ _ (by simp [unpack6]) (unpack6_lt _) (unpack6_lt _), hR,
    inputFes_zero_unpack6 _ (Nat.xor_lt_two_pow ht hRlt), ← Nat.xor_assoc, Nat.xor_comm R t,
    Nat.xor_assoc, Nat.xor_self, Nat.xor_zero]

/-! ## the crate's engine = BIP-173 reference polymod -/
def specMulG (b : Nat) : Nat :=
  (if (b >>> 0) &&& 1 = 1 then 0x3b6a57b2 else 0) ^^^ ((if (b >>> 1) &&& 1 = 1 then 0x26508e6d else 0) ^^^
  ((if (b >>> 2) &&& 1 = 1 then 0x1ea119fa else 0) ^^^ ((if (b >>> 3) &&& 1 = 1 then 0x3d4233dd else 0) ^^^
  (if (b >>> 4) &&& 1 = 1 then 0x2a1462b3 else 0))))

theorem specMulG_eq : ∀ b < 32, specMulG b = mulG b := by decide +kernel

theorem shiftPart_eq_of_lt (r : Nat) (hr : r < 2 ^ 30) : shiftPart r = (r &&& 0x1ffffff) <<< 5 := by
  unfold shiftPart
  have h1 : r &&& (0xffffffff ^^^ (0x1f <<< 25)) = r &&& 0x1ffffff := by
    apply Nat.eq_of_testBit_eq
    intro i
    simp only [Nat.testBit_and]
    by_cases hi : i < 30
    · have : ∀ i < 30, Nat.testBit 3254779903 i = Nat.testBit 0x1ffffff i := by decide +kernel
      simp [this i hi]
    · have : r.testBit i = false :=
        Nat.testBit_lt_two_pow (Nat.lt_of_lt_of_le hr (Nat.pow_le_pow_right (by decide) (by omega)))
      simp [this]
  rw [h1, show (0xffffffff : Nat) = 2 ^ 32 - 1 from rfl, Nat.and_two_pow_sub_one_eq_mod]
  apply Nat.mod_eq_of_lt
  rw [Nat.shiftLeft_eq, show (0x1ffffff : Nat) = 2 ^ 25 - 1 from rfl, Nat.and_two_pow_sub_one_eq_mod]
  have := Nat.mod_lt r (show 2 ^ 25 > 0 by decide)
  omega

theorem polymodStep_eq (r v : Nat) (hr : r < 2 ^ 30) (hv : v < 32) :
    Lumina.Spec.C47.polymodStep r v = inputFe r v := by
  rw [inputFe_eq r v hv, shiftPart_eq_of_lt r hr]
  have hb : r >>> 25 < 32 := by
    rw [Nat.shiftRight_eq_div_pow]; omega
  have hu : unpack r 5 = r >>> 25 := by
    rw [unpack_eq, Nat.shiftRight_eq_div_pow]
    exact Nat.mod_eq_of_lt (by rw [Nat.shiftRight_eq_div_pow] at hb; exact hb)
  rw [hu, ← specMulG_eq _ hb]
  unfold Lumina.Spec.C47.polymodStep specMulG
  simp only [show List.range 5 = [0, 1, 2, 3, 4] from rfl, List.foldl_cons, List.foldl_nil,
    Lumina.Spec.C47.generator, List.getD_cons_zero, List.getD_cons_succ]
  simp only [ite_xor]
  simp only [Nat.xor_assoc]

theorem polymod_foldl_eq (l : List Nat) (r : Nat) (hr : r < 2 ^ 30) (hl : ∀ x ∈ l, x < 32) :
    l.foldl Lumina.Spec.C47.polymodStep r = inputFes r l := by
  induction l generalizing r with
  | nil => rfl
  | cons x l ih =>
    simp only [List.mem_cons, forall_eq_or_imp] at hl
    simp only [List.foldl_cons, inputFes]
    rw [polymodStep_eq r x hr hl.1]
    exact ih _ (inputFe_lt _ _ hl.1) hl.2

/-! ## characters, `check_characters` -/

theorem charOfFe_facts : ∀ v < 32, feOfChar (charOfFe v) = some v ∧ feOfCharUnchecked (charOfFe v) = v ∧
    charOfFe v ≠ 49 ∧ isUpper (charOfFe v) = false ∧ Lumina.Spec.C47.charset.contains (charOfFe v) = true ∧
    Lumina.Spec.C47.charValue (charOfFe v) = v := by decide +kernel

theorem feOfChar_ge (c : Nat) (h : 128 ≤ c) : feOfChar c = none := by
  unfold feOfChar; simp; omega

theorem validChar_facts : ∀ c < 128, (feOfChar c).isSome = true →
    feOfCharUnchecked c < 32 ∧ Lumina.Spec.C47.isBech32Char c = true ∧
    Lumina.Spec.C47.charValue c = feOfCharUnchecked c ∧ c ≠ 49 := by decide +kernel

theorem validChar (c : Nat) (h : (feOfChar c).isSome = true) :
    feOfCharUnchecked c < 32 ∧ Lumina.Spec.C47.isBech32Char c = true ∧
    Lumina.Spec.C47.charValue c = feOfCharUnchecked c ∧ c ≠ 49 := by
  by_cases hc : c < 128
  · exact validChar_facts c hc h
  · rw [feOfChar_ge c (by omega)] at h; simp at h

theorem go_sep_some (l : List Nat) (n : Nat) (up lo : Bool) (q p : Nat)
    (h : checkCharactersGo l n up lo false (some q) = some p) : p = q := by
  induction l generalizing n up lo with
  | nil =>
    unfold checkCharactersGo at h
    split at h <;> simp_all
  | cons ch rest ih =>
    unfold checkCharactersGo at h
    simp at h
    exact ih _ _ _ h

theorem go_some (l : List Nat) (up lo : Bool) (p : Nat)
    (h : checkCharactersGo l l.length up lo true none = some p) :
    ∃ sr pr, l = sr ++ 49 :: pr ∧ p = pr.length ∧ ∀ c ∈ sr, (feOfChar c).isSome = true := by
  induction l generalizing up lo with
  | nil =>
    unfold checkCharactersGo at h
    split at h <;> simp_all
  | cons ch rest ih =>
    unfold checkCharactersGo at h
    by_cases hc : ch = 49
    · subst hc
      simp at h
      have := go_sep_some _ _ _ _ _ _ h
      exact ⟨[], rest, by simp, this, by simp⟩
    · simp [hc] at h
      obtain ⟨hv, h⟩ := h
      obtain ⟨sr, pr, h1, h2, h3⟩ := ih _ _ h
      refine ⟨ch :: sr, pr, by simp [h1], h2, ?_⟩
      intro c hcm
      rcases List.mem_cons.mp hcm with rfl | hcm
      · cases hf : feOfChar c <;> simp_all
      · exact h3 c hcm

theorem go_after (pr : List Nat) (n q : Nat) (lo : Bool) (h : ∀ c ∈ pr, isUpper c = false) :
    checkCharactersGo pr n false lo false (some q) = some q := by
  induction pr generalizing n lo with
  | nil => simp [checkCharactersGo]
  | cons ch rest ih =>
    simp only [List.mem_cons, forall_eq_or_imp] at h
    unfold checkCharactersGo
    simp [h.1]
    exact ih _ _ h.2

theorem go_fwd (sr pr : List Nat) (lo : Bool)
    (hs : ∀ c ∈ sr, (feOfChar c).isSome = true ∧ c ≠ 49 ∧ isUpper c = false)
    (hp : ∀ c ∈ pr, isUpper c = false) :
    checkCharactersGo (sr ++ 49 :: pr) (sr.length + 1 + pr.length) false lo true none = some pr.length := by
  induction sr generalizing lo with
  | nil =>
    simp only [List.nil_append, List.length_nil]
    unfold checkCharactersGo
    simp
    exact go_after pr _ _ _ hp
  | cons ch rest ih =>
    simp only [List.mem_cons, forall_eq_or_imp] at hs
    obtain ⟨⟨h1, h2, h3⟩, hr⟩ := hs
    simp only [List.cons_append, List.length_cons]
    unfold checkCharactersGo
    have : (feOfChar ch).isNone = false := by cases hf : feOfChar ch <;> simp_all
    simp [h2, h3, this]
    have := ih (lo || isLower ch) hr
    exact this

/-! ## decode -/


theorem map_toLower_of_noUpper (p : Str) (h : ∀ c ∈ p, isUpper c = false) : p.map toLower = p := by
  induction p with
  | nil => rfl
  | cons c p ih =>
    simp only [List.mem_cons, forall_eq_or_imp] at h
    simp [toLower, h.1, ih h.2]

theorem map_unchecked_charOfFe (fes : List Nat) (h : ∀ f ∈ fes, f < 32) :
    (fes.map charOfFe).map feOfCharUnchecked = fes := by
  induction fes with
  | nil => rfl
  | cons f fes ih =>
    simp only [List.mem_cons, forall_eq_or_imp] at h
    simp only [List.map_cons, (charOfFe_facts f h.1).2.1, ih h.2]

theorem checksumFes_lt (t : Nat) (p : Str) (fes : List Nat) : ∀ x ∈ checksumFes t p fes, x < 32 :=
  unpack6_lt _

theorem checksumFes_length (t : Nat) (p : Str) (fes : List Nat) : (checksumFes t p fes).length = 6 := rfl

/-- the structure of everything `encode` produces, as seen by `decode` -/
theorem decode_encode (p : Str) (data : List Nat)
    (hp1 : ∀ c ∈ p, isUpper c = false) (hp2 : hrpParse p = true)
    (hd : ∀ b ∈ data, b < 256) (hlen : p.length + 1 + (bytesToFes data).length + 6 ≤ 1023) :
    decode (encode BECH32_TARGET p data) = some (p, data) := by
  have hfes := bytesToFes_lt data hd
  generalize hF : bytesToFes data = fes at *
  have hchk := checksumFes_lt BECH32_TARGET p fes
  have hclen := checksumFes_length BECH32_TARGET p fes
  generalize hC : checksumFes BECH32_TARGET p fes = chk at *
  have hall : ∀ x ∈ fes ++ chk, x < 32 := by
    intro x hx; rcases List.mem_append.mp hx with h | h
    · exact hfes x h
    · exact hchk x h
  unfold encode
  simp only [hF, hC, map_toLower_of_noUpper p hp1]
  generalize hD : (fes ++ chk).map charOfFe = d
  have hdlen : d.length = fes.length + 6 := by rw [← hD]; simp [hclen]
  have hdvalid : ∀ c ∈ d, (feOfChar c).isSome = true ∧ c ≠ 49 ∧ isUpper c = false := by
    intro c hc
    rw [← hD] at hc
    obtain ⟨v, hv, rfl⟩ := List.mem_map.mp hc
    have := charOfFe_facts v (hall v hv)
    simp [this.1, this.2.2.1, this.2.2.2.1]
  -- check_characters finds the separator right after the prefix
  have hcc : checkCharacters (p ++ [49] ++ d) = some p.length := by
    unfold checkCharacters
    have := go_fwd d.reverse p.reverse false (by simpa using hdvalid) (by simpa using hp1)
    simp only [List.length_reverse] at this
    simpa [Nat.add_comm, Nat.add_left_comm, Nat.add_assoc] using this
  unfold decode
  rw [hcc]
  simp only [List.append_assoc, List.take_left', List.singleton_append]
  have hdrop : List.drop (p.length + 1) (p ++ 49 :: d) = d := by
    rw [show p ++ 49 :: d = (p ++ [49]) ++ d by simp]
    exact List.drop_left' (by simp)
  rw [hdrop, hp2]
  -- the bech32 checksum verifies
  have hres : inputFes (inputHrp p) (d.map feOfCharUnchecked) = BECH32_TARGET := by
    rw [← hD, map_unchecked_charOfFe _ hall, inputFes_append, ← hC]
    exact checksum_verifies _ _ (by decide)
  have hv : validateChecksum BECH32_TARGET p d (p ++ 49 :: d).length = true := by
    unfold validateChecksum
    simp only [List.length_append, List.length_cons, hdlen, CODE_LENGTH, CHECKSUM_LENGTH, hres]
    rw [if_neg (by omega), if_neg (by omega)]
    simp
  simp only [hv, Bool.not_true, Bool.and_false, Bool.false_eq_true, ↓reduceIte, Option.some.injEq,
    Prod.mk.injEq, true_and]
  rw [hdlen, CHECKSUM_LENGTH, Nat.add_sub_cancel, ← hD, List.map_append, List.take_left' (by simp),
    map_unchecked_charOfFe _ hfes, ← hF]
  exact fesToBytes_bytesToFes data hd

/-! ## decode -/


/-- everything `decode` accepts is `hrp ++ "1" ++ d` with `d` made of bech32 characters, at least
    six of them, with residue equal to one of the two targets; the data are the regrouped
    characters without the last six -/
theorem decode_some (s hrp : Str) (data : List Nat) (h : decode s = some (hrp, data)) :
    ∃ d, s = hrp ++ 49 :: d ∧ (∀ c ∈ d, (feOfChar c).isSome = true) ∧ 6 ≤ d.length ∧
      (inputFes (inputHrp hrp) (d.map feOfCharUnchecked) = BECH32M_TARGET ∨
       inputFes (inputHrp hrp) (d.map feOfCharUnchecked) = BECH32_TARGET) ∧
      data = fesToBytes ((d.take (d.length - 6)).map feOfCharUnchecked) := by
  unfold decode at h
  cases hcc : checkCharacters s with
  | none => simp [hcc] at h
  | some sep =>
    simp only [hcc] at h
    unfold checkCharacters at hcc
    rw [← List.length_reverse] at hcc
    obtain ⟨sr, pr, h1, h2, h3⟩ := go_some _ _ _ _ hcc
    have hs : s = pr.reverse ++ 49 :: sr.reverse := by
      have := congrArg List.reverse h1
      simpa using this
    have htake : s.take sep = pr.reverse := by
      rw [hs, h2]; exact List.take_left' (by simp)
    have hdrop : s.drop (sep + 1) = sr.reverse := by
      rw [hs, h2, show pr.reverse ++ 49 :: sr.reverse = (pr.reverse ++ [49]) ++ sr.reverse by simp]
      exact List.drop_left' (by simp)
    rw [htake, hdrop] at h
    have h3' : ∀ c ∈ sr.reverse, (feOfChar c).isSome = true := by simpa using h3
    generalize sr.reverse = d at *
    generalize pr.reverse = p at *
    split at h
    · simp at h
    · split at h
      · simp at h
      · rename_i hv
        simp only [Option.some.injEq, Prod.mk.injEq] at h
        obtain ⟨rfl, rfl⟩ := h
        have hv' : validateChecksum BECH32M_TARGET p d s.length = true ∨
            validateChecksum BECH32_TARGET p d s.length = true := by
          cases hm : validateChecksum BECH32M_TARGET p d s.length <;>
            cases hb : validateChecksum BECH32_TARGET p d s.length <;> simp_all
        have key : ∀ t, validateChecksum t p d s.length = true →
            6 ≤ d.length ∧ inputFes (inputHrp p) (d.map feOfCharUnchecked) = t := by
          intro t ht
          unfold validateChecksum at ht
          split at ht
          · simp at ht
          · split at ht
            · simp at ht
            · rename_i h6
              simp only [CHECKSUM_LENGTH] at h6
              exact ⟨by omega, by simpa using ht⟩
        refine ⟨d, hs, h3', ?_, ?_, rfl⟩
        · rcases hv' with h | h
          · exact (key _ h).1
          · exact (key _ h).1
        · rcases hv' with h | h
          · exact Or.inl (key _ h).2
          · exact Or.inr (key _ h).2

theorem kindOfStr_some (s : Str) (k : Kind) (h : kindOfStr s = some k) : s = k.pfx := by
  unfold kindOfStr at h
  split at h
  · cases h; assumption
  · split at h
    · cases h; assumption
    · split at h
      · cases h; assumption
      · simp at h

/-! ## single-character errors -/

/-- the syndrome table: a single non-zero error `e` at distance `j` from the end of the 38
    data+checksum characters never produces residue difference 0 (undetected as bech32) nor
    `1 ⊕ 0x2bc830a3` (which would turn a bech32 checksum into a valid bech32m one) -/
theorem syndrome_table : ∀ j < 38, ∀ e < 32, e ≠ 0 →
    inputFes e (List.replicate j 0) ≠ 0 ∧ inputFes e (List.replicate j 0) ≠ 1 ^^^ BECH32M_TARGET := by
  decide +kernel

def unitVec (n i e : Nat) : List Nat := List.replicate i 0 ++ e :: List.replicate (n - i - 1) 0

theorem zipWith_xor_zeros (l : List Nat) : List.zipWith (· ^^^ ·) l (List.replicate l.length 0) = l := by
  induction l with
  | nil => rfl
  | cons y l ih => simp [List.replicate_succ, ih]

theorem eq_of_xor_eq_zero (a b : Nat) (h : a ^^^ b = 0) : a = b := by
  have := congrArg (· ^^^ b) h
  simpa [Nat.xor_assoc] using this

theorem set_eq_zipWith (l : List Nat) (i v : Nat) (hi : i < l.length) :
    l.set i v = List.zipWith (· ^^^ ·) l (unitVec l.length i (l[i] ^^^ v)) := by
  induction l generalizing i with
  | nil => simp at hi
  | cons x l ih =>
    cases i with
    | zero =>
      simp [unitVec, ← Nat.xor_assoc, zipWith_xor_zeros]
    | succ i =>
      have := ih i (by simpa using hi)
      simp only [List.set_cons_succ, List.length_cons, List.getElem_cons_succ, unitVec] at this ⊢
      rw [show l.length + 1 - (i + 1) - 1 = l.length - i - 1 by omega]
      simp [List.replicate_succ, ← this]

theorem unitVec_length (n i e : Nat) (hi : i < n) : (unitVec n i e).length = n := by
  simp [unitVec]; omega

theorem unitVec_lt (n i e : Nat) (he : e < 32) : ∀ x ∈ unitVec n i e, x < 32 := by
  intro x hx
  simp only [unitVec, List.mem_append, List.mem_replicate, List.mem_cons] at hx
  rcases hx with h | h | h <;> omega

theorem inputFes_zeros (n : Nat) : inputFes 0 (List.replicate n 0) = 0 := by
  induction n with
  | zero => rfl
  | succ n ih =>
    simp only [List.replicate_succ, inputFes, List.foldl_cons]
    rw [show inputFe 0 0 = 0 by decide]
    exact ih

theorem inputFes_unitVec (n i e : Nat) (he : e < 32) :
    inputFes 0 (unitVec n i e) = inputFes e (List.replicate (n - i - 1) 0) := by
  unfold unitVec
  rw [inputFes_append, inputFes_zeros]
  simp only [inputFes, List.foldl_cons]
  rw [inputFe_small 0 e (by decide) he]
  simp

/-- replacing one of 38 field elements of a word with bech32 residue 1 by a different element
    gives a residue that is neither the bech32 nor the bech32m target -/
theorem residue_after_single_error (s : Nat) (l : List Nat) (i v : Nat) (hl : l.length = 38)
    (hlt : ∀ x ∈ l, x < 32) (hi : i < 38) (hv : v < 32) (hne : l[i]'(by omega) ≠ v)
    (hres : inputFes s l = BECH32_TARGET) :
    inputFes s (l.set i v) ≠ BECH32_TARGET ∧ inputFes s (l.set i v) ≠ BECH32M_TARGET := by
  have hi' : i < l.length := by omega
  have hx : l[i] < 32 := hlt _ (List.getElem_mem hi')
  have he : l[i] ^^^ v < 32 := Nat.xor_lt_two_pow (n := 5) hx hv
  have he0 : l[i] ^^^ v ≠ 0 := by
    intro h
    exact hne (eq_of_xor_eq_zero _ _ h)
  rw [set_eq_zipWith l i v hi', show inputFes s = inputFes (s ^^^ 0) by simp,
    inputFes_xor _ _ _ _ (by rw [unitVec_length _ _ _ hi']) hlt (unitVec_lt _ _ _ he), hres,
    inputFes_unitVec _ _ _ he, hl]
  obtain ⟨t1, t2⟩ := syndrome_table (38 - i - 1) (by omega) _ he he0
  generalize inputFes (l[i] ^^^ v) (List.replicate (38 - i - 1) 0) = y at *
  constructor
  · intro h
    apply t1
    have := congrArg (BECH32_TARGET ^^^ ·) h
    simpa [← Nat.xor_assoc] using this
  · intro h
    apply t2
    have := congrArg (BECH32_TARGET ^^^ ·) h
    simp only [← Nat.xor_assoc, Nat.xor_self, Nat.zero_xor] at this
    rw [this]; rfl

theorem split_unique (a b x y : List Nat) (hx : 49 ∉ x) (hy : 49 ∉ y)
    (h : a ++ 49 :: x = b ++ 49 :: y) : a = b ∧ x = y := by
  rcases List.append_eq_append_iff.mp h with ⟨m, h1, h2⟩ | ⟨m, h1, h2⟩
  · cases m with
    | nil => simp at h1 h2; exact ⟨h1.symm, h2⟩
    | cons z m =>
      simp at h2
      obtain ⟨rfl, rfl⟩ := h2
      simp at hx
  · cases m with
    | nil => simp at h1 h2; exact ⟨h1, h2.symm⟩
    | cons z m =>
      simp at h2
      obtain ⟨rfl, rfl⟩ := h2
      simp at hy

theorem isLower_simp (ch : Nat) : (!isUpper ch && isLower ch) = isLower ch := by
  by_cases h : 97 ≤ ch <;> simp [isUpper, isLower, h]
  omega

theorem go_noMixed (l : List Nat) (n : Nat) (up lo req : Bool) (sep : Option Nat) (p : Nat)
    (h : checkCharactersGo l n up lo req sep = some p) :
    ¬ ((up || l.any isUpper) = true ∧ (lo || l.any isLower) = true) := by
  induction l generalizing n up lo req sep with
  | nil =>
    unfold checkCharactersGo at h
    split at h
    · simp at h
    · simp_all
  | cons ch rest ih =>
    unfold checkCharactersGo at h
    simp only [isLower_simp] at h
    repeat' (split at h)
    all_goals first | (simp at h; done) | (have := ih _ _ _ _ _ h; simpa [Bool.or_assoc] using this)

theorem checkCharacters_noMixed (s : Str) (p : Nat) (h : checkCharacters s = some p) :
    ¬ (s.any isUpper = true ∧ s.any isLower = true) := by
  have := go_noMixed _ _ _ _ _ _ _ h
  simpa using this

theorem decode_noMixed (s hrp : Str) (data : List Nat) (h : decode s = some (hrp, data)) :
    ¬ (s.any isUpper = true ∧ s.any isLower = true) := by
  unfold decode at h
  cases hcc : checkCharacters s with
  | none => simp [hcc] at h
  | some sep => exact checkCharacters_noMixed s sep hcc

theorem pfx_basic (k : Kind) :
    (∀ c ∈ k.pfx, isUpper c = false) ∧ hrpParse k.pfx = true ∧ 49 ∉ k.pfx ∧ 99 ∈ k.pfx ∧
    k.pfx.length + 1 + 32 + 6 ≤ 1023 := by
  cases k <;> decide

theorem val_cons_differ : ∀ pos < 15, ∃ j < 15, j ≠ pos ∧ PREFIX_VAL[j]? ≠ PREFIX_CONS[j]? := by
  decide

theorem pfx_set_ne (k k' : Kind) (pos c : Nat) (hpos : pos < k.pfx.length) (hc : k.pfx[pos]? ≠ some c) :
    k.pfx.set pos c ≠ k'.pfx := by
  intro h
  by_cases hk : k = k'
  · subst hk
    have := congrArg (·[pos]?) h
    simp only [List.getElem?_set_self hpos] at this
    exact hc this.symm
  · have hlen := congrArg List.length h
    simp only [List.length_set] at hlen
    have key : ∀ a b : List Nat, (∀ pos < 15, ∃ j < 15, j ≠ pos ∧ a[j]? ≠ b[j]?) → a.length = 15 →
        pos < a.length → a.set pos c ≠ b := by
      intro a b hd hl hp hab
      obtain ⟨j, _, hj, hne⟩ := hd pos (by omega)
      have := congrArg (·[j]?) hab
      simp only [List.getElem?_set_ne (Ne.symm hj)] at this
      exact hne this
    cases k <;> cases k' <;> first | exact absurd rfl hk | (exact absurd hlen (by decide)) | skip
    · exact key _ _ val_cons_differ rfl hpos h
    · refine key _ _ ?_ rfl hpos h
      intro pos hp
      obtain ⟨j, h1, h2, h3⟩ := val_cons_differ pos hp
      exact ⟨j, h1, h2, Ne.symm h3⟩

theorem lowerValid_inj : ∀ c < 128, (feOfChar c).isSome = true → isUpper c = false →
    charOfFe (feOfCharUnchecked c) = c := by decide +kernel

/-- shape of a displayed address -/
theorem display_structure (k : Kind) (id : Lumina.Util.Bytes) (h : id.length = 20) :
    ∃ full : List Nat, addressToString k id = k.pfx ++ 49 :: full.map charOfFe ∧ full.length = 38 ∧
      (∀ x ∈ full, x < 32) ∧ inputFes (inputHrp k.pfx) full = BECH32_TARGET := by
  obtain ⟨h1, -, -, -, -⟩ := pfx_basic k
  have hd : ∀ b ∈ id.map UInt8.toNat, b < 256 := by
    intro b hb
    obtain ⟨x, _, rfl⟩ := List.mem_map.mp hb
    exact x.toNat_lt
  refine ⟨bytesToFes (id.map UInt8.toNat) ++ checksumFes BECH32_TARGET k.pfx (bytesToFes (id.map UInt8.toNat)),
    ?_, ?_, ?_, ?_⟩
  · simp [addressToString, encode, map_toLower_of_noUpper _ h1]
  · simp [bytesToFes_length, h, checksumFes_length]
  · intro x hx
    rcases List.mem_append.mp hx with hx | hx
    · exact bytesToFes_lt _ hd x hx
    · exact checksumFes_lt _ _ _ x hx
  · rw [inputFes_append]
    exact checksum_verifies _ _ (by decide)

/-- **every single-character corruption of a displayed address is rejected** -/
theorem corrupt_rejected (k : Kind) (id : Lumina.Util.Bytes) (h : id.length = 20) (pos c : Nat)
    (hpos : pos < (addressToString k id).length) (hc : (addressToString k id)[pos]? ≠ some c) :
    ∃ e, stringToKindAndId ((addressToString k id).set pos c) = .error e := by
  obtain ⟨full, hs, hflen, hflt, hfres⟩ := display_structure k id h
  rw [hs] at hpos hc ⊢
  generalize hD : full.map charOfFe = d at *
  have hdlen : d.length = 38 := by rw [← hD]; simpa using hflen
  have hd49 : 49 ∉ d := by
    rw [← hD]; intro hm
    obtain ⟨v, hv, he⟩ := List.mem_map.mp hm
    exact (charOfFe_facts v (hflt v hv)).2.2.1 he
  cases hst : stringToKindAndId ((k.pfx ++ 49 :: d).set pos c) with
  | error e => exact ⟨e, rfl⟩
  | ok r =>
    exfalso
    obtain ⟨k', id'⟩ := r
    unfold stringToKindAndId at hst
    cases hdec : decode ((k.pfx ++ 49 :: d).set pos c) with
    | none => simp [hdec] at hst
    | some hd =>
      obtain ⟨hrp, data⟩ := hd
      simp only [hdec] at hst
      cases hko : kindOfStr hrp with
      | none => simp [hko] at hst
      | some k2 =>
        have hrp_eq := kindOfStr_some hrp k2 hko
        subst hrp_eq
        obtain ⟨d', hs', hvalid', -, hres', -⟩ := decode_some _ _ _ hdec
        have hnm := decode_noMixed _ _ _ hdec
        have hd'49 : 49 ∉ d' := fun hm => (validChar 49 (hvalid' 49 hm)).2.2.2 rfl
        obtain ⟨hk1, -, hk49, hk99, -⟩ := pfx_basic k
        obtain ⟨-, -, hk249, -, -⟩ := pfx_basic k2
        by_cases hp1 : pos < k.pfx.length
        · -- a prefix character
          rw [List.set_append_left _ _ hp1] at hs'
          obtain ⟨hp, -⟩ := split_unique _ _ _ _ hd49 hd'49 hs'
          refine pfx_set_ne k k2 pos c hp1 ?_ hp
          rwa [List.getElem?_append_left hp1] at hc
        · by_cases hp2 : pos = k.pfx.length
          · -- the separator
            subst hp2
            rw [List.set_append_right _ _ (Nat.le_refl _)] at hs'
            simp only [Nat.sub_self, List.set_cons_zero] at hs'
            have hc49 : c ≠ 49 := by
              intro hc'; subst hc'
              apply hc
              rw [List.getElem?_append_right (Nat.le_refl _)]; simp
            have : 49 ∈ k.pfx ++ c :: d := by rw [hs']; simp
            rcases List.mem_append.mp this with hm | hm
            · exact hk49 hm
            · rcases List.mem_cons.mp hm with hm | hm
              · exact hc49 hm.symm
              · exact hd49 hm
          · -- a data / checksum character
            have hle : k.pfx.length ≤ pos := by omega
            obtain ⟨i, hi⟩ : ∃ i, pos = k.pfx.length + 1 + i := ⟨pos - k.pfx.length - 1, by omega⟩
            subst hi
            have hi38 : i < 38 := by
              simp only [List.length_append, List.length_cons, hdlen] at hpos; omega
            have hsetEq : (k.pfx ++ 49 :: d).set (k.pfx.length + 1 + i) c = k.pfx ++ 49 :: d.set i c := by
              rw [List.set_append_right _ _ hle,
                show k.pfx.length + 1 + i - k.pfx.length = i + 1 by omega, List.set_cons_succ]
            rw [hsetEq] at hs' hnm
            have hci : d[i]? ≠ some c := by
              rw [List.getElem?_append_right hle,
                show k.pfx.length + 1 + i - k.pfx.length = i + 1 by omega] at hc
              simpa using hc
            by_cases hc49 : c = 49
            · subst hc49
              rw [List.set_eq_take_append_cons_drop, if_pos (by omega)] at hs'
              have hdr : 49 ∉ d.drop (i + 1) := fun hm => hd49 (List.mem_of_mem_drop hm)
              rw [show k.pfx ++ 49 :: (List.take i d ++ 49 :: List.drop (i + 1) d)
                = (k.pfx ++ 49 :: List.take i d) ++ 49 :: List.drop (i + 1) d by simp] at hs'
              obtain ⟨hp, -⟩ := split_unique _ _ _ _ hdr hd'49 hs'
              apply hk249
              rw [← hp]; simp
            · have hset49 : 49 ∉ d.set i c := by
                intro hm
                rcases List.mem_or_eq_of_mem_set hm with hm | hm
                · exact hd49 hm
                · exact hc49 hm.symm
              obtain ⟨hp, hdd⟩ := split_unique _ _ _ _ hset49 hd'49 hs'
              subst hdd
              have hcmem : c ∈ d.set i c := List.mem_set (by omega) c
              have hcv := hvalid' c hcmem
              obtain ⟨hcfe, -, -, -⟩ := validChar c hcv
              -- no mixed case: the prefix is lower case, so `c` is not an upper-case letter
              have hcu : isUpper c = false := by
                cases hu : isUpper c with
                | false => rfl
                | true =>
                  exfalso; apply hnm
                  constructor
                  · rw [List.any_eq_true]
                    exact ⟨c, by simp [hcmem], hu⟩
                  · rw [List.any_eq_true]
                    exact ⟨99, by simp [hk99], by decide⟩
              have hc128 : c < 128 := by
                by_cases hlt : c < 128
                · exact hlt
                · rw [feOfChar_ge c (by omega)] at hcv; simp at hcv
              have hfi : full[i]'(by omega) ≠ feOfCharUnchecked c := by
                intro heq
                apply hci
                have : d[i]? = some (charOfFe (full[i]'(by omega))) := by
                  rw [← hD]; simp [hflen, hi38]
                rw [this, heq, lowerValid_inj c hc128 hcv hcu]
              have hmap : (d.set i c).map feOfCharUnchecked = full.set i (feOfCharUnchecked c) := by
                rw [List.map_set, ← hD, map_unchecked_charOfFe _ hflt]
              rw [hmap, ← hp] at hres'
              obtain ⟨r1, r2⟩ := residue_after_single_error _ full i _ hflen hflt hi38 hcfe hfi hfres
              rcases hres' with hr | hr
              · exact r2 hr
              · exact r1 hr

/-! ## the crate's 5→8 regrouping is the bit-string regrouping of the spec -/

theorem fesToBytes_eq_regroup8 (fs : List Nat) (h : ∀ f ∈ fs, f < 32) : fesToBytes fs = Lumina.Spec.C47.regroup8 fs := by
  unfold Lumina.Spec.C47.regroup8
  fun_induction fesToBytes fs with
  | case1 f0 f1 f2 f3 f4 f5 f6 f7 rest ih =>
    simp only [List.mem_cons, forall_eq_or_imp] at h
    obtain ⟨h0, h1, h2, h3, h4, h5, h6, h7, hr⟩ := h
    simp only [List.flatMap_cons, Lumina.Spec.C47.bits5, List.cons_append, List.nil_append, Lumina.Spec.C47.bytesOfBits, ← ih hr,
      List.cons.injEq, and_true]
    omega
  | case2 f0 f1 f2 f3 f4 f5 f6 =>
    simp only [List.mem_cons, forall_eq_or_imp] at h
    obtain ⟨h0, h1, h2, h3, h4, h5, h6, -⟩ := h
    simp only [List.flatMap_cons, List.flatMap_nil, Lumina.Spec.C47.bits5, List.cons_append, List.nil_append, List.append_nil,
      Lumina.Spec.C47.bytesOfBits, List.cons.injEq, and_true]
    omega
  | case3 f0 f1 f2 f3 f4 f5 =>
    simp only [List.mem_cons, forall_eq_or_imp] at h
    obtain ⟨h0, h1, h2, h3, h4, h5, -⟩ := h
    simp only [List.flatMap_cons, List.flatMap_nil, Lumina.Spec.C47.bits5, List.cons_append, List.nil_append, List.append_nil,
      Lumina.Spec.C47.bytesOfBits, List.cons.injEq, and_true]
    omega
  | case4 f0 f1 f2 f3 f4 =>
    simp only [List.mem_cons, forall_eq_or_imp] at h
    obtain ⟨h0, h1, h2, h3, h4, -⟩ := h
    simp only [List.flatMap_cons, List.flatMap_nil, Lumina.Spec.C47.bits5, List.cons_append, List.nil_append, List.append_nil,
      Lumina.Spec.C47.bytesOfBits, List.cons.injEq, and_true]
    omega
  | case5 f0 f1 f2 f3 =>
    simp only [List.mem_cons, forall_eq_or_imp] at h
    obtain ⟨h0, h1, h2, h3, -⟩ := h
    simp only [List.flatMap_cons, List.flatMap_nil, Lumina.Spec.C47.bits5, List.cons_append, List.nil_append, List.append_nil,
      Lumina.Spec.C47.bytesOfBits, List.cons.injEq, and_true]
    omega
  | case6 f0 f1 f2 =>
    simp only [List.mem_cons, forall_eq_or_imp] at h
    obtain ⟨h0, h1, h2, -⟩ := h
    simp only [List.flatMap_cons, List.flatMap_nil, Lumina.Spec.C47.bits5, List.cons_append, List.nil_append, List.append_nil,
      Lumina.Spec.C47.bytesOfBits, List.cons.injEq, and_true]
    omega
  | case7 f0 f1 =>
    simp only [List.mem_cons, forall_eq_or_imp] at h
    obtain ⟨h0, h1, -⟩ := h
    simp only [List.flatMap_cons, List.flatMap_nil, Lumina.Spec.C47.bits5, List.cons_append, List.nil_append, List.append_nil,
      Lumina.Spec.C47.bytesOfBits, List.cons.injEq, and_true]
    omega
  | case8 f0 => simp [Lumina.Spec.C47.bits5, Lumina.Spec.C47.bytesOfBits]
  | case9 => simp [Lumina.Spec.C47.bytesOfBits]

/-! ## the three prefixes -/

open Lumina.Spec.C47 (K) in
def specKind : Kind → K
  | .account => .account | .validator => .validator | .consensus => .consensus


theorem pfx_facts (k : Kind) :
    (∀ c ∈ k.pfx, isUpper c = false) ∧ hrpParse k.pfx = true ∧ kindOfStr k.pfx = some k ∧
    k.pfx.length + 1 + 32 + 6 ≤ 1023 ∧ (specKind k).pfx = k.pfx ∧
    hrpFes k.pfx = Lumina.Spec.C47.hrpExpand k.pfx ∧ (∀ x ∈ hrpFes k.pfx, x < 32) := by
  cases k <;> decide

theorem map_toNat_lt (id : Lumina.Util.Bytes) : ∀ b ∈ id.map UInt8.toNat, b < 256 := by
  intro b hb
  obtain ⟨x, _, rfl⟩ := List.mem_map.mp hb
  exact x.toNat_lt

theorem map_ofNat_toNat (id : Lumina.Util.Bytes) : (id.map UInt8.toNat).map UInt8.ofNat = id := by
  induction id with
  | nil => rfl
  | cons b id ih => simp [ih]


end Lumina.Proofs.Bech32

/-
  Lemmas for C38 (`Lumina/Model/SyncerLoop.lean`): propagation of "is on the honest chain"
  along internally verified spans, insertion into the abstract store keeps the store on the
  honest chain, the fetch decision only schedules batches with a stored neighbour, the
  convergence variant.

  Core Lean only.
-/
import Lumina.Model.SyncerLoop
import Lumina.Proofs.SyncerGate
import Lumina.Proofs.StoreAbs

namespace Lumina.Proofs.SyncerLoop
open Lumina.Model.Store (Hdr)
open Lumina.Spec.C19
open Lumina.Model.SyncerLoop
open Lumina.Proofs.Store

/-- `x` is (a validated copy of) the honest chain's header of its height: same hash -/
def OnChain (c : Nat → Hdr) (x : Hdr) : Prop := x.valid = true ∧ x.hash = (c x.height).hash

def AllOnChain (c : Nat → Hdr) (a : AbsStore) : Prop := ∀ x ∈ a.hdrs, OnChain c x

/-- backward binding of `verify` for adjacent headers: the untrusted header commits to the hash
    of its parent (`last_header_hash`), the honest chain is hash-linked and the hash is
    collision-free — so the parent of an honest header is honest -/
def LinkDown (v : Hdr → Hdr → Bool) (c : Nat → Hdr) : Prop :=
  ∀ a b, v a b = true → a.height + 1 = b.height → a.valid = true → OnChain c b → OnChain c a

/-- forward binding of `verify` for adjacent headers: a VALIDATED child (more than 2/3 of the
    validator set fixed by its honest parent signed it) of an honest header is honest
    (consensus safety: at most one block per height gets that quorum) -/
def LinkUp (v : Hdr → Hdr → Bool) (c : Nat → Hdr) : Prop :=
  ∀ a b, v a b = true → a.height + 1 = b.height → b.valid = true → OnChain c a → OnChain c b

theorem chain_up {v : Hdr → Hdr → Bool} {c : Nat → Hdr} (hu : LinkUp v c) :
    ∀ (l : List Hdr) (first : Hdr), chainOK v (first :: l) = true → (∀ x ∈ first :: l, x.valid = true) →
      OnChain c first → ∀ x ∈ first :: l, OnChain c x
  | [], first, _, _, hf => by intro x hx; simp at hx; subst hx; exact hf
  | b :: rest, first, hc, hv, hf => by
    simp only [chainOK, Bool.and_eq_true, beq_iff_eq] at hc
    obtain ⟨⟨h1, h2⟩, h3⟩ := hc
    have hb : OnChain c b := hu first b h2 h1 (hv b (by simp)) hf
    intro x hx
    rcases List.mem_cons.1 hx with rfl | hx
    · exact hf
    · exact chain_up hu rest b h3 (fun y hy => hv y (List.mem_cons_of_mem _ hy)) hb x hx

theorem chain_down {v : Hdr → Hdr → Bool} {c : Nat → Hdr} (hd : LinkDown v c) :
    ∀ (l : List Hdr), chainOK v l = true → (∀ x ∈ l, x.valid = true) →
      (∀ last, l.getLast? = some last → OnChain c last) → ∀ x ∈ l, OnChain c x
  | [], _, _, _ => by intro x hx; cases hx
  | [a], _, _, hl => by
    intro x hx; simp at hx; subst hx; exact hl x (by simp)
  | a :: b :: rest, hc, hv, hl => by
    simp only [chainOK, Bool.and_eq_true, beq_iff_eq] at hc
    obtain ⟨⟨h1, h2⟩, h3⟩ := hc
    have ih := chain_down hd (b :: rest) h3 (fun y hy => hv y (List.mem_cons_of_mem _ hy))
      (fun last hlast => hl last (by simpa [List.getLast?_cons_cons] using hlast))
    intro x hx
    rcases List.mem_cons.1 hx with rfl | hx
    · exact hd x b h2 h1 (hv x (by simp)) (ih b (by simp))
    · exact ih x hx

theorem atHeight_mem {a : AbsStore} {h : Nat} {p : Hdr} (hp : a.atHeight h = some p) :
    p ∈ a.hdrs ∧ p.height = h := by
  unfold AbsStore.atHeight at hp
  exact ⟨List.mem_of_find?_eq_some hp, by simpa using List.find?_some hp⟩

/-- the batch `[lo, hi]` has a stored neighbour -/
def NbStored (a : AbsStore) (lo hi : Nat) : Prop := a.stored (lo - 1) = true ∨ a.stored (hi + 1) = true

/-- **Insertion keeps the store on the honest chain**: a batch of validated headers accepted by
    the store (internally linked, verified against the stored neighbours: C21) consists of
    honest headers, provided it has a stored neighbour at all, or it is trusted as a whole. -/
theorem insert_onchain {v : Hdr → Hdr → Bool} {c : Nat → Hdr} (hd : LinkDown v c) (hu : LinkUp v c)
    (a : AbsStore) (batch : List Hdr) (hall : AllOnChain c a) (hval : ∀ x ∈ batch, x.valid = true)
    (hn : (∀ x ∈ batch, OnChain c x) ∨
      (∀ first last, batch.head? = some first → batch.getLast? = some last →
        NbStored a first.height last.height)) :
    AllOnChain c (a.insert v batch).1 := by
  cases hc : AbsStore.insertCheck v a batch with
  | error e => simp only [AbsStore.insert, hc]; exact hall
  | ok o =>
    cases o with
    | none => simp only [AbsStore.insert, hc]; exact hall
    | some p =>
      obtain ⟨lo, hi'⟩ := p
      rw [insert_eq_added v a batch lo hi' hc]
      obtain ⟨first, last, ok, e1, e2⟩ := insertCheck_some v a batch lo hi' hc
      subst e1 e2
      have hbatch : ∀ x ∈ batch, OnChain c x := by
        rcases hn with ht | hnb
        · exact ht
        · obtain ⟨rest, rfl⟩ : ∃ rest, batch = first :: rest := by
            cases batch with
            | nil => exact absurd ok.hd (by simp)
            | cons b rest =>
              have := ok.hd; simp at this; subst this; exact ⟨rest, rfl⟩
          rcases hnb first last ok.hd ok.lst with hp | hnx
          · -- stored header just below: forward link, then up the batch
            obtain ⟨p, hp'⟩ := Option.isSome_iff_exists.1 (by simpa [AbsStore.stored] using hp)
            obtain ⟨hpm, hph⟩ := atHeight_mem hp'
            have hv1 := ok.prev p hp'
            have hfirst : OnChain c first :=
              hu p first hv1 (by have := ok.lo_pos; omega) (hval first (by simp)) (hall p hpm)
            exact chain_up hu rest first ok.chain hval hfirst
          · -- stored header just above: backward link, then down the batch
            obtain ⟨n, hn'⟩ := Option.isSome_iff_exists.1 (by simpa [AbsStore.stored] using hnx)
            obtain ⟨hnm, hnh⟩ := atHeight_mem hn'
            have hv1 := ok.next n hn'
            have hlast : OnChain c last :=
              hd last n hv1 (by omega) (hval last (List.mem_of_getLast? ok.lst)) (hall n hnm)
            exact chain_down hd (first :: rest) ok.chain hval
              (fun l hl => by rw [ok.lst] at hl; injection hl with hl; subst hl; exact hlast)
      intro x hx
      simp only [added, List.mem_append] at hx
      rcases hx with hx | hx
      · exact hall x hx
      · exact hbatch x hx

/-
  Lemmas for C38 (`Lumina/Model/SyncerLoop.lean`): propagation of "is on the honest chain"
  along internally verified spans, insertion into the abstract store keeps the store on the
  honest chain, the fetch decision only schedules batches with a stored neighbour, the
  convergence variant.

  Core Lean only.
-/
import Lumina.Model.SyncerLoop
import Lumina.Proofs.SyncerGate
import Lumina.Proofs.StoreAbs

namespace Lumina.Proofs.SyncerLoop
open Lumina.Model.Store (Hdr)
open Lumina.Spec.C19
open Lumina.Model.SyncerLoop
open Lumina.Proofs.Store

/-- `x` is (a validated copy of) the honest chain's header of its height: same hash -/
def OnChain (c : Nat → Hdr) (x : Hdr) : Prop := x.valid = true ∧ x.hash = (c x.height).hash

def AllOnChain (c : Nat → Hdr) (a : AbsStore) : Prop := ∀ x ∈ a.hdrs, OnChain c x

/-- backward binding of `verify` for adjacent headers: the untrusted header commits to the hash
    of its parent (`last_header_hash`), the honest chain is hash-linked and the hash is
    collision-free — so the parent of an honest header is honest -/
def LinkDown (v : Hdr → Hdr → Bool) (c : Nat → Hdr) : Prop :=
  ∀ a b, v a b = true → a.height + 1 = b.height → a.valid = true → OnChain c b → OnChain c a

/-- forward binding of `verify` for adjacent headers: a VALIDATED child (more than 2/3 of the
    validator set fixed by its honest parent signed it) of an honest header is honest
    (consensus safety: at most one block per height gets that quorum) -/
def LinkUp (v : Hdr → Hdr → Bool) (c : Nat → Hdr) : Prop :=
  ∀ a b, v a b = true → a.height + 1 = b.height → b.valid = true → OnChain c a → OnChain c b

theorem chain_up {v : Hdr → Hdr → Bool} {c : Nat → Hdr} (hu : LinkUp v c) :
    ∀ (l : List Hdr) (first : Hdr), chainOK v (first :: l) = true → (∀ x ∈ first :: l, x.valid = true) →
      OnChain c first → ∀ x ∈ first :: l, OnChain c x
  | [], first, _, _, hf => by intro x hx; simp at hx; subst hx; exact hf
  | b :: rest, first, hc, hv, hf => by
    simp only [chainOK, Bool.and_eq_true, beq_iff_eq] at hc
    obtain ⟨⟨h1, h2⟩, h3⟩ := hc
    have hb : OnChain c b := hu first b h2 h1 (hv b (by simp)) hf
    intro x hx
    rcases List.mem_cons.1 hx with rfl | hx
    · exact hf
    · exact chain_up hu rest b h3 (fun y hy => hv y (List.mem_cons_of_mem _ hy)) hb x hx

theorem chain_down {v : Hdr → Hdr → Bool} {c : Nat → Hdr} (hd : LinkDown v c) :
    ∀ (l : List Hdr), chainOK v l = true → (∀ x ∈ l, x.valid = true) →
      (∀ last, l.getLast? = some last → OnChain c last) → ∀ x ∈ l, OnChain c x
  | [], _, _, _ => by intro x hx; cases hx
  | [a], _, _, hl => by
    intro x hx; simp at hx; subst hx; exact hl x (by simp)
  | a :: b :: rest, hc, hv, hl => by
    simp only [chainOK, Bool.and_eq_true, beq_iff_eq] at hc
    obtain ⟨⟨h1, h2⟩, h3⟩ := hc
    have ih := chain_down hd (b :: rest) h3 (fun y hy => hv y (List.mem_cons_of_mem _ hy))
      (fun last hlast => hl last (by simpa [List.getLast?_cons_cons] using hlast))
    intro x hx
    rcases List.mem_cons.1 hx with rfl | hx
    · exact hd x b h2 h1 (hv x (by simp)) (ih b (by simp))
    · exact ih x hx

theorem atHeight_mem {a : AbsStore} {h : Nat} {p : Hdr} (hp : a.atHeight h = some p) :
    p ∈ a.hdrs ∧ p.height = h := by
  unfold AbsStore.atHeight at hp
  exact ⟨List.mem_of_find?_eq_some hp, by simpa using List.find?_some hp⟩

/-- the batch `[lo, hi]` has a stored neighbour -/
def NbStored (a : AbsStore) (lo hi : Nat) : Prop := a.stored (lo - 1) = true ∨ a.stored (hi + 1) = true

/-- **Insertion keeps the store on the honest chain**: a batch of validated headers accepted by
    the store (internally linked, verified against the stored neighbours: C21) consists of
    honest headers, provided it has a stored neighbour at all, or it is trusted as a whole. -/
theorem insert_onchain {v : Hdr → Hdr → Bool} {c : Nat → Hdr} (hd : LinkDown v c) (hu : LinkUp v c)
    (a : AbsStore) (batch : List Hdr) (hall : AllOnChain c a) (hval : ∀ x ∈ batch, x.valid = true)
    (hn : (∀ x ∈ batch, OnChain c x) ∨
      (∀ first last, batch.head? = some first → batch.getLast? = some last →
        NbStored a first.height last.height)) :
    AllOnChain c (a.insert v batch).1 := by
  cases hc : AbsStore.insertCheck v a batch with
  | error e => simp only [AbsStore.insert, hc]; exact hall
  | ok o =>
    cases o with
    | none => simp only [AbsStore.insert, hc]; exact hall
    | some p =>
      obtain ⟨lo, hi'⟩ := p
      rw [insert_eq_added v a batch lo hi' hc]
      obtain ⟨first, last, ok, e1, e2⟩ := insertCheck_some v a batch lo hi' hc
      subst e1 e2
      have hbatch : ∀ x ∈ batch, OnChain c x := by
        rcases hn with ht | hnb
        · exact ht
        · obtain ⟨rest, rfl⟩ : ∃ rest, batch = first :: rest := by
            cases batch with
            | nil => exact absurd ok.hd (by simp)
            | cons b rest =>
              have := ok.hd; simp at this; subst this; exact ⟨rest, rfl⟩
          rcases hnb first last ok.hd ok.lst with hp | hnx
          · -- stored header just below: forward link, then up the batch
            obtain ⟨p, hp'⟩ := Option.isSome_iff_exists.1 (by simpa [AbsStore.stored] using hp)
            obtain ⟨hpm, hph⟩ := atHeight_mem hp'
            have hv1 := ok.prev p hp'
            have hfirst : OnChain c first :=
              hu p first hv1 (by have := ok.lo_pos; omega) (hval first (by simp)) (hall p hpm)
            exact chain_up hu rest first ok.chain hval hfirst
          · -- stored header just above: backward link, then down the batch
            obtain ⟨n, hn'⟩ := Option.isSome_iff_exists.1 (by simpa [AbsStore.stored] using hnx)
            obtain ⟨hnm, hnh⟩ := atHeight_mem hn'
            have hv1 := ok.next n hn'
            have hlast : OnChain c last :=
              hd last n hv1 (by omega) (hval last (List.mem_of_getLast? ok.lst)) (hall n hnm)
            exact chain_down hd (first :: rest) ok.chain hval
              (fun l hl => by rw [ok.lst] at hl; injection hl with hl; subst hl; exact hlast)
      intro x hx
      simp only [added, List.mem_append] at hx
      rcases hx with hx | hx
      · exact hall x hx
      · exact hbatch x hx

/-! ### the store's range sets -/

local notation "RInv" => Lumina.Model.Ranges.Inv
open Lumina.Model.Ranges (mem)

theorem sup_le_of {l : List Nat} {b : Nat} (h : ∀ x ∈ l, x ≤ b) : sup l ≤ b := by
  by_cases e : l = []
  · subst e; simp [sup]
  · exact h _ (sup_mem l e)

theorem storedRanges_spec {a : AbsStore} (hi : AbsInv a) :
    RInv a.storedRanges ∧ ∀ h, mem a.storedRanges h ↔ a.stored h = true := by
  have h0 : a.stored 0 = false := by
    rw [stored_false_iff]; intro x hx e; have := (hi.bounds x hx).1; omega
  have hb : sup (a.hdrs.map (·.height)) ≤ Lumina.Model.Ranges.U64_MAX :=
    sup_le_of (fun x hx => by
      obtain ⟨y, hy, e⟩ := List.mem_map.1 hx
      rw [← e]; exact (hi.bounds y hy).2)
  obtain ⟨i1, m1⟩ := rangesOf_inv a.stored _ h0 hb
  refine ⟨i1, fun h => ?_⟩
  unfold AbsStore.storedRanges
  rw [m1 h]
  constructor
  · exact fun hp => hp.2
  · intro hs
    refine ⟨?_, hs⟩
    obtain ⟨x, hx, e⟩ := (stored_iff a h).1 hs
    exact mem_sup _ h (by rw [← e]; exact List.mem_map_of_mem hx)

theorem prunedRanges_spec {a : AbsStore} (hi : AbsInv a) :
    RInv a.prunedRanges ∧ ∀ h, mem a.prunedRanges h ↔ h ∈ a.pruned := by
  have h0 : a.isPruned 0 = false := by
    cases hc : a.isPruned 0 with
    | false => rfl
    | true =>
      have : 0 ∈ a.pruned := by simpa [AbsStore.isPruned] using hc
      have := (hi.prunedB 0 this).1; omega
  have hb : sup a.pruned ≤ Lumina.Model.Ranges.U64_MAX := sup_le_of (fun x hx => (hi.prunedB x hx).2)
  obtain ⟨i1, m1⟩ := rangesOf_inv a.isPruned _ h0 hb
  refine ⟨i1, fun h => ?_⟩
  unfold AbsStore.prunedRanges
  rw [m1 h]
  constructor
  · intro hp; simpa [AbsStore.isPruned] using hp.2
  · intro hs
    exact ⟨mem_sup _ h hs, by simpa [AbsStore.isPruned] using hs⟩

/-- nothing was pruned above the stored head: the highest synced height is stored -/
def TopStored (a : AbsStore) : Prop := ∀ p ∈ a.pruned, ∃ x ∈ a.hdrs, p < x.height

open Lumina.Model.SyncerGate (fetchDecision Decision) in
open Lumina.Proofs.SyncerGate Lumina.Proofs.Ranges in
/-- **The fetch decision only schedules batches that touch a stored header** (so that the store
    verifies them against a neighbour: no batch is taken on faith), in every state whose highest
    synced height is stored and whose head is only set once something is stored. -/
theorem request_has_stored_neighbour {e : Env} {s : State} {r : Lumina.Model.Ranges.Range}
    (hi : AbsInv s.store) (htop : TopStored s.store) (hne : s.store.hdrs ≠ [])
    (h : fetchDecision e.slowMin (gateIn e s) = .ok (.request r)) :
    1 ≤ r.1 ∧ r.1 ≤ r.2 ∧ NbStored s.store r.1 r.2 := by
  obtain ⟨ist, mst⟩ := storedRanges_spec hi
  obtain ⟨ipr, mpr⟩ := prunedRanges_spec hi
  obtain ⟨head, synced, _, _, hadd, hcalc, hnemp, _, hgate⟩ := request_cases h
  simp only [gateIn] at hadd hcalc hgate
  obtain ⟨c, hc, hci, hcm⟩ := add_spec ipr ist
  rw [hadd] at hc
  injection hc with hc
  subst hc
  obtain ⟨h1, h2, hshape⟩ := calc_cases hci hcalc hnemp
  refine ⟨h1, h2, ?_⟩
  rcases hshape with ⟨habove, _, htopm⟩ | ⟨hbound, _⟩
  · -- forward batch: it starts right above the highest synced height, which is stored
    left
    rcases htopm with hnil | hm
    · exfalso
      subst hnil
      cases hh : s.store.hdrs with
      | nil => exact hne hh
      | cons x rest =>
        have : s.store.stored x.height = true := (stored_iff _ _).2 ⟨x, by rw [hh]; simp, rfl⟩
        exact mem_nil _ ((hcm _).2 (Or.inr ((mst _).2 this)))
    · rcases (hcm _).1 hm with hp | hs
      · exfalso
        obtain ⟨x, hx, hlt⟩ := htop _ ((mpr _).1 hp)
        have : mem synced x.height := (hcm _).2 (Or.inr ((mst _).2 ((stored_iff _ _).2 ⟨x, hx, rfl⟩)))
        have := habove _ this
        omega
      · exact (mst _).1 hs
  · -- backward batch: the gate only lets it through when the height just above it is stored
    right
    rcases hgate with ⟨hcs, _⟩ | ⟨_, hnp⟩
    · exact (mst _).1 ((contains_iff_mem _ _).1 hcs)
    · have : Lumina.Model.Ranges.contains synced (r.2 + 1) = true := (contains_iff_mem _ _).2 hbound
      simp [this] at hnp

/-! ### monotonicity of insertion -/

theorem insert_hdrs_sub (v : Hdr → Hdr → Bool) (a : AbsStore) (b : List Hdr) :
    ∀ x ∈ a.hdrs, x ∈ (a.insert v b).1.hdrs := by
  intro x hx
  unfold AbsStore.insert
  split
  · exact hx
  · exact hx
  · simp only [List.mem_append]; exact Or.inl hx

theorem insert_pruned_sub (v : Hdr → Hdr → Bool) (a : AbsStore) (b : List Hdr) :
    ∀ p ∈ (a.insert v b).1.pruned, p ∈ a.pruned := by
  intro p hp
  unfold AbsStore.insert at hp
  split at hp
  · exact hp
  · exact hp
  · exact (List.mem_filter.1 hp).1

theorem insert_stored_mono (v : Hdr → Hdr → Bool) (a : AbsStore) (b : List Hdr) (h : Nat)
    (hs : a.stored h = true) : (a.insert v b).1.stored h = true := by
  obtain ⟨x, hx, e⟩ := (stored_iff a h).1 hs
  exact (stored_iff _ h).2 ⟨x, insert_hdrs_sub v a b x hx, e⟩

theorem insert_top (v : Hdr → Hdr → Bool) (a : AbsStore) (b : List Hdr) (ht : TopStored a) :
    TopStored (a.insert v b).1 := by
  intro p hp
  obtain ⟨x, hx, hlt⟩ := ht p (insert_pruned_sub v a b p hp)
  exact ⟨x, insert_hdrs_sub v a b x hx, hlt⟩

theorem insert_nonempty (v : Hdr → Hdr → Bool) (a : AbsStore) (b : List Hdr) (hne : a.hdrs ≠ []) :
    (a.insert v b).1.hdrs ≠ [] := by
  cases hh : a.hdrs with
  | nil => exact absurd hh hne
  | cons x rest =>
    intro hc
    have := insert_hdrs_sub v a b x (by rw [hh]; simp)
    rw [hc] at this
    cases this

/-- a successful insertion of a single header leaves a non-empty store -/
theorem insert_single_ok_nonempty (v : Hdr → Hdr → Bool) (a : AbsStore) (h : Hdr) (o : Lumina.Model.Store.Out)
    (hr : (a.insert v [h]).2 = .ok o) : (a.insert v [h]).1.hdrs ≠ [] := by
  unfold AbsStore.insert at hr ⊢
  split at hr
  · cases hr
  · rename_i hc
    have := insertCheck_none v a [h] hc
    cases this
  · simp

/-! ### the invariant of the worker -/

/-- typing: heights are `u64` -/
def HdrWf (x : Hdr) : Prop := x.height ≤ Lumina.Model.Store.U64_MAX

structure Inv (c : Nat → Hdr) (s : State) : Prop where
  /-- SAFETY: every stored header is the honest chain's header of its height -/
  onchain : AllOnChain c s.store
  abs : AbsInv s.store
  top : TopStored s.store
  headSet : ∀ h, s.head = some h → s.store.hdrs ≠ []
  connected : s.phase = .connected → s.store.hdrs ≠ []
  /-- the ongoing batch touches a stored header -/
  ongoingNb : ∀ r, s.ongoing = some r → 1 ≤ r.1 ∧ r.1 ≤ r.2 ∧ NbStored s.store r.1 r.2

/-- what the environment is assumed to hand to the worker -/
def EvOk (v : Hdr → Hdr → Bool) (c : Nat → Hdr) (s : State) : Ev → Prop
  | .netHead h => OnChain c h ∧ HdrWf h          -- the head reported by TRUSTED peers is honest
  | .headerSub h => OnChain c h ∧ HdrWf h        -- header-sub only forwards verified heads
  | .batch (some hs) =>                           -- what the p2p layer accepts (C26, C28, internal linking)
    (∀ r, s.ongoing = some r → p2pAccepts v r hs = true) ∧ ∀ x ∈ hs, HdrWf x
  | _ => True

theorem inv_of_eq {c : Nat → Hdr} {s s' : State} (hi : Inv c s) (h1 : s'.store = s.store)
    (h2 : s'.head = s.head) (h3 : s'.ongoing = s.ongoing) (h4 : s'.phase = s.phase) : Inv c s' :=
  ⟨by rw [AllOnChain, h1]; exact hi.onchain, by rw [h1]; exact hi.abs, by rw [h1]; exact hi.top,
   by rw [h1, h2]; exact hi.headSet, by rw [h1, h4]; exact hi.connected, by rw [h1, h3]; exact hi.ongoingNb⟩

theorem inv_setHead {c : Nat → Hdr} {s : State} (hi : Inv c s) (hne : s.store.hdrs ≠ []) (h : Nat) :
    Inv c (setHead s h) := by
  unfold setHead
  split
  · split
    · exact hi
    · exact ⟨hi.onchain, hi.abs, hi.top, fun _ _ => hne, hi.connected, hi.ongoingNb⟩
  · exact ⟨hi.onchain, hi.abs, hi.top, fun _ _ => hne, hi.connected, hi.ongoingNb⟩

theorem setHead_store (s : State) (h : Nat) : (setHead s h).store = s.store := by
  unfold setHead
  split
  · split <;> rfl
  · rfl

theorem setHead_phase (s : State) (h : Nat) : (setHead s h).phase = s.phase := by
  unfold setHead
  split
  · split <;> rfl
  · rfl

theorem setHead_ongoing (s : State) (h : Nat) : (setHead s h).ongoing = s.ongoing := by
  unfold setHead
  split
  · split <;> rfl
  · rfl

/-- replacing the store by the result of an insertion of validated headers that are trusted or
    have a stored neighbour -/
theorem inv_insert {v : Hdr → Hdr → Bool} {c : Nat → Hdr} (hd : LinkDown v c) (hu : LinkUp v c)
    {s : State} (hi : Inv c s) (batch : List Hdr)
    (hval : ∀ x ∈ batch, x.valid = true) (hwf : ∀ x ∈ batch, HdrWf x)
    (hn : (∀ x ∈ batch, OnChain c x) ∨
      (∀ first last, batch.head? = some first → batch.getLast? = some last →
        NbStored s.store first.height last.height)) :
    Inv c { s with store := (s.store.insert v batch).1 } :=
  ⟨insert_onchain hd hu s.store batch hi.onchain hval hn,
   insert_inv v s.store batch hi.abs hwf,
   insert_top v s.store batch hi.top,
   fun h hh => insert_nonempty v s.store batch (hi.headSet h hh),
   fun hp => insert_nonempty v s.store batch (hi.connected hp),
   fun r hr => by
     obtain ⟨h1, h2, h3⟩ := hi.ongoingNb r hr
     refine ⟨h1, h2, ?_⟩
     rcases h3 with h3 | h3
     · exact Or.inl (insert_stored_mono v s.store batch _ h3)
     · exact Or.inr (insert_stored_mono v s.store batch _ h3)⟩

open Lumina.Model.SyncerGate (fetchDecision Decision) in
theorem inv_fetch {c : Nat → Hdr} (e : Env) {s : State} (hi : Inv c s) :
    Inv c (fetchNextBatch e s).1 := by
  unfold fetchNextBatch
  split
  · rename_i r hdec
    obtain ⟨head, _, _, hhead, _⟩ := Lumina.Proofs.SyncerGate.request_cases hdec
    have hne := hi.headSet head (by simpa [gateIn] using hhead)
    have hnb := request_has_stored_neighbour hi.abs hi.top hne hdec
    exact ⟨hi.onchain, hi.abs, hi.top, hi.headSet, hi.connected,
      fun r' hr' => by injection hr' with hr'; subst hr'; exact hnb⟩
  · exact hi

theorem fetch_store (e : Env) (s : State) : (fetchNextBatch e s).1.store = s.store := by
  unfold fetchNextBatch; split <;> rfl

theorem storeHead_nonempty {a : AbsStore} {sh : Hdr} (h : storeHead a = some sh) : a.hdrs ≠ [] := by
  intro he
  simp [storeHead, AbsStore.headHeight, he] at h

/-- `try_init` with a trusted (honest) head -/
theorem inv_tryInit {v : Hdr → Hdr → Bool} {c : Nat → Hdr} (hd : LinkDown v c) (hu : LinkUp v c)
    {e : Env} (hev : e.verify = v) {s : State} (hi : Inv c s) {h : Hdr} (hh : OnChain c h) (hw : HdrWf h)
    {a' : AbsStore} (ht : tryInit e s.store h = some a') :
    Inv c { s with store := a' } ∧ a'.hdrs ≠ [] := by
  unfold tryInit at ht
  cases hti : needsInsert s.store h with
  | true =>
    rw [hti] at ht
    simp only [↓reduceIte] at ht
    split at ht
    · rename_i a2 o hins
      injection ht with ht
      subst ht
      have h1 : a2 = (s.store.insert e.verify [h]).1 := by rw [hins]
      have h2 : (s.store.insert e.verify [h]).2 = .ok o := by rw [hins]
      subst h1
      rw [hev] at h2 ⊢
      exact ⟨inv_insert hd hu hi [h] (by intro x hx; simp at hx; subst hx; exact hh.1)
        (by intro x hx; simp at hx; subst hx; exact hw)
        (Or.inl (by intro x hx; simp at hx; subst hx; exact hh)),
        insert_single_ok_nonempty v s.store h o h2⟩
    · cases ht
  | false =>
    -- the head is already the store's head
    rw [hti] at ht
    simp only [Bool.false_eq_true, ↓reduceIte] at ht
    injection ht with ht
    subst ht
    refine ⟨inv_of_eq hi rfl rfl rfl rfl, ?_⟩
    unfold needsInsert at hti
    split at hti
    · rename_i sh hsh; exact storeHead_nonempty hsh
    · cases hti

/-- **One reaction of the worker keeps the invariant** (in particular: the store stays on the
    honest chain), whatever the event, provided the environment hands over honest heads and the
    p2p layer's accepted batches are validated and internally linked. -/
theorem step_inv {v : Hdr → Hdr → Bool} {c : Nat → Hdr} (hd : LinkDown v c) (hu : LinkUp v c)
    {e : Env} (hev : e.verify = v) {s : State} (hi : Inv c s) {ev : Ev} (hok : EvOk v c s ev) :
    Inv c (step e s ev).1 := by
  cases ev with
  | peers n =>
    simp only [step]
    split
    · split
      · exact ⟨hi.onchain, hi.abs, hi.top, hi.headSet, (fun hp => by cases hp), (fun _ hr => by cases hr)⟩
      · exact inv_of_eq hi rfl rfl rfl rfl
    · exact inv_of_eq hi rfl rfl rfl rfl
  | netHead h =>
    obtain ⟨hh, hw⟩ := hok
    simp only [step]
    split
    · exact hi
    · split
      · exact hi
      · rename_i a' ht
        obtain ⟨hi1, hne⟩ := inv_tryInit hd hu hev hi hh hw ht
        have hi2 := inv_setHead hi1 hne h.height
        split
        · exact hi2
        · apply inv_fetch
          refine ⟨hi2.onchain, hi2.abs, hi2.top, hi2.headSet, fun _ => ?_, hi2.ongoingNb⟩
          simpa [setHead_store] using hne
  | headerSub h =>
    obtain ⟨hh, hw⟩ := hok
    simp only [step]
    split
    · exact hi
    · rename_i hph
      have hne : s.store.hdrs ≠ [] := hi.connected hph
      have hi1 := inv_setHead hi hne h.height
      apply inv_fetch
      split
      · split
        · rw [hev]
          exact inv_insert hd hu hi1 [h] (by intro x hx; simp at hx; subst hx; exact hh.1)
            (by intro x hx; simp at hx; subst hx; exact hw)
            (Or.inl (by intro x hx; simp at hx; subst hx; exact hh))
        · exact hi1
      · exact hi1
  | batch res =>
    simp only [step]
    split
    · rename_i r hph hon
      have hi0 : Inv c { s with ongoing := none } :=
        ⟨hi.onchain, hi.abs, hi.top, hi.headSet, hi.connected, (fun _ hr => by cases hr)⟩
      cases res with
      | none => exact inv_fetch e hi0
      | some hs =>
        obtain ⟨hacc, hwf⟩ := hok
        have hacc := hacc r hon
        apply inv_fetch
        unfold p2pAccepts at hacc
        split at hacc
        · rename_i first last hf hl
          simp only [Bool.and_eq_true, List.all_eq_true, beq_iff_eq] at hacc
          obtain ⟨⟨⟨hval, _⟩, e1⟩, e2⟩ := hacc
          obtain ⟨h1, h2, hnb⟩ := hi.ongoingNb r hon
          rw [hev]
          refine inv_of_eq (inv_insert hd hu hi0 hs hval hwf (Or.inr (fun f l hf' hl' => ?_)))
            rfl rfl rfl rfl
          rw [hf] at hf'; rw [hl] at hl'
          injection hf' with hf'; injection hl' with hl'
          subst hf' hl'
          rw [e1, e2]; exact hnb
        · cases hacc
    · exact hi

/-! ### runs -/

/-- every event of the run is admissible in the state it arrives in -/
def RunOk (v : Hdr → Hdr → Bool) (c : Nat → Hdr) (e : Env) : State → List Ev → Prop
  | _, [] => True
  | s, ev :: evs => EvOk v c s ev ∧ RunOk v c e (step e s ev).1 evs

theorem run_inv {v : Hdr → Hdr → Bool} {c : Nat → Hdr} (hd : LinkDown v c) (hu : LinkUp v c)
    {e : Env} (hev : e.verify = v) : ∀ (evs : List Ev) (s : State), Inv c s → RunOk v c e s evs →
      Inv c (run e s evs)
  | [], _, hi, _ => hi
  | ev :: evs, s, hi, hr => run_inv hd hu hev evs _ (step_inv hd hu hev hi hr.1) hr.2

theorem runOk_take {v : Hdr → Hdr → Bool} {c : Nat → Hdr} {e : Env} :
    ∀ (evs : List Ev) (s : State) (k : Nat), RunOk v c e s evs → RunOk v c e s (evs.take k)
  | [], _, _, _ => by simp [RunOk]
  | _ :: _, _, 0, _ => by simp [RunOk]
  | ev :: evs, s, k + 1, hr => ⟨hr.1, runOk_take evs _ k hr.2⟩

theorem inv_init (c : Nat → Hdr) (bs : Nat) : Inv c { batchSize := bs } where
  onchain := fun _ hx => by cases hx
  abs := absInv_init
  top := fun _ hp => by cases hp
  headSet := fun _ h => by cases h
  connected := fun h => by cases h
  ongoingNb := fun _ h => by cases h

/-! ### convergence variant -/

/-- number of heights of `[lo, hi]` that are not stored -/
def missing (a : AbsStore) (lo hi : Nat) : Nat :=
  (List.range' lo (hi + 1 - lo)).countP (fun h => !a.stored h)

theorem countP_lt_of {α} {p q : α → Bool} : ∀ {l : List α}, (∀ x ∈ l, q x = true → p x = true) →
    ∀ x ∈ l, p x = true → q x = false → l.countP q < l.countP p
  | [], _, x, hx, _, _ => by cases hx
  | y :: rest, hm, x, hx, hp, hq => by
    have hrest : rest.countP q ≤ rest.countP p :=
      List.countP_mono_left (fun z hz => hm z (List.mem_cons_of_mem _ hz))
    rcases List.mem_cons.1 hx with rfl | hx'
    · simp only [List.countP_cons, hp, hq]
      simp
      omega
    · have ih := countP_lt_of (fun z hz => hm z (List.mem_cons_of_mem _ hz)) x hx' hp hq
      simp only [List.countP_cons]
      have := hm y (by simp)
      cases hqy : q y with
      | false => cases p y <;> simp <;> omega
      | true => simp [this hqy]; omega

/-- V1: an insertion never increases the variant -/
theorem missing_insert_le (v : Hdr → Hdr → Bool) (a : AbsStore) (b : List Hdr) (lo hi : Nat) :
    missing (a.insert v b).1 lo hi ≤ missing a lo hi := by
  unfold missing
  apply List.countP_mono_left
  intro h _ hn
  cases hs : a.stored h with
  | false => rfl
  | true => rw [insert_stored_mono v a b h hs] at hn; cases hn

/-- V2: an accepted non-empty batch that starts inside `[lo, hi]` strictly decreases the variant -/
theorem missing_insert_lt (v : Hdr → Hdr → Bool) (a : AbsStore) (b : List Hdr) (lo hi l h : Nat)
    (hc : AbsStore.insertCheck v a b = .ok (some (l, h))) (h1 : lo ≤ l) (h2 : l ≤ hi) :
    missing (a.insert v b).1 lo hi < missing a lo hi := by
  obtain ⟨first, last, ok, e1, e2⟩ := insertCheck_some v a b l h hc
  subst e1 e2
  unfold missing
  apply countP_lt_of (x := first.height)
  · intro x _ hn
    cases hs : a.stored x with
    | false => rfl
    | true => rw [insert_stored_mono v a b x hs] at hn; cases hn
  · simp only [List.mem_range'_1]; omega
  · -- not stored before: the accepted span is disjoint from the stored heights
    have : a.stored first.height = false := by
      rw [stored_false_iff]
      intro x hx e
      exact ok.disjoint x hx ⟨by omega, by rw [e]; exact ok.lo_le⟩
    simp [this]
  · -- stored afterwards
    have : (a.insert v b).1.stored first.height = true := by
      rw [insert_eq_added v a b _ _ hc, stored_iff]
      exact ⟨first, by simp only [added, List.mem_append]; exact Or.inr (head_of_mem ok.hd), rfl⟩
    simp [this]

/-
  Lemmas for C38 (`Lumina/Model/SyncerLoop.lean`): propagation of "is on the honest chain"
  along internally verified spans, insertion into the abstract store keeps the store on the
  honest chain, the fetch decision only schedules batches with a stored neighbour, the
  convergence variant.

  Core Lean only.
-/
import Lumina.Model.SyncerLoop
import Lumina.Proofs.SyncerGate
import Lumina.Proofs.StoreAbs

namespace Lumina.Proofs.SyncerLoop
open Lumina.Model.Store (Hdr)
open Lumina.Spec.C19
open Lumina.Model.SyncerLoop
open Lumina.Proofs.Store

/-- `x` is (a validated copy of) the honest chain's header of its height: same hash -/
def OnChain (c : Nat → Hdr) (x : Hdr) : Prop := x.valid = true ∧ x.hash = (c x.height).hash

def AllOnChain (c : Nat → Hdr) (a : AbsStore) : Prop := ∀ x ∈ a.hdrs, OnChain c x

/-- backward binding of `verify` for adjacent headers: the untrusted header commits to the hash
    of its parent (`last_header_hash`), the honest chain is hash-linked and the hash is
    collision-free — so the parent of an honest header is honest -/
def LinkDown (v : Hdr → Hdr → Bool) (c : Nat → Hdr) : Prop :=
  ∀ a b, v a b = true → a.height + 1 = b.height → a.valid = true → OnChain c b → OnChain c a

/-- forward binding of `verify` for adjacent headers: a VALIDATED child (more than 2/3 of the
    validator set fixed by its honest parent signed it) of an honest header is honest
    (consensus safety: at most one block per height gets that quorum) -/
def LinkUp (v : Hdr → Hdr → Bool) (c : Nat → Hdr) : Prop :=
  ∀ a b, v a b = true → a.height + 1 = b.height → b.valid = true → OnChain c a → OnChain c b

theorem chain_up {v : Hdr → Hdr → Bool} {c : Nat → Hdr} (hu : LinkUp v c) :
    ∀ (l : List Hdr) (first : Hdr), chainOK v (first :: l) = true → (∀ x ∈ first :: l, x.valid = true) →
      OnChain c first → ∀ x ∈ first :: l, OnChain c x
  | [], first, _, _, hf => by intro x hx; simp at hx; subst hx; exact hf
  | b :: rest, first, hc, hv, hf => by
    simp only [chainOK, Bool.and_eq_true, beq_iff_eq] at hc
    obtain ⟨⟨h1, h2⟩, h3⟩ := hc
    have hb : OnChain c b := hu first b h2 h1 (hv b (by simp)) hf
    intro x hx
    rcases List.mem_cons.1 hx with rfl | hx
    · exact hf
    · exact chain_up hu rest b h3 (fun y hy => hv y (List.mem_cons_of_mem _ hy)) hb x hx

theorem chain_down {v : Hdr → Hdr → Bool} {c : Nat → Hdr} (hd : LinkDown v c) :
    ∀ (l : List Hdr), chainOK v l = true → (∀ x ∈ l, x.valid = true) →
      (∀ last, l.getLast? = some last → OnChain c last) → ∀ x ∈ l, OnChain c x
  | [], _, _, _ => by intro x hx; cases hx
  | [a], _, _, hl => by
    intro x hx; simp at hx; subst hx; exact hl x (by simp)
  | a :: b :: rest, hc, hv, hl => by
    simp only [chainOK, Bool.and_eq_true, beq_iff_eq] at hc
    obtain ⟨⟨h1, h2⟩, h3⟩ := hc
    have ih := chain_down hd (b :: rest) h3 (fun y hy => hv y (List.mem_cons_of_mem _ hy))
      (fun last hlast => hl last (by simpa [List.getLast?_cons_cons] using hlast))
    intro x hx
    rcases List.mem_cons.1 hx with rfl | hx
    · exact hd x b h2 h1 (hv x (by simp)) (ih b (by simp))
    · exact ih x hx

theorem atHeight_mem {a : AbsStore} {h : Nat} {p : Hdr} (hp : a.atHeight h = some p) :
    p ∈ a.hdrs ∧ p.height = h := by
  unfold AbsStore.atHeight at hp
  exact ⟨List.mem_of_find?_eq_some hp, by simpa using List.find?_some hp⟩

/-- the batch `[lo, hi]` has a stored neighbour -/
def NbStored (a : AbsStore) (lo hi : Nat) : Prop := a.stored (lo - 1) = true ∨ a.stored (hi + 1) = true

/-- **Insertion keeps the store on the honest chain**: a batch of validated headers accepted by
    the store (internally linked, verified against the stored neighbours: C21) consists of
    honest headers, provided it has a stored neighbour at all, or it is trusted as a whole. -/
theorem insert_onchain {v : Hdr → Hdr → Bool} {c : Nat → Hdr} (hd : LinkDown v c) (hu : LinkUp v c)
    (a : AbsStore) (batch : List Hdr) (hall : AllOnChain c a) (hval : ∀ x ∈ batch, x.valid = true)
    (hn : (∀ x ∈ batch, OnChain c x) ∨
      (∀ first last, batch.head? = some first → batch.getLast? = some last →
        NbStored a first.height last.height)) :
    AllOnChain c (a.insert v batch).1 := by
  cases hc : AbsStore.insertCheck v a batch with
  | error e => simp only [AbsStore.insert, hc]; exact hall
  | ok o =>
    cases o with
    | none => simp only [AbsStore.insert, hc]; exact hall
    | some p =>
      obtain ⟨lo, hi'⟩ := p
      rw [insert_eq_added v a batch lo hi' hc]
      obtain ⟨first, last, ok, e1, e2⟩ := insertCheck_some v a batch lo hi' hc
      subst e1 e2
      have hbatch : ∀ x ∈ batch, OnChain c x := by
        rcases hn with ht | hnb
        · exact ht
        · obtain ⟨rest, rfl⟩ : ∃ rest, batch = first :: rest := by
            cases batch with
            | nil => exact absurd ok.hd (by simp)
            | cons b rest =>
              have := ok.hd; simp at this; subst this; exact ⟨rest, rfl⟩
          rcases hnb first last ok.hd ok.lst with hp | hnx
          · -- stored header just below: forward link, then up the batch
            obtain ⟨p, hp'⟩ := Option.isSome_iff_exists.1 (by simpa [AbsStore.stored] using hp)
            obtain ⟨hpm, hph⟩ := atHeight_mem hp'
            have hv1 := ok.prev p hp'
            have hfirst : OnChain c first :=
              hu p first hv1 (by have := ok.lo_pos; omega) (hval first (by simp)) (hall p hpm)
            exact chain_up hu rest first ok.chain hval hfirst
          · -- stored header just above: backward link, then down the batch
            obtain ⟨n, hn'⟩ := Option.isSome_iff_exists.1 (by simpa [AbsStore.stored] using hnx)
            obtain ⟨hnm, hnh⟩ := atHeight_mem hn'
            have hv1 := ok.next n hn'
            have hlast : OnChain c last :=
              hd last n hv1 (by omega) (hval last (List.mem_of_getLast? ok.lst)) (hall n hnm)
            exact chain_down hd (first :: rest) ok.chain hval
              (fun l hl => by rw [ok.lst] at hl; injection hl with hl; subst hl; exact hlast)
      intro x hx
      simp only [added, List.mem_append] at hx
      rcases hx with hx | hx
      · exact hall x hx
      · exact hbatch x hx

/-! ### the store's range sets -/

local notation "RInv" => Lumina.Model.Ranges.Inv
open Lumina.Model.Ranges (mem)

theorem sup_le_of {l : List Nat} {b : Nat} (h : ∀ x ∈ l, x ≤ b) : sup l ≤ b := by
  by_cases e : l = []
  · subst e; simp [sup]
  · exact h _ (sup_mem l e)

theorem storedRanges_spec {a : AbsStore} (hi : AbsInv a) :
    RInv a.storedRanges ∧ ∀ h, mem a.storedRanges h ↔ a.stored h = true := by
  have h0 : a.stored 0 = false := by
    rw [stored_false_iff]; intro x hx e; have := (hi.bounds x hx).1; omega
  have hb : sup (a.hdrs.map (·.height)) ≤ Lumina.Model.Ranges.U64_MAX :=
    sup_le_of (fun x hx => by
      obtain ⟨y, hy, e⟩ := List.mem_map.1 hx
      rw [← e]; exact (hi.bounds y hy).2)
  obtain ⟨i1, m1⟩ := rangesOf_inv a.stored _ h0 hb
  refine ⟨i1, fun h => ?_⟩
  unfold AbsStore.storedRanges
  rw [m1 h]
  constructor
  · exact fun hp => hp.2
  · intro hs
    refine ⟨?_, hs⟩
    obtain ⟨x, hx, e⟩ := (stored_iff a h).1 hs
    exact mem_sup _ h (by rw [← e]; exact List.mem_map_of_mem hx)

theorem prunedRanges_spec {a : AbsStore} (hi : AbsInv a) :
    RInv a.prunedRanges ∧ ∀ h, mem a.prunedRanges h ↔ h ∈ a.pruned := by
  have h0 : a.isPruned 0 = false := by
    cases hc : a.isPruned 0 with
    | false => rfl
    | true =>
      have : 0 ∈ a.pruned := by simpa [AbsStore.isPruned] using hc
      have := (hi.prunedB 0 this).1; omega
  have hb : sup a.pruned ≤ Lumina.Model.Ranges.U64_MAX := sup_le_of (fun x hx => (hi.prunedB x hx).2)
  obtain ⟨i1, m1⟩ := rangesOf_inv a.isPruned _ h0 hb
  refine ⟨i1, fun h => ?_⟩
  unfold AbsStore.prunedRanges
  rw [m1 h]
  constructor
  · intro hp; simpa [AbsStore.isPruned] using hp.2
  · intro hs
    exact ⟨mem_sup _ h hs, by simpa [AbsStore.isPruned] using hs⟩

/-- nothing was pruned above the stored head: the highest synced height is stored -/
def TopStored (a : AbsStore) : Prop := ∀ p ∈ a.pruned, ∃ x ∈ a.hdrs, p < x.height

open Lumina.Model.SyncerGate (fetchDecision Decision) in
open Lumina.Proofs.SyncerGate Lumina.Proofs.Ranges in
/-- **The fetch decision only schedules batches that touch a stored header** (so that the store
    verifies them against a neighbour: no batch is taken on faith), in every state whose highest
    synced height is stored and whose head is only set once something is stored. -/
theorem request_has_stored_neighbour {e : Env} {s : State} {r : Lumina.Model.Ranges.Range}
    (hi : AbsInv s.store) (htop : TopStored s.store) (hne : s.store.hdrs ≠ [])
    (h : fetchDecision e.slowMin (gateIn e s) = .ok (.request r)) :
    1 ≤ r.1 ∧ r.1 ≤ r.2 ∧ NbStored s.store r.1 r.2 := by
  obtain ⟨ist, mst⟩ := storedRanges_spec hi
  obtain ⟨ipr, mpr⟩ := prunedRanges_spec hi
  obtain ⟨head, synced, _, _, hadd, hcalc, hnemp, _, hgate⟩ := request_cases h
  simp only [gateIn] at hadd hcalc hgate
  obtain ⟨c, hc, hci, hcm⟩ := add_spec ipr ist
  rw [hadd] at hc
  injection hc with hc
  subst hc
  obtain ⟨h1, h2, hshape⟩ := calc_cases hci hcalc hnemp
  refine ⟨h1, h2, ?_⟩
  rcases hshape with ⟨habove, _, htopm⟩ | ⟨hbound, _⟩
  · -- forward batch: it starts right above the highest synced height, which is stored
    left
    rcases htopm with hnil | hm
    · exfalso
      subst hnil
      cases hh : s.store.hdrs with
      | nil => exact hne hh
      | cons x rest =>
        have : s.store.stored x.height = true := (stored_iff _ _).2 ⟨x, by rw [hh]; simp, rfl⟩
        exact mem_nil _ ((hcm _).2 (Or.inr ((mst _).2 this)))
    · rcases (hcm _).1 hm with hp | hs
      · exfalso
        obtain ⟨x, hx, hlt⟩ := htop _ ((mpr _).1 hp)
        have : mem synced x.height := (hcm _).2 (Or.inr ((mst _).2 ((stored_iff _ _).2 ⟨x, hx, rfl⟩)))
        have := habove _ this
        omega
      · exact (mst _).1 hs
  · -- backward batch: the gate only lets it through when the height just above it is stored
    right
    rcases hgate with ⟨hcs, _⟩ | ⟨_, hnp⟩
    · exact (mst _).1 ((contains_iff_mem _ _).1 hcs)
    · have : Lumina.Model.Ranges.contains synced (r.2 + 1) = true := (contains_iff_mem _ _).2 hbound
      simp [this] at hnp

/-! ### monotonicity of insertion -/

theorem insert_hdrs_sub (v : Hdr → Hdr → Bool) (a : AbsStore) (b : List Hdr) :
    ∀ x ∈ a.hdrs, x ∈ (a.insert v b).1.hdrs := by
  intro x hx
  unfold AbsStore.insert
  split
  · exact hx
  · exact hx
  · simp only [List.mem_append]; exact Or.inl hx

theorem insert_pruned_sub (v : Hdr → Hdr → Bool) (a : AbsStore) (b : List Hdr) :
    ∀ p ∈ (a.insert v b).1.pruned, p ∈ a.pruned := by
  intro p hp
  unfold AbsStore.insert at hp
  split at hp
  · exact hp
  · exact hp
  · exact (List.mem_filter.1 hp).1

theorem insert_stored_mono (v : Hdr → Hdr → Bool) (a : AbsStore) (b : List Hdr) (h : Nat)
    (hs : a.stored h = true) : (a.insert v b).1.stored h = true := by
  obtain ⟨x, hx, e⟩ := (stored_iff a h).1 hs
  exact (stored_iff _ h).2 ⟨x, insert_hdrs_sub v a b x hx, e⟩

theorem insert_top (v : Hdr → Hdr → Bool) (a : AbsStore) (b : List Hdr) (ht : TopStored a) :
    TopStored (a.insert v b).1 := by
  intro p hp
  obtain ⟨x, hx, hlt⟩ := ht p (insert_pruned_sub v a b p hp)
  exact ⟨x, insert_hdrs_sub v a b x hx, hlt⟩

theorem insert_nonempty (v : Hdr → Hdr → Bool) (a : AbsStore) (b : List Hdr) (hne : a.hdrs ≠ []) :
    (a.insert v b).1.hdrs ≠ [] := by
  cases hh : a.hdrs with
  | nil => exact absurd hh hne
  | cons x rest =>
    intro hc
    have := insert_hdrs_sub v a b x (by rw [hh]; simp)
    rw [hc] at this
    cases this

/-- a successful insertion of a single header leaves a non-empty store -/
theorem insert_single_ok_nonempty (v : Hdr → Hdr → Bool) (a : AbsStore) (h : Hdr) (o : Lumina.Model.Store.Out)
    (hr : (a.insert v [h]).2 = .ok o) : (a.insert v [h]).1.hdrs ≠ [] := by
  unfold AbsStore.insert at hr ⊢
  split at hr
  · cases hr
  · rename_i hc
    have := insertCheck_none v a [h] hc
    cases this
  · simp

/-! ### the invariant of the worker -/

/-- typing: heights are `u64` -/
def HdrWf (x : Hdr) : Prop := x.height ≤ Lumina.Model.Store.U64_MAX

structure Inv (c : Nat → Hdr) (s : State) : Prop where
  /-- SAFETY: every stored header is the honest chain's header of its height -/
  onchain : AllOnChain c s.store
  abs : AbsInv s.store
  top : TopStored s.store
  headSet : ∀ h, s.head = some h → s.store.hdrs ≠ []
  connected : s.phase = .connected → s.store.hdrs ≠ []
  /-- the ongoing batch touches a stored header -/
  ongoingNb : ∀ r, s.ongoing = some r → 1 ≤ r.1 ∧ r.1 ≤ r.2 ∧ NbStored s.store r.1 r.2

/-- what the environment is assumed to hand to the worker -/
def EvOk (v : Hdr → Hdr → Bool) (c : Nat → Hdr) (s : State) : Ev → Prop
  | .netHead h => OnChain c h ∧ HdrWf h          -- the head reported by TRUSTED peers is honest
  | .headerSub h => OnChain c h ∧ HdrWf h        -- header-sub only forwards verified heads
  | .batch (some hs) =>                           -- what the p2p layer accepts (C26, C28, internal linking)
    (∀ r, s.ongoing = some r → p2pAccepts v r hs = true) ∧ ∀ x ∈ hs, HdrWf x
  | _ => True

theorem inv_of_eq {c : Nat → Hdr} {s s' : State} (hi : Inv c s) (h1 : s'.store = s.store)
    (h2 : s'.head = s.head) (h3 : s'.ongoing = s.ongoing) (h4 : s'.phase = s.phase) : Inv c s' :=
  ⟨by rw [AllOnChain, h1]; exact hi.onchain, by rw [h1]; exact hi.abs, by rw [h1]; exact hi.top,
   by rw [h1, h2]; exact hi.headSet, by rw [h1, h4]; exact hi.connected, by rw [h1, h3]; exact hi.ongoingNb⟩

theorem inv_setHead {c : Nat → Hdr} {s : State} (hi : Inv c s) (hne : s.store.hdrs ≠ []) (h : Nat) :
    Inv c (setHead s h) := by
  unfold setHead
  split
  · split
    · exact hi
    · exact ⟨hi.onchain, hi.abs, hi.top, fun _ _ => hne, hi.connected, hi.ongoingNb⟩
  · exact ⟨hi.onchain, hi.abs, hi.top, fun _ _ => hne, hi.connected, hi.ongoingNb⟩

theorem setHead_store (s : State) (h : Nat) : (setHead s h).store = s.store := by
  unfold setHead
  split
  · split <;> rfl
  · rfl

theorem setHead_phase (s : State) (h : Nat) : (setHead s h).phase = s.phase := by
  unfold setHead
  split
  · split <;> rfl
  · rfl

theorem setHead_ongoing (s : State) (h : Nat) : (setHead s h).ongoing = s.ongoing := by
  unfold setHead
  split
  · split <;> rfl
  · rfl

/-- replacing the store by the result of an insertion of validated headers that are trusted or
    have a stored neighbour -/
theorem inv_insert {v : Hdr → Hdr → Bool} {c : Nat → Hdr} (hd : LinkDown v c) (hu : LinkUp v c)
    {s : State} (hi : Inv c s) (batch : List Hdr)
    (hval : ∀ x ∈ batch, x.valid = true) (hwf : ∀ x ∈ batch, HdrWf x)
    (hn : (∀ x ∈ batch, OnChain c x) ∨
      (∀ first last, batch.head? = some first → batch.getLast? = some last →
        NbStored s.store first.height last.height)) :
    Inv c { s with store := (s.store.insert v batch).1 } :=
  ⟨insert_onchain hd hu s.store batch hi.onchain hval hn,
   insert_inv v s.store batch hi.abs hwf,
   insert_top v s.store batch hi.top,
   fun h hh => insert_nonempty v s.store batch (hi.headSet h hh),
   fun hp => insert_nonempty v s.store batch (hi.connected hp),
   fun r hr => by
     obtain ⟨h1, h2, h3⟩ := hi.ongoingNb r hr
     refine ⟨h1, h2, ?_⟩
     rcases h3 with h3 | h3
     · exact Or.inl (insert_stored_mono v s.store batch _ h3)
     · exact Or.inr (insert_stored_mono v s.store batch _ h3)⟩

/-- insertion of headers that are all honest keeps the store on the honest chain (no link needed) -/
theorem insert_onchain_trusted (v : Hdr → Hdr → Bool) {c : Nat → Hdr} (a : AbsStore) (batch : List Hdr)
    (hall : AllOnChain c a) (hb : ∀ x ∈ batch, OnChain c x) : AllOnChain c (a.insert v batch).1 := by
  intro x hx
  unfold AbsStore.insert at hx
  split at hx
  · exact hall x hx
  · exact hall x hx
  · simp only [List.mem_append] at hx
    rcases hx with hx | hx
    · exact hall x hx
    · exact hb x hx

theorem inv_insert_trusted (v : Hdr → Hdr → Bool) {c : Nat → Hdr} {s : State} (hi : Inv c s)
    (batch : List Hdr) (hwf : ∀ x ∈ batch, HdrWf x) (hb : ∀ x ∈ batch, OnChain c x) :
    Inv c { s with store := (s.store.insert v batch).1 } :=
  ⟨insert_onchain_trusted v s.store batch hi.onchain hb,
   insert_inv v s.store batch hi.abs hwf,
   insert_top v s.store batch hi.top,
   fun h hh => insert_nonempty v s.store batch (hi.headSet h hh),
   fun hp => insert_nonempty v s.store batch (hi.connected hp),
   fun r hr => by
     obtain ⟨h1, h2, h3⟩ := hi.ongoingNb r hr
     refine ⟨h1, h2, ?_⟩
     rcases h3 with h3 | h3
     · exact Or.inl (insert_stored_mono v s.store batch _ h3)
     · exact Or.inr (insert_stored_mono v s.store batch _ h3)⟩

open Lumina.Model.SyncerGate (fetchDecision Decision) in
theorem inv_fetch {c : Nat → Hdr} (e : Env) {s : State} (hi : Inv c s) :
    Inv c (fetchNextBatch e s).1 := by
  unfold fetchNextBatch
  split
  · rename_i r hdec
    obtain ⟨head, _, _, hhead, _⟩ := Lumina.Proofs.SyncerGate.request_cases hdec
    have hne := hi.headSet head (by simpa [gateIn] using hhead)
    have hnb := request_has_stored_neighbour hi.abs hi.top hne hdec
    exact ⟨hi.onchain, hi.abs, hi.top, hi.headSet, hi.connected,
      fun r' hr' => by injection hr' with hr'; subst hr'; exact hnb⟩
  · exact hi

theorem fetch_store (e : Env) (s : State) : (fetchNextBatch e s).1.store = s.store := by
  unfold fetchNextBatch; split <;> rfl

theorem storeHead_nonempty {a : AbsStore} {sh : Hdr} (h : storeHead a = some sh) : a.hdrs ≠ [] := by
  intro he
  simp [storeHead, AbsStore.headHeight, he] at h

/-- `try_init` with a trusted (honest) head -/
theorem inv_tryInit {v : Hdr → Hdr → Bool} {c : Nat → Hdr} (hd : LinkDown v c) (hu : LinkUp v c)
    {e : Env} (hev : e.verify = v) {s : State} (hi : Inv c s) {h : Hdr} (hh : OnChain c h) (hw : HdrWf h)
    {a' : AbsStore} (ht : tryInit e s.store h = some a') :
    Inv c { s with store := a' } ∧ a'.hdrs ≠ [] := by
  unfold tryInit at ht
  cases hti : needsInsert s.store h with
  | true =>
    rw [hti] at ht
    simp only [↓reduceIte] at ht
    split at ht
    · rename_i a2 o hins
      injection ht with ht
      subst ht
      have h1 : a2 = (s.store.insert e.verify [h]).1 := by rw [hins]
      have h2 : (s.store.insert e.verify [h]).2 = .ok o := by rw [hins]
      subst h1
      rw [hev] at h2 ⊢
      exact ⟨inv_insert hd hu hi [h] (by intro x hx; simp at hx; subst hx; exact hh.1)
        (by intro x hx; simp at hx; subst hx; exact hw)
        (Or.inl (by intro x hx; simp at hx; subst hx; exact hh)),
        insert_single_ok_nonempty v s.store h o h2⟩
    · cases ht
  | false =>
    -- the head is already the store's head
    rw [hti] at ht
    simp only [Bool.false_eq_true, ↓reduceIte] at ht
    injection ht with ht
    subst ht
    refine ⟨inv_of_eq hi rfl rfl rfl rfl, ?_⟩
    unfold needsInsert at hti
    split at hti
    · rename_i sh hsh; exact storeHead_nonempty hsh
    · cases hti

/-- **One reaction of the worker keeps the invariant** (in particular: the store stays on the
    honest chain), whatever the event, provided the environment hands over honest heads and the
    p2p layer's accepted batches are validated and internally linked. -/
theorem step_inv {v : Hdr → Hdr → Bool} {c : Nat → Hdr} (hd : LinkDown v c) (hu : LinkUp v c)
    {e : Env} (hev : e.verify = v) {s : State} (hi : Inv c s) {ev : Ev} (hok : EvOk v c s ev) :
    Inv c (step e s ev).1 := by
  cases ev with
  | peers n =>
    simp only [step]
    split
    · split
      · exact ⟨hi.onchain, hi.abs, hi.top, hi.headSet, (fun hp => by cases hp), (fun _ hr => by cases hr)⟩
      · exact inv_of_eq hi rfl rfl rfl rfl
    · exact inv_of_eq hi rfl rfl rfl rfl
  | netHead h =>
    obtain ⟨hh, hw⟩ := hok
    simp only [step]
    split
    · exact hi
    · split
      · exact hi
      · rename_i a' ht
        obtain ⟨hi1, hne⟩ := inv_tryInit hd hu hev hi hh hw ht
        have hi2 := inv_setHead hi1 hne h.height
        split
        · exact hi2
        · apply inv_fetch
          refine ⟨hi2.onchain, hi2.abs, hi2.top, hi2.headSet, fun _ => ?_, hi2.ongoingNb⟩
          simpa [setHead_store] using hne
  | headerSub h =>
    obtain ⟨hh, hw⟩ := hok
    simp only [step]
    split
    · exact hi
    · rename_i hph
      have hne : s.store.hdrs ≠ [] := hi.connected hph
      have hi1 := inv_setHead hi hne h.height
      apply inv_fetch
      split
      · split
        · rw [hev]
          exact inv_insert hd hu hi1 [h] (by intro x hx; simp at hx; subst hx; exact hh.1)
            (by intro x hx; simp at hx; subst hx; exact hw)
            (Or.inl (by intro x hx; simp at hx; subst hx; exact hh))
        · exact hi1
      · exact hi1
  | batch res =>
    simp only [step]
    split
    · rename_i r hph hon
      have hi0 : Inv c { s with ongoing := none } :=
        ⟨hi.onchain, hi.abs, hi.top, hi.headSet, hi.connected, (fun _ hr => by cases hr)⟩
      cases res with
      | none => exact inv_fetch e hi0
      | some hs =>
        obtain ⟨hacc, hwf⟩ := hok
        have hacc := hacc r hon
        apply inv_fetch
        unfold p2pAccepts at hacc
        split at hacc
        · rename_i first last hf hl
          simp only [Bool.and_eq_true, List.all_eq_true, beq_iff_eq] at hacc
          obtain ⟨⟨⟨hval, _⟩, e1⟩, e2⟩ := hacc
          obtain ⟨h1, h2, hnb⟩ := hi.ongoingNb r hon
          rw [hev]
          refine inv_of_eq (inv_insert hd hu hi0 hs hval hwf (Or.inr (fun f l hf' hl' => ?_)))
            rfl rfl rfl rfl
          rw [hf] at hf'; rw [hl] at hl'
          injection hf' with hf'; injection hl' with hl'
          subst hf' hl'
          rw [e1, e2]; exact hnb
        · cases hacc
    · exact hi

/-! ### runs -/

/-- every event of the run is admissible in the state it arrives in -/
def RunOk (v : Hdr → Hdr → Bool) (c : Nat → Hdr) (e : Env) : State → List Ev → Prop
  | _, [] => True
  | s, ev :: evs => EvOk v c s ev ∧ RunOk v c e (step e s ev).1 evs

theorem run_inv {v : Hdr → Hdr → Bool} {c : Nat → Hdr} (hd : LinkDown v c) (hu : LinkUp v c)
    {e : Env} (hev : e.verify = v) : ∀ (evs : List Ev) (s : State), Inv c s → RunOk v c e s evs →
      Inv c (run e s evs)
  | [], _, hi, _ => hi
  | ev :: evs, s, hi, hr => run_inv hd hu hev evs _ (step_inv hd hu hev hi hr.1) hr.2

theorem runOk_take {v : Hdr → Hdr → Bool} {c : Nat → Hdr} {e : Env} :
    ∀ (evs : List Ev) (s : State) (k : Nat), RunOk v c e s evs → RunOk v c e s (evs.take k)
  | [], _, _, _ => by simp [RunOk]
  | _ :: _, _, 0, _ => by simp [RunOk]
  | ev :: evs, s, k + 1, hr => ⟨hr.1, runOk_take evs _ k hr.2⟩

theorem inv_init (c : Nat → Hdr) (bs : Nat) : Inv c { batchSize := bs } where
  onchain := fun _ hx => by cases hx
  abs := absInv_init
  top := fun _ hp => by cases hp
  headSet := fun _ h => by cases h
  connected := fun h => by cases h
  ongoingNb := fun _ h => by cases h

/-! ### convergence variant -/

/-- number of heights of `[lo, hi]` that are not stored -/
def missing (a : AbsStore) (lo hi : Nat) : Nat :=
  (List.range' lo (hi + 1 - lo)).countP (fun h => !a.stored h)

theorem countP_lt_of {α} {p q : α → Bool} : ∀ {l : List α}, (∀ x ∈ l, q x = true → p x = true) →
    ∀ x ∈ l, p x = true → q x = false → l.countP q < l.countP p
  | [], _, x, hx, _, _ => by cases hx
  | y :: rest, hm, x, hx, hp, hq => by
    have hrest : rest.countP q ≤ rest.countP p :=
      List.countP_mono_left (fun z hz => hm z (List.mem_cons_of_mem _ hz))
    rcases List.mem_cons.1 hx with rfl | hx'
    · simp only [List.countP_cons, hp, hq]
      simp
      omega
    · have ih := countP_lt_of (fun z hz => hm z (List.mem_cons_of_mem _ hz)) x hx' hp hq
      simp only [List.countP_cons]
      have := hm y (by simp)
      cases hqy : q y with
      | false => cases p y <;> simp <;> omega
      | true => simp [this hqy]; omega

/-- V1: an insertion never increases the variant -/
theorem missing_insert_le (v : Hdr → Hdr → Bool) (a : AbsStore) (b : List Hdr) (lo hi : Nat) :
    missing (a.insert v b).1 lo hi ≤ missing a lo hi := by
  unfold missing
  apply List.countP_mono_left
  intro h _ hn
  cases hs : a.stored h with
  | false => rfl
  | true => rw [insert_stored_mono v a b h hs] at hn; cases hn

/-- V2: an accepted non-empty batch that starts inside `[lo, hi]` strictly decreases the variant -/
theorem missing_insert_lt (v : Hdr → Hdr → Bool) (a : AbsStore) (b : List Hdr) (lo hi l h : Nat)
    (hc : AbsStore.insertCheck v a b = .ok (some (l, h))) (h1 : lo ≤ l) (h2 : l ≤ hi) :
    missing (a.insert v b).1 lo hi < missing a lo hi := by
  obtain ⟨first, last, ok, e1, e2⟩ := insertCheck_some v a b l h hc
  subst e1 e2
  unfold missing
  apply countP_lt_of (x := first.height)
  · intro x _ hn
    cases hs : a.stored x with
    | false => rfl
    | true => rw [insert_stored_mono v a b x hs] at hn; cases hn
  · simp only [List.mem_range'_1]; omega
  · -- not stored before: the accepted span is disjoint from the stored heights
    have : a.stored first.height = false := by
      rw [stored_false_iff]
      intro x hx e
      exact ok.disjoint x hx ⟨by omega, by rw [e]; exact ok.lo_le⟩
    simp [this]
  · -- stored afterwards
    have : (a.insert v b).1.stored first.height = true := by
      rw [insert_eq_added v a b _ _ hc, stored_iff]
      exact ⟨first, by simp only [added, List.mem_append]; exact Or.inr (head_of_mem ok.hd), rfl⟩
    simp [this]

/-! ### an honest answer is accepted -/

/-- the honest chain is well formed and `verify` is complete on it -/
structure HonestChain (v : Hdr → Hdr → Bool) (c : Nat → Hdr) : Prop where
  height : ∀ h, (c h).height = h
  valid : ∀ h, (c h).valid = true
  hashInj : ∀ h1 h2, (c h1).hash = (c h2).hash → h1 = h2
  /-- adjacent honest headers (any validated copies of them) verify -/
  verifies : ∀ a b, OnChain c a → OnChain c b → a.height + 1 = b.height → v a b = true

/-- the honest headers of heights `lo, lo+1, …` (`n` of them) -/
def span (c : Nat → Hdr) (lo n : Nat) : List Hdr := (List.range' lo n).map c

theorem onChain_honest {v : Hdr → Hdr → Bool} {c : Nat → Hdr} (hc : HonestChain v c) (h : Nat) :
    OnChain c (c h) := ⟨hc.valid h, by rw [hc.height h]⟩

theorem span_chainOK {v : Hdr → Hdr → Bool} {c : Nat → Hdr} (hc : HonestChain v c) :
    ∀ (n lo : Nat), chainOK v (span c lo n) = true
  | 0, _ => rfl
  | 1, _ => rfl
  | n + 2, lo => by
    have ih := span_chainOK hc (n + 1) (lo + 1)
    simp only [span, List.range'_succ, List.map_cons] at ih ⊢
    simp only [chainOK, Bool.and_eq_true, beq_iff_eq]
    refine ⟨⟨by rw [hc.height, hc.height], ?_⟩, ih⟩
    exact hc.verifies _ _ (onChain_honest hc _) (onChain_honest hc _) (by rw [hc.height, hc.height])

theorem span_head (c : Nat → Hdr) (lo n : Nat) : (span c lo (n + 1)).head? = some (c lo) := by
  simp [span, List.range'_succ]

theorem span_last (c : Nat → Hdr) (lo n : Nat) : (span c lo (n + 1)).getLast? = some (c (lo + n)) := by
  simp only [span]
  rw [List.range'_concat]
  simp

theorem span_nodup {v : Hdr → Hdr → Bool} {c : Nat → Hdr} (hc : HonestChain v c) :
    ∀ (n lo : Nat) (known : List Lumina.Model.Store.Hash),
      (∀ q ∈ known, ∀ h, lo ≤ h → h < lo + n → q ≠ (c h).hash) →
      firstDupHash known (span c lo n) = none
  | 0, _, _, _ => rfl
  | n + 1, lo, known, hk => by
    simp only [span, List.range'_succ, List.map_cons, firstDupHash]
    have hnot : known.contains (c lo).hash = false := by
      cases hc' : known.contains (c lo).hash with
      | false => rfl
      | true =>
        have hm : (c lo).hash ∈ known := by simpa using hc'
        exact absurd rfl (hk _ hm lo (Nat.le_refl _) (by omega))
    rw [hnot]
    simp only [Bool.false_eq_true, ↓reduceIte]
    apply span_nodup hc n (lo + 1)
    intro q hq h h1 h2
    rcases List.mem_cons.1 hq with rfl | hq
    · intro e
      have := hc.hashInj _ _ e
      omega
    · exact hk q hq h (by omega) (by omega)

/-- **An honest answer is accepted**: the honest headers of a range that is disjoint from the
    stored heights and touches a stored height pass every check of `insert`. -/
theorem honest_span_accepted {v : Hdr → Hdr → Bool} {c : Nat → Hdr} (hc : HonestChain v c)
    (a : AbsStore) (hall : AllOnChain c a) (lo hi : Nat) (h1 : 1 ≤ lo) (h2 : lo ≤ hi)
    (hdis : ∀ x ∈ a.hdrs, ¬ (lo ≤ x.height ∧ x.height ≤ hi)) (hnb : NbStored a lo hi) :
    AbsStore.insertCheck v a (span c lo (hi + 1 - lo)) = .ok (some (lo, hi)) := by
  obtain ⟨n, hn⟩ : ∃ n, hi + 1 - lo = n + 1 := ⟨hi - lo, by omega⟩
  have hlast : lo + n = hi := by omega
  unfold AbsStore.insertCheck
  rw [hn, span_head, span_last, hlast]
  simp only [span_chainOK hc, Bool.not_true, Bool.false_eq_true, ↓reduceIte, hc.height]
  -- placement
  have hpl : AbsStore.placement a lo hi = .ok () := by
    unfold AbsStore.placement
    rw [if_neg (by simp; omega)]
    simp only []
    have hany : (a.hdrs.any fun x => between lo hi x.height) = false := by
      rw [List.any_eq_false]
      intro x hx
      have := hdis x hx
      simp [between]; omega
    rw [if_neg (by simp [hany])]
    rcases hnb with hp | hnx
    · rw [if_neg (by simp [hp])]
    · rw [if_neg (by simp [hnx])]
  rw [hpl]
  simp only []
  -- neighbours
  have hprev : AbsStore.prevOK v a (c lo) = true := by
    unfold AbsStore.prevOK
    rw [hc.height]
    split
    · rename_i p hp
      obtain ⟨hpm, hph⟩ := atHeight_mem hp
      exact hc.verifies p (c lo) (hall p hpm) (onChain_honest hc lo) (by rw [hc.height]; omega)
    · rfl
  have hnext : AbsStore.nextOK v a (c hi) = true := by
    unfold AbsStore.nextOK
    rw [hc.height]
    split
    · rename_i q hq
      obtain ⟨hqm, hqh⟩ := atHeight_mem hq
      exact hc.verifies (c hi) q (onChain_honest hc hi) (hall q hqm) (by rw [hc.height]; omega)
    · rfl
  rw [if_neg (by simp [hprev, hnext])]
  -- no repeated hash
  have hnd : firstDupHash (a.hdrs.map (·.hash)) (span c lo (n + 1)) = none := by
    apply span_nodup hc
    intro q hq h hl hu
    obtain ⟨x, hx, rfl⟩ := List.mem_map.1 hq
    intro e
    have hxo := hall x hx
    rw [hxo.2] at e
    have := hc.hashInj _ _ e
    exact hdis x hx ⟨by omega, by omega⟩
  rw [hnd]

open Lumina.Model.SyncerGate (fetchDecision Decision) in
open Lumina.Proofs.SyncerGate Lumina.Proofs.Ranges in
/-- a scheduled batch shares no height with the store (C24: only missing heights are requested) -/
theorem request_disjoint {e : Env} {s : State} {r : Lumina.Model.Ranges.Range}
    (hi : AbsInv s.store)
    (h : fetchDecision e.slowMin (gateIn e s) = .ok (.request r)) :
    ∀ x ∈ s.store.hdrs, ¬ (r.1 ≤ x.height ∧ x.height ≤ r.2) := by
  obtain ⟨ist, mst⟩ := storedRanges_spec hi
  obtain ⟨ipr, mpr⟩ := prunedRanges_spec hi
  obtain ⟨head, synced, _, _, hadd, hcalc, hnemp, _, _⟩ := request_cases h
  simp only [gateIn] at hadd hcalc
  obtain ⟨c, hc, hci, hcm⟩ := add_spec ipr ist
  rw [hadd] at hc
  injection hc with hc
  subst hc
  obtain ⟨_, _, hshape⟩ := calc_cases hci hcalc hnemp
  intro x hx hb
  have hxs : mem synced x.height := (hcm _).2 (Or.inr ((mst _).2 ((stored_iff _ _).2 ⟨x, hx, rfl⟩)))
  rcases hshape with ⟨habove, _, _⟩ | ⟨_, _, hgap⟩
  · have := habove _ hxs; omega
  · exact hgap _ hb.1 hb.2 hxs

open Lumina.Model.SyncerGate (fetchDecision Decision) in
/-- **An honest answer to a scheduled request is admissible, is accepted by the store and strictly
    decreases the number of missing heights** of `[1, K]` for every `K` at or above the start of
    the batch. -/
theorem honest_answer_progress {v : Hdr → Hdr → Bool} {c : Nat → Hdr} (hc : HonestChain v c)
    {e : Env} {s : State} (hi : Inv c s) (hne : s.store.hdrs ≠ []) {r : Lumina.Model.Ranges.Range}
    (h : fetchDecision e.slowMin (gateIn e s) = .ok (.request r)) (K : Nat) (hK : r.1 ≤ K) :
    p2pAccepts v r (span c r.1 (r.2 + 1 - r.1)) = true ∧
    AbsStore.insertCheck v s.store (span c r.1 (r.2 + 1 - r.1)) = .ok (some (r.1, r.2)) ∧
    missing (s.store.insert v (span c r.1 (r.2 + 1 - r.1))).1 1 K < missing s.store 1 K := by
  obtain ⟨h1, h2, hnb⟩ := request_has_stored_neighbour hi.abs hi.top hne h
  have hdis := request_disjoint hi.abs h
  have hacc := honest_span_accepted hc s.store hi.onchain r.1 r.2 h1 h2 hdis hnb
  refine ⟨?_, hacc, missing_insert_lt v s.store _ 1 K r.1 r.2 hacc h1 hK⟩
  obtain ⟨n, hn⟩ : ∃ n, r.2 + 1 - r.1 = n + 1 := ⟨r.2 - r.1, by omega⟩
  unfold p2pAccepts
  rw [hn, span_head, span_last]
  simp only [Bool.and_eq_true, List.all_eq_true, beq_iff_eq, hc.height, span_chainOK hc]
  refine ⟨⟨⟨?_, trivial⟩, trivial⟩, by omega⟩
  intro x hx
  simp only [span, List.mem_map] at hx
  obtain ⟨y, _, rfl⟩ := hx
  exact hc.valid y

/-! ### convergence of the honest schedule -/

theorem slowSyncScan_none (oldP : Nat → Bool) (h0 : ∀ h, oldP h = false) :
    ∀ l : List Nat, Lumina.Model.SyncerGate.slowSyncScan oldP none l = none
  | [] => rfl
  | x :: rest => by
    simp only [Lumina.Model.SyncerGate.slowSyncScan, h0 x, Bool.false_eq_true, ↓reduceIte]
    exact slowSyncScan_none oldP h0 rest

/-- the side conditions under which the honest schedule is followed -/
structure Steady (c : Nat → Hdr) (e : Env) (s : State) (H : Nat) : Prop where
  inv : Inv c s
  idle : s.ongoing = none
  connected : s.phase = .connected
  peers : s.peers ≠ 0
  head : s.head = some H
  headLt : H < Lumina.Model.Ranges.U64_MAX
  batch : 1 ≤ s.batchSize
  slow : s.slowSync = none
  unpruned : s.store.pruned = []
  below : ∀ x ∈ s.store.hdrs, x.height ≤ H

/-- every height of the sampling window up to `H` is stored -/
def WindowFull (e : Env) (a : AbsStore) (H : Nat) : Prop :=
  ∀ m, 1 ≤ m → m ≤ H → e.chain.oldS m = false → a.stored m = true

open Lumina.Model.SyncerGate (fetchDecision Decision) in
/-- **Convergence of the honest schedule.**  From a steady state (connected, idle, nothing pruned,
    slow-sync not armed) let the worker decide, and let every request it schedules be answered
    with the honest headers of the requested range, nothing else happening in between.  After
    finitely many such answers (at most the number of missing heights) the worker schedules
    nothing more and every height of the sampling window up to the head is stored; every event
    of that run is admissible. -/
theorem honest_schedule_converges {v : Hdr → Hdr → Bool} {c : Nat → Hdr} (hc : HonestChain v c)
    {e : Env} (hev : e.verify = v) (hP : ∀ h, e.chain.oldP h = false)
    (hmono : ∀ h1 h2, h1 ≤ h2 → e.chain.oldS h2 = true → e.chain.oldS h1 = true) (H : Nat) :
    ∀ (n : Nat) (s0 : State), Steady c e s0 H → missing s0.store 1 H ≤ n →
      ∃ evs : List Ev, RunOk v c e (fetchNextBatch e s0).1 evs ∧ evs.length ≤ n ∧
        WindowFull e (run e (fetchNextBatch e s0).1 evs).store H ∧
        (run e (fetchNextBatch e s0).1 evs).ongoing = none := by
  intro n
  induction n with
  | zero =>
    intro s0 hs hn
    -- nothing is missing: the decision is "nothing" or irrelevant; no event is needed
    have hfull : ∀ m, 1 ≤ m → m ≤ H → s0.store.stored m = true := by
      intro m h1 h2
      cases hst : s0.store.stored m with
      | true => rfl
      | false =>
        exfalso
        have : 0 < missing s0.store 1 H := by
          unfold missing
          apply List.countP_pos_iff.2
          exact ⟨m, by simp only [List.mem_range'_1]; omega, by simp [hst]⟩
        omega
    -- with everything stored up to the head there is nothing to fetch
    cases hreq : (fetchNextBatch e s0).2 with
    | none =>
      have hs1 : (fetchNextBatch e s0).1 = s0 := by
        unfold fetchNextBatch at hreq ⊢
        split at hreq
        · cases hreq
        · rfl
      refine ⟨[], trivial, Nat.le_refl _, ?_, ?_⟩
      · intro m h1 h2 _; simp only [run]; rw [hs1]; exact hfull m h1 h2
      · simp only [run]; rw [hs1]; exact hs.idle
    | some r =>
      exfalso
      unfold fetchNextBatch at hreq
      split at hreq
      · rename_i r' hdec
        have hne := hs.inv.headSet H hs.head
        obtain ⟨h1, h2, _⟩ := request_has_stored_neighbour hs.inv.abs hs.inv.top hne hdec
        have hdis := request_disjoint hs.inv.abs hdec
        -- r'.1 is a real height ≤ H that is not stored: contradiction
        obtain ⟨_, _, _, _, _, _, _, _, _⟩ := Lumina.Proofs.SyncerGate.request_cases hdec
        have hle : r'.1 ≤ H := by
          obtain ⟨ist, mst⟩ := storedRanges_spec hs.inv.abs
          obtain ⟨ipr, mpr⟩ := prunedRanges_spec hs.inv.abs
          obtain ⟨head, synced, _, hhead, hadd, hcalc, hnemp, _, _⟩ :=
            Lumina.Proofs.SyncerGate.request_cases hdec
          simp only [gateIn] at hadd hcalc hhead
          obtain ⟨c', hc', hci, hcm⟩ := Lumina.Proofs.Ranges.add_spec ipr ist
          rw [hadd] at hc'
          injection hc' with hc'
          subst hc'
          obtain ⟨_, _, hshape⟩ := Lumina.Proofs.SyncerGate.calc_cases hci hcalc hnemp
          rw [hs.head] at hhead
          injection hhead with hhead
          subst hhead
          rcases hshape with ⟨_, hr2, _⟩ | ⟨hb, _, _⟩
          · omega
          · rcases (hcm _).1 hb with hp | hst
            · rw [mpr, hs.unpruned] at hp; cases hp
            · obtain ⟨x, hx, ex⟩ := (stored_iff _ _).1 ((mst _).1 hst)
              have := hs.below x hx
              omega
        obtain ⟨x, hx, ex⟩ := (stored_iff _ _).1 (hfull r'.1 h1 hle)
        exact hdis x hx ⟨by omega, by omega⟩
      · cases hreq
  | succ n ih =>
    intro s0 hs hn
    cases hreq : (fetchNextBatch e s0).2 with
    | none =>
      -- nothing scheduled: by the progress lemma the window is full
      have hs1 : (fetchNextBatch e s0).1 = s0 := by
        unfold fetchNextBatch at hreq ⊢
        split at hreq
        · cases hreq
        · rfl
      refine ⟨[], trivial, Nat.zero_le _, ?_, ?_⟩
      · intro m h1 h2 h4
        simp only [run]; rw [hs1]
        cases hst : s0.store.stored m with
        | true => rfl
        | false =>
          exfalso
          obtain ⟨ist, mst⟩ := storedRanges_spec hs.inv.abs
          have hpr' : s0.store.prunedRanges = [] := by
            simp [AbsStore.prunedRanges, hs.unpruned, rangesOf, sup, runsDesc, AbsStore.isPruned]
          obtain ⟨r, hr⟩ := Lumina.Proofs.SyncerGate.gate_progress (pc := true) (slowMin := e.slowMin)
            (i := gateIn e s0) (old := e.chain.oldS) (H := H) (m := m)
            ist hpr' (by simp [gateIn, hs.idle]) hs.peers hs.head hs.headLt hs.batch hs.slow
            (fun _ => rfl) hmono h1 h2 (fun hcm => by rw [(mst m).1 hcm] at hst; cases hst) h4
          unfold fetchNextBatch at hreq
          have : fetchDecision e.slowMin (gateIn e s0) = .ok (.request r) := hr
          rw [this] at hreq
          cases hreq
      · simp only [run]; rw [hs1]; exact hs.idle
    | some r =>
      -- a request is scheduled: answer it honestly and continue
      have hdec : fetchDecision e.slowMin (gateIn e s0) = .ok (.request r) := by
        unfold fetchNextBatch at hreq
        split at hreq
        · rename_i r' hd'; injection hreq with hreq; subst hreq; exact hd'
        · cases hreq
      have hs1 : (fetchNextBatch e s0).1 = { s0 with ongoing := some r } := by
        unfold fetchNextBatch; rw [hdec]
      have hne := hs.inv.headSet H hs.head
      obtain ⟨_, _, _, _, _, _, _, hle64, _⟩ := Lumina.Proofs.SyncerGate.request_cases hdec
      obtain ⟨h1, h2, hnb⟩ := request_has_stored_neighbour hs.inv.abs hs.inv.top hne hdec
      -- the batch lies at or below the head
      have hr2H : r.2 ≤ H := by
        obtain ⟨ist, mst⟩ := storedRanges_spec hs.inv.abs
        obtain ⟨ipr, mpr⟩ := prunedRanges_spec hs.inv.abs
        obtain ⟨head, synced, _, hhead, hadd, hcalc, hnemp, _, _⟩ :=
          Lumina.Proofs.SyncerGate.request_cases hdec
        simp only [gateIn] at hadd hcalc hhead
        obtain ⟨c', hc', hci, hcm⟩ := Lumina.Proofs.Ranges.add_spec ipr ist
        rw [hadd] at hc'
        injection hc' with hc'
        subst hc'
        obtain ⟨_, _, hshape⟩ := Lumina.Proofs.SyncerGate.calc_cases hci hcalc hnemp
        rw [hs.head] at hhead
        injection hhead with hhead
        subst hhead
        rcases hshape with ⟨_, hr2, _⟩ | ⟨hb, _, _⟩
        · exact hr2
        · rcases (hcm _).1 hb with hp | hst
          · rw [mpr, hs.unpruned] at hp; cases hp
          · obtain ⟨x, hx, ex⟩ := (stored_iff _ _).1 ((mst _).1 hst)
            have := hs.below x hx
            omega
      obtain ⟨hacc, hchk, hlt⟩ := honest_answer_progress hc hs.inv hne hdec H (by omega)
      let hsn := span c r.1 (r.2 + 1 - r.1)
      let ev : Ev := .batch (some hsn)
      -- the state the worker decides in after the honest answer
      let s2 : State := { s0 with store := (s0.store.insert v hsn).1 }
      have hspan_mem : ∀ x ∈ hsn, ∃ y, r.1 ≤ y ∧ y ≤ r.2 ∧ x = c y := by
        intro x hx
        simp only [hsn, span, List.mem_map, List.mem_range'_1] at hx
        obtain ⟨y, hy, rfl⟩ := hx
        exact ⟨y, by omega, by omega, rfl⟩
      have hstep : (step e { s0 with ongoing := some r } ev).1 = (fetchNextBatch e s2).1 := by
        have hidle := hs.idle
        have hconn := hs.connected
        have hslow := hs.slow
        cases s0 with
        | mk st hd sl og pe ph bsz =>
          simp only at hidle hconn hslow
          subst hidle hconn hslow
          simp only [step, ev, slowSyncScan_none _ hP, hev, s2]
      have hst2 : Steady c e s2 H := by
        refine ⟨?_, hs.idle, hs.connected, hs.peers, hs.head, hs.headLt, hs.batch, hs.slow, ?_, ?_⟩
        · exact inv_insert_trusted v hs.inv hsn
            (fun x hx => by
              obtain ⟨y, _, hy2, rfl⟩ := hspan_mem x hx
              simp only [HdrWf, hc.height]
              have : Lumina.Model.Store.U64_MAX = Lumina.Model.Ranges.U64_MAX := rfl
              omega)
            (fun x hx => by obtain ⟨y, _, _, rfl⟩ := hspan_mem x hx; exact onChain_honest hc y)
        · have := insert_pruned_sub v s0.store hsn
          cases hp : (s0.store.insert v hsn).1.pruned with
          | nil => rfl
          | cons p rest =>
            have := this p (by rw [hp]; simp)
            rw [hs.unpruned] at this; cases this
        · intro x hx
          simp only [s2] at hx
          rw [insert_eq_added v s0.store hsn _ _ hchk] at hx
          simp only [added, List.mem_append] at hx
          rcases hx with hx | hx
          · exact hs.below x hx
          · obtain ⟨y, _, hy2, rfl⟩ := hspan_mem x hx
            rw [hc.height]; omega
      have hmiss : missing s2.store 1 H ≤ n := by
        have : missing s2.store 1 H < missing s0.store 1 H := hlt
        omega
      obtain ⟨evs, hrun, hlen, hfull, hidle⟩ := ih s2 hst2 hmiss
      refine ⟨ev :: evs, ?_, by simp; omega, ?_, ?_⟩
      · rw [hs1]
        refine ⟨⟨fun r' hr' => ?_, fun x hx => ?_⟩, ?_⟩
        · injection hr' with hr'; subst hr'; exact hacc
        · obtain ⟨y, _, hy2, rfl⟩ := hspan_mem x hx
          simp only [HdrWf, hc.height]
          have : Lumina.Model.Store.U64_MAX = Lumina.Model.Ranges.U64_MAX := rfl
          omega
        · rw [hstep]; exact hrun
      · rw [hs1]; simp only [run]; rw [hstep]; exact hfull
      · rw [hs1]; simp only [run]; rw [hstep]; exact hidle

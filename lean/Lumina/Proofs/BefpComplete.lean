/-
  C07 completeness: an honest proof (at least half of the axis' shares, each with the inclusion proof `Sample::new`
  builds for its own position) of an axis that is NOT a codeword validates.
  Owner: group D2.  Uses group D's `sample_complete_core` (honest single-leaf proofs verify, incl. lumina's shape check).
-/
import Lumina.Proofs.BefpSound
import Lumina.Proofs.Sample

namespace Lumina.Proofs.BefpComplete
open Lumina.Util Lumina.Model.Nmt Lumina.Model.Eds Lumina.Model.EdsCode Lumina.Model.Befp
open Lumina.Model.Decoders (Befp ShareWithProof)
open Lumina.Proofs.Nmt Lumina.Proofs.Eds Lumina.Proofs.EdsCode Lumina.Proofs.EdsExtend Lumina.Proofs.EdsLinear
open Lumina.Proofs.Befp Lumina.Proofs.BefpSound Lumina.Proofs.NmtOrder
open Lumina.Proofs.Sample (ValidSquare sample_complete_core)
open Lumina.Spec.C08 (erase)

/-- the share-with-proof at position `i` is what an honest prover builds: the share of that cell with the inclusion
    proof of `Sample::new` along its proof axis -/
def HonestAt (H : HashFn) (e : Eds) (axis : Axis) (index i : Nat) (s : ShareWithProof) : Prop :=
  ∃ smp, Lumina.Model.Sample.new H e (axisCoord axis index i).1 (axisCoord axis index i).2 s.proofAxis = .ok smp ∧
    s.ns = smp.share.ns ∧ s.share = smp.share.data ∧ s.proof = smp.proof

/-- an honest fraud proof for the header height `hh` against the square `e` -/
structure HonestProof (H : HashFn) (e : Eds) (p : Befp) (hh : Nat) : Prop where
  height : hh = p.height
  index : p.index < e.width
  len : p.shares.length = e.width
  count : e.width / 2 ≤ (p.shares.filter Option.isSome).length
  honest : ∀ i s, p.shares[i]? = some (some s) → HonestAt H e p.axis p.index i s

theorem validSquare_of_newOK {ver : Nat} {X : List Bytes} {e : Eds} (hn : NewOK ver X e) :
    ∃ k, ValidSquare e k := by
  obtain ⟨j, hj1, hj15, hj⟩ := hn.pow
  have hmem : ∀ sh ∈ e.shares, ∃ i, i < e.width ∧ sh ∈ lineCells e.width X .row i := by
    intro sh hsh
    rw [hn.grid] at hsh
    obtain ⟨l, hl, hsh⟩ := List.mem_flatten.mp hsh
    obtain ⟨i, hi, rfl⟩ := List.mem_map.mp hl
    exact ⟨i, List.mem_range.mp hi, hsh⟩
  refine ⟨j, hj, hj1, by omega, ?_, ?_, ?_⟩
  · intro r c sh hr hc hsh
    rw [hn.shareAt hr hc] at hsh
    injection hsh with hsh
    rw [← hsh]; rfl
  · intro sh hsh
    obtain ⟨i, hi, hm⟩ := hmem sh hsh
    exact (hn.cells i hi .row sh hm).size
  · intro sh hsh hp
    obtain ⟨i, hi, hm⟩ := hmem sh hsh
    exact (hn.cells i hi .row sh hm).ns hp

theorem new_proofType {H : HashFn} {e : Eds} {r c : Nat} {ax : Axis} {s : Lumina.Model.Sample.Sample}
    (h : Lumina.Model.Sample.new H e r c ax = .ok s) : s.proofType = ax := by
  cases ax <;>
  · unfold Lumina.Model.Sample.new at h
    simp only at h
    split at h
    · cases h
    · split at h
      · cases h
      · split at h
        · cases h
        · simp only [Except.ok.injEq] at h
          rw [← h]

/-- an honest share passes the per-share check of the (fixed) loop -/
theorem honest_share_check {H : HashFn} (hl : HashLen H) {e : Eds} {k : Nat} (hv : ValidSquare e k) {dah : Dah}
    (hd : Dah.ofEds H e = .ok dah) {axis : Axis} {index i : Nat} (hidx : index < e.width) (hi : i < e.width)
    {s : ShareWithProof} (hs : HonestAt H e axis index i s) :
    ∃ root leafIdx, rootAndLeafIdx dah axis index s.proofAxis i = (some root, leafIdx) ∧ s.proof.start = leafIdx ∧
      luminaVerifyRange H s.proof root [s.share] s.ns = .ok () := by
  obtain ⟨smp, hnew, hns, hsh, hpf⟩ := hs
  have hr : (axisCoord axis index i).1 < e.width := by cases axis <;> simp [axisCoord] <;> omega
  have hc : (axisCoord axis index i).2 < e.width := by cases axis <;> simp [axisCoord] <;> omega
  obtain ⟨s', hnew', _, hver, _⟩ := sample_complete_core hl hv hd _ _ hr hc s.proofAxis
  rw [hnew] at hnew'
  injection hnew' with hnew'
  subst hnew'
  have hpt := new_proofType hnew
  unfold Lumina.Model.Sample.verify at hver
  cases hrr : dah.rowRoot? (axisCoord axis index i).1 with
  | none => simp [hrr] at hver
  | some rr =>
    cases hcr : dah.colRoot? (axisCoord axis index i).2 with
    | none => simp [hrr, hcr] at hver
    | some cr =>
      simp only [hrr, hcr, hpt] at hver
      rw [hns, hsh, hpf]
      cases hpa : s.proofAxis with
      | row =>
        simp only [hpa] at hver
        split at hver
        · cases hver
        · rename_i hstart
          cases hvr : luminaVerifyRange H smp.proof rr [smp.share.data] smp.share.ns with
          | error er => simp [hvr] at hver
          | ok u =>
            cases axis with
            | row =>
              simp only [axisCoord] at hrr hstart hvr
              exact ⟨rr, i, by simp [rootAndLeafIdx, hrr], by simpa using hstart, hvr⟩
            | col =>
              simp only [axisCoord] at hrr hstart hvr
              exact ⟨rr, index, by simp [rootAndLeafIdx, hrr], by simpa using hstart, hvr⟩
      | col =>
        simp only [hpa] at hver
        split at hver
        · cases hver
        · rename_i hstart
          cases hvr : luminaVerifyRange H smp.proof cr [smp.share.data] smp.share.ns with
          | error er => simp [hvr] at hver
          | ok u =>
            cases axis with
            | row =>
              simp only [axisCoord] at hcr hstart hvr
              exact ⟨cr, index, by simp [rootAndLeafIdx, hcr], by simpa using hstart, hvr⟩
            | col =>
              simp only [axisCoord] at hcr hstart hvr
              exact ⟨cr, i, by simp [rootAndLeafIdx, hcr], by simpa using hstart, hvr⟩

/-- the whole loop passes on honest shares -/
theorem verifyShares_honest {H : HashFn} (hl : HashLen H) {e : Eds} {k : Nat} (hv : ValidSquare e k) {dah : Dah}
    (hd : Dah.ofEds H e = .ok dah) {axis : Axis} {index : Nat} (hidx : index < e.width) :
    ∀ (shares : List (Option ShareWithProof)) (i0 : Nat), i0 + shares.length ≤ e.width →
      (∀ m s, shares[m]? = some (some s) → HonestAt H e axis index (i0 + m) s) →
      verifyShares Flags.fixed H dah axis index shares i0 = .ok () := by
  intro shares
  induction shares with
  | nil => intro _ _ _; rfl
  | cons o rest ih =>
    intro i0 hlen hh
    have hrest := ih (i0 + 1) (by simp at hlen; omega) (fun m s hm => by
      have := hh (m + 1) s (by simpa using hm)
      have e1 : i0 + (m + 1) = i0 + 1 + m := by omega
      rw [e1] at this; exact this)
    cases o with
    | none => simp only [verifyShares]; exact hrest
    | some s =>
      have hs := hh 0 s rfl
      simp only [Nat.add_zero] at hs
      obtain ⟨root, leafIdx, h1, h2, h3⟩ := honest_share_check hl hv hd hidx (by simp at hlen; omega) hs
      simp only [verifyShares, h1, Flags.fixed, Bool.true_and, h2, ne_eq, not_true_eq_false, decide_false,
        Bool.false_eq_true, ↓reduceIte, h3]
      exact hrest

/-! ## the re-encoding check on an axis that is not a codeword -/

/-- when leopard's `encode` accepts its arguments, all shards have one length, a positive multiple of 64 -/
theorem encodeErr_false_sizes {l : List Bytes} {k : Nat} (h : leopardEncodeErr l k = false) :
    ∃ n, 64 ≤ n ∧ ∀ s ∈ l, s.length = n := by
  unfold leopardEncodeErr at h
  simp only at h
  split_ifs at h
  all_goals
    rename_i hsz hany
    refine ⟨shardSize l, ?_, ?_⟩
    · have : shardSize l % 64 = 0 := by simpa using h
      omega
    · intro s hs
      simp only [Bool.not_eq_true, List.any_eq_false] at hany
      have := hany s hs
      simpa using this

/-- the namespace the loop files the `n`-th leaf under (when it does not bail out) -/
def nsOfLeaf (k index n : Nat) (sh : Bytes) : Bytes :=
  if n < k ∧ index < k then sh.take NS_SIZE else parityNs

def leafNsList (k index : Nat) : List Bytes → Nat → List Bytes
  | [], _ => []
  | sh :: rest, n => nsOfLeaf k index n sh :: leafNsList k index rest (n + 1)

/-- the namespace the (fixed) loop gives a leaf of at least 29 bytes: none ("befp is legit") or `nsOfLeaf`, 29 bytes -/
theorem leafNs_fixed (k index n : Nat) {sh : Bytes} (hl : NS_SIZE ≤ sh.length) :
    leafNs Flags.fixed k index n sh = .ok none ∨
      (leafNs Flags.fixed k index n sh = .ok (some (nsOfLeaf k index n sh)) ∧ (nsOfLeaf k index n sh).length = NS_SIZE) := by
  unfold leafNs nsOfLeaf
  simp only [Flags.fixed, Bool.not_true, Bool.false_or]
  have hl' : ¬ sh.length < NS_SIZE := by omega
  by_cases hq : n < k ∧ index < k
  · have hq' : (decide (n < k) && decide (index < k)) = true := by simp [hq.1, hq.2]
    simp only [hq', ↓reduceIte, hl', hq, and_self]
    cases hf : Lumina.Model.Namespace.fromRaw (sh.take NS_SIZE) with
    | error er => left; rfl
    | ok ns =>
      right
      have hns := fromRaw_eq hf
      subst hns
      exact ⟨by simp, by rw [List.length_take]; omega⟩
  · have hq' : (decide (n < k) && decide (index < k)) = false := by
      simp only [Bool.and_eq_false_iff, decide_eq_false_iff_not]
      by_cases h1 : n < k
      · right; exact fun h2 => hq ⟨h1, h2⟩
      · left; exact h1
    simp only [hq', Bool.false_eq_true, ↓reduceIte, hq]
    right
    exact ⟨by simp, by decide⟩

/-- what the rebuild loop returns when it does not bail out: the leaf hashes of the shares under the namespaces
    `leafNsList` (29 bytes each, in non-decreasing order) -/
theorem rebuildLeaves_some (H : HashFn) (k index : Nat) : ∀ (full : List Bytes) (n : Nat) (hi : Bytes) (hs : List NsHash),
    (∀ s ∈ full, NS_SIZE ≤ s.length) →
    rebuildLeaves Flags.fixed H k index full n hi = .ok (some hs) →
    hs = List.zipWith (hashLeaf H) (leafNsList k index full n) full ∧ (leafNsList k index full n).length = full.length ∧
      (∀ ns ∈ leafNsList k index full n, ns.length = NS_SIZE ∧ leB hi ns = true) ∧
      (leafNsList k index full n).Pairwise (fun a b => leB a b = true)
  | [], _, _, hs, _, h => by
    simp only [rebuildLeaves, Except.ok.injEq, Option.some.injEq] at h
    subst h
    exact ⟨rfl, rfl, by simp [leafNsList], by simp [leafNsList]⟩
  | sh :: rest, n, hi, hs, hsz, h => by
    simp only [rebuildLeaves] at h
    rcases leafNs_fixed k index n (hsz sh (by simp)) with hn | ⟨hn, hnl⟩
    · simp [hn] at h
    · simp only [hn] at h
      split at h
      · cases h
      · rename_i hlt
        have hle : leB hi (nsOfLeaf k index n sh) = true := by unfold leB; simpa using hlt
        cases hr : rebuildLeaves Flags.fixed H k index rest (n + 1) (nsOfLeaf k index n sh) with
        | error er => simp [hr] at h
        | ok o =>
          cases o with
          | none => simp [hr] at h
          | some hs' =>
            simp only [hr, Except.ok.injEq, Option.some.injEq] at h
            subst h
            obtain ⟨e1, e2, e3, e4⟩ := rebuildLeaves_some H k index rest (n + 1) _ hs'
              (fun s hs => hsz s (List.mem_cons_of_mem _ hs)) hr
            refine ⟨by simp [leafNsList, e1], by simp [leafNsList, e2], ?_, ?_⟩
            · intro x hx
              simp only [leafNsList, List.mem_cons] at hx
              rcases hx with rfl | hx
              · exact ⟨hnl, hle⟩
              · exact ⟨(e3 x hx).1, Lumina.Proofs.NmtOrder.leB_trans hle (e3 x hx).2⟩
            · simp only [leafNsList, List.pairwise_cons]
              exact ⟨fun x hx => (e3 x hx).2, e4⟩

/-- with shares of at least 29 bytes the (fixed) rebuild loop cannot fail: it returns leaves or bails out -/
theorem rebuildLeaves_no_error (H : HashFn) (k index : Nat) : ∀ (full : List Bytes) (n : Nat) (hi : Bytes),
    (∀ s ∈ full, NS_SIZE ≤ s.length) → ∀ er, rebuildLeaves Flags.fixed H k index full n hi ≠ .error er
  | [], _, _, _, _ => by simp [rebuildLeaves]
  | sh :: rest, n, hi, hsz, er => by
    have ih := fun ns => rebuildLeaves_no_error H k index rest (n + 1) ns (fun s hs => hsz s (List.mem_cons_of_mem _ hs))
    simp only [rebuildLeaves]
    rcases leafNs_fixed k index n (hsz sh (by simp)) with hn | ⟨hn, _⟩
    · simp [hn]
    · simp only [hn]
      split
      · simp
      · cases hr : rebuildLeaves Flags.fixed H k index rest (n + 1) (nsOfLeaf k index n sh) with
        | error e' => exact (ih _ e' hr).elim
        | ok o => cases o <;> simp

theorem reconstructStep_length {C : Codec} (hreclen : ∀ l, (C.recon l).length = l.length) {k : Nat} {rebuilt recd : List Bytes}
    (h : reconstructStep C k rebuilt = some recd) : recd.length = rebuilt.length := by
  unfold reconstructStep at h
  split at h
  · cases h
  · injection h with h; rw [← h]
  · injection h with h; rw [← h, hreclen]

/-- equal leaf-hash lists: equal data (no collision among the leaf preimages of both sides, 29-byte namespaces) -/
theorem zipWith_leaf_inj {H : HashFn} {S : Bytes → Prop} (hi : NoCollOn H S) : ∀ (nss : List Bytes) (full : List Bytes) (cs : List Share),
    nss.length = full.length → (∀ ns ∈ nss, ns.length = NS_SIZE) → (∀ c ∈ cs, c.ns.length = NS_SIZE) →
    (∀ p ∈ nss.zip full, S (leafInput p.1 p.2)) → (∀ c ∈ cs, S (leafInput c.ns c.data)) →
    List.zipWith (hashLeaf H) nss full = cs.map (Share.leafHash H) → full = cs.map Share.data
  | [], [], cs, _, _, _, _, _, h => by
    cases cs with
    | nil => rfl
    | cons c t => simp at h
  | [], _ :: _, _, hl, _, _, _, _, _ => by simp at hl
  | _ :: _, [], _, hl, _, _, _, _, _ => by simp at hl
  | ns :: nss, d :: full, cs, hl, h1, h2, hS1, hS2, h => by
    cases cs with
    | nil => simp at h
    | cons c t =>
      simp only [List.zipWith_cons_cons, List.map_cons, List.cons.injEq] at h ⊢
      obtain ⟨hh, ht⟩ := h
      refine ⟨?_, zipWith_leaf_inj hi nss full t (by simpa using hl) (fun x hx => h1 x (List.mem_cons_of_mem _ hx))
        (fun x hx => h2 x (List.mem_cons_of_mem _ hx))
        (fun p hp => hS1 p (by simp only [List.zip_cons_cons]; exact List.mem_cons_of_mem _ hp))
        (fun x hx => hS2 x (List.mem_cons_of_mem _ hx)) ht⟩
      unfold Share.leafHash at hh
      have hn : ns.length = c.ns.length := by rw [h1 ns (by simp), h2 c (by simp)]
      exact (hashLeaf_inj_on hi hn (hS1 (ns, d) (by simp)) (hS2 c (by simp)) (congrArg NsHash.hash hh)).2

/-- the byte strings hashed by the re-encoding check of `validate` on the rebuilt axis: the leaves of the re-encoded axis
    (under the namespaces the loop assigns) and the inner nodes of its tree -/
def encodingInputs (H : HashFn) (C : Codec) (k index : Nat) (rebuilt : List Bytes) : List Bytes :=
  match reconstructStep C k rebuilt with
  | none => []
  | some recd =>
    ((leafNsList k index (recd.take k ++ C.enc (recd.take k)) 0).zip (recd.take k ++ C.enc (recd.take k))).map
        (fun p => leafInput p.1 p.2) ++
      rootInputs H true
        ((List.zipWith (hashLeaf H) (leafNsList k index (recd.take k ++ C.enc (recd.take k)) 0)
          (recd.take k ++ C.enc (recd.take k))).length + 1)
        (List.zipWith (hashLeaf H) (leafNsList k index (recd.take k ++ C.enc (recd.take k)) 0)
          (recd.take k ++ C.enc (recd.take k)))

/-- **the encoding check accepts ("befp is legit") whenever the committed axis is not a codeword** — whatever the
    rebuilt shares are: what comes out of reconstruct + encode IS a codeword, so its tree cannot have the committed root
    (no collision among the inputs hashed for the committed square and for the re-encoded axis) -/
theorem checkEncoding_noncodeword {H : HashFn} (C : Codec) {ver : Nat} {X : List Bytes} {e : Eds}
    (hn : NewOK ver X e) {dah : Dah} (hd : Dah.ofEds H e = .ok dah) (axis : Axis) {index : Nat} (hidx : index < e.width)
    (rebuilt : List Bytes) (hrl : rebuilt.length = e.width)
    (hk : HashOKOn H (fun y => y ∈ edsInputs H e ++ encodingInputs H C (e.width / 2) index rebuilt))
    (hnc : ¬ IsCodeword C.enc (e.width / 2) (axisData e X axis index))
    (hencsz : ∀ l, (∀ s ∈ l, 64 ≤ s.length) → ∀ s ∈ C.enc l, NS_SIZE ≤ s.length)
    (hreclen : ∀ l, (C.recon l).length = l.length) :
    checkEncoding Flags.fixed H C dah axis index (e.width / 2) rebuilt = .ok () := by
  obtain ⟨hrl', hcl, hrows, hcols⟩ := dah_ofEds_roots hd
  unfold checkEncoding
  cases hrs : reconstructStep C (e.width / 2) rebuilt with
  | none => rfl
  | some recd =>
    simp only
    have hrecl : recd.length = e.width := by rw [reconstructStep_length hreclen hrs, hrl]
    cases hee : leopardEncodeErr recd (e.width / 2) with
    | true => rfl
    | false =>
      simp only [Bool.false_eq_true, ↓reduceIte]
      obtain ⟨n, hn64, hsizes⟩ := encodeErr_false_sizes hee
      have htk : ∀ s ∈ recd.take (e.width / 2), 64 ≤ s.length := fun s hs => by
        rw [hsizes s (List.mem_of_mem_take hs)]; exact hn64
      generalize hfull' : recd.take (e.width / 2) ++ C.enc (recd.take (e.width / 2)) = full at *
      have hfull : ∀ s ∈ full, NS_SIZE ≤ s.length := by
        intro s hs
        rw [← hfull'] at hs
        rcases List.mem_append.mp hs with h | h
        · have := htk s h; simp only [NS_SIZE]; omega
        · exact hencsz _ htk s h
      cases hrb : rebuildLeaves Flags.fixed H (e.width / 2) index full 0 (List.replicate NS_SIZE 0) with
      | error er => exact (rebuildLeaves_no_error H _ _ _ _ _ hfull er hrb).elim
      | ok o =>
        cases o with
        | none => rfl
        | some hs =>
          simp only
          obtain ⟨e1, e2, e3, e4⟩ := rebuildLeaves_some H _ _ _ _ _ hs hfull hrb
          generalize hnss : leafNsList (e.width / 2) index full 0 = nss at *
          -- membership of the hashed inputs
          have hSenc : ∀ y, y ∈ (nss.zip full).map (fun p => leafInput p.1 p.2) ++ rootInputs H true (hs.length + 1) hs →
              y ∈ edsInputs H e ++ encodingInputs H C (e.width / 2) index rebuilt := by
            intro y hy
            apply List.mem_append_right
            unfold encodingInputs
            rw [hrs]
            simp only [hfull', hnss, ← e1]
            exact hy
          -- the committed root of the axis
          obtain ⟨r, hr1, hr2⟩ := hn.axisRoot H axis hidx
          have hroot : dah.root? axis index = some r := by
            cases axis with
            | row =>
              obtain ⟨r', h1, h2⟩ := hrows index hidx
              rw [hr1] at h1; injection h1 with h1
              simp only [Dah.root?, Dah.rowRoot?, h2, h1]
            | col =>
              obtain ⟨r', h1, h2⟩ := hcols index hidx
              rw [hr1] at h1; injection h1 with h1
              simp only [Dah.root?, Dah.colRoot?, h2, h1]
          rw [hroot]
          simp only
          have hzip : hs = (nss.zip full).map (fun p => hashLeaf H p.1 p.2) := by
            rw [e1, List.map_zip_eq_zipWith]
            rfl
          have hne : hs ≠ [] := by
            rw [e1]
            intro h0
            have := congrArg List.length h0
            rw [List.length_zipWith, e2] at this
            rw [← hfull'] at this
            simp only [Nat.min_self, List.length_append, List.length_take, List.length_nil] at this
            obtain ⟨j, hj1, _, hj⟩ := hn.pow
            have : 2 ≤ e.width := by
              rw [hj]
              calc 2 = 2 ^ 1 := rfl
                _ ≤ 2 ^ j := Nat.pow_le_pow_right (by omega) hj1
            omega
          obtain ⟨root', hroot'⟩ := computeRoot_sorted H true hne
            (by rw [hzip]; intro x hx; obtain ⟨p, _, rfl⟩ := List.mem_map.mp hx; exact hashLeaf_nodeOK H p.1 p.2)
            (by
              rw [hzip]
              apply leaves_pairwise
              rw [List.map_fst_zip (by rw [e2])]
              exact e4)
          rw [hroot']
          simp only
          by_cases heq : root' = r
          · exfalso
            subst heq
            have al : AllLeafOn H (fun y => y ∈ edsInputs H e ++ encodingInputs H C (e.width / 2) index rebuilt) hs := by
              rw [hzip]; intro x hx
              obtain ⟨p, hp, rfl⟩ := List.mem_map.mp hx
              exact ⟨p.1, p.2, (e3 p.1 (List.of_mem_zip hp).1).1, rfl,
                hSenc _ (List.mem_append_left _ (List.mem_map.mpr ⟨p, hp, rfl⟩))⟩
            have hax := hn.axis axis hidx
            have hcsz : ∀ sh ∈ lineCells e.width X axis index, NS_SIZE ≤ sh.data.length := by
              intro sh hsh; rw [(hn.cells index hidx axis sh hsh).size]; decide
            have al' : AllLeafOn H (fun y => y ∈ edsInputs H e ++ encodingInputs H C (e.width / 2) index rebuilt)
                ((lineCells e.width X axis index).map (Share.leafHash H)) :=
              (axis_allLeafOn hax hcsz).mono (fun y hy => List.mem_append_left _ (axisInputs_mem_eds hidx hy))
            have hlists := computeRoot_hash_inj_on hk (List.mem_append_left _ (nil_mem_edsInputs H e)) al al'
              (fun y hy => hSenc y (List.mem_append_right _ hy))
              (fun y hy => List.mem_append_left _ (axisInputs_mem_eds hidx (axis_rootInputs_mem hax hy)))
              hroot' hr2 rfl
            rw [e1] at hlists
            have hdata := zipWith_leaf_inj hk.inj nss full (lineCells e.width X axis index) e2 (fun ns h => (e3 ns h).1)
              (fun c hc => ns_length (hn.cells index hidx axis c hc).size)
              (fun p hp => hSenc _ (List.mem_append_left _ (List.mem_map.mpr ⟨p, hp, rfl⟩)))
              (fun c hc => List.mem_append_left _ (axisInputs_mem_eds hidx (by
                unfold axisInputs; rw [hax]
                exact List.mem_append_left _ (List.mem_map.mpr ⟨c, hc, rfl⟩))))
              hlists
            -- so the committed axis is `data ++ enc data`
            apply hnc
            have hax' : axisData e X axis index = recd.take (e.width / 2) ++ C.enc (recd.take (e.width / 2)) := by
              rw [hfull']; exact hdata.symm
            have htl : (recd.take (e.width / 2)).length = e.width / 2 := by rw [List.length_take, hrecl]; omega
            have hal : (axisData e X axis index).length = e.width := by simp [axisData, lineCells]
            obtain ⟨j, hj1, _, hj⟩ := hn.pow
            have hw2 : 2 * (e.width / 2) = e.width := by
              obtain ⟨j', rfl⟩ : ∃ j', j = j' + 1 := ⟨j - 1, by omega⟩
              rw [hj, Nat.pow_succ]; omega
            refine ⟨by rw [hal]; exact hw2.symm, ?_⟩
            rw [hax', List.drop_left' htl, List.take_left' htl]
          · have : (root' == r) = false := by simpa using heq
            simp [this]

end Lumina.Proofs.BefpComplete

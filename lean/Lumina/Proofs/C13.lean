/-
  Bridge between the RFC-6962 definitions of `Spec/C13.lean` (largest power of two below n by
  doubling, MTH, PATH with fuel) and the model (`next_power_of_two()/2` via `log2`, well-founded
  `root`, `auntsOf`), plus the per-proof soundness/completeness statements of `MerkleProof::verify`.
-/
import Lumina.Proofs.Merkle
import Lumina.Model.RowProof
import Lumina.Spec.C13

namespace Lumina.Proofs.C13
open Lumina.Util Lumina.Model.Merkle Lumina.Proofs.Merkle
open Lumina.Spec.C13

variable {D : Type}

/-! ### largest power of two below n -/

theorem log2_unique (n j : Nat) (h1 : 2 ^ j < n) (h2 : n ≤ 2 ^ (j + 1)) : (n - 1).log2 = j := by
  have hn : n - 1 ≠ 0 := by
    have : 0 < 2 ^ j := Nat.pow_pos (by decide)
    omega
  have a : j ≤ (n - 1).log2 := (Nat.le_log2 hn).2 (by omega)
  have b : (n - 1).log2 < j + 1 := (Nat.log2_lt hn).2 (by omega)
  omega

theorem pow2BelowGo_eq (n : Nat) : ∀ (f j : Nat), 2 ^ j < n → n ≤ 2 ^ (j + 1 + f) →
    pow2BelowGo n f (2 ^ j) = 2 ^ (n - 1).log2 := by
  intro f
  induction f with
  | zero =>
    intro j h1 h2
    simp only [pow2BelowGo]
    rw [log2_unique n j h1 (by simpa using h2)]
  | succ f ih =>
    intro j h1 h2
    simp only [pow2BelowGo]
    by_cases h : 2 * 2 ^ j < n
    · rw [if_pos h]
      have e : 2 * 2 ^ j = 2 ^ (j + 1) := by rw [Nat.pow_succ]; omega
      rw [e]
      apply ih (j + 1) (by omega)
      have : j + 1 + 1 + f = j + 1 + (f + 1) := by omega
      rw [this]; exact h2
    · rw [if_neg h]
      have e : 2 * 2 ^ j = 2 ^ (j + 1) := by rw [Nat.pow_succ]; omega
      rw [log2_unique n j h1 (by omega)]

/-- the doubling definition of the RFC and `next_power_of_two() / 2` agree (n ≥ 2) -/
theorem largestPow2Below_eq (n : Nat) (h : 2 ≤ n) : largestPow2Below n = splitPoint n := by
  rw [splitPoint_eq n h]
  unfold largestPow2Below
  have := pow2BelowGo_eq n n 0 (by simp; omega) (by
    have : n < 2 ^ n := Nat.lt_two_pow_self
    have e : 2 ^ (0 + 1 + n) = 2 * 2 ^ n := by rw [Nat.add_comm, Nat.pow_add]; omega
    omega)
  simpa using this

/-! ### MTH / PATH with fuel = the model's root / audit path -/

theorem mth_eq_root (H : HashFns D) : ∀ (f : Nat) (l : List Bytes), l.length ≤ f → mth H f l = root H l := by
  intro f
  induction f with
  | zero =>
    intro l hl
    have : l = [] := List.eq_nil_of_length_eq_zero (by omega)
    subst this
    simp [mth, root_nil]
  | succ f ih =>
    intro l hl
    match l, hl with
    | [], _ => simp [mth, root_nil]
    | [x], _ => simp [mth, root_singleton]
    | a :: b :: rest, hl =>
      have h2 : 2 ≤ (a :: b :: rest).length := by simp
      have hk1 := splitPoint_lt _ h2
      have hk0 := splitPoint_pos _ h2
      rw [root_split H _ h2]
      simp only [mth]
      rw [largestPow2Below_eq _ h2]
      rw [ih _ (by simp only [List.length_take]; omega), ih _ (by simp only [List.length_drop]; omega)]

theorem treeRoot_eq_root (H : HashFns D) (l : List Bytes) : treeRoot H l = root H l :=
  mth_eq_root H l.length l (Nat.le_refl _)

theorem path_eq_auntsOf (H : HashFns D) : ∀ (f m : Nat) (l : List Bytes), l.length ≤ f →
    path H f m l = auntsOf H m l := by
  intro f
  induction f with
  | zero =>
    intro m l hl
    have : l = [] := List.eq_nil_of_length_eq_zero (by omega)
    subst this
    simp [path, auntsOf_short]
  | succ f ih =>
    intro m l hl
    by_cases h2 : 2 ≤ l.length
    · have hk1 := splitPoint_lt _ h2
      have hk0 := splitPoint_pos _ h2
      have ht : (l.take (splitPoint l.length)).length ≤ f := by simp only [List.length_take]; omega
      have hd : (l.drop (splitPoint l.length)).length ≤ f := by simp only [List.length_drop]; omega
      rw [auntsOf_split H m l h2]
      simp only [path]
      rw [if_neg (by omega), largestPow2Below_eq _ h2]
      rw [ih _ _ ht, ih _ _ hd, mth_eq_root H f _ ht, mth_eq_root H f _ hd]
    · rw [auntsOf_short H m l (by omega)]
      simp only [path]
      rw [if_pos (by omega)]

theorem auditPath_eq (H : HashFns D) (m : Nat) (l : List Bytes) : auditPath H m l = auntsOf H m l :=
  path_eq_auntsOf H l.length m l (Nat.le_refl _)

/-! ### `MerkleProof::verify` -/

def obsOf (p : Proof D) : ProofObs D :=
  { index := p.index, total := p.total, leafHash := p.leafHash, aunts := p.aunts }

def resOf : Outcome → Res
  | .ok => .ok
  | .err _ => .err
  | .panic => .panic

/-- what acceptance by the (fixed) `verify` means in terms of the recursion -/
theorem verify_ok_iff [DecidableEq D] (H : HashFns D) (p : Proof D) (leaf : Bytes) (rt : D) :
    p.verify H leaf rt = .ok ↔
      (H.leaf leaf = p.leafHash ∧ p.index < p.total ∧ p.total ≤ usizeHalf ∧
        subtreeRootRev H p.index p.total (H.leaf leaf) p.aunts.reverse = .ok rt) := by
  unfold Proof.verify subtreeRootFromAunts
  simp only
  by_cases h1 : H.leaf leaf = p.leafHash
  · by_cases h2 : p.total ≤ p.index
    · simp [h1, h2]; intro a; omega
    · by_cases h3 : usizeHalf < p.total
      · simp [h1, h2, h3]; intro _ b; omega
      · simp only [ne_eq, h1, not_true_eq_false, ↓reduceIte, h2, h3, true_and]
        cases hs : subtreeRootRev H p.index p.total p.leafHash p.aunts.reverse with
        | error e => simp
        | ok r =>
          by_cases h4 : r = rt
          · simp [h4]; omega
          · simp [h4]
  · simp [h1]

/-- soundness in the model's own terms: position binding, leaf binding, uniqueness of the aunts -/
theorem verify_sound [DecidableEq D] (H : HashFns D) (hinj : InnerInj H) (hleaf : LeafInj H)
    (L : List Bytes) (p : Proof D) (leaf : Bytes)
    (hv : p.verify H leaf (root H L) = .ok) (ht : p.total = L.length) :
    p.index < p.total ∧ L[p.index]? = some leaf ∧ p.aunts = auntsOf H p.index L := by
  obtain ⟨_, hlt, _, hs⟩ := (verify_ok_iff H p leaf (root H L)).1 hv
  rw [ht] at hs
  have hm : p.index < L.length := by omega
  obtain ⟨hd, hr⟩ := subtreeRootRev_sound H hinj p.aunts.reverse L p.index (H.leaf leaf) hm hs
  refine ⟨hlt, ?_, ?_⟩
  · have := hleaf _ _ hd
    rw [this, List.getD_eq_getElem?_getD, List.getElem?_eq_getElem hm]
    simp
  · have := congrArg List.reverse hr
    simpa using this

/-- completeness: the proof built by `MerkleProof::new` verifies -/
theorem new_verifies [DecidableEq D] (H : HashFns D) (L : List Bytes) (i : Nat) (hi : i < L.length)
    (hsz : L.length ≤ usizeHalf) :
    ∃ p, Proof.new H i L = .ok (p, root H L) ∧ p.index = i ∧ p.total = L.length ∧
      p.leafHash = H.leaf (L.getD i []) ∧ p.aunts = auntsOf H i L ∧
      p.verify H (L.getD i []) (root H L) = .ok := by
  unfold Proof.new
  rw [if_neg (by omega)]
  have he := hlca_eq H L.length L (Nat.le_refl _) 0 i []
  rw [if_pos (by omega)] at he
  simp only [List.nil_append, Nat.sub_zero] at he
  refine ⟨{ index := i, total := L.length, leafHash := H.leaf (L.getD i []), aunts := auntsOf H i L },
    ?_, rfl, rfl, rfl, rfl, ?_⟩
  · simp only [he]
  · rw [verify_ok_iff]
    exact ⟨rfl, hi, hsz, subtreeRootRev_auntsOf H L.length L (Nat.le_refl _) i hi⟩

/-! ### `RowProof::verify` -/

open Lumina.Model.RowProof (RowProof verifyLoop rowProofLoop)

def rowObsOf (rp : RowProof D) : RowProofObs D :=
  { rowRoots := rp.rowRoots, proofs := rp.proofs.map obsOf, startRow := rp.startRow, endRow := rp.endRow }

def rowResOf : Lumina.Model.RowProof.Outcome → Res
  | .ok => .ok
  | .err _ => .err
  | .panic => .panic

/-- the (fixed) per-proof verifier never aborts when `total ≤ 2^63` (what `TryFrom<RawMerkleProof>`
    guarantees: `total` is read from an `i64`) -/
theorem verify_ne_panic [DecidableEq D] (H : HashFns D) (p : Proof D) (leaf : Bytes) (rt : D)
    (hb : p.total ≤ usizeHalf) : p.verify H leaf rt ≠ .panic := by
  unfold Proof.verify
  simp only
  split
  · simp
  · split
    · simp
    · rw [if_neg (by omega)]
      split
      · simp
      · split <;> simp

theorem verifyLoop_ne_panic [DecidableEq D] (H : HashFns D) (rt : D) :
    ∀ (rs : List Bytes) (ps : List (Proof D)), (∀ p ∈ ps, p.total ≤ usizeHalf) →
      verifyLoop (fun p leaf r => p.verify H leaf r) rt rs ps ≠ .panic := by
  intro rs
  induction rs with
  | nil => intro ps _; cases ps <;> simp [verifyLoop]
  | cons r rs ih =>
    intro ps hb
    cases ps with
    | nil => simp [verifyLoop]
    | cons p ps =>
      simp only [verifyLoop]
      have hp := verify_ne_panic H p r rt (hb p (by simp))
      cases hv : p.verify H r rt with
      | ok => exact ih ps (fun q hq => hb q (by simp [hq]))
      | err e => simp
      | panic => exact absurd hv hp

/-- an accepted loop means every (root, proof) pair is accepted -/
theorem verifyLoop_ok [DecidableEq D] (H : HashFns D) (rt : D) :
    ∀ (rs : List Bytes) (ps : List (Proof D)),
      verifyLoop (fun p leaf r => p.verify H leaf r) rt rs ps = .ok →
      ∀ x ∈ rs.zip ps, x.2.verify H x.1 rt = .ok := by
  intro rs
  induction rs with
  | nil => intro ps _ x hx; simp at hx
  | cons r rs ih =>
    intro ps h x hx
    cases ps with
    | nil => simp at hx
    | cons p ps =>
      simp only [verifyLoop] at h
      cases hv : p.verify H r rt with
      | ok =>
        rw [hv] at h
        simp only [List.zip_cons_cons, List.mem_cons] at hx
        cases hx with
        | inl e => subst e; exact hv
        | inr m => exact ih ps h x m
      | err e => rw [hv] at h; simp at h
      | panic => rw [hv] at h; simp at h

theorem verifyLoop_all_ok [DecidableEq D] (H : HashFns D) (rt : D) :
    ∀ (rs : List Bytes) (ps : List (Proof D)),
      (∀ x ∈ rs.zip ps, x.2.verify H x.1 rt = .ok) →
      verifyLoop (fun p leaf r => p.verify H leaf r) rt rs ps = .ok := by
  intro rs
  induction rs with
  | nil => intro ps _; cases ps <;> simp [verifyLoop]
  | cons r rs ih =>
    intro ps h
    cases ps with
    | nil => simp [verifyLoop]
    | cons p ps =>
      simp only [verifyLoop]
      rw [h (r, p) (by simp)]
      exact ih ps (fun x hx => h x (by simp [hx]))

/-- binding of every accepted pair against the tree over `all` -/
theorem bindsAll_of_ok [DecidableEq D] (H : HashFns D) (hinj : InnerInj H) (hleaf : LeafInj H)
    (all : List Bytes) :
    ∀ (rs : List Bytes) (ps : List (Proof D)),
      (∀ x ∈ rs.zip ps, x.2.verify H x.1 (root H all) = .ok) →
      bindsAll H all rs (ps.map obsOf) = true := by
  intro rs
  induction rs with
  | nil => intro ps _; cases ps <;> simp [bindsAll]
  | cons r rs ih =>
    intro ps h
    cases ps with
    | nil => simp [bindsAll]
    | cons p ps =>
      simp only [List.map_cons, bindsAll, Bool.and_eq_true]
      refine ⟨?_, ih ps (fun x hx => h x (by simp [hx]))⟩
      by_cases ht : p.total = all.length
      · obtain ⟨h1, h2, h3⟩ := verify_sound H hinj hleaf all p r (h (r, p) (by simp)) ht
        simp only [obsOf, auditPath_eq]
        simp [h2, h3, ht]
        omega
      · simp [obsOf, ht]

/-! ### `DataAvailabilityHeader::row_proof` -/

theorem rowProofLoop_ok [DecidableEq D] (H : HashFns D) (rows all : List Bytes) (hsz : all.length ≤ usizeHalf)
    (hpre : ∀ i, i < rows.length → all[i]? = rows[i]?) (hle : rows.length ≤ all.length) :
    ∀ (n s : Nat), s + n ≤ rows.length →
      ∃ ps rs, rowProofLoop H rows all (List.range' s n) = .ok (ps, rs) ∧ rs.length = n ∧ ps.length = n ∧
        pathsOk H all s rs (ps.map obsOf) = true ∧
        (∀ x ∈ rs.zip ps, x.2.verify H x.1 (root H all) = .ok) := by
  intro n
  induction n with
  | zero =>
    intro s _
    exact ⟨[], [], by simp [rowProofLoop], rfl, rfl, by simp [pathsOk], by simp⟩
  | succ n ih =>
    intro s hs
    have hs1 : s < rows.length := by omega
    have hs2 : s < all.length := by omega
    obtain ⟨ps, rs, hl, hrl, hpl, hpo, hv⟩ := ih (s + 1) (by omega)
    obtain ⟨p, hnew, hi, ht, hlh, hau, hver⟩ := new_verifies H all s hs2 hsz
    have hrow : rows[s]? = some (rows[s]) := List.getElem?_eq_getElem hs1
    have hall : all[s]? = some (rows[s]) := by rw [hpre s hs1, hrow]
    have hgd : all.getD s [] = rows[s] := by
      rw [List.getD_eq_getElem?_getD, hall]; rfl
    refine ⟨p :: ps, rows[s] :: rs, ?_, by simp [hrl], by simp [hpl], ?_, ?_⟩
    · simp only [List.range'_succ, rowProofLoop, hnew, hrow, hl]
    · simp only [List.map_cons, pathsOk, Bool.and_eq_true, beq_iff_eq, decide_eq_true_eq]
      simp only [obsOf, hi, ht, hau, hlh, hgd, auditPath_eq, hall, hpo, and_self]
    · intro x hx
      simp only [List.zip_cons_cons, List.mem_cons] at hx
      cases hx with
      | inl e => subst e; simp only; rw [← hgd]; exact hver
      | inr m => exact hv x m

theorem rowProofLoop_err (H : HashFns D) (rows all : List Bytes) :
    ∀ (n s : Nat), 0 < n → rows.length ≤ s + n - 1 →
      rowProofLoop H rows all (List.range' s n) = .error .indexOutOfRange := by
  intro n
  induction n with
  | zero => intro s h _; omega
  | succ n ih =>
    intro s _ h3
    simp only [List.range'_succ, rowProofLoop]
    cases hn : Proof.new H s all with
    | error e => rfl
    | ok pr =>
      obtain ⟨p, r⟩ := pr
      simp only
      cases hr : rows[s]? with
      | none => rfl
      | some row =>
        simp only
        have hs : s < rows.length := by
          rcases Nat.lt_or_ge s rows.length with h | h
          · exact h
          · rw [List.getElem?_eq_none h] at hr; cases hr
        rw [ih (s + 1) (by omega) (by omega)]

end Lumina.Proofs.C13

/-
  C07 soundness: `validate` (fixed code) never accepts a proof against an axis that is a codeword.
  Owner: group D2.
-/
import Lumina.Proofs.Befp

namespace Lumina.Proofs.BefpSound
open Lumina.Util Lumina.Model.Nmt Lumina.Model.Eds Lumina.Model.EdsCode Lumina.Model.Befp
open Lumina.Model.Decoders (Befp ShareWithProof)
open Lumina.Proofs.Nmt Lumina.Proofs.Eds Lumina.Proofs.EdsCode Lumina.Proofs.EdsExtend Lumina.Proofs.EdsLinear
open Lumina.Proofs.Befp Lumina.Proofs.NmtOrder
open Lumina.Spec.C08 (erase)

/-- the shares of axis `(ax, i)` of an accepted square -/
def axisData (e : Eds) (X : List Bytes) (ax : Axis) (i : Nat) : List Bytes := (lineCells e.width X ax i).map Share.data

theorem filter_map_isSome {α} (l : List (Option α)) :
    ((l.map Option.isSome).filter id).length = (l.filter Option.isSome).length := by
  induction l with
  | nil => rfl
  | cons a t ih => cases a <;> simp [List.filter_cons, ih]

theorem lineCell_parity (w : Nat) (X : List Bytes) (ax : Axis) (idx m : Nat) :
    (cell w X (axisCoord ax idx m).1 (axisCoord ax idx m).2).isParity =
      !(decide (m < w / 2) && decide (idx < w / 2)) := by
  cases ax <;> by_cases h1 : m < w / 2 <;> by_cases h2 : idx < w / 2 <;> simp [cell, axisCoord, isOdsSquare, h1, h2]

/-- the rebuilt axis is the committed axis with the absent shares erased -/
theorem rebuilt_eq_erase {w : Nat} {cw : List Bytes} (hcw : cw.length = w) :
    ∀ (shares : List (Option ShareWithProof)), shares.length = w →
    (∀ m s, shares[m]? = some (some s) → s.share = cw.getD m []) →
    rebuiltOf shares = erase (shares.map Option.isSome) cw := by
  intro shares hl hs
  apply List.ext_getElem?
  intro m
  unfold erase rebuiltOf
  rw [List.getElem?_map, List.getElem?_zipWith, List.getElem?_map]
  by_cases hm : m < w
  · have h1 : shares[m]? = some shares[m] := List.getElem?_eq_getElem (by omega)
    have h2 : cw[m]? = some cw[m] := List.getElem?_eq_getElem (by omega)
    rw [h1, h2]
    cases hsm : shares[m] with
    | none => simp
    | some s =>
      have := hs m s (by rw [h1, hsm])
      rw [List.getD_eq_getElem?_getD, h2] at this
      simp [this]
  · rw [List.getElem?_eq_none (by omega), List.getElem?_eq_none (l := cw) (by omega)]
    simp

/-- **Soundness core.**  Against the DAH of a square accepted by `new`, a proof whose indicated axis is a codeword
    (that the decoder recovers from any half) never validates — whatever shares, proofs, positions, namespaces,
    proof axes, height and index it carries.  Hash: 32-byte output and no collision among the byte strings actually hashed —
    by `Dah.ofEds` for the committed square (`edsInputs`) and by the verification of this proof's share proofs
    (`befpInputs`). -/
theorem validate_rejects_codeword {H : HashFn} (C : Codec) {ver : Nat} {X : List Bytes} {e : Eds}
    (hn : NewOK ver X e) {dah : Dah} (hd : Dah.ofEds H e = .ok dah) (p : Befp) (hwf : BefpWF p) (hh : Nat)
    (hk : HashOKOn H (fun y => y ∈ edsInputs H e ++ befpInputs H p.shares))
    (hcw : p.index < e.width → IsCodeword C.enc (e.width / 2) (axisData e X p.axis p.index) ∧
      RecOK C (e.width / 2) (axisData e X p.axis p.index)) :
    validate H C p hh dah ≠ .ok () := by
  intro hv
  obtain ⟨hrl, hcl, hrows, hcols⟩ := dah_ofEds_roots hd
  obtain ⟨j, hj1, _, hj⟩ := hn.pow
  unfold validate validateWith at hv
  simp only [Flags.fixed, Bool.true_and] at hv
  split at hv
  · cases hv
  · split at hv
    · cases hv
    · split at hv
      · cases hv
      · split at hv
        · cases hv
        · rename_i hidx
          split at hv
          · cases hv
          · rename_i hslen
            split at hv
            · cases hv
            · rename_i hcount
              split at hv
              · cases hv
              · rename_i hcap
                rw [hrl] at hidx hslen hcount hcap hv
                have hcap' : ¬ e.width > 256 := by simpa [LEOPARD_ORDER] using hcap
                have hidx' : p.index < e.width := by omega
                have hslen' : p.shares.length = e.width := by simpa using hslen
                obtain ⟨hcodeword, hrec⟩ := hcw hidx'
                cases hvs : verifyShares ⟨true, true, true⟩ H dah p.axis p.index p.shares 0 with
                | error er => simp [hvs] at hv
                | ok u =>
                  simp only [hvs] at hv
                  -- every present share is the committed share of its position
                  have hbound := verifyShares_sound hk hn (fun y hy => List.mem_append_left _ hy) hd hidx' p.shares 0 (by omega) hwf
                    (fun y hy => List.mem_append_right _ hy) hvs
                  have hcwl : (axisData e X p.axis p.index).length = e.width := by simp [axisData, lineCells]
                  have hreb := rebuilt_eq_erase hcwl p.shares hslen' (by
                    intro m s hm
                    have hmw : m < e.width := by
                      have := (List.getElem?_eq_some_iff.mp hm).1; omega
                    rw [hbound m s hm]
                    simp [axisData, lineCells, List.getD_eq_getElem?_getD, List.getElem?_map, List.getElem?_range hmw])
                  rw [hreb] at hv
                  -- the codec gives the committed axis back
                  have hw2 : e.width / 2 * 2 = e.width := by
                    obtain ⟨j', rfl⟩ : ∃ j', j = j' + 1 := ⟨j - 1, by omega⟩
                    rw [hj, Nat.pow_succ]; omega
                  have hk1 : 1 ≤ e.width / 2 := by
                    have : 2 ≤ e.width := by
                      rw [hj]
                      calc 2 = 2 ^ 1 := rfl
                        _ ≤ 2 ^ j := Nat.pow_le_pow_right (by omega) hj1
                    omega
                  have hsz : ∀ s ∈ axisData e X p.axis p.index, s.length = SHARE_SIZE := by
                    intro s hs
                    obtain ⟨sh, hsh, rfl⟩ := List.mem_map.mp hs
                    exact (hn.cells p.index hidx' p.axis sh hsh).size
                  have hml : (p.shares.map Option.isSome).length = (axisData e X p.axis p.index).length := by
                    rw [List.length_map, hslen', hcwl]
                  have hpres : e.width / 2 ≤ ((p.shares.map Option.isSome).filter id).length := by
                    rw [filter_map_isSome]; omega
                  obtain ⟨r1, r2, r3⟩ := reencode_codeword (C := C) hk1
                    (by simp only [LEOPARD_ORDER]; omega) hcodeword hsz hrec hml hpres
                  unfold checkEncoding at hv
                  rw [r1] at hv
                  simp only [r2, Bool.false_eq_true, ↓reduceIte, r3] at hv
                  -- the rebuilt tree is the committed tree
                  have hreb2 := rebuildLeaves_cells H (e.width / 2) p.index (lineCells e.width X p.axis p.index) 0
                    (List.replicate NS_SIZE 0)
                    (by
                      intro m c hm
                      have hmw : m < e.width := by
                        have := (List.getElem?_eq_some_iff.mp hm).1
                        simp [lineCells] at this; omega
                      have hc : c = cell e.width X (axisCoord p.axis p.index m).1 (axisCoord p.axis p.index m).2 := by
                        simp [lineCells, List.getElem?_map, List.getElem?_range hmw] at hm
                        exact hm.symm
                      have hmem : c ∈ lineCells e.width X p.axis p.index := List.mem_of_getElem? hm
                      have hok := hn.cells p.index hidx' p.axis c hmem
                      refine ⟨by rw [hok.size]; decide, ?_⟩
                      simp only [Nat.zero_add]
                      have hpar : c.isParity = !(decide (m < e.width / 2) && decide (p.index < e.width / 2)) := by
                        rw [hc]; exact lineCell_parity _ _ _ _ _
                      by_cases hq : m < e.width / 2 ∧ p.index < e.width / 2
                      · simp only [hq, and_self, ↓reduceIte]
                        have : c.isParity = false := by rw [hpar]; simp [hq.1, hq.2]
                        exact ⟨this, hok.ns this⟩
                      · simp only [hq, ↓reduceIte]
                        rw [hpar]
                        simp only [Bool.not_eq_true', Bool.and_eq_false_iff, decide_eq_false_iff_not]
                        by_cases h1 : m < e.width / 2
                        · right; exact fun h2 => hq ⟨h1, h2⟩
                        · left; exact h1)
                    (hn.sorted p.index hidx' p.axis)
                    (by
                      intro c hc
                      unfold leB
                      rw [not_ltB_zeros NS_SIZE c.ns (by
                        rw [ns_length (hn.cells p.index hidx' p.axis c hc).size])]
                      rfl)
                  have hax : (lineCells e.width X p.axis p.index).map Share.data = axisData e X p.axis p.index := rfl
                  simp only [Flags.fixed] at hreb2
                  rw [← hax, hreb2] at hv
                  simp only at hv
                  obtain ⟨r, hr1, hr2⟩ := hn.axisRoot H p.axis hidx'
                  have hroot : dah.root? p.axis p.index = some r := by
                    cases hpa : p.axis with
                    | row =>
                      obtain ⟨r', h1, h2⟩ := hrows p.index hidx'
                      rw [hpa] at hr1
                      rw [hr1] at h1; injection h1 with h1
                      simp only [Dah.root?, Dah.rowRoot?, h2, h1]
                    | col =>
                      obtain ⟨r', h1, h2⟩ := hcols p.index hidx'
                      rw [hpa] at hr1
                      rw [hr1] at h1; injection h1 with h1
                      simp only [Dah.root?, Dah.colRoot?, h2, h1]
                  rw [hroot] at hv
                  simp only [hr2, beq_self_eq_true, ↓reduceIte] at hv
                  cases hv

end Lumina.Proofs.BefpSound

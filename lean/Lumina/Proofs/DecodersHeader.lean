/-
  C16 helper lemmas, part 6: `ExtendedHeader::validate` in group E's model (`Lumina.Model.HeaderVerify.validate`) never
  takes its panic outcome when the validator set is as tendermint builds it.  Self-contained (only the models are
  imported), so that edits of other properties' proof files cannot break this property's build.
-/
import Lumina.Model.HeaderVerify

namespace Lumina.Proofs.Decoders
open Lumina.Model.Commit Lumina.Model.HeaderVerify

theorem lightLoop_ne_panic (ok : Nat → Nat → Bool) (needed : Nat) : ∀ (vals : List Validator) (sigs : List CSig)
    (idx tallied : Nat), tallied + sumPowers vals < U64_LIMIT → lightLoop ok needed idx tallied vals sigs ≠ .panic := by
  intro vals
  induction vals with
  | nil => intro sigs idx tallied _; simp [lightLoop]
  | cons v vs ih =>
    intro sigs idx tallied h
    have hs : sumPowers (v :: vs) = v.power + sumPowers vs := by simp [sumPowers]
    cases sigs with
    | nil => simp [lightLoop]
    | cons s ss =>
      unfold lightLoop
      split
      · split
        · simp
        · split
          · simp
          · have : ¬ tallied + v.power ≥ U64_LIMIT := by omega
            simp only [this, ↓reduceIte]
            split
            · simp
            · exact ih ss (idx + 1) (tallied + v.power) (by omega)
      · exact ih ss (idx + 1) tallied (by omega)

theorem verifyCommitLight_ne_panic (ok : Nat → Nat → Bool) (n d : Nat) (vs : ValSet) (h ch : Nat) (sigs : List CSig)
    (hwf : vs.wf = true) : verifyCommitLight ok n d vs h ch sigs ≠ .panic := by
  simp only [ValSet.wf, Bool.and_eq_true, beq_iff_eq, decide_eq_true_eq] at hwf
  obtain ⟨hT, hmax⟩ := hwf
  unfold verifyCommitLight
  split; · simp
  split; · simp
  split
  · simp
  · apply lightLoop_ne_panic
    simp only [MAX_TOTAL_VOTING_POWER] at hmax
    simp only [U64_LIMIT]
    omega

theorem validate_ne_panic {S : Type} (P : Prims S) (c : Consts) (eh : ExtHeader S)
    (hwf : eh.valset.toValSet.wf = true) : validate P c eh ≠ .panic := by
  have hl := verifyCommitLight_ne_panic (sigOracle P eh) c.lightNum c.lightDen eh.valset.toValSet
    eh.header.height eh.commit.height (eh.commit.sigs.map EntryF.toCSig) hwf
  unfold validate
  split
  · simp
  · split
    · simp
    · split
      · simp
      · split
        · simp
        · split
          · simp
          · split
            · simp
            · split
              · simp
              · generalize hv : verifyCommitLight (sigOracle P eh) c.lightNum c.lightDen eh.valset.toValSet
                  eh.header.height eh.commit.height (eh.commit.sigs.map EntryF.toCSig) = o at hl ⊢
                cases o with
                | panic => exact absurd rfl hl
                | err e => simp [commitOut]
                | ok =>
                  simp only [commitOut]
                  split
                  · simp
                  · split <;> simp

end Lumina.Proofs.Decoders

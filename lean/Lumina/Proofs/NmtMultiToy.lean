/-
  A toy 32-byte hash for NON-VACUITY examples of the theorems that assume relative collision-freeness
  (`HashOKOn H S` with `S` an explicit finite list of hashed inputs): collision-freeness on a concrete list is decidable
  and is checked by kernel evaluation (`decide +kernel`).

  `toyH x` = the little-endian 32-byte encoding of the Horner polynomial `Σ (x[i] + 1) · 257^i mod 2^256`.
  It is of course NOT collision-free on all byte strings (no 32-byte function is); it is on the few dozen inputs that
  the examples hash.
-/
import Lumina.Proofs.Nmt

namespace Lumina.Proofs.NmtMulti
open Lumina.Util Lumina.Model.Nmt Lumina.Proofs.Nmt

def toyPoly (x : Bytes) : Nat := x.foldr (fun b acc => (b.toNat + 1 + 257 * acc) % 2 ^ 256) 0

/-- toy hash with 32-byte output -/
def toyH : HashFn := fun x => (List.range 32).map (fun i => UInt8.ofNat (toyPoly x / 256 ^ i % 256))

theorem toyH_len : HashLen toyH := by intro x; simp [toyH, HASH_LEN]

/-- decidable form of `NoCollOn H (· ∈ l)` -/
def NoCollOnList (H : HashFn) (l : List Bytes) : Prop := ∀ a ∈ l, ∀ b ∈ l, H a = H b → a = b

instance (H : HashFn) (l : List Bytes) : Decidable (NoCollOnList H l) := by unfold NoCollOnList; exact inferInstance

theorem NoCollOnList.noCollOn {H : HashFn} {l : List Bytes} (h : NoCollOnList H l) : NoCollOn H (fun y => y ∈ l) :=
  fun a b ha hb hab => h a ha b hb hab

theorem hashOKOn_of_list {H : HashFn} {l : List Bytes} (hl : HashLen H) (h : NoCollOnList H l) :
    HashOKOn H (fun y => y ∈ l) := ⟨h.noCollOn, hl⟩

end Lumina.Proofs.NmtMulti

/-
  Multi-leaf range proofs of the nmt-rs model, part 5: POSITION-BINDING SOUNDNESS against perfect trees.

  `checkRangeProof_multi_sound_on`: if `check_range_proof` accepts the leaf hashes `X` at `start = s` against the root of a
  tree of `2^j` leaf hashes `L`, and the claimed range lies inside the tree (`s + |X| ≤ 2^j`), then `X` is exactly the
  block `L[s .. s+|X|)` — provided the hash has no collision among the inputs `S` that the two computations hash: the leaf
  preimages, the inner nodes of the honest root computation (`rootInputs`) and the `hash_nodes` calls of the verifier
  (`proofInputs`).  (`HashOKOn H S`, satisfiable; the earlier hypothesis `HashOK H` = injective on ALL byte strings with
  32-byte output is contradictory by pigeonhole, so the theorems stated with it were vacuous: audit item X1.)

  What nmt-rs does NOT bind (and the theorem therefore does not claim): a range proof carries no tree size — the
  verifier derives the tree shape from `(start, number of siblings)` — so for a tree whose size is not a power of two, or
  for a range claimed beyond the real size, the same proof can verify for a different position (`design_notes/C04.md`,
  `C13.md`).  The hypotheses "`2^j` leaves" and "`s + |X| ≤ 2^j`" are exactly what lumina's callers guarantee
  (square width a power of two; `Sample::verify` binds `start` to the coordinate, the C13 spec conditions on `end ≤ w`).

  Generalises the single-leaf lemmas `inner_single_shallow / _perfect / _general` of `Nmt.lean`.
-/
import Lumina.Proofs.NmtMultiComplete

namespace Lumina.Proofs.NmtMulti
open Lumina.Util Lumina.Model.Nmt Lumina.Proofs.Nmt Lumina.Proofs.NmtRange

theorem takeLast?_mem {α} {l : List α} {x : α} {r : List α} (h : takeLast? l = some (x, r)) :
    x ∈ l ∧ ∀ y ∈ r, y ∈ l := by
  have := takeLast?_some h
  subst this
  exact ⟨by simp, fun y hy => by simp [hy]⟩

/-- well-formedness is preserved by the verifier's recursion (any number of leaves) -/
theorem inner_WF {H : HashFn} (hk : HashLen H) {ign : Bool} : ∀ (fuel : Nat) {X P : List NsHash} {s size off : Nat}
    {h : NsHash} {X' P' : List NsHash},
    checkRangeProofInner H ign fuel X P s size off = .ok (h, X', P') → (∀ x ∈ X, x.WF) → (∀ p ∈ P, p.WF) →
    h.WF ∧ (∀ x ∈ X', x.WF) ∧ (∀ p ∈ P', p.WF) := by
  intro fuel
  induction fuel with
  | zero => intro X P s size off h X' P' e; simp [checkRangeProofInner] at e
  | succ f ih =>
    intro X P s size off h X2 P2 e wx wp
    obtain ⟨_, right, X1, P1, left, hR, hL, hn⟩ := inner_step e
    have hr : right.WF ∧ (∀ x ∈ X1, x.WF) ∧ (∀ p ∈ P1, p.WF) := by
      split at hR
      · split at hR
        · obtain ⟨htl, rfl⟩ := hR
          obtain ⟨h1, h2⟩ := takeLast?_mem htl
          exact ⟨wx _ h1, fun x hx => wx x (h2 x hx), wp⟩
        · exact ih hR wx wp
      · obtain ⟨htl, rfl⟩ := hR
        obtain ⟨h1, h2⟩ := takeLast?_mem htl
        exact ⟨wp _ h1, wx, fun x hx => wp x (h2 x hx)⟩
    obtain ⟨wr, wx1, wp1⟩ := hr
    have hl : left.WF ∧ (∀ x ∈ X2, x.WF) ∧ (∀ p ∈ P2, p.WF) := by
      split at hL
      · split at hL
        · obtain ⟨htl, rfl⟩ := hL
          obtain ⟨h1, h2⟩ := takeLast?_mem htl
          exact ⟨wx1 _ h1, fun x hx => wx1 x (h2 x hx), wp1⟩
        · exact ih hL wx1 wp1
      · obtain ⟨htl, rfl⟩ := hL
        obtain ⟨h1, h2⟩ := takeLast?_mem htl
        exact ⟨wp1 _ h1, wx1, fun x hx => wp1 x (h2 x hx)⟩
    obtain ⟨wl, wx2, wp2⟩ := hl
    exact ⟨hashNodes_WF hk wl wr hn, wx2, wp2⟩

theorem child_WF {H : HashFn} (hk : HashLen H) {ign : Bool} {f : Nat} {X P : List NsHash} {s csize coff : Nat}
    {h : NsHash} {X' P' : List NsHash} (hc : ChildRes H ign f X P s csize coff h X' P')
    (wx : ∀ x ∈ X, x.WF) (wp : ∀ p ∈ P, p.WF) : h.WF ∧ (∀ x ∈ X', x.WF) ∧ (∀ p ∈ P', p.WF) := by
  unfold ChildRes at hc
  split at hc
  · obtain ⟨htl, rfl⟩ := hc
    obtain ⟨h1, h2⟩ := takeLast?_mem htl
    exact ⟨wx _ h1, fun x hx => wx x (h2 x hx), wp⟩
  · exact inner_WF hk f hc wx wp

/-! ### the inputs hashed by one step of the verifier -/

/-- inputs hashed while processing a child that overlaps the range -/
def childInputs (H : HashFn) (ign : Bool) (fuel : Nat) (X P : List NsHash) (s csize coff : Nat) : List Bytes :=
  if csize = 1 then [] else innerInputs H ign fuel X P s csize coff

theorem innerInputs_unfold {H : HashFn} {ign : Bool} {fuel : Nat} {X P : List NsHash} {s size off : Nat} :
    innerInputs H ign (fuel + 1) X P s size off =
      if X.length + s = 0 then []
      else
        match (if X.length + s - 1 ≥ nextSmallerPo2 size + off then
                 childCheck H ign fuel X P s (size - nextSmallerPo2 size) (off + nextSmallerPo2 size)
               else sibTake X P) with
        | .error _ =>
          (if X.length + s - 1 ≥ nextSmallerPo2 size + off then
             childInputs H ign fuel X P s (size - nextSmallerPo2 size) (off + nextSmallerPo2 size) else [])
        | .ok (right, X1, P1) =>
          match (if s < nextSmallerPo2 size + off then childCheck H ign fuel X1 P1 s (nextSmallerPo2 size) off
                 else sibTake X1 P1) with
          | .error _ =>
            (if X.length + s - 1 ≥ nextSmallerPo2 size + off then
               childInputs H ign fuel X P s (size - nextSmallerPo2 size) (off + nextSmallerPo2 size) else []) ++
            (if s < nextSmallerPo2 size + off then childInputs H ign fuel X1 P1 s (nextSmallerPo2 size) off else [])
          | .ok (left, _, _) =>
            (if X.length + s - 1 ≥ nextSmallerPo2 size + off then
               childInputs H ign fuel X P s (size - nextSmallerPo2 size) (off + nextSmallerPo2 size) else []) ++
            (if s < nextSmallerPo2 size + off then childInputs H ign fuel X1 P1 s (nextSmallerPo2 size) off else []) ++
            [nodeInput left right] := by
  rw [innerInputs]
  rfl

theorem childCheck_of_childRes {H : HashFn} {ign : Bool} {f : Nat} {X P : List NsHash} {s csize coff : Nat}
    {h : NsHash} {X' P' : List NsHash} (hc : ChildRes H ign f X P s csize coff h X' P') :
    childCheck H ign f X P s csize coff = .ok (h, X', P') := by
  unfold ChildRes at hc
  unfold childCheck
  split
  · rename_i h1
    rw [if_pos h1] at hc
    obtain ⟨htl, rfl⟩ := hc
    rw [htl]
  · rename_i h1
    rw [if_neg h1] at hc
    exact hc

theorem sibTake_of {X P P1 : List NsHash} {x : NsHash} (h : takeLast? P = some (x, P1)) : sibTake X P = .ok (x, X, P1) := by
  unfold sibTake; rw [h]

/-- one step of `check_range_proof_inner` with the inputs it hashes: the children's inputs and the node itself -/
theorem inner_step_on {H : HashFn} {ign : Bool} {fuel : Nat} {X P : List NsHash} {s size off : Nat}
    {h : NsHash} {X2 P2 : List NsHash}
    (e : checkRangeProofInner H ign (fuel + 1) X P s size off = .ok (h, X2, P2)) :
    ∃ right X1 P1 left,
      (if X.length + s - 1 ≥ nextSmallerPo2 size + off then
         ChildRes H ign fuel X P s (size - nextSmallerPo2 size) (off + nextSmallerPo2 size) right X1 P1
       else takeLast? P = some (right, P1) ∧ X1 = X) ∧
      (if s < nextSmallerPo2 size + off then ChildRes H ign fuel X1 P1 s (nextSmallerPo2 size) off left X2 P2
       else takeLast? P1 = some (left, P2) ∧ X2 = X1) ∧
      hashNodes H ign left right = .ok h ∧
      innerInputs H ign (fuel + 1) X P s size off =
        (if X.length + s - 1 ≥ nextSmallerPo2 size + off then
           childInputs H ign fuel X P s (size - nextSmallerPo2 size) (off + nextSmallerPo2 size) else []) ++
        (if s < nextSmallerPo2 size + off then childInputs H ign fuel X1 P1 s (nextSmallerPo2 size) off else []) ++
        [nodeInput left right] := by
  obtain ⟨h0, right, X1, P1, left, hR, hL, hn⟩ := inner_step e
  have hR' : (if X.length + s - 1 ≥ nextSmallerPo2 size + off then
         ChildRes H ign fuel X P s (size - nextSmallerPo2 size) (off + nextSmallerPo2 size) right X1 P1
       else takeLast? P = some (right, P1) ∧ X1 = X) := by
    unfold ChildRes; exact hR
  have hL' : (if s < nextSmallerPo2 size + off then ChildRes H ign fuel X1 P1 s (nextSmallerPo2 size) off left X2 P2
       else takeLast? P1 = some (left, P2) ∧ X2 = X1) := by
    unfold ChildRes; exact hL
  refine ⟨right, X1, P1, left, hR', hL', hn, ?_⟩
  have hRc : (if X.length + s - 1 ≥ nextSmallerPo2 size + off then
        childCheck H ign fuel X P s (size - nextSmallerPo2 size) (off + nextSmallerPo2 size)
      else sibTake X P) = .ok (right, X1, P1) := by
    split
    · rename_i c; rw [if_pos c] at hR'; exact childCheck_of_childRes hR'
    · rename_i c; rw [if_neg c] at hR'; obtain ⟨htl, rfl⟩ := hR'; exact sibTake_of htl
  have hLc : (if s < nextSmallerPo2 size + off then childCheck H ign fuel X1 P1 s (nextSmallerPo2 size) off
      else sibTake X1 P1) = .ok (left, X2, P2) := by
    split
    · rename_i c; rw [if_pos c] at hL'; exact childCheck_of_childRes hL'
    · rename_i c; rw [if_neg c] at hL'; obtain ⟨htl, rfl⟩ := hL'; exact sibTake_of htl
  rw [innerInputs_unfold, if_neg h0, hRc]
  simp only
  rw [hLc]

/-- the leaves a call consumed are the real leaves at their claimed positions: `X'` (what is left) is the prefix of `X`
    of the leaves before `max s off`, and every position `p` of the range from there up to the last index `E` holds the
    real leaf -/
def Bind (X X' : List NsHash) (s off E : Nat) (L : List NsHash) : Prop :=
  X'.length + s = max s off ∧ (∃ XS, X = X' ++ XS) ∧ ∀ p, max s off ≤ p → p ≤ E → X[p - s]? = L[p - off]?

/-- right child only (the left one is a sibling) -/
theorem bind_right {X X1 : List NsHash} {s off E k : Nat} {L : List NsHash} (hge : off + k ≤ s)
    (hb : Bind X X1 s (off + k) E (L.drop k)) : Bind X X1 s off E L := by
  obtain ⟨h1, h2, h3⟩ := hb
  refine ⟨by omega, h2, ?_⟩
  intro p hp hpe
  rw [h3 p (by omega) hpe, List.getElem?_drop]
  congr 1; omega

/-- left child only (the right one is a sibling) -/
theorem bind_left {X X2 : List NsHash} {s off E k : Nat} {L : List NsHash} (hlt : E < off + k)
    (hb : Bind X X2 s off E (L.take k)) : Bind X X2 s off E L := by
  obtain ⟨h1, h2, h3⟩ := hb
  refine ⟨h1, h2, ?_⟩
  intro p hp hpe
  rw [h3 p hp hpe, List.getElem?_take]
  split
  · rfl
  · omega

/-- both children overlap the range -/
theorem bind_both {X X1 X2 : List NsHash} {s off E k : Nat} {L : List NsHash} (hs : s < off + k) (hE : off + k ≤ E)
    (hr : Bind X X1 s (off + k) E (L.drop k)) (hl : Bind X1 X2 s off (off + k - 1) (L.take k)) : Bind X X2 s off E L := by
  obtain ⟨r1, ⟨XSr, r2⟩, r3⟩ := hr
  obtain ⟨l1, ⟨XSl, l2⟩, l3⟩ := hl
  refine ⟨l1, ⟨XSl ++ XSr, by rw [r2, l2, List.append_assoc]⟩, ?_⟩
  intro p hp hpe
  by_cases hpk : p < off + k
  · have hx : X[p - s]? = X1[p - s]? := by
      rw [r2, List.getElem?_append_left (by omega)]
    rw [hx, l3 p hp (by omega), List.getElem?_take]
    split
    · rfl
    · omega
  · rw [r3 p (by omega) hpe, List.getElem?_drop]
    congr 1; omega

/-- a leaf-hash child: the perfect tree it equals is a single leaf -/
theorem leaf_child_on {H : HashFn} {S : Bytes → Prop} (hk : HashOKOn H S) {ign' : Bool} {X X' : List NsHash} {h : NsHash}
    {s coff j : Nat} {L : List NsHash} (htl : takeLast? X = some (h, X')) (lx : ∀ x ∈ X, IsLeafOn H S x)
    (hT : ∀ y ∈ perfectInputs H ign' j L, S y)
    (h1 : coff ≤ X.length + s - 1) (h2 : X.length + s - 1 < coff + 1)
    (pr : perfectRoot H ign' j L = .ok h) : j = 0 ∧ Bind X X' s coff (X.length + s - 1) L := by
  have hx := takeLast?_some htl
  have lh : IsLeafOn H S h := lx h (takeLast?_mem htl).1
  cases j with
  | succ j' => obtain ⟨ns, d, _, rfl, hS⟩ := lh; exact (perfectRoot_succ_ne_leaf_on hk.inj hS hT pr).elim
  | zero =>
    have hL := perfectRoot_zero pr
    have hlen : X.length = X'.length + 1 := by rw [hx]; simp
    refine ⟨rfl, by omega, ⟨[h], hx⟩, ?_⟩
    intro p hp hpe
    have hpc : p = coff := by omega
    subst hpc
    have : p - s = X'.length := by omega
    rw [this, hx, hL]
    simp

/-- shallow verifier subtree against a deeper perfect real tree: impossible (any number of leaves) -/
theorem child_shallow_on {H : HashFn} {S : Bytes → Prop} (hk : HashOKOn H S) {ign ign' : Bool} :
    ∀ (f j : Nat) {X P : List NsHash} {s csize coff : Nat} {h : NsHash} {X' P' : List NsHash} {L : List NsHash},
    (∀ x ∈ X, IsLeafOn H S x) → (∀ p ∈ P, p.WF) → AllLeafOn H S L →
    (∀ y ∈ childInputs H ign f X P s csize coff, S y) → (∀ y ∈ perfectInputs H ign' (j + 1) L, S y) →
    1 ≤ csize → csize ≤ 2 ^ j →
    coff ≤ X.length + s - 1 → X.length + s - 1 < coff + csize → 1 ≤ X.length →
    ChildRes H ign f X P s csize coff h X' P' → perfectRoot H ign' (j + 1) L = .ok h → False := by
  intro f
  induction f with
  | zero =>
    intro j X P s csize coff h X' P' L lx wp al hV hT h1 hsz hE1 hE2 hX hc pr
    unfold ChildRes at hc
    split at hc
    · obtain ⟨ns, d, _, rfl, hS⟩ := lx h (takeLast?_mem hc.1).1
      exact perfectRoot_succ_ne_leaf_on hk.inj hS hT pr
    · simp [checkRangeProofInner] at hc
  | succ f ih =>
    intro j X P s csize coff h X' P' L lx wp al hV hT h1 hsz hE1 hE2 hX hc pr
    have wx : ∀ x ∈ X, x.WF := fun x hx => (lx x hx).WF hk.hlen
    unfold ChildRes at hc
    split at hc
    · obtain ⟨ns, d, _, rfl, hS⟩ := lx h (takeLast?_mem hc.1).1
      exact perfectRoot_succ_ne_leaf_on hk.inj hS hT pr
    · rename_i hne1
      have h2 : 2 ≤ csize := by omega
      obtain ⟨m, hm, hlt, hle⟩ := nextSmallerPo2_spec csize h2
      obtain ⟨right, X1, P1, left, hR, hL, hn, hI⟩ := inner_step_on hc
      unfold childInputs at hV
      rw [if_neg hne1, hI] at hV
      have hVn : S (nodeInput left right) := hV _ (by simp)
      obtain ⟨l, r, hl, hr, hn', hPI⟩ := perfectInputs_succ pr
      have hTn : S (nodeInput l r) := hT _ (by rw [hPI]; simp)
      have hTl : ∀ y ∈ perfectInputs H ign' j (L.take (2 ^ j)), S y := fun y hy => hT y (by rw [hPI]; simp [hy])
      have hTr : ∀ y ∈ perfectInputs H ign' j (L.drop (2 ^ j)), S y := fun y hy => hT y (by rw [hPI]; simp [hy])
      have wl := perfectRoot_WF hk.hlen j (al.take _).allLeaf hl
      have wr := perfectRoot_WF hk.hlen j (al.drop _).allLeaf hr
      have hmj : m < j := (Nat.pow_lt_pow_iff_right (by omega)).mp (Nat.lt_of_lt_of_le hlt hsz)
      obtain ⟨j', rfl⟩ : ∃ j', j = j' + 1 := ⟨j - 1, by omega⟩
      have hmle : 2 ^ m ≤ 2 ^ j' := Nat.pow_le_pow_right (by omega) (by omega)
      have hp1 : 1 ≤ 2 ^ m := Nat.one_le_two_pow
      rw [hm] at hR hL hV
      have hpow : 2 ^ (m + 1) = 2 * 2 ^ m := by rw [Nat.pow_succ]; omega
      by_cases cA : X.length + s - 1 ≥ 2 ^ m + coff
      · rw [if_pos cA] at hR
        simp only [cA, ↓reduceIte] at hV
        obtain ⟨wright, wx1, wp1⟩ := child_WF hk.hlen hR wx wp
        have wleft : left.WF := by
          split at hL
          · exact (child_WF hk.hlen hL wx1 wp1).1
          · exact wp1 _ (takeLast?_mem hL.1).1
        obtain ⟨_, rfl⟩ := hashNodes_hash_inj_on hk.inj wleft wright wl wr hn hn' hVn hTn rfl
        exact ih j' lx wp (al.drop _) (fun y hy => hV y (by simp [hy])) hTr (by omega) (by omega) (by omega) (by omega)
          hX hR hr
      · rw [if_neg cA] at hR
        simp only [cA, ↓reduceIte, List.nil_append] at hV
        obtain ⟨htl, rfl⟩ := hR
        have wright : right.WF := wp _ (takeLast?_mem htl).1
        have wp1 : ∀ p ∈ P1, p.WF := fun p hp => wp p ((takeLast?_mem htl).2 p hp)
        have cL : s < 2 ^ m + coff := by omega
        rw [if_pos cL] at hL
        simp only [cL, ↓reduceIte] at hV
        obtain ⟨wleft, _, _⟩ := child_WF hk.hlen hL wx wp1
        obtain ⟨rfl, _⟩ := hashNodes_hash_inj_on hk.inj wleft wright wl wr hn hn' hVn hTn rfl
        exact ih j' lx wp1 (al.take _) (fun y hy => hV y (by simp [hy])) hTl hp1 hmle hE1 (by omega) hX hL hl

/-- perfect verifier subtree against a perfect real tree: same depth, and the consumed leaves are the real ones -/
theorem child_perfect_on {H : HashFn} {S : Bytes → Prop} (hk : HashOKOn H S) {ign ign' : Bool} :
    ∀ (f m j : Nat) {X P : List NsHash} {s coff : Nat} {h : NsHash} {X' P' : List NsHash} {L : List NsHash},
    (∀ x ∈ X, IsLeafOn H S x) → (∀ p ∈ P, p.WF) → AllLeafOn H S L →
    (∀ y ∈ childInputs H ign f X P s (2 ^ m) coff, S y) → (∀ y ∈ perfectInputs H ign' j L, S y) →
    coff ≤ X.length + s - 1 → X.length + s - 1 < coff + 2 ^ m → 1 ≤ X.length →
    ChildRes H ign f X P s (2 ^ m) coff h X' P' → perfectRoot H ign' j L = .ok h →
    j = m ∧ Bind X X' s coff (X.length + s - 1) L := by
  intro f
  induction f with
  | zero =>
    intro m j X P s coff h X' P' L lx wp al hV hT hE1 hE2 hX hc pr
    unfold ChildRes at hc
    split at hc
    · rename_i h1
      have hm0 : m = 0 := by
        cases m with
        | zero => rfl
        | succ m' => have := two_le_two_pow_succ m'; omega
      subst hm0
      exact leaf_child_on hk hc.1 lx hT hE1 (by simpa using hE2) pr
    · simp [checkRangeProofInner] at hc
  | succ f ih =>
    intro m j X P s coff h X' P' L lx wp al hV hT hE1 hE2 hX hc pr
    have wx : ∀ x ∈ X, x.WF := fun x hx => (lx x hx).WF hk.hlen
    unfold ChildRes at hc
    split at hc
    · rename_i h1
      have hm0 : m = 0 := by
        cases m with
        | zero => rfl
        | succ m' => have := two_le_two_pow_succ m'; omega
      subst hm0
      exact leaf_child_on hk hc.1 lx hT hE1 (by simpa using hE2) pr
    · rename_i hne1
      obtain ⟨m', rfl⟩ : ∃ m', m = m' + 1 := by
        cases m with
        | zero => simp at hne1
        | succ m' => exact ⟨m', rfl⟩
      obtain ⟨right, X1, P1, left, hR, hL, hn, hI⟩ := inner_step_on hc
      unfold childInputs at hV
      rw [if_neg hne1, hI] at hV
      have hVn : S (nodeInput left right) := hV _ (by simp)
      rw [nextSmallerPo2_pow] at hR hL hV
      have hsub : 2 ^ (m' + 1) - 2 ^ m' = 2 ^ m' := by rw [Nat.pow_succ]; omega
      have hpow : 2 ^ (m' + 1) = 2 ^ m' + 2 ^ m' := by rw [Nat.pow_succ]; omega
      have hp1 : 1 ≤ 2 ^ m' := Nat.one_le_two_pow
      rw [hsub] at hR hV
      cases j with
      | zero =>
        exfalso
        have hL0 := perfectRoot_zero pr
        obtain ⟨ns, d, _, rfl, hS⟩ := al h (by rw [hL0]; simp)
        exact leaf_ne_node_on hk.inj hn hS hVn rfl
      | succ j' =>
        obtain ⟨l, r, hl, hr, hn', hPI⟩ := perfectInputs_succ pr
        have hTn : S (nodeInput l r) := hT _ (by rw [hPI]; simp)
        have hTl : ∀ y ∈ perfectInputs H ign' j' (L.take (2 ^ j')), S y := fun y hy => hT y (by rw [hPI]; simp [hy])
        have hTr : ∀ y ∈ perfectInputs H ign' j' (L.drop (2 ^ j')), S y := fun y hy => hT y (by rw [hPI]; simp [hy])
        have wl := perfectRoot_WF hk.hlen j' (al.take _).allLeaf hl
        have wr := perfectRoot_WF hk.hlen j' (al.drop _).allLeaf hr
        by_cases cA : X.length + s - 1 ≥ 2 ^ m' + coff
        · rw [if_pos cA] at hR
          simp only [cA, ↓reduceIte] at hV
          obtain ⟨wright, wx1, wp1⟩ := child_WF hk.hlen hR wx wp
          have wleft : left.WF := by
            split at hL
            · exact (child_WF hk.hlen hL wx1 wp1).1
            · exact wp1 _ (takeLast?_mem hL.1).1
          obtain ⟨rfl, rfl⟩ := hashNodes_hash_inj_on hk.inj wleft wright wl wr hn hn' hVn hTn rfl
          obtain ⟨hj, hbR⟩ := ih m' j' lx wp (al.drop _) (fun y hy => hV y (by simp [hy])) hTr (by omega) (by omega) hX hR hr
          subst hj
          refine ⟨rfl, ?_⟩
          by_cases cL : s < 2 ^ j' + coff
          · rw [if_pos cL] at hL
            simp only [cL, ↓reduceIte] at hV
            have hX1 : X1.length + s = coff + 2 ^ j' := by have := hbR.1; omega
            have lx1 : ∀ x ∈ X1, IsLeafOn H S x := by
              obtain ⟨XS, hXS⟩ := hbR.2.1
              intro x hx; exact lx x (by rw [hXS]; exact List.mem_append_left _ hx)
            obtain ⟨_, hbL⟩ := ih j' j' lx1 wp1 (al.take _) (fun y hy => hV y (by simp [hy])) hTl (by omega) (by omega)
              (by omega) hL hl
            have e1 : X1.length + s - 1 = coff + 2 ^ j' - 1 := by omega
            rw [e1] at hbL
            exact bind_both (by omega) (by omega) hbR hbL
          · rw [if_neg cL] at hL
            obtain ⟨_, rfl⟩ := hL
            exact bind_right (by omega) hbR
        · rw [if_neg cA] at hR
          simp only [cA, ↓reduceIte, List.nil_append] at hV
          obtain ⟨htl, rfl⟩ := hR
          have wright : right.WF := wp _ (takeLast?_mem htl).1
          have wp1 : ∀ p ∈ P1, p.WF := fun p hp => wp p ((takeLast?_mem htl).2 p hp)
          have cL : s < 2 ^ m' + coff := by omega
          rw [if_pos cL] at hL
          simp only [cL, ↓reduceIte] at hV
          obtain ⟨wleft, _, _⟩ := child_WF hk.hlen hL wx wp1
          obtain ⟨rfl, rfl⟩ := hashNodes_hash_inj_on hk.inj wleft wright wl wr hn hn' hVn hTn rfl
          obtain ⟨hj, hbL⟩ := ih m' j' lx wp1 (al.take _) (fun y hy => hV y (by simp [hy])) hTl hE1 (by omega) hX hL hl
          subst hj
          exact ⟨rfl, bind_left (by omega) hbL⟩

/-- general verifier subtree against a perfect real tree that contains the claimed range: the consumed leaves are the
    real ones at their claimed positions -/
theorem inner_general_on {H : HashFn} {S : Bytes → Prop} (hk : HashOKOn H S) {ign ign' : Bool} :
    ∀ (f j : Nat) {X P : List NsHash} {s size off : Nat} {h : NsHash} {X' P' : List NsHash} {L : List NsHash},
    (∀ x ∈ X, IsLeafOn H S x) → (∀ p ∈ P, p.WF) → AllLeafOn H S L →
    (∀ y ∈ innerInputs H ign f X P s size off, S y) → (∀ y ∈ perfectInputs H ign' j L, S y) → 2 ≤ size →
    off ≤ X.length + s - 1 → X.length + s - 1 < off + size → X.length + s - 1 < off + 2 ^ j → 1 ≤ X.length →
    checkRangeProofInner H ign f X P s size off = .ok (h, X', P') → perfectRoot H ign' j L = .ok h →
    Bind X X' s off (X.length + s - 1) L := by
  intro f
  induction f with
  | zero => intro j X P s size off h X' P' L _ _ _ _ _ _ _ _ _ _ e; simp [checkRangeProofInner] at e
  | succ f ih =>
    intro j X P s size off h X' P' L lx wp al hV hT h2 hE1 hE2 hEj hX hc pr
    have wx : ∀ x ∈ X, x.WF := fun x hx => (lx x hx).WF hk.hlen
    obtain ⟨m, hm, hlt, hle⟩ := nextSmallerPo2_spec size h2
    obtain ⟨right, X1, P1, left, hR, hL, hn, hI⟩ := inner_step_on hc
    rw [hI] at hV
    have hVn : S (nodeInput left right) := hV _ (by simp)
    rw [hm] at hR hL hV
    have hp1 : 1 ≤ 2 ^ m := Nat.one_le_two_pow
    have hpow : 2 ^ (m + 1) = 2 * 2 ^ m := by rw [Nat.pow_succ]; omega
    cases j with
    | zero =>
      exfalso
      have hL0 := perfectRoot_zero pr
      obtain ⟨ns, d, _, rfl, hS⟩ := al h (by rw [hL0]; simp)
      exact leaf_ne_node_on hk.inj hn hS hVn rfl
    | succ j' =>
      obtain ⟨l, r, hl, hr, hn', hPI⟩ := perfectInputs_succ pr
      have hTn : S (nodeInput l r) := hT _ (by rw [hPI]; simp)
      have hTl : ∀ y ∈ perfectInputs H ign' j' (L.take (2 ^ j')), S y := fun y hy => hT y (by rw [hPI]; simp [hy])
      have hTr : ∀ y ∈ perfectInputs H ign' j' (L.drop (2 ^ j')), S y := fun y hy => hT y (by rw [hPI]; simp [hy])
      have wl := perfectRoot_WF hk.hlen j' (al.take _).allLeaf hl
      have wr := perfectRoot_WF hk.hlen j' (al.drop _).allLeaf hr
      have hpowj : 2 ^ (j' + 1) = 2 * 2 ^ j' := by rw [Nat.pow_succ]; omega
      by_cases cA : X.length + s - 1 ≥ 2 ^ m + off
      · rw [if_pos cA] at hR
        simp only [cA, ↓reduceIte] at hV
        obtain ⟨wright, wx1, wp1⟩ := child_WF hk.hlen hR wx wp
        have wleft : left.WF := by
          split at hL
          · exact (child_WF hk.hlen hL wx1 wp1).1
          · exact wp1 _ (takeLast?_mem hL.1).1
        obtain ⟨rfl, rfl⟩ := hashNodes_hash_inj_on hk.inj wleft wright wl wr hn hn' hVn hTn rfl
        have hVr : ∀ y ∈ childInputs H ign f X P s (size - 2 ^ m) (off + 2 ^ m), S y := fun y hy => hV y (by simp [hy])
        have hmj : m ≤ j' := by
          have : 2 ^ m < 2 ^ (j' + 1) := by omega
          have := (Nat.pow_lt_pow_iff_right (by omega)).mp this
          omega
        by_cases hmeq : m = j'
        · subst hmeq
          -- aligned: the right child against the real right half
          have hbR : Bind X X1 s (off + 2 ^ m) (X.length + s - 1) (L.drop (2 ^ m)) := by
            by_cases hr1 : size - 2 ^ m = 1
            · have hc0 : ChildRes H ign f X P s (2 ^ 0) (off + 2 ^ m) right X1 P1 := by
                rw [hr1] at hR; simpa using hR
              have hV0 : ∀ y ∈ childInputs H ign f X P s (2 ^ 0) (off + 2 ^ m), S y := by
                rw [hr1] at hVr; simpa using hVr
              exact (child_perfect_on hk f 0 m lx wp (al.drop _) hV0 hTr (by omega) (by simp; omega) hX hc0 hr).2
            · unfold ChildRes at hR
              rw [if_neg hr1] at hR
              unfold childInputs at hVr
              rw [if_neg hr1] at hVr
              exact ih m lx wp (al.drop _) hVr hTr (by omega) (by omega) (by omega) (by omega) hX hR hr
          by_cases cL : s < 2 ^ m + off
          · rw [if_pos cL] at hL
            simp only [cL, ↓reduceIte] at hV
            have hX1 : X1.length + s = off + 2 ^ m := by have := hbR.1; omega
            have lx1 : ∀ x ∈ X1, IsLeafOn H S x := by
              obtain ⟨XS, hXS⟩ := hbR.2.1
              intro x hx; exact lx x (by rw [hXS]; exact List.mem_append_left _ hx)
            obtain ⟨_, hbL⟩ := child_perfect_on hk f m m lx1 wp1 (al.take _) (fun y hy => hV y (by simp [hy])) hTl
              (by omega) (by omega) (by omega) hL hl
            have e1 : X1.length + s - 1 = off + 2 ^ m - 1 := by omega
            rw [e1] at hbL
            exact bind_both (by omega) (by omega) hbR hbL
          · rw [if_neg cL] at hL
            obtain ⟨_, rfl⟩ := hL
            exact bind_right (by omega) hbR
        · exfalso
          obtain ⟨j'', rfl⟩ : ∃ j'', j' = j'' + 1 := ⟨j' - 1, by omega⟩
          have : 2 ^ m ≤ 2 ^ j'' := Nat.pow_le_pow_right (by omega) (by omega)
          exact child_shallow_on hk f j'' lx wp (al.drop _) hVr hTr (by omega) (by omega) (by omega) (by omega) hX hR hr
      · rw [if_neg cA] at hR
        simp only [cA, ↓reduceIte, List.nil_append] at hV
        obtain ⟨htl, rfl⟩ := hR
        have wright : right.WF := wp _ (takeLast?_mem htl).1
        have wp1 : ∀ p ∈ P1, p.WF := fun p hp => wp p ((takeLast?_mem htl).2 p hp)
        have cL : s < 2 ^ m + off := by omega
        rw [if_pos cL] at hL
        simp only [cL, ↓reduceIte] at hV
        obtain ⟨wleft, _, _⟩ := child_WF hk.hlen hL wx wp1
        obtain ⟨rfl, rfl⟩ := hashNodes_hash_inj_on hk.inj wleft wright wl wr hn hn' hVn hTn rfl
        obtain ⟨hj, hbL⟩ := child_perfect_on hk f m j' lx wp1 (al.take _) (fun y hy => hV y (by simp [hy])) hTl hE1
          (by omega) hX hL hl
        subst hj
        exact bind_left (by omega) hbL

/-- **Position binding of multi-leaf range proofs against perfect trees.**  If `check_range_proof` accepts the leaf
    hashes `X` (non-empty) at `start = s` against the root of the `2^j` leaf hashes `L`, and `s + |X| ≤ 2^j`, then `X`
    is the block of `L` at `[s, s + |X|)` — for every hash with 32-byte output that has no collision among `S`, where `S`
    contains the leaf preimages of `L` and `X` (`AllLeafOn`, `IsLeafOn`), the inputs of the honest root computation
    (`rootInputs`) and those of this verification (`proofInputs`). -/
theorem checkRangeProof_multi_sound_on {H : HashFn} {S : Bytes → Prop} (hk : HashOKOn H S) {ign ign' : Bool} {j : Nat}
    {L : List NsHash} {root : NsHash} {X P : List NsHash} {s : Nat}
    (al : AllLeafOn H S L) (hl : L.length = 2 ^ j) (hroot : computeRoot H ign' L = .ok root)
    (lx : ∀ x ∈ X, IsLeafOn H S x) (wp : ∀ p ∈ P, p.WF) (hX : 1 ≤ X.length) (hs : s + X.length ≤ 2 ^ j)
    (hV : ∀ y ∈ proofInputs H ign X P s, S y) (hT : ∀ y ∈ rootInputs H ign' (L.length + 1) L, S y)
    (e : checkRangeProof H ign root X P s = .ok ()) : X = (L.drop s).take X.length := by
  rw [computeRoot_perfect hl] at hroot
  have hT' : ∀ y ∈ perfectInputs H ign' j L, S y := by
    intro y hy; apply hT; rw [rootInputs_perfect j _ L hl (by omega)]; exact hy
  unfold checkRangeProof at e
  unfold proofInputs at hV
  have h0 : ¬ (X.length = 0) := by omega
  rw [if_neg h0] at e hV
  by_cases htriv : X.length = 1 ∧ P.isEmpty = true
  · rw [if_pos htriv] at e
    split at e
    · rename_i hc
      simp only [Bool.and_eq_true, beq_iff_eq] at hc
      obtain ⟨hhead, hs0⟩ := hc
      subst hs0
      match X, htriv.1, hhead, lx with
      | [x], _, hhead, lx =>
        simp only [List.head?_cons, Option.some.injEq] at hhead
        subst hhead
        cases j with
        | zero => rw [perfectRoot_zero hroot]; rfl
        | succ j' =>
          obtain ⟨ns, d, _, hx, hS⟩ := lx x (by simp)
          rw [hx] at hroot
          exact (perfectRoot_succ_ne_leaf_on hk.inj hS hT' hroot).elim
    · cases e
  · rw [if_neg htriv] at e hV
    dsimp only at e hV
    split at e
    · cases e
    · rename_i hnl
      rw [if_neg hnl] at hV
      split at e
      · cases e
      · rename_i T hts
        rw [hts] at hV
        dsimp only at hV
        split at e
        · cases e
        · rename_i computed X' P' hin
          split at e
          · rename_i heq
            have heq' : computed = root := by simpa using heq
            subst heq'
            have hge := computeTreeSize_ge hts
            have hT2 : 2 ≤ T := by
              by_cases h2 : 2 ≤ X.length
              · omega
              · have hx1 : X.length = 1 := by omega
                by_cases hs0 : s = 0
                · subst hs0
                  have hn0 : computeNumLeftSiblings 0 = 0 := rfl
                  rw [hn0, hx1] at hts
                  have : 1 ≤ P.length := by
                    cases P with
                    | nil => exact absurd ⟨hx1, rfl⟩ htriv
                    | cons a b => simp
                  exact computeTreeSize_ge_two (by omega) hts
                · omega
            have hb := inner_general_on hk T j lx wp al hV hT' hT2 (Nat.zero_le _) (by omega) (by omega) hX hin hroot
            obtain ⟨_, _, h3⟩ := hb
            apply List.ext_getElem?
            intro i
            by_cases hi : i < X.length
            · have := h3 (s + i) (by omega) (by omega)
              have e1 : s + i - s = i := by omega
              rw [e1, Nat.sub_zero] at this
              rw [this, List.getElem?_take, if_pos hi, List.getElem?_drop]
            · rw [List.getElem?_eq_none_iff.mpr (by omega), List.getElem?_take, if_neg hi]
          · cases e

end Lumina.Proofs.NmtMulti

/-
  Multi-leaf range proofs of the nmt-rs model, part 5: POSITION-BINDING SOUNDNESS against perfect trees.

  `checkRangeProof_multi_sound`: if `check_range_proof` accepts the leaf hashes `X` at `start = s` against the root of a
  tree of `2^j` leaf hashes `L`, and the claimed range lies inside the tree (`s + |X| ≤ 2^j`), then `X` is exactly the
  block `L[s .. s+|X|)` (idealised hash).

  What nmt-rs does NOT bind (and the theorem therefore does not claim): a range proof carries no tree size — the
  verifier derives the tree shape from `(start, number of siblings)` — so for a tree whose size is not a power of two, or
  for a range claimed beyond the real size, the same proof can verify for a different position (`design_notes/C04.md`,
  `C13.md`).  The hypotheses "`2^j` leaves" and "`s + |X| ≤ 2^j`" are exactly what lumina's callers guarantee
  (square width a power of two; `Sample::verify` binds `start` to the coordinate, the C13 spec conditions on `end ≤ w`).

  Generalises the single-leaf lemmas `inner_single_shallow / _perfect / _general` of `Nmt.lean`.
-/
import Lumina.Proofs.NmtRange

namespace Lumina.Proofs.NmtMulti
open Lumina.Util Lumina.Model.Nmt Lumina.Proofs.Nmt Lumina.Proofs.NmtRange

theorem takeLast?_mem {α} {l : List α} {x : α} {r : List α} (h : takeLast? l = some (x, r)) :
    x ∈ l ∧ ∀ y ∈ r, y ∈ l := by
  have := takeLast?_some h
  subst this
  exact ⟨by simp, fun y hy => by simp [hy]⟩

/-- well-formedness is preserved by the verifier's recursion (any number of leaves) -/
theorem inner_WF {H : HashFn} (hk : HashLen H) {ign : Bool} : ∀ (fuel : Nat) {X P : List NsHash} {s size off : Nat}
    {h : NsHash} {X' P' : List NsHash},
    checkRangeProofInner H ign fuel X P s size off = .ok (h, X', P') → (∀ x ∈ X, x.WF) → (∀ p ∈ P, p.WF) →
    h.WF ∧ (∀ x ∈ X', x.WF) ∧ (∀ p ∈ P', p.WF) := by
  intro fuel
  induction fuel with
  | zero => intro X P s size off h X' P' e; simp [checkRangeProofInner] at e
  | succ f ih =>
    intro X P s size off h X2 P2 e wx wp
    obtain ⟨_, right, X1, P1, left, hR, hL, hn⟩ := inner_step e
    have hr : right.WF ∧ (∀ x ∈ X1, x.WF) ∧ (∀ p ∈ P1, p.WF) := by
      split at hR
      · split at hR
        · obtain ⟨htl, rfl⟩ := hR
          obtain ⟨h1, h2⟩ := takeLast?_mem htl
          exact ⟨wx _ h1, fun x hx => wx x (h2 x hx), wp⟩
        · exact ih hR wx wp
      · obtain ⟨htl, rfl⟩ := hR
        obtain ⟨h1, h2⟩ := takeLast?_mem htl
        exact ⟨wp _ h1, wx, fun x hx => wp x (h2 x hx)⟩
    obtain ⟨wr, wx1, wp1⟩ := hr
    have hl : left.WF ∧ (∀ x ∈ X2, x.WF) ∧ (∀ p ∈ P2, p.WF) := by
      split at hL
      · split at hL
        · obtain ⟨htl, rfl⟩ := hL
          obtain ⟨h1, h2⟩ := takeLast?_mem htl
          exact ⟨wx1 _ h1, fun x hx => wx1 x (h2 x hx), wp1⟩
        · exact ih hL wx1 wp1
      · obtain ⟨htl, rfl⟩ := hL
        obtain ⟨h1, h2⟩ := takeLast?_mem htl
        exact ⟨wp1 _ h1, wx1, fun x hx => wp1 x (h2 x hx)⟩
    obtain ⟨wl, wx2, wp2⟩ := hl
    exact ⟨hashNodes_WF hk wl wr hn, wx2, wp2⟩

theorem child_WF {H : HashFn} (hk : HashLen H) {ign : Bool} {f : Nat} {X P : List NsHash} {s csize coff : Nat}
    {h : NsHash} {X' P' : List NsHash} (hc : ChildRes H ign f X P s csize coff h X' P')
    (wx : ∀ x ∈ X, x.WF) (wp : ∀ p ∈ P, p.WF) : h.WF ∧ (∀ x ∈ X', x.WF) ∧ (∀ p ∈ P', p.WF) := by
  unfold ChildRes at hc
  split at hc
  · obtain ⟨htl, rfl⟩ := hc
    obtain ⟨h1, h2⟩ := takeLast?_mem htl
    exact ⟨wx _ h1, fun x hx => wx x (h2 x hx), wp⟩
  · exact inner_WF hk f hc wx wp

/-- the leaves a call consumed are the real leaves at their claimed positions: `X'` (what is left) is the prefix of `X`
    of the leaves before `max s off`, and every position `p` of the range from there up to the last index `E` holds the
    real leaf -/
def Bind (X X' : List NsHash) (s off E : Nat) (L : List NsHash) : Prop :=
  X'.length + s = max s off ∧ (∃ XS, X = X' ++ XS) ∧ ∀ p, max s off ≤ p → p ≤ E → X[p - s]? = L[p - off]?

/-- right child only (the left one is a sibling) -/
theorem bind_right {X X1 : List NsHash} {s off E k : Nat} {L : List NsHash} (hge : off + k ≤ s)
    (hb : Bind X X1 s (off + k) E (L.drop k)) : Bind X X1 s off E L := by
  obtain ⟨h1, h2, h3⟩ := hb
  refine ⟨by omega, h2, ?_⟩
  intro p hp hpe
  rw [h3 p (by omega) hpe, List.getElem?_drop]
  congr 1; omega

/-- left child only (the right one is a sibling) -/
theorem bind_left {X X2 : List NsHash} {s off E k : Nat} {L : List NsHash} (hlt : E < off + k)
    (hb : Bind X X2 s off E (L.take k)) : Bind X X2 s off E L := by
  obtain ⟨h1, h2, h3⟩ := hb
  refine ⟨h1, h2, ?_⟩
  intro p hp hpe
  rw [h3 p hp hpe, List.getElem?_take]
  split
  · rfl
  · omega

/-- both children overlap the range -/
theorem bind_both {X X1 X2 : List NsHash} {s off E k : Nat} {L : List NsHash} (hs : s < off + k) (hE : off + k ≤ E)
    (hr : Bind X X1 s (off + k) E (L.drop k)) (hl : Bind X1 X2 s off (off + k - 1) (L.take k)) : Bind X X2 s off E L := by
  obtain ⟨r1, ⟨XSr, r2⟩, r3⟩ := hr
  obtain ⟨l1, ⟨XSl, l2⟩, l3⟩ := hl
  refine ⟨l1, ⟨XSl ++ XSr, by rw [r2, l2, List.append_assoc]⟩, ?_⟩
  intro p hp hpe
  by_cases hpk : p < off + k
  · have hx : X[p - s]? = X1[p - s]? := by
      rw [r2, List.getElem?_append_left (by omega)]
    rw [hx, l3 p hp (by omega), List.getElem?_take]
    split
    · rfl
    · omega
  · rw [r3 p (by omega) hpe, List.getElem?_drop]
    congr 1; omega

/-- a leaf-hash child: the perfect tree it equals is a single leaf -/
theorem leaf_child {H : HashFn} (hk : HashOK H) {ign' : Bool} {X X' : List NsHash} {h : NsHash} {s coff j : Nat}
    {L : List NsHash} (htl : takeLast? X = some (h, X')) (lx : ∀ x ∈ X, IsLeaf H x)
    (h1 : coff ≤ X.length + s - 1) (h2 : X.length + s - 1 < coff + 1)
    (pr : perfectRoot H ign' j L = .ok h) : j = 0 ∧ Bind X X' s coff (X.length + s - 1) L := by
  have hx := takeLast?_some htl
  have lh : IsLeaf H h := lx h (takeLast?_mem htl).1
  cases j with
  | succ j' => obtain ⟨ns, d, _, rfl⟩ := lh; exact (perfectRoot_succ_ne_leaf hk pr).elim
  | zero =>
    have hL := perfectRoot_zero pr
    have hlen : X.length = X'.length + 1 := by rw [hx]; simp
    refine ⟨rfl, by omega, ⟨[h], hx⟩, ?_⟩
    intro p hp hpe
    have hpc : p = coff := by omega
    subst hpc
    have : p - s = X'.length := by omega
    rw [this, hx, hL]
    simp

/-- shallow verifier subtree against a deeper perfect real tree: impossible (any number of leaves) -/
theorem child_shallow {H : HashFn} (hk : HashOK H) {ign ign' : Bool} : ∀ (f j : Nat) {X P : List NsHash}
    {s csize coff : Nat} {h : NsHash} {X' P' : List NsHash} {L : List NsHash},
    (∀ x ∈ X, IsLeaf H x) → (∀ p ∈ P, p.WF) → AllLeaf H L → 1 ≤ csize → csize ≤ 2 ^ j →
    coff ≤ X.length + s - 1 → X.length + s - 1 < coff + csize → 1 ≤ X.length →
    ChildRes H ign f X P s csize coff h X' P' → perfectRoot H ign' (j + 1) L = .ok h → False := by
  intro f
  induction f with
  | zero =>
    intro j X P s csize coff h X' P' L lx wp al h1 hsz hE1 hE2 hX hc pr
    unfold ChildRes at hc
    split at hc
    · obtain ⟨ns, d, _, rfl⟩ := lx h (takeLast?_mem hc.1).1
      exact perfectRoot_succ_ne_leaf hk pr
    · simp [checkRangeProofInner] at hc
  | succ f ih =>
    intro j X P s csize coff h X' P' L lx wp al h1 hsz hE1 hE2 hX hc pr
    have wx : ∀ x ∈ X, x.WF := fun x hx => (lx x hx).WF hk.hlen
    unfold ChildRes at hc
    split at hc
    · obtain ⟨ns, d, _, rfl⟩ := lx h (takeLast?_mem hc.1).1
      exact perfectRoot_succ_ne_leaf hk pr
    · rename_i hne1
      have h2 : 2 ≤ csize := by omega
      obtain ⟨m, hm, hlt, hle⟩ := nextSmallerPo2_spec csize h2
      obtain ⟨_, right, X1, P1, left, hR, hL, hn⟩ := inner_step hc
      obtain ⟨l, r, hl, hr, hn'⟩ := perfectRoot_succ pr
      have wl := perfectRoot_WF hk.hlen j (al.take _) hl
      have wr := perfectRoot_WF hk.hlen j (al.drop _) hr
      have hmj : m < j := (Nat.pow_lt_pow_iff_right (by omega)).mp (Nat.lt_of_lt_of_le hlt hsz)
      obtain ⟨j', rfl⟩ : ∃ j', j = j' + 1 := ⟨j - 1, by omega⟩
      have hmle : 2 ^ m ≤ 2 ^ j' := Nat.pow_le_pow_right (by omega) (by omega)
      have hp1 : 1 ≤ 2 ^ m := Nat.one_le_two_pow
      rw [hm] at hR hL
      have hpow : 2 ^ (m + 1) = 2 * 2 ^ m := by rw [Nat.pow_succ]; omega
      have hcR : X.length + s - 1 ≥ 2 ^ m + coff →
          ChildRes H ign f X P s (csize - 2 ^ m) (coff + 2 ^ m) right X1 P1 := by
        intro hc'; rw [if_pos hc'] at hR; unfold ChildRes; exact hR
      by_cases cA : X.length + s - 1 ≥ 2 ^ m + coff
      · have hchild := hcR cA
        obtain ⟨wright, wx1, wp1⟩ := child_WF hk.hlen hchild wx wp
        have wleft : left.WF := by
          split at hL
          · have : ChildRes H ign f X1 P1 s (2 ^ m) coff left X' P' := by unfold ChildRes; exact hL
            exact (child_WF hk.hlen this wx1 wp1).1
          · exact wp1 _ (takeLast?_mem hL.1).1
        obtain ⟨_, rfl⟩ := hashNodes_hash_inj hk wleft wright wl wr hn hn' rfl
        exact ih j' lx wp (al.drop _) (by omega) (by omega) (by omega) (by omega) hX hchild hr
      · rw [if_neg cA] at hR
        obtain ⟨htl, rfl⟩ := hR
        have wright : right.WF := wp _ (takeLast?_mem htl).1
        have wp1 : ∀ p ∈ P1, p.WF := fun p hp => wp p ((takeLast?_mem htl).2 p hp)
        have cL : s < 2 ^ m + coff := by omega
        rw [if_pos cL] at hL
        have hchild : ChildRes H ign f X1 P1 s (2 ^ m) coff left X' P' := by unfold ChildRes; exact hL
        obtain ⟨wleft, _, _⟩ := child_WF hk.hlen hchild wx wp1
        obtain ⟨rfl, _⟩ := hashNodes_hash_inj hk wleft wright wl wr hn hn' rfl
        exact ih j' lx wp1 (al.take _) hp1 hmle hE1 (by omega) hX hchild hl

/-- perfect verifier subtree against a perfect real tree: same depth, and the consumed leaves are the real ones -/
theorem child_perfect {H : HashFn} (hk : HashOK H) {ign ign' : Bool} : ∀ (f m j : Nat) {X P : List NsHash}
    {s coff : Nat} {h : NsHash} {X' P' : List NsHash} {L : List NsHash},
    (∀ x ∈ X, IsLeaf H x) → (∀ p ∈ P, p.WF) → AllLeaf H L →
    coff ≤ X.length + s - 1 → X.length + s - 1 < coff + 2 ^ m → 1 ≤ X.length →
    ChildRes H ign f X P s (2 ^ m) coff h X' P' → perfectRoot H ign' j L = .ok h →
    j = m ∧ Bind X X' s coff (X.length + s - 1) L := by
  intro f
  induction f with
  | zero =>
    intro m j X P s coff h X' P' L lx wp al hE1 hE2 hX hc pr
    unfold ChildRes at hc
    split at hc
    · rename_i h1
      have hm0 : m = 0 := by
        cases m with
        | zero => rfl
        | succ m' => have := two_le_two_pow_succ m'; omega
      subst hm0
      obtain ⟨hj, hb⟩ := leaf_child hk hc.1 lx hE1 (by simpa using hE2) pr
      exact ⟨hj, hb⟩
    · simp [checkRangeProofInner] at hc
  | succ f ih =>
    intro m j X P s coff h X' P' L lx wp al hE1 hE2 hX hc pr
    have wx : ∀ x ∈ X, x.WF := fun x hx => (lx x hx).WF hk.hlen
    unfold ChildRes at hc
    split at hc
    · rename_i h1
      have hm0 : m = 0 := by
        cases m with
        | zero => rfl
        | succ m' => have := two_le_two_pow_succ m'; omega
      subst hm0
      obtain ⟨hj, hb⟩ := leaf_child hk hc.1 lx hE1 (by simpa using hE2) pr
      exact ⟨hj, hb⟩
    · rename_i hne1
      obtain ⟨m', rfl⟩ : ∃ m', m = m' + 1 := by
        cases m with
        | zero => simp at hne1
        | succ m' => exact ⟨m', rfl⟩
      obtain ⟨_, right, X1, P1, left, hR, hL, hn⟩ := inner_step hc
      rw [nextSmallerPo2_pow] at hR hL
      have hsub : 2 ^ (m' + 1) - 2 ^ m' = 2 ^ m' := by rw [Nat.pow_succ]; omega
      have hpow : 2 ^ (m' + 1) = 2 ^ m' + 2 ^ m' := by rw [Nat.pow_succ]; omega
      have hp1 : 1 ≤ 2 ^ m' := Nat.one_le_two_pow
      rw [hsub] at hR
      cases j with
      | zero =>
        exfalso
        have hL0 := perfectRoot_zero pr
        obtain ⟨ns, d, _, rfl⟩ := al h (by rw [hL0]; simp)
        exact leaf_ne_node hk hn rfl
      | succ j' =>
        obtain ⟨l, r, hl, hr, hn'⟩ := perfectRoot_succ pr
        have wl := perfectRoot_WF hk.hlen j' (al.take _) hl
        have wr := perfectRoot_WF hk.hlen j' (al.drop _) hr
        by_cases cA : X.length + s - 1 ≥ 2 ^ m' + coff
        · rw [if_pos cA] at hR
          have hchildR : ChildRes H ign f X P s (2 ^ m') (coff + 2 ^ m') right X1 P1 := by unfold ChildRes; exact hR
          obtain ⟨wright, wx1, wp1⟩ := child_WF hk.hlen hchildR wx wp
          have wleft : left.WF := by
            split at hL
            · have : ChildRes H ign f X1 P1 s (2 ^ m') coff left X' P' := by unfold ChildRes; exact hL
              exact (child_WF hk.hlen this wx1 wp1).1
            · exact wp1 _ (takeLast?_mem hL.1).1
          obtain ⟨rfl, rfl⟩ := hashNodes_hash_inj hk wleft wright wl wr hn hn' rfl
          obtain ⟨hj, hbR⟩ := ih m' j' lx wp (al.drop _) (by omega) (by omega) hX hchildR hr
          subst hj
          refine ⟨rfl, ?_⟩
          by_cases cL : s < 2 ^ j' + coff
          · rw [if_pos cL] at hL
            have hchildL : ChildRes H ign f X1 P1 s (2 ^ j') coff left X' P' := by unfold ChildRes; exact hL
            have hX1 : X1.length + s = coff + 2 ^ j' := by have := hbR.1; omega
            have lx1 : ∀ x ∈ X1, IsLeaf H x := by
              obtain ⟨XS, hXS⟩ := hbR.2.1
              intro x hx; exact lx x (by rw [hXS]; exact List.mem_append_left _ hx)
            obtain ⟨_, hbL⟩ := ih j' j' lx1 wp1 (al.take _) (by omega) (by omega) (by omega) hchildL hl
            have e1 : X1.length + s - 1 = coff + 2 ^ j' - 1 := by omega
            rw [e1] at hbL
            exact bind_both (by omega) (by omega) hbR hbL
          · rw [if_neg cL] at hL
            obtain ⟨_, rfl⟩ := hL
            exact bind_right (by omega) hbR
        · rw [if_neg cA] at hR
          obtain ⟨htl, rfl⟩ := hR
          have wright : right.WF := wp _ (takeLast?_mem htl).1
          have wp1 : ∀ p ∈ P1, p.WF := fun p hp => wp p ((takeLast?_mem htl).2 p hp)
          have cL : s < 2 ^ m' + coff := by omega
          rw [if_pos cL] at hL
          have hchildL : ChildRes H ign f X1 P1 s (2 ^ m') coff left X' P' := by unfold ChildRes; exact hL
          obtain ⟨wleft, _, _⟩ := child_WF hk.hlen hchildL wx wp1
          obtain ⟨rfl, rfl⟩ := hashNodes_hash_inj hk wleft wright wl wr hn hn' rfl
          obtain ⟨hj, hbL⟩ := ih m' j' lx wp1 (al.take _) hE1 (by omega) hX hchildL hl
          subst hj
          exact ⟨rfl, bind_left (by omega) hbL⟩

/-- general verifier subtree against a perfect real tree that contains the claimed range: the consumed leaves are the
    real ones at their claimed positions -/
theorem inner_general {H : HashFn} (hk : HashOK H) {ign ign' : Bool} : ∀ (f j : Nat) {X P : List NsHash}
    {s size off : Nat} {h : NsHash} {X' P' : List NsHash} {L : List NsHash},
    (∀ x ∈ X, IsLeaf H x) → (∀ p ∈ P, p.WF) → AllLeaf H L → 2 ≤ size →
    off ≤ X.length + s - 1 → X.length + s - 1 < off + size → X.length + s - 1 < off + 2 ^ j → 1 ≤ X.length →
    checkRangeProofInner H ign f X P s size off = .ok (h, X', P') → perfectRoot H ign' j L = .ok h →
    Bind X X' s off (X.length + s - 1) L := by
  intro f
  induction f with
  | zero => intro j X P s size off h X' P' L _ _ _ _ _ _ _ _ e; simp [checkRangeProofInner] at e
  | succ f ih =>
    intro j X P s size off h X' P' L lx wp al h2 hE1 hE2 hEj hX hc pr
    have wx : ∀ x ∈ X, x.WF := fun x hx => (lx x hx).WF hk.hlen
    obtain ⟨m, hm, hlt, hle⟩ := nextSmallerPo2_spec size h2
    obtain ⟨_, right, X1, P1, left, hR, hL, hn⟩ := inner_step hc
    rw [hm] at hR hL
    have hp1 : 1 ≤ 2 ^ m := Nat.one_le_two_pow
    have hpow : 2 ^ (m + 1) = 2 * 2 ^ m := by rw [Nat.pow_succ]; omega
    cases j with
    | zero =>
      exfalso
      have hL0 := perfectRoot_zero pr
      obtain ⟨ns, d, _, rfl⟩ := al h (by rw [hL0]; simp)
      exact leaf_ne_node hk hn rfl
    | succ j' =>
      obtain ⟨l, r, hl, hr, hn'⟩ := perfectRoot_succ pr
      have wl := perfectRoot_WF hk.hlen j' (al.take _) hl
      have wr := perfectRoot_WF hk.hlen j' (al.drop _) hr
      have hpowj : 2 ^ (j' + 1) = 2 * 2 ^ j' := by rw [Nat.pow_succ]; omega
      by_cases cA : X.length + s - 1 ≥ 2 ^ m + off
      · rw [if_pos cA] at hR
        have hchildR : ChildRes H ign f X P s (size - 2 ^ m) (off + 2 ^ m) right X1 P1 := by unfold ChildRes; exact hR
        obtain ⟨wright, wx1, wp1⟩ := child_WF hk.hlen hchildR wx wp
        have wleft : left.WF := by
          split at hL
          · have : ChildRes H ign f X1 P1 s (2 ^ m) off left X' P' := by unfold ChildRes; exact hL
            exact (child_WF hk.hlen this wx1 wp1).1
          · exact wp1 _ (takeLast?_mem hL.1).1
        obtain ⟨rfl, rfl⟩ := hashNodes_hash_inj hk wleft wright wl wr hn hn' rfl
        have hmj : m ≤ j' := by
          have : 2 ^ m < 2 ^ (j' + 1) := by omega
          have := (Nat.pow_lt_pow_iff_right (by omega)).mp this
          omega
        by_cases hmeq : m = j'
        · subst hmeq
          -- aligned: the right child against the real right half
          have hbR : Bind X X1 s (off + 2 ^ m) (X.length + s - 1) (L.drop (2 ^ m)) := by
            by_cases hr1 : size - 2 ^ m = 1
            · have hc0 : ChildRes H ign f X P s (2 ^ 0) (off + 2 ^ m) right X1 P1 := by
                rw [hr1] at hchildR; simpa using hchildR
              exact (child_perfect hk f 0 m lx wp (al.drop _) (by omega) (by simp; omega) hX hc0 hr).2
            · unfold ChildRes at hchildR
              rw [if_neg hr1] at hchildR
              exact ih m lx wp (al.drop _) (by omega) (by omega) (by omega) (by omega) hX hchildR hr
          by_cases cL : s < 2 ^ m + off
          · rw [if_pos cL] at hL
            have hchildL : ChildRes H ign f X1 P1 s (2 ^ m) off left X' P' := by unfold ChildRes; exact hL
            have hX1 : X1.length + s = off + 2 ^ m := by have := hbR.1; omega
            have lx1 : ∀ x ∈ X1, IsLeaf H x := by
              obtain ⟨XS, hXS⟩ := hbR.2.1
              intro x hx; exact lx x (by rw [hXS]; exact List.mem_append_left _ hx)
            obtain ⟨_, hbL⟩ := child_perfect hk f m m lx1 wp1 (al.take _) (by omega) (by omega) (by omega) hchildL hl
            have e1 : X1.length + s - 1 = off + 2 ^ m - 1 := by omega
            rw [e1] at hbL
            exact bind_both (by omega) (by omega) hbR hbL
          · rw [if_neg cL] at hL
            obtain ⟨_, rfl⟩ := hL
            exact bind_right (by omega) hbR
        · exfalso
          obtain ⟨j'', rfl⟩ : ∃ j'', j' = j'' + 1 := ⟨j' - 1, by omega⟩
          have : 2 ^ m ≤ 2 ^ j'' := Nat.pow_le_pow_right (by omega) (by omega)
          exact child_shallow hk f j'' lx wp (al.drop _) (by omega) (by omega) (by omega) (by omega) hX hchildR hr
      · rw [if_neg cA] at hR
        obtain ⟨htl, rfl⟩ := hR
        have wright : right.WF := wp _ (takeLast?_mem htl).1
        have wp1 : ∀ p ∈ P1, p.WF := fun p hp => wp p ((takeLast?_mem htl).2 p hp)
        have cL : s < 2 ^ m + off := by omega
        rw [if_pos cL] at hL
        have hchildL : ChildRes H ign f X1 P1 s (2 ^ m) off left X' P' := by unfold ChildRes; exact hL
        obtain ⟨wleft, _, _⟩ := child_WF hk.hlen hchildL wx wp1
        obtain ⟨rfl, rfl⟩ := hashNodes_hash_inj hk wleft wright wl wr hn hn' rfl
        obtain ⟨hj, hbL⟩ := child_perfect hk f m j' lx wp1 (al.take _) hE1 (by omega) hX hchildL hl
        subst hj
        exact bind_left (by omega) hbL

/-- **Position binding of multi-leaf range proofs against perfect trees.**  If `check_range_proof` accepts the leaf
    hashes `X` (non-empty) at `start = s` against the root of the `2^j` leaf hashes `L`, and `s + |X| ≤ 2^j`, then `X`
    is the block of `L` at `[s, s + |X|)` (idealised hash). -/
theorem checkRangeProof_multi_sound {H : HashFn} (hk : HashOK H) {ign ign' : Bool} {j : Nat} {L : List NsHash}
    {root : NsHash} {X P : List NsHash} {s : Nat}
    (al : AllLeaf H L) (hl : L.length = 2 ^ j) (hroot : computeRoot H ign' L = .ok root)
    (lx : ∀ x ∈ X, IsLeaf H x) (wp : ∀ p ∈ P, p.WF) (hX : 1 ≤ X.length) (hs : s + X.length ≤ 2 ^ j)
    (e : checkRangeProof H ign root X P s = .ok ()) : X = (L.drop s).take X.length := by
  rw [computeRoot_perfect hl] at hroot
  unfold checkRangeProof at e
  have h0 : ¬ (X.length = 0) := by omega
  rw [if_neg h0] at e
  by_cases htriv : X.length = 1 ∧ P.isEmpty = true
  · rw [if_pos htriv] at e
    split at e
    · rename_i hc
      simp only [Bool.and_eq_true, beq_iff_eq] at hc
      obtain ⟨hhead, hs0⟩ := hc
      subst hs0
      match X, htriv.1, hhead, lx with
      | [x], _, hhead, lx =>
        simp only [List.head?_cons, Option.some.injEq] at hhead
        subst hhead
        cases j with
        | zero => rw [perfectRoot_zero hroot]; rfl
        | succ j' => obtain ⟨ns, d, _, hx⟩ := lx x (by simp); rw [hx] at hroot; exact (perfectRoot_succ_ne_leaf hk hroot).elim
    · cases e
  · rw [if_neg htriv] at e
    dsimp only at e
    split at e
    · cases e
    · split at e
      · cases e
      · rename_i T hts
        split at e
        · cases e
        · rename_i computed X' P' hin
          split at e
          · rename_i heq
            have heq' : computed = root := by simpa using heq
            subst heq'
            have hge := computeTreeSize_ge hts
            have hT2 : 2 ≤ T := by
              by_cases h2 : 2 ≤ X.length
              · omega
              · have hx1 : X.length = 1 := by omega
                by_cases hs0 : s = 0
                · subst hs0
                  have hn0 : computeNumLeftSiblings 0 = 0 := rfl
                  rw [hn0, hx1] at hts
                  have : 1 ≤ P.length := by
                    cases P with
                    | nil => exact absurd ⟨hx1, rfl⟩ htriv
                    | cons a b => simp
                  exact computeTreeSize_ge_two (by omega) hts
                · omega
            have hb := inner_general hk T j lx wp al hT2 (Nat.zero_le _) (by omega) (by omega) hX hin hroot
            obtain ⟨_, _, h3⟩ := hb
            apply List.ext_getElem?
            intro i
            by_cases hi : i < X.length
            · have := h3 (s + i) (by omega) (by omega)
              have e1 : s + i - s = i := by omega
              rw [e1, Nat.sub_zero] at this
              rw [this, List.getElem?_take, if_pos hi, List.getElem?_drop]
            · rw [List.getElem?_eq_none_iff.mpr (by omega), List.getElem?_take, if_neg hi]
          · cases e

end Lumina.Proofs.NmtMulti

/-
  C08 / C07 joint non-vacuity for k = 2: a concrete LINEAR MDS code on 512-byte shares — the [4,2] code with generator
  [[1,0,1,1],[0,1,1,α]] over GF(2^8) (α ∉ {0,1}), acting bytewise through a bijection bytes ≃ GF(2^8) — satisfies
  `EncShape`, `EncLinear` and `MDS` together.  (Existence only: the field is Mathlib's abstract `GaloisField 2 8`.)
  Owner: group D2.
-/
import Mathlib.FieldTheory.Finite.GaloisField
import Lumina.Proofs.EdsLinear
import Lumina.Spec.C08

namespace Lumina.Proofs.EdsWitness
open Lumina.Util Lumina.Proofs.EdsExtend Lumina.Proofs.EdsLinear
open Lumina.Spec.C08 (erase)

noncomputable section

instance : Fact (Nat.Prime 2) := ⟨Nat.prime_two⟩
abbrev F8 := GaloisField 2 8

theorem card_F8 : Nat.card F8 = 256 := by
  have := GaloisField.card 2 8 (by norm_num)
  simpa using this

/-- bytes ≃ GF(2^8) -/
def φ : UInt8 ≃ F8 :=
  (⟨UInt8.toFin, UInt8.ofFin, fun _ => rfl, fun _ => rfl⟩ : UInt8 ≃ Fin 256).trans (Finite.equivFinOfCardEq card_F8).symm

/-- an element other than 0 and 1 -/
theorem exists_alpha : ∃ a : F8, a ≠ 0 ∧ a ≠ 1 := by
  classical
  by_contra h
  push_neg at h
  -- every element is 0 or 1: at most 2 elements
  have : Nat.card F8 ≤ 2 := by
    haveI : Fintype F8 := Fintype.ofFinite F8
    rw [Nat.card_eq_fintype_card]
    calc Fintype.card F8 ≤ Fintype.card (Fin 2) := by
          apply Fintype.card_le_of_injective (fun x : F8 => if x = 0 then (0 : Fin 2) else 1)
          intro x y hxy
          by_cases hx : x = 0 <;> by_cases hy : y = 0
          · rw [hx, hy]
          · simp only [hx, hy, ↓reduceIte] at hxy; exact absurd hxy (by decide)
          · simp only [hx, hy, ↓reduceIte] at hxy; exact absurd hxy (by decide)
          · rw [h x hx, h y hy]
      _ = 2 := by simp
  rw [card_F8] at this
  omega

def α : F8 := Classical.choose exists_alpha
theorem α_ne_zero : α ≠ 0 := (Classical.choose_spec exists_alpha).1
theorem α_ne_one : α ≠ 1 := (Classical.choose_spec exists_alpha).2

/-- bytewise `x + c·y` -/
def bmix (c : F8) (x y : UInt8) : UInt8 := φ.symm (φ x + c * φ y)
def smix (c : F8) (a b : Bytes) : Bytes := List.zipWith (bmix c) a b

theorem φ_bmix (c : F8) (x y : UInt8) : φ (bmix c x y) = φ x + c * φ y := by simp [bmix]

/-- the encoder: two data shards ↦ `a + b`, `a + α·b`; other shard counts are returned unchanged -/
def enc2 (row : List Bytes) : List Bytes :=
  match row with
  | [a, b] => [smix 1 a b, smix α a b]
  | _ => row

theorem smix_length (c : F8) {a b : Bytes} {n : Nat} (ha : a.length = n) (hb : b.length = n) : (smix c a b).length = n := by
  simp [smix, ha, hb]

theorem smix_getD (c : F8) {a b : Bytes} {n t : Nat} (ha : a.length = n) (hb : b.length = n) (ht : t < n) :
    (smix c a b).getD t 0 = bmix c (a.getD t 0) (b.getD t 0) := by
  unfold smix
  rw [List.getD_eq_getElem?_getD, List.getElem?_zipWith]
  simp [List.getD_eq_getElem?_getD, List.getElem?_eq_getElem (show t < a.length by omega),
    List.getElem?_eq_getElem (show t < b.length by omega)]

theorem encShape2 : EncShape enc2 2 := by
  intro row h
  match row, h with
  | [a, b], _ => rfl

/-- the matrix of the code -/
def M2 : Matrix (Fin 2) (Fin 2) F8 := !![1, 1; 1, α]

def encLinear2 : EncLinear enc2 2 512 where
  F := F8
  toF := φ
  toF_inj := φ.injective
  M := M2
  shape := by
    intro row h hall
    match row, h with
    | [a, b], _ =>
      have ha := hall a (by simp)
      have hb := hall b (by simp)
      refine ⟨rfl, ?_⟩
      intro s hs
      simp only [enc2, List.mem_cons, List.not_mem_nil, or_false] at hs
      rcases hs with rfl | rfl
      · exact smix_length 1 ha hb
      · exact smix_length α ha hb
  spec := by
    intro row h hall j t ht
    match row, h with
    | [a, b], _ =>
      have ha := hall a (by simp)
      have hb := hall b (by simp)
      rw [Fin.sum_univ_two]
      fin_cases j
      · show φ ((smix 1 a b).getD t 0) = M2 0 0 * φ (a.getD t 0) + M2 0 1 * φ (b.getD t 0)
        rw [smix_getD 1 ha hb ht, φ_bmix]
        simp [M2]
      · show φ ((smix α a b).getD t 0) = M2 1 0 * φ (a.getD t 0) + M2 1 1 * φ (b.getD t 0)
        rw [smix_getD α ha hb ht, φ_bmix]
        simp [M2]

/-! ### MDS: any two of the four symbols determine the codeword -/

/-- the four symbol values at one byte position, from the two data values -/
def pv (x y : F8) : Fin 4 → F8 := ![x, y, x + 1 * y, x + α * y]

theorem pos_unique_lt (x y x' y' : F8) : ∀ (i j : Fin 4), i < j → pv x y i = pv x' y' i → pv x y j = pv x' y' j →
    x = x' ∧ y = y' := by
  have ha0 := α_ne_zero
  have ha1 := α_ne_one
  intro i j hij hi hj
  fin_cases i <;> fin_cases j <;> simp [pv] at hij hi hj ⊢
  · exact ⟨hi, hj⟩
  · -- x, x + y
    refine ⟨hi, ?_⟩
    rw [hi] at hj; exact add_left_cancel hj
  · -- x, x + α y
    refine ⟨hi, ?_⟩
    rw [hi] at hj
    exact mul_left_cancel₀ ha0 (add_left_cancel hj)
  · -- y, x + y
    refine ⟨?_, hi⟩
    rw [hi] at hj; exact add_right_cancel hj
  · -- y, x + α y
    refine ⟨?_, hi⟩
    rw [hi] at hj; exact add_right_cancel hj
  · -- x + y, x + α y
    have hy : (α - 1) * (y - y') = 0 := by linear_combination hj - hi
    have hyy : y = y' := by
      rcases mul_eq_zero.mp hy with h | h
      · exact absurd (sub_eq_zero.mp h) ha1
      · exact sub_eq_zero.mp h
    refine ⟨?_, hyy⟩
    rw [hyy] at hi; exact add_right_cancel hi

theorem pos_unique (x y x' y' : F8) (i j : Fin 4) (hij : i ≠ j) (hi : pv x y i = pv x' y' i)
    (hj : pv x y j = pv x' y' j) : x = x' ∧ y = y' := by
  rcases lt_or_gt_of_ne hij with h | h
  · exact pos_unique_lt x y x' y' i j h hi hj
  · exact pos_unique_lt x y x' y' j i h hj hi

/-- the four symbols of the codeword with data `a, b` -/
def cwv (a b : Bytes) : Fin 4 → Bytes := ![a, b, smix 1 a b, smix α a b]

theorem cwv_byte {a b : Bytes} (ha : a.length = 512) (hb : b.length = 512) (p : Fin 4) {t : Nat} (ht : t < 512) :
    φ ((cwv a b p).getD t 0) = pv (φ (a.getD t 0)) (φ (b.getD t 0)) p := by
  fin_cases p
  · simp [cwv, pv]
  · simp [cwv, pv]
  · show φ ((smix 1 a b).getD t 0) = _
    rw [smix_getD 1 ha hb ht, φ_bmix]; simp [pv]
  · show φ ((smix α a b).getD t 0) = _
    rw [smix_getD α ha hb ht, φ_bmix]; simp [pv]

theorem shares_unique {a b a' b' : Bytes} (ha : a.length = 512) (hb : b.length = 512) (ha' : a'.length = 512)
    (hb' : b'.length = 512) (p q : Fin 4) (hpq : p ≠ q) (hp : cwv a b p = cwv a' b' p) (hq : cwv a b q = cwv a' b' q) :
    a = a' ∧ b = b' := by
  have key : ∀ t, t < 512 → φ (a.getD t 0) = φ (a'.getD t 0) ∧ φ (b.getD t 0) = φ (b'.getD t 0) := by
    intro t ht
    apply pos_unique _ _ _ _ p q hpq
    · rw [← cwv_byte ha hb p ht, ← cwv_byte ha' hb' p ht, hp]
    · rw [← cwv_byte ha hb q ht, ← cwv_byte ha' hb' q ht, hq]
  exact ⟨bytes_ext ha ha' (fun t ht => φ.injective (key t ht).1), bytes_ext hb hb' (fun t ht => φ.injective (key t ht).2)⟩

theorem two_present : ∀ m0 m1 m2 m3 : Bool, 2 ≤ ([m0, m1, m2, m3].filter id).length →
    ∃ p q : Fin 4, p ≠ q ∧ ![m0, m1, m2, m3] p = true ∧ ![m0, m1, m2, m3] q = true := by decide

/-- a codeword of `enc2` with 512-byte symbols is `cwv a b` -/
theorem codeword_shape {cw : List Bytes} (h : IsCodeword enc2 2 cw) (hsz : ∀ s ∈ cw, s.length = 512) :
    ∃ a b, a.length = 512 ∧ b.length = 512 ∧ cw = [cwv a b 0, cwv a b 1, cwv a b 2, cwv a b 3] := by
  obtain ⟨hlen, hdrop⟩ := h
  match cw, hlen with
  | [a, b, c, d], _ =>
    simp only [List.drop_succ_cons, List.drop_zero, List.take_succ_cons, List.take_zero, enc2, List.cons.injEq, and_true] at hdrop
    refine ⟨a, b, hsz a (by simp), hsz b (by simp), ?_⟩
    rw [hdrop.1, hdrop.2]
    rfl

/-- present symbols of `l` agree with `cw` -/
def Agrees (l cw : List Bytes) : Prop :=
  l.length = cw.length ∧ ∀ i, l.getD i [] ≠ [] → l.getD i [] = cw.getD i []

open Classical in
/-- the decoder: the codeword consistent with the symbols that are present (unique when at least two are) -/
def rec2 (l : List Bytes) : List Bytes :=
  if h : ∃ cw, (IsCodeword enc2 2 cw ∧ ∀ s ∈ cw, s.length = 512) ∧ Agrees l cw then Classical.choose h else l

theorem mds2 : ∀ cw, IsCodeword enc2 2 cw → (∀ s ∈ cw, s.length = 512) →
    ∀ mask : List Bool, mask.length = 2 * 2 → 2 ≤ (mask.filter id).length → rec2 (erase mask cw) = cw := by
  intro cw hcw hsz mask hml hpres
  obtain ⟨a, b, ha, hb, rfl⟩ := codeword_shape hcw hsz
  match mask, hml with
  | [m0, m1, m2, m3], _ =>
    have hne : ∀ p : Fin 4, cwv a b p ≠ [] := by
      intro p h0
      have := hsz (cwv a b p) (by fin_cases p <;> simp)
      rw [h0] at this; simp at this
    -- the erased list, symbol by symbol
    have hl : erase [m0, m1, m2, m3] [cwv a b 0, cwv a b 1, cwv a b 2, cwv a b 3] =
        [if m0 then cwv a b 0 else [], if m1 then cwv a b 1 else [], if m2 then cwv a b 2 else [],
          if m3 then cwv a b 3 else []] := rfl
    have hagree : Agrees (erase [m0, m1, m2, m3] [cwv a b 0, cwv a b 1, cwv a b 2, cwv a b 3])
        [cwv a b 0, cwv a b 1, cwv a b 2, cwv a b 3] := by
      rw [hl]
      refine ⟨rfl, ?_⟩
      intro i hi
      match i with
      | 0 => cases m0 <;> simp at hi ⊢
      | 1 => cases m1 <;> simp at hi ⊢
      | 2 => cases m2 <;> simp at hi ⊢
      | 3 => cases m3 <;> simp at hi ⊢
      | n + 4 => simp at hi
    have hex : ∃ cw', (IsCodeword enc2 2 cw' ∧ ∀ s ∈ cw', s.length = 512) ∧
        Agrees (erase [m0, m1, m2, m3] [cwv a b 0, cwv a b 1, cwv a b 2, cwv a b 3]) cw' := ⟨_, ⟨hcw, hsz⟩, hagree⟩
    unfold rec2
    rw [dif_pos hex]
    obtain ⟨⟨hcw', hsz'⟩, hag'⟩ := Classical.choose_spec hex
    generalize Classical.choose hex = cw' at hcw' hsz' hag'
    obtain ⟨a', b', ha', hb', rfl⟩ := codeword_shape hcw' hsz'
    -- two present positions
    obtain ⟨p, q, hpq, hp, hq⟩ := two_present m0 m1 m2 m3 hpres
    have hpos : ∀ r : Fin 4, ![m0, m1, m2, m3] r = true → cwv a b r = cwv a' b' r := by
      intro r hr
      have h2 := hag'.2 r.val
      rw [hl] at h2
      fin_cases r
      · simp at hr; subst hr; simpa using h2 (by simpa using hne 0)
      · simp at hr; subst hr; simpa using h2 (by simpa using hne 1)
      · simp at hr; subst hr; simpa using h2 (by simpa using hne 2)
      · simp at hr; subst hr; simpa using h2 (by simpa using hne 3)
    obtain ⟨e1, e2⟩ := shares_unique ha hb ha' hb' p q hpq (hpos p hp) (hpos q hq)
    rw [e1, e2]

end

end Lumina.Proofs.EdsWitness

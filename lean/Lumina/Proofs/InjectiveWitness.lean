/-
  The hash hypotheses of C01's mutation theorems (`Function.Injective P.hHeader / hValset / hDah`)
  are SATISFIABLE as stated: the digest type `Hash = Option (List UInt8)` carries no length
  bound (no "32 bytes" clause), so a self-delimiting serialisation is an injective instance.
  This file constructs one explicitly and proves the three injectivity facts.
-/
import Lumina.Model.HeaderVerify

namespace Lumina.Proofs.InjectiveWitness
open Lumina.Model.HeaderVerify

/-- self-delimiting encoding of a byte string: `1 x` per byte, `0` at the end -/
def encB : List UInt8 → List UInt8
  | [] => [0]
  | x :: xs => 1 :: x :: encB xs

/-- concatenation of self-delimiting items -/
def encL : List (List UInt8) → List UInt8
  | [] => []
  | b :: l => encB b ++ encL l

theorem encB_prefix : ∀ (a b r r' : List UInt8), encB a ++ r = encB b ++ r' → a = b ∧ r = r' := by
  intro a
  induction a with
  | nil =>
    intro b r r' h
    cases b with
    | nil => simpa [encB] using h
    | cons y ys => simp [encB] at h
  | cons x xs ih =>
    intro b r r' h
    cases b with
    | nil => simp [encB] at h
    | cons y ys =>
      simp only [encB, List.cons_append, List.cons.injEq, true_and] at h
      obtain ⟨hxy, hrest⟩ := h
      obtain ⟨h1, h2⟩ := ih ys r r' hrest
      exact ⟨by rw [hxy, h1], h2⟩

theorem encB_ne_nil (a : List UInt8) : encB a ≠ [] := by cases a <;> simp [encB]

theorem encL_inj : Function.Injective encL := by
  intro l
  induction l with
  | nil =>
    intro l' h
    cases l' with
    | nil => rfl
    | cons b l' =>
      simp only [encL] at h
      have : encB b ++ encL l' ≠ [] := by simp [encB_ne_nil]
      exact absurd h.symm this
  | cons a l ih =>
    intro l' h
    cases l' with
    | nil =>
      simp only [encL] at h
      have : encB a ++ encL l ≠ [] := by simp [encB_ne_nil]
      exact absurd h this
    | cons b l' =>
      simp only [encL] at h
      obtain ⟨h1, h2⟩ := encB_prefix a b _ _ h
      rw [h1, ih h2]

def encNat (n : Nat) : List UInt8 := List.replicate n 0

theorem encNat_inj : Function.Injective encNat := by
  intro a b h
  have := congrArg List.length h
  simpa [encNat] using this

def encInt : Int → List UInt8
  | .ofNat n => 0 :: encNat n
  | .negSucc n => 1 :: encNat n

theorem encInt_inj : Function.Injective encInt := by
  intro a b h
  cases a <;> cases b <;> simp [encInt] at h
  · rw [encNat_inj h]
  · rw [encNat_inj h]

def encHash : Hash → List UInt8
  | none => [0]
  | some b => 1 :: b

theorem encHash_inj : Function.Injective encHash := by
  intro a b h
  cases a <;> cases b <;> simp_all [encHash]

def encOHash : Option Hash → List UInt8
  | none => [0]
  | some none => [1]
  | some (some b) => 2 :: b

theorem encOHash_inj : Function.Injective encOHash := by
  intro a b h
  rcases a with _ | _ | a <;> rcases b with _ | _ | b <;> simp_all [encOHash]

def encBid (b : BlockId) : List UInt8 := encL [encHash b.hash, encNat b.pst, encHash b.psh]

theorem encBid_inj : Function.Injective encBid := by
  intro a b h
  have := encL_inj h
  simp only [List.cons.injEq, and_true] at this
  obtain ⟨h1, h2, h3⟩ := this
  cases a; cases b
  simp only [BlockId.mk.injEq]
  exact ⟨encHash_inj h1, encNat_inj h2, encHash_inj h3⟩

def encOBid : Option BlockId → List UInt8
  | none => [0]
  | some b => 1 :: encBid b

theorem encOBid_inj : Function.Injective encOBid := by
  intro a b h
  cases a <;> cases b <;> simp [encOBid] at h
  · rfl
  · rw [encBid_inj h]

/-- the 15 fields of a header, each serialised injectively -/
def fields (h : HeaderF) : List (List UInt8) :=
  [encNat h.versionBlock, encNat h.versionApp, h.chainId, encNat h.height, encInt h.time,
   encOBid h.lastBlockId, encOHash h.lastCommitHash, encOHash h.dataHash, encHash h.validatorsHash,
   encHash h.nextValidatorsHash, encHash h.consensusHash, h.appHash, encOHash h.lastResultsHash,
   encOHash h.evidenceHash, h.proposerAddress]

theorem fields_inj : Function.Injective fields := by
  intro a b h
  cases a; cases b
  simp only [fields, List.cons.injEq, and_true] at h
  obtain ⟨h1, h2, h3, h4, h5, h6, h7, h8, h9, h10, h11, h12, h13, h14, h15⟩ := h
  simp only [HeaderF.mk.injEq]
  exact ⟨encNat_inj h1, encNat_inj h2, h3, encNat_inj h4, encInt_inj h5, encOBid_inj h6,
    encOHash_inj h7, encOHash_inj h8, encHash_inj h9, encHash_inj h10, encHash_inj h11, h12,
    encOHash_inj h13, encOHash_inj h14, h15⟩

/-- an injective "header hash" -/
def hHeaderInj (h : HeaderF) : Hash := some (encL (fields h))

theorem hHeaderInj_inj : Function.Injective hHeaderInj := by
  intro a b h
  exact fields_inj (encL_inj (Option.some.inj h))

/-- an injective "DAH hash" (over `rows ++ cols`) -/
def hDahInj (l : List (List UInt8)) : Hash := some (encL l)

theorem hDahInj_inj : Function.Injective hDahInj := fun _ _ h => encL_inj (Option.some.inj h)

/-- an injective "validator-set hash" (over the (key, power) list) -/
def hValsetInj (l : List (List UInt8 × Nat)) : Hash :=
  some (encL (l.flatMap (fun p => [p.1, encNat p.2])))

theorem flat_inj : Function.Injective (fun (l : List (List UInt8 × Nat)) => l.flatMap (fun p => [p.1, encNat p.2])) := by
  intro l
  induction l with
  | nil =>
    intro l' h
    cases l' with
    | nil => rfl
    | cons b l' => simp at h
  | cons a l ih =>
    intro l' h
    cases l' with
    | nil => simp at h
    | cons b l' =>
      simp only [List.flatMap_cons, List.cons_append, List.nil_append, List.cons.injEq] at h
      obtain ⟨h1, h2, h3⟩ := h
      have : a = b := by
        cases a; cases b
        simp only [Prod.mk.injEq]
        exact ⟨h1, encNat_inj h2⟩
      rw [this, ih h3]

theorem hValsetInj_inj : Function.Injective hValsetInj := by
  intro a b h
  exact flat_inj (encL_inj (Option.some.inj h))

end Lumina.Proofs.InjectiveWitness

/-
  Multi-leaf range proofs, part 3: the namespace proofs an honest tree hands out verify.

  * `nsSplit`: a namespace-sorted list splits into (smaller) ++ (equal) ++ (greater); `lowerBound` / `namespaceRange` of the
    nmt-rs model in those terms.
  * `validateShape_honest_multi`: proofs built by `build_range_proof` pass lumina's `validate_shape`.
  * `getNamespaceProof_verifies`: for a non-empty namespace-sorted tree (≤ 2^31 leaves) whose root range covers `ns`,
    `get_namespace_proof(ns)` succeeds (presence proof for the whole run of `ns`-leaves, or absence proof with the first
    greater leaf) and lumina's `verify_complete_namespace` accepts it together with exactly the `ns`-leaves.
-/
import Lumina.Proofs.NmtMultiComplete
import Lumina.Model.Eds

namespace Lumina.Proofs.NmtMulti
open Lumina.Util Lumina.Model.Nmt Lumina.Proofs.Nmt Lumina.Proofs.NmtRange Lumina.Model.Eds

abbrev SortedBy {α} (k : α → Bytes) (l : List α) : Prop := (l.map k).Pairwise (fun a b => leB a b = true)

theorem leB_of_not_ltB {a b : Bytes} (h : ltB a b = false) : leB b a = true := by unfold leB; simp [h]

/-- stage 1: split off the elements below `ns` -/
theorem split_lt {α} (k : α → Bytes) (ns : Bytes) : ∀ (l : List α), SortedBy k l →
    ∃ A R, l = A ++ R ∧ (∀ x ∈ A, ltB (k x) ns = true) ∧ (∀ x ∈ R, leB ns (k x) = true) ∧
      lowerBound (l.map k) ns = A.length := by
  intro l
  induction l with
  | nil => intro _; exact ⟨[], [], rfl, by simp, by simp, rfl⟩
  | cons x t ih =>
    intro hs
    unfold SortedBy at hs
    simp only [List.map_cons, List.pairwise_cons] at hs
    obtain ⟨hx, ht⟩ := hs
    by_cases hlt : ltB (k x) ns = true
    · obtain ⟨A, R, hl, hA, hR, hlb⟩ := ih ht
      refine ⟨x :: A, R, by rw [hl]; rfl, ?_, hR, ?_⟩
      · intro y hy
        rcases List.mem_cons.mp hy with rfl | hy
        · exact hlt
        · exact hA y hy
      · unfold lowerBound at hlb ⊢
        simp only [List.map_cons, List.takeWhile_cons, hlt, ↓reduceIte, List.length_cons, hlb]
    · have hlt' : ltB (k x) ns = false := by simpa using hlt
      have hxge := leB_of_not_ltB hlt'
      refine ⟨[], x :: t, rfl, by simp, ?_, ?_⟩
      · intro y hy
        rcases List.mem_cons.mp hy with rfl | hy
        · exact hxge
        · exact leB_trans hxge (hx (k y) (List.mem_map.mpr ⟨y, hy, rfl⟩))
      · unfold lowerBound
        simp [List.takeWhile_cons, hlt']

/-- stage 2: of elements that are all `≥ ns`, split off those equal to `ns` -/
theorem split_eq {α} (k : α → Bytes) (ns : Bytes) : ∀ (l : List α), SortedBy k l → (∀ x ∈ l, leB ns (k x) = true) →
    ∃ B R, l = B ++ R ∧ (∀ x ∈ B, k x = ns) ∧ (∀ x ∈ R, ltB ns (k x) = true) ∧
      ((l.map k).takeWhile (fun x => x == ns)).length = B.length := by
  intro l
  induction l with
  | nil => intro _ _; exact ⟨[], [], rfl, by simp, by simp, rfl⟩
  | cons x t ih =>
    intro hs hge
    unfold SortedBy at hs
    simp only [List.map_cons, List.pairwise_cons] at hs
    obtain ⟨hx, ht⟩ := hs
    by_cases heq : k x = ns
    · obtain ⟨B, R, hl, hB, hR, hc⟩ := ih ht (fun y hy => hge y (by simp [hy]))
      refine ⟨x :: B, R, by rw [hl]; rfl, ?_, hR, ?_⟩
      · intro y hy
        rcases List.mem_cons.mp hy with rfl | hy
        · exact heq
        · exact hB y hy
      · simp only [List.map_cons, List.takeWhile_cons, heq, beq_self_eq_true, ↓reduceIte, List.length_cons, hc]
    · have hgt : ltB ns (k x) = true := by
        rcases ltB_trichotomy ns (k x) with h | h | h
        · exact h
        · exact absurd h.symm heq
        · have := hge x (by simp); unfold leB at this; rw [h] at this; cases this
      refine ⟨[], x :: t, rfl, by simp, ?_, ?_⟩
      · intro y hy
        rcases List.mem_cons.mp hy with rfl | hy
        · exact hgt
        · exact ltB_of_ltB_of_leB hgt (hx (k y) (List.mem_map.mpr ⟨y, hy, rfl⟩))
      · have : (k x == ns) = false := by simpa using heq
        simp [List.takeWhile_cons, this]

/-- a namespace-sorted list is (below `ns`) ++ (equal to `ns`) ++ (above `ns`); `lowerBound` and `namespaceRange` of
    the nmt-rs model say so -/
theorem nsSplit {α} (k : α → Bytes) (ns : Bytes) (l : List α) (hs : SortedBy k l) :
    ∃ A B R, l = A ++ B ++ R ∧ (∀ x ∈ A, ltB (k x) ns = true) ∧ (∀ x ∈ B, k x = ns) ∧
      (∀ x ∈ R, ltB ns (k x) = true) ∧ lowerBound (l.map k) ns = A.length ∧
      namespaceRange (l.map k) ns = (if B.length = 0 then none else some (A.length, A.length + B.length)) := by
  obtain ⟨A, R1, hl, hA, hR1, hlb⟩ := split_lt k ns l hs
  have hsR1 : SortedBy k R1 := by
    unfold SortedBy at hs ⊢
    rw [hl, List.map_append, List.pairwise_append] at hs
    exact hs.2.1
  obtain ⟨B, R, hl2, hB, hR, hc⟩ := split_eq k ns R1 hsR1 hR1
  refine ⟨A, B, R, by rw [hl, hl2, List.append_assoc], hA, hB, hR, hlb, ?_⟩
  unfold namespaceRange
  simp only [hlb]
  have hd : (l.map k).drop A.length = R1.map k := by
    rw [hl, List.map_append]
    rw [List.drop_left' (by simp)]
  rw [hd, hc]

/-! ### lumina's shape validation on honest proofs -/

/-- **honest proofs pass `validate_shape`**: the siblings are the roots of consecutive segments of the (sorted) leaves
    left of the range (`ML`, all `≤ first`) and right of it (`MR`, all `≥ last`) -/
theorem validateShape_honest_multi {H : HashFn} {ML MR pl pr : List NsHash} {p : NsProof} {first last : Bytes}
    (hleaf : ∀ y ∈ ML ++ MR, LeafNs y) (hs : SortedNs (ML ++ MR))
    (hpl : Segs H true ML pl) (hpr : Segs H true MR pr) (hsib : p.siblings = pl ++ pr)
    (hlen : pl.length = computeNumLeftSiblings p.start)
    (hfirst : ∀ y ∈ ML, leB y.minNs first = true) (hlast : ∀ y ∈ MR, leB last y.minNs = true) :
    validateShape p first last = .ok () := by
  have hs' := hs
  unfold SortedNs at hs'
  rw [List.pairwise_append] at hs'
  obtain ⟨hsl, hsr, hcross⟩ := hs'
  obtain ⟨hadj, hmm⟩ := (hpl.append hpr).ordered hleaf hs
  unfold validateShape
  simp only [hsib]
  have c1 : ¬ (computeNumLeftSiblings p.start > (pl ++ pr).length) := by simp [List.length_append, hlen]
  have c2 : (pl ++ pr).any (fun n => ltB n.maxNs n.minNs) = false := by
    rw [List.any_eq_false]; intro r hr; simpa using hmm r hr
  simp only [c1, ↓reduceIte, c2, hadj, Bool.false_eq_true]
  have c4 : ∀ l, computeNumLeftSiblings p.start ≠ 0 → (pl ++ pr)[computeNumLeftSiblings p.start - 1]? = some l →
      ltB first l.maxNs = false := by
    intro l h0 hl
    have hlt : computeNumLeftSiblings p.start - 1 < pl.length := by omega
    rw [List.getElem?_append_left hlt, List.getElem?_eq_getElem hlt] at hl
    injection hl with hl
    subst hl
    obtain ⟨seg, hne, hsub, hroot⟩ := hpl.mem _ (List.getElem_mem hlt)
    have R := computeRoot_range hne (fun y hy => hleaf y (List.mem_append_left _ (hsub.subset hy)))
      (hsl.sublist hsub) hroot
    obtain ⟨y, hy, hyle⟩ := R.maxMem
    have : leB (pl[computeNumLeftSiblings p.start - 1]).maxNs first = true :=
      leB_trans hyle (hfirst y (hsub.subset hy))
    unfold leB at this; simpa using this
  have c5 : ∀ r, (pl ++ pr)[computeNumLeftSiblings p.start]? = some r → ltB r.minNs last = false := by
    intro r hr0
    rw [← hlen, List.getElem?_append_right (Nat.le_refl _), Nat.sub_self] at hr0
    have hmem : r ∈ pr := List.mem_of_getElem? hr0
    obtain ⟨seg, hne, hsub, hroot⟩ := hpr.mem _ hmem
    have R := computeRoot_range hne (fun y hy => hleaf y (List.mem_append_right _ (hsub.subset hy)))
      (hsr.sublist hsub) hroot
    obtain ⟨y, hy, hye⟩ := R.minMem
    have : leB last r.minNs = true := by rw [hye]; exact hlast y (hsub.subset hy)
    unfold leB at this; simpa using this
  have fin : ∀ (b : Bool), b = false →
      (if b = true then Except.error Err.malformedProof
       else if (match (pl ++ pr)[computeNumLeftSiblings p.start]? with
                | some r => ltB r.minNs last
                | none => false) = true then Except.error Err.malformedProof
       else (Except.ok () : Except Err Unit)) = Except.ok () := by
    intro b hb
    subst hb
    simp only [Bool.false_eq_true, ↓reduceIte]
    cases hr0 : (pl ++ pr)[computeNumLeftSiblings p.start]? with
    | none => simp
    | some r => simp [c5 r hr0]
  apply fin
  by_cases h0 : computeNumLeftSiblings p.start = 0
  · simp [h0]
  · simp only [ne_eq, h0, not_false_eq_true, ↓reduceIte]
    cases hl : (pl ++ pr)[computeNumLeftSiblings p.start - 1]? with
    | none => rfl
    | some l => simp [c4 l h0 hl]

/-! ### what the neighbouring siblings of an honest proof look like -/

theorem left_max_lt {H : HashFn} {ML pl : List NsHash} {ns : Bytes} (hpl : Segs H true ML pl)
    (hleaf : ∀ y ∈ ML, LeafNs y) (hs : SortedNs ML) (hlt : ∀ y ∈ ML, ltB y.minNs ns = true) :
    ∀ sib ∈ pl, ltB sib.maxNs ns = true := by
  intro sib hsib
  obtain ⟨seg, hne, hsub, hroot⟩ := hpl.mem _ hsib
  have R := computeRoot_range hne (fun y hy => hleaf y (hsub.subset hy)) (hs.sublist hsub) hroot
  obtain ⟨y, hy, hyle⟩ := R.maxMem
  exact ltB_of_leB_of_ltB hyle (hlt y (hsub.subset hy))

theorem right_min_gt {H : HashFn} {MR pr : List NsHash} {ns : Bytes} (hpr : Segs H true MR pr)
    (hleaf : ∀ y ∈ MR, LeafNs y) (hs : SortedNs MR) (hgt : ∀ y ∈ MR, ltB ns y.minNs = true) :
    ∀ sib ∈ pr, ltB ns sib.minNs = true := by
  intro sib hsib
  obtain ⟨seg, hne, hsub, hroot⟩ := hpr.mem _ hsib
  have R := computeRoot_range hne (fun y hy => hleaf y (hsub.subset hy)) (hs.sublist hsub) hroot
  obtain ⟨y, hy, hye⟩ := R.minMem
  rw [hye]; exact hgt y (hsub.subset hy)

theorem contains_not_empty {H : HashFn} {root : NsHash} {ns : Bytes} (h : root.contains H ns = true) :
    root.isEmptyRoot H = false := by
  unfold NsHash.contains at h
  simp only [Bool.and_eq_true, Bool.not_eq_true'] at h
  exact h.2

/-- a presence proof with honest siblings for the complete run of `ns`-leaves is accepted by nmt-rs
    `verify_complete_namespace` -/
theorem vcn_presence_ok {H : HashFn} {root : NsHash} {ML MR pl pr : List NsHash} {s : Nat} {ns : Bytes} {datas : List Bytes}
    (hd : datas ≠ []) (hcont : root.contains H ns = true)
    (hleaf : ∀ y ∈ ML ++ MR, LeafNs y) (hs : SortedNs (ML ++ MR))
    (hpl : Segs H true ML pl) (hpr : Segs H true MR pr) (hlen : pl.length = computeNumLeftSiblings s)
    (hlt : ∀ y ∈ ML, ltB y.minNs ns = true) (hgt : ∀ y ∈ MR, ltB ns y.minNs = true)
    (hchk : checkRangeProof H true root (datas.map (hashLeaf H ns)) (pl ++ pr) s = .ok ()) :
    verifyCompleteNamespace H ⟨s, s + datas.length, pl ++ pr, true, false, none⟩ root datas ns = .ok () := by
  have hs' := hs
  unfold SortedNs at hs'
  rw [List.pairwise_append] at hs'
  obtain ⟨hsl, hsr, _⟩ := hs'
  obtain ⟨_, hmm⟩ := (hpl.append hpr).ordered hleaf hs
  have hLmax := left_max_lt hpl (fun y hy => hleaf y (List.mem_append_left _ hy)) hsl hlt
  have hRmin := right_min_gt hpr (fun y hy => hleaf y (List.mem_append_right _ hy)) hsr hgt
  have hXns : ∀ x ∈ datas.map (hashLeaf H ns), x.minNs = ns ∧ x.maxNs = ns := by
    intro x hx; obtain ⟨d, _, rfl⟩ := List.mem_map.mp hx; exact ⟨rfl, rfl⟩
  have hdl : datas.length ≠ 0 := by
    intro h; exact hd (List.eq_nil_of_length_eq_zero h)
  have hde : datas.isEmpty = false := by
    cases datas with
    | nil => exact absurd rfl hd
    | cons a t => rfl
  unfold verifyCompleteNamespace
  have hrl : (NsProof.mk s (s + datas.length) (pl ++ pr) true false none).rangeLen = datas.length := by
    unfold NsProof.rangeLen; simp
  simp only [hrl, ne_eq, not_true_eq_false, decide_false, Bool.and_false, Bool.false_eq_true, ↓reduceIte]
  unfold verifyNamespace
  simp only [contains_not_empty hcont, Bool.false_and, Bool.false_eq_true, ↓reduceIte, hcont, Bool.not_true]
  -- the NMT-level check
  have hnmt : nmtCheckRangeProof H true root (datas.map (hashLeaf H ns)) (pl ++ pr) s = .ok true := by
    unfold nmtCheckRangeProof
    unfold checkRangeProof at hchk
    have h0 : ¬ ((datas.map (hashLeaf H ns)).length = 0) := by simpa using hdl
    rw [if_neg h0] at hchk ⊢
    by_cases htriv : (datas.map (hashLeaf H ns)).length = 1 ∧ (pl ++ pr).isEmpty = true
    · rw [if_pos htriv] at hchk ⊢
      split at hchk
      · rename_i hc; rw [if_pos hc]
      · cases hchk
    · rw [if_neg htriv] at hchk ⊢
      have hany : (pl ++ pr).any (fun h => ltB h.maxNs h.minNs) = false := by
        rw [List.any_eq_false]; intro r hr; simpa using hmm r hr
      rw [hany]
      simp only [Bool.false_eq_true, ↓reduceIte]
      have hcpc : checkProofCompleteness (datas.map (hashLeaf H ns)) (pl ++ pr) (computeNumLeftSiblings s) = .ok true := by
        unfold checkProofCompleteness
        have hnp : ¬ (computeNumLeftSiblings s ≠ 0 ∧ (pl ++ pr).length < computeNumLeftSiblings s) := by
          rw [List.length_append, hlen]; omega
        rw [if_neg hnp]
        refine congrArg Except.ok ?_
        rw [Bool.and_eq_true]
        refine ⟨?_, ?_⟩
        · split
          · rename_i hnz
            split
            · rename_i sib first h1 h2
              have hlt' : computeNumLeftSiblings s - 1 < pl.length := by omega
              rw [List.getElem?_append_left hlt'] at h1
              have hm := List.mem_of_getElem? h1
              have hf := (hXns first (List.mem_of_mem_head? h2)).1
              rw [hf]; exact hLmax sib hm
            · rfl
          · rfl
        · split
          · split
            · rename_i sib last h1 h2
              rw [← hlen, List.getElem?_append_right (Nat.le_refl _), Nat.sub_self] at h1
              have hm := List.mem_of_getElem? h1
              have hf := (hXns last (List.mem_of_getLast? h2)).2
              rw [hf]; exact hRmin sib hm
            · rfl
          · rfl
      rw [hcpc]
      simp only
      unfold checkRangeProof
      rw [if_neg h0, if_neg htriv, hchk]
  rw [hnmt]
  rfl

/-- an absence proof with honest siblings around the first leaf above `ns` is accepted by nmt-rs
    `verify_complete_namespace` -/
theorem vcn_absence_ok {H : HashFn} {root lf : NsHash} {ML pl pr : List NsHash} {s e : Nat} {ns : Bytes}
    (hcont : root.contains H ns = true) (hlf : ltB ns lf.minNs = true)
    (hleaf : ∀ y ∈ ML, LeafNs y) (hs : SortedNs ML)
    (hpl : Segs H true ML pl) (hlen : pl.length = computeNumLeftSiblings s)
    (hlt : ∀ y ∈ ML, ltB y.minNs ns = true)
    (hchk : checkRangeProof H true root [lf] (pl ++ pr) s = .ok ()) :
    verifyCompleteNamespace H ⟨s, e, pl ++ pr, true, true, some lf⟩ root [] ns = .ok () := by
  have hLmax := left_max_lt hpl hleaf hs hlt
  unfold verifyCompleteNamespace
  simp only [Bool.not_true, Bool.false_and, Bool.false_eq_true, ↓reduceIte]
  unfold verifyNamespace
  simp only [contains_not_empty hcont, Bool.false_and, Bool.false_eq_true, ↓reduceIte, hcont, Bool.not_true,
    List.isEmpty_nil]
  have hle : leB lf.minNs ns = false := by unfold leB; simp [hlf]
  simp only [hle, Bool.false_eq_true, ↓reduceIte]
  have hnp : ¬ (computeNumLeftSiblings s > 0 ∧ (pl ++ pr).length < computeNumLeftSiblings s) := by
    rw [List.length_append, hlen]; omega
  rw [if_neg hnp]
  have key : ∀ (b : Bool), b = false →
      (if b = true then Except.error Err.malformedProof else checkRangeProof H true root [lf] (pl ++ pr) s) = .ok () := by
    intro b hb; subst hb; simpa using hchk
  apply key
  split
  · split
    · rename_i sib h1
      have hlt' : computeNumLeftSiblings s - 1 < pl.length := by omega
      rw [List.getElem?_append_left hlt'] at h1
      have := hLmax sib (List.mem_of_getElem? h1)
      unfold leB; simp [this]
    · rfl
  · rfl

/-! ### `get_namespace_proof` on a namespace-sorted tree -/

theorem leafHash_leafNs {H : HashFn} {sh : Share} (h : sh.ns.length = NS_SIZE) : LeafNs (sh.leafHash H) := ⟨rfl, h⟩

theorem filter_of_split {α} (p : α → Bool) {A B R : List α} (hA : ∀ x ∈ A, p x = false) (hB : ∀ x ∈ B, p x = true)
    (hR : ∀ x ∈ R, p x = false) : (A ++ B ++ R).filter p = B := by
  rw [List.filter_append, List.filter_append]
  have h1 : A.filter p = [] := by rw [List.filter_eq_nil_iff]; intro a ha; simp [hA a ha]
  have h2 : R.filter p = [] := by rw [List.filter_eq_nil_iff]; intro a ha; simp [hR a ha]
  have h3 : B.filter p = B := by rw [List.filter_eq_self]; intro a ha; exact hB a ha
  rw [h1, h2, h3]; simp

theorem ne_of_ltB {a b : Bytes} (h : ltB a b = true) : a ≠ b := by
  intro he; subst he; rw [ltB_irrefl] at h; cases h

/-- **`get_namespace_proof` is complete**: on a non-empty namespace-sorted tree of at most 2^31 leaves whose root range
    covers `ns`, it returns a proof (presence for the whole run of `ns`-leaves, absence with the first greater leaf when
    there is none) that lumina's `verify_complete_namespace` (shape validation + nmt-rs) accepts together with exactly
    the `ns`-leaves' data.  No hypothesis on the hash. -/
theorem getNamespaceProof_verifies {H : HashFn} {shares : List Share} {root : NsHash} {ns : Bytes}
    (hlen : shares.length ≤ 2 ^ 31) (hsort : SortedBy Share.ns shares)
    (hnsl : ∀ sh ∈ shares, sh.ns.length = NS_SIZE)
    (hroot : computeRoot H true (shares.map (Share.leafHash H)) = .ok root)
    (hcont : root.contains H ns = true) (hns : ns.length = NS_SIZE) :
    ∃ proof, getNamespaceProof H true (shares.map Share.leaf) ns = .ok proof ∧
      (shares.filter (fun sh => sh.ns == ns)).isEmpty = proof.isAbsence ∧
      luminaVerifyCompleteNamespace H proof root ((shares.filter (fun sh => sh.ns == ns)).map Share.data) ns = .ok () := by
  have hmapL : (shares.map Share.leaf).map (fun x => match x with | (n, d) => hashLeaf H n d) = shares.map (Share.leafHash H) := by
    simp [List.map_map, Share.leaf, Share.leafHash, Function.comp_def]
  have hmapN : (shares.map Share.leaf).map Prod.fst = shares.map Share.ns := by
    simp [List.map_map, Share.leaf, Function.comp_def]
  obtain ⟨A, B, R, hl, hA, hB, hR, hlb, hnr⟩ := nsSplit Share.ns ns shares hsort
  have hfil : shares.filter (fun sh => sh.ns == ns) = B := by
    rw [hl]
    apply filter_of_split
    · intro x hx; simpa using ne_of_ltB (hA x hx)
    · intro x hx; simpa using hB x hx
    · intro x hx; have := ne_of_ltB (hR x hx); simpa using fun h => this h.symm
  -- the leaf hashes
  have hhs : shares.map (Share.leafHash H) = A.map (Share.leafHash H) ++ B.map (Share.leafHash H) ++ R.map (Share.leafHash H) := by
    rw [hl]; simp
  have hleafAll : ∀ y ∈ shares.map (Share.leafHash H), LeafNs y := by
    intro y hy; obtain ⟨sh, hsh, rfl⟩ := List.mem_map.mp hy; exact leafHash_leafNs (hnsl sh hsh)
  have hsortAll : SortedNs (shares.map (Share.leafHash H)) := by
    unfold SortedNs; rw [List.pairwise_map]
    unfold SortedBy at hsort; rw [List.pairwise_map] at hsort
    exact hsort
  have RG : ∀ (hne : shares ≠ []), RangeOK (shares.map (Share.leafHash H)) root :=
    fun hne => computeRoot_range (by simpa using hne) hleafAll hsortAll hroot
  have hminA : ∀ y ∈ A.map (Share.leafHash H), ltB y.minNs ns = true := by
    intro y hy; obtain ⟨sh, hsh, rfl⟩ := List.mem_map.mp hy; exact hA sh hsh
  have hminR : ∀ y ∈ R.map (Share.leafHash H), ltB ns y.minNs = true := by
    intro y hy; obtain ⟨sh, hsh, rfl⟩ := List.mem_map.mp hy; exact hR sh hsh
  have hcontLe : leB ns root.maxNs = true := by
    unfold NsHash.contains at hcont
    simp only [Bool.and_eq_true] at hcont
    exact hcont.1.2
  unfold getNamespaceProof
  simp only [hmapL, hmapN, hroot, hcont, Bool.not_true, Bool.false_eq_true, ↓reduceIte, hnr, hlb]
  by_cases hBe : B = []
  · -- no leaf of the namespace: absence proof with the first greater leaf
    subst hBe
    simp only [List.length_nil, ↓reduceIte, List.append_nil, List.map_nil] at hl hhs hfil ⊢
    -- there is a greater leaf
    have hRne : R ≠ [] := by
      intro hRe
      subst hRe
      simp only [List.append_nil] at hl
      have hne : shares ≠ [] := by
        intro h
        rw [h] at hroot
        have : root = emptyRoot H := by simpa [computeRoot, computeRootAux] using hroot.symm
        have := contains_not_empty hcont
        unfold NsHash.isEmptyRoot at this
        simp_all
      have RGo := RG hne
      have hall : ∀ y ∈ shares.map (Share.leafHash H), ltB y.minNs ns = true := by rw [hl]; exact hminA
      by_cases hpar : ∀ x ∈ shares.map (Share.leafHash H), x.minNs = maxNsId
      · obtain ⟨y, hy⟩ : ∃ y, y ∈ shares.map (Share.leafHash H) := by
          cases hs : shares.map (Share.leafHash H) with
          | nil => simp at hs; exact absurd hs hne
          | cons a t => exact ⟨a, by simp⟩
        have h1 := hall y hy
        rw [hpar y hy] at h1
        have := leB_maxNsId NS_SIZE ns hns
        unfold leB at this
        rw [show List.replicate NS_SIZE (255 : UInt8) = maxNsId from rfl, h1] at this
        cases this
      · have hex : ∃ x ∈ shares.map (Share.leafHash H), x.minNs ≠ maxNsId := by
          apply Classical.byContradiction
          intro hno
          apply hpar
          intro x hx
          apply Classical.byContradiction
          intro hne'
          exact hno ⟨x, hx, hne'⟩
        obtain ⟨y, hy, _, hyl⟩ := RGo.maxMemNon hex
        have := ltB_of_leB_of_ltB (leB_trans hcontLe hyl) (hall y hy)
        rw [ltB_irrefl] at this; cases this
    obtain ⟨r0, R', rfl⟩ : ∃ r0 R', R = r0 :: R' := by
      cases R with
      | nil => exact absurd rfl hRne
      | cons a t => exact ⟨a, t, rfl⟩
    have hAlen : A.length < shares.length := by rw [hl]; simp
    have hidx : (shares.map (Share.leafHash H))[A.length]? = some (r0.leafHash H) := by
      rw [hhs, List.getElem?_append_right (by simp)]; simp
    obtain ⟨pl, pr, hb, hsl, hsr, hpl, hchk⟩ := range_complete (s := A.length) (e := A.length + 1) hroot (by omega)
      (by rw [List.length_map]; omega) (by rw [List.length_map]; exact hlen)
    have htake : (shares.map (Share.leafHash H)).take A.length = A.map (Share.leafHash H) := by
      rw [hhs]; rw [List.take_left' (by simp)]
    have hdrop : (shares.map (Share.leafHash H)).drop (A.length + 1) = R'.map (Share.leafHash H) := by
      rw [hhs]
      have : A.map (Share.leafHash H) ++ List.map (Share.leafHash H) (r0 :: R') =
          (A.map (Share.leafHash H) ++ [r0.leafHash H]) ++ R'.map (Share.leafHash H) := by simp
      rw [this, List.drop_left' (by simp)]
    have hX : ((shares.map (Share.leafHash H)).drop A.length).take (A.length + 1 - A.length) = [r0.leafHash H] := by
      rw [hhs, List.drop_left' (by simp)]
      have : A.length + 1 - A.length = 1 := by omega
      rw [this]; rfl
    rw [htake] at hsl; rw [hdrop] at hsr; rw [hX] at hchk
    rw [hb, hidx]
    simp only
    refine ⟨_, rfl, by simp [hfil], ?_⟩
    rw [hfil]
    have hr0gt : ltB ns (r0.leafHash H).minNs = true := hR r0 (by simp)
    have hleafA : ∀ y ∈ A.map (Share.leafHash H), LeafNs y := by
      intro y hy; exact hleafAll y (by rw [hhs]; exact List.mem_append_left _ hy)
    have hsortA : SortedNs (A.map (Share.leafHash H)) := by
      have := hsortAll
      unfold SortedNs at this ⊢
      rw [hhs, List.pairwise_append] at this
      exact this.1
    unfold luminaVerifyCompleteNamespace completeNamespaceShape
    simp only [↓reduceIte]
    have hirr : ltB (r0.leafHash H).maxNs (r0.leafHash H).minNs = false := by
      show ltB r0.ns r0.ns = false
      exact ltB_irrefl _
    rw [hirr]
    simp only [Bool.false_eq_true, ↓reduceIte]
    have hvs : validateShape ⟨A.length, A.length + 1, pl ++ pr, true, true, some (r0.leafHash H)⟩
        (r0.leafHash H).minNs (r0.leafHash H).maxNs = .ok () := by
      have hsub : (A.map (Share.leafHash H) ++ R'.map (Share.leafHash H)).Sublist (shares.map (Share.leafHash H)) := by
        rw [hhs]
        exact List.Sublist.append (List.Sublist.refl _) (List.sublist_cons_self _ _)
      refine validateShape_honest_multi (ML := A.map (Share.leafHash H)) (MR := R'.map (Share.leafHash H))
        (fun y hy => hleafAll y (hsub.subset hy)) (hsortAll.sublist hsub) hsl hsr rfl hpl ?_ ?_
      · intro y hy
        exact leB_of_ltB (ltB_trans (hminA y hy) hr0gt)
      · intro y hy
        have := hsortAll
        unfold SortedNs at this
        rw [hhs, List.pairwise_append] at this
        have h2 := this.2.1
        simp only [List.map_cons, List.pairwise_cons] at h2
        exact h2.1 y hy
    rw [hvs]
    simp only
    exact vcn_absence_ok hcont hr0gt hleafA hsortA hsl hpl hminA hchk
  · -- presence proof for the whole run
    have hBl : B.length ≠ 0 := by
      intro h; exact hBe (List.eq_nil_of_length_eq_zero h)
    simp only [hBl, ↓reduceIte]
    have hlenS : shares.length = A.length + B.length + R.length := by rw [hl]; simp; omega
    obtain ⟨pl, pr, hb, hsl, hsr, hpl, hchk⟩ := range_complete (s := A.length) (e := A.length + B.length) hroot (by omega)
      (by rw [List.length_map]; omega) (by rw [List.length_map]; exact hlen)
    have htake : (shares.map (Share.leafHash H)).take A.length = A.map (Share.leafHash H) := by
      rw [hhs, List.append_assoc]; rw [List.take_left' (by simp)]
    have hdrop : (shares.map (Share.leafHash H)).drop (A.length + B.length) = R.map (Share.leafHash H) := by
      rw [hhs, List.drop_left' (by simp)]
    have hBmap : B.map (Share.leafHash H) = (B.map Share.data).map (hashLeaf H ns) := by
      rw [List.map_map]
      apply List.map_congr_left
      intro sh hsh
      show hashLeaf H sh.ns sh.data = hashLeaf H ns sh.data
      rw [hB sh hsh]
    have hX : ((shares.map (Share.leafHash H)).drop A.length).take (A.length + B.length - A.length) =
        (B.map Share.data).map (hashLeaf H ns) := by
      rw [hhs, List.append_assoc, List.drop_left' (by simp)]
      have : A.length + B.length - A.length = B.length := by omega
      rw [this, List.take_left' (by simp), hBmap]
    rw [htake] at hsl; rw [hdrop] at hsr; rw [hX] at hchk
    rw [hb]
    simp only
    refine ⟨_, rfl, ?_, ?_⟩
    · rw [hfil]
      cases B with
      | nil => exact absurd rfl hBe
      | cons a t => rfl
    rw [hfil]
    have hsub : (A.map (Share.leafHash H) ++ R.map (Share.leafHash H)).Sublist (shares.map (Share.leafHash H)) := by
      rw [hhs, List.append_assoc]
      exact List.Sublist.append (List.Sublist.refl _) (List.sublist_append_right _ _)
    have hleafM : ∀ y ∈ A.map (Share.leafHash H) ++ R.map (Share.leafHash H), LeafNs y :=
      fun y hy => hleafAll y (hsub.subset hy)
    have hsortM := hsortAll.sublist hsub
    unfold luminaVerifyCompleteNamespace completeNamespaceShape
    simp only [Bool.false_eq_true, ↓reduceIte]
    have hvs : validateShape ⟨A.length, A.length + B.length, pl ++ pr, true, false, none⟩ ns ns = .ok () :=
      validateShape_honest_multi hleafM hsortM hsl hsr rfl hpl
        (fun y hy => leB_of_ltB (hminA y hy)) (fun y hy => leB_of_ltB (hminR y hy))
    rw [hvs]
    simp only
    have hdne : B.map Share.data ≠ [] := by simpa using hBe
    have := vcn_presence_ok (s := A.length) hdne hcont hleafM hsortM hsl hsr hpl hminA hminR hchk
    simpa using this

end Lumina.Proofs.NmtMulti

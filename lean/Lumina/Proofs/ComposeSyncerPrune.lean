/-
  COMPOSITION C38 × C35 × C25 (strengthening round S7), part 2: convergence of the syncer with
  PRUNER REMOVALS interleaved arbitrarily.

  `Proofs/SyncerFair.lean` proves convergence under `FairHonestAnswers` for runs in which nothing
  is ever pruned and the pruning cutoff is older than every header (`hP`, `Aux.unpruned`,
  `Aux.slow`).  Here the runs get a second kind of event, `prune h` = `Store::remove_height(h)`
  issued by the pruner, admissible when `h` satisfies the per-height safety condition that C35
  (`batch_safe`) proves of every height of every pruner batch (`PruneSafe`: stored, outside the
  pruning window, and outside the sampling window or not bordering an unsynced gap; the
  sampled / granted conjuncts of C35 are not needed and dropped, which only enlarges the set of
  admissible removals).

  Regime of the main theorem: `hwin` — the pruning window is at least the sampling window (the
  default configuration: 7 d + 1 h vs 7 d), so a prunable header is outside the sampling window.
  In that regime
    * safe removals never remove a height of the sampling window (`stepP_keeps_window_heights`),
      every pruned height and every slow-sync height is outside the window (`Reg`),
    * neither the slow-sync throttle nor the repaired window gate of C25 withholds a batch the
      window needs (`not_full_requestsP`, from `gate_progress_pruned`),
    * the potential of `SyncerFair`, taken over SYNCED = stored ∪ pruned heights (what the
      syncer's `calculate_range_to_fetch` uses), never increases — a removal leaves it unchanged —
      and strictly decreases at every honest answer,
  hence `fair_convergesP`.  The opposite regime (pruning window smaller than the sampling window,
  e.g. the in-memory default 0) is NOT covered: there sampled in-window heights are removed and
  the slow-sync throttle hands progress to the daser, which is outside this model.

  Core Lean only.
-/
import Lumina.Proofs.SyncerFair
import Lumina.Proofs.ComposeSyncerGate

namespace Lumina.Proofs.ComposeSyncerPrune
open Lumina.Model.Store (Hdr)
open Lumina.Spec.C19
open Lumina.Model.SyncerLoop
open Lumina.Proofs.Store
open Lumina.Proofs.SyncerLoop
open Lumina.Proofs.SyncerFair
open Lumina.Model.SyncerGate (fetchDecision fetchDecisionWith Decision)

/-! ### synced heights of the abstract store -/

/-- `pruned_ranges + stored_ranges` of `fetch_next_batch`, pointwise -/
def syncedB (a : AbsStore) (h : Nat) : Bool := a.stored h || a.isPruned h

theorem isPruned_iff (a : AbsStore) (h : Nat) : a.isPruned h = true ↔ h ∈ a.pruned := by
  simp [AbsStore.isPruned]

theorem synced_iff (a : AbsStore) (h : Nat) : syncedB a h = true ↔ a.stored h = true ∨ h ∈ a.pruned := by
  simp [syncedB, isPruned_iff]

/-- a removal moves a height from `stored` to `pruned`: the synced set is unchanged -/
theorem remove_synced (a : AbsStore) (h k : Nat) : syncedB (a.remove h).1 k = syncedB a k := by
  cases hs : a.stored h with
  | false => rw [remove_err a h hs]
  | true =>
    rw [remove_ok a h hs]
    apply Bool.eq_iff_iff.2
    rw [synced_iff, synced_iff, removed_stored]
    simp only [removed, List.mem_cons]
    constructor
    · rintro (⟨h1, _⟩ | rfl | h1)
      · exact Or.inl h1
      · exact Or.inl hs
      · exact Or.inr h1
    · rintro (h1 | h1)
      · by_cases e : k = h
        · exact Or.inr (Or.inl e)
        · exact Or.inl ⟨h1, e⟩
      · exact Or.inr (Or.inr h1)

/-- an insertion only adds synced heights (a height leaves `pruned` only by becoming stored) -/
theorem insert_synced_mono (v : Hdr → Hdr → Bool) (a : AbsStore) (b : List Hdr) (k : Nat)
    (hs : syncedB a k = true) : syncedB (a.insert v b).1 k = true := by
  rw [synced_iff] at hs ⊢
  rcases hs with hs | hp
  · exact Or.inl (insert_stored_mono v a b k hs)
  · cases hc : AbsStore.insertCheck v a b with
    | error e => simp only [AbsStore.insert, hc]; exact Or.inr hp
    | ok o =>
      cases o with
      | none => simp only [AbsStore.insert, hc]; exact Or.inr hp
      | some p =>
        obtain ⟨lo, hi'⟩ := p
        rw [insert_eq_added v a b lo hi' hc]
        obtain ⟨first, last, ok, e1, e2⟩ := insertCheck_some v a b lo hi' hc
        subst e1 e2
        obtain ⟨_, _, b3⟩ := batch_heights v b first last ok.chain ok.hd ok.lst
        by_cases hb : first.height ≤ k ∧ k ≤ last.height
        · left
          obtain ⟨x, hx, ex⟩ := b3 k hb.1 hb.2
          rw [stored_iff]
          exact ⟨x, by simp only [added, List.mem_append]; exact Or.inr hx, ex⟩
        · right
          simp only [added, List.mem_filter]
          refine ⟨hp, ?_⟩
          simp [between]
          omega

/-- a height that becomes synced by an insertion becomes STORED -/
theorem insert_synced_new (v : Hdr → Hdr → Bool) (a : AbsStore) (b : List Hdr) (k : Nat)
    (h0 : syncedB a k = false) (h1 : syncedB (a.insert v b).1 k = true) :
    (a.insert v b).1.stored k = true := by
  rw [synced_iff] at h1
  rcases h1 with h1 | h1
  · exact h1
  · exfalso
    have := insert_pruned_sub v a b k h1
    have : syncedB a k = true := (synced_iff a k).2 (Or.inr this)
    rw [h0] at this; cases this

/-! ### the pruner's removals -/

/-- the per-height safety condition of C35 (`Props/C35.lean`, `batch_safe`) on the abstract store:
    stored, outside the pruning window, and outside the sampling window or not bordering a gap of
    the synced set (C35 additionally demands sampled / granted, which plays no role here) -/
def PruneSafe (e : Env) (a : AbsStore) (h : Nat) : Prop :=
  a.stored h = true ∧ e.chain.oldP h = true ∧
    (e.chain.oldS h = true ∨ (syncedB a (h - 1) = true ∧ syncedB a (h + 1) = true))

/-- events of the composed system: the syncer's events, and a removal by the pruner -/
inductive EvP where
  | ev (x : Ev)
  | prune (h : Nat)
deriving Repr

/-- one step: the worker's reaction to its own events; `Store::remove_height` for the pruner's
    (the worker is not notified) -/
def stepP (e : Env) (s : State) : EvP → State
  | .ev x => (step e s x).1
  | .prune h => { s with store := (s.store.remove h).1 }

def traceP (e : Env) (s0 : State) (evs : Nat → EvP) : Nat → State
  | 0 => s0
  | k + 1 => stepP e (traceP e s0 evs k) (evs k)

def runP (e : Env) : State → List EvP → State
  | s, [] => s
  | s, ev :: evs => runP e (stepP e s ev) evs

theorem runP_append (e : Env) : ∀ (l1 l2 : List EvP) (s : State), runP e s (l1 ++ l2) = runP e (runP e s l1) l2
  | [], _, _ => rfl
  | ev :: l1, l2, s => by simp only [List.cons_append, runP]; exact runP_append e l1 l2 _

theorem traceP_eq_runP (e : Env) (s0 : State) (evs : Nat → EvP) :
    ∀ k, traceP e s0 evs k = runP e s0 ((List.range k).map evs)
  | 0 => rfl
  | k + 1 => by
    rw [List.range_succ, List.map_append, runP_append, ← traceP_eq_runP e s0 evs k]
    rfl

/-- the network head handed over by trusted peers is inside the sampling window -/
def HeadFresh (e : Env) : Ev → Prop
  | .netHead h => e.chain.oldS h.height = false
  | _ => True

/-- admissible events: the syncer's as in C38 (`EvOk`), network heads recent; removals safe (C35) -/
def EvOkP (v : Hdr → Hdr → Bool) (c : Nat → Hdr) (e : Env) (s : State) : EvP → Prop
  | .ev x => EvOk v c s x ∧ HeadFresh e x
  | .prune h => PruneSafe e s.store h

def EvBelowP (M : Nat) : EvP → Prop
  | .ev x => EvBelow M x
  | .prune _ => True

/-! ### the regime invariants -/

/-- facts that hold along every run when the pruning window is at least the sampling window -/
structure Reg (e : Env) (s : State) : Prop where
  /-- once anything is stored, some stored header is inside the sampling window -/
  fresh : s.store.hdrs ≠ [] → ∃ x ∈ s.store.hdrs, e.chain.oldS x.height = false
  /-- pruned heights are outside the sampling window -/
  prunedOld : ∀ p ∈ s.store.pruned, e.chain.oldS p = true
  /-- an armed slow-sync height is outside the sampling window -/
  slowOld : ∀ h0, s.slowSync = some h0 → e.chain.oldS h0 = true
  /-- the ongoing request touches a stored header INSIDE the sampling window -/
  ongoingFresh : ∀ r, s.ongoing = some r →
    (s.store.stored (r.1 - 1) = true ∧ e.chain.oldS (r.1 - 1) = false) ∨
    (s.store.stored (r.2 + 1) = true ∧ e.chain.oldS (r.2 + 1) = false)

/-- the side conditions of `SyncerFair.Aux` that survive pruning -/
structure AuxP (M : Nat) (s : State) : Prop where
  batch : 1 ≤ s.batchSize
  below : ∀ x ∈ s.store.hdrs, x.height ≤ M
  prunedBelow : ∀ p ∈ s.store.pruned, p ≤ M
  headLe : ∀ h, s.head = some h → h ≤ M
  ongoingLe : ∀ r, s.ongoing = some r → r.2 ≤ M
  connPeers : s.phase = .connected → s.peers ≠ 0
  connHead : s.phase = .connected → ∃ h, s.head = some h

section regime
variable {e : Env}
  (hwin : ∀ h, e.chain.oldP h = true → e.chain.oldS h = true)
  (hmono : ∀ h1 h2, h1 ≤ h2 → e.chain.oldS h2 = true → e.chain.oldS h1 = true)

include hwin in
/-- **Safe removals never remove a height of the sampling window** (pruning window ≥ sampling
    window) -/
theorem pruneSafe_outside_window {a : AbsStore} {h : Nat} (hp : PruneSafe e a h) : e.chain.oldS h = true :=
  hwin h hp.2.1

include hwin in
/-- a stored height inside the sampling window is still stored after a safe removal -/
theorem remove_keeps_window {a : AbsStore} {h k : Nat} (hp : PruneSafe e a h)
    (hk : a.stored k = true) (hkw : e.chain.oldS k = false) : (a.remove h).1.stored k = true := by
  rw [remove_ok a h hp.1, removed_stored]
  refine ⟨hk, ?_⟩
  rintro rfl
  rw [pruneSafe_outside_window hwin hp] at hkw
  cases hkw

include hwin hmono in
/-- the safety invariant of C38 survives a safe removal: the header that bounds an ongoing
    request and the highest stored header are inside the sampling window, hence not removable -/
theorem inv_prune {c : Nat → Hdr} {s : State} (hi : Inv c s) (hr : Reg e s) {h : Nat}
    (hp : PruneSafe e s.store h) : Inv c { s with store := (s.store.remove h).1 } := by
  have hold := pruneSafe_outside_window hwin hp
  have hne : s.store.hdrs ≠ [] := by
    obtain ⟨x, hx, _⟩ := (stored_iff _ _).1 hp.1
    intro hc; rw [hc] at hx; cases hx
  obtain ⟨w, hw, hwo⟩ := hr.fresh hne
  have hwh : h < w.height := by
    by_cases hc : h < w.height
    · exact hc
    · have := hmono w.height h (by omega) hold
      rw [hwo] at this; cases this
  have hwmem : w ∈ (s.store.remove h).1.hdrs := by
    rw [remove_ok _ _ hp.1]
    simp only [removed, List.mem_filter]
    exact ⟨hw, by simp; omega⟩
  have hne' : (s.store.remove h).1.hdrs ≠ [] := by
    intro hc; rw [hc] at hwmem; cases hwmem
  refine ⟨?_, remove_inv _ _ hi.abs, ?_, fun _ _ => hne', fun _ => hne', ?_⟩
  · intro x hx
    rw [remove_ok _ _ hp.1] at hx
    simp only [removed, List.mem_filter] at hx
    exact hi.onchain x hx.1
  · intro p hpp
    rw [remove_ok _ _ hp.1] at hpp
    simp only [removed, List.mem_cons] at hpp
    rcases hpp with rfl | hpp
    · exact ⟨w, hwmem, hwh⟩
    · -- the old witness may have been removed; the fresh header is above every pruned height
      refine ⟨w, hwmem, ?_⟩
      have hpo := hr.prunedOld p hpp
      by_cases hc : p < w.height
      · exact hc
      · have := hmono w.height p (by omega) hpo
        rw [hwo] at this; cases this
  · intro r hon
    obtain ⟨h1, h2, _⟩ := hi.ongoingNb r hon
    refine ⟨h1, h2, ?_⟩
    rcases hr.ongoingFresh r hon with ⟨k1, k2⟩ | ⟨k1, k2⟩
    · exact Or.inl (remove_keeps_window hwin hp k1 k2)
    · exact Or.inr (remove_keeps_window hwin hp k1 k2)

include hwin in
theorem reg_prune {s : State} (hr : Reg e s) {h : Nat} (hp : PruneSafe e s.store h) :
    Reg e { s with store := (s.store.remove h).1 } := by
  have hold := pruneSafe_outside_window hwin hp
  refine ⟨?_, ?_, hr.slowOld, ?_⟩
  · intro _
    have hne : s.store.hdrs ≠ [] := by
      obtain ⟨x, hx, _⟩ := (stored_iff _ _).1 hp.1
      intro hc; rw [hc] at hx; cases hx
    obtain ⟨w, hw, hwo⟩ := hr.fresh hne
    refine ⟨w, ?_, hwo⟩
    rw [remove_ok _ _ hp.1]
    simp only [removed, List.mem_filter]
    refine ⟨hw, ?_⟩
    simp only [bne_iff_ne, ne_eq]
    intro hc
    rw [hc, hold] at hwo
    cases hwo
  · intro p hpp
    rw [remove_ok _ _ hp.1] at hpp
    simp only [removed, List.mem_cons] at hpp
    rcases hpp with rfl | hpp
    · exact hold
    · exact hr.prunedOld p hpp
  · intro r hon
    rcases hr.ongoingFresh r hon with ⟨k1, k2⟩ | ⟨k1, k2⟩
    · exact Or.inl ⟨remove_keeps_window hwin hp k1 k2, k2⟩
    · exact Or.inr ⟨remove_keeps_window hwin hp k1 k2, k2⟩

theorem auxP_prune {M : Nat} {s : State} (ha : AuxP M s) (h : Nat) :
    AuxP M { s with store := (s.store.remove h).1 } := by
  cases hs : s.store.stored h with
  | false => rw [remove_err _ _ hs]; exact ha
  | true =>
    rw [remove_ok _ _ hs]
    refine ⟨ha.batch, ?_, ?_, ha.headLe, ha.ongoingLe, ha.connPeers, ha.connHead⟩
    · intro x hx
      simp only [removed, List.mem_filter] at hx
      exact ha.below x hx.1
    · intro p hpp
      simp only [removed, List.mem_cons] at hpp
      rcases hpp with rfl | hpp
      · obtain ⟨x, hx, ex⟩ := (stored_iff _ _).1 hs
        rw [← ex]; exact ha.below x hx
      · exact ha.prunedBelow p hpp

end regime


/-! ### what a scheduled request looks like when heights may be pruned -/

open Lumina.Proofs.SyncerGate Lumina.Proofs.Ranges Lumina.Model.Ranges in
/-- a scheduled batch shares no height with the SYNCED set (stored or pruned) -/
theorem request_disjoint_synced {e : Env} {s : State} {r : Lumina.Model.Ranges.Range}
    (hi : AbsInv s.store) (h : fetchDecision e.slowMin (gateIn e s) = .ok (.request r)) :
    ∀ k, r.1 ≤ k → k ≤ r.2 → syncedB s.store k = false := by
  obtain ⟨ist, mst⟩ := storedRanges_spec hi
  obtain ⟨ipr, mpr⟩ := prunedRanges_spec hi
  obtain ⟨head, synced, _, _, hadd, hcalc, hnemp, _, _⟩ := request_cases h
  simp only [gateIn] at hadd hcalc
  obtain ⟨c, hc, hci, hcm⟩ := add_spec ipr ist
  rw [hadd] at hc
  injection hc with hc
  subst hc
  obtain ⟨_, _, hshape⟩ := calc_cases hci hcalc hnemp
  intro k hk1 hk2
  cases hs : syncedB s.store k with
  | false => rfl
  | true =>
    exfalso
    have hxs : mem synced k := by
      rcases (synced_iff _ _).1 hs with h1 | h1
      · exact (hcm _).2 (Or.inr ((mst _).2 h1))
      · exact (hcm _).2 (Or.inl ((mpr _).2 h1))
    rcases hshape with ⟨habove, _, _⟩ | ⟨_, _, hgap⟩
    · have := habove _ hxs; omega
    · exact hgap _ hk1 hk2 hxs

open Lumina.Proofs.SyncerGate Lumina.Proofs.Ranges Lumina.Model.Ranges in
/-- a scheduled batch ends at or below any bound on the head, the stored and the pruned heights -/
theorem request_leP {e : Env} {s : State} {r : Lumina.Model.Ranges.Range} {M : Nat}
    (hi : AbsInv s.store) (hb : ∀ x ∈ s.store.hdrs, x.height ≤ M) (hp : ∀ p ∈ s.store.pruned, p ≤ M)
    (hh : ∀ h, s.head = some h → h ≤ M)
    (hdec : fetchDecision e.slowMin (gateIn e s) = .ok (.request r)) : r.2 ≤ M := by
  obtain ⟨ist, mst⟩ := storedRanges_spec hi
  obtain ⟨ipr, mpr⟩ := prunedRanges_spec hi
  obtain ⟨head, synced, _, hhead, hadd, hcalc, hnemp, _, _⟩ := request_cases hdec
  simp only [gateIn] at hadd hcalc hhead
  obtain ⟨c', hc', hci, hcm⟩ := add_spec ipr ist
  rw [hadd] at hc'
  injection hc' with hc'
  subst hc'
  obtain ⟨_, _, hshape⟩ := calc_cases hci hcalc hnemp
  have := hh head hhead
  rcases hshape with ⟨_, hr2, _⟩ | ⟨hbd, _, _⟩
  · omega
  · rcases (hcm _).1 hbd with hpp | hst
    · have := hp _ ((mpr _).1 hpp); omega
    · obtain ⟨x, hx, ex⟩ := (stored_iff _ _).1 ((mst _).1 hst)
      have := hb x hx
      omega

open Lumina.Proofs.SyncerGate Lumina.Proofs.Ranges Lumina.Model.Ranges in
/-- **A scheduled batch touches a stored header that is INSIDE the sampling window** (forward
    batch: the highest synced height, which is stored and at or above the in-window header;
    backward batch: the gate demands it), hence one the pruner cannot remove while the request is
    outstanding. -/
theorem request_fresh_neighbour {e : Env}
    (hmono : ∀ h1 h2, h1 ≤ h2 → e.chain.oldS h2 = true → e.chain.oldS h1 = true)
    {s : State} {r : Lumina.Model.Ranges.Range}
    (hi : AbsInv s.store) (htop : TopStored s.store)
    (hf : ∃ x ∈ s.store.hdrs, e.chain.oldS x.height = false)
    (h : fetchDecision e.slowMin (gateIn e s) = .ok (.request r)) :
    (s.store.stored (r.1 - 1) = true ∧ e.chain.oldS (r.1 - 1) = false) ∨
    (s.store.stored (r.2 + 1) = true ∧ e.chain.oldS (r.2 + 1) = false) := by
  obtain ⟨ist, mst⟩ := storedRanges_spec hi
  obtain ⟨ipr, mpr⟩ := prunedRanges_spec hi
  obtain ⟨head, synced, _, _, hadd, hcalc, hnemp, _, hgate⟩ := request_cases h
  simp only [gateIn] at hadd hcalc hgate
  obtain ⟨c, hc, hci, hcm⟩ := add_spec ipr ist
  rw [hadd] at hc
  injection hc with hc
  subst hc
  obtain ⟨h1, h2, hshape⟩ := calc_cases hci hcalc hnemp
  obtain ⟨w, hw, hwo⟩ := hf
  have hws : mem synced w.height := (hcm _).2 (Or.inr ((mst _).2 ((stored_iff _ _).2 ⟨w, hw, rfl⟩)))
  rcases hshape with ⟨habove, _, htopm⟩ | ⟨hbound, _⟩
  · left
    have hwlt := habove _ hws
    have hfresh : e.chain.oldS (r.1 - 1) = false := by
      cases ho : e.chain.oldS (r.1 - 1) with
      | false => rfl
      | true => have := hmono w.height (r.1 - 1) (by omega) ho; rw [hwo] at this; cases this
    refine ⟨?_, hfresh⟩
    rcases htopm with hnil | hm
    · subst hnil; exact absurd hws (mem_nil _)
    · rcases (hcm _).1 hm with hp | hs
      · exfalso
        obtain ⟨x, hx, hlt⟩ := htop _ ((mpr _).1 hp)
        have : mem synced x.height := (hcm _).2 (Or.inr ((mst _).2 ((stored_iff _ _).2 ⟨x, hx, rfl⟩)))
        have := habove _ this
        omega
      · exact (mst _).1 hs
  · right
    rcases hgate with ⟨hcs, hwin⟩ | ⟨_, hnp⟩
    · exact ⟨(mst _).1 ((contains_iff_mem _ _).1 hcs), by simpa using hwin⟩
    · have : Lumina.Model.Ranges.contains synced (r.2 + 1) = true := (contains_iff_mem _ _).2 hbound
      simp [this] at hnp

/-! ### the invariants along the syncer's own events -/

/-- safety invariant of C38 + regime facts + side conditions -/
structure G3 (c : Nat → Hdr) (e : Env) (M : Nat) (s : State) : Prop where
  inv : Inv c s
  reg : Reg e s
  aux : AuxP M s

theorem setHead_slowSync (s : State) (h : Nat) : (setHead s h).slowSync = s.slowSync := by
  unfold setHead
  split
  · split <;> rfl
  · rfl

theorem setHead_peers (s : State) (h : Nat) : (setHead s h).peers = s.peers := by
  unfold setHead
  split
  · split <;> rfl
  · rfl

theorem setHead_batchSize (s : State) (h : Nat) : (setHead s h).batchSize = s.batchSize := by
  unfold setHead
  split
  · split <;> rfl
  · rfl

theorem reg_of_eq {e : Env} {s s' : State} (hr : Reg e s) (h1 : s'.store = s.store)
    (h2 : s'.slowSync = s.slowSync) (h3 : s'.ongoing = s.ongoing) : Reg e s' :=
  ⟨by rw [h1]; exact hr.fresh, by rw [h1]; exact hr.prunedOld, by rw [h2]; exact hr.slowOld,
   by rw [h1, h3]; exact hr.ongoingFresh⟩

theorem g3_setHead {c : Nat → Hdr} {e : Env} {M : Nat} {s : State} (hg : G3 c e M s)
    (hne : s.store.hdrs ≠ []) (h : Nat) (hh : h ≤ M) : G3 c e M (setHead s h) := by
  refine ⟨inv_setHead hg.inv hne h,
    reg_of_eq hg.reg (setHead_store _ _) (setHead_slowSync _ _) (setHead_ongoing _ _), ?_⟩
  have ha := hg.aux
  unfold setHead
  split
  · split
    · exact ha
    · exact ⟨ha.batch, ha.below, ha.prunedBelow, fun h' hh' => by injection hh' with hh'; omega,
        ha.ongoingLe, ha.connPeers, fun _ => ⟨h, rfl⟩⟩
  · exact ⟨ha.batch, ha.below, ha.prunedBelow, fun h' hh' => by injection hh' with hh'; omega,
      ha.ongoingLe, ha.connPeers, fun _ => ⟨h, rfl⟩⟩

/-- regime facts and side conditions after an insertion (whatever its outcome) -/
theorem regaux_insert {e : Env} {M : Nat} {s : State} (hr : Reg e s) (ha : AuxP M s)
    (v : Hdr → Hdr → Bool) (b : List Hdr)
    (hb : s.store.hdrs ≠ [] ∨ ∀ x ∈ b, e.chain.oldS x.height = false)
    (hl : ∀ last, b.getLast? = some last → last.height ≤ M) :
    Reg e { s with store := (s.store.insert v b).1 } ∧ AuxP M { s with store := (s.store.insert v b).1 } := by
  refine ⟨⟨?_, ?_, hr.slowOld, ?_⟩, ⟨ha.batch, insert_below v _ _ M ha.below hl, ?_, ha.headLe,
    ha.ongoingLe, ha.connPeers, ha.connHead⟩⟩
  · intro hne'
    by_cases hne : s.store.hdrs = []
    · -- everything stored afterwards comes from the batch
      have hfb : ∀ x ∈ b, e.chain.oldS x.height = false := by
        rcases hb with hb | hb
        · exact absurd hne hb
        · exact hb
      cases hh : (s.store.insert v b).1.hdrs with
      | nil => exact absurd hh hne'
      | cons x rest =>
        refine ⟨x, by simp, ?_⟩
        have hx : x ∈ (s.store.insert v b).1.hdrs := by rw [hh]; simp
        unfold AbsStore.insert at hx
        split at hx
        · rw [hne] at hx; cases hx
        · rw [hne] at hx; cases hx
        · simp only [List.mem_append] at hx
          rcases hx with hx | hx
          · rw [hne] at hx; cases hx
          · exact hfb x hx
    · obtain ⟨w, hw, hwo⟩ := hr.fresh hne
      exact ⟨w, insert_hdrs_sub v _ _ w hw, hwo⟩
  · intro p hp
    exact hr.prunedOld p (insert_pruned_sub v _ _ p hp)
  · intro r hon
    rcases hr.ongoingFresh r hon with ⟨k1, k2⟩ | ⟨k1, k2⟩
    · exact Or.inl ⟨insert_stored_mono v _ _ _ k1, k2⟩
    · exact Or.inr ⟨insert_stored_mono v _ _ _ k1, k2⟩
  · intro p hp
    exact ha.prunedBelow p (insert_pruned_sub v _ _ p hp)

open Lumina.Proofs.SyncerGate in
/-- `fetch_next_batch` keeps the invariants; a fresh request is bounded by an in-window header -/
theorem g3_fetch {c : Nat → Hdr} {e : Env}
    (hmono : ∀ h1 h2, h1 ≤ h2 → e.chain.oldS h2 = true → e.chain.oldS h1 = true)
    {M : Nat} {s : State} (hg : G3 c e M s) : G3 c e M (fetchNextBatch e s).1 := by
  refine ⟨inv_fetch e hg.inv, ?_, ?_⟩
  · unfold fetchNextBatch
    split
    · rename_i r hdec
      obtain ⟨head, _, _, hhead, _⟩ := request_cases hdec
      have hne := hg.inv.headSet head (by simpa [gateIn] using hhead)
      have hnb := request_fresh_neighbour hmono hg.inv.abs hg.inv.top (hg.reg.fresh hne) hdec
      exact ⟨hg.reg.fresh, hg.reg.prunedOld, hg.reg.slowOld,
        fun r' hr' => by injection hr' with hr'; subst hr'; exact hnb⟩
    · exact hg.reg
  · unfold fetchNextBatch
    split
    · rename_i r hdec
      have ha := hg.aux
      exact ⟨ha.batch, ha.below, ha.prunedBelow, ha.headLe,
        fun r' hr' => by
          injection hr' with hr'; subst hr'
          exact request_leP hg.inv.abs ha.below ha.prunedBelow ha.headLe hdec,
        ha.connPeers, ha.connHead⟩
    · exact hg.aux

theorem slowSyncScan_cases (oldP : Nat → Bool) (slow : Option Nat) :
    ∀ l : List Nat, Lumina.Model.SyncerGate.slowSyncScan oldP slow l = slow ∨
      ∃ h, Lumina.Model.SyncerGate.slowSyncScan oldP slow l = some h ∧ oldP h = true
  | [] => Or.inl rfl
  | x :: rest => by
    have ih := slowSyncScan_cases oldP slow rest
    cases slow with
    | none =>
      simp only [Lumina.Model.SyncerGate.slowSyncScan, Bool.false_eq_true, ↓reduceIte]
      by_cases h2 : oldP x = true
      · rw [if_pos h2]; exact Or.inr ⟨x, rfl, h2⟩
      · rw [if_neg h2]; exact ih
    | some s0 =>
      simp only [Lumina.Model.SyncerGate.slowSyncScan]
      by_cases h1 : decide (x ≤ s0) = true
      · rw [if_pos h1]; exact Or.inl rfl
      · rw [if_neg h1]
        by_cases h2 : oldP x = true
        · rw [if_pos h2]; exact Or.inr ⟨x, rfl, h2⟩
        · rw [if_neg h2]; exact ih

section regime2
variable {e : Env}
  (hwin : ∀ h, e.chain.oldP h = true → e.chain.oldS h = true)
  (hmono : ∀ h1 h2, h1 ≤ h2 → e.chain.oldS h2 = true → e.chain.oldS h1 = true)

include hwin hmono in
/-- **Every admissible event of the syncer keeps the invariants**, also when heights have been
    pruned and the slow-sync height is armed. -/
theorem step_g3 {v : Hdr → Hdr → Bool} {c : Nat → Hdr} (hd : LinkDown v c) (hu : LinkUp v c)
    (hev : e.verify = v) {M : Nat} {s : State} (hg : G3 c e M s) {ev : Ev}
    (hok : EvOk v c s ev) (hfr : HeadFresh e ev) (hbl : EvBelow M ev) : G3 c e M (step e s ev).1 := by
  have hi := hg.inv
  have hr := hg.reg
  have ha := hg.aux
  cases ev with
  | peers n =>
    simp only [step]
    split
    · split
      · exact ⟨⟨hi.onchain, hi.abs, hi.top, hi.headSet, (fun hp => by cases hp), (fun _ h => by cases h)⟩,
          ⟨hr.fresh, hr.prunedOld, hr.slowOld, fun _ h => by cases h⟩,
          ⟨ha.batch, ha.below, ha.prunedBelow, ha.headLe, (fun _ h => by cases h),
            (fun h => by cases h), (fun h => by cases h)⟩⟩
      · rename_i hn
        exact ⟨inv_of_eq hi rfl rfl rfl rfl, reg_of_eq hr rfl rfl rfl,
          ⟨ha.batch, ha.below, ha.prunedBelow, ha.headLe, ha.ongoingLe,
            (fun _ => by simpa using hn), ha.connHead⟩⟩
    · rename_i hph
      exact ⟨inv_of_eq hi rfl rfl rfl rfl, reg_of_eq hr rfl rfl rfl,
        ⟨ha.batch, ha.below, ha.prunedBelow, ha.headLe, ha.ongoingLe,
          (fun h => by rw [hph] at h; cases h), ha.connHead⟩⟩
  | netHead h =>
    obtain ⟨hh, hw⟩ := hok
    simp only [step]
    split
    · exact hg
    · split
      · exact hg
      · rename_i a' ht
        obtain ⟨hi1, hne⟩ := inv_tryInit hd hu hev hi hh hw ht
        have hra : Reg e { s with store := a' } ∧ AuxP M { s with store := a' } := by
          rcases tryInit_cases ht with hc | hc
          · rw [hc]; exact ⟨hr, ha⟩
          · rw [hc]
            exact regaux_insert hr ha _ [h]
              (Or.inr (by intro x hx; simp at hx; subst hx; exact hfr))
              (by intro last hl; simp at hl; subst hl; exact hbl)
        have hg2 := g3_setHead (⟨hi1, hra.1, hra.2⟩ : G3 c e M { s with store := a' }) hne h.height hbl
        split
        · exact hg2
        · rename_i hp
          apply g3_fetch hmono
          refine ⟨⟨hg2.inv.onchain, hg2.inv.abs, hg2.inv.top, hg2.inv.headSet, fun _ => ?_, hg2.inv.ongoingNb⟩,
            reg_of_eq hg2.reg rfl rfl rfl,
            ⟨hg2.aux.batch, hg2.aux.below, hg2.aux.prunedBelow, hg2.aux.headLe, hg2.aux.ongoingLe,
              (fun _ => by simpa using hp), fun _ => setHead_head_some _ _⟩⟩
          simpa [setHead_store] using hne
  | headerSub h =>
    obtain ⟨hh, hw⟩ := hok
    simp only [step]
    split
    · exact hg
    · rename_i hph
      have hne : s.store.hdrs ≠ [] := hi.connected hph
      have hg1 := g3_setHead hg hne h.height hbl
      apply g3_fetch hmono
      split
      · split
        · have hra := regaux_insert hg1.reg hg1.aux e.verify [h]
            (Or.inl (by rw [setHead_store]; exact hne))
            (by intro last hl; simp at hl; subst hl; exact hbl)
          refine ⟨?_, hra.1, hra.2⟩
          rw [hev]
          exact inv_insert hd hu hg1.inv [h] (by intro x hx; simp at hx; subst hx; exact hh.1)
            (by intro x hx; simp at hx; subst hx; exact hw)
            (Or.inl (by intro x hx; simp at hx; subst hx; exact hh))
        · exact hg1
      · exact hg1
  | batch res =>
    simp only [step]
    split
    · rename_i r hph hon
      have hi0 : Inv c { s with ongoing := none } :=
        ⟨hi.onchain, hi.abs, hi.top, hi.headSet, hi.connected, (fun _ h => by cases h)⟩
      have ha0 : AuxP M { s with ongoing := none } :=
        ⟨ha.batch, ha.below, ha.prunedBelow, ha.headLe, (fun _ h => by cases h), ha.connPeers, ha.connHead⟩
      cases res with
      | none =>
        exact g3_fetch hmono ⟨hi0, ⟨hr.fresh, hr.prunedOld, hr.slowOld, fun _ h => by cases h⟩, ha0⟩
      | some hs =>
        obtain ⟨hacc, hwf⟩ := hok
        have hacc := hacc r hon
        have hne : s.store.hdrs ≠ [] := hi.connected hph
        apply g3_fetch hmono
        have hslo : ∀ h0, Lumina.Model.SyncerGate.slowSyncScan e.chain.oldP s.slowSync
            (hs.reverse.map Hdr.height) = some h0 → e.chain.oldS h0 = true := by
          intro h0 hh0
          rcases slowSyncScan_cases e.chain.oldP s.slowSync (hs.reverse.map Hdr.height) with hc | ⟨h', hc, ho⟩
          · exact hr.slowOld h0 (by rw [← hc]; exact hh0)
          · have : some h' = some h0 := by rw [← hc]; exact hh0
            injection this with this
            subst this
            exact hwin _ ho
        generalize Lumina.Model.SyncerGate.slowSyncScan e.chain.oldP s.slowSync
          (hs.reverse.map Hdr.height) = sl at hslo ⊢
        have hr1 : Reg e { s with ongoing := none, slowSync := sl } :=
          ⟨hr.fresh, hr.prunedOld, hslo, fun _ h => by cases h⟩
        have ha1 : AuxP M { s with ongoing := none, slowSync := sl } :=
          ⟨ha.batch, ha.below, ha.prunedBelow, ha.headLe, (fun _ h => by cases h), ha.connPeers, ha.connHead⟩
        have hra := regaux_insert hr1 ha1 e.verify hs (Or.inl hne)
          (fun last hl => by rw [p2pAccepts_last hacc last hl]; exact ha.ongoingLe r hon)
        refine ⟨?_, hra.1, hra.2⟩
        unfold p2pAccepts at hacc
        split at hacc
        · rename_i first last hf hl
          simp only [Bool.and_eq_true, List.all_eq_true, beq_iff_eq] at hacc
          obtain ⟨⟨⟨hval, _⟩, e1⟩, e2⟩ := hacc
          obtain ⟨h1, h2, hnb⟩ := hi.ongoingNb r hon
          rw [hev]
          refine inv_of_eq (inv_insert hd hu hi0 hs hval hwf (Or.inr (fun f l hf' hl' => ?_)))
            rfl rfl rfl rfl
          rw [hf] at hf'; rw [hl] at hl'
          injection hf' with hf'; injection hl' with hl'
          subst hf' hl'
          rw [e1, e2]; exact hnb
        · cases hacc
    · exact hg

end regime2

/-! ### the potential over SYNCED heights -/

/-- number of heights of `[lo, hi]` that are not synced (neither stored nor pruned) -/
def missingS (a : AbsStore) (lo hi : Nat) : Nat :=
  (List.range' lo (hi + 1 - lo)).countP (fun h => !syncedB a h)

/-- some height of the range is synced -/
def overlapsS (a : AbsStore) (r : Lumina.Model.Ranges.Range) : Bool :=
  (List.range' r.1 (r.2 + 1 - r.1)).any (syncedB a)

def staleS (a : AbsStore) : Option Lumina.Model.Ranges.Range → Nat
  | some r => if overlapsS a r then 1 else 0
  | none => 0

def phiS (M : Nat) (a : AbsStore) (og : Option Lumina.Model.Ranges.Range) : Nat := missingS a 1 M + staleS a og

/-- the potential: unsynced heights of `[1, M]` + staleness of the ongoing request -/
def PhiP (M : Nat) (s : State) : Nat := phiS M s.store s.ongoing

theorem phiS_congr {a a' : AbsStore} (h : ∀ k, syncedB a' k = syncedB a k) (M : Nat)
    (og : Option Lumina.Model.Ranges.Range) : phiS M a' og = phiS M a og := by
  have : syncedB a' = syncedB a := funext h
  unfold phiS missingS staleS overlapsS
  rw [this]

/-- **A removal by the pruner leaves the potential unchanged** (the height stays synced) -/
theorem PhiP_prune (e : Env) (M : Nat) (s : State) (h : Nat) : PhiP M (stepP e s (.prune h)) = PhiP M s :=
  phiS_congr (fun k => remove_synced s.store h k) M s.ongoing

theorem missingS_le_of_mono (a a' : AbsStore) (lo hi : Nat)
    (hmono : ∀ h, syncedB a h = true → syncedB a' h = true) : missingS a' lo hi ≤ missingS a lo hi := by
  unfold missingS
  apply List.countP_mono_left
  intro h _ hn
  cases hs : syncedB a h with
  | false => rfl
  | true => rw [hmono h hs] at hn; cases hn

theorem missingS_lt_of_new (a a' : AbsStore) (lo hi k : Nat)
    (hmono : ∀ h, syncedB a h = true → syncedB a' h = true) (h1 : syncedB a k = false)
    (h2 : syncedB a' k = true) (hlo : lo ≤ k) (hhi : k ≤ hi) : missingS a' lo hi < missingS a lo hi := by
  unfold missingS
  apply countP_lt_of (x := k)
  · intro x _ hn
    cases hs : syncedB a x with
    | false => rfl
    | true => rw [hmono x hs] at hn; cases hn
  · simp only [List.mem_range'_1]; omega
  · simp [h1]
  · simp [h2]

theorem missingS_insert_le (v : Hdr → Hdr → Bool) (a : AbsStore) (b : List Hdr) (lo hi : Nat) :
    missingS (a.insert v b).1 lo hi ≤ missingS a lo hi :=
  missingS_le_of_mono a _ lo hi (fun h hs => insert_synced_mono v a b h hs)

theorem overlapsS_false {a : AbsStore} {r : Lumina.Model.Ranges.Range} (h : overlapsS a r = false) :
    ∀ k, r.1 ≤ k → k ≤ r.2 → syncedB a k = false := by
  intro k h1 h2
  have := List.any_eq_false.1 h k (by simp only [List.mem_range'_1]; omega)
  simpa using this

theorem overlapsS_false_of {a : AbsStore} {r : Lumina.Model.Ranges.Range}
    (h : ∀ k, r.1 ≤ k → k ≤ r.2 → syncedB a k = false) : overlapsS a r = false := by
  unfold overlapsS
  rw [List.any_eq_false]
  intro k hk
  simp only [List.mem_range'_1] at hk
  rw [h k (by omega) (by omega)]
  simp

theorem overlapsS_true {a : AbsStore} {r : Lumina.Model.Ranges.Range} (h : overlapsS a r = true) :
    ∃ k, r.1 ≤ k ∧ k ≤ r.2 ∧ syncedB a k = true := by
  obtain ⟨k, hk, hs⟩ := List.any_eq_true.1 h
  simp only [List.mem_range'_1] at hk
  exact ⟨k, by omega, by omega, hs⟩

theorem phiS_none_le (M : Nat) (a : AbsStore) (og : Option Lumina.Model.Ranges.Range) :
    phiS M a none ≤ phiS M a og := by
  simp only [phiS, staleS]; omega

/-- no insertion increases the potential -/
theorem phiS_insert_le (v : Hdr → Hdr → Bool) (a : AbsStore) (b : List Hdr) (M : Nat)
    (og : Option Lumina.Model.Ranges.Range) (hog : ∀ r, og = some r → 1 ≤ r.1 ∧ r.2 ≤ M) :
    phiS M (a.insert v b).1 og ≤ phiS M a og := by
  have hle := missingS_insert_le v a b 1 M
  cases og with
  | none => simpa [phiS, staleS] using hle
  | some r =>
    obtain ⟨h1, h2⟩ := hog r rfl
    simp only [phiS, staleS]
    cases ho : overlapsS a r with
    | true =>
      have : (if overlapsS (a.insert v b).1 r = true then 1 else 0) ≤ 1 := by split <;> omega
      simp only [↓reduceIte]; omega
    | false =>
      cases ho' : overlapsS (a.insert v b).1 r with
      | false => simpa using hle
      | true =>
        obtain ⟨k, k1, k2, k3⟩ := overlapsS_true ho'
        have hk := overlapsS_false ho k k1 k2
        have := missingS_lt_of_new a (a.insert v b).1 1 M k
          (fun h hs => insert_synced_mono v a b h hs) hk k3 (by omega) (by omega)
        simp only [↓reduceIte, Bool.false_eq_true]; omega

open Lumina.Proofs.SyncerGate in
/-- `fetch_next_batch` leaves the potential unchanged: a fresh request is disjoint from the synced set -/
theorem PhiP_fetch (e : Env) (s : State) (M : Nat) (hi : AbsInv s.store) :
    PhiP M (fetchNextBatch e s).1 = PhiP M s := by
  unfold fetchNextBatch
  split
  · rename_i r hdec
    obtain ⟨_, _, hong, _⟩ := request_cases hdec
    have hnone : s.ongoing = none := by
      cases h : s.ongoing with
      | none => rfl
      | some r' => simp [gateIn, h] at hong
    have hov : overlapsS s.store r = false := overlapsS_false_of (request_disjoint_synced hi hdec)
    simp [PhiP, phiS, staleS, hnone, hov]
  · rfl

theorem PhiP_setHead (M : Nat) (s : State) (h : Nat) : PhiP M (setHead s h) = PhiP M s := by
  unfold PhiP; rw [setHead_store, setHead_ongoing]

/-- **The potential never increases, whatever the syncer's event**, with pruned heights around. -/
theorem step_phiP_le {v : Hdr → Hdr → Bool} {c : Nat → Hdr} {e : Env} {M : Nat} {s : State}
    (hi : Inv c s) (ha : AuxP M s) {ev : Ev} (hok : EvOk v c s ev) :
    PhiP M (step e s ev).1 ≤ PhiP M s := by
  have hog : ∀ r, s.ongoing = some r → 1 ≤ r.1 ∧ r.2 ≤ M :=
    fun r hr => ⟨(hi.ongoingNb r hr).1, ha.ongoingLe r hr⟩
  cases ev with
  | peers n =>
    simp only [step]
    split
    · split
      · exact phiS_none_le M s.store s.ongoing
      · exact Nat.le_refl _
    · exact Nat.le_refl _
  | netHead h =>
    obtain ⟨hh, hw⟩ := hok
    simp only [step]
    split
    · exact Nat.le_refl _
    · split
      · exact Nat.le_refl _
      · rename_i a' ht
        have hc : a' = s.store ∨ a' = (s.store.insert e.verify [h]).1 := tryInit_cases ht
        have hi1 : AbsInv a' := by
          rcases hc with hc | hc
          · rw [hc]; exact hi.abs
          · rw [hc]; exact insert_inv _ _ _ hi.abs (by intro x hx; simp at hx; subst hx; exact hw)
        have hle : phiS M a' s.ongoing ≤ phiS M s.store s.ongoing := by
          rcases hc with hc | hc
          · rw [hc]; exact Nat.le_refl _
          · rw [hc]; exact phiS_insert_le _ _ _ _ _ hog
        split
        · rw [PhiP_setHead]; exact hle
        · rw [PhiP_fetch _ _ _ (by show AbsInv (setHead _ _).store; rw [setHead_store]; exact hi1)]
          show PhiP M (setHead { s with store := a' } h.height) ≤ PhiP M s
          rw [PhiP_setHead]; exact hle
  | headerSub h =>
    obtain ⟨hh, hw⟩ := hok
    simp only [step]
    split
    · exact Nat.le_refl _
    · have hi1 : AbsInv (setHead s h.height).store := by rw [setHead_store]; exact hi.abs
      split
      · split
        · rw [PhiP_fetch _ _ _ (insert_inv _ _ _ hi1 (by intro x hx; simp at hx; subst hx; exact hw))]
          show phiS M ((setHead s h.height).store.insert e.verify [h]).1 (setHead s h.height).ongoing ≤ _
          rw [setHead_store, setHead_ongoing]
          exact phiS_insert_le _ _ _ _ _ hog
        · rw [PhiP_fetch _ _ _ hi1, PhiP_setHead]; exact Nat.le_refl _
      · rw [PhiP_fetch _ _ _ hi1, PhiP_setHead]; exact Nat.le_refl _
  | batch res =>
    simp only [step]
    split
    · cases res with
      | none =>
        dsimp only
        refine Nat.le_trans (Nat.le_of_eq (PhiP_fetch _ _ _ ?_)) ?_
        · exact hi.abs
        · exact phiS_none_le M s.store s.ongoing
      | some hs =>
        obtain ⟨_, hwf⟩ := hok
        dsimp only
        refine Nat.le_trans (Nat.le_of_eq (PhiP_fetch _ _ _ ?_)) ?_
        · exact insert_inv _ _ _ hi.abs hwf
        show phiS M (s.store.insert e.verify hs).1 none ≤ phiS M s.store s.ongoing
        exact Nat.le_trans (phiS_insert_le _ _ _ _ none (fun r hr => by cases hr)) (phiS_none_le M s.store s.ongoing)
    · exact Nat.le_refl _

/-- **Every honest answer strictly decreases the potential**, with pruned heights around: a request
    still disjoint from the synced set is accepted (its bounding header is still stored) and syncs
    a missing height; a stale one is replaced by a fresh one. -/
theorem honest_answer_phiP_lt {v : Hdr → Hdr → Bool} {c : Nat → Hdr} (hc : HonestChain v c) {e : Env}
    (hev : e.verify = v) {M : Nat} (hM : M ≤ Lumina.Model.Store.U64_MAX) {s : State} (hi : Inv c s)
    (ha : AuxP M s) (hph : s.phase = .connected) {r : Lumina.Model.Ranges.Range} (hon : s.ongoing = some r) :
    PhiP M (step e s (.batch (some (span c r.1 (r.2 + 1 - r.1))))).1 < PhiP M s := by
  obtain ⟨h1, h2, hnb⟩ := hi.ongoingNb r hon
  have hrM := ha.ongoingLe r hon
  have hwf : ∀ x ∈ span c r.1 (r.2 + 1 - r.1), x.height ≤ Lumina.Model.Store.U64_MAX := by
    intro x hx
    simp only [span, List.mem_map, List.mem_range'_1] at hx
    obtain ⟨y, hy, rfl⟩ := hx
    rw [hc.height]; omega
  simp only [step, hph, hon]
  rw [PhiP_fetch _ _ _ (insert_inv _ _ _ hi.abs hwf)]
  show phiS M (s.store.insert e.verify (span c r.1 (r.2 + 1 - r.1))).1 none < phiS M s.store s.ongoing
  rw [hon, hev]
  simp only [phiS, staleS]
  cases ho : overlapsS s.store r with
  | true =>
    have := missingS_insert_le v s.store (span c r.1 (r.2 + 1 - r.1)) 1 M
    simp only [↓reduceIte]; omega
  | false =>
    have hdis : ∀ x ∈ s.store.hdrs, ¬ (r.1 ≤ x.height ∧ x.height ≤ r.2) := by
      intro x hx hb
      have := overlapsS_false ho x.height hb.1 hb.2
      rw [(synced_iff _ _).2 (Or.inl ((stored_iff _ _).2 ⟨x, hx, rfl⟩))] at this
      cases this
    have hacc := honest_span_accepted hc s.store hi.onchain r.1 r.2 h1 h2 hdis hnb
    obtain ⟨first, last, ok, e1, e2⟩ := insertCheck_some v s.store _ r.1 r.2 hacc
    have hst : (s.store.insert v (span c r.1 (r.2 + 1 - r.1))).1.stored r.1 = true := by
      rw [insert_eq_added v s.store _ _ _ hacc, stored_iff]
      exact ⟨first, by simp only [added, List.mem_append]; exact Or.inr (head_of_mem ok.hd), e1.symm⟩
    have := missingS_lt_of_new s.store (s.store.insert v (span c r.1 (r.2 + 1 - r.1))).1 1 M r.1
      (fun h hs => insert_synced_mono v _ _ h hs) (overlapsS_false ho r.1 (Nat.le_refl _) h2)
      ((synced_iff _ _).2 (Or.inl hst)) h1 (by omega)
    simp only [Bool.false_eq_true, ↓reduceIte]; omega

/-! ### progress, idleness, fairness, convergence -/

/-- **Progress with pruned heights and an armed slow-sync height.**  A connected worker without an
    ongoing batch whose window is not full schedules a request: neither the slow-sync throttle nor
    the sampling-window gate as repaired for C25 withholds a batch the window needs. -/
theorem not_full_requestsP {c : Nat → Hdr} {e : Env}
    (hmono : ∀ h1 h2, h1 ≤ h2 → e.chain.oldS h2 = true → e.chain.oldS h1 = true)
    {M : Nat} (hM : M < Lumina.Model.Ranges.U64_MAX) {s : State} (hg : G3 c e M s)
    (hph : s.phase = .connected) (hon : s.ongoing = none) {H : Nat} (hH : s.head = some H)
    (hnf : ¬ WindowFull e s.store H) : ∃ r, (fetchNextBatch e s).2 = some r := by
  have hex : ∃ m, 1 ≤ m ∧ m ≤ H ∧ e.chain.oldS m = false ∧ s.store.stored m = false := by
    apply Classical.byContradiction
    intro hne
    apply hnf
    intro m h1 h2 h3
    cases hs : s.store.stored m with
    | true => rfl
    | false => exact absurd ⟨m, h1, h2, h3, hs⟩ hne
  obtain ⟨m, hm1, hm2, hm4, hm3⟩ := hex
  obtain ⟨ist, mst⟩ := storedRanges_spec hg.inv.abs
  obtain ⟨ipr, mpr⟩ := prunedRanges_spec hg.inv.abs
  have hHM := hg.aux.headLe H hH
  obtain ⟨w, hw, hwo⟩ := hg.reg.fresh (hg.inv.connected hph)
  obtain ⟨r, hr⟩ := Lumina.Proofs.ComposeSyncerGate.gate_progress_pruned (slowMin := e.slowMin)
    (i := gateIn e s) (old := e.chain.oldS) (H := H) (m := m)
    ist ipr (by simp [gateIn, hon]) (hg.aux.connPeers hph) hH (by omega) hg.aux.batch
    (fun _ => rfl) hmono
    (fun p hp => hg.reg.prunedOld p ((mpr p).1 hp))
    (fun h0 hh0 => hg.reg.slowOld h0 hh0)
    ⟨w.height, (mst _).2 ((stored_iff _ _).2 ⟨w, hw, rfl⟩), hwo⟩
    hm1 hm2 (fun hcm => by rw [(mst m).1 hcm] at hm3; cases hm3) hm4
  refine ⟨r, ?_⟩
  unfold fetchNextBatch
  have : fetchDecision e.slowMin (gateIn e s) = .ok (.request r) := hr
  rw [this]

/-- a connected worker without an outstanding request has its window full.  (With pruning,
    `SyncerFair.Busy` — "has nothing to schedule" — is NOT an invariant: a removal can open the
    slow-sync throttle for a batch outside the window; the worker then stays idle until its next
    event.  What is invariant is that nothing the WINDOW needs is left unrequested.) -/
def BusyW (e : Env) (s : State) : Prop :=
  s.phase = .connected → s.ongoing = none → ∀ H, s.head = some H → WindowFull e s.store H

theorem busyW_of_busy {c : Nat → Hdr} {e : Env}
    (hmono : ∀ h1 h2, h1 ≤ h2 → e.chain.oldS h2 = true → e.chain.oldS h1 = true)
    {M : Nat} (hM : M < Lumina.Model.Ranges.U64_MAX) {s : State} (hg : G3 c e M s) (hb : Busy e s) :
    BusyW e s := by
  intro hph hon H hH
  apply Classical.byContradiction
  intro hnf
  obtain ⟨r, hr⟩ := not_full_requestsP hmono hM hg hph hon hH hnf
  rw [hb hph hon] at hr
  cases hr

/-- after every event the worker either just ran `fetch_next_batch`, or — if it is connected — it
    was connected before and store, head and ongoing batch are untouched -/
theorem step_busy_cases (e : Env) (s : State) (ev : Ev) :
    Busy e (step e s ev).1 ∨
    ((step e s ev).1.phase = .connected →
      s.phase = .connected ∧ (step e s ev).1.store = s.store ∧ (step e s ev).1.head = s.head ∧
        (step e s ev).1.ongoing = s.ongoing) := by
  cases ev with
  | peers n =>
    right
    simp only [step]
    split
    · rename_i hph
      split
      · intro h; cases h
      · intro _; exact ⟨hph, rfl, rfl, rfl⟩
    · rename_i hph
      intro h; exact ⟨h, rfl, rfl, rfl⟩
  | netHead h =>
    simp only [step]
    split
    · right; intro hh; exact ⟨hh, rfl, rfl, rfl⟩
    · rename_i hph
      split
      · right; intro hh; exact ⟨hh, rfl, rfl, rfl⟩
      · split
        · right
          intro hh
          rw [setHead_phase] at hh
          rw [hph] at hh; cases hh
        · left; intro _ hon; exact fetch_busy e _ hon
  | headerSub h =>
    simp only [step]
    split
    · right; intro hh; exact ⟨hh, rfl, rfl, rfl⟩
    · left; intro _ hon; exact fetch_busy e _ hon
  | batch res =>
    simp only [step]
    split
    · left
      cases res with
      | none => intro _ hon; exact fetch_busy e _ hon
      | some hs => intro _ hon; exact fetch_busy e _ hon
    · right; intro hh; exact ⟨hh, rfl, rfl, rfl⟩

/-- everything the convergence argument maintains along a run with pruning -/
structure GoodP (c : Nat → Hdr) (e : Env) (M : Nat) (s : State) : Prop where
  g3 : G3 c e M s
  busy : BusyW e s

theorem good_initP (c : Nat → Hdr) (e : Env) (M bs : Nat) (hbs : 1 ≤ bs) : GoodP c e M { batchSize := bs } where
  g3 := ⟨inv_init c bs,
    ⟨fun h => absurd rfl h, (fun _ hp => by cases hp), (fun _ h => by cases h), (fun _ h => by cases h)⟩,
    ⟨hbs, (fun _ hx => by cases hx), (fun _ hx => by cases hx), (fun _ h => by cases h),
      (fun _ h => by cases h), (fun h => by cases h), (fun h => by cases h)⟩⟩
  busy := fun h => by cases h

section regime3
variable {e : Env}
  (hwin : ∀ h, e.chain.oldP h = true → e.chain.oldS h = true)
  (hmono : ∀ h1 h2, h1 ≤ h2 → e.chain.oldS h2 = true → e.chain.oldS h1 = true)

include hwin in
/-- **A stored height inside the sampling window is still stored after ANY admissible event** —
    the syncer only inserts, the pruner's safe removals are outside the window. -/
theorem stepP_keeps_window_heights {v : Hdr → Hdr → Bool} {c : Nat → Hdr} {s : State} {ev : EvP}
    (hok : EvOkP v c e s ev) {k : Nat} (hk : s.store.stored k = true) (hkw : e.chain.oldS k = false) :
    (stepP e s ev).store.stored k = true := by
  cases ev with
  | ev x => exact step_stored_mono e s x k hk
  | prune h => exact remove_keeps_window hwin hok hk hkw

include hwin hmono in
/-- **Every admissible event — the syncer's or a safe removal — keeps all the invariants.** -/
theorem stepP_good {v : Hdr → Hdr → Bool} {c : Nat → Hdr} (hd : LinkDown v c) (hu : LinkUp v c)
    (hev : e.verify = v) {M : Nat} (hM : M < Lumina.Model.Ranges.U64_MAX) {s : State} (hg : GoodP c e M s)
    {ev : EvP} (hok : EvOkP v c e s ev) (hbl : EvBelowP M ev) : GoodP c e M (stepP e s ev) := by
  cases ev with
  | ev x =>
    have hg3 : G3 c e M (step e s x).1 := step_g3 hwin hmono hd hu hev hg.g3 hok.1 hok.2 hbl
    refine ⟨hg3, ?_⟩
    rcases step_busy_cases e s x with hb | hsame
    · exact busyW_of_busy hmono hM hg3 hb
    · intro hph hon H hH
      obtain ⟨hph', e1, e2, e3⟩ := hsame hph
      show WindowFull e (step e s x).1.store H
      rw [e1]
      exact hg.busy hph' (by rw [← e3]; exact hon) H (by rw [← e2]; exact hH)
  | prune h =>
    refine ⟨⟨inv_prune hwin hmono hg.g3.inv hg.g3.reg hok, reg_prune hwin hg.g3.reg hok,
      auxP_prune hg.g3.aux h⟩, ?_⟩
    intro hph hon H hH m h1 h2 h3
    exact remove_keeps_window hwin hok (hg.busy hph hon H hH m h1 h2 h3) h3

end regime3

/-- the worker is in `connected_event_loop` and the event it is handed is the honest answer to its
    outstanding request (if it has one) -/
def HonestAnswerAtP (c : Nat → Hdr) (s : State) (ev : EvP) : Prop :=
  s.phase = .connected ∧ ∀ r, s.ongoing = some r → ev = .ev (.batch (some (span c r.1 (r.2 + 1 - r.1))))

section run
variable {v : Hdr → Hdr → Bool} {c : Nat → Hdr} {e : Env} {M : Nat} {s0 : State} {evs : Nat → EvP}
  (hwin : ∀ h, e.chain.oldP h = true → e.chain.oldS h = true)
  (hmono : ∀ h1 h2, h1 ≤ h2 → e.chain.oldS h2 = true → e.chain.oldS h1 = true)

include hwin hmono in
theorem traceP_good (hd : LinkDown v c) (hu : LinkUp v c) (hev : e.verify = v)
    (hM : M < Lumina.Model.Ranges.U64_MAX) (hg0 : GoodP c e M s0)
    (hok : ∀ k, EvOkP v c e (traceP e s0 evs k) (evs k)) (hbl : ∀ k, EvBelowP M (evs k)) :
    ∀ k, GoodP c e M (traceP e s0 evs k)
  | 0 => hg0
  | k + 1 => stepP_good hwin hmono hd hu hev hM (traceP_good hd hu hev hM hg0 hok hbl k) (hok k) (hbl k)

include hwin in
theorem traceP_window_mono (hok : ∀ k, EvOkP v c e (traceP e s0 evs k) (evs k)) (h : Nat)
    (hw : e.chain.oldS h = false) : ∀ (d i : Nat), (traceP e s0 evs i).store.stored h = true →
    (traceP e s0 evs (i + d)).store.stored h = true
  | 0, _, hs => hs
  | d + 1, i, hs => stepP_keeps_window_heights hwin (hok (i + d)) (traceP_window_mono hok h hw d i hs) hw

theorem traceP_head_mono : ∀ (d i H : Nat), (traceP e s0 evs i).head = some H →
    ∃ H', H ≤ H' ∧ (traceP e s0 evs (i + d)).head = some H'
  | 0, _, H, hh => ⟨H, Nat.le_refl _, hh⟩
  | d + 1, i, H, hh => by
    obtain ⟨H1, h1, h2⟩ := traceP_head_mono d i H hh
    show ∃ H', H ≤ H' ∧ (stepP e (traceP e s0 evs (i + d)) (evs (i + d))).head = some H'
    cases hev : evs (i + d) with
    | ev x =>
      obtain ⟨H2, h3, h4⟩ := step_head_mono e (traceP e s0 evs (i + d)) x H1 h2
      exact ⟨H2, by omega, h4⟩
    | prune h => exact ⟨H1, h1, h2⟩

theorem traceP_phi_le (hg : ∀ k, GoodP c e M (traceP e s0 evs k))
    (hok : ∀ k, EvOkP v c e (traceP e s0 evs k) (evs k)) :
    ∀ (d i : Nat), PhiP M (traceP e s0 evs (i + d)) ≤ PhiP M (traceP e s0 evs i)
  | 0, _ => Nat.le_refl _
  | d + 1, i => by
    refine Nat.le_trans ?_ (traceP_phi_le hg hok d i)
    show PhiP M (stepP e (traceP e s0 evs (i + d)) (evs (i + d))) ≤ _
    have hk := hok (i + d)
    cases hev : evs (i + d) with
    | ev x =>
      rw [hev] at hk
      exact step_phiP_le (hg (i + d)).g3.inv (hg (i + d)).g3.aux hk.1
    | prune h => exact Nat.le_of_eq (PhiP_prune e M _ h)

include hwin hmono in
/-- **Convergence under fairness, with pruning.**  Along ANY infinite run of admissible events —
    the syncer's events of C38 and, interleaved arbitrarily, removals by the pruner that satisfy
    C35's safety condition — whose announced heads stay at or below `M`, if as long as the window
    up to the head is not fully stored there is always a later moment at which the connected worker
    is handed the honest answer to its outstanding request, then from every point of the run there
    is a later point at which every height of the sampling window up to the head is STORED. -/
theorem fair_convergesP (hc : HonestChain v c) (hd : LinkDown v c) (hu : LinkUp v c) (hev : e.verify = v)
    (hM : M < Lumina.Model.Ranges.U64_MAX) (hg0 : GoodP c e M s0)
    (hok : ∀ k, EvOkP v c e (traceP e s0 evs k) (evs k)) (hbl : ∀ k, EvBelowP M (evs k))
    (hfair : ∀ i, ¬ Synced e (traceP e s0 evs i) →
      ∃ j, i ≤ j ∧ HonestAnswerAtP c (traceP e s0 evs j) (evs j)) :
    ∀ i, ∃ k, i ≤ k ∧ Synced e (traceP e s0 evs k) := by
  have hg := traceP_good hwin hmono hd hu hev hM hg0 hok hbl
  have hM' : M ≤ Lumina.Model.Store.U64_MAX := by
    have : Lumina.Model.Store.U64_MAX = Lumina.Model.Ranges.U64_MAX := rfl
    omega
  have key : ∀ n i, PhiP M (traceP e s0 evs i) < n → ∃ k, i ≤ k ∧ Synced e (traceP e s0 evs k) := by
    intro n
    induction n with
    | zero => intro i h; omega
    | succ n ih =>
      intro i hn
      by_cases hs : Synced e (traceP e s0 evs i)
      · exact ⟨i, Nat.le_refl _, hs⟩
      obtain ⟨j, hij, hph, hans⟩ := hfair i hs
      by_cases hsj : Synced e (traceP e s0 evs j)
      · exact ⟨j, hij, hsj⟩
      have hle : PhiP M (traceP e s0 evs j) ≤ PhiP M (traceP e s0 evs i) := by
        obtain ⟨d, rfl⟩ : ∃ d, j = i + d := ⟨j - i, by omega⟩
        exact traceP_phi_le hg hok d i
      obtain ⟨H, hH⟩ := (hg j).g3.aux.connHead hph
      have hnf : ¬ WindowFull e (traceP e s0 evs j).store H := fun hw => hsj ⟨H, hH, hw⟩
      cases hon : (traceP e s0 evs j).ongoing with
      | none => exact absurd ((hg j).busy hph hon H hH) hnf
      | some r =>
        have hevj := hans r hon
        have hlt : PhiP M (traceP e s0 evs (j + 1)) < PhiP M (traceP e s0 evs j) := by
          have : traceP e s0 evs (j + 1) = stepP e (traceP e s0 evs j) (evs j) := rfl
          rw [this, hevj]
          exact honest_answer_phiP_lt hc hev hM' (hg j).g3.inv (hg j).g3.aux hph hon
        obtain ⟨k, hk1, hk2⟩ := ih (j + 1) (by omega)
        exact ⟨k, by omega, hk2⟩
  intro i
  exact key _ i (Nat.lt_succ_self _)

include hwin hmono in
/-- the same for the head the worker knew at an arbitrary point of the run: every height of the
    sampling window up to THAT head is eventually stored and STAYS stored — safe removals never
    take it away again -/
theorem fair_converges_to_headP (hc : HonestChain v c) (hd : LinkDown v c) (hu : LinkUp v c)
    (hev : e.verify = v) (hM : M < Lumina.Model.Ranges.U64_MAX) (hg0 : GoodP c e M s0)
    (hok : ∀ k, EvOkP v c e (traceP e s0 evs k) (evs k)) (hbl : ∀ k, EvBelowP M (evs k))
    (hfair : ∀ i, ¬ Synced e (traceP e s0 evs i) →
      ∃ j, i ≤ j ∧ HonestAnswerAtP c (traceP e s0 evs j) (evs j))
    (i H : Nat) (hH : (traceP e s0 evs i).head = some H) :
    ∃ k, i ≤ k ∧ ∀ k', k ≤ k' → WindowFull e (traceP e s0 evs k').store H := by
  obtain ⟨k, hik, H', hH', hfull⟩ := fair_convergesP hwin hmono hc hd hu hev hM hg0 hok hbl hfair i
  refine ⟨k, hik, fun k' hk' m h1 h2 h3 => ?_⟩
  obtain ⟨d, rfl⟩ : ∃ d, k = i + d := ⟨k - i, by omega⟩
  obtain ⟨H'', hle, hH''⟩ := traceP_head_mono (e := e) (s0 := s0) (evs := evs) d i H hH
  rw [hH'] at hH''
  injection hH'' with hH''
  subst hH''
  obtain ⟨d', rfl⟩ : ∃ d', k' = i + d + d' := ⟨k' - (i + d), by omega⟩
  exact traceP_window_mono hwin hok m h3 d' (i + d) (hfull m h1 (by omega) h3)

end run

/-! ### regime-free facts: what safe removals leave behind, and the window gate -/

/-- what the pruner's safety condition leaves behind, in EITHER window order: every pruned height is
    outside the sampling window or has a synced height directly below it -/
def PrunedHist (e : Env) (a : AbsStore) : Prop :=
  ∀ p ∈ a.pruned, e.chain.oldS p = true ∨ syncedB a (p - 1) = true

theorem prunedHist_insert {e : Env} {a : AbsStore} (h : PrunedHist e a) (v : Hdr → Hdr → Bool) (b : List Hdr) :
    PrunedHist e (a.insert v b).1 := by
  intro p hp
  rcases h p (insert_pruned_sub v a b p hp) with h1 | h1
  · exact Or.inl h1
  · exact Or.inr (insert_synced_mono v a b _ h1)

theorem prunedHist_remove {e : Env} {a : AbsStore} (h : PrunedHist e a) {k : Nat} (hp : PruneSafe e a k) :
    PrunedHist e (a.remove k).1 := by
  intro p hpp
  rw [remove_synced]
  rw [remove_ok _ _ hp.1] at hpp
  simp only [removed, List.mem_cons] at hpp
  rcases hpp with rfl | hpp
  · rcases hp.2.2 with h1 | h1
    · exact Or.inl h1
    · exact Or.inr h1.1
  · exact h p hpp

/-- `PrunedHist` holds along every run of syncer events and safe removals — no assumption on the
    order of the two windows, on fairness, or on the answers -/
theorem stepP_prunedHist {v : Hdr → Hdr → Bool} {c : Nat → Hdr} {e : Env} {s : State}
    (h : PrunedHist e s.store) {ev : EvP} (hok : EvOkP v c e s ev) : PrunedHist e (stepP e s ev).store := by
  cases ev with
  | ev x =>
    show PrunedHist e (step e s x).1.store
    rcases step_store_cases e s x with hc | ⟨b, hc⟩
    · rw [hc]; exact h
    · rw [hc]; exact prunedHist_insert h _ b
  | prune k => exact prunedHist_remove h hok

/-- **A height that is safe to remove stays safe to remove** while the syncer inserts and the
    pruner removes OTHER heights (the synced set only grows, a stored height stays stored): the
    pruner may compute a batch on a snapshot and remove its heights one by one, interleaved with
    the syncer, without leaving the admissible removals. -/
theorem pruneSafe_stable (e : Env) (s : State) (ev : EvP) (h : Nat) (hne : ev ≠ .prune h)
    (hp : PruneSafe e s.store h) : PruneSafe e (stepP e s ev).store h := by
  obtain ⟨h1, h2, h3⟩ := hp
  cases ev with
  | ev x =>
    show PruneSafe e (step e s x).1.store h
    rcases step_store_cases e s x with hc | ⟨b, hc⟩
    · rw [hc]; exact ⟨h1, h2, h3⟩
    · rw [hc]
      refine ⟨insert_stored_mono _ _ _ _ h1, h2, ?_⟩
      rcases h3 with h3 | h3
      · exact Or.inl h3
      · exact Or.inr ⟨insert_synced_mono _ _ _ _ h3.1, insert_synced_mono _ _ _ _ h3.2⟩
  | prune k =>
    have hk : k ≠ h := fun hc => hne (by rw [hc])
    show PruneSafe e (s.store.remove k).1 h
    refine ⟨?_, h2, ?_⟩
    · cases hs : s.store.stored k with
      | false => rw [remove_err _ _ hs]; exact h1
      | true => rw [remove_ok _ _ hs, removed_stored]; exact ⟨h1, fun hc => hk hc.symm⟩
    · rw [remove_synced, remove_synced]; exact h3

open Lumina.Proofs.Ranges Lumina.Model.Ranges in
/-- **The sampling-window gate — including the branch added by the C25 fix — costs no liveness,
    whatever the order of the two windows.**  In a state whose pruned heights satisfy `PrunedHist`,
    if `fetch_next_batch` returns without a request because the height above the next batch is
    stored and outside the window, or (repaired code) is a synced height that is no longer stored,
    then every height `1 ≤ m ≤ head` that is not synced lies outside the sampling window. -/
theorem window_gate_costs_no_liveness {e : Env}
    (hmono : ∀ h1 h2, h1 ≤ h2 → e.chain.oldS h2 = true → e.chain.oldS h1 = true)
    {s : State} (hi : AbsInv s.store) (hph : PrunedHist e s.store)
    {w : Lumina.Model.SyncerGate.Idle} (hw : w = .boundOutsideWindow ∨ w = .boundPruned)
    (hdec : fetchDecision e.slowMin (gateIn e s) = .ok (.idle w))
    {H m : Nat} (hH : s.head = some H) (hm1 : 1 ≤ m) (hm2 : m ≤ H) (hm3 : syncedB s.store m = false) :
    e.chain.oldS m = true := by
  obtain ⟨ist, mst⟩ := storedRanges_spec hi
  obtain ⟨ipr, mpr⟩ := prunedRanges_spec hi
  refine Lumina.Proofs.ComposeSyncerGate.window_gate_blocks_only_outside_window (i := gateIn e s)
    (old := e.chain.oldS) ist ipr (fun _ => rfl) hmono ?_ hdec hw hH hm1 hm2 ?_
  · intro p hp
    rcases hph p ((mpr p).1 hp) with h1 | h1
    · exact Or.inl h1
    · right
      rcases (synced_iff _ _).1 h1 with h2 | h2
      · exact Or.inl ((mst _).2 h2)
      · exact Or.inr ((mpr _).2 h2)
  · rintro (h1 | h1)
    · rw [(synced_iff _ _).2 (Or.inl ((mst _).1 h1))] at hm3; cases hm3
    · rw [(synced_iff _ _).2 (Or.inr ((mpr _).1 h1))] at hm3; cases hm3

end Lumina.Proofs.ComposeSyncerPrune

/-
  C16 helper lemmas, part 5: `compute_root` over pushed (ordered) leaves, leopard's entry guards, and the
  no-panic lemmas of the individual decoders (sample, row, row namespace data, namespace data, bad
  encoding fraud proof).
-/
import Lumina.Proofs.DecodersMain

namespace Lumina.Proofs.Decoders
open Lumina.Util Lumina.Model.Eds Lumina.Model.Decoders
open Lumina.Model.Nmt hiding validateShape

theorem computeRootAux_summ (H : HashFn) (ign : Bool) : ∀ (fuel : Nat) (ls : List NsHash),
    ls.length ≤ fuel → ls ≠ [] → MonoA ls → ∃ h, computeRootAux H ign fuel ls = .ok h ∧ Summ h ls := by
  intro fuel
  induction fuel with
  | zero => intro ls h1 h2; exact absurd (List.eq_nil_of_length_eq_zero (by omega)) h2
  | succ f ih =>
    intro ls h1 h2 hm
    unfold computeRootAux
    match ls, h1, h2, hm with
    | [x], _, _, _ => exact ⟨x, rfl, summ_singleton x⟩
    | x :: y :: r, h1, _, hm =>
      simp only
      have hlen : 2 ≤ (x :: y :: r).length := by simp
      have hb := nsp2_bounds _ hlen
      generalize hk : nextSmallerPo2 (x :: y :: r).length = k at hb
      generalize hl : x :: y :: r = l at *
      have hsplit : l.take k ++ l.drop k = l := List.take_append_drop k l
      have hm' : MonoA (l.take k ++ l.drop k) := by rw [hsplit]; exact hm
      obtain ⟨hmt, hmd, _⟩ := monoA_append.mp hm'
      have htl : (l.take k).length = k := by rw [List.length_take]; omega
      have hdl : (l.drop k).length = l.length - k := List.length_drop
      obtain ⟨hL, eL, sL⟩ := ih (l.take k) (by omega) (by intro e; rw [e] at htl; simp at htl; omega) hmt
      obtain ⟨hR, eR, sR⟩ := ih (l.drop k) (by omega) (by intro e; rw [e] at hdl; simp at hdl; omega) hmd
      rw [eL, eR]
      simp only
      obtain ⟨h, hh, hs⟩ := hashNodes_summ (H := H) (ign := ign) sL sR hm'
      exact ⟨h, hh, hsplit ▸ hs⟩

theorem computeRoot_ne_panic (H : HashFn) (ign : Bool) (ls : List NsHash) (hm : MonoA ls) :
    computeRoot H ign ls ≠ .error .panic := by
  unfold computeRoot
  by_cases h : ls = []
  · subst h; simp [computeRootAux]
  · obtain ⟨r, hr, _⟩ := computeRootAux_summ H ign (ls.length + 1) ls (by omega) h hm
    rw [hr]; simp

theorem pushOrder_mono (H : HashFn) : ∀ (leaves : List (Bytes × Bytes)) (hi : Bytes),
    pushOrderOk hi (leaves.map Prod.fst) = true →
    MonoA (leaves.map (fun (p : Bytes × Bytes) => hashLeaf H p.1 p.2)) ∧
    (∀ x, (leaves.map (fun (p : Bytes × Bytes) => hashLeaf H p.1 p.2)).head? = some x → leB hi x.minNs = true) := by
  intro leaves
  induction leaves with
  | nil => intro hi _; exact ⟨trivial, by simp⟩
  | cons a rest ih =>
    intro hi h
    simp only [List.map_cons, pushOrderOk] at h
    by_cases c : ltB a.1 hi = true
    · simp [c] at h
    · simp only [c, Bool.false_eq_true, ↓reduceIte] at h
      obtain ⟨hm, hh⟩ := ih a.1 h
      refine ⟨?_, ?_⟩
      · simp only [List.map_cons]
        rw [monoA_cons]
        refine ⟨leB_refl _, ?_, hm⟩
        intro y hy
        exact hh y hy
      · intro x hx
        simp only [List.map_cons, List.head?_cons, Option.some.injEq] at hx
        subst hx
        show leB hi a.1 = true
        exact leB_of_not_ltB (by simpa using c)

theorem pushLeaves_mono {H : HashFn} {leaves : List (Bytes × Bytes)} {hs : List NsHash}
    (h : pushLeaves H leaves = some hs) : MonoA hs := by
  unfold pushLeaves at h
  split at h
  · rename_i hok
    simp only [Option.some.injEq] at h
    subst h
    exact (pushOrder_mono H leaves _ hok).1
  · cases h

/-! leopard guards -/

theorem ceilPow2_noPanic {x : Nat} (h : x ≠ 0) : ∃ m, ceilPow2 x = .ok m := by
  unfold ceilPow2; simp [h]

theorem isEncodeBufOverflow_noPanic {k parity : Nat} (h : parity ≠ 0) : ∃ b, isEncodeBufOverflow k parity = .ok b := by
  unfold isEncodeBufOverflow
  obtain ⟨m, hm⟩ := ceilPow2_noPanic h
  rw [hm]
  simp only [Out.bind]
  split <;> exact ⟨_, rfl⟩

theorem leoEncode_noPanic (c : Codec) (shards : List Bytes) (k : Nat) (h1 : k ≤ shards.length) (h2 : shards.length ≠ k) :
    (leoEncode c shards k).isPanic = false := by
  unfold leoEncode
  split
  · rfl
  · have : ¬ shards.length < k := by omega
    simp only [this, ↓reduceIte]
    split
    · rfl
    · obtain ⟨b, hb⟩ := isEncodeBufOverflow_noPanic (k := k) (parity := shards.length - k) (by omega)
      rw [hb]
      simp only [Out.bind]
      split
      · rfl
      · split
        · rfl
        · split <;> rfl

theorem leoReconstruct_noPanic (c : Codec) (shards : List Bytes) (k : Nat) (h1 : k ≤ shards.length) :
    (leoReconstruct c shards k).isPanic = false := by
  unfold leoReconstruct
  split
  · rfl
  · have : ¬ shards.length < k := by omega
    simp only [this, ↓reduceIte]
    split
    · rfl
    · split
      · rfl
      · split
        · rfl
        · split
          · rfl
          · split <;> rfl

/-! ## Sample -/

theorem sampleFinish_noPanic (row col : Nat) (ax : Axis) (proof : NsProof) (data : Bytes) (sq : Nat) :
    (sampleFinish row col ax proof data sq).isPanic = false := by
  unfold sampleFinish
  simp only
  split <;> rfl

theorem sampleFromRaw_noPanic (row col : Nat) (raw : RawSample) : (sampleFromRaw row col raw).isPanic = false := by
  unfold sampleFromRaw sampleFromRawWith
  cases raw.proof with
  | none => rfl
  | some rp =>
    simp only
    apply bind_noPanic (proofFromRaw_noPanic rp)
    intro proof _
    cases axisOfI32 raw.proofType with
    | none => rfl
    | some ax =>
      simp only
      split
      · rfl
      · cases raw.share with
        | none => rfl
        | some data =>
          simp only [Out.bind]
          cases totalLeaves proof with
          | none => rfl
          | some sq => exact sampleFinish_noPanic _ _ _ _ _ _

/-- a decoded sample carries a proof with `u32` indices -/
theorem sampleFromRaw_u32 {row col : Nat} {raw : RawSample} {s : Lumina.Model.Sample.Sample}
    (h : sampleFromRaw row col raw = .ok s) : U32 s.proof := by
  unfold sampleFromRaw sampleFromRawWith at h
  cases hp : raw.proof with
  | none => simp [hp] at h
  | some rp =>
    simp only [hp] at h
    cases hq : proofFromRaw rp with
    | err => simp [hq, Out.bind] at h
    | panic s => simp [hq, Out.bind] at h
    | ok proof =>
      have hu := proofFromRaw_u32 hq
      simp only [hq, Out.bind] at h
      cases hax : axisOfI32 raw.proofType with
      | none => simp [hax] at h
      | some ax =>
        simp only [hax] at h
        split at h
        · cases h
        · cases hsh : raw.share with
          | none => simp [hsh] at h
          | some data =>
            simp only [hsh] at h
            cases htl : totalLeaves proof with
            | none => simp [htl] at h
            | some sq =>
              simp only [htl] at h
              unfold sampleFinish at h
              simp only at h
              split at h
              · cases h
              · simp only [Out.ok.injEq] at h
                subst h
                exact hu

theorem sampleVerify_noPanic (H : HashFn) (s : Lumina.Model.Sample.Sample) (hu : U32 s.proof) (row col : Nat) (dah : Dah) :
    (sampleVerify H s row col dah).isPanic = false := by
  unfold sampleVerify sampleVerifyWith
  split
  · simp only
    split
    all_goals
      split
      · rfl
      · exact ofNmt_noPanic (safeVerifyRange_ne_panic H s.proof hu _ _ _)
  · rfl

/-! ## Row -/

theorem rowShares_noPanic (rowIdx k : Nat) (shares : List Bytes) : (rowShares rowIdx k shares).isPanic = false := by
  unfold rowShares
  apply collectOut_noPanic
  intro p _
  split <;> rfl

theorem rowFromRaw_noPanic (c : Codec) (rowIdx : Nat) (raw : RawRow) : (rowFromRaw c rowIdx raw).isPanic = false := by
  unfold rowFromRaw rowFromRawWith
  simp only [Bool.true_and]
  by_cases hk : (raw.halves.length == 0) = true
  · simp [hk, Out.isPanic]
  · simp only [hk, Bool.false_eq_true, ↓reduceIte]
    have hk' : raw.halves.length ≠ 0 := by simpa using hk
    apply bind_noPanic
    · split
      · apply leoReconstruct_noPanic; simp
      · apply leoEncode_noPanic
        · simp
        · simp; intro e; rw [e] at hk'; exact hk' rfl
    · intro a _; exact rowShares_noPanic _ _ _

theorem rowVerify_noPanic (H : HashFn) (r : Row) (rowIdx : Nat) (dah : Dah) : (rowVerify H r rowIdx dah).isPanic = false := by
  unfold rowVerify
  cases hp : pushLeaves H (r.map Share.leaf) with
  | none => rfl
  | some hs =>
    simp only
    cases dah.rowRoot? rowIdx with
    | none => rfl
    | some root =>
      simp only
      apply bind_noPanic (ofNmt_noPanic (computeRoot_ne_panic H true hs (pushLeaves_mono hp)))
      intro a _
      split <;> rfl

/-! ## RowNamespaceData / NamespaceData -/

theorem rndFromRaw_noPanic (ns : Bytes) (raw : RawRnd) : (rndFromRaw ns raw).isPanic = false := by
  unfold rndFromRaw
  cases raw.proof with
  | none => rfl
  | some rp =>
    simp only
    apply bind_noPanic
    · apply collectOut_noPanic
      intro d _
      split <;> rfl
    · intro shares _
      split
      · rfl
      · apply bind_noPanic (proofFromRaw_noPanic rp)
        intro p _; rfl

theorem rndFromRaw_u32 {ns : Bytes} {raw : RawRnd} {d : Rnd} (h : rndFromRaw ns raw = .ok d) : U32 d.proof := by
  unfold rndFromRaw at h
  cases hp : raw.proof with
  | none => simp [hp] at h
  | some rp =>
    simp only [hp] at h
    generalize collectOut _ raw.shares = cs at h
    cases cs with
    | err => simp [Out.bind] at h
    | panic s => simp [Out.bind] at h
    | ok shares =>
      simp only [Out.bind] at h
      split at h
      · cases h
      · cases hq : proofFromRaw rp with
        | err => simp [hq] at h
        | panic s => simp [hq] at h
        | ok proof =>
          simp only [hq, Out.ok.injEq] at h
          subst h
          exact proofFromRaw_u32 hq

theorem rndVerify_noPanic (H : HashFn) (d : Rnd) (hu : U32 d.proof) (ns : Bytes) (row : Nat) (dah : Dah) :
    (rndVerify H d ns row dah).isPanic = false := by
  unfold rndVerify rndVerifyWith
  split
  · rfl
  · cases dah.rowRoot? row with
    | none => rfl
    | some root => exact ofNmt_noPanic (safeVerifyCompleteNamespace_ne_panic H d.proof hu _ _ _)

theorem ndFromRaw_noPanic (ns : Bytes) (rows : List RawRnd) : (ndFromRaw ns rows).isPanic = false := by
  unfold ndFromRaw
  split
  · rfl
  · exact collectOut_noPanic _ _ (fun r _ => rndFromRaw_noPanic ns r)

theorem ndFromRaw_u32 {ns : Bytes} {rows : List RawRnd} {ds : List Rnd} (h : ndFromRaw ns rows = .ok ds) :
    ∀ d ∈ ds, U32 d.proof := by
  unfold ndFromRaw at h
  split at h
  · cases h
  · intro d hd
    obtain ⟨r, _, hr⟩ := collectOut_mem _ _ _ h d hd
    exact rndFromRaw_u32 hr

theorem verifyRows_noPanic (f : Rnd → Nat → Out Unit) : ∀ (rows : List Rnd) (idxs : List Nat),
    (∀ r ∈ rows, ∀ i, (f r i).isPanic = false) → (verifyRows f rows idxs).isPanic = false := by
  intro rows
  induction rows with
  | nil => intro idxs _; cases idxs <;> rfl
  | cons r rs ih =>
    intro idxs h
    cases idxs with
    | nil => rfl
    | cons i is =>
      unfold verifyRows
      apply bind_noPanic (h r List.mem_cons_self i)
      intro _ _
      exact ih is (fun r' hr' => h r' (List.mem_cons_of_mem _ hr'))

theorem ndVerify_noPanic (H : HashFn) (rows : List Rnd) (hu : ∀ d ∈ rows, U32 d.proof) (ns : Bytes) (dah : Dah)
    (hw : dah.rowRoots.length ≤ U16_MAX) : (ndVerify H rows ns dah).isPanic = false := by
  unfold ndVerify ndVerifyWith
  split
  · rfl
  · apply bind_noPanic
    · unfold dahSquareWidth
      have : ¬ dah.rowRoots.length > U16_MAX := by omega
      simp [this, Out.isPanic]
    · intro w _
      simp only
      split
      · rfl
      · apply verifyRows_noPanic
        intro r hr i
        exact rndVerify_noPanic H r (hu r hr) ns i dah

/-! ## BadEncodingFraudProof -/

theorem shareWithProofFromRaw_noPanic (s : RawBefpShare) (rp : RawProof) : (shareWithProofFromRaw s rp).isPanic = false := by
  unfold shareWithProofFromRaw
  split
  · rfl
  · split
    · rfl
    · apply bind_noPanic (proofFromRaw_noPanic rp)
      intro p _
      split
      · rfl
      · split <;> rfl

theorem shareWithProofFromRaw_u32 {s : RawBefpShare} {rp : RawProof} {x : ShareWithProof}
    (h : shareWithProofFromRaw s rp = .ok x) : U32 x.proof := by
  unfold shareWithProofFromRaw at h
  split at h
  · cases h
  · split at h
    · cases h
    · cases hq : proofFromRaw rp with
      | err => simp [hq, Out.bind] at h
      | panic s => simp [hq, Out.bind] at h
      | ok proof =>
        simp only [hq, Out.bind] at h
        split at h
        · cases h
        · split at h
          · cases h
          · simp only [Out.ok.injEq] at h
            subst h
            exact proofFromRaw_u32 hq

/-- the proofs inside a decoded fraud proof carry `u32` indices -/
def BefpU32 (p : Befp) : Prop := ∀ s, some s ∈ p.shares → U32 s.proof

theorem befpFromRaw_noPanic (raw : RawBefp) : (befpFromRaw raw).isPanic = false := by
  unfold befpFromRaw
  split
  · rfl
  · split
    · rfl
    · apply bind_noPanic
      · apply collectOut_noPanic
        intro s _
        unfold befpShareFromRaw
        split
        · apply bind_noPanic (shareWithProofFromRaw_noPanic _ _)
          intro _ _; rfl
        · rfl
      · intro shares _
        split
        · rfl
        · split <;> rfl

theorem befpFromRaw_u32 {raw : RawBefp} {p : Befp} (h : befpFromRaw raw = .ok p) : BefpU32 p := by
  unfold befpFromRaw at h
  split at h
  · cases h
  · split at h
    · cases h
    · generalize hcs : collectOut _ raw.shares = cs at h
      cases cs with
      | err => simp [Out.bind] at h
      | panic s => simp [Out.bind] at h
      | ok shares =>
        simp only [Out.bind] at h
        split at h
        · cases h
        · split at h
          · cases h
          · simp only [Out.ok.injEq] at h
            subst h
            intro s hs
            obtain ⟨r, _, hr⟩ := collectOut_mem _ _ _ hcs (some s) hs
            unfold befpShareFromRaw at hr
            cases hrp : r.proof with
            | none => simp [hrp] at hr
            | some rp =>
              simp only [hrp] at hr
              cases hx : shareWithProofFromRaw r rp with
              | err => simp [hx, Out.bind] at hr
              | panic s => simp [hx, Out.bind] at hr
              | ok x =>
                simp only [hx, Out.bind, Out.ok.injEq, Option.some.injEq] at hr
                subst hr
                exact shareWithProofFromRaw_u32 hx

theorem befpVerifyShares_noPanic (H : HashFn) (bindPos : Bool) (dah : Dah) (axis : Axis) (index : Nat)
    (hw : dah.rowRoots.length ≤ U16_MAX) (hrc : dah.rowRoots.length = dah.colRoots.length)
    (hidx : index < dah.rowRoots.length) :
    ∀ (shares : List (Option ShareWithProof)) (i : Nat), (∀ s, some s ∈ shares → U32 s.proof) →
      i + shares.length ≤ dah.rowRoots.length →
      (befpVerifyShares (safeVerifyRange H) bindPos dah axis index shares i).isPanic = false := by
  intro shares
  induction shares with
  | nil => intro i _ _; rfl
  | cons o rest ih =>
    intro i hu hlen
    have hrest : ∀ s, some s ∈ rest → U32 s.proof := fun s hs => hu s (List.mem_cons_of_mem _ hs)
    have hlen' : i + 1 + rest.length ≤ dah.rowRoots.length := by simp at hlen; omega
    cases o with
    | none => unfold befpVerifyShares; exact ih (i + 1) hrest hlen'
    | some s =>
      unfold befpVerifyShares
      have hi : i < dah.rowRoots.length := by simp at hlen; omega
      have himod : i % 65536 = i := Nat.mod_eq_of_lt (by unfold U16_MAX at hw; omega)
      have hfin : ∀ (root : NsHash) (j : Nat),
          (if (bindPos && s.proof.start != j) = true then Out.err
           else (ofNmt (safeVerifyRange H s.proof root [s.share] s.ns)).bind fun _ =>
            befpVerifyShares (safeVerifyRange H) bindPos dah axis index rest (i + 1)).isPanic = false := by
        intro root j
        split
        · rfl
        · apply bind_noPanic (ofNmt_noPanic (safeVerifyRange_ne_panic H s.proof (hu s List.mem_cons_self) _ _ _))
          intro _ _
          exact ih (i + 1) hrest hlen'
      have hr1 : dah.rowRoot? index = some dah.rowRoots[index] := List.getElem?_eq_getElem hidx
      have hr2 : dah.colRoot? index = some (dah.colRoots[index]'(by omega)) := List.getElem?_eq_getElem (by omega)
      have hr3 : dah.rowRoot? i = some dah.rowRoots[i] := List.getElem?_eq_getElem hi
      have hr4 : dah.colRoot? i = some (dah.colRoots[i]'(by omega)) := List.getElem?_eq_getElem (by omega)
      rw [himod]
      cases axis <;> cases s.proofAxis <;> simp only [hr1, hr2, hr3, hr4] <;> exact hfin _ _

theorem befpPrefix_noPanic (H : HashFn) (bindPos capGuard : Bool) (p : Befp) (hu : BefpU32 p) (hh : Nat) (dah : Dah)
    (hw : dah.rowRoots.length ≤ U16_MAX) :
    (befpPrefix (safeVerifyRange H) bindPos capGuard p hh dah).isPanic = false := by
  unfold befpPrefix
  split
  · rfl
  · split
    · rfl
    · rename_i hrc
      simp only [ne_eq, Decidable.not_not] at hrc
      unfold dahSquareWidth
      have : ¬ dah.rowRoots.length > U16_MAX := by omega
      simp only [this, ↓reduceIte, Out.bind]
      split
      · rfl
      · split
        · rfl
        · split
          · rfl
          · split
            · rfl
            · rename_i h1 h2 h3 h4
              apply bind_noPanic
              · apply befpVerifyShares_noPanic H bindPos dah p.axis p.index hw hrc (by omega) p.shares 0 hu
                simp only [ne_eq, Decidable.not_not] at h2
                omega
              · intro _ _; rfl

/-- facts about a successful prefix -/
theorem befpPrefix_ok {vr} {bindPos capGuard : Bool} {p : Befp} {hh : Nat} {dah : Dah} {rebuilt : List Bytes} {k : Nat}
    (h : befpPrefix vr bindPos capGuard p hh dah = .ok (rebuilt, k)) :
    rebuilt.length = dah.rowRoots.length ∧ k = dah.rowRoots.length / 2 ∧ p.index < dah.rowRoots.length ∧
    dah.rowRoots.length = dah.colRoots.length := by
  unfold befpPrefix at h
  split at h
  · cases h
  · split at h
    · cases h
    · rename_i hrc
      simp only [ne_eq, Decidable.not_not] at hrc
      unfold dahSquareWidth at h
      split at h
      · simp [Out.bind] at h
      · simp only [Out.bind] at h
        split at h
        · cases h
        · split at h
          · cases h
          · split at h
            · cases h
            · split at h
              · cases h
              · rename_i h1 h2 h3 h4
                cases hv : befpVerifyShares vr bindPos dah p.axis p.index p.shares 0 with
                | err => simp [hv] at h
                | panic s => simp [hv] at h
                | ok u =>
                  simp only [hv, Out.ok.injEq, Prod.mk.injEq] at h
                  obtain ⟨e1, e2⟩ := h
                  subst e1; subst e2
                  simp only [ne_eq, Decidable.not_not] at h2
                  refine ⟨by simp [h2], rfl, by omega, hrc⟩

/-- what is assumed of leopard's transforms: they keep the number of shards and return shards of the
    common shard size -/
structure CodecShape (c : Codec) : Prop where
  enc_len : ∀ s k, (c.enc s k).length = s.length
  enc_size : ∀ s k, ∀ x ∈ c.enc s k, x.length = shardSize s
  recon_len : ∀ s k, (c.recon s k).length = s.length

theorem leoReconstruct_ok_length {c : Codec} (hc : CodecShape c) {s r : List Bytes} {k : Nat}
    (h : leoReconstruct c s k = .ok r) : r.length = s.length := by
  unfold leoReconstruct at h
  split at h
  · cases h
  · split at h
    · cases h
    · simp only at h
      split at h
      · cases h
      · split at h
        · cases h
        · split at h
          · simp only [Out.ok.injEq] at h; subst h; rfl
          · split at h
            · cases h
            · split at h
              · cases h
              · simp only [Out.ok.injEq] at h; subst h; exact hc.recon_len _ _

theorem checkShards_false_some {s : List Bytes} {size : Nat} (h : checkShards s false = some size) :
    size = shardSize s ∧ size ≠ 0 := by
  unfold checkShards at h
  simp only at h
  split at h
  · simp at h
  · split at h
    · simp only [Option.some.injEq] at h; subst h; exact ⟨rfl, by assumption⟩
    · cases h

theorem leoEncode_ok_sizes {c : Codec} (hc : CodecShape c) {s r : List Bytes} {k : Nat}
    (h : leoEncode c s k = .ok r) : ∀ x ∈ r, 64 ≤ x.length := by
  unfold leoEncode at h
  split at h
  · cases h
  · split at h
    · cases h
    · simp only at h
      split at h
      · cases h
      · cases hov : isEncodeBufOverflow k (s.length - k) with
        | err => simp [hov, Out.bind] at h
        | panic st => simp [hov, Out.bind] at h
        | ok ov =>
          simp only [hov, Out.bind] at h
          split at h
          · cases h
          · cases hcs : checkShards s false with
            | none => simp [hcs] at h
            | some size =>
              simp only [hcs] at h
              split at h
              · cases h
              · rename_i hmod
                simp only [Out.ok.injEq] at h
                subst h
                intro x hx
                obtain ⟨e, hne⟩ := checkShards_false_some hcs
                rw [hc.enc_size _ _ x hx, ← e]
                simp only [ne_eq, Decidable.not_not] at hmod
                omega

theorem befpLeafNs_cases (uf io : Bool) (k n : Nat) (sh : Bytes) (h : NS_SIZE ≤ sh.length) :
    (∃ o, befpLeafNs uf io k n sh = .ok o) ∨ (uf = false ∧ befpLeafNs uf io k n sh = .panic .befpUnwrap) := by
  unfold befpLeafNs
  split
  · have : ¬ sh.length < NS_SIZE := by omega
    simp only [this, ↓reduceIte]
    split
    · exact Or.inl ⟨_, rfl⟩
    · cases uf
      · exact Or.inr ⟨rfl, rfl⟩
      · exact Or.inl ⟨_, rfl⟩
  · exact Or.inl ⟨_, rfl⟩

/-- the rebuild loop can only panic at the `unwrap` (and not at all once that is fixed); the leaf hashes it
    returns are in namespace order -/
theorem befpRebuild_ok (uf io : Bool) (H : HashFn) (k : Nat) : ∀ (shares : List Bytes) (n : Nat) (hi : Bytes),
    (∀ sh ∈ shares, NS_SIZE ≤ sh.length) →
    (∀ t, befpRebuild uf io H k shares n hi = .panic t → uf = false ∧ t = .befpUnwrap) ∧
    (∀ hs, befpRebuild uf io H k shares n hi = .ok (some hs) →
      MonoA hs ∧ (∀ x, hs.head? = some x → leB hi x.minNs = true)) := by
  intro shares
  induction shares with
  | nil =>
    intro n hi _
    refine ⟨(by intro t h; simp [befpRebuild] at h), ?_⟩
    intro hs h
    simp only [befpRebuild, Out.ok.injEq, Option.some.injEq] at h
    subst h
    exact ⟨trivial, by simp⟩
  | cons sh rest ih =>
    intro n hi hlen
    have hsh := hlen sh List.mem_cons_self
    have hrest : ∀ s ∈ rest, NS_SIZE ≤ s.length := fun s hs => hlen s (List.mem_cons_of_mem _ hs)
    unfold befpRebuild
    rcases befpLeafNs_cases uf io k n sh hsh with ⟨o, ho⟩ | ⟨huf, hp⟩
    · rw [ho]
      cases o with
      | none => exact ⟨(by intro t h; cases h), (by intro hs h; cases h)⟩
      | some ns =>
        simp only
        by_cases hlt : ltB ns hi = true
        · simp only [hlt, ↓reduceIte]
          exact ⟨(by intro t h; cases h), (by intro hs h; cases h)⟩
        · simp only [hlt, Bool.false_eq_true, ↓reduceIte]
          obtain ⟨ih1, ih2⟩ := ih (n + 1) ns hrest
          cases hr : befpRebuild uf io H k rest (n + 1) ns with
          | err => exact ⟨(by intro t h; cases h), (by intro hs h; cases h)⟩
          | panic s =>
            simp only
            refine ⟨?_, by intro hs h; cases h⟩
            intro t h
            simp only [Out.panic.injEq] at h
            subst h
            exact ih1 s hr
          | ok r =>
            cases r with
            | none => exact ⟨(by intro t h; cases h), (by intro hs h; cases h)⟩
            | some hs0 =>
              simp only
              refine ⟨(by intro t h; cases h), ?_⟩
              intro hs h
              simp only [Out.ok.injEq, Option.some.injEq] at h
              subst h
              obtain ⟨hm, hh⟩ := ih2 hs0 hr
              refine ⟨?_, ?_⟩
              · rw [monoA_cons]
                exact ⟨leB_refl _, fun y hy => hh y hy, hm⟩
              · intro x hx
                simp only [List.head?_cons, Option.some.injEq] at hx
                subst hx
                show leB hi ns = true
                exact leB_of_not_ltB (by simpa using hlt)
    · rw [hp]
      simp only
      refine ⟨?_, by intro hs h; cases h⟩
      intro t h
      simp only [Out.panic.injEq] at h
      exact ⟨huf, h.symm⟩

/-- `validate` from the reconstruction on can only panic at the `unwrap` -/
theorem befpSuffix_sites (uf : Bool) (H : HashFn) (c : Codec) (hc : CodecShape c) (p : Befp) (dah : Dah)
    (rebuilt : List Bytes) (k : Nat) (hlen : rebuilt.length = dah.rowRoots.length)
    (hk : k = dah.rowRoots.length / 2) (hidx : p.index < dah.rowRoots.length)
    (hrc : dah.rowRoots.length = dah.colRoots.length) :
    ∀ t, befpSuffix uf H c p dah rebuilt k = .panic t → uf = false ∧ t = .befpUnwrap := by
  intro t
  unfold befpSuffix
  have hw : 1 ≤ dah.rowRoots.length := by omega
  have h1 := leoReconstruct_noPanic c rebuilt k (by omega)
  cases hr : leoReconstruct c rebuilt k with
  | panic s => rw [hr] at h1; cases h1
  | err => intro h; cases h
  | ok rec =>
    simp only
    have hrl := leoReconstruct_ok_length hc hr
    have h2 := leoEncode_noPanic c rec k (by omega) (by omega)
    cases he : leoEncode c rec k with
    | panic s => rw [he] at h2; cases h2
    | err => intro h; cases h
    | ok full =>
      simp only
      have hsz := leoEncode_ok_sizes hc he
      generalize (if uf = true then decide (p.index < k) else true) = io
      obtain ⟨hb1, hb2⟩ := befpRebuild_ok uf io H k full 0 (List.replicate NS_SIZE 0)
        (fun sh hsh => by have := hsz sh hsh; unfold NS_SIZE; omega)
      cases hrb : befpRebuild uf io H k full 0 (List.replicate NS_SIZE 0) with
      | panic s =>
        intro h
        simp only [Out.bind, Out.panic.injEq] at h
        subst h
        exact hb1 s hrb
      | err => intro h; simp [Out.bind] at h
      | ok hs? =>
        simp only [Out.bind]
        cases hs? with
        | none => intro h; cases h
        | some hs =>
          simp only
          have hfin : ∀ e : NsHash, ((ofNmt (computeRoot H true hs)).bind fun root =>
              if (root == e) = true then Out.err else Out.ok ()).isPanic = false := by
            intro e
            apply bind_noPanic (ofNmt_noPanic (computeRoot_ne_panic H true hs (hb2 hs hrb).1))
            intro _ _
            split <;> rfl
          have hr1 : dah.rowRoot? p.index = some dah.rowRoots[p.index] := List.getElem?_eq_getElem hidx
          have hr2 : dah.colRoot? p.index = some (dah.colRoots[p.index]'(by omega)) := List.getElem?_eq_getElem (by omega)
          intro h
          exfalso
          have hnp : ∀ e : NsHash, ((ofNmt (computeRoot H true hs)).bind fun root =>
              if (root == e) = true then Out.err else Out.ok ()) ≠ .panic t := by
            intro e hcon
            have := hfin e
            rw [hcon] at this
            cases this
          cases hax : p.axis <;> simp only [hax, hr1, hr2] at h <;> exact hnp _ h

theorem befpSuffix_noPanic (H : HashFn) (c : Codec) (hc : CodecShape c) (p : Befp) (dah : Dah)
    (rebuilt : List Bytes) (k : Nat) (hlen : rebuilt.length = dah.rowRoots.length)
    (hk : k = dah.rowRoots.length / 2) (hidx : p.index < dah.rowRoots.length)
    (hrc : dah.rowRoots.length = dah.colRoots.length) :
    (befpSuffix true H c p dah rebuilt k).isPanic = false := by
  cases h : befpSuffix true H c p dah rebuilt k with
  | ok _ => rfl
  | err => rfl
  | panic t => exact absurd (befpSuffix_sites true H c hc p dah rebuilt k hlen hk hidx hrc t h).1 (by simp)

end Lumina.Proofs.Decoders

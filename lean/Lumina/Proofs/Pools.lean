/-
  Helper lemmas for C40 (model `Lumina/Model/Pools.lean`).
-/
import Lumina.Model.PoolsView

namespace Lumina.Proofs.Pools
open Lumina.Model.Pools

/-! ### association lists -/

theorem alGet_mem {β} {l : List (Nat × β)} {k : Nat} {v : β} (h : alGet l k = some v) : (k, v) ∈ l := by
  unfold alGet at h
  cases hf : l.find? (fun e => e.1 == k) with
  | none => simp [hf] at h
  | some e =>
    simp only [hf, Option.map_some, Option.some.injEq] at h
    have hk : e.1 = k := by simpa using List.find?_some hf
    have : e = (k, v) := by cases e; simp_all
    rw [← this]; exact List.mem_of_find?_eq_some hf

theorem alGet_none_iff {β} {l : List (Nat × β)} {k : Nat} : alGet l k = none ↔ ∀ e ∈ l, e.1 ≠ k := by
  unfold alGet
  simp [List.find?_eq_none]

theorem alGet_isSome_of_mem {β} {l : List (Nat × β)} {e : Nat × β} (h : e ∈ l) : (alGet l e.1).isSome := by
  cases hg : alGet l e.1 with
  | some _ => rfl
  | none => exact absurd rfl (alGet_none_iff.1 hg e h)

theorem mem_alRemove {β} {l : List (Nat × β)} {k : Nat} {e : Nat × β} :
    e ∈ alRemove l k ↔ e ∈ l ∧ e.1 ≠ k := by
  simp [alRemove, List.mem_filter]

theorem mem_alSet {β} {l : List (Nat × β)} {k : Nat} {v : β} {e : Nat × β} (h : e ∈ alSet l k v) :
    e = (k, v) ∨ (e ∈ l ∧ e.1 ≠ k) := by
  unfold alSet at h
  split at h
  · simp only [List.mem_map] at h
    obtain ⟨a, ha, rfl⟩ := h
    by_cases hk : a.1 = k
    · left; simp [hk]
    · right; simp [hk, ha]
  · rename_i hany
    rcases List.mem_append.1 h with h | h
    · right
      refine ⟨h, ?_⟩
      intro hk
      apply hany
      simp only [List.any_eq_true]
      exact ⟨e, h, by simp [hk]⟩
    · left; simpa using h

theorem alSet_mem_self {β} (l : List (Nat × β)) (k : Nat) (v : β) : (k, v) ∈ alSet l k v := by
  unfold alSet
  split
  · rename_i hany
    simp only [List.any_eq_true] at hany
    obtain ⟨a, ha, hk⟩ := hany
    simp only [List.mem_map]
    exact ⟨a, ha, by simp [hk]⟩
  · simp

theorem mem_alSet_of_mem {β} {l : List (Nat × β)} {k : Nat} {v : β} {e : Nat × β} (h : e ∈ l) (hk : e.1 ≠ k) :
    e ∈ alSet l k v := by
  unfold alSet
  split
  · simp only [List.mem_map]
    exact ⟨e, h, by simp [hk]⟩
  · exact List.mem_append_left _ h

theorem find?_map_key {β} (l : List (Nat × β)) (g : Nat × β → Nat × β) (hg : ∀ e, (g e).1 = e.1) (k : Nat) :
    (l.map g).find? (fun e => e.1 == k) = (l.find? (fun e => e.1 == k)).map g := by
  induction l with
  | nil => rfl
  | cons a l ih =>
    simp only [List.map_cons, List.find?_cons, hg]
    split
    · rfl
    · exact ih

theorem alGet_alSet {β} (l : List (Nat × β)) (k k' : Nat) (v : β) :
    alGet (alSet l k v) k' = if k' = k then some v else alGet l k' := by
  unfold alSet
  split
  · rename_i hany
    unfold alGet
    rw [find?_map_key _ _ (by intro e; split <;> simp_all)]
    cases hf : l.find? (fun e => e.1 == k') with
    | none =>
      have hne : ¬ k' = k := by
        intro e; subst e
        simp only [List.find?_eq_none] at hf
        simp only [List.any_eq_true] at hany
        obtain ⟨x, hx, hxk⟩ := hany
        exact hf x hx hxk
      simp [hne]
    | some e =>
      have he : e.1 = k' := by simpa using List.find?_some hf
      by_cases hkk : k' = k
      · subst hkk; simp [he]
      · have : ¬ e.1 = k := by rw [he]; exact hkk
        simp [hkk, this]
  · rename_i hany
    have hnone : ∀ e ∈ l, ¬ e.1 = k := by
      intro e he hk
      apply hany; simp only [List.any_eq_true]; exact ⟨e, he, by simp [hk]⟩
    unfold alGet
    rw [List.find?_append]
    by_cases hkk : k' = k
    · subst hkk
      have : l.find? (fun e => e.1 == k') = none := by
        simp only [List.find?_eq_none]; intro e he; simpa using hnone e he
      simp [this]
    · have hne : ¬ k = k' := fun e => hkk e.symm
      have : [(k, v)].find? (fun e => e.1 == k') = none := by simp [List.find?_cons, hne]
      simp [this, hkk]

theorem alGet_alRemove {β} (l : List (Nat × β)) (k k' : Nat) :
    alGet (alRemove l k) k' = if k' = k then none else alGet l k' := by
  unfold alRemove alGet
  by_cases hkk : k' = k
  · subst hkk
    simp only [↓reduceIte, Option.map_eq_none_iff, List.find?_eq_none, List.mem_filter]
    intro e he; simp_all
  · simp only [hkk, ↓reduceIte]
    congr 1
    rw [List.find?_filter]
    congr 1
    funext a
    by_cases h1 : a.1 = k'
    · have h2 : ¬ k' = k := hkk
      simp [h1, h2]
    · simp [h1]

theorem alGet_map {β} (l : List (Nat × β)) (f : β → β) (k : Nat) :
    alGet (l.map (fun e => (e.1, f e.2))) k = (alGet l k).map f := by
  unfold alGet
  induction l with
  | nil => rfl
  | cons a l ih =>
    simp only [List.map_cons, List.find?_cons]
    split
    · simp
    · exact ih

/-! ### T1: offered peers announced the stored header's hash -/

/-- candidates only hold votes that were announced for that very height and hash -/
def CInv (s : State) : Prop :=
  ∀ e ∈ s.hashPools, ∀ voted cands, e.2 = Pool.candidates voted cands →
    ∀ c ∈ cands, ∀ p ∈ c.2, (p, c.1, e.1) ∈ s.announced

/-- validated pools only hold peers that announced that hash -/
def BInv (s : State) : Prop :=
  ∀ e ∈ s.validatedPools, ∀ p ∈ e.2, ∃ h, (p, e.1, h) ∈ s.announced

/-- a height is validated only with the hash of a header that a task delivered for it -/
def AInv (s : State) : Prop :=
  ∀ e ∈ s.hashPools, ∀ x, e.2 = Pool.validated x → (e.1, x) ∈ s.arrived

structure Inv1 (s : State) : Prop where
  c : CInv s
  b : BInv s
  a : AInv s

theorem inv1_init : Inv1 init :=
  ⟨(by intro e he; cases he), (by intro e he; cases he), (by intro e he; cases he)⟩

theorem inv1_removePeer (s : State) (peer : Nat) (h : Inv1 s) : Inv1 (removePeer s peer) := by
  refine ⟨?_, ?_, ?_⟩
  · intro e he voted cands hc c hcm p hp
    simp only [removePeer, List.mem_map] at he
    obtain ⟨e0, he0, rfl⟩ := he
    cases hp0 : e0.2 with
    | validated x => simp [removeFromPool, hp0] at hc
    | candidates v0 c0 =>
      simp only [removeFromPool, hp0, Pool.candidates.injEq] at hc
      obtain ⟨_, rfl⟩ := hc
      simp only [List.mem_map] at hcm
      obtain ⟨c1, hc1, rfl⟩ := hcm
      exact h.c e0 he0 v0 c0 hp0 c1 hc1 p (List.mem_filter.1 hp).1
  · intro e he p hp
    simp only [removePeer, List.mem_map] at he
    obtain ⟨e0, he0, rfl⟩ := he
    exact h.b e0 he0 p (List.mem_filter.1 hp).1
  · intro e he x hx
    simp only [removePeer, List.mem_map] at he
    obtain ⟨e0, he0, rfl⟩ := he
    cases hp0 : e0.2 with
    | candidates v0 c0 => simp [removeFromPool, hp0] at hx
    | validated y =>
      simp only [removeFromPool, hp0, Pool.validated.injEq] at hx
      subst hx
      exact h.a e0 he0 y hp0

/-- the invariants survive shrinking the pools and growing the ghost logs -/
theorem inv1_mono {s s' : State} (h : Inv1 s) (hp : ∀ e ∈ s'.hashPools, e ∈ s.hashPools)
    (hv : ∀ e ∈ s'.validatedPools, e ∈ s.validatedPools) (han : ∀ t ∈ s.announced, t ∈ s'.announced)
    (har : ∀ t ∈ s.arrived, t ∈ s'.arrived) : Inv1 s' := by
  refine ⟨?_, ?_, ?_⟩
  · intro e he voted cands hc c hcm p hpm
    exact han _ (h.c e (hp e he) voted cands hc c hcm p hpm)
  · intro e he p hpm
    obtain ⟨ht, hm⟩ := h.b e (hv e he) p hpm
    exact ⟨ht, han _ hm⟩
  · intro e he x hx
    exact har _ (h.a e (hp e he) x hx)

theorem inv1_ensurePool (s : State) (height : Nat) (h : Inv1 s) : Inv1 (ensurePool s height) := by
  unfold ensurePool
  split
  · exact h
  · refine ⟨?_, h.b, ?_⟩
    · intro e he voted cands hc c hcm p hp
      rcases mem_alSet he with rfl | ⟨he', _⟩
      · simp only [Pool.candidates.injEq] at hc
        obtain ⟨_, rfl⟩ := hc
        cases hcm
      · exact h.c e he' voted cands hc c hcm p hp
    · intro e he x hx
      rcases mem_alSet he with rfl | ⟨he', _⟩
      · cases hx
      · exact h.a e he' x hx

theorem mem_alPush {l : List (Nat × List Nat)} {k p : Nat} {e : Nat × List Nat} (h : e ∈ alPush l k p) :
    (e.1 = k ∧ ∀ q ∈ e.2, q = p ∨ ∃ old, (k, old) ∈ l ∧ q ∈ old) ∨ e ∈ l := by
  unfold alPush at h
  rcases mem_alSet h with rfl | ⟨h', _⟩
  · left
    refine ⟨rfl, ?_⟩
    intro q hq
    rcases List.mem_append.1 hq with hq | hq
    · right
      cases hg : alGet l k with
      | none => simp [hg] at hq
      | some old =>
        simp only [hg, Option.getD_some] at hq
        exact ⟨old, alGet_mem hg, hq⟩
    · left; simpa using hq
  · right; exact h'

theorem inv1_vote (s : State) (peer hash height : Nat) (h : Inv1 s)
    (han : (peer, hash, height) ∈ s.announced) : Inv1 (vote s peer hash height) := by
  unfold vote
  split
  · rename_i voted cands hg
    split
    · exact inv1_mono h (fun e he => he) (fun e he => he) (fun t ht => ht) (fun t ht => ht)
    · refine ⟨?_, h.b, ?_⟩
      · intro e he v c hc c1 hc1 p hp
        rcases mem_alSet he with rfl | ⟨he', _⟩
        · simp only [Pool.candidates.injEq] at hc
          obtain ⟨_, rfl⟩ := hc
          rcases mem_alPush hc1 with ⟨hk, hall⟩ | hold
          · rcases hall p hp with rfl | ⟨old, hold, hpo⟩
            · rw [hk]; exact han
            · rw [hk]; exact h.c _ (alGet_mem hg) voted cands rfl _ hold p hpo
          · exact h.c _ (alGet_mem hg) voted cands rfl _ hold p hp
        · exact h.c e he' v c hc c1 hc1 p hp
      · intro e he x hx
        rcases mem_alSet he with rfl | ⟨he', _⟩
        · cases hx
        · exact h.a e he' x hx
  · rename_i vh hg
    split
    · split
      · exact inv1_mono h (fun e he => he) (fun e he => he) (fun t ht => ht) (fun t ht => ht)
      · refine ⟨h.c, ?_, h.a⟩
        intro e he p hp
        rcases mem_alPush he with ⟨hk, hall⟩ | hold
        · rcases hall p hp with rfl | ⟨old, hold, hpo⟩
          · exact ⟨height, by rw [hk]; exact han⟩
          · rw [hk]; exact h.b _ hold p hpo
        · exact h.b e hold p hp
    · exact inv1_mono h (fun e he => he) (fun e he => he) (fun t ht => ht) (fun t ht => ht)
  · exact h

theorem inv1_notify (s : State) (peer hash height : Nat) (h : Inv1 s) : Inv1 (notify s peer hash height) := by
  unfold notify
  split
  · exact h
  · split
    · exact h
    · apply inv1_vote
      · apply inv1_ensurePool
        exact inv1_mono h (fun e he => he) (fun e he => he)
          (fun t ht => List.mem_append_left _ ht) (fun t ht => ht)
      · have : (ensurePool { s with announced := s.announced ++ [(peer, hash, height)] } height).announced
            = s.announced ++ [(peer, hash, height)] := by
          unfold ensurePool; split <;> rfl
        rw [this]; simp

theorem inv1_validatePool (s : State) (hash height : Nat) (h : Inv1 s)
    (har : (height, hash) ∈ s.arrived) : Inv1 (validatePool s hash height) := by
  unfold validatePool
  split
  · rename_i voted cands hg
    refine ⟨?_, ?_, ?_⟩
    · intro e he v c hc c1 hc1 p hp
      rcases mem_alSet he with rfl | ⟨he', _⟩
      · cases hc
      · exact h.c e he' v c hc c1 hc1 p hp
    · intro e he p hp
      rcases mem_alSet he with rfl | ⟨he', _⟩
      · cases hgc : alGet cands hash with
        | none => simp [hgc] at hp
        | some vps =>
          simp only [hgc, Option.getD_some] at hp
          exact ⟨height, h.c _ (alGet_mem hg) voted cands rfl _ (alGet_mem hgc) p hp⟩
      · exact h.b e he' p hp
    · intro e he x hx
      rcases mem_alSet he with rfl | ⟨he', _⟩
      · simp only [Pool.validated.injEq] at hx
        subst hx; exact har
      · exact h.a e he' x hx
  · exact h
  · exact h

/-! ### eviction -/

theorem evict_fields (s : State) (hs : List Nat) :
    (evict s hs).subjectiveHead = s.subjectiveHead ∧ (evict s hs).pendingEvents = s.pendingEvents ∧
    (evict s hs).stored = s.stored ∧ (evict s hs).queue = s.queue ∧ (evict s hs).waiters = s.waiters ∧
    (evict s hs).announced = s.announced ∧ (evict s hs).arrived = s.arrived := by
  induction hs generalizing s with
  | nil => simp [evict]
  | cons h hs ih =>
    simp only [evict]
    split
    · exact ih _
    · exact ih _
    · exact ih _

theorem tryUpdate_arrived (s : State) (h : Nat) : (tryUpdateSubjectiveHead s h).arrived = s.arrived := by
  unfold tryUpdateSubjectiveHead
  split
  · rfl
  · split
    · rfl
    · exact (evict_fields _ _).2.2.2.2.2.2

theorem tryUpdate_announced (s : State) (h : Nat) : (tryUpdateSubjectiveHead s h).announced = s.announced := by
  unfold tryUpdateSubjectiveHead
  split
  · rfl
  · split
    · rfl
    · exact (evict_fields _ _).2.2.2.2.2.1

theorem mem_evict_pools (s : State) (hs : List Nat) :
    ∀ e ∈ (evict s hs).hashPools, e ∈ s.hashPools ∧ e.1 ∉ hs := by
  induction hs generalizing s with
  | nil => intro e he; exact ⟨he, by simp⟩
  | cons h hs ih =>
    intro e he
    simp only [evict] at he
    split at he
    · obtain ⟨h1, h2⟩ := ih _ e he
      obtain ⟨h3, h4⟩ := mem_alRemove.1 h1
      exact ⟨h3, by simp [h4, h2]⟩
    · obtain ⟨h1, h2⟩ := ih _ e he
      obtain ⟨h3, h4⟩ := mem_alRemove.1 h1
      exact ⟨h3, by simp [h4, h2]⟩
    · rename_i hnone
      obtain ⟨h1, h2⟩ := ih _ e he
      have := alGet_none_iff.1 hnone e h1
      exact ⟨h1, by simp [this, h2]⟩

theorem mem_evict_vp (s : State) (hs : List Nat) :
    ∀ e ∈ (evict s hs).validatedPools, e ∈ s.validatedPools := by
  induction hs generalizing s with
  | nil => intro e he; exact he
  | cons h hs ih =>
    intro e he
    simp only [evict] at he
    split at he
    · have := ih _ e he
      exact (mem_alRemove.1 this).1
    · have := ih _ e he
      exact this
    · have := ih _ e he
      exact this

theorem inv1_tryUpdate (s : State) (height : Nat) (h : Inv1 s) : Inv1 (tryUpdateSubjectiveHead s height) := by
  unfold tryUpdateSubjectiveHead
  split
  · exact inv1_mono h (fun e he => he) (fun e he => he) (fun t ht => ht) (fun t ht => ht)
  · split
    · exact h
    · simp only
      refine inv1_mono h (fun e he => by have := (mem_evict_pools _ _ e he).1; exact this)
        (fun e he => by have := mem_evict_vp _ _ e he; exact this) ?_ ?_
      · intro t ht; rw [(evict_fields _ _).2.2.2.2.2.1]; exact ht
      · intro t ht; rw [(evict_fields _ _).2.2.2.2.2.2]; exact ht

theorem foldl_removePeer_inv1 (ps : List Nat) (s : State) (h : Inv1 s) : Inv1 (ps.foldl removePeer s) := by
  induction ps generalizing s with
  | nil => exact h
  | cons p ps ih => exact ih _ (inv1_removePeer s p h)

theorem inv1_pollLoop : ∀ (fuel : Nat) (s : State), Inv1 s → Inv1 (pollLoop fuel s).1 := by
  intro fuel
  induction fuel with
  | zero => intro s h; exact h
  | succ fuel ih =>
    intro s h
    unfold pollLoop
    split
    · rename_i ev rest hpe
      have h0 : Inv1 { s with pendingEvents := rest } :=
        inv1_mono h (fun e he => he) (fun e he => he) (fun t ht => ht) (fun t ht => ht)
      cases ev with
      | addPeers ps => exact h0
      | blockPeers ps => exact foldl_removePeer_inv1 ps _ h0
    · simp only
      have h0 : Inv1 { s with queue := (pollNext s.stored s.queue s.waiters).1,
                              waiters := (pollNext s.stored s.queue s.waiters).2.1 } :=
        inv1_mono h (fun e he => he) (fun e he => he) (fun t ht => ht) (fun t ht => ht)
      split
      · exact h0
      · rename_i height hash _
        apply inv1_validatePool
        · apply inv1_tryUpdate
          exact inv1_mono h0 (fun e he => he) (fun e he => he) (fun t ht => ht)
            (fun t ht => List.mem_append_left _ ht)
        · rw [tryUpdate_arrived]; simp
      · split
        · apply ih
          exact inv1_mono h0 (fun e he => (mem_alRemove.1 he).1) (fun e he => he) (fun t ht => ht) (fun t ht => ht)
        · apply ih
          exact inv1_mono h0 (fun e he => (mem_alRemove.1 he).1) (fun e he => he) (fun t ht => ht) (fun t ht => ht)
        · exact ih _ h0
      · apply ih
        exact inv1_mono h0 (fun e he => (mem_alRemove.1 he).1) (fun e he => he) (fun t ht => ht) (fun t ht => ht)

theorem inv1_step (s : State) (e : Event) (h : Inv1 s) : Inv1 (step s e).1 := by
  cases e with
  | notify p x ht => exact inv1_notify s p x ht h
  | removePeer p =>
    exact inv1_mono (inv1_removePeer s p h) (fun e he => he) (fun e he => he) (fun t ht => ht) (fun t ht => ht)
  | poll => exact inv1_pollLoop _ s h
  | store ht x => exact inv1_mono h (fun e he => he) (fun e he => he) (fun t ht => ht) (fun t ht => ht)
  | taskTimeout ht => exact inv1_mono h (fun e he => he) (fun e he => he) (fun t ht => ht) (fun t ht => ht)
  | taskStoreErr ht => exact inv1_mono h (fun e he => he) (fun e he => he) (fun t ht => ht) (fun t ht => ht)

theorem inv1_run (evs : List Event) : ∀ s, Inv1 s → Inv1 (run s evs) := by
  induction evs with
  | nil => intro s h; exact h
  | cons e evs ih => intro s h; exact ih _ (inv1_step s e h)

/-! ### T3: the window -/

def WInv (s : State) : Prop :=
  match s.subjectiveHead with
  | none => s.hashPools = []
  | some H => ∀ e ∈ s.hashPools, staleThreshold H < e.1

theorem winv_of_eq {s s' : State} (h : WInv s) (hh : s'.subjectiveHead = s.subjectiveHead)
    (hp : ∀ e ∈ s'.hashPools, ∃ e0 ∈ s.hashPools, e0.1 = e.1) : WInv s' := by
  unfold WInv at h ⊢
  rw [hh]
  cases hs : s.subjectiveHead with
  | none =>
    simp only [hs] at h ⊢
    cases hp' : s'.hashPools with
    | nil => rfl
    | cons a l =>
      obtain ⟨e0, he0, _⟩ := hp a (by rw [hp']; exact List.mem_cons_self)
      rw [h] at he0; cases he0
  | some H =>
    simp only [hs] at h ⊢
    intro e he
    obtain ⟨e0, he0, hk⟩ := hp e he
    rw [← hk]; exact h e0 he0

theorem ensurePool_head (s : State) (h : Nat) : (ensurePool s h).subjectiveHead = s.subjectiveHead := by
  unfold ensurePool; split <;> rfl

theorem vote_head (s : State) (p x h : Nat) : (vote s p x h).subjectiveHead = s.subjectiveHead := by
  unfold vote
  split
  · split <;> rfl
  · split
    · split <;> rfl
    · rfl
  · rfl

theorem winv_some {s : State} {H : Nat} (hH : s.subjectiveHead = some H) :
    WInv s ↔ ∀ e ∈ s.hashPools, staleThreshold H < e.1 := by
  unfold WInv; rw [hH]

theorem vote_pools (s : State) (p x h : Nat) : ∀ e ∈ (vote s p x h).hashPools, e ∈ s.hashPools ∨ e.1 = h := by
  intro e he
  unfold vote at he
  split at he
  · split at he
    · exact Or.inl he
    · rcases mem_alSet he with rfl | ⟨h1, _⟩
      · exact Or.inr rfl
      · exact Or.inl h1
  · split at he
    · split at he <;> exact Or.inl he
    · exact Or.inl he
  · exact Or.inl he

theorem ensurePool_pools (s : State) (h : Nat) :
    ∀ e ∈ (ensurePool s h).hashPools, e ∈ s.hashPools ∨ e.1 = h := by
  intro e he
  unfold ensurePool at he
  split at he
  · exact Or.inl he
  · rcases mem_alSet he with rfl | ⟨h1, _⟩
    · exact Or.inr rfl
    · exact Or.inl h1

theorem winv_notify (s : State) (p x h : Nat) (hw : WInv s) : WInv (notify s p x h) := by
  unfold notify
  split
  · exact hw
  · rename_i H hH
    split
    · exact hw
    · rename_i hst
      have hst' : staleThreshold H < h := by omega
      have hw' := (winv_some hH).1 hw
      have hhead : (vote (ensurePool { s with announced := s.announced ++ [(p, x, h)] } h) p x h).subjectiveHead
          = some H := by rw [vote_head, ensurePool_head]; exact hH
      rw [winv_some hhead]
      intro e he
      rcases vote_pools _ _ _ _ e he with h1 | h1
      · rcases ensurePool_pools _ _ e h1 with h2 | h2
        · exact hw' e h2
        · rw [h2]; exact hst'
      · rw [h1]; exact hst'

theorem winv_removePeer (s : State) (p : Nat) (hw : WInv s) : WInv (removePeer s p) := by
  refine winv_of_eq hw ?_ ?_
  · rfl
  intro e he
  simp only [removePeer, List.mem_map] at he
  obtain ⟨e0, he0, rfl⟩ := he
  exact ⟨e0, he0, rfl⟩

theorem foldl_removePeer_winv (ps : List Nat) (s : State) (h : WInv s) : WInv (ps.foldl removePeer s) := by
  induction ps generalizing s with
  | nil => exact h
  | cons p ps ih => exact ih _ (winv_removePeer s p h)

theorem winv_validatePool (s : State) (x h : Nat) (hw : WInv s) : WInv (validatePool s x h) := by
  unfold validatePool
  split
  · rename_i voted cands hg
    simp only
    refine winv_of_eq hw ?_ ?_
    · rfl
    intro e he
    rcases mem_alSet he with rfl | ⟨h1, _⟩
    · exact ⟨_, alGet_mem hg, rfl⟩
    · exact ⟨e, h1, rfl⟩
  · exact hw
  · exact hw

theorem staleThreshold_mono {a b : Nat} (h : a ≤ b) : staleThreshold a ≤ staleThreshold b := by
  unfold staleThreshold; omega

theorem winv_tryUpdate (s : State) (h : Nat) (hw : WInv s) : WInv (tryUpdateSubjectiveHead s h) := by
  unfold tryUpdateSubjectiveHead
  split
  · rename_i hnone
    unfold WInv at hw ⊢
    simp only [hnone] at hw
    simp only [hw]
    intro e he; cases he
  · rename_i old hold
    split
    · exact hw
    · rename_i hlt
      simp only
      unfold WInv at hw ⊢
      rw [(evict_fields _ _).1]
      simp only [hold] at hw ⊢
      intro e he
      have hm := mem_evict_pools _ _ e he
      have h1 : e ∈ s.hashPools := hm.1
      have h2 := hm.2
      have hb := hw e h1
      have hmono : staleThreshold old ≤ staleThreshold h := staleThreshold_mono (by omega)
      simp only [List.mem_range'_1, not_and, Nat.not_lt] at h2
      have := h2 (by omega)
      omega

theorem winv_pollLoop : ∀ (fuel : Nat) (s : State), WInv s → WInv (pollLoop fuel s).1 := by
  intro fuel
  induction fuel with
  | zero => intro s h; exact h
  | succ fuel ih =>
    intro s h
    unfold pollLoop
    split
    · rename_i ev rest hpe
      have h0 : WInv { s with pendingEvents := rest } := winv_of_eq h rfl (fun e he => ⟨e, he, rfl⟩)
      cases ev with
      | addPeers ps => exact h0
      | blockPeers ps => exact foldl_removePeer_winv ps _ h0
    · simp only
      have h0 : WInv { s with queue := (pollNext s.stored s.queue s.waiters).1,
                              waiters := (pollNext s.stored s.queue s.waiters).2.1 } :=
        winv_of_eq h rfl (fun e he => ⟨e, he, rfl⟩)
      split
      · exact h0
      · apply winv_validatePool
        apply winv_tryUpdate
        exact winv_of_eq h0 rfl (fun e he => ⟨e, he, rfl⟩)
      · split
        · apply ih
          exact winv_of_eq h0 rfl (fun e he => ⟨e, (mem_alRemove.1 he).1, rfl⟩)
        · apply ih
          exact winv_of_eq h0 rfl (fun e he => ⟨e, (mem_alRemove.1 he).1, rfl⟩)
        · exact ih _ h0
      · apply ih
        exact winv_of_eq h0 rfl (fun e he => ⟨e, (mem_alRemove.1 he).1, rfl⟩)

theorem winv_step (s : State) (e : Event) (h : WInv s) : WInv (step s e).1 := by
  cases e with
  | notify p x ht => exact winv_notify s p x ht h
  | removePeer p => exact winv_of_eq (winv_removePeer s p h) rfl (fun e he => ⟨e, he, rfl⟩)
  | poll => exact winv_pollLoop _ s h
  | store ht x => exact winv_of_eq h rfl (fun e he => ⟨e, he, rfl⟩)
  | taskTimeout ht => exact winv_of_eq h rfl (fun e he => ⟨e, he, rfl⟩)
  | taskStoreErr ht => exact winv_of_eq h rfl (fun e he => ⟨e, he, rfl⟩)

theorem winv_run (evs : List Event) : ∀ s, WInv s → WInv (run s evs) := by
  induction evs with
  | nil => intro s h; exact h
  | cons e evs ih => intro s h; exact ih _ (winv_step s e h)

theorem winv_init : WInv init := rfl

/-! ### T4: `get_pool` does not panic when data hashes differ across heights -/

/-- a validated height always has its entry in `validated_pools` -/
def VInv (s : State) : Prop :=
  ∀ e ∈ s.hashPools, ∀ x, e.2 = Pool.validated x → (alGet s.validatedPools x).isSome

/-- `P h x`: "the header at height `h` has data hash `x`" — a relation that is a function of the height
    and injective (the property's "data hashes differ across heights") -/
def InjP (P : Nat → Nat → Prop) : Prop :=
  ∀ h1 x1 h2 x2, P h1 x1 → P h2 x2 → (h1 = h2 ↔ x1 = x2)

/-- everything in the store, and everything the tasks delivered, satisfies `P` -/
def EnvP (P : Nat → Nat → Prop) (s : State) : Prop :=
  (∀ t ∈ s.stored, P t.1 t.2) ∧ (∀ t ∈ s.arrived, P t.1 t.2)

theorem isSome_alSet {β} (l : List (Nat × β)) (k k' : Nat) (v : β) (h : (alGet l k').isSome) :
    (alGet (alSet l k v) k').isSome := by
  rw [alGet_alSet]; split <;> simp [h]

theorem vinv_ensurePool (s : State) (h : Nat) (hv : VInv s) : VInv (ensurePool s h) := by
  unfold ensurePool
  split
  · exact hv
  · intro e he x hx
    rcases mem_alSet he with rfl | ⟨h1, _⟩
    · cases hx
    · exact hv e h1 x hx

theorem vinv_vote (s : State) (p x h : Nat) (hv : VInv s) : VInv (vote s p x h) := by
  unfold vote
  split
  · split
    · exact hv
    · intro e he y hy
      rcases mem_alSet he with rfl | ⟨h1, _⟩
      · cases hy
      · exact hv e h1 y hy
  · split
    · split
      · exact hv
      · intro e he y hy
        exact isSome_alSet _ _ _ _ (hv e he y hy)
    · exact hv
  · exact hv

theorem vinv_notify (s : State) (p x h : Nat) (hv : VInv s) : VInv (notify s p x h) := by
  unfold notify
  split
  · exact hv
  · split
    · exact hv
    · apply vinv_vote
      apply vinv_ensurePool
      exact hv

theorem vinv_removePeer (s : State) (p : Nat) (hv : VInv s) : VInv (removePeer s p) := by
  intro e he x hx
  simp only [removePeer, List.mem_map] at he
  obtain ⟨e0, he0, rfl⟩ := he
  cases hp0 : e0.2 with
  | candidates v0 c0 => simp [removeFromPool, hp0] at hx
  | validated y =>
    simp only [removeFromPool, hp0, Pool.validated.injEq] at hx
    subst hx
    have := hv e0 he0 y hp0
    simp only [removePeer]
    rw [alGet_map]
    simpa using this

theorem foldl_removePeer_vinv (ps : List Nat) (s : State) (h : VInv s) : VInv (ps.foldl removePeer s) := by
  induction ps generalizing s with
  | nil => exact h
  | cons p ps ih => exact ih _ (vinv_removePeer s p h)

theorem vinv_validatePool (s : State) (x h : Nat) (hv : VInv s) : VInv (validatePool s x h) := by
  unfold validatePool
  split
  · simp only
    intro e he y hy
    rcases mem_alSet he with rfl | ⟨h1, _⟩
    · simp only [Pool.validated.injEq] at hy
      subst hy
      rw [alGet_alSet]; simp
    · exact isSome_alSet _ _ _ _ (hv e h1 y hy)
  · exact hv
  · exact hv

theorem vinv_sub {s s' : State} (hv : VInv s) (hp : ∀ e ∈ s'.hashPools, e ∈ s.hashPools)
    (hvp : s'.validatedPools = s.validatedPools) : VInv s' := by
  intro e he x hx
  rw [hvp]; exact hv e (hp e he) x hx

theorem vinv_evict (P : Nat → Nat → Prop) (hP : InjP P) (hs : List Nat) :
    ∀ (s : State), VInv s → AInv s → (∀ t ∈ s.arrived, P t.1 t.2) → VInv (evict s hs) := by
  induction hs with
  | nil => intro s hv _ _; exact hv
  | cons h hs ih =>
    intro s hv ha hp
    simp only [evict]
    split
    · rename_i x hg
      apply ih
      · intro e he y hy
        obtain ⟨h1, h2⟩ := mem_alRemove.1 he
        have hy' := hv e h1 y hy
        have hne : y ≠ x := by
          intro e'
          subst e'
          have p1 := hp _ (ha e h1 y hy)
          have p2 := hp _ (ha _ (alGet_mem hg) y rfl)
          exact h2 ((hP _ _ _ _ p1 p2).2 rfl)
        show (alGet (alRemove s.validatedPools x) y).isSome
        rw [alGet_alRemove]; simp [hne, hy']
      · intro e he y hy
        exact ha e (mem_alRemove.1 he).1 y hy
      · exact hp
    · apply ih
      · exact vinv_sub hv (fun e he => (mem_alRemove.1 he).1) rfl
      · intro e he y hy
        exact ha e (mem_alRemove.1 he).1 y hy
      · exact hp
    · exact ih s hv ha hp

theorem vinv_tryUpdate (P : Nat → Nat → Prop) (hP : InjP P) (s : State) (h : Nat) (hv : VInv s) (ha : AInv s)
    (hp : ∀ t ∈ s.arrived, P t.1 t.2) : VInv (tryUpdateSubjectiveHead s h) := by
  unfold tryUpdateSubjectiveHead
  split
  · exact vinv_sub hv (fun e he => he) rfl
  · split
    · exact hv
    · simp only
      apply vinv_evict P hP
      · exact vinv_sub hv (fun e he => he) rfl
      · exact ha
      · exact hp

theorem storeHead_mem (stored : List (Nat × Nat)) (t : Nat × Nat) (h : storeHead stored = some t) : t ∈ stored := by
  unfold storeHead at h
  suffices ∀ (l : List (Nat × Nat)) (acc : Option (Nat × Nat)) (t : Nat × Nat),
      l.foldl (fun acc e => match acc with
        | none => some e
        | some a => if a.1 < e.1 then some e else some a) acc = some t → t ∈ l ∨ acc = some t by
    rcases this stored none t h with h | h
    · exact h
    · cases h
  intro l
  induction l with
  | nil => intro acc t h; exact Or.inr h
  | cons a l ih =>
    intro acc t h
    simp only [List.foldl_cons] at h
    rcases ih _ t h with h1 | h1
    · exact Or.inl (List.mem_cons_of_mem _ h1)
    · cases acc with
      | none => simp at h1; subst h1; exact Or.inl List.mem_cons_self
      | some b =>
        simp only at h1
        split at h1
        · simp at h1; subst h1; exact Or.inl List.mem_cons_self
        · exact Or.inr h1

theorem pollNext_ok (stored : List (Nat × Nat)) : ∀ (q w : List Task) (h x : Nat),
    (pollNext stored q w).2.2 = some (.ok h x) → (h, x) ∈ stored := by
  intro q
  induction q with
  | nil => intro w h x hh; simp [pollNext] at hh
  | cons t q ih =>
    intro w h x hh
    unfold pollNext at hh
    cases t with
    | real ht =>
      simp only at hh
      split at hh
      · rename_i y hg
        simp only [Option.some.injEq, TaskRes.ok.injEq] at hh
        obtain ⟨rfl, rfl⟩ := hh
        exact alGet_mem hg
      · exact ih _ h x hh
    | timeout ht => simp at hh
    | storeErr ht => simp at hh
    | head =>
      simp only at hh
      split at hh
      · rename_i hh' y hg
        simp only [Option.some.injEq, TaskRes.ok.injEq] at hh
        obtain ⟨rfl, rfl⟩ := hh
        exact storeHead_mem _ _ hg
      · exact ih _ h x hh

structure Inv2 (P : Nat → Nat → Prop) (s : State) : Prop where
  i1 : Inv1 s
  v : VInv s
  env : EnvP P s

theorem inv2_removePeer (P : Nat → Nat → Prop) (s : State) (p : Nat) (h : Inv2 P s) : Inv2 P (removePeer s p) :=
  ⟨inv1_removePeer s p h.i1, vinv_removePeer s p h.v, h.env⟩

theorem foldl_removePeer_inv2 (P : Nat → Nat → Prop) (ps : List Nat) (s : State) (h : Inv2 P s) :
    Inv2 P (ps.foldl removePeer s) := by
  induction ps generalizing s with
  | nil => exact h
  | cons p ps ih => exact ih _ (inv2_removePeer P s p h)

/-- dropping a pool, changing the queue fields or the outgoing events keeps the invariants -/
theorem inv2_shrink (P : Nat → Nat → Prop) {s s' : State} (h : Inv2 P s)
    (hp : ∀ e ∈ s'.hashPools, e ∈ s.hashPools) (hv : s'.validatedPools = s.validatedPools)
    (han : s'.announced = s.announced) (har : s'.arrived = s.arrived) (hst : s'.stored = s.stored) : Inv2 P s' :=
  ⟨inv1_mono h.i1 hp (fun e he => by rw [hv] at he; exact he) (fun t ht => by rw [han]; exact ht)
      (fun t ht => by rw [har]; exact ht),
   vinv_sub h.v hp hv,
   ⟨by rw [hst]; exact h.env.1, by rw [har]; exact h.env.2⟩⟩

theorem validatePool_env (s : State) (x h : Nat) :
    (validatePool s x h).stored = s.stored ∧ (validatePool s x h).arrived = s.arrived := by
  unfold validatePool; split <;> exact ⟨rfl, rfl⟩

theorem tryUpdate_stored (s : State) (h : Nat) : (tryUpdateSubjectiveHead s h).stored = s.stored := by
  unfold tryUpdateSubjectiveHead
  split
  · rfl
  · split
    · rfl
    · exact (evict_fields _ _).2.2.1

theorem inv2_pollLoop (P : Nat → Nat → Prop) (hP : InjP P) :
    ∀ (fuel : Nat) (s : State), Inv2 P s → Inv2 P (pollLoop fuel s).1 := by
  intro fuel
  induction fuel with
  | zero => intro s h; exact h
  | succ fuel ih =>
    intro s h
    unfold pollLoop
    split
    · rename_i ev rest hpe
      have h0 : Inv2 P { s with pendingEvents := rest } := inv2_shrink P h (fun e he => he) rfl rfl rfl rfl
      cases ev with
      | addPeers ps => exact h0
      | blockPeers ps => exact foldl_removePeer_inv2 P ps _ h0
    · simp only
      have h0 : Inv2 P { s with queue := (pollNext s.stored s.queue s.waiters).1,
                                waiters := (pollNext s.stored s.queue s.waiters).2.1 } :=
        inv2_shrink P h (fun e he => he) rfl rfl rfl rfl
      split
      · exact h0
      · rename_i height hash hres
        have hPnew : P height hash := h.env.1 _ (pollNext_ok _ _ _ _ _ hres)
        have harr : ∀ t ∈ s.arrived ++ [(height, hash)], P t.1 t.2 := by
          intro t ht
          rcases List.mem_append.1 ht with h1 | h1
          · exact h.env.2 t h1
          · simp only [List.mem_singleton] at h1
            subst h1; exact hPnew
        refine ⟨?_, ?_, ?_, ?_⟩
        · apply inv1_validatePool
          · apply inv1_tryUpdate
            exact inv1_mono h0.i1 (fun e he => he) (fun e he => he) (fun t ht => ht)
              (fun t ht => List.mem_append_left _ ht)
          · rw [tryUpdate_arrived]; simp
        · apply vinv_validatePool
          apply vinv_tryUpdate P hP
          · exact vinv_sub h0.v (fun e he => he) rfl
          · intro e he y hy
            exact List.mem_append_left _ (h0.i1.a e he y hy)
          · exact harr
        · rw [(validatePool_env _ _ _).1, tryUpdate_stored]; exact h.env.1
        · rw [(validatePool_env _ _ _).2, tryUpdate_arrived]; exact harr
      · split
        · exact ih _ (inv2_shrink P h0 (fun e he => (mem_alRemove.1 he).1) rfl rfl rfl rfl)
        · exact ih _ (inv2_shrink P h0 (fun e he => (mem_alRemove.1 he).1) rfl rfl rfl rfl)
        · exact ih _ h0
      · exact ih _ (inv2_shrink P h0 (fun e he => (mem_alRemove.1 he).1) rfl rfl rfl rfl)

/-- an event is admissible for `P` when a stored header satisfies it -/
def EvP (P : Nat → Nat → Prop) : Event → Prop
  | .store h x => P h x
  | _ => True

theorem notify_env (s : State) (p x h : Nat) :
    (notify s p x h).stored = s.stored ∧ (notify s p x h).arrived = s.arrived := by
  unfold notify
  split
  · exact ⟨rfl, rfl⟩
  · split
    · exact ⟨rfl, rfl⟩
    · have h1 : ∀ (s' : State), (vote s' p x h).stored = s'.stored ∧ (vote s' p x h).arrived = s'.arrived := by
        intro s'; unfold vote
        split
        · split <;> exact ⟨rfl, rfl⟩
        · split
          · split <;> exact ⟨rfl, rfl⟩
          · exact ⟨rfl, rfl⟩
        · exact ⟨rfl, rfl⟩
      have h2 : ∀ (s' : State), (ensurePool s' h).stored = s'.stored ∧ (ensurePool s' h).arrived = s'.arrived := by
        intro s'; unfold ensurePool; split <;> exact ⟨rfl, rfl⟩
      rw [(h1 _).1, (h1 _).2, (h2 _).1, (h2 _).2]
      exact ⟨rfl, rfl⟩

theorem inv2_step (P : Nat → Nat → Prop) (hP : InjP P) (s : State) (e : Event) (h : Inv2 P s) (he : EvP P e) :
    Inv2 P (step s e).1 := by
  cases e with
  | notify p x ht =>
    refine ⟨inv1_notify s p x ht h.i1, vinv_notify s p x ht h.v, ?_⟩
    have := notify_env s p x ht
    exact ⟨by show ∀ t ∈ (notify s p x ht).stored, _; rw [this.1]; exact h.env.1,
           by show ∀ t ∈ (notify s p x ht).arrived, _; rw [this.2]; exact h.env.2⟩
  | removePeer p => exact inv2_shrink P (inv2_removePeer P s p h) (fun e he => he) rfl rfl rfl rfl
  | poll => exact inv2_pollLoop P hP _ s h
  | store ht x =>
    refine ⟨inv1_step s _ h.i1, vinv_sub h.v (fun e he => he) rfl, ?_, h.env.2⟩
    intro t htm
    rcases mem_alSet htm with rfl | ⟨h1, _⟩
    · exact he
    · exact h.env.1 t h1
  | taskTimeout ht => exact ⟨inv1_step s _ h.i1, vinv_sub h.v (fun e he => he) rfl, h.env⟩
  | taskStoreErr ht => exact ⟨inv1_step s _ h.i1, vinv_sub h.v (fun e he => he) rfl, h.env⟩

theorem inv2_run (P : Nat → Nat → Prop) (hP : InjP P) (evs : List Event) :
    ∀ s, Inv2 P s → (∀ e ∈ evs, EvP P e) → Inv2 P (run s evs) := by
  induction evs with
  | nil => intro s h _; exact h
  | cons e evs ih =>
    intro s h he
    exact ih _ (inv2_step P hP s e h (he e List.mem_cons_self)) (fun e' h' => he e' (List.mem_cons_of_mem _ h'))

theorem inv2_init (P : Nat → Nat → Prop) : Inv2 P init :=
  ⟨inv1_init, (by intro e he; cases he), ⟨(by intro t ht; cases ht), (by intro t ht; cases ht)⟩⟩

/-! ### T2: blocking (function level, any state) -/

open Lumina.Spec.C40 in
theorem lookup_view_pools (s : State) (h : Nat) :
    lookup (view s).pools h = (alGet s.hashPools h).map viewPool := by
  unfold lookup view alGet
  simp only
  induction s.hashPools with
  | nil => rfl
  | cons a l ih =>
    simp only [List.map_cons, List.find?_cons]
    split
    · rfl
    · exact ih

open Lumina.Spec.C40 in
theorem lookup_eq_alGet {β} (l : List (Nat × β)) (k : Nat) : lookup l k = alGet l k := rfl

theorem rootHashWindow_eq : ROOT_HASH_WINDOW = 10 := rfl

theorem notify_events_validated_wrong (s : State) (p x h H y : Nat) (hH : s.subjectiveHead = some H)
    (hst : ¬ h ≤ staleThreshold H) (hg : alGet s.hashPools h = some (.validated y)) (hne : ¬ y = x) :
    (notify s p x h).pendingEvents = s.pendingEvents ++ [.blockPeers [p]] := by
  simp [notify, hH, hst, ensurePool, hg, vote, hne]

theorem notify_events_validated_dup (s : State) (p x h H : Nat) (hH : s.subjectiveHead = some H)
    (hst : ¬ h ≤ staleThreshold H) (hg : alGet s.hashPools h = some (.validated x))
    (hm : ((alGet s.validatedPools x).getD []).contains p = true) :
    (notify s p x h).pendingEvents = s.pendingEvents ++ [.blockPeers [p]] := by
  have hm' : p ∈ (alGet s.validatedPools x).getD [] := by simpa using hm
  simp [notify, hH, hst, ensurePool, hg, vote, hm']

theorem notify_events_candidates_dup (s : State) (p x h H : Nat) (voted : List Nat) (cands : List (Nat × List Nat))
    (hH : s.subjectiveHead = some H) (hst : ¬ h ≤ staleThreshold H)
    (hg : alGet s.hashPools h = some (.candidates voted cands)) (hm : voted.contains p = true) :
    (notify s p x h).pendingEvents = s.pendingEvents ++ [.blockPeers [p]] := by
  have hm' : p ∈ voted := by simpa using hm
  simp [notify, hH, hst, ensurePool, hg, vote, hm']

open Lumina.Spec.C40 in
theorem newlyBlocked_of_append (s s' : State) (p : Nat)
    (h : s'.pendingEvents = s.pendingEvents ++ [.blockPeers [p]]) : newlyBlocked (view s) (view s') p = true := by
  simp [newlyBlocked, view, h, viewEv]

open Lumina.Spec.C40 in
theorem not_ignored {s : State} {h : Nat} (hpos : 0 < h) (hi : ignored (view s) h = false) :
    ∃ H, s.subjectiveHead = some H ∧ ¬ h ≤ staleThreshold H := by
  unfold ignored view at hi
  cases hs : s.subjectiveHead with
  | none => simp [hs] at hi
  | some H =>
    simp only [hs, decide_eq_false_iff_not] at hi
    refine ⟨H, rfl, ?_⟩
    unfold staleThreshold
    rw [rootHashWindow_eq]
    omega

/-- `validate_pool`: every peer that voted for another hash is named in a queued `BlockPeers` -/
theorem validatePool_blocks (s : State) (x h : Nat) (voted : List Nat) (cands : List (Nat × List Nat))
    (hg : alGet s.hashPools h = some (.candidates voted cands)) :
    ∀ c ∈ cands, c.1 ≠ x → ∀ p ∈ c.2, ∃ bs, Ev.blockPeers bs ∈ (validatePool s x h).pendingEvents ∧ p ∈ bs := by
  intro c hc hne p hp
  have hbad : p ∈ (alRemove cands x).flatMap (·.2) := by
    simp only [List.mem_flatMap]
    exact ⟨c, mem_alRemove.2 ⟨hc, hne⟩, hp⟩
  refine ⟨(alRemove cands x).flatMap (·.2), ?_, hbad⟩
  have hne' : ((alRemove cands x).flatMap (·.2)).isEmpty = false := by
    cases hb : (alRemove cands x).flatMap (·.2) with
    | nil => rw [hb] at hbad; cases hbad
    | cons => rfl
  simp [validatePool, hg, hne']

/-- … and the matching voters are the ones promoted -/
theorem validatePool_promotes (s : State) (x h : Nat) (voted : List Nat) (cands : List (Nat × List Nat))
    (hg : alGet s.hashPools h = some (.candidates voted cands)) :
    alGet (validatePool s x h).hashPools h = some (.validated x) ∧
    alGet (validatePool s x h).validatedPools x = some ((alGet cands x).getD []) := by
  simp [validatePool, hg, alGet_alSet]

/-! ### validation inside `poll` -/

theorem alGet_evict_pools (hs : List Nat) : ∀ (s : State) (k : Nat),
    alGet (evict s hs).hashPools k = if k ∈ hs then none else alGet s.hashPools k := by
  induction hs with
  | nil => intro s k; simp [evict]
  | cons h hs ih =>
    intro s k
    simp only [evict]
    split
    · rw [ih]
      show (if k ∈ hs then none else alGet (alRemove s.hashPools h) k) = _
      rw [alGet_alRemove]
      by_cases hk : k = h
      · subst hk; simp
      · simp [hk]
    · rw [ih]
      show (if k ∈ hs then none else alGet (alRemove s.hashPools h) k) = _
      rw [alGet_alRemove]
      by_cases hk : k = h
      · subst hk; simp
      · simp [hk]
    · rename_i hnone
      rw [ih]
      by_cases hk : k = h
      · subst hk; simp [hnone]
      · simp [hk]

theorem tryUpdate_keeps_own_pool (s : State) (h : Nat) (hpos : 0 < h) :
    alGet (tryUpdateSubjectiveHead s h).hashPools h = alGet s.hashPools h := by
  unfold tryUpdateSubjectiveHead
  split
  · rfl
  · split
    · rfl
    · rename_i old _ _
      simp only
      rw [alGet_evict_pools]
      have : h ∉ List.range' (staleThreshold old) (staleThreshold h + 1 - staleThreshold old) := by
        simp only [List.mem_range'_1, not_and, Nat.not_lt]
        intro _
        unfold staleThreshold
        rw [rootHashWindow_eq]
        omega
      simp [this]

theorem tryUpdate_events (s : State) (h : Nat) :
    (tryUpdateSubjectiveHead s h).pendingEvents = s.pendingEvents := by
  unfold tryUpdateSubjectiveHead
  split
  · rfl
  · split
    · rfl
    · exact (evict_fields _ _).2.1

/-- when `poll` consumes the arrival of header `h` (data hash `x`) while `h` is still unvalidated, every
    voter of another hash is named in a `BlockPeers` of the resulting queue -/
theorem poll_validation_blocks (s : State) (h x : Nat) (voted : List Nat) (cands : List (Nat × List Nat))
    (hq : s.pendingEvents = []) (hres : (pollNext s.stored s.queue s.waiters).2.2 = some (.ok h x))
    (hg : alGet s.hashPools h = some (.candidates voted cands)) (hpos : 0 < h) :
    (poll s).2 = .readyNone ∧
    ∀ c ∈ cands, c.1 ≠ x → ∀ p ∈ c.2, ∃ bs, Ev.blockPeers bs ∈ (poll s).1.pendingEvents ∧ p ∈ bs := by
  have hpoll : poll s = (validatePool (tryUpdateSubjectiveHead
      { s with queue := (pollNext s.stored s.queue s.waiters).1, waiters := (pollNext s.stored s.queue s.waiters).2.1,
               arrived := s.arrived ++ [(h, x)] } h) x h, .readyNone) := by
    simp [poll, pollLoop, hq, hres]
  rw [hpoll]
  refine ⟨rfl, ?_⟩
  apply validatePool_blocks _ x h voted cands
  rw [tryUpdate_keeps_own_pool _ _ hpos]
  exact hg

/-! ### the blocking clause over histories without failing header tasks -/

/-- the announcement `(p, x, h)` still stands: it is a vote in `h`'s candidates, or `h` is validated with
    that very hash, or `h` fell out of the window -/
def Stand (s : State) (p x h : Nat) : Prop :=
  match alGet s.hashPools h with
  | some (.candidates _ cands) => p ∈ (alGet cands x).getD []
  | some (.validated y) => y = x
  | none => ∃ H, s.subjectiveHead = some H ∧ h ≤ staleThreshold H

def Excused (s : State) (p : Nat) : Prop := p ∈ s.blocked ∨ p ∈ s.removed

def GoodTask (tk : Task) : Prop := (∀ h, tk ≠ .timeout h) ∧ (∀ h, tk ≠ .storeErr h)

structure HInv (s : State) : Prop where
  q : ∀ ev ∈ s.pendingEvents, ∀ ps, ev = Ev.blockPeers ps → ∀ p ∈ ps, p ∈ s.blocked
  t : ∀ tk, tk ∈ s.queue ∨ tk ∈ s.waiters → GoodTask tk
  h : ∀ tr ∈ s.announced, Excused s tr.1 ∨ Stand s tr.1 tr.2.1 tr.2.2

theorem stand_congr {s s' : State} {p x h : Nat} (hp : alGet s'.hashPools h = alGet s.hashPools h)
    (hh : s'.subjectiveHead = s.subjectiveHead) : Stand s' p x h ↔ Stand s p x h := by
  unfold Stand; rw [hp, hh]

theorem pollNext_mem (stored : List (Nat × Nat)) : ∀ (q w : List Task) (tk : Task),
    tk ∈ (pollNext stored q w).1 ∨ tk ∈ (pollNext stored q w).2.1 → tk ∈ q ∨ tk ∈ w := by
  intro q
  induction q with
  | nil => intro w tk h; simpa [pollNext] using h
  | cons a q ih =>
    intro w tk h
    unfold pollNext at h
    cases a with
    | real ht =>
      simp only at h
      split at h
      · rcases h with h | h
        · exact Or.inl (List.mem_cons_of_mem _ h)
        · exact Or.inr h
      · rcases ih _ tk h with h | h
        · exact Or.inl (List.mem_cons_of_mem _ h)
        · rcases List.mem_append.1 h with h | h
          · exact Or.inr h
          · simp only [List.mem_singleton] at h; subst h; exact Or.inl List.mem_cons_self
    | timeout ht =>
      rcases h with h | h
      · exact Or.inl (List.mem_cons_of_mem _ h)
      · exact Or.inr h
    | storeErr ht =>
      rcases h with h | h
      · exact Or.inl (List.mem_cons_of_mem _ h)
      · exact Or.inr h
    | head =>
      simp only at h
      split at h
      · rcases h with h | h
        · exact Or.inl (List.mem_cons_of_mem _ h)
        · exact Or.inr h
      · rcases ih _ tk h with h | h
        · exact Or.inl (List.mem_cons_of_mem _ h)
        · rcases List.mem_append.1 h with h | h
          · exact Or.inr h
          · simp only [List.mem_singleton] at h; subst h; exact Or.inl List.mem_cons_self

theorem pollNext_fail (stored : List (Nat × Nat)) : ∀ (q w : List Task) (h : Nat),
    ((pollNext stored q w).2.2 = some (.timeout h) → Task.timeout h ∈ q) ∧
    ((pollNext stored q w).2.2 = some (.storeErr h) → Task.storeErr h ∈ q) := by
  intro q
  induction q with
  | nil => intro w h; simp [pollNext]
  | cons a q ih =>
    intro w h
    unfold pollNext
    cases a with
    | real ht =>
      simp only
      split
      · simp
      · exact ⟨fun e => List.mem_cons_of_mem _ ((ih _ h).1 e), fun e => List.mem_cons_of_mem _ ((ih _ h).2 e)⟩
    | timeout ht =>
      simp only [Option.some.injEq, TaskRes.timeout.injEq, List.mem_cons, Task.timeout.injEq, reduceCtorEq, false_or]
      exact ⟨fun e => Or.inl e.symm, fun e => (by cases e)⟩
    | storeErr ht =>
      simp only [Option.some.injEq, TaskRes.storeErr.injEq, List.mem_cons, Task.storeErr.injEq, reduceCtorEq, false_or]
      exact ⟨fun e => (by cases e), fun e => Or.inl e.symm⟩
    | head =>
      simp only
      split
      · simp
      · exact ⟨fun e => List.mem_cons_of_mem _ ((ih _ h).1 e), fun e => List.mem_cons_of_mem _ ((ih _ h).2 e)⟩

theorem hinv_init : HInv init := by
  refine ⟨(by intro ev he; cases he), ?_, (by intro tr htr; cases htr)⟩
  intro tk h
  rcases h with h | h
  · simp only [init, List.mem_singleton] at h
    subst h
    exact ⟨fun _ e => (by cases e), fun _ e => (by cases e)⟩
  · cases h

theorem alGet_alPush (l : List (Nat × List Nat)) (k k' p : Nat) :
    (alGet (alPush l k p) k').getD [] = if k' = k then (alGet l k).getD [] ++ [p] else (alGet l k').getD [] := by
  unfold alPush
  rw [alGet_alSet]
  split <;> simp_all

theorem hinv_ensurePool (s : State) (h H : Nat) (hH : s.subjectiveHead = some H) (hst : ¬ h ≤ staleThreshold H)
    (hi : HInv s) : HInv (ensurePool s h) := by
  unfold ensurePool
  split
  · exact hi
  · rename_i hnone
    refine ⟨hi.q, ?_, ?_⟩
    · intro tk htk
      rcases htk with htk | htk
      · rcases List.mem_append.1 htk with htk | htk
        · exact hi.t tk (Or.inl htk)
        · simp only [List.mem_singleton] at htk; subst htk
          exact ⟨fun _ e => (by cases e), fun _ e => (by cases e)⟩
      · exact hi.t tk (Or.inr htk)
    · intro tr htr
      rcases hi.h tr htr with he | hs
      · exact Or.inl he
      · right
        by_cases hk : tr.2.2 = h
        · exfalso
          unfold Stand at hs
          rw [hk, hnone] at hs
          obtain ⟨H', h1, h2⟩ := hs
          rw [hH] at h1; cases h1
          exact hst h2
        · unfold Stand at hs ⊢
          show match alGet (alSet s.hashPools h (Pool.candidates [] [])) tr.2.2 with
            | some (.candidates _ cands) => tr.1 ∈ (alGet cands tr.2.1).getD []
            | some (.validated y) => y = tr.2.1
            | none => ∃ H, s.subjectiveHead = some H ∧ tr.2.2 ≤ staleThreshold H
          rw [alGet_alSet]
          simp only [hk, ↓reduceIte]
          exact hs

theorem ensurePool_some (s : State) (h : Nat) : (alGet (ensurePool s h).hashPools h).isSome := by
  unfold ensurePool
  split
  · rename_i hg; rw [hg]; rfl
  · show (alGet (alSet s.hashPools h (Pool.candidates [] [])) h).isSome
    rw [alGet_alSet]; simp

/-- `vote` for the announcement `(p, x, h)` that has just been appended to `announced` -/
theorem hinv_vote (s : State) (p x h : Nat) (hsome : (alGet s.hashPools h).isSome)
    (hq : ∀ ev ∈ s.pendingEvents, ∀ ps, ev = Ev.blockPeers ps → ∀ p ∈ ps, p ∈ s.blocked)
    (ht : ∀ tk, tk ∈ s.queue ∨ tk ∈ s.waiters → GoodTask tk)
    (hold : ∀ tr ∈ s.announced, tr = (p, x, h) ∨ Excused s tr.1 ∨ Stand s tr.1 tr.2.1 tr.2.2) :
    HInv (vote s p x h) := by
  unfold vote
  cases hg : alGet s.hashPools h with
  | none => rw [hg] at hsome; cases hsome
  | some pool =>
    cases pool with
    | candidates voted cands =>
      simp only
      split
      · -- duplicate: blocked
        refine ⟨?_, ht, ?_⟩
        · intro ev hev ps hps q hqm
          rcases List.mem_append.1 hev with hev | hev
          · exact List.mem_append_left _ (hq ev hev ps hps q hqm)
          · simp only [List.mem_singleton] at hev
            subst hev
            cases hps
            exact List.mem_append_right _ hqm
        · intro tr htr
          rcases hold tr htr with rfl | he | hs
          · left; left; simp
          · left
            rcases he with he | he
            · exact Or.inl (List.mem_append_left _ he)
            · exact Or.inr he
          · right; exact (stand_congr rfl rfl).2 hs
      · refine ⟨hq, ht, ?_⟩
        intro tr htr
        have hnew : ∀ (p' x' : Nat), (p' = p ∧ x' = x) ∨ p' ∈ (alGet cands x').getD [] →
            Stand { s with hashPools := alSet s.hashPools h (.candidates (voted ++ [p]) (alPush cands x p)) } p' x' h := by
          intro p' x' hc
          unfold Stand
          show match alGet (alSet s.hashPools h (.candidates (voted ++ [p]) (alPush cands x p))) h with
            | some (.candidates _ cands) => p' ∈ (alGet cands x').getD []
            | some (.validated y) => y = x'
            | none => _
          rw [alGet_alSet]
          simp only [↓reduceIte]
          rw [alGet_alPush]
          rcases hc with ⟨rfl, rfl⟩ | hc
          · simp
          · split
            · rename_i e; subst e; exact List.mem_append_left _ hc
            · exact hc
        rcases hold tr htr with rfl | he | hs
        · right; exact hnew p x (Or.inl ⟨rfl, rfl⟩)
        · exact Or.inl he
        · right
          by_cases hk : tr.2.2 = h
          · have hs' := hs
            unfold Stand at hs'
            rw [hk, hg] at hs'
            have := hnew tr.1 tr.2.1 (Or.inr hs')
            rw [hk]; exact this
          · unfold Stand at hs ⊢
            show match alGet (alSet s.hashPools h (.candidates (voted ++ [p]) (alPush cands x p))) tr.2.2 with
              | some (.candidates _ cands) => tr.1 ∈ (alGet cands tr.2.1).getD []
              | some (.validated y) => y = tr.2.1
              | none => ∃ H, s.subjectiveHead = some H ∧ tr.2.2 ≤ staleThreshold H
            rw [alGet_alSet]
            simp only [hk, ↓reduceIte]
            exact hs
    | validated y =>
      simp only
      have hblocked : HInv { s with pendingEvents := s.pendingEvents ++ [.blockPeers [p]], blocked := s.blocked ++ [p] } := by
        refine ⟨?_, ht, ?_⟩
        · intro ev hev ps hps q hqm
          rcases List.mem_append.1 hev with hev | hev
          · exact List.mem_append_left _ (hq ev hev ps hps q hqm)
          · simp only [List.mem_singleton] at hev
            subst hev
            cases hps
            exact List.mem_append_right _ hqm
        · intro tr htr
          rcases hold tr htr with rfl | he | hs
          · left; left; simp
          · left
            rcases he with he | he
            · exact Or.inl (List.mem_append_left _ he)
            · exact Or.inr he
          · right; exact (stand_congr rfl rfl).2 hs
      split
      · rename_i hyx
        have hyx' : y = x := by simpa using hyx
        split
        · exact hblocked
        · refine ⟨?_, ht, ?_⟩
          · intro ev hev ps hps q hqm
            rcases List.mem_append.1 hev with hev | hev
            · exact hq ev hev ps hps q hqm
            · simp only [List.mem_singleton] at hev
              subst hev
              cases hps
          · intro tr htr
            rcases hold tr htr with rfl | he | hs
            · right
              unfold Stand
              show match alGet s.hashPools h with
                | some (.candidates _ cands) => _
                | some (.validated y) => y = x
                | none => _
              rw [hg]; exact hyx'
            · exact Or.inl he
            · right; exact (stand_congr rfl rfl).2 hs
      · exact hblocked

theorem ensurePool_fields (s : State) (h : Nat) :
    (ensurePool s h).pendingEvents = s.pendingEvents ∧ (ensurePool s h).blocked = s.blocked ∧
    (ensurePool s h).announced = s.announced ∧ (ensurePool s h).removed = s.removed := by
  unfold ensurePool; split <;> exact ⟨rfl, rfl, rfl, rfl⟩

theorem ensurePool_announced (s : State) (a : List (Nat × Nat × Nat)) (h : Nat) :
    ensurePool { s with announced := a } h = { ensurePool s h with announced := a } := by
  unfold ensurePool
  show (match alGet s.hashPools h with | some _ => _ | none => _) = _
  cases alGet s.hashPools h <;> rfl

theorem hinv_notify (s : State) (p x h : Nat) (hi : HInv s) : HInv (notify s p x h) := by
  unfold notify
  split
  · exact hi
  · rename_i H hH
    split
    · exact hi
    · rename_i hst
      have h1 : HInv (ensurePool s h) := hinv_ensurePool s h H hH hst hi
      have hf := ensurePool_fields s h
      rw [ensurePool_announced]
      apply hinv_vote
      · exact ensurePool_some s h
      · exact h1.q
      · exact h1.t
      · intro tr htr
        have htr' : tr ∈ (ensurePool s h).announced ++ [(p, x, h)] := by rw [hf.2.2.1]; exact htr
        rcases List.mem_append.1 htr' with htr' | htr'
        · right
          rcases h1.h tr htr' with he | hs
          · exact Or.inl he
          · right; exact (stand_congr rfl rfl).2 hs
        · left; simpa using htr'

theorem stand_removePeer (s : State) (q p x h : Nat) (hne : p ≠ q) (hs : Stand s p x h) :
    Stand (removePeer s q) p x h := by
  unfold Stand at hs ⊢
  show match alGet (s.hashPools.map (fun e => (e.1, removeFromPool q e.2))) h with
    | some (.candidates _ cands) => p ∈ (alGet cands x).getD []
    | some (.validated y) => y = x
    | none => ∃ H, s.subjectiveHead = some H ∧ h ≤ staleThreshold H
  rw [alGet_map]
  cases hg : alGet s.hashPools h with
  | none => simp only [hg] at hs; simpa using hs
  | some pool =>
    cases pool with
    | validated y => simp only [hg] at hs; simpa [removeFromPool] using hs
    | candidates voted cands =>
      simp only [hg] at hs
      simp only [Option.map_some, removeFromPool]
      rw [alGet_map]
      cases hc : alGet cands x with
      | none => simp [hc] at hs
      | some l =>
        simp only [hc, Option.getD_some] at hs
        simp only [Option.map_some, Option.getD_some, List.mem_filter, bne_iff_ne, ne_eq]
        exact ⟨hs, hne⟩

/-- removing a peer that is excused afterwards keeps the invariant -/
theorem hinv_removePeer (s s' : State) (q : Nat) (hi : HInv s)
    (hp : s'.hashPools = (removePeer s q).hashPools) (hh : s'.subjectiveHead = s.subjectiveHead)
    (hev : s'.pendingEvents = s.pendingEvents) (hb : s'.blocked = s.blocked)
    (hr : ∀ r ∈ s.removed, r ∈ s'.removed) (hqu : s'.queue = s.queue) (hw : s'.waiters = s.waiters)
    (han : s'.announced = s.announced) (hex : Excused s' q) : HInv s' := by
  refine ⟨?_, ?_, ?_⟩
  · rw [hev, hb]; exact hi.q
  · rw [hqu, hw]; exact hi.t
  · intro tr htr
    rw [han] at htr
    by_cases hpq : tr.1 = q
    · left; rw [hpq]; exact hex
    · rcases hi.h tr htr with he | hs
      · left
        rcases he with he | he
        · exact Or.inl (by rw [hb]; exact he)
        · exact Or.inr (hr _ he)
      · right
        have := stand_removePeer s q tr.1 tr.2.1 tr.2.2 hpq hs
        unfold Stand at this ⊢
        rw [hp, hh]; exact this

theorem foldl_removePeer_hinv (ps : List Nat) : ∀ (s : State), HInv s → (∀ p ∈ ps, p ∈ s.blocked) →
    HInv (ps.foldl removePeer s) := by
  induction ps with
  | nil => intro s h _; exact h
  | cons p ps ih =>
    intro s h hb
    apply ih
    · exact hinv_removePeer s (removePeer s p) p h rfl rfl rfl rfl (fun r hr => hr) rfl rfl rfl
        (Or.inl (hb p List.mem_cons_self))
    · intro p' hp'; exact hb p' (List.mem_cons_of_mem _ hp')

theorem tryUpdate_fields (s : State) (h : Nat) :
    (tryUpdateSubjectiveHead s h).pendingEvents = s.pendingEvents ∧
    (tryUpdateSubjectiveHead s h).queue = s.queue ∧ (tryUpdateSubjectiveHead s h).waiters = s.waiters := by
  unfold tryUpdateSubjectiveHead
  split
  · exact ⟨rfl, rfl, rfl⟩
  · split
    · exact ⟨rfl, rfl, rfl⟩
    · exact ⟨(evict_fields _ _).2.1, (evict_fields _ _).2.2.2.1, (evict_fields _ _).2.2.2.2.1⟩

theorem evict_ghost (s : State) (hs : List Nat) :
    (evict s hs).blocked = s.blocked ∧ (evict s hs).removed = s.removed := by
  induction hs generalizing s with
  | nil => exact ⟨rfl, rfl⟩
  | cons h hs ih =>
    simp only [evict]
    split
    · exact ih _
    · exact ih _
    · exact ih _

theorem tryUpdate_ghost (s : State) (h : Nat) :
    (tryUpdateSubjectiveHead s h).blocked = s.blocked ∧ (tryUpdateSubjectiveHead s h).removed = s.removed := by
  unfold tryUpdateSubjectiveHead
  split
  · exact ⟨rfl, rfl⟩
  · split
    · exact ⟨rfl, rfl⟩
    · exact evict_ghost _ _

theorem stand_tryUpdate (s : State) (h p x k : Nat) (hs : Stand s p x k) :
    Stand (tryUpdateSubjectiveHead s h) p x k := by
  unfold tryUpdateSubjectiveHead
  split
  · rename_i hnone
    unfold Stand at hs ⊢
    show match alGet s.hashPools k with
      | some (.candidates _ cands) => p ∈ (alGet cands x).getD []
      | some (.validated y) => y = x
      | none => ∃ H, some h = some H ∧ k ≤ staleThreshold H
    cases hg : alGet s.hashPools k with
    | none => simp only [hg, hnone] at hs; obtain ⟨H, h1, _⟩ := hs; cases h1
    | some pool => simp only [hg] at hs ⊢; cases pool <;> exact hs
  · rename_i old hold
    split
    · exact hs
    · rename_i hlt
      simp only
      unfold Stand at hs ⊢
      rw [alGet_evict_pools, (evict_fields _ _).1]
      have hmono : staleThreshold old ≤ staleThreshold h := staleThreshold_mono (by omega)
      by_cases hk : k ∈ List.range' (staleThreshold old) (staleThreshold h + 1 - staleThreshold old)
      · simp only [hk, ↓reduceIte]
        refine ⟨h, rfl, ?_⟩
        simp only [List.mem_range'_1] at hk
        omega
      · simp only [hk, ↓reduceIte]
        show match alGet s.hashPools k with
          | some (.candidates _ cands) => p ∈ (alGet cands x).getD []
          | some (.validated y) => y = x
          | none => ∃ H, some h = some H ∧ k ≤ staleThreshold H
        cases hg : alGet s.hashPools k with
        | none =>
          simp only [hg, hold] at hs
          obtain ⟨H, h1, h2⟩ := hs
          cases h1
          exact ⟨h, rfl, by omega⟩
        | some pool => simp only [hg] at hs ⊢; cases pool <;> exact hs

theorem hinv_tryUpdate (s : State) (h : Nat) (hi : HInv s) : HInv (tryUpdateSubjectiveHead s h) := by
  have hf := tryUpdate_fields s h
  have hg := tryUpdate_ghost s h
  refine ⟨?_, ?_, ?_⟩
  · rw [hf.1, hg.1]; exact hi.q
  · rw [hf.2.1, hf.2.2]; exact hi.t
  · intro tr htr
    rw [tryUpdate_announced] at htr
    rcases hi.h tr htr with he | hs
    · left; unfold Excused at he ⊢; rw [hg.1, hg.2]; exact he
    · right; exact stand_tryUpdate s h _ _ _ hs

theorem hinv_validatePool (s : State) (x h : Nat) (hi : HInv s) : HInv (validatePool s x h) := by
  unfold validatePool
  split
  · rename_i voted cands hg
    simp only
    refine ⟨?_, hi.t, ?_⟩
    · intro ev hev ps hps q hqm
      rcases List.mem_append.1 hev with hev | hev
      · rcases List.mem_append.1 hev with hev | hev
        · exact List.mem_append_left _ (hi.q ev hev ps hps q hqm)
        · split at hev
          · cases hev
          · simp only [List.mem_singleton] at hev; subst hev; cases hps
      · split at hev
        · cases hev
        · simp only [List.mem_singleton] at hev
          subst hev
          simp only [Ev.blockPeers.injEq] at hps
          subst hps
          exact List.mem_append_right _ hqm
    · intro tr htr
      rcases hi.h tr htr with he | hs
      · left
        rcases he with he | he
        · exact Or.inl (List.mem_append_left _ he)
        · exact Or.inr he
      · by_cases hk : tr.2.2 = h
        · unfold Stand at hs
          rw [hk, hg] at hs
          by_cases hx : tr.2.1 = x
          · right
            unfold Stand
            show match alGet (alSet s.hashPools h (Pool.validated x)) tr.2.2 with
              | some (.candidates _ cands) => _
              | some (.validated y) => y = tr.2.1
              | none => _
            rw [alGet_alSet, hk]
            simp only [↓reduceIte]
            exact hx.symm
          · left; left
            apply List.mem_append_right
            simp only [List.mem_flatMap]
            cases hc : alGet cands tr.2.1 with
            | none => simp [hc] at hs
            | some l =>
              simp only [hc, Option.getD_some] at hs
              exact ⟨(tr.2.1, l), mem_alRemove.2 ⟨alGet_mem hc, hx⟩, hs⟩
        · right
          unfold Stand at hs ⊢
          show match alGet (alSet s.hashPools h (Pool.validated x)) tr.2.2 with
            | some (.candidates _ cands) => tr.1 ∈ (alGet cands tr.2.1).getD []
            | some (.validated y) => y = tr.2.1
            | none => ∃ H, s.subjectiveHead = some H ∧ tr.2.2 ≤ staleThreshold H
          rw [alGet_alSet]
          simp only [hk, ↓reduceIte]
          exact hs
  · exact hi
  · exact hi

theorem hinv_pollLoop : ∀ (fuel : Nat) (s : State), HInv s → HInv (pollLoop fuel s).1 := by
  intro fuel
  induction fuel with
  | zero => intro s h; exact h
  | succ fuel ih =>
    intro s hi
    unfold pollLoop
    split
    · rename_i ev rest hpe
      have h0 : HInv { s with pendingEvents := rest } := by
        refine ⟨?_, hi.t, ?_⟩
        · intro ev' hev'
          exact hi.q ev' (by rw [hpe]; exact List.mem_cons_of_mem _ hev')
        · intro tr htr
          rcases hi.h tr htr with he | hs
          · exact Or.inl he
          · right; exact (stand_congr rfl rfl).2 hs
      cases ev with
      | addPeers ps => exact h0
      | blockPeers ps =>
        apply foldl_removePeer_hinv ps _ h0
        intro p hp
        exact hi.q _ (by rw [hpe]; exact List.mem_cons_self) ps rfl p hp
    · rename_i hpe
      simp only
      have hgood : ∀ tk, tk ∈ (pollNext s.stored s.queue s.waiters).1 ∨ tk ∈ (pollNext s.stored s.queue s.waiters).2.1 →
          GoodTask tk := fun tk htk => hi.t tk (pollNext_mem _ _ _ tk htk)
      have h0 : HInv { s with queue := (pollNext s.stored s.queue s.waiters).1,
                              waiters := (pollNext s.stored s.queue s.waiters).2.1 } := by
        refine ⟨hi.q, hgood, ?_⟩
        intro tr htr
        rcases hi.h tr htr with he | hs
        · exact Or.inl he
        · right; exact (stand_congr rfl rfl).2 hs
      split
      · exact h0
      · rename_i height hash hres
        apply hinv_validatePool
        apply hinv_tryUpdate
        refine ⟨h0.q, h0.t, ?_⟩
        intro tr htr
        rcases h0.h tr htr with he | hs
        · exact Or.inl he
        · right; exact (stand_congr rfl rfl).2 hs
      · rename_i height hres
        exact absurd rfl ((hi.t _ (Or.inl ((pollNext_fail _ _ _ height).1 hres))).1 height)
      · rename_i height hres
        exact absurd rfl ((hi.t _ (Or.inl ((pollNext_fail _ _ _ height).2 hres))).2 height)

/-- no header task is made to fail -/
def NoFail : Event → Prop
  | .taskTimeout _ => False
  | .taskStoreErr _ => False
  | _ => True

theorem hinv_step (s : State) (e : Event) (hi : HInv s) (hn : NoFail e) : HInv (step s e).1 := by
  cases e with
  | notify p x ht => exact hinv_notify s p x ht hi
  | removePeer p =>
    exact hinv_removePeer s _ p hi rfl rfl rfl rfl (fun r hr => List.mem_append_left _ hr) rfl rfl rfl
      (Or.inr (by show p ∈ s.removed ++ [p]; simp))
  | poll => exact hinv_pollLoop _ s hi
  | store ht x =>
    refine ⟨hi.q, ?_, ?_⟩
    · intro tk htk
      rcases htk with htk | htk
      · rcases List.mem_append.1 htk with htk | htk
        · exact hi.t tk (Or.inl htk)
        · exact hi.t tk (Or.inr htk)
      · cases htk
    · intro tr htr
      rcases hi.h tr htr with he | hs
      · exact Or.inl he
      · right; exact (stand_congr rfl rfl).2 hs
  | taskTimeout ht => cases hn
  | taskStoreErr ht => cases hn

theorem hinv_run (evs : List Event) : ∀ s, HInv s → (∀ e ∈ evs, NoFail e) → HInv (run s evs) := by
  induction evs with
  | nil => intro s h _; exact h
  | cons e evs ih =>
    intro s h hn
    exact ih _ (hinv_step s e h (hn e List.mem_cons_self)) (fun e' he' => hn e' (List.mem_cons_of_mem _ he'))

end Lumina.Proofs.Pools

/-
  Lemmas about the remaining `BlockRanges` operations of `Lumina/Model/Ranges.lean`:
  cardinality / `len`, the abstract value `heights`, `pop_head` / `pop_tail`, `left_of` /
  `right_of`, `edges`.  (`headn` / `tailn` / `partitions` are in `RangesTrunc.lean`.)
  Core Lean only.
-/
import Lumina.Proofs.Ranges

namespace Lumina.Proofs.Ranges
open Lumina.Model.Ranges hiding Inv

local notation "RInv" => Lumina.Model.Ranges.Inv

attribute [local simp] ok_bind err_bind map_ok map_err pure_eq throw_eq

/-! ### cardinality, `len`, `heights` -/

/-- number of heights of a value (for `Inv` values: the cardinality of the set, see
    `card_eq_length_heights`, `mem_heights`, `heights_sorted`) -/
def card (rs : Ranges) : Nat := (rs.map (fun r => r.2 + 1 - r.1)).sum

@[simp] theorem card_nil : card [] = 0 := rfl

@[simp] theorem card_cons (r : Range) (rs : Ranges) : card (r :: rs) = (r.2 + 1 - r.1) + card rs := by
  simp [card]

theorem card_append (a b : Ranges) : card (a ++ b) = card a + card b := by
  induction a with
  | nil => simp
  | cons r a ih => simp [ih]; omega

theorem card_eq_length_heights (rs : Ranges) : (heights rs).length = card rs := by
  induction rs with
  | nil => rfl
  | cons r rs ih =>
    simp only [heights, List.flatMap_cons, List.length_append, List.length_range', card_cons] at ih ⊢
    rw [ih]

theorem mem_heights (rs : Ranges) (h : Nat) : h ∈ heights rs ↔ mem rs h := by
  simp only [heights, List.mem_flatMap, List.mem_range'_1, mem]
  constructor
  · rintro ⟨r, hr, h1, h2⟩; exact ⟨r, hr, h1, by omega⟩
  · rintro ⟨r, hr, h1, h2⟩; exact ⟨r, hr, h1, by omega⟩

/-- the heights of an `Inv` value are listed in strictly ascending order (hence without repeats) -/
theorem heights_sorted : ∀ {rs : Ranges}, RInv rs → (heights rs).Pairwise (· < ·)
  | [], _ => List.Pairwise.nil
  | r :: rs, hi => by
    obtain ⟨h1, hv, hrs⟩ := inv_cons.1 hi
    have ih := heights_sorted hrs
    have e : heights (r :: rs) = List.range' r.1 (r.2 + 1 - r.1) ++ heights rs := by
      simp [heights]
    rw [e, List.pairwise_append]
    refine ⟨List.pairwise_lt_range' 1, ih, ?_⟩
    intro a ha b hb
    rw [List.mem_range'_1] at ha
    obtain ⟨x, hx, hx1, hx2⟩ := (mem_heights rs b).1 hb
    have := h1 x hx
    omega

/-- the heights of an `Inv` value fit between its lowest start and `u64::MAX` -/
theorem card_bound : ∀ {rs : Ranges}, RInv rs → ∀ lo, (∀ r ∈ rs, lo ≤ r.1) → lo ≤ U64_MAX + 1 →
    lo + card rs ≤ U64_MAX + 1
  | [], _, lo, _, h => by simpa using h
  | r :: rs, hi, lo, hlo, _ => by
    obtain ⟨h1, hv, hrs⟩ := inv_cons.1 hi
    unfold ValidR at hv
    have ih := card_bound hrs (r.2 + 1) (fun x hx => by have := h1 x hx; omega) (by omega)
    have := hlo r (by simp)
    rw [card_cons]
    omega

theorem card_le {rs : Ranges} (hi : RInv rs) : card rs ≤ U64_MAX := by
  have := card_bound hi 1 (fun r hr => (inv_validR hi hr).1) (by decide)
  omega

theorem card_eq_zero_iff {rs : Ranges} (hi : RInv rs) : card rs = 0 ↔ rs = [] := by
  cases rs with
  | nil => simp
  | cons r rs =>
    have hv := inv_validR hi (r := r) (by simp)
    unfold ValidR at hv
    simp only [card_cons, reduceCtorEq, iff_false]
    omega

theorem rangeLen_ok {r : Range} (hv : ValidR r) : Range.len r = .ok (r.2 + 1 - r.1) := by
  unfold ValidR at hv
  have h1 : checkedSub r.2 r.1 = some (r.2 - r.1) := by simp [checkedSub, hv.2.1]
  have h2 : r.2 - r.1 + 1 ≤ U64_MAX := by omega
  simp only [Range.len, h1, addU64, h2, ↓reduceIte]
  congr 1; omega

theorem lenGo_spec : ∀ {rs : Ranges} (acc : Nat), (∀ r ∈ rs, ValidR r) → acc + card rs ≤ U64_MAX →
    lenGo acc rs = .ok (acc + card rs)
  | [], acc, _, _ => by simp [lenGo]
  | r :: rs, acc, hv, hb => by
    rw [card_cons] at hb
    have h1 : acc + (r.2 + 1 - r.1) ≤ U64_MAX := by omega
    simp only [lenGo, rangeLen_ok (hv r (by simp)), ok_bind, addU64, h1, ↓reduceIte]
    rw [lenGo_spec _ (fun x hx => hv x (List.mem_cons_of_mem _ hx)) (by omega), card_cons]
    congr 1; omega

/-- `len` never overflows on an `Inv` value and returns the cardinality -/
theorem len_spec {rs : Ranges} (hi : RInv rs) : len rs = .ok (card rs) := by
  have := lenGo_spec 0 (fun r hr => inv_validR hi hr) (by have := card_le hi; omega)
  simpa [len] using this

/-! ### `pop_tail` / `pop_head` -/

theorem popTail_nil : popTail [] = .ok (none, []) := rfl

/-- `pop_tail` returns the least member and removes exactly it -/
theorem popTail_spec {r : Range} {rs : Ranges} (hi : RInv (r :: rs)) :
    ∃ rs', popTail (r :: rs) = .ok (some r.1, rs') ∧ RInv rs' ∧
      (∀ h, mem rs' h ↔ mem (r :: rs) h ∧ h ≠ r.1) ∧ card rs' + 1 = card (r :: rs) := by
  obtain ⟨h1, hv, hrs⟩ := inv_cons.1 hi
  have hvv := hv
  unfold ValidR at hvv
  by_cases hone : r.1 = r.2
  · refine ⟨rs, ?_, hrs, ?_, ?_⟩
    · have : r.2 + 1 - r.1 = 1 := by omega
      simp [popTail, rangeLen_ok hv, this]
    · intro h
      rw [mem_cons]
      constructor
      · intro hm
        refine ⟨Or.inr hm, ?_⟩
        obtain ⟨x, hx, hx1, hx2⟩ := hm
        have := h1 x hx; omega
      · rintro ⟨hm | hm, hne⟩
        · omega
        · exact hm
    · rw [card_cons]; omega
  · refine ⟨(r.1 + 1, r.2) :: rs, ?_, ?_, ?_, ?_⟩
    · have h2 : ¬ (r.2 + 1 - r.1 = 1) := by omega
      have h3 : r.1 + 1 ≤ U64_MAX := by omega
      simp [popTail, rangeLen_ok hv, h2, addU64, h3]
    · exact inv_cons.2 ⟨h1, ⟨by show 1 ≤ r.1 + 1; omega, by show r.1 + 1 ≤ r.2; omega, hvv.2.2⟩, hrs⟩
    · intro h
      rw [mem_cons, mem_cons]
      constructor
      · rintro (⟨h2, h3⟩ | hm)
        · exact ⟨Or.inl ⟨by simp only at h2; omega, h3⟩, by simp only at h2; omega⟩
        · refine ⟨Or.inr hm, ?_⟩
          obtain ⟨x, hx, hx1, hx2⟩ := hm
          have := h1 x hx; omega
      · rintro ⟨⟨h2, h3⟩ | hm, hne⟩
        · exact Or.inl ⟨by show r.1 + 1 ≤ h; omega, h3⟩
        · exact Or.inr hm
    · simp only [card_cons]; omega

theorem popHead_nil : popHead [] = .ok (none, []) := rfl

/-- `pop_head` returns the greatest member and removes exactly it -/
theorem popHead_spec {r : Range} {ys : Ranges} (hi : RInv (ys ++ [r])) :
    ∃ rs', popHead (ys ++ [r]) = .ok (some r.2, rs') ∧ RInv rs' ∧
      (∀ h, mem rs' h ↔ mem (ys ++ [r]) h ∧ h ≠ r.2) ∧ card rs' + 1 = card (ys ++ [r]) := by
  obtain ⟨hys, hr, hc⟩ := inv_append.1 hi
  have hv : ValidR r := inv_singleton.1 hr
  have hvv := hv
  unfold ValidR at hvv
  have hlast : (ys ++ [r]).getLast? = some r := List.getLast?_concat
  have hdl : (ys ++ [r]).dropLast = ys := List.dropLast_concat
  by_cases hone : r.1 = r.2
  · refine ⟨ys, ?_, hys, ?_, ?_⟩
    · have : r.2 + 1 - r.1 = 1 := by omega
      simp [popHead, hlast, hdl, rangeLen_ok hv, this]
    · intro h
      rw [mem_append, mem_singleton]
      constructor
      · intro hm
        refine ⟨Or.inl hm, ?_⟩
        obtain ⟨x, hx, hx1, hx2⟩ := hm
        have := hc x hx r (by simp); omega
      · rintro ⟨hm | hm, hne⟩
        · exact hm
        · omega
    · rw [card_append]; simp; omega
  · refine ⟨ys ++ [(r.1, r.2 - 1)], ?_, ?_, ?_, ?_⟩
    · have h2 : ¬ (r.2 + 1 - r.1 = 1) := by omega
      have h3 : 1 ≤ r.2 := by omega
      simp [popHead, hlast, hdl, rangeLen_ok hv, h2, subU64, h3]
    · refine inv_append.2 ⟨hys, inv_singleton.2 ⟨hvv.1, by show r.1 ≤ r.2 - 1; omega, by show r.2 - 1 ≤ U64_MAX; omega⟩, ?_⟩
      intro x hx y hy
      simp only [List.mem_singleton] at hy
      subst hy
      exact hc x hx r (by simp)
    · intro h
      rw [mem_append, mem_append, mem_singleton, mem_singleton]
      constructor
      · rintro (hm | ⟨h2, h3⟩)
        · refine ⟨Or.inl hm, ?_⟩
          obtain ⟨x, hx, hx1, hx2⟩ := hm
          have := hc x hx r (by simp); omega
        · simp only at h2 h3
          exact ⟨Or.inr ⟨h2, by omega⟩, by omega⟩
      · rintro ⟨hm | ⟨h2, h3⟩, hne⟩
        · exact Or.inl hm
        · exact Or.inr ⟨h2, by show h ≤ r.2 - 1; omega⟩
    · simp only [card_append, card_cons, card_nil]; omega

/-! ### `right_of` / `left_of` -/

theorem valid_point {h : Nat} (hh : 1 ≤ h) : Range.valid (h, h) = true := by
  rw [valid_iff]; exact ⟨hh, Nat.le_refl _⟩

/-- `right_of`: the least member above `h` -/
theorem rightOfGo_spec {h : Nat} (hh : 1 ≤ h) : ∀ {rs : Ranges}, RInv rs →
    ∃ o, rightOfGo h rs = .ok o ∧ (o = none → ∀ x, mem rs x → x ≤ h) ∧
      (∀ y, o = some y → mem rs y ∧ h < y ∧ ∀ x, mem rs x → h < x → y ≤ x)
  | [], _ => ⟨none, rfl, fun _ x hx => absurd hx (mem_nil x), fun y hy => by cases hy⟩
  | r :: rs, hi => by
    obtain ⟨h1, hv, hrs⟩ := inv_cons.1 hi
    have hvv := hv
    unfold ValidR at hvv
    by_cases c1 : h < r.1
    · refine ⟨some r.1, by simp [rightOfGo, isRightOf_ok hv.valid (valid_point hh), c1],
        (fun hc => nomatch hc), ?_⟩
      intro y hy
      cases hy
      refine ⟨⟨r, by simp, Nat.le_refl _, hvv.2.1⟩, c1, ?_⟩
      rintro x ⟨z, hz, hz1, hz2⟩ _
      have := inv_head_le hi z hz
      omega
    · by_cases c2 : r.1 ≤ h ∧ h ≤ r.2 ∧ r.2 ≠ h
      · have h3 : h + 1 ≤ U64_MAX := by omega
        refine ⟨some (h + 1), ?_, (fun hc => nomatch hc), ?_⟩
        · simp [rightOfGo, isRightOf_ok hv.valid (valid_point hh), c1, Range.contains, c2.1, c2.2.1,
            c2.2.2, addU64, h3]
        · intro y hy
          cases hy
          exact ⟨⟨r, by simp, by omega, by omega⟩, by omega, fun x _ hx => by omega⟩
      · obtain ⟨o, ho, hn, hs⟩ := rightOfGo_spec hh hrs
        have hle : r.2 ≤ h := by omega
        refine ⟨o, ?_, ?_, ?_⟩
        · have c3 : (Range.contains r h && r.2 != h) = false := by
            simp only [Range.contains, Bool.and_eq_false_iff, decide_eq_false_iff_not, bne_eq_false_iff_eq]
            by_cases c : r.2 = h
            · exact Or.inr c
            · left; by_cases c' : r.1 ≤ h
              · right; omega
              · left; exact c'
          simp [rightOfGo, isRightOf_ok hv.valid (valid_point hh), c1, c3, ho]
        · intro hc x hx
          rcases (mem_cons _ _ _).1 hx with hx | hx
          · omega
          · exact hn hc x hx
        · intro y hy
          obtain ⟨k1, k2, k3⟩ := hs y hy
          refine ⟨(mem_cons _ _ _).2 (Or.inr k1), k2, ?_⟩
          intro x hx hlt
          rcases (mem_cons _ _ _).1 hx with hx | hx
          · omega
          · exact k3 x hx hlt

theorem rightOf_spec {rs : Ranges} {h : Nat} (hi : RInv rs) (hh : 1 ≤ h) :
    ∃ o, rightOf rs h = .ok o ∧ (o = none → ∀ x, mem rs x → x ≤ h) ∧
      (∀ y, o = some y → mem rs y ∧ h < y ∧ ∀ x, mem rs x → h < x → y ≤ x) :=
  rightOfGo_spec hh hi

theorem mem_reverse (rs : Ranges) (h : Nat) : mem rs.reverse h ↔ mem rs h := by
  simp [mem]

/-- `left_of` loop on the reversed list -/
theorem leftOfGo_spec {h : Nat} (hh : 1 ≤ h) : ∀ {l : Ranges}, RInv l.reverse →
    ∃ o, leftOfGo h l = .ok o ∧ (o = none → ∀ x, mem l x → h ≤ x) ∧
      (∀ y, o = some y → mem l y ∧ y < h ∧ ∀ x, mem l x → x < h → x ≤ y)
  | [], _ => ⟨none, rfl, fun _ x hx => absurd hx (mem_nil x), fun y hy => by cases hy⟩
  | r :: l, hi => by
    rw [List.reverse_cons] at hi
    obtain ⟨hl, hr, hc⟩ := inv_append.1 hi
    have hv : ValidR r := inv_singleton.1 hr
    have hvv := hv
    unfold ValidR at hvv
    by_cases c1 : r.2 < h
    · refine ⟨some r.2, by simp [leftOfGo, isLeftOf_ok hv.valid (valid_point hh), c1],
        (fun hc => nomatch hc), ?_⟩
      intro y hy
      cases hy
      refine ⟨⟨r, by simp, hvv.2.1, Nat.le_refl _⟩, c1, ?_⟩
      rintro x ⟨z, hz, hz1, hz2⟩ _
      have := inv_le_last hi z (by
        rcases List.mem_cons.1 hz with rfl | hz
        · simp
        · exact List.mem_append_left _ (List.mem_reverse.2 hz))
      omega
    · by_cases c2 : r.1 ≤ h ∧ h ≤ r.2 ∧ r.1 ≠ h
      · refine ⟨some (h - 1), ?_, (fun hc => nomatch hc), ?_⟩
        · simp [leftOfGo, isLeftOf_ok hv.valid (valid_point hh), c1, Range.contains, c2.1, c2.2.1,
            c2.2.2, subU64, hh]
        · intro y hy
          cases hy
          exact ⟨⟨r, by simp, by omega, by omega⟩, by omega, fun x _ hx => by omega⟩
      · obtain ⟨o, ho, hn, hs⟩ := leftOfGo_spec hh hl
        have hle : h ≤ r.1 := by omega
        refine ⟨o, ?_, ?_, ?_⟩
        · have c3 : (Range.contains r h && r.1 != h) = false := by
            simp only [Range.contains, Bool.and_eq_false_iff, decide_eq_false_iff_not, bne_eq_false_iff_eq]
            by_cases c : r.1 = h
            · exact Or.inr c
            · left; left; omega
          simp [leftOfGo, isLeftOf_ok hv.valid (valid_point hh), c1, c3, ho]
        · intro hc x hx
          rcases (mem_cons _ _ _).1 hx with hx | hx
          · omega
          · exact hn hc x hx
        · intro y hy
          obtain ⟨k1, k2, k3⟩ := hs y hy
          refine ⟨(mem_cons _ _ _).2 (Or.inr k1), k2, ?_⟩
          intro x hx hlt
          rcases (mem_cons _ _ _).1 hx with hx | hx
          · omega
          · exact k3 x hx hlt

/-- `left_of`: the greatest member below `h` -/
theorem leftOf_spec {rs : Ranges} {h : Nat} (hi : RInv rs) (hh : 1 ≤ h) :
    ∃ o, leftOf rs h = .ok o ∧ (o = none → ∀ x, mem rs x → h ≤ x) ∧
      (∀ y, o = some y → mem rs y ∧ y < h ∧ ∀ x, mem rs x → x < h → x ≤ y) := by
  obtain ⟨o, h1, h2, h3⟩ := leftOfGo_spec hh (l := rs.reverse) (by rw [List.reverse_reverse]; exact hi)
  refine ⟨o, h1, fun hc x hx => h2 hc x ((mem_reverse rs x).2 hx), ?_⟩
  intro y hy
  obtain ⟨k1, k2, k3⟩ := h3 y hy
  exact ⟨(mem_reverse rs y).1 k1, k2, fun x hx => k3 x ((mem_reverse rs x).2 hx)⟩

/-! ### `edges` -/

theorem edgesGo_spec : ∀ {rs acc : Ranges}, RInv acc → (∀ r ∈ rs, ValidR r) →
    ∃ e, edgesGo rs acc = .ok e ∧ RInv e ∧ ∀ h, mem e h ↔ mem acc h ∨ ∃ r ∈ rs, h = r.1 ∨ h = r.2
  | [], acc, ha, _ => ⟨acc, rfl, ha, fun h => by simp⟩
  | r :: rs, acc, ha, hv => by
    have hvr := hv r (by simp)
    unfold ValidR at hvr
    obtain ⟨a1, e1, i1, m1⟩ := insertRelaxed_spec (r := (r.1, r.1)) ha ⟨hvr.1, Nat.le_refl _, by show r.1 ≤ U64_MAX; omega⟩
    obtain ⟨a2, e2, i2, m2⟩ := insertRelaxed_spec (r := (r.2, r.2)) i1 ⟨by show 1 ≤ r.2; omega, Nat.le_refl _, hvr.2.2⟩
    obtain ⟨e, e3, i3, m3⟩ := edgesGo_spec (rs := rs) i2 (fun x hx => hv x (List.mem_cons_of_mem _ hx))
    refine ⟨e, by simp [edgesGo, e1, e2, expectOk_ok, e3], i3, ?_⟩
    intro h
    rw [m3, m2, m1]
    simp only [List.mem_cons, exists_eq_or_imp]
    constructor
    · rintro (((h1 | h1) | h1) | h1)
      · exact Or.inl h1
      · exact Or.inr (Or.inl (Or.inl (by omega)))
      · exact Or.inr (Or.inl (Or.inr (by omega)))
      · exact Or.inr (Or.inr h1)
    · rintro (h1 | (h1 | h1) | h1)
      · exact Or.inl (Or.inl (Or.inl h1))
      · exact Or.inl (Or.inl (Or.inr ⟨by show r.1 ≤ h; omega, by show h ≤ r.1; omega⟩))
      · exact Or.inl (Or.inr ⟨by show r.2 ≤ h; omega, by show h ≤ r.2; omega⟩)
      · exact Or.inr h1

/-- `edges`: the set of range starts and ends -/
theorem edges_spec {rs : Ranges} (hi : RInv rs) :
    ∃ e, edges rs = .ok e ∧ RInv e ∧ ∀ h, mem e h ↔ ∃ r ∈ rs, h = r.1 ∨ h = r.2 := by
  obtain ⟨e, h1, h2, h3⟩ := edgesGo_spec (rs := rs) inv_nil (fun r hr => inv_validR hi hr)
  exact ⟨e, h1, h2, fun h => by rw [h3]; simp [mem_nil]⟩

/-- two ranges of an `Inv` list are equal or separated by a gap -/
theorem inv_trichotomy : ∀ {rs : Ranges}, RInv rs → ∀ x ∈ rs, ∀ y ∈ rs,
    x = y ∨ x.2 + 1 < y.1 ∨ y.2 + 1 < x.1
  | [], _, x, hx, _, _ => by cases hx
  | r :: rs, hi, x, hx, y, hy => by
    obtain ⟨h1, _, hrs⟩ := inv_cons.1 hi
    rcases List.mem_cons.1 hx with hxr | hxs
    · rcases List.mem_cons.1 hy with hyr | hys
      · exact Or.inl (hxr.trans hyr.symm)
      · exact Or.inr (Or.inl (hxr ▸ h1 y hys))
    · rcases List.mem_cons.1 hy with hyr | hys
      · exact Or.inr (Or.inr (hyr ▸ h1 x hxs))
      · exact inv_trichotomy hrs x hxs y hys

/-- for an `Inv` value the starts and ends of ranges are exactly the members with a non-member
    neighbour: `edges` is determined by the set -/
theorem edge_iff_boundary {rs : Ranges} (hi : RInv rs) (h : Nat) :
    (∃ r ∈ rs, h = r.1 ∨ h = r.2) ↔ mem rs h ∧ (¬ mem rs (h - 1) ∨ ¬ mem rs (h + 1)) := by
  constructor
  · rintro ⟨r, hr, he⟩
    have hv := inv_validR hi hr
    unfold ValidR at hv
    refine ⟨⟨r, hr, by omega, by omega⟩, ?_⟩
    rcases he with he | he
    · left
      rintro ⟨x, hx, h1, h2⟩
      rcases inv_trichotomy hi x hx r hr with rfl | c | c <;> omega
    · right
      rintro ⟨x, hx, h1, h2⟩
      rcases inv_trichotomy hi x hx r hr with rfl | c | c <;> omega
  · rintro ⟨⟨r, hr, h1, h2⟩, hb⟩
    refine ⟨r, hr, ?_⟩
    by_cases c1 : h = r.1
    · exact Or.inl c1
    · by_cases c2 : h = r.2
      · exact Or.inr c2
      · exfalso
        rcases hb with hb | hb
        · exact hb ⟨r, hr, by omega, by omega⟩
        · exact hb ⟨r, hr, by omega, by omega⟩

end Lumina.Proofs.Ranges

/-
  C33 — Data sampling marks a block sampled only after full success.

  The property as a monitor over the stimuli (`Ev`: in particular what the simulated network
  answered to each sample request) and the sampler's observable actions (`Tok`).

  * `metaUpd h cids`  (store.update_sampling_metadata): the sampler chose `cids` for block `h`;
      the monitor remembers them as recorded for `h` and opens a block record with all of them
      pending.  They must be distinct, inside the square of `h`'s header, and number
      `min (width², 16)`.
  * `started h w shares` (NodeEvent::SamplingStarted): `w` is the header's width and `shares` are
      exactly the chosen ones.
  * `req h shares` (the bitswap requests): every requested share is already recorded in `h`'s
      sampling metadata, and the requests are exactly the chosen shares.
  * `answer h p ok/timeout` (stimulus): the network's verdict for one share.
  * `result h timedOut` (NodeEvent::SamplingResult): nothing pending; `timedOut` iff some share timed out.
  * `mark h` (store.mark_as_sampled): only directly after a `result h false`, i.e. every chosen
      share of `h` was answered successfully.

  Only the vocabulary (`Ev`, `Tok`, `Share`) is imported from the model file.
-/
import Lumina.Model.Daser

namespace Lumina.Spec.C33
open Lumina.Model.Daser (Ev Tok Share)

/-- a block being sampled -/
structure Blk where
  height : Nat
  chosen : List Share
  /-- chosen shares the network has not answered yet -/
  pending : List Share
  /-- some share of this block timed out -/
  anyTimeout : Bool

structure View where
  /-- square width of the header at each height -/
  width : Nat → Nat
  /-- the sampling metadata recorded in the store per height -/
  recorded : Nat → List Share
  blocks : List Blk
  /-- the block whose sampling just finished with every share retrieved -/
  justOk : Option Nat
  connected : Bool

/-- distinct, inside the square, `min (w², 16)` many -/
def sharesOK (w : Nat) (shares : List Share) : Bool :=
  decide shares.Nodup && shares.all (fun p => decide (p.1 < w) && decide (p.2 < w))
  && shares.length == min (w * w) 16

def sameSet (a b : List Share) : Bool := a.all (fun p => b.contains p) && b.all (fun p => a.contains p)

def findBlk (v : View) (h : Nat) : Option Blk := v.blocks.find? (fun b => b.height == h)

def setRecorded (f : Nat → List Share) (h : Nat) (l : List Share) : Nat → List Share :=
  fun x => if x == h then l else f x

/-- appending what is not there yet (the store never forgets a CID of a stored header) -/
def addAll (old new : List Share) : List Share := new.foldl (fun acc p => if acc.contains p then acc else acc ++ [p]) old

def applyEv (v : View) (ev : Ev) (rejected : Bool) : View :=
  match ev with
  | .answer h p to =>
    { v with blocks := v.blocks.map (fun b =>
        if b.height == h && b.pending.contains p then
          { b with pending := b.pending.erase p, anyTimeout := b.anyTimeout || to }
        else b) }
  | .peers n =>
    if v.connected && n == 0 then { v with blocks := [], connected := false }
    else if !v.connected && n != 0 then { v with connected := true }
    else v
  | .remove h => if rejected then v else { v with recorded := setRecorded v.recorded h [] }
  | _ => v

def onTok (v : View) : Tok → Option View
  | .metaUpd h cids =>
    if sharesOK (v.width h) cids && (findBlk v h).isNone then
      some { v with recorded := setRecorded v.recorded h (addAll (v.recorded h) cids),
                    blocks := v.blocks ++ [{ height := h, chosen := cids, pending := cids, anyTimeout := false }] }
    else none
  | .started h w shares =>
    match findBlk v h with
    | none => none
    | some b => if w == v.width h && sameSet shares b.chosen && sharesOK w shares then some v else none
  | .req h shares =>
    match findBlk v h with
    | none => none
    | some b =>
      if sameSet shares b.chosen && decide shares.Nodup && shares.all (fun p => (v.recorded h).contains p) then some v
      else none
  | .result h to =>
    match findBlk v h with
    | none => none
    | some b =>
      if b.pending.isEmpty && to == b.anyTimeout then
        some { v with blocks := v.blocks.filter (fun b => b.height != h), justOk := if to then none else some h }
      else none
  | .mark h => if v.justOk == some h then some { v with justOk := none } else none
  | .fatal => some { v with blocks := [], justOk := none, connected := false }
  | _ => some v

def walk (v : View) : List Tok → Option View
  | [] => some v
  | t :: ts => match onTok v t with
    | none => none
    | some v' => walk v' ts

def specOK (v : View) (ev : Ev) (toks : List Tok) : Bool :=
  (walk (applyEv v ev (toks == [Tok.storeErr])) toks).isSome

/-- the check for a stimulus that is an answer which is neither a sample nor a timeout: the monitor's picture is
    unchanged (the share stays pending: it was not retrieved), the actions are walked as usual -/
def specBadAnswer (v : View) (toks : List Tok) : Bool := (walk v toks).isSome

def firstBad (v : View) : List Tok → Option Tok
  | [] => none
  | t :: ts => match onTok v t with
    | none => some t
    | some v' => firstBad v' ts

/-- `random_indexes` alone: its output for width `w` -/
def specIndexes (w : Nat) (out : List Share) : Bool := sharesOK w out

end Lumina.Spec.C33

/-
  C15 — Shwap identifiers and CIDs are bijective over valid ids.

  The property as decidable checkers over observed results, independent of the model.  The numbers
  (8, 10, 12, 39, 37 bytes; codecs 0x7800/0x7810/0x7820; multihash codes 0x7801/0x7811/0x7821;
  2^64, 2^16) are the property's own; `Props/C15.lean` ties them to the generated constants.
-/
import Lumina.Spec.C14     -- `validRaw`: the two accepted namespace shapes (import-free)

namespace Lumina.Spec.C15
open Lumina.Util

inductive Kind where
  | eds | row | sample | rowNsData | nsData
  deriving DecidableEq, Repr

/-- an identifier, abstractly: block height, row index, column index, namespace
    (fields a kind does not have are 0 / empty) -/
structure Id where
  kind : Kind
  height : Nat
  row : Nat
  col : Nat
  ns : Bytes
  deriving DecidableEq, Repr

def Kind.hasRow : Kind → Bool
  | .row | .sample | .rowNsData => true
  | _ => false
def Kind.hasCol : Kind → Bool
  | .sample => true
  | _ => false
def Kind.hasNs : Kind → Bool
  | .rowNsData | .nsData => true
  | _ => false

/-- encoded size in bytes -/
def Kind.size : Kind → Nat
  | .eds => 8 | .row => 10 | .sample => 12 | .rowNsData => 39 | .nsData => 37

/-- **valid id**: height at least 1 (and a u64), u16 indices, a valid namespace -/
def Id.valid (id : Id) : Bool :=
  decide (1 ≤ id.height) && decide (id.height < 2 ^ 64) &&
  (if id.kind.hasRow then decide (id.row < 2 ^ 16) else id.row == 0) &&
  (if id.kind.hasCol then decide (id.col < 2 ^ 16) else id.col == 0) &&
  (if id.kind.hasNs then Lumina.Spec.C14.validRaw id.ns else id.ns == [])

/-- value of a big-endian byte string -/
def beVal : Bytes → Nat
  | [] => 0
  | b :: r => b.toNat * 256 ^ r.length + beVal r

/-- the wire layout: height (8, big endian) ‖ row (2) ‖ column (2) ‖ namespace (29), each part
    present only for the kinds that have it; `none` for wrong length, zero height, invalid namespace -/
def parse (k : Kind) (buf : Bytes) : Option Id :=
  if buf.length ≠ k.size then none
  else
    let h := beVal (buf.take 8)
    if h = 0 then none
    else
      let row := if k.hasRow then beVal ((buf.drop 8).take 2) else 0
      let col := if k.hasCol then beVal ((buf.drop 10).take 2) else 0
      let ns := if k.hasNs then buf.drop (if k.hasRow then 10 else 8) else []
      if k.hasNs && !Lumina.Spec.C14.validRaw ns then none
      else some ⟨k, h, row, col, ns⟩

/-- the CID content codec and multihash code of the kinds that have a CID -/
def Kind.cidCodes : Kind → Option (Nat × Nat)
  | .row => some (0x7800, 0x7801)
  | .sample => some (0x7810, 0x7811)
  | .rowNsData => some (0x7820, 0x7821)
  | _ => none

/-- observed CID: version, codec, multihash code, digest -/
structure CidObs where
  version : Nat
  codec : Nat
  code : Nat
  digest : Bytes
  deriving DecidableEq, Repr

/-- observed result of constructing an id, encoding it, decoding the bytes back, converting to a
    CID (kinds that have one), converting the CID back, and re-reading the CID's bytes -/
inductive NewObs where
  | err
  | ok (bytes : Bytes) (back : Option Id) (cid : Option CidObs) (cidBack : Option Id) (cidRead : Option Id)

/-- **every valid id encodes to bytes and to a CID that decode back to the same id**; construction
    fails exactly for height 0 (the other fields are typed in Rust) -/
def specNew (id : Id) : NewObs → Bool
  | .err => id.height == 0
  | .ok bytes back cid cidBack cidRead =>
    id.height != 0 && bytes.length == id.kind.size && parse id.kind bytes == some id && back == some id &&
    (match id.kind.cidCodes with
     | none => cid == none
     | some (codec, code) =>
       cid == some ⟨1, codec, code, bytes⟩ && cidBack == some id && cidRead == some id)

/-- **decoding accepts exactly the well-formed encodings** (right length, non-zero height, valid
    namespace) and returns the id they denote; re-encoding gives the same bytes -/
def specDecode (k : Kind) (buf : Bytes) (obs : Option (Id × Bytes)) : Bool :=
  match obs, parse k buf with
  | none, none => true
  | some (id, re), some id' => id == id' && re == buf
  | _, _ => false

/-- **CID conversion accepts exactly the right codec, multihash code and a well-formed digest** -/
def specOfCid (k : Kind) (c : CidObs) (obs : Option Id) : Bool :=
  match k.cidCodes with
  | none => true
  | some (codec, code) =>
    let expect := if c.codec = codec ∧ c.code = code then parse k c.digest else none
    obs == expect

end Lumina.Spec.C15

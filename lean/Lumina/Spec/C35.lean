/-
  C35 — The pruner only removes blocks that are safe to remove.

  "The pruner never removes a header that is inside the pruning window, a header inside the
   sampling window that is unsampled or borders an unsynced gap, or a header whose sampling is in
   progress; for every header it removes it first removes from the blockstore every CID recorded
   in that header's sampling metadata."

  Abstract objects: finite sets of heights as lists (stored, pruned = synced but no longer
  stored, sampled), a header time for every height, the two cutoffs (a header is inside a window
  iff its time is newer than the window's cutoff), the `Daser`'s answers (`true` = sampling not
  in progress, removal granted) and the observed effect log.  Neither `BlockRanges` nor the
  model's functions are mentioned.  Import-free.
-/
namespace Lumina.Spec.C35

/-- what the pruner was observed to do to the two stores, in order -/
inductive Ev where
  /-- `blockstore.remove(cid)` -/
  | cid (c : Nat)
  /-- `store.remove_height(h)` -/
  | height (h : Nat)
deriving DecidableEq, Repr

structure View where
  stored : List Nat
  pruned : List Nat
  sampled : List Nat
  time : Nat → Nat
  /-- cutoff of the sampling window -/
  sc : Nat
  /-- cutoff of the pruning window -/
  pc : Nat

/-- synced = stored now or pruned earlier -/
def View.synced (v : View) (h : Nat) : Bool := v.stored.contains h || v.pruned.contains h

/-- `h` borders an unsynced gap: the height below or above it was never synced -/
def View.bordersGap (v : View) (h : Nat) : Bool := !(v.synced (h - 1)) || !(v.synced (h + 1))

def View.insidePruningWindow (v : View) (h : Nat) : Bool := decide (v.pc < v.time h)
def View.insideSamplingWindow (v : View) (h : Nat) : Bool := decide (v.sc < v.time h)

/-- may `h` be removed?  `granted` = the `Daser` said (last) that no sampling of `h` is in progress -/
def View.removable (v : View) (granted : Nat → Bool) (h : Nat) : Bool :=
  v.stored.contains h &&
  !(v.insidePruningWindow h) &&
  (if v.insideSamplingWindow h then v.sampled.contains h && !(v.bordersGap h)
   else v.sampled.contains h || granted h) &&
  -- never a header whose sampling is in progress: unsampled ⇒ the Daser must have granted it
  (v.sampled.contains h || granted h)

/-- a batch returned by `get_next_prunable_batch`, with the `Daser`'s answers during that call -/
def batchOK (v : View) (answers : List (Nat × Bool)) (batch : List Nat) : Bool :=
  batch.all (fun h => v.removable (fun x => answers.contains (x, true)) h) &&
  answers.all (fun a => a.2 || !(batch.contains a.1))

/-- last answer of the `Daser` about `h` in a log of answers (false when never asked) -/
def lastAnswer (answers : List (Nat × Bool)) (h : Nat) : Bool :=
  match (answers.filter (fun a => a.1 == h)).getLast? with
  | some a => a.2
  | none => false

/-- walk the effect log: every `height h` must come after `cid c` for every `c` recorded for `h` -/
def orderOK (cids : Nat → List Nat) : List Ev → List Nat → Bool
  | [], _ => true
  | Ev.cid c :: rest, seen => orderOK cids rest (c :: seen)
  | Ev.height h :: rest, seen => (cids h).all (fun c => seen.contains c) && orderOK cids rest seen

def removedHeights : List Ev → List Nat
  | [] => []
  | Ev.cid _ :: rest => removedHeights rest
  | Ev.height h :: rest => h :: removedHeights rest

/-- a whole observed run of the pruner loop from the store `v` (the pruner's own removals do not
    change `removable` of the remaining heights): every removed height was removable, given the
    `Daser`'s last answer about it, and the blockstore removals come first -/
def runOK (v : View) (cids : Nat → List Nat) (answers : List (Nat × Bool)) (log : List Ev) : Bool :=
  (removedHeights log).all (fun h => v.removable (lastAnswer answers) h) && orderOK cids log []

end Lumina.Spec.C35

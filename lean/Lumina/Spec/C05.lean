/-
  C05 — Row retrieval returns exactly the committed row.

  Decidable checkers over observed results, independent of the model.  The committed row is the plain list of
  share byte strings of row `i` of the square.
-/
import Lumina.Model.Util

namespace Lumina.Spec.C05
open Lumina.Util

/-- soundness: "accepts a row only if its shares are exactly row i of the square committed by the DAH";
    `committed = none` means no row is committed at that index (then nothing may be accepted) -/
def specVerify (committed : Option (List Bytes)) (shares : List Bytes) (accepted : Bool) : Bool :=
  !accepted || committed == some shares

/-- round trip: "encoding a row and decoding it (from its left half, or reconstructing from its right half)
    yields the same row" -/
def specRoundTrip (row : List Bytes) (decoded : Option (List Bytes)) : Bool :=
  decoded == some row

end Lumina.Spec.C05

/-
  C37 — Header subscriptions deliver a gap-free increasing stream.

  The property as decidable checkers over what is OBSERVED: the heights a subscriber (subscribed
  before the first head, keeping up) has received so far, the first network head, and the set of
  heights the store holds.  Nothing here mentions the model.
-/
namespace Lumina.Spec.C37

/-- "strictly increasing, consecutive heights starting [at] that head, each at most once":
    the received log is exactly `head, head+1, head+2, …` -/
def specStream (head : Nat) (log : List Nat) : Bool :=
  log == List.range' head log.length

/-- "only after it was stored": everything just received is in the store -/
def specStored (stored : List Nat) (received : List Nat) : Bool :=
  received.all (fun h => stored.contains h)

/-- the largest `H` such that every height in `(head, H]` is stored (`fuel` ≥ number of stored heights) -/
def reach (stored : List Nat) : Nat → Nat → Nat
  | head, 0 => head
  | head, fuel + 1 => if stored.contains (head + 1) then reach stored (head + 1) fuel else head

/-- "every height up to H once all heights up to H above the initial head have been inserted":
    the last received height is at least the largest such `H` -/
def specComplete (head : Nat) (stored : List Nat) (log : List Nat) : Bool :=
  decide (reach stored head stored.length + 1 ≤ head + log.length)

end Lumina.Spec.C37

/-
  C36 — Window-edge search finds the newest header outside the window.

  "For stored headers whose times increase with height, the pruner's window search, given no
   previous answer or an answer that was correct for an earlier cutoff, returns a stored height
   whose time is not newer than the cutoff and above which no stored header is older than the
   cutoff.  It returns nothing only if no stored header is strictly older than the cutoff."

  The spec speaks about a finite set of stored heights (a list), a time for every height, a
  cutoff and the observed answer.  It mentions neither `BlockRanges` nor the model's functions.
  Import-free.
-/
namespace Lumina.Spec.C36

/-- times of stored headers increase with height -/
def timesIncrease (stored : List Nat) (time : Nat → Nat) : Bool :=
  stored.all fun a => stored.all fun b => !(decide (a < b)) || decide (time a < time b)

/-- `h` is a right answer for `cutoff`: stored, not newer than the cutoff, and no stored header
    above it is older than the cutoff -/
def rightEdge (stored : List Nat) (time : Nat → Nat) (cutoff : Nat) (h : Nat) : Bool :=
  stored.contains h && decide (time h ≤ cutoff) &&
    stored.all fun h' => !(decide (h < h')) || !(decide (time h' < cutoff))

/-- "nothing" is a right answer only if no stored header is strictly older than the cutoff -/
def nothingOlder (stored : List Nat) (time : Nat → Nat) (cutoff : Nat) : Bool :=
  stored.all fun h => !(decide (time h < cutoff))

/-- the property's verdict on an observed answer of the search -/
def answerOK (stored : List Nat) (time : Nat → Nat) (cutoff : Nat) (answer : Option Nat) : Bool :=
  match answer with
  | some h => rightEdge stored time cutoff h
  | none => nothingOlder stored time cutoff

/-- A previous answer the search may be given: none, or a height `p ≥ 1` such that every header
    stored now at or below `p` is not newer than the cutoff.  (An answer that was right for an
    earlier cutoff has this property when times increase with height: `Props/C36.lean`,
    `admissible_of_earlier_answer`.) -/
def admissible (stored : List Nat) (time : Nat → Nat) (cutoff : Nat) (prev : Option Nat) : Bool :=
  match prev with
  | none => true
  | some p => decide (1 ≤ p) && stored.all fun h => !(decide (h ≤ p)) || decide (time h ≤ cutoff)

/-- full checker: under the property's preconditions the answer must be right -/
def specOK (stored : List Nat) (time : Nat → Nat) (cutoff : Nat) (prev : Option Nat)
    (answer : Option Nat) : Bool :=
  !(timesIncrease stored time && admissible stored time cutoff prev) ||
    answerOK stored time cutoff answer

end Lumina.Spec.C36

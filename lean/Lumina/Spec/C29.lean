/-
  C29 — Header-ex server answers every request correctly without crashing.

  "For any stored headers and any request from a peer, the server responds without panicking:
   a head request with the stored head or not-found; a height request with the longest run of
   consecutive stored headers starting at the origin, capped at min(amount, 512), or a single
   not-found; a hash request with that header or not-found; an invalid request with a single
   invalid response."

  Decidable checker over the OBSERVED answer.  The store is described by its entries
  `(height, hash, encoded header)`; nothing here refers to the model.
-/
import Lumina.Model.Util

namespace Lumina.Spec.C29
open Lumina.Util

structure Entry where
  height : Nat
  hash : Bytes
  body : Bytes
  deriving DecidableEq, Repr

inductive Resp where
  | ok (body : Bytes)
  | notFound
  | invalid
  deriving DecidableEq, Repr

inductive Obs where
  | responses (l : List Resp)
  | panic
  deriving DecidableEq, Repr

/-- the request as a peer sends it -/
inductive Req where
  | noData (amount : Nat)
  | origin (origin amount : Nat)
  | hash (hash : Bytes) (amount : Nat)
  deriving DecidableEq, Repr

/-- header stored at a height, if any -/
def storedAt (es : List Entry) (h : Nat) : Option Bytes :=
  (es.find? (fun e => e.height == h)).map (·.body)

def storedWithHash (es : List Entry) (hash : Bytes) : Option Bytes :=
  (es.find? (fun e => e.hash == hash)).map (·.body)

/-- `b` is the encoded header of a stored entry of greatest height -/
def isHead (es : List Entry) (b : Bytes) : Bool :=
  es.any (fun e => e.body == b && es.all (fun e' => e'.height ≤ e.height))

/-- the answer to a height request: `l[i]` is the header stored at `origin + i`, for every `i` -/
def isRunFrom (es : List Entry) (origin : Nat) : List Resp → Bool
  | [] => true
  | r :: rest =>
    (match storedAt es origin with
     | some b => r == .ok b
     | none => false) && isRunFrom es (origin + 1) rest

def specServe (es : List Entry) (req : Req) (o : Obs) : Bool :=
  match o with
  | .panic => false
  | .responses l =>
    match req with
    | .origin origin amount =>
      if amount = 0 then l == [.invalid]
      else if origin = 0 then
        if amount = 1 then
          -- head request
          if es.isEmpty then l == [.notFound]
          else match l with
            | [.ok b] => isHead es b
            | _ => false
        else l == [.invalid]
      else
        -- height request
        let cap := min amount 512
        if (storedAt es origin).isNone then l == [.notFound]
        else
          decide (1 ≤ l.length) && decide (l.length ≤ cap) && isRunFrom es origin l &&
            (l.length == cap || (storedAt es (origin + l.length)).isNone)
    | .hash h amount =>
      if h.length = 32 ∧ amount = 1 then
        l == [match storedWithHash es h with | some b => .ok b | none => .notFound]
      else l == [.invalid]
    | .noData _ => l == [.invalid]

end Lumina.Spec.C29

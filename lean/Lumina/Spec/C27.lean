/-
  C27 — Verified header range requests terminate and never panic.

  "Requesting the verified headers following a valid header returns promptly for an amount of
   zero, never panics for any amount, and, when the network serves every requested header,
   returns exactly those headers."

  Stated over the observed outcome of one call.  Headers of the served chain are identified by
  their height.  A hang is observed through a step budget (`fuel` answered requests).
-/
namespace Lumina.Spec.C27

structure In where
  /-- `from` passes `validate()` -/
  fromValid : Bool
  fromHeight : Nat
  /-- `from` is a header of the chain the network serves -/
  sameChain : Bool
  amount : Nat
  /-- the peers hold heights `1..=chainLen` … -/
  chainLen : Nat
  /-- … and every answer delivers at least one of the requested headers they hold (full or
      truncated answers; never NOT_FOUND / INVALID / an empty answer) -/
  progressing : Bool
  /-- step budget of the observation -/
  fuel : Nat
  deriving Repr

/-- `steps` = number of requests that had to be answered before the call returned -/
inductive Obs where
  | ok (heights : List Nat) (steps : Nat)
  | err (steps : Nat)
  | panic
  | hang
  deriving DecidableEq, Repr

/-- "the network serves every requested header": the peers hold all of them and every answer makes
    progress (and the observer waits long enough: one answered request per requested header is
    always sufficient) -/
def served (i : In) : Bool :=
  i.fromValid && i.sameChain && i.progressing && decide (1 ≤ i.amount) &&
  decide (i.fromHeight + i.amount ≤ i.chainLen) && decide (i.amount ≤ i.fuel)

/-- "promptly": an amount of zero returns without a single answered request; a served call returns
    within `amount` answered requests -/
def prompt (i : In) (steps : Nat) : Bool :=
  (!(i.amount == 0) || steps == 0) && (!served i || decide (steps ≤ i.amount))

def specOK (i : In) : Obs → Bool
  | .panic => false                                         -- never panics, for any amount
  | .hang => !(i.amount == 0) && !served i                  -- prompt for 0; served ⇒ returns
  | .ok hs steps =>                                         -- exactly the requested headers,
    hs == List.range' (i.fromHeight + 1) i.amount &&        -- and only if they verify against `from`
    (i.amount == 0 || i.sameChain) && prompt i steps
  | .err steps => !served i && prompt i steps

end Lumina.Spec.C27

/-
  C27 — Verified header range requests terminate and never panic.

  "Requesting the verified headers following a valid header returns promptly for an amount of
   zero, never panics for any amount, and, when the network serves every requested header,
   returns exactly those headers."

  Stated over the observed outcome of one call.  Headers of the served chain are identified by
  their height.  A hang is observed through a step budget (`fuel` answered requests).
-/
namespace Lumina.Spec.C27

structure In where
  /-- `from` passes `validate()` -/
  fromValid : Bool
  fromHeight : Nat
  /-- `from` is a header of the chain the network serves -/
  sameChain : Bool
  amount : Nat
  /-- the peers hold heights `1..=chainLen` … -/
  chainLen : Nat
  /-- … and answer every request with every requested header they hold -/
  allFull : Bool
  /-- step budget of the observation -/
  fuel : Nat
  deriving Repr

inductive Obs where
  | ok (heights : List Nat)
  | err
  | panic
  | hang
  deriving DecidableEq, Repr

/-- "the network serves every requested header" (and the observer waits long enough: one answered
    request per requested header is always sufficient) -/
def served (i : In) : Bool :=
  i.fromValid && i.sameChain && i.allFull && decide (1 ≤ i.amount) &&
  decide (i.fromHeight + i.amount ≤ i.chainLen) && decide (i.amount ≤ i.fuel)

def specOK (i : In) : Obs → Bool
  | .panic => false                                         -- never panics, for any amount
  | .hang => !(i.amount == 0) && !served i                  -- prompt for 0; served ⇒ returns
  | .ok hs =>                                               -- exactly the requested headers,
    hs == List.range' (i.fromHeight + 1) i.amount &&        -- and only if they verify against `from`
    (i.amount == 0 || i.sameChain)
  | .err => !served i

end Lumina.Spec.C27

/-
  C10 — Bitswap accepts Shwap blocks only when they verify against the DAH.

  "The Shwap multihasher used by bitswap yields the identifier hash of a received block only if the block's
  embedded identifier decodes, its container decodes, and the container verifies against the DAH of the stored header
  at the identifier's height; otherwise it reports an error."

  The property as a decidable checker over the OBSERVED result of one `hash(code, input)` call.  The vocabulary is
  the one the statement uses: the functions that decode an identifier from a CID, decode a container, look a header
  up, verify a container (these are the subjects of C15 and C04–C06; they are arguments here).  The multihasher
  model (`Lumina.Model.ShwapHasher`) is not mentioned.
-/
import Lumina.Model.Util

namespace Lumina.Spec.C10
open Lumina.Util

/-- observed outcome of one call -/
inductive Obs where
  /-- `Ok(multihash)`, as bytes -/
  | hash (h : Bytes)
  /-- `Err(UnknownMultihashCode)` -/
  | unknownCode
  /-- any other `Err(_)` -/
  | err
  | panic
  deriving DecidableEq, Repr

/-- the conjunction the property states, for one kind of block; `some h` = every condition holds and `h` is the
    identifier hash.
    `block`: the (cid bytes, container bytes) of the received block, if it is a block at all;
    `idOf`: the identifier embedded in the block's CID, if it decodes for this multihash code;
    `idHash`, `height`: its hash and its height; `container`: the decoded container;
    `dahAt`: the DAH of the stored header at a height; `verifies`: the container's verification. -/
def allows {Id C D : Type} (block : Option (Bytes × Bytes)) (idOf : Bytes → Option Id) (idHash : Id → Bytes)
    (height : Id → Nat) (container : Id → Bytes → Option C) (dahAt : Nat → Option D) (verifies : C → Id → D → Bool) :
    Option Bytes :=
  match block with
  | none => none
  | some (cidBytes, containerBytes) =>
    match idOf cidBytes with
    | none => none
    | some id =>
      match container id containerBytes, dahAt (height id) with
      | some c, some dah => if verifies c id dah then some (idHash id) else none
      | _, _ => none

/-- `knownCode = false`: the only allowed outcome is `UnknownMultihashCode`.  Otherwise the hash is yielded exactly
    when everything the property lists holds, and it is the identifier's hash; else an error (not a panic). -/
def specHash (knownCode : Bool) (allowed : Option Bytes) (o : Obs) : Bool :=
  if !knownCode then o == .unknownCode
  else
    match allowed with
    | some h => o == .hash h
    | none => o == .err

/-- `get_block_container`: the container is handed out exactly when the block's CID is the expected one -/
def specContainer {Cid : Type} [DecidableEq Cid] (block : Option (Bytes × Bytes)) (cidOf : Bytes → Option Cid) (expected : Cid)
    (o : Option Bytes) : Bool :=
  match block with
  | none => o == none
  | some (cidBytes, containerBytes) =>
    if cidOf cidBytes = some expected then o == some containerBytes else o == none

end Lumina.Spec.C10

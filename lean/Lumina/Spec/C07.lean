/-
  C07 — Bad-encoding fraud proofs are sound and complete.

  "A bad-encoding fraud proof validates against a header only if the indicated row or column of that block is
  genuinely not a Reed-Solomon codeword consistent with its root; for an honestly encoded block no fraud proof
  validates.  For a block whose axis is corrupted, a proof carrying at least half of that axis's shares, each proven
  at its own position, validates."

  Decidable checker over the OBSERVED outcome of one `validate(header)` call.  The facts it is evaluated with are
  facts about the block the header commits to and about how the proof was put together — not about the validator:
    `axis`          the shares of the indicated row/column of the committed square (`none`: the proof indicates no
                    axis of that square, e.g. index out of range);
    `enc`           the reference encoder (`k` data symbols ↦ `k` parity symbols);
    `honestProof`   the proof names that header's height and carries at least half of that axis's shares, each with an
                    inclusion proof for its own position.
-/
import Lumina.Model.Util

namespace Lumina.Spec.C07
open Lumina.Util

inductive Obs where
  /-- `Ok(())`: the fraud proof validates -/
  | ok
  /-- rejected -/
  | err
  | panic
  deriving DecidableEq, Repr

/-- the axis is a codeword: second half = parity of the first half -/
def isCodeword (enc : List Bytes → List Bytes) (axis : List Bytes) : Bool :=
  axis.length % 2 == 0 && axis.drop (axis.length / 2) == enc (axis.take (axis.length / 2))

/-- soundness, completeness, no panic -/
def specValidate (enc : List Bytes → List Bytes) (axis : Option (List Bytes)) (honestProof : Bool) (o : Obs) : Bool :=
  o != .panic &&
  (match axis with
   | none => o != .ok                                         -- no such axis: nothing can be proven about it
   | some a =>
     if isCodeword enc a then o != .ok                        -- sound: a correctly encoded axis is never "proven" bad
     else (if honestProof then o == .ok else true))           -- complete: an honest proof of a corrupted axis validates

end Lumina.Spec.C07

/-
  C03 — Commit verification enforces the voting-power thresholds.

  The property stated independently of the model, as decidable checkers over what was OBSERVED
  (accepted / not accepted).  The numbers 2/3 and 1/3 are quoted literally.

  Input, in the property's own terms:
    * `powers`  : voting power of validator 0, 1, … of the set (the set's total power is their sum);
    * `vaddrs`  : their addresses;
    * `entries` : the commit's entries in order: is it a block-commit vote (flag "commit")
                  carrying a signature, and the address written in it;
    * `valid i j` : "the signature of entry j is a valid signature of validator i for that block"
                  (the idealised signature oracle; arbitrary).
-/
namespace Lumina.Spec.C03

structure Entry where
  /-- block-commit flag (not absent, not nil) -/
  isCommit : Bool
  /-- carries a signature -/
  hasSig : Bool
  addr : List UInt8
  deriving Repr, DecidableEq

structure Input where
  powers : List Nat
  vaddrs : List (List UInt8)
  entries : List Entry
  height : Nat
  commitHeight : Nat

def total (inp : Input) : Nat := inp.powers.sum

/-- what stands for "no vote" when the commit has no entry at that position -/
def noVote : Entry := { isCommit := false, hasSig := false, addr := [] }

/-- entry `j` of the commit -/
def entry (inp : Input) (j : Nat) : Entry := inp.entries.getD j noVote

/-- power of validator `i` -/
def power (inp : Input) (i : Nat) : Nat := inp.powers.getD i 0

/-- `Σ_{i < n} f i` -/
def sumBelow (n : Nat) (f : Nat → Nat) : Nat := ((List.range n).map f).sum

/-- validator `i` has signed for the block in the LIGHT sense: the entry at its own index is a
    block-commit vote with a valid signature of validator `i` -/
def signedLight (inp : Input) (valid : Nat → Nat → Bool) (i : Nat) : Bool :=
  (entry inp i).isCommit && (entry inp i).hasSig && valid i i

/-- power of the validators with valid signatures for the block; the sum ranges over validator
    indices, so no validator is counted twice -/
def validPowerLight (inp : Input) (valid : Nat → Nat → Bool) : Nat :=
  sumBelow inp.powers.length (fun i => if signedLight inp valid i then power inp i else 0)

/-- **light soundness**: accepted only if validators with valid signatures for that block carry
    STRICTLY MORE THAN TWO THIRDS of the set's total power -/
def specLightSound (inp : Input) (valid : Nat → Nat → Bool) (accepted : Bool) : Bool :=
  !accepted || decide (3 * validPowerLight inp valid > 2 * total inp)

/-- trusted validator `i` has a valid block-commit signature somewhere in the commit (entries are
    matched to trusted validators by the address written in them) -/
def signedTrusting (inp : Input) (valid : Nat → Nat → Bool) (i : Nat) : Bool :=
  (List.range inp.entries.length).any (fun j =>
    (entry inp j).isCommit && (entry inp j).hasSig && (inp.vaddrs[i]? == some (entry inp j).addr) && valid i j)

def validPowerTrusting (inp : Input) (valid : Nat → Nat → Bool) : Nat :=
  sumBelow inp.powers.length (fun i => if signedTrusting inp valid i then power inp i else 0)

/-- **trusting soundness**: accepted only if DISTINCT trusted validators (the sum ranges over
    validator indices) with valid signatures carry STRICTLY MORE THAN ONE THIRD -/
def specTrustingSound (inp : Input) (valid : Nat → Nat → Bool) (accepted : Bool) : Bool :=
  !accepted || decide (3 * validPowerTrusting inp valid > 1 * total inp)

/-- the hypothesis of the "exactly when" clause: right height, one entry per validator, all
    block-commit signatures (present and) valid -/
def wellFormedLight (inp : Input) (valid : Nat → Nat → Bool) : Bool :=
  inp.height == inp.commitHeight && inp.entries.length == inp.powers.length &&
  (List.range inp.entries.length).all (fun j =>
    !(entry inp j).isCommit || ((entry inp j).hasSig && valid j j))

/-- signing power: the validators whose entry is a block-commit vote -/
def signingPower (inp : Input) : Nat :=
  sumBelow inp.powers.length (fun i => if (entry inp i).isCommit then power inp i else 0)

/-- **exactly when**: under `wellFormedLight`, accepted ⇔ signing power exceeds two thirds -/
def specLightExact (inp : Input) (valid : Nat → Nat → Bool) (accepted : Bool) : Bool :=
  !wellFormedLight inp valid || (accepted == decide (3 * signingPower inp > 2 * total inp))

/-! ### "exactly when" for trusting verification -/

/-- `i` is THE trusted validator the address `a` refers to: it carries that address and no
    validator before it does (tendermint sets have distinct addresses; if an address is repeated
    the first holder is meant) -/
def isOwner (inp : Input) (i : Nat) (a : List UInt8) : Bool :=
  (inp.vaddrs[i]? == some a) && (List.range i).all (fun k => inp.vaddrs[k]? != some a)

/-- the address belongs to a trusted validator -/
def trustedAddr (inp : Input) (a : List UInt8) : Bool := inp.vaddrs.contains a

/-- trusted validator `i` is a signer: some block-commit entry of the commit carries its address -/
def signerTrusting (inp : Input) (i : Nat) : Bool :=
  (List.range inp.entries.length).any (fun j => (entry inp j).isCommit && isOwner inp i (entry inp j).addr)

/-- power of the DISTINCT trusted signers (the sum ranges over validator indices) -/
def trustedSigningPower (inp : Input) : Nat :=
  sumBelow inp.powers.length (fun i => if signerTrusting inp i then power inp i else 0)

/-- no trusted validator is duplicated among the entries: no later block-commit entry carries the
    address of the same trusted validator (the code answers such a commit with a "Double vote"
    ERROR when it reaches the second entry; it does not skip it) -/
def noDoubleVote (trusted : List UInt8 → Bool) : List Entry → Bool
  | [] => true
  | e :: es =>
    (!(e.isCommit && trusted e.addr) || es.all (fun e' => !(e'.isCommit && e'.addr == e.addr)))
      && noDoubleVote trusted es

/-- the hypothesis of the "exactly when" clause for trusting verification: every block-commit
    entry carries a signature, the entries of trusted validators carry VALID signatures of that
    validator, and no trusted validator is duplicated.  (There is no height: trusting
    verification does not look at one.) -/
def wellFormedTrusting (inp : Input) (valid : Nat → Nat → Bool) : Bool :=
  (List.range inp.entries.length).all (fun j =>
    !(entry inp j).isCommit ||
      ((entry inp j).hasSig &&
        (List.range inp.powers.length).all (fun i => !isOwner inp i (entry inp j).addr || valid i j)))
  && noDoubleVote (trustedAddr inp) inp.entries

/-- **exactly when (trusting)**: under `wellFormedTrusting`, accepted ⇔ the distinct trusted
    signers carry STRICTLY MORE THAN ONE THIRD of the trusted set's total power -/
def specTrustingExact (inp : Input) (valid : Nat → Nat → Bool) (accepted : Bool) : Bool :=
  !wellFormedTrusting inp valid || (accepted == decide (3 * trustedSigningPower inp > 1 * total inp))

/-- trusting soundness at an arbitrary trust level `n/d` (the property's 1/3 is `n = 1, d = 3`):
    accepted only if distinct trusted validators with valid signatures carry strictly more than
    `n/d` of the total (`d·power > n·total`) -/
def specTrustingSoundLevel (n d : Nat) (inp : Input) (valid : Nat → Nat → Bool) (accepted : Bool) : Bool :=
  !accepted || decide (d * validPowerTrusting inp valid > n * total inp)

/-- "exactly when" at an arbitrary trust level: under `wellFormedTrusting`, accepted ⇔ the level is
    usable (`d ≠ 0`, `n·total` fits in 64 bits) and the distinct trusted signers carry strictly more
    than `n/d` of the total -/
def specTrustingExactLevel (n d : Nat) (inp : Input) (valid : Nat → Nat → Bool) (accepted : Bool) : Bool :=
  !wellFormedTrusting inp valid ||
    (accepted == (decide (0 < d) && decide (n * total inp < 18446744073709551616) &&
                  decide (d * trustedSigningPower inp > n * total inp)))

end Lumina.Spec.C03

/-
  C25 — Syncer never re-requests history behind a pruned window edge.

  "The syncer never requests a batch of headers lying below a synced header that is older than
  the sampling window, whether that header is still stored or has since been pruned.  In
  particular, after the pruner removes the header that bounds the window, the syncer does not
  keep re-requesting the gap below it."

  Decidable checker over the OBSERVED decision of `fetch_next_batch` (nothing, or the requested
  batch `a..=b`) and a view of the node at that moment: which heights are stored, which were
  pruned, and for every synced height whether its header is older than the sampling window.
  Independent of the model (own membership test, no model function mentioned).  Import-free.
-/
namespace Lumina.Spec.C25

abbrev R := List (Nat × Nat)

def member (rs : R) (h : Nat) : Bool := rs.any (fun r => decide (r.1 ≤ h) && decide (h ≤ r.2))

structure View where
  /-- stored heights (inclusive ranges) -/
  stored : R
  /-- heights that were stored once and have been pruned since -/
  pruned : R
  /-- the header at this height is older than the sampling window -/
  old : Nat → Bool

/-- synced = stored or pruned -/
def synced (v : View) (h : Nat) : Bool := member v.stored h || member v.pruned h

/-- the heights of the range `r` that lie strictly above `b` -/
def above (b : Nat) (r : Nat × Nat) : List Nat :=
  List.range' (max r.1 (b + 1)) (r.2 + 1 - max r.1 (b + 1))

/-- no synced header above height `b` (stored or pruned) is older than the sampling window -/
def noOldSyncedAbove (v : View) (b : Nat) : Bool :=
  (v.stored ++ v.pruned).all (fun r => (above b r).all (fun h => !v.old h))

/-- the observed outcome of one `fetch_next_batch` -/
inductive Obs where
  | nothing
  | request (a b : Nat)
deriving DecidableEq, Repr

/-- a requested batch is a non-empty range of real heights and does not lie below an old synced header -/
def specFetch (v : View) : Obs → Bool
  | .nothing => true
  | .request a b => decide (1 ≤ a) && decide (a ≤ b) && noOldSyncedAbove v b

/-- the failing class of the finding fixed in /repo (`fix:` commit, see known_findings.json):
    the header just above the batch is synced, not stored any more (pruned), and old -/
def belowPrunedOldBound (v : View) : Obs → Bool
  | .nothing => false
  | .request _ b => !member v.stored (b + 1) && member v.pruned (b + 1) && v.old (b + 1)

end Lumina.Spec.C25

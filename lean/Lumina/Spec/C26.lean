/-
  C26 — A header session returns exactly the requested range.

  "For any requested range and any schedule of peer responses in which every response is a
   prefix of its request (possibly empty) or a header-ex error, a header session that completes
   returns every height of the range exactly once in ascending order, and every request it
   issues is a non-empty sub-range of not-yet-received heights of at most 64 headers."

  Stated over what can be OBSERVED of a session (the requests it issues, the heights of the
  headers it finally returns) and a tracker of what the peers delivered so far.  Nothing here
  mentions the model.
-/
namespace Lumina.Spec.C26

/-- what the environment did so far -/
structure Track where
  /-- the requested range `start..=end` -/
  first : Nat
  last : Nat
  /-- heights delivered to the session so far -/
  received : List Nat
  /-- every response so far was a prefix of its request (or an error) and the range is non-empty -/
  admissible : Bool
  deriving Repr

def Track.start (first last : Nat) : Track :=
  { first, last, received := [], admissible := decide (1 ≤ first ∧ first ≤ last) }

/-- `hs` (heights of a response) is a prefix of the request `h, h+1, …, h+a-1` -/
def isPrefixOfRequest (h a : Nat) (hs : List Nat) : Bool :=
  decide (hs.length ≤ a) && hs == List.range' h hs.length

/-- a response to request `(h, a)` arrived -/
def Track.deliver (t : Track) (h a : Nat) (hs : List Nat) : Track :=
  { t with received := t.received ++ hs, admissible := t.admissible && isPrefixOfRequest h a hs }

/-- an issued request is a non-empty sub-range of the not-yet-received heights of the requested
    range, of at most 64 headers -/
def specRequest (t : Track) (q : Nat × Nat) : Bool :=
  decide (1 ≤ q.2) && decide (q.2 ≤ 64) &&
  decide (t.first ≤ q.1) && decide (q.1 + q.2 - 1 ≤ t.last) &&
  t.received.all (fun x => decide (x < q.1) || decide (q.1 + q.2 ≤ x))

def specRequests (t : Track) (qs : List (Nat × Nat)) : Bool := qs.all (specRequest t)

/-- a completed session returned every height of the range exactly once, ascending -/
def specResult (t : Track) (heights : List Nat) : Bool :=
  heights == List.range' t.first (t.last - t.first + 1)

end Lumina.Spec.C26

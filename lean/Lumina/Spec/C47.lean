/-
  C47 — Bech32 addresses round-trip and reject wrong kinds.

  "Account, validator and consensus addresses display as bech32 with their own prefix and parse
   back to the same address; parsing rejects other prefixes, bad checksums and wrong lengths."

  Stated independently of the model (`Lumina/Model/Bech32.lean`, which transcribes the Rust
  `bech32` crate's packed-residue engine and iterators): "bech32" here is the BIP-173 REFERENCE
  formulation (`bech32_polymod`, `bech32_hrp_expand`, the 32-character alphabet), and the
  prefixes, the 20-byte length and the 6-character checksum are quoted literally.

  Strings are lists of Unicode code points.
-/
import Lumina.Model.Util

namespace Lumina.Spec.C47
open Lumina.Util

abbrev Str := List Nat

def str (s : String) : Str := s.toList.map Char.toNat

inductive K where
  | account | validator | consensus
  deriving DecidableEq, Repr

/-- "their own prefix" -/
def K.pfx : K → Str
  | .account => str "celestia"
  | .validator => str "celestiavaloper"
  | .consensus => str "celestiavalcons"

/-- observed result of a parse: kind and 20-byte id, or an error -/
inductive Obs where
  | ok (k : K) (id : Bytes)
  | err
  deriving DecidableEq, Repr

/-! ### BIP-173 reference -/

def charset : Str := str "qpzry9x8gf2tvdw0s3jn54khce6mua7l"

def generator : List Nat := [0x3b6a57b2, 0x26508e6d, 0x1ea119fa, 0x3d4233dd, 0x2a1462b3]

/-- one round of `bech32_polymod`:
    `b = chk >> 25; chk = (chk & 0x1ffffff) << 5 ^ v; for i in range(5): chk ^= GEN[i] if ((b >> i) & 1) else 0` -/
def polymodStep (chk v : Nat) : Nat :=
  let b := chk >>> 25
  let chk := ((chk &&& 0x1ffffff) <<< 5) ^^^ v
  (List.range 5).foldl (fun c i => if (b >>> i) &&& 1 = 1 then c ^^^ generator.getD i 0 else c) chk

def polymod (values : List Nat) : Nat := values.foldl polymodStep 1

/-- `bech32_hrp_expand` -/
def hrpExpand (hrp : Str) : List Nat := hrp.map (· >>> 5) ++ [0] ++ hrp.map (· &&& 31)

def lower (c : Nat) : Nat := if 65 ≤ c ∧ c ≤ 90 then c + 32 else c

def isBech32Char (c : Nat) : Bool := charset.contains (lower c)

/-- value of a bech32 character (either case) -/
def charValue (c : Nat) : Nat := charset.idxOf (lower c)

/-- BIP-173 checksum constant (1) or BIP-350 constant (0x2bc830a3): `bech32::decode`, which the
    address parser is built on, documents that it accepts either, so a "bad checksum" is one that
    is valid under neither -/
def checksumOK (hrp : Str) (dataChars : Str) : Bool :=
  let v := polymod (hrpExpand hrp ++ dataChars.map charValue)
  v == 1 || v == 0x2bc830a3

/-- the strict BIP-173 checksum (what `Display` must produce) -/
def checksumBech32 (hrp : Str) (dataChars : Str) : Bool :=
  polymod (hrpExpand hrp ++ dataChars.map charValue) == 1

/-! ### the property -/

/-- "display as bech32 with their own prefix": prefix, separator `1`, 32 + 6 lower-case alphabet
    characters (160 bits = 32 groups of five), BIP-173 checksum valid -/
def specDisplay (k : K) (s : Str) : Bool :=
  let p := k.pfx
  let d := s.drop (p.length + 1)
  s.take p.length == p && (s.drop p.length).head? == some 49 &&
  d.length == 38 && d.all (fun c => charset.contains c) && checksumBech32 p d

/-- "… and parse back to the same address": parsing the displayed string as `Address` or as the
    address type of its own kind gives back kind and id; "reject wrong kinds": parsing it as one
    of the other two address types is an error -/
def specRoundTrip (k : K) (id : Bytes) (as : Option K) (o : Obs) : Bool :=
  if as == none || as == some k then o == .ok k id else o == .err

/-- the five bits of a bech32 value, most significant first -/
def bits5 (v : Nat) : List Nat := [v / 16 % 2, v / 8 % 2, v / 4 % 2, v / 2 % 2, v % 2]

/-- complete groups of eight bits as bytes (an incomplete trailing group is dropped) -/
def bytesOfBits : List Nat → List Nat
  | b0 :: b1 :: b2 :: b3 :: b4 :: b5 :: b6 :: b7 :: rest =>
    (b0 * 128 + b1 * 64 + b2 * 32 + b3 * 16 + b4 * 8 + b5 * 4 + b6 * 2 + b7) :: bytesOfBits rest
  | _ => []

/-- the payload bytes of a sequence of 5-bit values: BIP-173's 5→8 bit regrouping (bit string of
    the values cut into bytes) -/
def regroup8 (vals : List Nat) : List Nat := bytesOfBits (vals.flatMap bits5)

/-- "parsing rejects other prefixes, bad checksums and wrong lengths" (and wrong kinds): whatever
    is ACCEPTED is, literally, `prefix-of-its-kind ++ "1" ++ data` where `data` consists of bech32
    characters, carries a valid checksum over (prefix, data), and holds exactly 20 bytes
    (`⌊5·(|data| − 6)/8⌋ = 20`); the returned id is EXACTLY the 8-bit regrouping of the payload
    characters (data without the six checksum characters); a typed parser only accepts its own
    kind. -/
def specParse (as : Option K) (s : Str) (o : Obs) : Bool :=
  match o with
  | .err => true
  | .ok k id =>
    let p := k.pfx
    let d := s.drop (p.length + 1)
    id.length == 20 &&
    (as == none || as == some k) &&
    s.take p.length == p && (s.drop p.length).head? == some 49 &&
    d.all isBech32Char &&
    6 ≤ d.length && checksumOK p d &&
    5 * (d.length - 6) / 8 == 20 &&
    id == (regroup8 ((d.take (d.length - 6)).map charValue)).map UInt8.ofNat

/-- shape of a displayed address of kind `k` -/
def displayed (k : K) (s : Str) : Bool :=
  let p := k.pfx
  let d := s.drop (p.length + 1)
  s.take p.length == p && (s.drop p.length).head? == some 49 && d.length == 38 &&
  d.all (fun c => charset.contains c)

/-- "all single-character corruptions": if `s` is a displayed address that parses, replacing the
    character at `pos` by a different character `c` must be rejected -/
def specCorrupt (s : Str) (pos c : Nat) (orig mutated : Obs) : Bool :=
  match orig with
  | .err => true
  | .ok k _ =>
    if displayed k s && pos < s.length && s.getD pos 0 != c then mutated == .err else true

end Lumina.Spec.C47

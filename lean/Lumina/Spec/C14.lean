/-
  C14 — Namespaces are validated, ordered and round-trip.

  The property, stated independently of the model, as decidable checkers over observed
  results.  The numbers (29, 18, 27, 10, 0xff) are the property's own; they are *not* taken
  from the generated constants — the theorems in `Props/C14.lean` connect the two.
-/
import Lumina.Model.Util

namespace Lumina.Spec.C14
open Lumina.Util

/-- observed result of a constructor: the raw bytes of the namespace, or an error -/
inductive Obs where
  | ok (b : Bytes)
  | err
  deriving DecidableEq, Repr

/-- version 0 with an 18-zero-byte id prefix -/
def validV0 (bs : Bytes) : Bool :=
  bs.length == 29 && bs.headD 1 == 0 && ((bs.drop 1).take 18).all (fun x => x == 0)

/-- version 255 with a 27-0xff-byte id prefix -/
def validV255 (bs : Bytes) : Bool :=
  bs.length == 29 && bs.headD 0 == 255 && ((bs.drop 1).take 27).all (fun x => x == 255)

def validRaw (bs : Bytes) : Bool := validV0 bs || validV255 bs

/-- "constructed from raw bytes only if …" and "its byte form round-trips" -/
def specFromRaw (bs : Bytes) : Obs → Bool
  | .ok x => validRaw bs && x == bs
  | .err => !validRaw bs

/-- `new version id` behaves as `from_raw (version :: id)` for full-length ids; the version-0
    shorthand (id of at most 10 bytes) denotes the id left-padded with zeros -/
def specNew (v : UInt8) (id : Bytes) : Obs → Bool
  | .ok x =>
    if id.length == 28 then validRaw (v :: id) && x == v :: id
    else v == 0 && id.length ≤ 10 && x == List.replicate (29 - id.length) 0 ++ id
  | .err =>
    if id.length == 28 then !validRaw (v :: id) else !(v == 0 && id.length ≤ 10)

/-- version-0 shorthand round trip: the 10-byte user id read back is the shorthand, zero-padded -/
def specIdV0 (ns : Bytes) : Option Bytes → Bool
  | some x => ns.headD 1 == 0 && x == ns.drop 19
  | none => ns.headD 1 != 0

/-- lexicographic byte order (core `List` order on `UInt8` lists is `List.Lex`) -/
def specCmp (a b : Bytes) (o : Ordering) : Bool :=
  match o with
  | .lt => decide (a < b)
  | .eq => a == b
  | .gt => decide (b < a)

def maxPrimaryReserved : Bytes := List.replicate 28 0 ++ [255]
def minSecondaryReserved : Bytes := List.replicate 28 255 ++ [0]

/-- reserved exactly when ≤ the maximal primary reserved or ≥ the minimal secondary reserved -/
def specIsReserved (ns : Bytes) (o : Bool) : Bool :=
  o == (decide (ns ≤ maxPrimaryReserved) || decide (minSecondaryReserved ≤ ns))

/-- serde round trip: deserialising the serialised form gives the namespace back -/
def specSerde (ns : Bytes) : Obs → Bool
  | .ok x => x == ns
  | .err => false

end Lumina.Spec.C14

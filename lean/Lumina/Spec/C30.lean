/-
  C30 — Header-ex wire framing round-trips under any chunking.

  "Any request, and any list of responses that fits the size limit, written by the header-ex
   codec and read back through a stream delivering bytes in arbitrary chunks yields the same
   value; truncated or garbage streams yield an error."

  The property as decidable checkers over OBSERVED results, generic in the message type `α`
  (the theorems instantiate it with the modelled messages, the driver with the printed
  canonical form of what the real codec returned).  Nothing here mentions the model.

  Reading of the two informal words:
  * "fits the size limit": the bytes the writer produced are at most the reader's limit
    (1024 bytes for a request, 10 MiB for a response list);
  * "garbage": a stream that does not begin with a well-delimited frame — i.e. whose first bytes
    are not a base-128 length (at most 10 bytes, the tenth < 2) followed by at least that many
    bytes.  (Whether the delimited bytes are a protobuf message of the right type is decided by
    `prost`; that part is tied by the correspondence, not restated here.)
-/
import Lumina.Model.Util

namespace Lumina.Spec.C30
open Lumina.Util

inductive Obs (α : Type) where
  | ok (v : α)
  | err
  deriving DecidableEq, Repr

/-- written, not truncated, delivered in arbitrary chunks: the same value comes back (whenever the
    written bytes fit the limit) -/
def specRoundTrip {α} [DecidableEq α] (sent : α) (fits : Bool) (o : Obs α) : Bool :=
  !fits || o == .ok sent

/-- a truncated stream (a strict prefix of what was written) yields an error — FULL STRENGTH,
    requests and response lists alike -/
def specTruncated {α} [DecidableEq α] (o : Obs α) : Bool :=
  o == .err

/-- what the wire format of a response list can at best guarantee under truncation: an error, or a
    non-empty strict prefix of the list that was sent — never a value that was not sent -/
def specTruncatedWeak {α} [DecidableEq α] (sent : List α) (o : Obs (List α)) : Bool :=
  match o with
  | .err => true
  | .ok got => got.length < sent.length && got.length > 0 && got == sent.take got.length

/-- number of frames that lie completely within the first `cut` bytes of a stream made of frames of
    the given lengths -/
def completeCount : List Nat → Nat → Nat
  | [], _ => 0
  | l :: ls, cut => if l ≤ cut then 1 + completeCount ls (cut - l) else 0

/-- what reading the first `cut` bytes (a strict prefix) of a written response stream may at most
    yield if "error" is not demanded: an error when not even the first frame is complete, otherwise
    EXACTLY the responses whose frames are complete — no dropped frame, no invented value -/
def specTruncatedExact {α} [DecidableEq α] (frameLens : List Nat) (sent : List α) (cut : Nat)
    (o : Obs (List α)) : Bool :=
  let j := completeCount frameLens cut
  o == (if j = 0 then .err else .ok (sent.take j))

/-- textbook little-endian base-128 length: `(value, number of bytes used)`; at most 10 bytes,
    and the tenth may only contribute bit 63 -/
def specDelimiter (s : Bytes) : Option (Nat × Nat) :=
  let pre := s.takeWhile (fun b => b.toNat ≥ 128)
  let i := pre.length
  if i ≥ 10 then none
  else match s[i]? with
    | none => none
    | some last =>
      if i = 9 ∧ last.toNat ≥ 2 then none
      else
        let digits := pre.map (fun b => b.toNat % 128) ++ [last.toNat]
        some (digits.foldr (fun d acc => d + 128 * acc) 0, i + 1)

/-- the stream begins with a well-delimited frame -/
def wellDelimited (s : Bytes) : Bool :=
  match specDelimiter s with
  | some (len, used) => used + len ≤ s.length
  | none => false

/-- garbage streams yield an error: a value may be returned only if the stream begins with a
    well-delimited frame -/
def specGarbage (stream : Bytes) (isOk : Bool) : Bool :=
  !isOk || wellDelimited stream

end Lumina.Spec.C30

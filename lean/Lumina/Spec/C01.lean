/-
  C01 — Header validation binds signatures, validator set and DAH.

  The property in its own terms, as decidable checkers over OBSERVED verdicts.  Literal numbers:
  block protocol 11, chain id ≤ 50 bytes, genesis height 1, app versions 1..7, extended square
  width between 2 and 2·128 (app ≤ 5) or 2·512 (app 6, 7), two thirds.

  `View` = what the property talks about: the header's own statements (heights, hashes it carries),
  the hashes of the parts AS COMPUTED (block hash of the header, hash of the validator set, hash of
  the DAH — by the real code in the driver, by abstract functions in the theorems), the validator
  powers and the commit entries.  `valid i j` = "the signature of commit entry j is a valid
  signature of validator i for that block" (idealised oracle).
-/
import Lumina.Spec.C03

namespace Lumina.Spec.C01
open Lumina.Spec.C03 (Entry)

abbrev Hash := Option (List UInt8)

structure View where
  versionBlock : Nat
  versionApp : Nat
  chainIdLen : Nat
  height : Nat
  hasLastBlockId : Bool
  /-- hashes the header carries -/
  validatorsHash : Hash
  dataHash : Hash
  /-- the commit -/
  commitHeight : Nat
  commitBlockHash : Hash
  commitBlockIdZero : Bool
  /-- every entry that is not "absent" carries a signature -/
  entriesHaveSig : Bool
  entries : List Entry
  /-- the validator set -/
  powers : List Nat
  vaddrs : List (List UInt8)
  storedTotal : Nat
  hasProposer : Bool
  /-- the DAH -/
  rowCount : Nat
  colCount : Nat
  /-- hashes of the parts as computed -/
  headerHash : Hash
  valsetHash : Hash
  dahHash : Hash

def c03Input (v : View) : Lumina.Spec.C03.Input :=
  { powers := v.powers, vaddrs := v.vaddrs, entries := v.entries, height := v.height, commitHeight := v.commitHeight }

/-- supported app versions and their maximal ORIGINAL square width -/
def squareUpper (app : Nat) : Option Nat :=
  if 1 ≤ app ∧ app ≤ 5 then some 128 else if app = 6 ∨ app = 7 then some 512 else none

def widthOK (v : View) : Bool :=
  match squareUpper v.versionApp with
  | some w => v.rowCount == v.colCount && decide (2 ≤ v.rowCount) && decide (v.rowCount ≤ 2 * w)
  | none => false

/-- the parts are bound together: the header names this validator set and this DAH, the commit is
    for this header (height and block hash) -/
def bound (v : View) : Bool :=
  (v.valsetHash == v.validatorsHash) && (v.dahHash == v.dataHash) &&
  (v.commitHeight == v.height) && (v.commitBlockHash == v.headerHash)

/-- structural well-formedness (`validate_basic` level) -/
def wellFormed (v : View) : Bool :=
  (v.versionBlock == 11) && decide (v.chainIdLen ≤ 50) && decide (1 ≤ v.height) &&
  (v.hasLastBlockId == decide (v.height ≠ 1)) &&
  !v.commitBlockIdZero && !v.entries.isEmpty && v.entriesHaveSig &&
  !v.powers.isEmpty && v.hasProposer

/-- **a header produced and signed by a validator set holding the voting power**: well formed,
    parts bound together, one commit entry per validator, every block-commit signature valid, the
    signers hold strictly more than two thirds, supported app version and square width, and the set
    is as tendermint builds it (stored total = sum of powers ≤ i64::MAX / 8) -/
def honest (v : View) (valid : Nat → Nat → Bool) : Bool :=
  wellFormed v && bound v &&
  Lumina.Spec.C03.wellFormedLight (c03Input v) valid &&
  decide (3 * Lumina.Spec.C03.signingPower (c03Input v) > 2 * v.powers.sum) &&
  widthOK v && (v.storedTotal == v.powers.sum) && decide (v.storedTotal ≤ 1152921504606846975)

/-- **… is accepted by header validation** -/
def specHonestAccepted (v : View) (valid : Nat → Nat → Bool) (accepted : Bool) : Bool :=
  !honest v valid || accepted

/-- **validation binds**: an accepted header is well formed, its parts are bound together, and
    validators with valid signatures for its block hold more than two thirds -/
def specAcceptedBinds (v : View) (valid : Nat → Nat → Bool) (accepted : Bool) : Bool :=
  !accepted ||
    (wellFormed v && bound v && widthOK v &&
     Lumina.Spec.C03.specLightSound (c03Input v) valid true)

/-- the same without the voting-power clause (for sets whose stored total is not the sum of the
    powers — impossible through tendermint's constructors, possible through the `pub` fields) -/
def specAcceptedStructure (v : View) (accepted : Bool) : Bool :=
  !accepted || (wellFormed v && bound v && widthOK v)

/-- **changing any consensus-relevant part makes validation fail**: if the original is accepted,
    the changed one is not.  (Which pairs count as "changed in a consensus-relevant part" is decided
    by the caller: the driver compares the two headers field by field.) -/
def specMutation (acceptedOriginal acceptedChanged : Bool) : Bool :=
  !acceptedOriginal || !acceptedChanged

/-- power of the block-commit entries strictly before entry `k` -/
def powerBefore (v : View) (k : Nat) : Nat :=
  Lumina.Spec.C03.sumBelow k (fun i =>
    if (Lumina.Spec.C03.entry (c03Input v) i).isCommit then Lumina.Spec.C03.power (c03Input v) i else 0)

/-- entry `k` is one the 2/3 tally consumes: a block-commit vote reached before the tally exceeds
    two thirds.  (Entries after that point, and nil/absent entries, are never looked at by light
    verification — CometBFT's `VerifyCommitLight` semantics.) -/
def tallied (v : View) (k : Nat) : Bool :=
  (Lumina.Spec.C03.entry (c03Input v) k).isCommit && decide (k < v.powers.length) &&
  decide (3 * powerBefore v k ≤ 2 * v.storedTotal)

end Lumina.Spec.C01
